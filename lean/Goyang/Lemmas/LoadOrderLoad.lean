import Goyang.Lemmas.LoadOrderReg
import Goyang.Lemmas.Registry
import Goyang.Lemmas.IdentityLoad
import Goyang.Model.Pipeline
/-
Load-order independence (C05), part 9: loading the same modules in two orders gives two
registries that hold the same modules under renamed sequence numbers (`RegRel`).  Built on the
registry invariant of C13 (`Lemmas/Registry`).  Core Lean only.
-/
namespace Goyang.Lemmas.LoadOrder
open Goyang.Model
open Goyang.Lemmas.Registry (hdr hdrOf NoAt Inv lk SeqOk)

/-! ### index maps of a permutation -/

/-- `σ` sends every position of `l₁` to a position of `l₂` holding the same element; `τ` is its
inverse; beyond the lists both are the identity. -/
structure IdxMap {α : Type} (σ τ : Nat → Nat) (l₁ l₂ : List α) : Prop where
  left : ∀ x, τ (σ x) = x
  right : ∀ x, σ (τ x) = x
  get : ∀ i, i < l₁.length → l₂[σ i]? = l₁[i]?
  out : ∀ i, l₁.length ≤ i → σ i = i

theorem IdxMap.lt {α : Type} {σ τ : Nat → Nat} {l₁ l₂ : List α} (h : IdxMap σ τ l₁ l₂) {i : Nat} (hi : i < l₁.length) :
    σ i < l₂.length := by
  have := h.get i hi
  rw [List.getElem?_eq_getElem hi] at this
  by_cases hlt : σ i < l₂.length
  · exact hlt
  · rw [List.getElem?_eq_none (by omega)] at this; cases this

theorem exists_idxMap {α : Type} {l₁ l₂ : List α} (hp : l₁.Perm l₂) : ∃ σ τ, IdxMap σ τ l₁ l₂ := by
  induction hp with
  | nil => exact ⟨id, id, ⟨fun _ => rfl, fun _ => rfl, fun _ _ => rfl, fun _ _ => rfl⟩⟩
  | @cons x l₁ l₂ hp ih =>
    obtain ⟨σ, τ, h⟩ := ih
    refine ⟨fun i => match i with | 0 => 0 | i + 1 => σ i + 1, fun i => match i with | 0 => 0 | i + 1 => τ i + 1, ?_⟩
    refine ⟨?_, ?_, ?_, ?_⟩
    · intro x; cases x with
      | zero => rfl
      | succ x => simp only [h.left]
    · intro x; cases x with
      | zero => rfl
      | succ x => simp only [h.right]
    · intro i hi
      cases i with
      | zero => rfl
      | succ i =>
        simp only [List.getElem?_cons_succ]
        exact h.get i (by simpa using hi)
    · intro i hi
      cases i with
      | zero => simp at hi
      | succ i => simp only [h.out i (by simpa using hi)]
  | swap x y l =>
    refine ⟨fun i => match i with | 0 => 1 | 1 => 0 | i + 2 => i + 2, fun i => match i with | 0 => 1 | 1 => 0 | i + 2 => i + 2, ?_⟩
    refine ⟨?_, ?_, ?_, ?_⟩
    · intro i; match i with
      | 0 => rfl
      | 1 => rfl
      | i + 2 => rfl
    · intro i; match i with
      | 0 => rfl
      | 1 => rfl
      | i + 2 => rfl
    · intro i _; match i with
      | 0 => rfl
      | 1 => rfl
      | i + 2 => rfl
    · intro i hi; match i with
      | 0 => simp at hi
      | 1 => simp at hi
      | i + 2 => rfl
  | @trans l₁ l₂ l₃ hp₁ hp₂ ih₁ ih₂ =>
    obtain ⟨σ₁, τ₁, h₁⟩ := ih₁
    obtain ⟨σ₂, τ₂, h₂⟩ := ih₂
    refine ⟨σ₂ ∘ σ₁, τ₁ ∘ τ₂, ⟨?_, ?_, ?_, ?_⟩⟩
    · intro x; simp only [Function.comp, h₂.left, h₁.left]
    · intro x; simp only [Function.comp, h₁.right, h₂.right]
    · intro i hi
      simp only [Function.comp]
      rw [h₂.get _ (h₁.lt hi), h₁.get i hi]
    · intro i hi
      simp only [Function.comp]
      rw [h₁.out i hi, h₂.out i (by rw [← hp₁.length_eq]; exact hi)]

/-! ### key maps -/

theorem bind_keys (km : KeyMap) (k : String) (v : Nat) :
    (km.bind k v).map (·.1) = if km.any (·.1 == k) then km.map (·.1) else km.map (·.1) ++ [k] := by
  unfold KeyMap.bind
  split
  · rw [List.map_map]
    apply List.map_congr_left
    intro kv _
    simp only [Function.comp]
    split
    · rename_i hk; exact (beq_iff_eq.mp hk).symm
    · rfl
  · simp

theorem bind_keys_nodup {km : KeyMap} (h : (km.map (·.1)).Nodup) (k : String) (v : Nat) :
    ((km.bind k v).map (·.1)).Nodup := by
  rw [bind_keys]
  split
  · exact h
  · rename_i hk
    rw [List.nodup_append]
    refine ⟨h, by simp, ?_⟩
    intro a ha b hb
    simp only [List.mem_singleton] at hb
    subst hb
    intro e
    subst e
    apply hk
    obtain ⟨kv, hkv, e⟩ := List.mem_map.mp ha
    exact List.any_eq_true.mpr ⟨kv, hkv, by simpa using e⟩

/-- A successful `add` keeps the keys of both tables distinct. -/
theorem add_keys {r r' : Registry} {s : Stmt} (h : r.add s = .ok r')
    (h1 : (r.modules.map (·.1)).Nodup) (h2 : (r.subModules.map (·.1)).Nodup) :
    (r'.modules.map (·.1)).Nodup ∧ (r'.subModules.map (·.1)).Nodup := by
  have h := (Registry.add_ok h).2
  unfold Registry.addChecked at h
  simp only at h
  generalize ({ seq := r.mods.length, stmt := s } : Mod) = m at h
  cases hsub : m.isSub with
  | true =>
    simp only [hsub, Registry.kmOf, Registry.umOf, Registry.withKm, Registry.withUm, if_true] at h
    repeat' split at h
    all_goals first
      | (cases h; done)
      | (simp only [Except.ok.injEq] at h; subst h
         refine ⟨h1, ?_⟩
         first
           | exact h2
           | exact bind_keys_nodup h2 _ _
           | exact bind_keys_nodup (bind_keys_nodup h2 _ _) _ _)
  | false =>
    simp only [hsub, Registry.kmOf, Registry.umOf, Registry.withKm, Registry.withUm, Bool.false_eq_true, if_false] at h
    repeat' split at h
    all_goals first
      | (cases h; done)
      | (simp only [Except.ok.injEq] at h; subst h
         refine ⟨?_, h2⟩
         first
           | exact h1
           | exact bind_keys_nodup h1 _ _
           | exact bind_keys_nodup (bind_keys_nodup h1 _ _) _ _)

/-! ### loading pairwise different modules -/

/-- What holds of a registry after loading `L`, when no two loads have the same header. -/
structure LInv (r : Registry) (L : List Stmt) : Prop where
  inv : Inv r L
  mods : ∀ i, r.mods[i]? = (L[i]?).map (Model.Mod.mk i)
  modKeys : (r.modules.map (·.1)).Nodup
  subKeys : (r.subModules.map (·.1)).Nodup
  rinv : Identity.RInv r

theorem linv_empty : LInv {} [] where
  inv := Registry.inv_empty
  mods := by intro i; simp
  modKeys := by simp
  subKeys := by simp
  rinv := Identity.rinv_empty

theorem LInv.length {r : Registry} {L : List Stmt} (h : LInv r L) : r.mods.length = L.length := by
  have h1 := h.mods r.mods.length
  have h2 := h.mods L.length
  rw [List.getElem?_eq_none (Nat.le_refl _)] at h1 h2
  by_cases e : r.mods.length = L.length
  · exact e
  · exfalso
    by_cases lt : r.mods.length < L.length
    · rw [List.getElem?_eq_getElem lt] at h1; cases h1
    · have lt' : L.length < r.mods.length := by omega
      simp only [Option.map_none] at h2
      rw [List.getElem?_eq_getElem lt'] at h2; cases h2

theorem linv_add {r : Registry} {L : List Stmt} {s : Stmt} (h : LInv r L) (hs : NoAt s.arg)
    (hL : ∀ t ∈ L, NoAt t.arg) (hnew : hdr s ∉ L.map hdr) :
    ∃ r', r.add s = .ok r' ∧ LInv r' (L ++ [s]) := by
  have step := Registry.add_step h.inv hs hL
  cases hadd : r.add s with
  | error e => rw [hadd] at step; exact absurd step.1 hnew
  | ok r' =>
    rw [hadd] at step
    refine ⟨r', rfl, ?_⟩
    obtain ⟨hmods, _⟩ := Identity.add_shape hadd
    obtain ⟨k1, k2⟩ := add_keys hadd h.modKeys h.subKeys
    refine ⟨step.2, ?_, k1, k2, Identity.rinv_add h.rinv s hadd⟩
    intro i
    rw [hmods, h.length]
    by_cases hi : i < L.length
    · rw [List.getElem?_append_left (by rw [h.length]; exact hi), List.getElem?_append_left hi]
      exact h.mods i
    · by_cases hi2 : i = L.length
      · subst hi2
        rw [List.getElem?_append_right (by rw [h.length]; exact Nat.le_refl _),
          List.getElem?_append_right (Nat.le_refl _)]
        simp [h.length]
      · rw [List.getElem?_eq_none (by simp [h.length]; omega), List.getElem?_eq_none (by simp; omega)]
        rfl

theorem linv_loadFrom : ∀ (ss : List Stmt) {r : Registry} {L : List Stmt}, LInv r L →
    (∀ t ∈ L, NoAt t.arg) → (∀ t ∈ ss, NoAt t.arg) → ((L ++ ss).map hdr).Nodup → LInv (r.loadFrom ss).1 (L ++ ss)
  | [], r, L, h, _, _, _ => by simpa [Registry.loadFrom] using h
  | s :: rest, r, L, h, hL, hss, hnd => by
    have hs : NoAt s.arg := hss s (by simp)
    have hnew : hdr s ∉ L.map hdr := by
      rw [List.map_append, List.map_cons] at hnd
      intro hm
      exact (List.nodup_append.mp hnd).2.2 _ hm _ (List.mem_cons_self ..) rfl
    obtain ⟨r', hadd, h'⟩ := linv_add h hs hL hnew
    unfold Registry.loadFrom
    rw [hadd]
    have hL' : ∀ t ∈ L ++ [s], NoAt t.arg := by
      intro t ht
      rcases List.mem_append.mp ht with ht | ht
      · exact hL t ht
      · simp only [List.mem_singleton] at ht; subst ht; exact hs
    have := linv_loadFrom rest h' hL' (fun t ht => hss t (by simp [ht])) (by simpa using hnd)
    simpa using this

theorem linv_loadAll (ss : List Stmt) (hss : ∀ t ∈ ss, NoAt t.arg) (hnd : (ss.map hdr).Nodup) :
    LInv (Registry.loadAll ss).1 ss := by
  have := linv_loadFrom ss linv_empty (by simp) hss (by simpa using hnd)
  simpa [Registry.loadAll] using this

/-! ### generic facts -/

theorem nodup_of_map {α β : Type} (f : α → β) : ∀ {l : List α}, (l.map f).Nodup → l.Nodup
  | [], _ => List.nodup_nil
  | x :: t, h => by
    rw [List.map_cons, List.nodup_cons] at h
    rw [List.nodup_cons]
    exact ⟨fun hm => h.1 (List.mem_map_of_mem hm), nodup_of_map f h.2⟩

theorem mem_iff_get? {km : KeyMap} (hk : (km.map (·.1)).Nodup) (k : String) (v : Nat) :
    (k, v) ∈ km ↔ km.get? k = some v := by
  unfold KeyMap.get?
  constructor
  · intro hm
    have := find?_key_some (fun kv : String × Nat => kv.1) hk hm
    simp only at this
    rw [this]; rfl
  · intro hg
    cases hf : km.find? (fun kv => kv.1 == k) with
    | none => rw [hf] at hg; cases hg
    | some kv =>
      rw [hf] at hg
      simp only [Option.map_some, Option.some.injEq] at hg
      have h1 := List.mem_of_find?_eq_some hf
      have h2 : kv.1 = k := by simpa using List.find?_some hf
      rw [← h2, ← hg]
      exact h1

/-! ### the registries of two load orders -/

section
variable {L : List Stmt} {r : Registry} (hl : LInv r L)
include hl

theorem LInv.mem_mods (m : Mod) : m ∈ r.mods ↔ L[m.seq]? = some m.stmt := by
  constructor
  · intro hm
    obtain ⟨i, hi⟩ := List.mem_iff_getElem?.mp hm
    rw [hl.mods i] at hi
    cases hs : L[i]? with
    | none => rw [hs] at hi; cases hi
    | some s =>
      rw [hs] at hi
      simp only [Option.map_some, Option.some.injEq] at hi
      subst hi
      exact hs
  · intro hs
    apply List.mem_iff_getElem?.mpr
    refine ⟨m.seq, ?_⟩
    rw [hl.mods, hs]
    rfl

theorem LInv.seqNodup : (r.mods.map (·.seq)).Nodup := by
  have : r.mods.map (·.seq) = List.range r.mods.length := by
    apply List.ext_getElem?
    intro i
    rw [List.getElem?_map, hl.mods i]
    by_cases hi : i < r.mods.length
    · have hi' : i < L.length := by rw [← hl.length]; exact hi
      rw [List.getElem?_eq_getElem hi']
      simp [hi]
    · rw [List.getElem?_eq_none (by rw [← hl.length]; omega)]
      simp [hi]
  rw [this]
  exact List.nodup_range

theorem LInv.byId_eq (id : Nat) : r.byId id = (L[id]?).map (Model.Mod.mk id) := by
  rw [Registry.byId_eq hl.inv.seq, hl.mods]

end

theorem fullName_inj {a b : Mod} (ha : NoAt a.name) (hb : NoAt b.name) (hf : a.fullName = b.fullName) :
    a.name = b.name ∧ a.current = b.current := by
  rw [Registry.fullName_eq, Registry.fullName_eq] at hf
  by_cases ea : a.current = ""
  · by_cases eb : b.current = ""
    · rw [if_pos ea, if_pos eb] at hf
      exact ⟨hf, ea.trans eb.symm⟩
    · rw [if_pos ea, if_neg eb] at hf
      exact absurd hf.symm (Registry.key_ne_name ha)
  · by_cases eb : b.current = ""
    · rw [if_neg ea, if_pos eb] at hf
      exact absurd hf (Registry.key_ne_name hb)
    · rw [if_neg ea, if_neg eb] at hf
      exact Registry.key_inj ha hb hf

/-- **Two load orders of pairwise different modules give registries that hold the same modules
under renamed sequence numbers.** -/
theorem regRel_of_perm {loads₁ loads₂ : List Stmt} (hp : loads₁.Perm loads₂)
    (hn : ∀ t ∈ loads₁, NoAt t.arg) (hnd : (loads₁.map hdr).Nodup) :
    ∃ σ, RegRel σ (Registry.loadAll loads₁).1 (Registry.loadAll loads₂).1 := by
  have hn₂ : ∀ t ∈ loads₂, NoAt t.arg := fun t ht => hn t (hp.mem_iff.mpr ht)
  have hnd₂ : (loads₂.map hdr).Nodup := (hp.map hdr).nodup_iff.mp hnd
  have l₁ := linv_loadAll loads₁ hn hnd
  have l₂ := linv_loadAll loads₂ hn₂ hnd₂
  obtain ⟨σ, τ, hσ⟩ := exists_idxMap hp
  generalize (Registry.loadAll loads₁).1 = r₁ at l₁ ⊢
  generalize (Registry.loadAll loads₂).1 = r₂ at l₂ ⊢
  have hinj : ∀ a b, σ a = σ b → a = b := fun a b e => by rw [← hσ.left a, ← hσ.left b, e]
  have hlen : loads₂.length = loads₁.length := hp.length_eq.symm
  have hndL₂ : loads₂.Nodup := nodup_of_map hdr hnd₂
  -- the tables bind every key to corresponding modules
  have hget : ∀ sub k, (r₂.kmOf sub).get? k = ((r₁.kmOf sub).get? k).map σ := by
    intro sub k
    have hlook : (lk r₁ sub k).map hdrOf = (lk r₂ sub k).map hdrOf := by
      rw [l₁.inv.look, l₂.inv.look]
      exact Registry.denotesS_perm (hp.map hdr) (Registry.noAt_hdrs hn) sub k
    cases h1 : (r₁.kmOf sub).get? k with
    | none =>
      rw [Registry.lk_none_of_get? h1] at hlook
      cases h2 : (r₂.kmOf sub).get? k with
      | none => rfl
      | some j =>
        obtain ⟨o, _, ho, _⟩ := Registry.lk_of_get? l₂.inv h2
        rw [ho] at hlook; cases hlook
    | some i =>
      obtain ⟨o₁, hb₁, ho₁, hm₁⟩ := Registry.lk_of_get? l₁.inv h1
      rw [ho₁] at hlook
      cases h2 : (r₂.kmOf sub).get? k with
      | none => rw [Registry.lk_none_of_get? h2] at hlook; cases hlook
      | some j =>
        obtain ⟨o₂, hb₂, ho₂, hm₂⟩ := Registry.lk_of_get? l₂.inv h2
        rw [ho₂] at hlook
        simp only [Option.map_some, Option.some.injEq] at hlook ⊢
        have hs₁ : o₁.stmt ∈ loads₁ := l₁.inv.src _ hm₁
        have hs₂ : o₂.stmt ∈ loads₁ := hp.mem_iff.mpr (l₂.inv.src _ hm₂)
        have hst : o₁.stmt = o₂.stmt := inj_of_nodup_map hdr hnd _ hs₁ _ hs₂ hlook
        have e₁ : o₁.seq = i := (mem_of_byId hb₁).2
        have e₂ : o₂.seq = j := (mem_of_byId hb₂).2
        have g₁ : loads₁[i]? = some o₁.stmt := e₁ ▸ (l₁.mem_mods o₁).mp hm₁
        have g₂ : loads₂[j]? = some o₂.stmt := e₂ ▸ (l₂.mem_mods o₂).mp hm₂
        have hi : i < loads₁.length := by
          by_cases hi : i < loads₁.length
          · exact hi
          · rw [List.getElem?_eq_none (by omega)] at g₁; cases g₁
        have hj : j < loads₂.length := by
          by_cases hj : j < loads₂.length
          · exact hj
          · rw [List.getElem?_eq_none (by omega)] at g₂; cases g₂
        have : loads₂[j]? = loads₂[σ i]? := by rw [g₂, hσ.get i hi, g₁, hst]
        exact (List.getElem?_inj hj hndL₂).mp this
  have hkm : ∀ sub, ((r₁.kmOf sub).map (·.1)).Nodup → ((r₂.kmOf sub).map (·.1)).Nodup →
      (r₂.kmOf sub).Perm ((r₁.kmOf sub).map (kvRen σ)) := by
    intro sub k₁ k₂
    have k₁' : (((r₁.kmOf sub).map (kvRen σ)).map (·.1)).Nodup := by
      rw [List.map_map]; exact k₁
    rw [List.perm_ext_iff_of_nodup (nodup_of_map _ k₂) (nodup_of_map _ k₁')]
    rintro ⟨k, v⟩
    rw [mem_iff_get? k₂, hget sub k, List.mem_map]
    constructor
    · intro hv
      cases h1 : (r₁.kmOf sub).get? k with
      | none => rw [h1] at hv; cases hv
      | some i =>
        rw [h1] at hv
        simp only [Option.map_some, Option.some.injEq] at hv
        exact ⟨(k, i), (mem_iff_get? k₁ k i).mpr h1, by rw [← hv]; rfl⟩
    · rintro ⟨⟨k', i⟩, hm, e⟩
      simp only [kvRen, Prod.mk.injEq] at e
      obtain ⟨rfl, rfl⟩ := e
      rw [(mem_iff_get? k₁ k' i).mp hm]
      rfl
  refine ⟨σ, ⟨hinj, ?_, l₁.seqNodup, hkm false l₁.modKeys l₂.modKeys, l₁.modKeys,
    hkm true l₁.subKeys l₂.subKeys, l₁.subKeys, ?_, ?_⟩⟩
  · -- the module lists
    have nd₂ : r₂.mods.Nodup := nodup_of_map _ l₂.seqNodup
    have nd₁ : (r₁.mods.map (Mod.ren σ)).Nodup := by
      apply nodup_of_map (fun m : Mod => m.seq)
      rw [List.map_map]
      have : ((fun m : Mod => m.seq) ∘ Mod.ren σ) = σ ∘ (fun m : Mod => m.seq) := rfl
      rw [this, ← List.map_map]
      exact nodup_map_inj σ hinj l₁.seqNodup
    rw [List.perm_ext_iff_of_nodup nd₂ nd₁]
    intro m
    rw [l₂.mem_mods, List.mem_map]
    constructor
    · intro hm
      have hj : m.seq < loads₂.length := by
        by_cases hj : m.seq < loads₂.length
        · exact hj
        · rw [List.getElem?_eq_none (by omega)] at hm; cases hm
      have hi : τ m.seq < loads₁.length := by
        by_cases hi : τ m.seq < loads₁.length
        · exact hi
        · have := hσ.out (τ m.seq) (by omega)
          rw [hσ.right] at this
          omega
      refine ⟨⟨τ m.seq, m.stmt⟩, (l₁.mem_mods _).mpr ?_, ?_⟩
      · show loads₁[τ m.seq]? = some m.stmt
        rw [← hσ.get _ hi, hσ.right]; exact hm
      · show (⟨σ (τ m.seq), m.stmt⟩ : Mod) = m
        rw [hσ.right]
    · rintro ⟨m₁, hm₁, rfl⟩
      have g₁ := (l₁.mem_mods m₁).mp hm₁
      have hi : m₁.seq < loads₁.length := by
        by_cases hi : m₁.seq < loads₁.length
        · exact hi
        · rw [List.getElem?_eq_none (by omega)] at g₁; cases g₁
      show loads₂[σ m₁.seq]? = some m₁.stmt
      rw [hσ.get _ hi]; exact g₁
  · -- full names
    intro a ha b hb hf hs
    have sa : a.stmt ∈ loads₁ := l₁.inv.src _ ha
    have sb : b.stmt ∈ loads₁ := l₁.inv.src _ hb
    obtain ⟨e1, e2⟩ := fullName_inj (hn _ sa) (hn _ sb) hf
    have hh : hdr a.stmt = hdr b.stmt := by
      show (⟨a.isSub, a.name, a.current⟩ : Spec.Registry.Header) = ⟨b.isSub, b.name, b.current⟩
      rw [hs, e1, e2]
    have hst : a.stmt = b.stmt := inj_of_nodup_map hdr hnd _ sa _ sb hh
    have ga := (l₁.mem_mods a).mp ha
    have gb := (l₁.mem_mods b).mp hb
    have hi : a.seq < loads₁.length := by
      by_cases hi : a.seq < loads₁.length
      · exact hi
      · rw [List.getElem?_eq_none (by omega)] at ga; cases ga
    have : a.seq = b.seq := (List.getElem?_inj hi (nodup_of_map hdr hnd)).mp (by rw [ga, gb, hst])
    cases a; cases b
    simp only at this hst
    rw [this, hst]
  · -- the module table holds modules
    intro kv hkv m hm
    obtain ⟨x, hx, hxs⟩ := l₁.rinv.modules kv hkv
    rw [hx] at hm
    cases hm
    exact hxs

/-! ### `Modules.Parse` text by text (`loadFiles`) -/

theorem loadFrom_append (r : Registry) : ∀ (a b : List Stmt),
    (r.loadFrom (a ++ b)).1 = ((r.loadFrom a).1.loadFrom b).1 := by
  intro a
  induction a generalizing r with
  | nil => intro b; rfl
  | cons s rest ih =>
    intro b
    simp only [List.cons_append, Registry.loadFrom]
    cases r.add s with
    | ok r' => exact ih r' b
    | error e => exact ih r b

/-- When nothing is rejected, the atomic load of a text is the load of its statements. -/
theorem foldlM_add_ok : ∀ (ss : List Stmt) {r : Registry} {L : List Stmt}, LInv r L →
    (∀ t ∈ L, NoAt t.arg) → (∀ t ∈ ss, NoAt t.arg) → ((L ++ ss).map hdr).Nodup →
    ss.foldlM (fun r s => r.add s) r = .ok (r.loadFrom ss).1
  | [], r, L, _, _, _, _ => rfl
  | s :: rest, r, L, h, hL, hss, hnd => by
    have hs : NoAt s.arg := hss s (by simp)
    have hnew : hdr s ∉ L.map hdr := by
      rw [List.map_append, List.map_cons] at hnd
      intro hm
      exact (List.nodup_append.mp hnd).2.2 _ hm _ (List.mem_cons_self ..) rfl
    obtain ⟨r', hadd, h'⟩ := linv_add h hs hL hnew
    have hL' : ∀ t ∈ L ++ [s], NoAt t.arg := by
      intro t ht
      rcases List.mem_append.mp ht with ht | ht
      · exact hL t ht
      · simp only [List.mem_singleton] at ht; subst ht; exact hs
    have ih := foldlM_add_ok rest h' hL' (fun t ht => hss t (by simp [ht])) (by simpa using hnd)
    simp only [List.foldlM_cons, Registry.loadFrom, hadd]
    exact ih

theorem loadFiles_eq_loadAll (files : List SrcFile) (hn : ∀ t ∈ files.flatMap (·.stmts), NoAt t.arg)
    (hnd : ((files.flatMap (·.stmts)).map hdr).Nodup) :
    loadFiles files = (Registry.loadAll (files.flatMap (·.stmts))).1 := by
  unfold loadFiles Registry.loadAll
  have key : ∀ (fs : List SrcFile) (r : Registry) (L : List Stmt), LInv r L → (∀ t ∈ L, NoAt t.arg) →
      (∀ t ∈ fs.flatMap (·.stmts), NoAt t.arg) → ((L ++ fs.flatMap (·.stmts)).map hdr).Nodup →
      fs.foldl loadFile r = (r.loadFrom (fs.flatMap (·.stmts))).1 := by
    intro fs
    induction fs with
    | nil => intro r L _ _ _ _; rfl
    | cons f rest ih =>
      intro r L hl hL hss hnd
      simp only [List.flatMap_cons] at hss hnd ⊢
      have hf : ∀ t ∈ f.stmts, NoAt t.arg := fun t ht => hss t (List.mem_append_left _ ht)
      have hnd1 : ((L ++ f.stmts).map hdr).Nodup := by
        rw [← List.append_assoc, List.map_append] at hnd
        exact (List.nodup_append.mp hnd).1
      have hok := foldlM_add_ok f.stmts hl hL hf hnd1
      have hl' := linv_loadFrom f.stmts hl hL hf hnd1
      have hL' : ∀ t ∈ L ++ f.stmts, NoAt t.arg := by
        intro t ht
        rcases List.mem_append.mp ht with ht | ht
        · exact hL t ht
        · exact hf t ht
      rw [List.foldl_cons, loadFrom_append]
      have : loadFile r f = (r.loadFrom f.stmts).1 := by
        unfold loadFile
        rw [hok]
      rw [this]
      exact ih _ _ hl' hL' (fun t ht => hss t (List.mem_append_right _ ht)) (by rw [List.append_assoc]; exact hnd)
  exact key files {} [] linv_empty (by simp) hn (by simpa using hnd)

end Goyang.Lemmas.LoadOrder
