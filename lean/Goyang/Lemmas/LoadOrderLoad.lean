import Goyang.Lemmas.LoadOrderReg
import Goyang.Lemmas.Registry
import Goyang.Lemmas.IdentityLoad
/-
Load-order independence (C05), part 9: loading the same modules in two orders gives two
registries that hold the same modules under renamed sequence numbers (`RegRel`).  Built on the
registry invariant of C13 (`Lemmas/Registry`).  Core Lean only.
-/
namespace Goyang.Lemmas.LoadOrder
open Goyang.Model
open Goyang.Lemmas.Registry (hdr hdrOf NoAt Inv lk SeqOk)

/-! ### index maps of a permutation -/

/-- `σ` sends every position of `l₁` to a position of `l₂` holding the same element; `τ` is its
inverse; beyond the lists both are the identity. -/
structure IdxMap {α : Type} (σ τ : Nat → Nat) (l₁ l₂ : List α) : Prop where
  left : ∀ x, τ (σ x) = x
  right : ∀ x, σ (τ x) = x
  get : ∀ i, i < l₁.length → l₂[σ i]? = l₁[i]?
  out : ∀ i, l₁.length ≤ i → σ i = i

theorem IdxMap.lt {α : Type} {σ τ : Nat → Nat} {l₁ l₂ : List α} (h : IdxMap σ τ l₁ l₂) {i : Nat} (hi : i < l₁.length) :
    σ i < l₂.length := by
  have := h.get i hi
  rw [List.getElem?_eq_getElem hi] at this
  by_cases hlt : σ i < l₂.length
  · exact hlt
  · rw [List.getElem?_eq_none (by omega)] at this; cases this

theorem exists_idxMap {α : Type} {l₁ l₂ : List α} (hp : l₁.Perm l₂) : ∃ σ τ, IdxMap σ τ l₁ l₂ := by
  induction hp with
  | nil => exact ⟨id, id, ⟨fun _ => rfl, fun _ => rfl, fun _ _ => rfl, fun _ _ => rfl⟩⟩
  | @cons x l₁ l₂ hp ih =>
    obtain ⟨σ, τ, h⟩ := ih
    refine ⟨fun i => match i with | 0 => 0 | i + 1 => σ i + 1, fun i => match i with | 0 => 0 | i + 1 => τ i + 1, ?_⟩
    refine ⟨?_, ?_, ?_, ?_⟩
    · intro x; cases x with
      | zero => rfl
      | succ x => simp only [h.left]
    · intro x; cases x with
      | zero => rfl
      | succ x => simp only [h.right]
    · intro i hi
      cases i with
      | zero => rfl
      | succ i =>
        simp only [List.getElem?_cons_succ]
        exact h.get i (by simpa using hi)
    · intro i hi
      cases i with
      | zero => simp at hi
      | succ i => simp only [h.out i (by simpa using hi)]
  | swap x y l =>
    refine ⟨fun i => match i with | 0 => 1 | 1 => 0 | i + 2 => i + 2, fun i => match i with | 0 => 1 | 1 => 0 | i + 2 => i + 2, ?_⟩
    refine ⟨?_, ?_, ?_, ?_⟩
    · intro i; match i with
      | 0 => rfl
      | 1 => rfl
      | i + 2 => rfl
    · intro i; match i with
      | 0 => rfl
      | 1 => rfl
      | i + 2 => rfl
    · intro i _; match i with
      | 0 => rfl
      | 1 => rfl
      | i + 2 => rfl
    · intro i hi; match i with
      | 0 => simp at hi
      | 1 => simp at hi
      | i + 2 => rfl
  | @trans l₁ l₂ l₃ hp₁ hp₂ ih₁ ih₂ =>
    obtain ⟨σ₁, τ₁, h₁⟩ := ih₁
    obtain ⟨σ₂, τ₂, h₂⟩ := ih₂
    refine ⟨σ₂ ∘ σ₁, τ₁ ∘ τ₂, ⟨?_, ?_, ?_, ?_⟩⟩
    · intro x; simp only [Function.comp, h₂.left, h₁.left]
    · intro x; simp only [Function.comp, h₁.right, h₂.right]
    · intro i hi
      simp only [Function.comp]
      rw [h₂.get _ (h₁.lt hi), h₁.get i hi]
    · intro i hi
      simp only [Function.comp]
      rw [h₁.out i hi, h₂.out i (by rw [← hp₁.length_eq]; exact hi)]

/-! ### key maps -/

theorem bind_keys (km : KeyMap) (k : String) (v : Nat) :
    (km.bind k v).map (·.1) = if km.any (·.1 == k) then km.map (·.1) else km.map (·.1) ++ [k] := by
  unfold KeyMap.bind
  split
  · rw [List.map_map]
    apply List.map_congr_left
    intro kv _
    simp only [Function.comp]
    split
    · rename_i hk; exact (beq_iff_eq.mp hk).symm
    · rfl
  · simp

theorem bind_keys_nodup {km : KeyMap} (h : (km.map (·.1)).Nodup) (k : String) (v : Nat) :
    ((km.bind k v).map (·.1)).Nodup := by
  rw [bind_keys]
  split
  · exact h
  · rename_i hk
    rw [List.nodup_append]
    refine ⟨h, by simp, ?_⟩
    intro a ha b hb
    simp only [List.mem_singleton] at hb
    subst hb
    intro e
    subst e
    apply hk
    obtain ⟨kv, hkv, e⟩ := List.mem_map.mp ha
    exact List.any_eq_true.mpr ⟨kv, hkv, by simpa using e⟩

/-- A successful `add` keeps the keys of both tables distinct. -/
theorem add_keys {r r' : Registry} {s : Stmt} (h : r.add s = .ok r')
    (h1 : (r.modules.map (·.1)).Nodup) (h2 : (r.subModules.map (·.1)).Nodup) :
    (r'.modules.map (·.1)).Nodup ∧ (r'.subModules.map (·.1)).Nodup := by
  unfold Registry.add at h
  simp only at h
  generalize ({ seq := r.mods.length, stmt := s } : Mod) = m at h
  cases hsub : m.isSub with
  | true =>
    simp only [hsub, Registry.kmOf, Registry.umOf, Registry.withKm, Registry.withUm, if_true] at h
    repeat' split at h
    all_goals first
      | (cases h; done)
      | (simp only [Except.ok.injEq] at h; subst h
         refine ⟨h1, ?_⟩
         first
           | exact h2
           | exact bind_keys_nodup h2 _ _
           | exact bind_keys_nodup (bind_keys_nodup h2 _ _) _ _)
  | false =>
    simp only [hsub, Registry.kmOf, Registry.umOf, Registry.withKm, Registry.withUm, Bool.false_eq_true, if_false] at h
    repeat' split at h
    all_goals first
      | (cases h; done)
      | (simp only [Except.ok.injEq] at h; subst h
         refine ⟨?_, h2⟩
         first
           | exact h1
           | exact bind_keys_nodup h1 _ _
           | exact bind_keys_nodup (bind_keys_nodup h1 _ _) _ _)

/-! ### loading pairwise different modules -/

/-- What holds of a registry after loading `L`, when no two loads have the same header. -/
structure LInv (r : Registry) (L : List Stmt) : Prop where
  inv : Inv r L
  mods : ∀ i, r.mods[i]? = (L[i]?).map (Model.Mod.mk i)
  modKeys : (r.modules.map (·.1)).Nodup
  subKeys : (r.subModules.map (·.1)).Nodup
  rinv : Identity.RInv r

theorem linv_empty : LInv {} [] where
  inv := Registry.inv_empty
  mods := by intro i; simp
  modKeys := by simp
  subKeys := by simp
  rinv := Identity.rinv_empty

theorem LInv.length {r : Registry} {L : List Stmt} (h : LInv r L) : r.mods.length = L.length := by
  have h1 := h.mods r.mods.length
  have h2 := h.mods L.length
  rw [List.getElem?_eq_none (Nat.le_refl _)] at h1 h2
  by_cases e : r.mods.length = L.length
  · exact e
  · exfalso
    by_cases lt : r.mods.length < L.length
    · rw [List.getElem?_eq_getElem lt] at h1; cases h1
    · have lt' : L.length < r.mods.length := by omega
      simp only [Option.map_none] at h2
      rw [List.getElem?_eq_getElem lt'] at h2; cases h2

theorem linv_add {r : Registry} {L : List Stmt} {s : Stmt} (h : LInv r L) (hs : NoAt s.arg)
    (hL : ∀ t ∈ L, NoAt t.arg) (hnew : hdr s ∉ L.map hdr) :
    ∃ r', r.add s = .ok r' ∧ LInv r' (L ++ [s]) := by
  have step := Registry.add_step h.inv hs hL
  cases hadd : r.add s with
  | error e => rw [hadd] at step; exact absurd step.1 hnew
  | ok r' =>
    rw [hadd] at step
    refine ⟨r', rfl, ?_⟩
    obtain ⟨hmods, _⟩ := Identity.add_shape hadd
    obtain ⟨k1, k2⟩ := add_keys hadd h.modKeys h.subKeys
    refine ⟨step.2, ?_, k1, k2, Identity.rinv_add h.rinv s hadd⟩
    intro i
    rw [hmods, h.length]
    by_cases hi : i < L.length
    · rw [List.getElem?_append_left (by rw [h.length]; exact hi), List.getElem?_append_left hi]
      exact h.mods i
    · by_cases hi2 : i = L.length
      · subst hi2
        rw [List.getElem?_append_right (by rw [h.length]; exact Nat.le_refl _),
          List.getElem?_append_right (Nat.le_refl _)]
        simp [h.length]
      · rw [List.getElem?_eq_none (by simp [h.length]; omega), List.getElem?_eq_none (by simp; omega)]
        rfl

theorem linv_loadFrom : ∀ (ss : List Stmt) {r : Registry} {L : List Stmt}, LInv r L →
    (∀ t ∈ L, NoAt t.arg) → (∀ t ∈ ss, NoAt t.arg) → ((L ++ ss).map hdr).Nodup → LInv (r.loadFrom ss).1 (L ++ ss)
  | [], r, L, h, _, _, _ => by simpa [Registry.loadFrom] using h
  | s :: rest, r, L, h, hL, hss, hnd => by
    have hs : NoAt s.arg := hss s (by simp)
    have hnew : hdr s ∉ L.map hdr := by
      rw [List.map_append, List.map_cons] at hnd
      intro hm
      exact (List.nodup_append.mp hnd).2.2 _ hm _ (List.mem_cons_self ..) rfl
    obtain ⟨r', hadd, h'⟩ := linv_add h hs hL hnew
    unfold Registry.loadFrom
    rw [hadd]
    have hL' : ∀ t ∈ L ++ [s], NoAt t.arg := by
      intro t ht
      rcases List.mem_append.mp ht with ht | ht
      · exact hL t ht
      · simp only [List.mem_singleton] at ht; subst ht; exact hs
    have := linv_loadFrom rest h' hL' (fun t ht => hss t (by simp [ht])) (by simpa using hnd)
    simpa using this

theorem linv_loadAll (ss : List Stmt) (hss : ∀ t ∈ ss, NoAt t.arg) (hnd : (ss.map hdr).Nodup) :
    LInv (Registry.loadAll ss).1 ss := by
  have := linv_loadFrom ss linv_empty (by simp) hss (by simpa using hnd)
  simpa [Registry.loadAll] using this

end Goyang.Lemmas.LoadOrder
