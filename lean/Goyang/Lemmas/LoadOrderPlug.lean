import Goyang.Lemmas.LoadOrderTypes
import Goyang.Lemmas.LoadOrderProcess
import Goyang.Model.Pipeline
/-
Load-order independence (C05), part 12: the layers `plugFull` plugs into `processAll` (type
resolution C09, identity resolution C11, typedef resolution) respect the renaming of module
identities.  Core Lean only.
-/
namespace Goyang.Lemmas.LoadOrder
open Goyang.Model

theorem plugFull_rel {σ : Nat → Nat} {r₁ r₂ : Registry} (h : RegRel σ r₁ r₂) :
    PlugRel σ r₁ r₂ (plugFull r₁) (plugFull r₂) where
  tres := by
    intro root scope t
    unfold plugFull
    simp only [resolveTypeE_ren (envOf_tenvRel h)]
  identityErrs := by
    have e : ∀ r' r : Registry, (plugFull r').identityErrs r = identityErrsOf r := by
      intro r' r
      unfold identityErrsOf plugFull
      simp only
      generalize Identity.run (Identity.Oracle.ofNat 0) r = o
      cases o <;> rfl
    rw [e, e, identityErrsOf_eq h]
  typedefErrs := by
    unfold plugFull
    exact (resolveAllTypedefsE_perm (envOf_tenvRel h)).map normTypeErr

end Goyang.Lemmas.LoadOrder
