import Goyang.Lemmas.LoadOrderAug
import Goyang.Lemmas.LoadOrderDev
/-
Load-order independence (C05), part 7: the stages of `processAll` on two registries that hold
the same modules under renamed sequence numbers.  Core Lean only.
-/
namespace Goyang.Lemmas.LoadOrder
open Goyang.Model
open Goyang.Lemmas.Tree (stage1Errs envOf allMods keyOrder tstate forest0 forestErrs pending0 pstate0 augOrder devStage)

/-- What is asked of the plugged layers (type, typedef and identity resolution): on registries
that hold the same modules under renamed sequence numbers they resolve every type statement to
the same result, and report the same errors (as multisets). -/
structure PlugRel (σ : Nat → Nat) (r₁ r₂ : Registry) (p₁ p₂ : Plug) : Prop where
  tres : ∀ root scope t, p₂.tres.resolve r₂ (Mod.ren σ root) scope t = p₁.tres.resolve r₁ root scope t
  identityErrs : (p₂.identityErrs r₂).Perm (p₁.identityErrs r₁)
  typedefErrs : (p₂.typedefErrs r₂).Perm (p₁.typedefErrs r₁)

/-- `processAll` with the augment phase as one step (the other stages as named in `Lemmas/Tree`). -/
def total0 (reg : Registry) (opts : Opts) (plug : Plug) : Nat :=
  (pending0 reg opts plug).foldl (fun n p => n + p.2.length) 0

def preDevState (reg : Registry) (opts : Opts) (plug : Plug) : PState :=
  augmentPhase reg ((augOrder reg).map (·.seq)) (total0 reg opts plug + 2) (pstate0 reg opts plug)

theorem processAll_eq' (reg : Registry) (opts : Opts) (plug : Plug) : processAll reg opts plug =
    if !(stage1Errs reg plug).isEmpty then { errors := canonErrs (stage1Errs reg plug), forest := {}, reg := reg } else
    if !(forestErrs (forest0 reg opts plug)).isEmpty then
      { errors := canonErrs (forestErrs (forest0 reg opts plug)), forest := forest0 reg opts plug, reg := reg } else
    { errors := canonErrs (forestErrs (preDevState reg opts plug).forest ++
        (devStage reg opts plug (preDevState reg opts plug).forest).2.1),
      forest := (devStage reg opts plug (preDevState reg opts plug).forest).1, reg := reg } := by
  rfl

section
variable {σ : Nat → Nat} {r₁ r₂ : Registry} (h : RegRel σ r₁ r₂) (opts : Opts) {p₁ p₂ : Plug}
  (hp : PlugRel σ r₁ r₂ p₁ p₂)
include h hp

theorem stage1Errs_perm : (stage1Errs r₂ p₂).Perm (stage1Errs r₁ p₁) := by
  unfold stage1Errs
  rw [linkAll_ren h]
  exact (List.Perm.append_left _ hp.identityErrs).append hp.typedefErrs

theorem envOf_rel : EnvRel σ (envOf r₁ opts p₁) (envOf r₂ opts p₂) where
  reg := h
  opts := rfl
  linked := by
    show (linkAll r₂).1 = (linkAll r₁).1.map σ
    rw [linkAll_ren h]
  tres := hp.tres

omit hp in
theorem keyOrder_ren : keyOrder r₂ = (keyOrder r₁).map (Mod.ren σ) := by
  unfold keyOrder
  simp only [h.keysOf h.modules h.modKeys, h.keysOf h.subModules h.subKeys, List.map_append]

omit hp in
theorem entryFuel_eq : entryFuel r₂ = entryFuel r₁ := by
  unfold entryFuel
  have : r₂.mods.foldl (fun a m => a + stmtCount m.stmt) 0 = r₁.mods.foldl (fun a m => a + stmtCount m.stmt) 0 := by
    rw [List.Perm.foldl_eq' h.mods (fun x _ y _ z => by omega) 0, List.foldl_map]
    rfl
  simp only [this]

theorem tstate_ren : tstate r₂ opts p₂ = TState.ren σ (tstate r₁ opts p₁) := by
  unfold tstate
  rw [keyOrder_ren h, List.foldl_map, entryFuel_eq h]
  have h0 : ({} : TState) = TState.ren σ {} := rfl
  rw [h0]
  refine List.foldl_hom (TState.ren σ) ?_
  intro st m
  have := toEntry_ren (envOf_rel h opts hp) (entryFuel r₁) m [] m.stmt [] st
  simp only [List.map_nil] at this
  rw [Mod.ren_stmt, this]
  rfl

theorem forest0_ren : forest0 r₂ opts p₂ = Forest.ren σ (forest0 r₁ opts p₁) := by
  unfold forest0
  rw [tstate_ren h opts hp]
  rfl

omit h hp in
theorem forestErrs_ren (σ : Nat → Nat) (f : Forest) : forestErrs (Forest.ren σ f) = forestErrs f := by
  unfold forestErrs Forest.ren
  simp only [List.map_map]
  congr 1
  apply List.map_congr_left
  rintro ⟨i, e⟩ _
  simp

omit hp in
theorem allMods_perm : (allMods r₂).Perm ((allMods r₁).map (Mod.ren σ)) := by
  unfold allMods
  rw [List.map_append]
  exact h.distinctModules.append h.distinctSubs

end

/-! ### the initial augment state -/

def augsOf (st : TState) (x : Nat) : List Entry := ((st.augs.find? (·.1 == x)).map (·.2)).getD []

theorem pendingOf_map (l : List Mod) (g : Nat → List Entry) (x : Nat) :
    (((l.map fun m => (m.seq, g m.seq)).find? (·.1 == x)).map (·.2)).getD [] = if l.any (·.seq == x) then g x else [] := by
  induction l with
  | nil => rfl
  | cons m t ih =>
    simp only [List.map_cons, List.find?_cons, List.any_cons]
    by_cases hm : m.seq = x
    · simp [hm]
    · have hb : (m.seq == x) = false := beq_eq_false_iff_ne.mpr hm
      simp only [hb, Bool.false_or]
      exact ih

theorem pending0_eq (reg : Registry) (opts : Opts) (plug : Plug) :
    pending0 reg opts plug = (allMods reg).map fun m => (m.seq, augsOf (tstate reg opts plug) m.seq) := by
  unfold pending0 augsOf
  rfl

theorem pendingOf_pstate0 (reg : Registry) (opts : Opts) (plug : Plug) (x : Nat) :
    (pstate0 reg opts plug).pendingOf x =
      if (allMods reg).any (·.seq == x) then augsOf (tstate reg opts plug) x else [] := by
  unfold PState.pendingOf pstate0
  simp only [pending0_eq]
  exact pendingOf_map _ _ x

theorem any_key_map (l : List Mod) (g : Nat → List Entry) (x : Nat) :
    (l.map fun m => (m.seq, g m.seq)).any (·.1 == x) = l.any (·.seq == x) := by
  simp only [List.any_map]
  rfl

section
variable {σ : Nat → Nat} {r₁ r₂ : Registry} (h : RegRel σ r₁ r₂) (opts : Opts) {p₁ p₂ : Plug}
  (hp : PlugRel σ r₁ r₂ p₁ p₂)
include h hp

omit hp in
theorem allMods_any (id : Nat) : (allMods r₂).any (·.seq == σ id) = (allMods r₁).any (·.seq == id) := by
  rw [(allMods_perm h).any_eq]
  exact any_map_inj σ h.inj (fun m : Mod => m.seq) (fun m : Mod => m.seq) (Mod.ren σ) (fun _ => rfl) _ _

omit hp in
theorem augsOf_ren (st : TState) (x : Nat) : augsOf (TState.ren σ st) (σ x) = (augsOf st x).map (Entry.ren σ) := by
  unfold augsOf
  have : (TState.ren σ st).augs.find? (fun p => p.1 == σ x) =
      (st.augs.find? (fun p => p.1 == x)).map fun p => (σ p.1, p.2.map (Entry.ren σ)) :=
    find?_map_inj σ h.inj (fun p : Nat × List Entry => p.1) (fun p : Nat × List Entry => p.1) _ (fun _ => rfl) st.augs x
  rw [this]
  cases st.augs.find? (fun p => p.1 == x) <;> rfl

theorem pstate0_rel : PRel σ (pstate0 r₁ opts p₁) (pstate0 r₂ opts p₂) where
  forest := forest0_ren h opts hp
  pend := by
    intro id
    rw [pendingOf_pstate0, pendingOf_pstate0, allMods_any h, tstate_ren h opts hp, augsOf_ren h]
    split <;> rfl
  has := by
    intro id
    unfold pstate0
    simp only [pending0_eq]
    rw [any_key_map, any_key_map, allMods_any h]

theorem total0_eq : total0 r₂ opts p₂ = total0 r₁ opts p₁ := by
  unfold total0
  rw [pending0_eq, pending0_eq, List.foldl_map, List.foldl_map]
  rw [List.Perm.foldl_eq' (allMods_perm h) (fun x _ y _ z => by omega) 0, List.foldl_map]
  refine congrArg (fun g => List.foldl g 0 (allMods r₁)) ?_
  funext n m
  rw [Mod.ren_seq, tstate_ren h opts hp, augsOf_ren h, List.length_map]

omit hp in
theorem augOrder_ren : (augOrder r₂).map (·.seq) = ((augOrder r₁).map (·.seq)).map σ := by
  unfold augOrder
  rw [h.augOrder, List.map_map, List.map_map]
  rfl

theorem preDevState_rel : PRel σ (preDevState r₁ opts p₁) (preDevState r₂ opts p₂) := by
  unfold preDevState
  rw [augOrder_ren h, total0_eq h opts hp]
  exact augmentPhase_rel h _ _ (pstate0_rel h opts hp)

theorem devStage_ren (f0 : Forest) :
    devStage r₂ opts p₂ (Forest.ren σ f0) =
      (Forest.ren σ (devStage r₁ opts p₁ f0).1, (devStage r₁ opts p₁ f0).2) := by
  unfold devStage
  rw [keyOrder_ren h, List.foldl_map, entryFuel_eq h]
  have h0 : (Forest.ren σ f0, ([] : List Err), ([] : List String)) =
      (fun p : Forest × List Err × List String => (Forest.ren σ p.1, p.2)) (f0, [], []) := rfl
  rw [h0]
  refine List.foldl_hom (fun p : Forest × List Err × List String => (Forest.ren σ p.1, p.2)) ?_
  rintro ⟨f, errs, done⟩ m
  simp only [Mod.ren_name, Mod.ren_stmt]
  split
  · rfl
  · have hdevs : ((m.stmt.all "deviation").map fun dv =>
          (dv, (dv.all "deviate").filterMap fun ds =>
            if deviateKinds.contains ds.arg then
              some (ds.arg, (toEntry (envOf r₂ opts p₂) (entryFuel r₁) (Mod.ren σ m) [dv, m.stmt] ds [] {}).1)
            else none)) =
        ((m.stmt.all "deviation").map fun dv =>
          (dv, (dv.all "deviate").filterMap fun ds =>
            if deviateKinds.contains ds.arg then
              some (ds.arg, (toEntry (envOf r₁ opts p₁) (entryFuel r₁) m [dv, m.stmt] ds [] {}).1)
            else none)).map (devRen σ) := by
      rw [List.map_map]
      apply List.map_congr_left
      intro dv _
      simp only [Function.comp, devRen, List.map_filterMap]
      congr 1
      apply filterMap_congr'
      intro ds _
      have := toEntry_ren (envOf_rel h opts hp) (entryFuel r₁) m [dv, m.stmt] ds [] {}
      have h1 : TState.ren σ ({} : TState) = {} := rfl
      simp only [List.map_nil, h1] at this
      rw [this]
      split <;> rfl
    rw [hdevs, applyDeviations_ren h]

/-- **`processAll` on two registries holding the same modules under renamed sequence numbers:**
the same errors, corresponding forests. -/
theorem processAll_rel :
    (processAll r₂ opts p₂).errors = (processAll r₁ opts p₁).errors ∧
    (processAll r₂ opts p₂).forest = Forest.ren σ (processAll r₁ opts p₁).forest ∧
    (processAll r₂ opts p₂).reg = r₂ ∧ (processAll r₁ opts p₁).reg = r₁ := by
  rw [processAll_eq', processAll_eq']
  have hs1 := stage1Errs_perm h hp
  rw [hs1.isEmpty_eq, OrderIndep.canonErrs_perm_invariant hs1]
  by_cases e1 : (!(stage1Errs r₁ p₁).isEmpty) = true
  · rw [if_pos e1, if_pos e1]
    exact ⟨rfl, rfl, rfl, rfl⟩
  · rw [if_neg e1, if_neg e1, forest0_ren h opts hp, forestErrs_ren]
    by_cases e2 : (!(forestErrs (forest0 r₁ opts p₁)).isEmpty) = true
    · rw [if_pos e2, if_pos e2]
      exact ⟨rfl, rfl, rfl, rfl⟩
    · rw [if_neg e2, if_neg e2]
      have hpd := preDevState_rel h opts hp
      rw [hpd.forest, forestErrs_ren, devStage_ren h opts hp]
      exact ⟨rfl, rfl, rfl, rfl⟩

end

end Goyang.Lemmas.LoadOrder
