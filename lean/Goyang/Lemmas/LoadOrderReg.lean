import Goyang.Lemmas.LoadOrderBase
/-
Load-order independence (C05), part 2: two registries that hold the same modules under renamed
sequence numbers (`RegRel σ r₁ r₂`), and what every registry lookup the resolver uses returns on
them.  Core Lean only.
-/
namespace Goyang.Lemmas.LoadOrder
open Goyang.Model

/-! ### lookups in permuted association lists -/

theorem find?_key_some {α κ : Type} [BEq κ] [LawfulBEq κ] (key : α → κ) :
    ∀ {l : List α}, (l.map key).Nodup → ∀ {a : α}, a ∈ l → l.find? (fun x => key x == key a) = some a
  | [], _, _, h => by cases h
  | x :: t, hnd, a, h => by
    rw [List.map_cons, List.nodup_cons] at hnd
    rw [List.find?_cons]
    rcases List.mem_cons.mp h with rfl | h
    · simp
    · have : key x ≠ key a := fun e => hnd.1 (e ▸ List.mem_map_of_mem h)
      rw [beq_eq_false_iff_ne.mpr this]
      exact find?_key_some key hnd.2 h

theorem find?_perm_unique {α κ : Type} [BEq κ] [LawfulBEq κ] (key : α → κ) {l₁ l₂ : List α} (hp : l₁.Perm l₂)
    (hnd : (l₁.map key).Nodup) (k : κ) :
    l₁.find? (fun x => key x == k) = l₂.find? (fun x => key x == k) := by
  have hnd₂ : (l₂.map key).Nodup := (hp.map key).nodup_iff.mp hnd
  cases h : l₁.find? (fun x => key x == k) with
  | none =>
    symm
    rw [List.find?_eq_none] at h ⊢
    intro x hx
    exact h x (hp.mem_iff.mpr hx)
  | some a =>
    have hk : key a = k := by simpa using List.find?_some h
    have ha := hp.mem_iff.mp (List.mem_of_find?_eq_some h)
    subst hk
    exact (find?_key_some key hnd₂ ha).symm

theorem inj_of_nodup_map {α β : Type} (f : α → β) : ∀ {l : List α}, (l.map f).Nodup →
    ∀ a ∈ l, ∀ b ∈ l, f a = f b → a = b
  | [], _, a, ha, _, _, _ => by cases ha
  | x :: t, hnd, a, ha, b, hb, e => by
    rw [List.map_cons, List.nodup_cons] at hnd
    rcases List.mem_cons.mp ha with ha1 | ha1
    · rcases List.mem_cons.mp hb with hb1 | hb1
      · rw [ha1, hb1]
      · rw [ha1] at e; exact absurd (e ▸ List.mem_map_of_mem (f := f) hb1) hnd.1
    · rcases List.mem_cons.mp hb with hb1 | hb1
      · rw [hb1] at e; exact absurd (e.symm ▸ List.mem_map_of_mem (f := f) ha1) hnd.1
      · exact inj_of_nodup_map f hnd.2 a ha1 b hb1 e

theorem nodup_map_inj {α β : Type} (f : α → β) (hf : ∀ a b, f a = f b → a = b) :
    ∀ {l : List α}, l.Nodup → (l.map f).Nodup
  | [], _ => List.nodup_nil
  | x :: t, hnd => by
    rw [List.nodup_cons] at hnd
    rw [List.map_cons, List.nodup_cons]
    refine ⟨?_, nodup_map_inj f hf hnd.2⟩
    intro hm
    obtain ⟨y, hy, e⟩ := List.mem_map.mp hm
    exact hnd.1 (hf _ _ e ▸ hy)

theorem filterMap_congr' {α β : Type} {f g : α → Option β} : ∀ {l : List α}, (∀ a ∈ l, f a = g a) →
    l.filterMap f = l.filterMap g
  | [], _ => rfl
  | x :: t, hh => by
    rw [List.filterMap_cons, List.filterMap_cons, hh x (List.mem_cons_self ..),
      filterMap_congr' fun a ha => hh a (List.mem_cons_of_mem _ ha)]

/-! ### related registries -/

def kvRen (σ : Nat → Nat) (kv : String × Nat) : String × Nat := (kv.1, σ kv.2)

/-- `r₂` holds the modules of `r₁`, module `n` of `r₁` under the number `σ n`, in any order; the
tables bind the same keys to the same modules. -/
structure RegRel (σ : Nat → Nat) (r₁ r₂ : Registry) : Prop where
  inj : ∀ a b, σ a = σ b → a = b
  mods : r₂.mods.Perm (r₁.mods.map (Mod.ren σ))
  seqNodup : (r₁.mods.map (·.seq)).Nodup
  modules : r₂.modules.Perm (r₁.modules.map (kvRen σ))
  modKeys : (r₁.modules.map (·.1)).Nodup
  subModules : r₂.subModules.Perm (r₁.subModules.map (kvRen σ))
  subKeys : (r₁.subModules.map (·.1)).Nodup
  /-- loaded (sub)modules of one kind have different full names -/
  fullInj : ∀ a ∈ r₁.mods, ∀ b ∈ r₁.mods, a.fullName = b.fullName → a.isSub = b.isSub → a = b
  /-- the module table holds modules -/
  modsNotSub : ∀ kv ∈ r₁.modules, ∀ m, r₁.byId kv.2 = some m → m.isSub = false

section
variable {σ : Nat → Nat} {r₁ r₂ : Registry} (h : RegRel σ r₁ r₂)
include h

theorem RegRel.byId (id : Nat) : r₂.byId (σ id) = (r₁.byId id).map (Mod.ren σ) := by
  unfold Registry.byId
  have hnd : ((r₁.mods.map (Mod.ren σ)).map (·.seq)).Nodup := by
    rw [List.map_map]
    have : ((fun m : Mod => m.seq) ∘ Mod.ren σ) = σ ∘ (fun m : Mod => m.seq) := rfl
    rw [this, ← List.map_map]
    exact nodup_map_inj σ h.inj h.seqNodup
  rw [find?_perm_unique (fun m : Mod => m.seq) h.mods ((h.mods.map _).nodup_iff.mpr hnd) (σ id)]
  exact find?_map_inj σ h.inj (fun m : Mod => m.seq) (fun m : Mod => m.seq) (Mod.ren σ) (fun _ => rfl) r₁.mods id

omit h in
theorem get?_ren (_hinj : ∀ a b, σ a = σ b → a = b) {km₁ km₂ : KeyMap} (hp : km₂.Perm (km₁.map (kvRen σ))) (hk : (km₁.map (·.1)).Nodup) (k : String) :
    km₂.get? k = (km₁.get? k).map σ := by
  unfold KeyMap.get?
  have hnd : ((km₁.map (kvRen σ)).map (·.1)).Nodup := by
    rw [List.map_map]; exact hk
  rw [find?_perm_unique (fun kv : String × Nat => kv.1) hp ((hp.map _).nodup_iff.mpr hnd) k]
  rw [List.find?_map]
  have : ((fun x : String × Nat => x.1 == k) ∘ kvRen σ) = (fun x : String × Nat => x.1 == k) := rfl
  rw [this]
  cases List.find? (fun x : String × Nat => x.1 == k) km₁ <;> rfl

theorem RegRel.getModule (k : String) : r₂.getModule k = (r₁.getModule k).map (Mod.ren σ) := by
  unfold Registry.getModule
  rw [get?_ren h.inj h.modules h.modKeys]
  cases r₁.modules.get? k with
  | none => rfl
  | some id => exact h.byId id

theorem RegRel.getSub (k : String) : r₂.getSub k = (r₁.getSub k).map (Mod.ren σ) := by
  unfold Registry.getSub
  rw [get?_ren h.inj h.subModules h.subKeys]
  cases r₁.subModules.get? k with
  | none => rfl
  | some id => exact h.byId id

theorem RegRel.findModule (inc : Bool) (i : Stmt) :
    r₂.findModule inc i = (r₁.findModule inc i).map (Mod.ren σ) := by
  unfold Registry.findModule
  cases inc with
  | true =>
    simp only [if_true, h.getSub]
    cases r₁.getSub _ with
    | some m => rfl
    | none => simp only [Option.map_none]
  | false =>
    simp only [Bool.false_eq_true, if_false, h.getModule]
    cases r₁.getModule _ with
    | some m => rfl
    | none => simp only [Option.map_none]

theorem RegRel.findModuleByPrefix (root : Mod) (pfx : String) :
    r₂.findModuleByPrefix (Mod.ren σ root) pfx = (r₁.findModuleByPrefix root pfx).map (Mod.ren σ) := by
  unfold Registry.findModuleByPrefix
  rw [Mod.ren_getPrefix, Mod.ren_imports]
  by_cases hc : (pfx == "" || pfx == root.getPrefix) = true
  · rw [if_pos hc, if_pos hc]; rfl
  · rw [if_neg hc, if_neg hc]
    cases root.imports.find? _ with
    | none => rfl
    | some i => exact h.findModule false i

theorem RegRel.owner (root : Mod) : r₂.owner (Mod.ren σ root) = (r₁.owner root).map (Mod.ren σ) := by
  unfold Registry.owner
  simp only [Mod.ren_belongsTo?]
  cases root.belongsTo? with
  | none => rfl
  | some b => exact h.getModule b

theorem RegRel.length : r₂.mods.length = r₁.mods.length := by
  rw [h.mods.length_eq, List.length_map]

/-! ### the orders in which `Process` walks the tables -/

theorem RegRel.distinctModules : r₂.distinctModules.Perm (r₁.distinctModules.map (Mod.ren σ)) := by
  unfold Registry.distinctModules
  refine (h.mods.filter _).trans ?_
  rw [List.filter_map]
  apply List.Perm.of_eq
  congr 1
  apply List.filter_congr
  intro m _
  simp only [Function.comp, Mod.ren_seq]
  rw [h.modules.any_eq]
  exact any_map_inj σ h.inj (fun kv : String × Nat => kv.2) (fun kv : String × Nat => kv.2) (kvRen σ) (fun _ => rfl) _ _

theorem RegRel.distinctSubs : r₂.distinctSubs.Perm (r₁.distinctSubs.map (Mod.ren σ)) := by
  unfold Registry.distinctSubs
  refine (h.mods.filter _).trans ?_
  rw [List.filter_map]
  apply List.Perm.of_eq
  congr 1
  apply List.filter_congr
  intro m _
  simp only [Function.comp, Mod.ren_seq]
  rw [h.subModules.any_eq]
  exact any_map_inj σ h.inj (fun kv : String × Nat => kv.2) (fun kv : String × Nat => kv.2) (kvRen σ) (fun _ => rfl) _ _

end

/-! ### string order -/

theorem str_asymm {a b : String} (h : a < b) : ¬ b < a := fun h' => String.lt_irrefl a (String.lt_trans h h')

def keyLt (a b : String × Nat) : Bool := a.1 < b.1

theorem keyLt_irr (a : String × Nat) : keyLt a a = false := by simp [keyLt, String.lt_irrefl]
theorem keyLt_trans (a b c : String × Nat) (h1 : keyLt a b = true) (h2 : keyLt b c = true) : keyLt a c = true := by
  simp only [keyLt, decide_eq_true_eq] at *
  exact String.lt_trans h1 h2

def fullLt (a b : Mod) : Bool := a.fullName < b.fullName

theorem fullLt_irr (a : Mod) : fullLt a a = false := by simp [fullLt, String.lt_irrefl]
theorem fullLt_trans (a b c : Mod) (h1 : fullLt a b = true) (h2 : fullLt b c = true) : fullLt a c = true := by
  simp only [fullLt, decide_eq_true_eq] at *
  exact String.lt_trans h1 h2

/-- The order of the augment loop: full name, modules before submodules. -/
def augLt (a b : Mod) : Bool :=
  if a.fullName != b.fullName then a.fullName < b.fullName else !a.isSub && b.isSub

theorem augLt_irr (a : Mod) : augLt a a = false := by simp [augLt]

theorem augLt_trans (a b c : Mod) (h1 : augLt a b = true) (h2 : augLt b c = true) : augLt a c = true := by
  unfold augLt at *
  by_cases e1 : a.fullName = b.fullName
  · by_cases e2 : b.fullName = c.fullName
    · have e3 : a.fullName = c.fullName := e1.trans e2
      simp only [e1, e2, bne_self_eq_false, Bool.false_eq_true, if_false, Bool.and_eq_true,
        Bool.not_eq_true'] at *
      exact ⟨h1.1, h2.2⟩
    · have e3 : a.fullName ≠ c.fullName := e1 ▸ e2
      simp only [e1, bne_self_eq_false, Bool.false_eq_true, if_false] at h1
      rw [if_pos (by simpa using e2)] at h2
      rw [if_pos (by simpa using e3)]
      rw [e1]; exact h2
  · rw [if_pos (by simpa using e1)] at h1
    by_cases e2 : b.fullName = c.fullName
    · have e3 : a.fullName ≠ c.fullName := e2 ▸ e1
      rw [if_pos (by simpa using e3)]
      rw [← e2]; exact h1
    · rw [if_pos (by simpa using e2)] at h2
      simp only [decide_eq_true_eq] at h1 h2
      have h3 := String.lt_trans h1 h2
      have e3 : a.fullName ≠ c.fullName := fun e => String.lt_irrefl _ (e ▸ h3)
      rw [if_pos (by simpa using e3)]
      simpa using h3

section
variable {σ : Nat → Nat} {r₁ r₂ : Registry} (h : RegRel σ r₁ r₂)
include h

omit h in
theorem RegRel.sortedKeys {km₁ km₂ : KeyMap} (hp : km₂.Perm (km₁.map (kvRen σ))) (hk : (km₁.map (·.1)).Nodup) :
    sortBy (fun (a b : String × Nat) => a.1 < b.1) km₂ =
      (sortBy (fun (a b : String × Nat) => a.1 < b.1) km₁).map (kvRen σ) := by
  refine sortBy_perm_map keyLt keyLt (kvRen σ) (fun _ _ => rfl) keyLt_irr keyLt_trans hp ?_
  intro a ha b hb hab
  have hne : a.1 ≠ b.1 := by
    intro e
    apply hab
    have := inj_of_nodup_map (fun kv : String × Nat => kv.1) hk a ha b hb e
    rw [this]
  rcases OrderIndep.str_total hne with h1 | h1
  · left; simpa [keyLt] using h1
  · right; simpa [keyLt] using h1

/-- The (sub)modules in key order of one table. -/
theorem RegRel.keysOf {km₁ km₂ : KeyMap} (hp : km₂.Perm (km₁.map (kvRen σ))) (hk : (km₁.map (·.1)).Nodup) :
    ((sortBy (fun (a b : String × Nat) => a.1 < b.1) km₂).filterMap fun kv => r₂.byId kv.2) =
      ((sortBy (fun (a b : String × Nat) => a.1 < b.1) km₁).filterMap fun kv => r₁.byId kv.2).map (Mod.ren σ) := by
  rw [RegRel.sortedKeys hp hk, List.filterMap_map, List.map_filterMap]
  apply filterMap_congr'
  intro kv _
  exact h.byId kv.2

omit h in
theorem mem_of_byId {r : Registry} {id : Nat} {m : Mod} (hm : r.byId id = some m) : m ∈ r.mods ∧ m.seq = id := by
  unfold Registry.byId at hm
  exact ⟨List.mem_of_find?_eq_some hm, by simpa using List.find?_some hm⟩

omit h in
theorem byId_of_mem {r : Registry} (hnd : (r.mods.map (·.seq)).Nodup) {m : Mod} (hm : m ∈ r.mods) :
    r.byId m.seq = some m :=
  find?_key_some (fun m : Mod => m.seq) hnd hm

theorem RegRel.augOrder :
    sortBy (fun (a b : Mod) => if a.fullName != b.fullName then a.fullName < b.fullName else !a.isSub && b.isSub)
      ((r₂.modules ++ r₂.subModules).filterMap fun kv => r₂.byId kv.2) =
    (sortBy (fun (a b : Mod) => if a.fullName != b.fullName then a.fullName < b.fullName else !a.isSub && b.isSub)
      ((r₁.modules ++ r₁.subModules).filterMap fun kv => r₁.byId kv.2)).map (Mod.ren σ) := by
  have hp : ((r₂.modules ++ r₂.subModules).filterMap fun kv => r₂.byId kv.2).Perm
      (((r₁.modules ++ r₁.subModules).filterMap fun kv => r₁.byId kv.2).map (Mod.ren σ)) := by
    refine ((h.modules.append h.subModules).filterMap _).trans ?_
    rw [← List.map_append, List.filterMap_map, List.map_filterMap]
    apply List.Perm.of_eq
    apply filterMap_congr'
    intro kv _
    exact h.byId kv.2
  refine sortBy_perm_map augLt augLt (Mod.ren σ) (fun _ _ => rfl) augLt_irr augLt_trans hp ?_
  intro a ha b hb hab
  obtain ⟨kva, _, hka⟩ := List.mem_filterMap.mp ha
  obtain ⟨kvb, _, hkb⟩ := List.mem_filterMap.mp hb
  have hab' : a ≠ b := fun e => hab (e ▸ rfl)
  unfold augLt
  by_cases e : a.fullName = b.fullName
  · have hs : a.isSub ≠ b.isSub := fun es => hab' (h.fullInj a (mem_of_byId hka).1 b (mem_of_byId hkb).1 e es)
    simp only [e, bne_self_eq_false, Bool.false_eq_true, if_false]
    cases ha' : a.isSub <;> cases hb' : b.isSub <;> simp_all
  · have e' : b.fullName ≠ a.fullName := fun x => e x.symm
    rw [if_pos (by simpa using e), if_pos (by simpa using e')]
    rcases OrderIndep.str_total e with h1 | h1
    · left; simpa using h1
    · right; simpa using h1

omit h in
theorem mem_distinctModules {r : Registry} {m : Mod} (hm : m ∈ r.distinctModules) :
    m ∈ r.mods ∧ ∃ kv ∈ r.modules, kv.2 = m.seq := by
  unfold Registry.distinctModules at hm
  rw [List.mem_filter, List.any_eq_true] at hm
  obtain ⟨h1, kv, h2, h3⟩ := hm
  exact ⟨h1, kv, h2, by simpa using h3⟩

theorem RegRel.distinct_notSub {m : Mod} (hm : m ∈ r₁.distinctModules) : m.isSub = false := by
  obtain ⟨h1, kv, h2, h3⟩ := mem_distinctModules hm
  exact h.modsNotSub kv h2 m (h3 ▸ byId_of_mem h.seqNodup h1)

/-- The loaded modules in full-name order (linking, the dump). -/
theorem RegRel.modulesByFullName :
    sortBy (fun (a b : Mod) => a.fullName < b.fullName) r₂.distinctModules =
      (sortBy (fun (a b : Mod) => a.fullName < b.fullName) r₁.distinctModules).map (Mod.ren σ) := by
  refine sortBy_perm_map fullLt fullLt (Mod.ren σ) (fun _ _ => rfl) fullLt_irr fullLt_trans h.distinctModules ?_
  intro a ha b hb hab
  have hab' : a ≠ b := fun e => hab (e ▸ rfl)
  have e : a.fullName ≠ b.fullName := by
    intro e
    refine hab' (h.fullInj a (mem_distinctModules ha).1 b (mem_distinctModules hb).1 e ?_)
    rw [h.distinct_notSub ha, h.distinct_notSub hb]
  rcases OrderIndep.str_total e with h1 | h1
  · left; simpa [fullLt] using h1
  · right; simpa [fullLt] using h1

end

end Goyang.Lemmas.LoadOrder
