import Goyang.Lemmas.LoadOrderKept
/-
Load-order independence (C05), part 11: lists of TEXTS in which texts that are acceptable on their
own share headers.  `Modules.Parse` is atomic per text: a text one of whose statements is refused
is refused as a whole and leaves the registry as it was — its other headers stay free.  Which texts
are accepted therefore depends on the order, and not through the first load of every header of the
flattened statement list (`kept`): a header's first carrier may sit in a refused text.

`acceptedFrom r` is the fold `loadFiles` performs (a text is accepted when `Registry.addText`
succeeds on the registry built so far); `acceptedAfter` is the same list read off the headers
alone (`acceptedFrom_eq`): a text is accepted when it is acceptable on its own (`okAlone`) and none
of its headers is held by a text accepted before.  The registry after a list of texts is the
registry after the accepted texts (`foldl_loadFile_accepted`), whose statements have `@`-free
names and pairwise different headers (`acceptedAfter_spec`), so that it is `Registry.loadAll` of
their statements (`loadFiles_accepted`) and everything proved for module sets applies: two lists
of texts with the same accepted texts (as a multiset) give registries related by a renaming of the
sequence numbers (`regRel_of_accepted_perm`).  Core Lean only.
-/
namespace Goyang.Lemmas.LoadOrder
open Goyang.Model Goyang.Spec.Registry
open Goyang.Lemmas.Registry (hdr NoAt Inv good noAt_of_good good_of_noAt inv_empty)

/-- The texts `Modules.Parse` accepts when the texts are parsed one after the other into `r`: the
fold of `loadFiles`, keeping the texts instead of the registry. -/
def acceptedFrom (r : Registry) : List SrcFile → List SrcFile
  | [] => []
  | f :: rest =>
    match r.addText f.stmts with
    | .ok r' => f :: acceptedFrom r' rest
    | .error _ => acceptedFrom r rest

/-- The texts a fresh `Modules` accepts, in load order. -/
def acceptedIn (files : List SrcFile) : List SrcFile := acceptedFrom {} files

/-- **Refused texts leave no trace**: the registry after the texts is the registry after the
accepted texts. -/
theorem foldl_loadFile_accepted : ∀ (fs : List SrcFile) (r : Registry),
    fs.foldl loadFile r = (acceptedFrom r fs).foldl loadFile r
  | [], _ => rfl
  | f :: rest, r => by
    rw [List.foldl_cons, loadFile_eq_addText]
    cases hadd : r.addText f.stmts with
    | ok r' =>
      simp only [acceptedFrom, hadd, List.foldl_cons, loadFile_eq_addText]
      exact foldl_loadFile_accepted rest r'
    | error e =>
      simp only [acceptedFrom, hadd]
      exact foldl_loadFile_accepted rest r

theorem loadFiles_acceptedIn (files : List SrcFile) : loadFiles files = loadFiles (acceptedIn files) :=
  foldl_loadFile_accepted files {}

/-! ### the accepted texts, read off the headers -/

/-- None of the text's headers is among `before`. -/
def freshFor (before : List Header) (f : SrcFile) : Bool := f.stmts.all fun s => !before.contains (hdr s)

/-- The accepted texts as a function of the headers alone; `before` = the headers of the texts
accepted so far. -/
def acceptedAfter (before : List Header) : List SrcFile → List SrcFile
  | [] => []
  | f :: rest =>
    if okAlone f && freshFor before f then f :: acceptedAfter (before ++ f.stmts.map hdr) rest
    else acceptedAfter before rest

theorem okAlone_iff (f : SrcFile) : okAlone f = true ↔ (∀ s ∈ f.stmts, NoAt s.arg) ∧ (f.stmts.map hdr).Nodup := by
  unfold okAlone
  rw [Bool.and_eq_true, List.all_eq_true, decide_eq_true_iff]
  constructor
  · rintro ⟨h1, h2⟩; exact ⟨fun s hs => noAt_of_good (h1 s hs), h2⟩
  · rintro ⟨h1, h2⟩; exact ⟨fun s hs => good_of_noAt (h1 s hs), h2⟩

theorem freshFor_iff (before : List Header) (f : SrcFile) :
    freshFor before f = true ↔ ∀ s ∈ f.stmts, hdr s ∉ before := by
  unfold freshFor
  rw [List.all_eq_true]
  constructor
  · intro h s hs; simpa using h s hs
  · intro h s hs; simpa using h s hs

/-- The fold over the registry and the reading off the headers agree. -/
theorem acceptedFrom_eq : ∀ (fs : List SrcFile) {r : Registry} {L : List Stmt}, Inv r L → (∀ t ∈ L, NoAt t.arg) →
    acceptedFrom r fs = acceptedAfter (L.map hdr) fs
  | [], _, _, _, _ => rfl
  | f :: rest, r, L, inv, hL => by
    have spec := Registry.addText_spec inv hL f.stmts
    cases hadd : r.addText f.stmts with
    | ok r' =>
      rw [hadd] at spec
      obtain ⟨⟨h1, h2, h3⟩, inv'⟩ := spec
      have hc : (okAlone f && freshFor (L.map hdr) f) = true := by
        rw [Bool.and_eq_true]
        exact ⟨(okAlone_iff f).mpr ⟨h1, h2⟩, (freshFor_iff _ f).mpr h3⟩
      have hL' : ∀ t ∈ L ++ f.stmts, NoAt t.arg := by
        intro t ht
        rcases List.mem_append.mp ht with ht | ht
        · exact hL t ht
        · exact h1 t ht
      have ih := acceptedFrom_eq rest inv' hL'
      rw [List.map_append] at ih
      simp only [acceptedFrom, hadd, acceptedAfter, hc, if_true, ih]
    | error e =>
      rw [hadd] at spec
      have hc : (okAlone f && freshFor (L.map hdr) f) = false := by
        rw [Bool.eq_false_iff]
        intro h
        rw [Bool.and_eq_true] at h
        exact spec ⟨((okAlone_iff f).mp h.1).1, ((okAlone_iff f).mp h.1).2, (freshFor_iff _ f).mp h.2⟩
      have ih := acceptedFrom_eq rest inv hL
      simp only [acceptedFrom, hadd, acceptedAfter, hc, Bool.false_eq_true, if_false, ih]

theorem acceptedIn_eq (files : List SrcFile) : acceptedIn files = acceptedAfter [] files :=
  acceptedFrom_eq files inv_empty (by simp)

/-- The statements of the accepted texts have `@`-free names and pairwise different headers, none
of them among `before`. -/
theorem acceptedAfter_spec : ∀ (fs : List SrcFile) (before : List Header), before.Nodup →
    (before ++ ((acceptedAfter before fs).flatMap (·.stmts)).map hdr).Nodup ∧
    ∀ t ∈ (acceptedAfter before fs).flatMap (·.stmts), NoAt t.arg
  | [], before, hb => by simpa [acceptedAfter] using hb
  | f :: rest, before, hb => by
    by_cases hc : (okAlone f && freshFor before f) = true
    · have hc' := hc
      rw [Bool.and_eq_true] at hc'
      obtain ⟨ha, hnd⟩ := (okAlone_iff f).mp hc'.1
      have hfr := (freshFor_iff before f).mp hc'.2
      have hb' : (before ++ f.stmts.map hdr).Nodup := by
        rw [List.nodup_append]
        refine ⟨hb, hnd, ?_⟩
        intro x hx y hy e
        obtain ⟨s, hs, rfl⟩ := List.mem_map.mp hy
        exact hfr s hs (e ▸ hx)
      obtain ⟨ih1, ih2⟩ := acceptedAfter_spec rest _ hb'
      simp only [acceptedAfter, hc, if_true, List.flatMap_cons, List.map_append]
      refine ⟨by rw [← List.append_assoc]; exact ih1, ?_⟩
      intro t ht
      rcases List.mem_append.mp ht with ht | ht
      · exact ha t ht
      · exact ih2 t ht
    · simp only [acceptedAfter, hc]
      exact acceptedAfter_spec rest before hb

theorem acceptedIn_nodup (files : List SrcFile) : (((acceptedIn files).flatMap (·.stmts)).map hdr).Nodup := by
  rw [acceptedIn_eq]
  simpa using (acceptedAfter_spec files [] List.nodup_nil).1

theorem acceptedIn_noAt (files : List SrcFile) : ∀ t ∈ (acceptedIn files).flatMap (·.stmts), NoAt t.arg := by
  rw [acceptedIn_eq]
  exact (acceptedAfter_spec files [] List.nodup_nil).2

/-- **The registry after any list of texts is `Registry.loadAll` of the statements of the accepted
texts** — a module set (`acceptedIn_noAt`, `acceptedIn_nodup`). -/
theorem loadFiles_accepted (files : List SrcFile) :
    loadFiles files = (Registry.loadAll ((acceptedIn files).flatMap (·.stmts))).1 := by
  rw [loadFiles_acceptedIn files]
  exact loadFiles_eq_loadAll _ (acceptedIn_noAt files) (acceptedIn_nodup files)

/-- **The accepted texts decide the registry**: two lists of texts — not even permutations of each
other — with the same accepted texts (as a multiset) give registries that hold the same modules
under renamed sequence numbers. -/
theorem regRel_of_accepted_perm {files₁ files₂ : List SrcFile} (h : (acceptedIn files₁).Perm (acceptedIn files₂)) :
    ∃ σ, RegRel σ (loadFiles files₁) (loadFiles files₂) := by
  rw [loadFiles_accepted files₁, loadFiles_accepted files₂]
  exact regRel_of_perm (List.Perm.flatMap_right _ h) (acceptedIn_noAt files₁) (acceptedIn_nodup files₁)

/-! ### structure of the accepted list -/

theorem acceptedAfter_sublist : ∀ (fs : List SrcFile) (before : List Header), (acceptedAfter before fs).Sublist fs
  | [], _ => List.Sublist.refl _
  | f :: rest, before => by
    by_cases hc : (okAlone f && freshFor before f) = true
    · simp only [acceptedAfter, hc, if_true]
      exact (acceptedAfter_sublist rest _).cons_cons f
    · simp only [acceptedAfter, hc]
      exact (acceptedAfter_sublist rest before).cons f

theorem acceptedIn_sublist (files : List SrcFile) : (acceptedIn files).Sublist files := by
  rw [acceptedIn_eq]; exact acceptedAfter_sublist files []

/-- Every accepted text is acceptable on its own. -/
theorem acceptedAfter_okAlone : ∀ (fs : List SrcFile) (before : List Header), ∀ f ∈ acceptedAfter before fs, okAlone f = true
  | [], _ => by simp [acceptedAfter]
  | g :: rest, before => by
    by_cases hc : (okAlone g && freshFor before g) = true
    · simp only [acceptedAfter, hc, if_true, List.mem_cons]
      rintro f (rfl | hf)
      · exact (Bool.and_eq_true _ _ ▸ hc).1
      · exact acceptedAfter_okAlone rest _ f hf
    · simp only [acceptedAfter, hc]
      exact acceptedAfter_okAlone rest before

/-- Accepting is idempotent: of the accepted texts every one is accepted. -/
theorem acceptedAfter_idem : ∀ (fs : List SrcFile) (before : List Header),
    acceptedAfter before (acceptedAfter before fs) = acceptedAfter before fs
  | [], _ => rfl
  | f :: rest, before => by
    by_cases hc : (okAlone f && freshFor before f) = true
    · simp only [acceptedAfter, hc, if_true]
      rw [acceptedAfter_idem rest _]
    · simp only [acceptedAfter, hc]
      exact acceptedAfter_idem rest before

theorem acceptedIn_idem (files : List SrcFile) : acceptedIn (acceptedIn files) = acceptedIn files := by
  rw [acceptedIn_eq (acceptedIn files), acceptedIn_eq files]; exact acceptedAfter_idem files []

/-- **When the texts acceptable on their own define pairwise different headers, every one of them
is accepted, in every order**: the accepted texts are the texts acceptable alone. -/
theorem acceptedAfter_eq_filter : ∀ (fs : List SrcFile) (before : List Header),
    (before ++ ((fs.filter okAlone).flatMap (·.stmts)).map hdr).Nodup →
    acceptedAfter before fs = fs.filter okAlone
  | [], _, _ => rfl
  | f :: rest, before, hnd => by
    cases ho : okAlone f with
    | false =>
      rw [List.filter_cons_of_neg (by rw [ho]; exact Bool.false_ne_true)] at hnd ⊢
      simp only [acceptedAfter, ho, Bool.false_and, Bool.false_eq_true, if_false]
      exact acceptedAfter_eq_filter rest before hnd
    | true =>
      rw [List.filter_cons_of_pos ho] at hnd ⊢
      rw [List.flatMap_cons, List.map_append, ← List.append_assoc] at hnd
      have hfr : freshFor before f = true := by
        rw [freshFor_iff]
        intro s hs hm
        have h1 := (List.nodup_append.mp (List.nodup_append.mp hnd).1).2.2
        exact h1 _ hm _ (List.mem_map_of_mem hs) rfl
      simp only [acceptedAfter, ho, hfr, Bool.and_self, if_true]
      rw [acceptedAfter_eq_filter rest _ hnd]

theorem acceptedIn_eq_filter {files : List SrcFile}
    (hnd : (((files.filter okAlone).flatMap (·.stmts)).map hdr).Nodup) : acceptedIn files = files.filter okAlone := by
  rw [acceptedIn_eq]
  exact acceptedAfter_eq_filter files [] (by simpa using hnd)

/-- A list of texts none of which is outside the model: the same holds for every sublist. -/
theorem findSome?_none_sublist {α β : Type} {f : α → Option β} {l₁ l₂ : List α} (hs : l₁.Sublist l₂)
    (h : l₂.findSome? f = none) : l₁.findSome? f = none := by
  rw [List.findSome?_eq_none_iff] at h ⊢
  exact fun x hx => h x (hs.subset hx)

end Goyang.Lemmas.LoadOrder
