import Goyang.Lemmas.LoadOrderIdentity
import Goyang.Model.Types
/-
Load-order independence (C05), part 11: type and typedef resolution (C09 layer) on two registries
that hold the same modules under renamed sequence numbers: every type statement resolves to the
same `YangType` with the same errors; the errors of `resolveTypedefs` are the same multiset.
Core Lean only.
-/
namespace Goyang.Lemmas.LoadOrder
open Goyang.Model Goyang.Model.Types

/-- Two environments of the type layer over corresponding registries. -/
structure TEnvRel (σ : Nat → Nat) (e₁ e₂ : Types.Env) : Prop where
  reg : RegRel σ e₁.reg e₂.reg
  link : e₂.link = lkRen σ e₁.link
  dict : e₂.dict = e₁.dict.map (deRen σ)
  fuel : e₂.fuel = e₁.fuel
  posixOk : e₂.posixOk = e₁.posixOk

def tdRen (σ : Nat → Nat) (r : TdRef) : TdRef := { r with root := Mod.ren σ r.root }

def luRen (σ : Nat → Nat) : Lookup → Lookup
  | .found r => .found (tdRen σ r)
  | .notFound => .notFound
  | .outOfFuel => .outOfFuel

def lupRen (σ : Nat → Nat) (p : Lookup × List Nat) : Lookup × List Nat := (luRen σ p.1, p.2.map σ)

theorem firstHit_ren (σ : Nat → Nat) (f₁ f₂ : Mod → List Nat → Lookup × List Nat)
    (hf : ∀ m s, f₂ (Mod.ren σ m) (s.map σ) = lupRen σ (f₁ m s)) : ∀ (l : List Mod) (s : List Nat),
    firstHit f₂ (l.map (Mod.ren σ)) (s.map σ) = lupRen σ (firstHit f₁ l s)
  | [], s => rfl
  | a :: rest, s => by
    simp only [List.map_cons, firstHit, hf]
    rcases h1 : f₁ a s with ⟨lu, s'⟩
    cases lu with
    | notFound => simp only [lupRen, luRen]; exact firstHit_ren σ f₁ f₂ hf rest s'
    | found r => rfl
    | outOfFuel => rfl

section
variable {σ : Nat → Nat} {e₁ e₂ : Types.Env} (h : TEnvRel σ e₁ e₂)
include h

theorem env_includeTargets_ren (m : Mod) :
    e₂.includeTargets (Mod.ren σ m) = (e₁.includeTargets m).map (Mod.ren σ) := by
  unfold Types.Env.includeTargets
  rw [h.link]
  exact includeTargets_ren h.reg e₁.link m

theorem findInModule_ren (name : String) : ∀ (fuel : Nat) (m : Mod) (seen : List Nat),
    findInModule e₂ name fuel (Mod.ren σ m) (seen.map σ) = lupRen σ (findInModule e₁ name fuel m seen)
  | 0, m, seen => rfl
  | fuel + 1, m, seen => by
    unfold findInModule
    rw [Mod.ren_seq, contains_map_inj σ h.reg.inj, Mod.ren_stmt]
    split
    · rfl
    · cases findIn m.stmt name with
      | some td => rfl
      | none =>
        simp only [env_includeTargets_ren h]
        have h0 : σ m.seq :: seen.map σ = (m.seq :: seen).map σ := rfl
        rw [h0]
        exact firstHit_ren σ _ _ (fun im s => findInModule_ren name fuel im s) _ _

theorem modFuel_eq : e₂.modFuel = e₁.modFuel := by
  unfold Types.Env.modFuel
  rw [h.reg.length]

theorem findLocalModules_ren (root : Mod) (name : String) :
    findLocalModules e₂ (Mod.ren σ root) name = luRen σ (findLocalModules e₁ root name) := by
  unfold findLocalModules
  rw [Mod.ren_belongsTo?, modFuel_eq h]
  have key : ∀ (l : List Mod),
      (firstHit (fun m s => findInModule e₂ name e₁.modFuel m s) (l.map (Mod.ren σ)) []).1 =
        luRen σ (firstHit (fun m s => findInModule e₁ name e₁.modFuel m s) l []).1 := by
    intro l
    have := firstHit_ren σ (fun m s => findInModule e₁ name e₁.modFuel m s)
      (fun m s => findInModule e₂ name e₁.modFuel m s) (fun m s => findInModule_ren h name _ m s) l []
    simp only [List.map_nil] at this
    rw [this]; rfl
  cases root.belongsTo? with
  | none => exact key [root]
  | some b =>
    simp only [h.reg.getModule]
    have : Mod.ren σ root :: ((e₁.reg.getModule b).map (Mod.ren σ)).toList =
        (root :: (e₁.reg.getModule b).toList).map (Mod.ren σ) := by
      cases e₁.reg.getModule b <;> rfl
    rw [this]
    exact key _

def bdRen (σ : Nat → Nat) : Bound → Bound
  | .builtin y => .builtin y
  | .typedef src r => .typedef src (tdRen σ r)
  | .error e => .error e

omit h in
theorem findInScope_ren (σ : Nat → Nat) (root : Mod) (name : String) : ∀ (l : List Stmt),
    findInScope (Mod.ren σ root) name l = (findInScope root name l).map (tdRen σ)
  | [] => rfl
  | n :: up => by
    simp only [findInScope]
    cases findIn n name with
    | some td => rfl
    | none => exact findInScope_ren σ root name up

theorem lookup_ren (root : Mod) (scope : List Stmt) (t : Stmt) :
    lookup e₂ (Mod.ren σ root) scope t = bdRen σ (lookup e₁ root scope t) := by
  unfold lookup
  cases builtin? t.arg with
  | some y => rfl
  | none =>
    simp only [Mod.ren_getPrefix, findInScope_ren, findLocalModules_ren h, h.reg.findModuleByPrefix, modFuel_eq h]
    split
    · cases findInScope root (splitPrefix t.arg).2 (t :: scope) with
      | some r => rfl
      | none =>
        simp only [Option.map_none]
        cases findLocalModules e₁ root (splitPrefix t.arg).2 <;> rfl
    · cases e₁.reg.findModuleByPrefix root (splitPrefix t.arg).1 with
      | none => rfl
      | some ext =>
        simp only [Option.map_some]
        have := findInModule_ren h (splitPrefix t.arg).2 e₁.modFuel ext []
        simp only [List.map_nil] at this
        rw [this]
        simp only [lupRen]
        cases (findInModule e₁ (splitPrefix t.arg).2 e₁.modFuel ext []).1 <;> rfl

theorem env_findIdentityBase_ren (root : Mod) (s : String) :
    Identity.findIdentityBase e₂.reg e₂.dict (Mod.ren σ root) s =
      (Identity.findIdentityBase e₁.reg e₁.dict root s).map (deRen σ) := by
  rw [h.dict]
  exact findIdentityBase_ren h.reg e₁.dict root s

theorem tdIdentity_ren (root : Mod) (tt : Stmt) (y : YType) :
    tdIdentity e₂ (Mod.ren σ root) tt y = tdIdentity e₁ root tt y := by
  unfold tdIdentity
  cases tt.one? "base" with
  | none => rfl
  | some b =>
    simp only [env_findIdentityBase_ren h]
    cases Identity.findIdentityBase e₁.reg e₁.dict root b.arg <;> rfl

theorem typedefOverlay_ren (root : Mod) (td tt : Stmt) (ty : YType) :
    typedefOverlay e₂ (Mod.ren σ root) td tt ty = typedefOverlay e₁ root td tt ty := by
  unfold typedefOverlay
  rw [tdIdentity_ren h]

theorem posixPatterns_ren (root : Mod) (t : Stmt) :
    posixPatterns e₂ (Mod.ren σ root) t = posixPatterns e₁ root t := by
  unfold posixPatterns
  congr 1
  funext acc ext
  cases acc with
  | none => rfl
  | some l =>
    simp only [h.reg.findModuleByPrefix]
    cases e₁.reg.findModuleByPrefix root (splitPrefix ext.kw).1 <;> rfl

theorem stepKind_ren (root : Mod) (t : Stmt) (source : Source) (dec : Bool) (s : St) :
    stepKind e₂ (Mod.ren σ root) t source dec s = stepKind e₁ root t source dec s := by
  unfold stepKind
  simp only [env_findIdentityBase_ren h]
  repeat' split
  all_goals first
    | rfl
    | (rename_i h1 h2; rw [h1] at h2; cases h2; done)
    | skip
  all_goals (simp_all [Except.map, deRen]; try (rename_i ha _; rw [← ha]))


theorem overlayType_ren (root : Mod) (t : Stmt) (source : Source) (tdY : YType) (members : List Res) :
    overlayType e₂ (Mod.ren σ root) t source tdY members = overlayType e₁ root t source tdY members := by
  unfold overlayType overlayLocal stepPosix
  simp only [stepKind_ren h, posixPatterns_ren h, h.posixOk]

def tkRen (σ : Nat → Nat) (k : TypeKey) : TypeKey := (σ k.1, k.2)

omit h in
theorem tkRen_inj {σ : Nat → Nat} (hσ : ∀ a b, σ a = σ b → a = b) (a b : TypeKey) (e : tkRen σ a = tkRen σ b) : a = b := by
  obtain ⟨a1, a2⟩ := a
  obtain ⟨b1, b2⟩ := b
  simp only [tkRen, Prod.mk.injEq] at e
  rw [hσ _ _ e.1, e.2]

omit h in
theorem typeKey_ren (σ : Nat → Nat) (root : Mod) (t : Stmt) : typeKey (Mod.ren σ root) t = tkRen σ (typeKey root t) := by
  cases root; rfl

/-- **`Type.resolve` on corresponding environments: the same type, the same errors.** -/
theorem resolveTypeF_ren : ∀ (fuel : Nat) (root : Mod) (scope : List Stmt) (t : Stmt) (stack : List TypeKey),
    resolveTypeF e₂ fuel (Mod.ren σ root) scope t (stack.map (tkRen σ)) = resolveTypeF e₁ fuel root scope t stack
  | 0, _, _, _, _ => rfl
  | fuel + 1, root, scope, t, stack => by
    unfold resolveTypeF
    simp only [typeKey_ren, contains_map_inj (tkRen σ) (tkRen_inj h.reg.inj), lookup_ren h, overlayType_ren h]
    split
    · rfl
    · have hst : tkRen σ (typeKey root t) :: stack.map (tkRen σ) = (typeKey root t :: stack).map (tkRen σ) := rfl
      simp only [hst, resolveTypeF_ren fuel]
      cases lookup e₁ root scope t with
      | error e => rfl
      | builtin y => rfl
      | typedef src r =>
        simp only [bdRen, tdRen, typedefOverlay_ren h]
        cases r.td.one? "type" with
        | none => rfl
        | some tt => simp only [resolveTypeF_ren fuel]

theorem resolveTypeE_ren (root : Mod) (scope : List Stmt) (t : Stmt) :
    resolveTypeE e₂ (Mod.ren σ root) scope t = resolveTypeE e₁ root scope t := by
  unfold resolveTypeE
  have := resolveTypeF_ren h e₁.fuel root scope t []
  simp only [List.map_nil] at this
  rw [h.fuel, this]

theorem resolveTypedefF_ren (fuel : Nat) (root : Mod) (scope : List Stmt) (td : Stmt) :
    resolveTypedefF e₂ fuel (Mod.ren σ root) scope td = resolveTypedefF e₁ fuel root scope td := by
  unfold resolveTypedefF
  cases td.one? "type" with
  | none => rfl
  | some tt =>
    have := resolveTypeF_ren h fuel root (td :: scope) tt []
    simp only [List.map_nil] at this
    simp only [this, typedefOverlay_ren h]

theorem resolveAllTypedefsE_perm : (resolveAllTypedefsE e₂).Perm (resolveAllTypedefsE e₁) := by
  unfold resolveAllTypedefsE
  refine (List.Perm.flatMap_right _ h.reg.mods).trans ?_
  rw [List.flatMap_map]
  apply List.Perm.of_eq
  congr 1
  funext m
  have hd : dictTypedefs (Mod.ren σ m) = dictTypedefs m := rfl
  rw [hd]
  congr 1
  funext p
  obtain ⟨td, scope⟩ := p
  simp only [h.fuel, resolveTypedefF_ren h]

end

/-! ### the environment `process` builds -/

section
variable {σ : Nat → Nat} {r₁ r₂ : Registry} (h : RegRel σ r₁ r₂)
include h

theorem allTypeKeys_length : (allTypeKeys r₂).length = (allTypeKeys r₁).length := by
  unfold allTypeKeys
  rw [(List.Perm.flatMap_right _ h.mods).length_eq, List.flatMap_map, List.length_flatMap, List.length_flatMap]
  congr 2
  funext m
  unfold typeKeysOf
  simp only [List.length_map, Mod.ren_stmt]

theorem envOf_tenvRel : TEnvRel σ (Types.Env.of r₁) (Types.Env.of r₂) where
  reg := h
  link := by
    unfold Types.Env.of
    simp only [identity_linkAll_ren h]
    cases Identity.linkAll (Identity.Oracle.ofNat 0) r₁ with
    | none => rfl
    | some p => rfl
  dict := by
    unfold Types.Env.of
    simp only [identity_linkAll_ren h]
    cases Identity.linkAll (Identity.Oracle.ofNat 0) r₁ with
    | none =>
      simp only [Option.map_none]
      have := buildDict_ren h {}
      have h0 : lkRen σ ({} : Identity.Link) = {} := rfl
      rw [h0] at this
      rw [this]
      cases Identity.buildDict (Identity.Oracle.ofNat 0) r₁ {} <;> rfl
    | some p =>
      simp only [Option.map_some, llRen, buildDict_ren h]
      cases Identity.buildDict (Identity.Oracle.ofNat 0) r₁ p.1 <;> rfl
  fuel := by
    unfold Types.Env.of
    simp only [allTypeKeys_length h]
  posixOk := rfl

end

end Goyang.Lemmas.LoadOrder
