import Goyang.Lemmas.Find
import Goyang.Model.Pipeline
/-
Load-order independence (C05): tools for evaluating `processFiles` (the real pipeline, `plugFull`)
on a concrete witness.  Two places do not reduce in the kernel — the legacy `String.splitOn` in
`outside` and `String.contains` in the typedef collection of the type layer; they are discharged
here by lemmas (`split_colon_length`, `plugFull_noTypedefs`), the rest is kernel evaluation.
Imports one Mathlib module through `Lemmas.Find` (`List.splitOn`).
-/
namespace Goyang.Lemmas.LoadOrder
open Goyang.Model

/-- A keyword without a colon is not an extension keyword. -/
theorem split_colon_length (kw : String) (h : ':' ∉ kw.toList) : (kw.splitOn ":").length = 1 := by
  rw [Goyang.Lemmas.Find.colon_eq, Goyang.Lemmas.Find.splitOn_char, List.length_map, List.splitOn,
    List.splitOnP_eq_singleton]
  · rfl
  · intro x hx
    simp
    rintro rfl
    exact h hx

/-- `plugFull` with the typedef errors known to be none. -/
def plugNoTd (r : Registry) : Plug :=
  { tres := (plugFull r).tres, identityErrs := (plugFull r).identityErrs, typedefErrs := fun _ => [] }

/-- A registry whose modules define no typedef: `resolveTypedefs` has nothing to report. -/
theorem plugFull_noTypedefs (r : Registry) (h : ∀ m ∈ r.mods, Types.dictTypedefs m = []) :
    plugFull r = plugNoTd r := by
  have e : plugFull r = ⟨(plugFull r).tres, (plugFull r).identityErrs, (plugFull r).typedefErrs⟩ := rfl
  have ht : (plugFull r).typedefErrs = fun _ => [] := by
    funext r'
    show (Types.resolveAllTypedefsE (Types.Env.of r)).map normTypeErr = []
    unfold Types.resolveAllTypedefsE
    have hr : (Types.Env.of r).reg = r := rfl
    rw [hr]
    have : (r.mods.flatMap fun m =>
        (Types.dictTypedefs m).flatMap fun (td, scope) =>
          (Types.resolveTypedefF (Types.Env.of r) (Types.Env.of r).fuel m scope td).errs) = [] := by
      rw [List.flatMap_eq_nil_iff]
      intro m hm
      rw [h m hm]
      rfl
    rw [this]
    rfl
  rw [e, ht]
  rfl

end Goyang.Lemmas.LoadOrder
