import Goyang.Model.Lockset
/-
Helper lemmas for C19 (lock discipline).  Part A: the two invariants of the interleaving
semantics (mutual exclusion of the lock table; every thread is at a position of its program
text) and the lockset theorem per location.  Part B: from the decidable predicates over the fact
table to the discipline of the abstract program the table describes.
-/
namespace Goyang.Lemmas.Lockset
open Goyang.Model.Lockset

variable {M L : Type} [DecidableEq M]

/-! ## Part A -/

theorem getElem?_set_cases {α : Type} (l : List α) (i j : Nat) (a x : α)
    (h : (l.set i a)[j]? = some x) : (j = i ∧ x = a) ∨ (j ≠ i ∧ l[j]? = some x) := by
  by_cases hji : j = i
  · subst hji
    left
    by_cases hlt : j < l.length
    · simp [List.getElem?_set_self hlt] at h; exact ⟨rfl, h.symm⟩
    · have : (l.set j a)[j]? = none := by simp; omega
      rw [this] at h; cases h
  · right
    rw [List.getElem?_set_ne (fun h => hji h.symm)] at h
    exact ⟨hji, h⟩

/-- Mutual exclusion of the lock table: a mutex held exclusively by one thread is held by no
other thread in any mode. -/
def Excl (s : State M L) : Prop :=
  ∀ (i j : Nat) (ti tj : Thread M L) (m : M), s[i]? = some ti → s[j]? = some tj → i ≠ j →
    m ∈ ti.held.excl → (m ∉ tj.held.excl ∧ m ∉ tj.held.shared)

omit [DecidableEq M] in
theorem excl_start (prog : List (List (Ev M L))) : Excl (start prog) := by
  intro i j ti tj m hi _ _ hm
  simp only [start, List.getElem?_map, Option.map_eq_some_iff] at hi
  obtain ⟨p, _, rfl⟩ := hi
  simp [Held.empty] at hm

theorem excl_step (s s' : State M L) (hinv : Excl s) (h : Step s s') : Excl s' := by
  cases h with
  | mk i t e rest hi htodo hen =>
    intro a b ta tb m' ha hb hab hm'
    rcases getElem?_set_cases _ _ _ _ _ ha with ⟨rfl, rfl⟩ | ⟨hai, ha'⟩ <;>
    rcases getElem?_set_cases _ _ _ _ _ hb with ⟨hbi, rfl⟩ | ⟨hbi, hb'⟩
    · exact absurd hbi.symm hab
    · -- the stepping thread is the exclusive holder
      cases e with
      | acquire m md =>
        cases md with
        | excl =>
          simp only [Held.after, List.mem_cons] at hm'
          rcases hm' with rfl | hm'
          · exact hen b tb hb'
          · exact hinv a b t tb m' hi hb' hab hm'
        | shared =>
          simp only [Held.after] at hm'
          exact hinv a b t tb m' hi hb' hab hm'
      | release m =>
        simp only [Held.after] at hm'
        exact hinv a b t tb m' hi hb' hab (List.mem_of_mem_erase hm')
      | read l => exact hinv a b t tb m' hi hb' hab hm'
      | write l => exact hinv a b t tb m' hi hb' hab hm'
    · -- the stepping thread is the other one
      have := hinv a i ta t m' ha' hi hai hm'
      cases e with
      | acquire m md =>
        cases md with
        | excl =>
          have hf := hen a ta ha'
          simp only [Held.after, List.mem_cons]
          refine ⟨fun h => ?_, this.2⟩
          rcases h with rfl | h
          · exact hf.1 hm'
          · exact this.1 h
        | shared =>
          have hf := hen a ta ha'
          simp only [Held.after, List.mem_cons]
          refine ⟨this.1, fun h => ?_⟩
          rcases h with rfl | h
          · exact hf hm'
          · exact this.2 h
      | release m =>
        simp only [Held.after]
        exact ⟨fun h => this.1 (List.mem_of_mem_erase h), fun h => this.2 (List.mem_of_mem_erase h)⟩
      | read l => exact this
      | write l => exact this
    · exact hinv a b ta tb m' ha' hb' hab hm'

theorem excl_reach (prog : List (List (Ev M L))) (s : State M L) (h : Reach prog s) : Excl s := by
  induction h with
  | start => exact excl_start prog
  | step _ hs ih => exact excl_step _ _ ih hs

/-- Every thread sits at a position of its program text, holding what the text before that
position acquired and did not release. -/
def AtPos (prog : List (List (Ev M L))) (s : State M L) : Prop :=
  ∀ (i : Nat) (t : Thread M L), s[i]? = some t →
    ∃ (pre : List (Ev M L)), prog[i]? = some (pre ++ t.todo) ∧ t.held = heldAfter pre

theorem heldAfter_snoc (pre : List (Ev M L)) (e : Ev M L) :
    heldAfter (pre ++ [e]) = (heldAfter pre).after e := by
  simp [heldAfter, List.foldl_append]

theorem atPos_start (prog : List (List (Ev M L))) : AtPos prog (start prog) := by
  intro i t hi
  simp only [start, List.getElem?_map, Option.map_eq_some_iff] at hi
  obtain ⟨p, hp, rfl⟩ := hi
  exact ⟨[], by simpa using hp, rfl⟩

theorem atPos_step (prog : List (List (Ev M L))) (s s' : State M L) (hinv : AtPos prog s)
    (h : Step s s') : AtPos prog s' := by
  cases h with
  | mk i t e rest hi htodo _ =>
    intro a ta ha
    rcases getElem?_set_cases _ _ _ _ _ ha with ⟨rfl, rfl⟩ | ⟨_, ha'⟩
    · obtain ⟨pre, hp, hh⟩ := hinv a t hi
      refine ⟨pre ++ [e], ?_, ?_⟩
      · rw [hp, htodo]; simp
      · rw [heldAfter_snoc, hh]
    · exact hinv a ta ha'

theorem atPos_reach (prog : List (List (Ev M L))) (s : State M L) (h : Reach prog s) : AtPos prog s := by
  induction h with
  | start => exact atPos_start prog
  | step _ hs ih => exact atPos_step _ _ _ ih hs

/-- The lockset theorem for one location. -/
theorem lockset_on (prog : List (List (Ev M L))) (l : L) (hd : DisciplinedOn prog l)
    (s : State M L) (hr : Reach prog s) : ¬ RaceOn s l := by
  rintro ⟨i, j, ti, tj, ri, rj, hij, hi, hj, hwi, hj'⟩
  have hex := excl_reach prog s hr
  obtain ⟨prei, hpi, hhi⟩ := atPos_reach prog s hr i ti hi
  obtain ⟨prej, hpj, hhj⟩ := atPos_reach prog s hr j tj hj
  have key : ∀ (b : Bool), tj.todo = acc b l :: rj → False := by
    intro b hb
    have hp := hd i j _ _ prei ri prej rj b hij hpi hpj (by rw [hwi]) (by rw [hb])
    rw [← hhi, ← hhj] at hp
    obtain ⟨m, hm | hm⟩ := hp
    · have := hex i j ti tj m hi hj hij hm.1
      rcases hm.2 with h | h
      · exact this.1 h
      · exact this.2 h
    · have := hex j i tj ti m hj hi (fun h => hij h.symm) hm.1
      rcases hm.2 with h | h
      · exact this.1 h
      · exact this.2 h
  rcases hj' with h | h
  · exact key true (by simpa [acc] using h)
  · exact key false (by simpa [acc] using h)

/-! ## Part B -/

theorem memN_iff (x : Nat) (l : List Nat) : memN x l = true ↔ x ∈ l := by
  induction l with
  | nil => simp [memN]
  | cons y ys ih =>
    simp only [memN, Bool.or_eq_true, ih, List.mem_cons]
    constructor
    · rintro (h | h)
      · exact Or.inl (Nat.eq_of_beq_eq_true h)
      · exact Or.inr h
    · rintro (h | h)
      · exact Or.inl (by subst h; exact Nat.beq_refl x)
      · exact Or.inr h

theorem heldHas_iff (m : Nat) (h : List (Nat × Bool)) : heldHas m h = true ↔ ∃ x, (m, x) ∈ h := by
  simp only [heldHas, List.any_eq_true]
  constructor
  · rintro ⟨⟨m', x⟩, hmem, hb⟩
    have : m' = m := Nat.eq_of_beq_eq_true hb
    subst this
    exact ⟨x, hmem⟩
  · rintro ⟨x, hmem⟩
    exact ⟨(m, x), hmem, Nat.beq_refl m⟩

theorem heldExcl_iff (m : Nat) (h : List (Nat × Bool)) : heldExcl m h = true ↔ (m, true) ∈ h := by
  simp only [heldExcl, List.any_eq_true, Bool.and_eq_true]
  constructor
  · rintro ⟨⟨m', x⟩, hmem, hb, hx⟩
    have : m' = m := Nat.eq_of_beq_eq_true hb
    subst this
    simp only at hx
    subst hx
    exact hmem
  · intro hmem
    exact ⟨(m, true), hmem, Nat.beq_refl m, rfl⟩

theorem protects_spec (w a : List (Nat × Bool)) (h : protects w a = true) :
    ∃ m, ((m, true) ∈ w ∧ ∃ x, (m, x) ∈ a) ∨ ((m, true) ∈ a ∧ ∃ x, (m, x) ∈ w) := by
  simp only [protects, Bool.or_eq_true, List.any_eq_true, Bool.and_eq_true] at h
  rcases h with ⟨⟨m, x⟩, hmem, hx, hh⟩ | ⟨⟨m, x⟩, hmem, hx, hh⟩
  · simp only at hx; subst hx
    exact ⟨m, Or.inl ⟨hmem, (heldHas_iff _ _).1 hh⟩⟩
  · simp only at hx; subst hx
    exact ⟨m, Or.inr ⟨hmem, (heldHas_iff _ _).1 hh⟩⟩

/-- `P` holds at every access event of `evs`, for the lock set held there when starting from `h`. -/
def AllAcc (P : Held M → Bool → L → Prop) : Held M → List (Ev M L) → Prop
  | _, [] => True
  | h, e :: r => (∀ (b : Bool) (l : L), e = acc b l → P h b l) ∧ AllAcc P (h.after e) r

theorem allAcc_append (P : Held M → Bool → L → Prop) (xs ys : List (Ev M L)) (h : Held M) :
    AllAcc P h (xs ++ ys) ↔ AllAcc P h xs ∧ AllAcc P (xs.foldl Held.after h) ys := by
  induction xs generalizing h with
  | nil => simp [AllAcc]
  | cons x xs ih => simp only [List.cons_append, AllAcc, List.foldl_cons, ih, and_assoc]

theorem allAcc_split (P : Held M → Bool → L → Prop) (pre post : List (Ev M L)) (b : Bool) (l : L)
    (h : AllAcc P Held.empty (pre ++ acc b l :: post)) : P (heldAfter pre) b l := by
  rw [allAcc_append] at h
  exact h.2.1 b l rfl

omit [DecidableEq M] in
theorem acc_inj {w b : Bool} {l l' : L} (h : (acc w l : Ev M L) = acc b l') : w = b ∧ l = l' := by
  cases w <;> cases b <;> simp [acc] at h <;> simp [h]

theorem allAcc_acquires (P : Held (Nat × Nat) → Bool → (Nat × Nat) → Prop) (inst : Nat)
    (hs : List (Nat × Bool)) (h : Held (Nat × Nat)) : AllAcc P h (acquires inst hs) := by
  induction hs generalizing h with
  | nil => simp [acquires, AllAcc]
  | cons x xs ih =>
    simp only [acquires, List.map_cons, AllAcc]
    refine ⟨fun b l hb => ?_, ih _⟩
    cases b <;> simp [acc] at hb

theorem allAcc_releases (P : Held (Nat × Nat) → Bool → (Nat × Nat) → Prop) (inst : Nat)
    (hs : List (Nat × Bool)) (h : Held (Nat × Nat)) : AllAcc P h (releases inst hs) := by
  induction hs generalizing h with
  | nil => simp [releases, AllAcc]
  | cons x xs ih =>
    simp only [releases, List.map_cons, AllAcc]
    refine ⟨fun b l hb => ?_, ih _⟩
    cases b <;> simp [acc] at hb

/-- The static lock set of a site, read for instance `inst`, is part of a dynamic lock set. -/
def HeldIn (inst : Nat) (hs : List (Nat × Bool)) (H : Held (Nat × Nat)) : Prop :=
  ∀ (m : Nat) (x : Bool), (m, x) ∈ hs → if x = true then (inst, m) ∈ H.excl else (inst, m) ∈ H.shared

theorem acquires_mono (inst : Nat) (hs : List (Nat × Bool)) (h : Held (Nat × Nat)) :
    (∀ m, m ∈ h.excl → m ∈ ((acquires inst hs).foldl Held.after h).excl) ∧
    (∀ m, m ∈ h.shared → m ∈ ((acquires inst hs).foldl Held.after h).shared) := by
  induction hs generalizing h with
  | nil => simp [acquires]
  | cons x xs ih =>
    obtain ⟨m0, x0⟩ := x
    simp only [acquires, List.map_cons, List.foldl_cons]
    have := ih (h.after (Ev.acquire (L := Nat × Nat) (inst, m0) (mode x0)))
    simp only [acquires] at this
    constructor
    · intro m hm
      apply this.1
      cases x0 <;> simp [mode, Held.after, hm]
    · intro m hm
      apply this.2
      cases x0 <;> simp [mode, Held.after, hm]

theorem heldIn_acquires (inst : Nat) (hs : List (Nat × Bool)) (h : Held (Nat × Nat)) :
    HeldIn inst hs ((acquires inst hs).foldl Held.after h) := by
  induction hs generalizing h with
  | nil => intro m x hm; simp at hm
  | cons y ys ih =>
    obtain ⟨m0, x0⟩ := y
    intro m x hm
    simp only [acquires, List.map_cons, List.foldl_cons]
    simp only [List.mem_cons, Prod.mk.injEq] at hm
    rcases hm with ⟨rfl, rfl⟩ | hm
    · have := acquires_mono inst ys (h.after (Ev.acquire (L := Nat × Nat) (inst, m) (mode x)))
      simp only [acquires] at this
      cases x
      · simp only [Bool.false_eq_true, if_false]
        exact this.2 _ (by simp [mode, Held.after])
      · simp only [if_true]
        exact this.1 _ (by simp [mode, Held.after])
    · have := ih (h.after (Ev.acquire (L := Nat × Nat) (inst, m0) (mode x0))) m x hm
      simpa only [acquires] using this

/-- What is known about an access event of a thread: it stems from an `ok` site of a function
in `S`, and the site's static lock set is held. -/
def Covered (F : Facts) (ok : Acc → Bool) (inst : Nat) (S : Nat → Prop)
    (H : Held (Nat × Nat)) (b : Bool) (l : Nat × Nat) : Prop :=
  ∃ (g : Nat) (fn : Fn) (a : Acc), S g ∧ F.fns[g]? = some fn ∧ a ∈ (if b = true then fn.writes else fn.reads) ∧
    ok a = true ∧ l = locOf F inst a.tgt ∧ HeldIn inst a.held H

/-- `S` is closed under the `ok` call edges. -/
def Closed (F : Facts) (ok : Acc → Bool) (S : Nat → Prop) : Prop :=
  ∀ (g : Nat) (fn : Fn) (a : Acc), S g → F.fns[g]? = some fn → a ∈ fn.calls → ok a = true → S a.tgt

theorem run_covered (F : Facts) (ok : Acc → Bool) (inst : Nat) (S : Nat → Prop) (hc : Closed F ok S)
    (f : Nat) (tr : List AEv) (hr : Run F ok inst f tr) (hf : S f) :
    ∀ h, AllAcc (Covered F ok inst S) h tr := by
  induction hr with
  | done f => intro h; trivial
  | access f fn w a rest hfn ha hok _ ih =>
    intro h
    rw [allAcc_append]
    refine ⟨allAcc_acquires _ _ _ _, ?_, ?_⟩
    · intro b l hb
      obtain ⟨rfl, rfl⟩ := acc_inj hb
      refine ⟨f, fn, a, hf, hfn, ?_, hok, rfl, heldIn_acquires _ _ _⟩
      cases w <;> simpa using ha
    · rw [allAcc_append]
      exact ⟨allAcc_releases _ _ _ _, ih hf _⟩
  | call f fn a sub rest hfn ha hok _ _ ihsub ihrest =>
    intro h
    rw [allAcc_append, allAcc_append]
    refine ⟨⟨allAcc_acquires _ _ _ _, ihsub (hc f fn a hf hfn ha hok) _⟩, ?_⟩
    rw [allAcc_append]
    exact ⟨allAcc_releases _ _ _ _, ihrest hf _⟩

theorem calls_covered (F : Facts) (ok : Acc → Bool) (inst : Nat) (roots S : Nat → Prop)
    (hc : Closed F ok S) (hroots : ∀ r, roots r → S r) (p : List AEv) (hp : Calls F ok inst roots p) :
    ∀ h, AllAcc (Covered F ok inst S) h p := by
  induction hp with
  | nil => intro h; trivial
  | cons r tr rest hr hrun _ ih =>
    intro h
    rw [allAcc_append]
    exact ⟨run_covered F ok inst S hc r tr hrun (hroots r hr) h, ih _⟩

/-- Every access event of a thread is covered by a site. -/
theorem thread_covered (F : Facts) (ok : Acc → Bool) (inst : Nat) (roots S : Nat → Prop)
    (hc : Closed F ok S) (hroots : ∀ r, roots r → S r) (p pre post : List AEv) (b : Bool) (l : Nat × Nat)
    (hp : Calls F ok inst roots p) (hsplit : p = pre ++ acc b l :: post) :
    Covered F ok inst S (heldAfter pre) b l := by
  have := calls_covered F ok inst roots S hc hroots p hp Held.empty
  rw [hsplit] at this
  exact allAcc_split _ _ _ _ _ this

/-! ### What the decidable predicates say -/

theorem allIdx_go_spec {α : Type} (p : Nat → α → Bool) (l : List α) (k : Nat) (h : allIdx.go p k l = true) :
    ∀ (i : Nat) (x : α), l[i]? = some x → p (k + i) x = true := by
  induction l generalizing k with
  | nil => intro i x hx; simp at hx
  | cons y ys ih =>
    simp only [allIdx.go, Bool.and_eq_true] at h
    intro i x hx
    cases i with
    | zero => simp at hx; subst hx; simpa using h.1
    | succ i =>
      simp only [List.getElem?_cons_succ] at hx
      have := ih (k + 1) h.2 i x hx
      rwa [Nat.add_assoc, Nat.add_comm 1 i] at this

theorem allIdx_spec {α : Type} (p : Nat → α → Bool) (l : List α) (h : allIdx l p = true) :
    ∀ (i : Nat) (x : α), l[i]? = some x → p i x = true := by
  intro i x hx
  have := allIdx_go_spec p l 0 h i x hx
  simpa using this

structure ReaderSpec (F : Facts) : Prop where
  roots : ∀ r, memN r F.readerRoots = true → memN r F.readerReach = true
  closed : Closed F inClaim (fun g => memN g F.readerReach = true)
  pairs : ∀ (g1 g2 : Nat) (fn1 fn2 : Fn) (w a : Acc), memN g1 F.readerReach = true → memN g2 F.readerReach = true →
    F.fns[g1]? = some fn1 → F.fns[g2]? = some fn2 → w ∈ fn1.writes → inClaim w = true →
    (a ∈ fn2.writes ∨ a ∈ fn2.reads) → inClaim a = true → a.tgt = w.tgt → protects w.held a.held = true

theorem readerDiscipline_spec (F : Facts) (h : ReaderDiscipline F = true) : ReaderSpec F := by
  simp only [ReaderDiscipline, Bool.and_eq_true, List.all_eq_true] at h
  obtain ⟨⟨⟨_, h1⟩, h2⟩, h3⟩ := h
  refine ⟨?_, ?_, ?_⟩
  · intro r hr
    exact h1 r ((memN_iff _ _).1 hr)
  · intro g fn a hg hfn ha hok
    have := h2 g ((memN_iff _ _).1 hg)
    rw [hfn] at this
    simp only [List.all_eq_true] at this
    have := this a ha
    simpa [hok] using this
  · intro g1 g2 fn1 fn2 w a hg1 hg2 hf1 hf2 hw hwc ha hac htgt
    have hwm : w ∈ claimWrites F F.readerReach := by
      simp only [claimWrites, List.mem_flatMap]
      exact ⟨g1, (memN_iff _ _).1 hg1, by rw [hf1]; exact List.mem_filter.2 ⟨hw, hwc⟩⟩
    have ham : a ∈ claimAccesses F F.readerReach := by
      simp only [claimAccesses, List.mem_flatMap]
      refine ⟨g2, (memN_iff _ _).1 hg2, ?_⟩
      rw [hf2]
      exact List.mem_filter.2 ⟨List.mem_append.2 ha, hac⟩
    have := h3 w hwm a ham
    simpa [htgt] using this

structure GlobalsSpec (F : Facts) : Prop where
  writes : ∀ (i : Nat) (fn : Fn) (w : Acc), F.fns[i]? = some fn → w ∈ fn.writes → memN w.tgt F.globals = true →
    memN i F.initOnly = true
  callers : ∀ (i : Nat) (fn : Fn) (c : Acc), F.fns[i]? = some fn → c ∈ fn.calls → memN c.tgt F.initOnly = true →
    memN i F.initOnly = true
  confined : ∀ f, memN f F.initOnly = true → memN f F.initRoots = true ∨ ∃ fn, F.fns[f]? = some fn ∧ fn.escapes = false
  roots : ∀ r, memN r F.readerRoots = true → memN r F.initOnly = false

theorem globalsInitOnly_spec (F : Facts) (h : GlobalsInitOnly F = true) : GlobalsSpec F := by
  simp only [GlobalsInitOnly, Bool.and_eq_true, List.all_eq_true] at h
  obtain ⟨⟨h1, h2⟩, h3⟩ := h
  have h1' := allIdx_spec _ _ h1
  refine ⟨?_, ?_, ?_, ?_⟩
  · intro i fn w hfn hw hg
    have := h1' i fn hfn
    simp only [Bool.and_eq_true, List.all_eq_true] at this
    have := this.1 w hw
    simpa [hg] using this
  · intro i fn c hfn hc hg
    have := h1' i fn hfn
    simp only [Bool.and_eq_true, List.all_eq_true] at this
    have := this.2 c hc
    simpa [hg] using this
  · intro f hf
    have := h2 f ((memN_iff _ _).1 hf)
    simp only [Bool.or_eq_true] at this
    rcases this with h | h
    · exact Or.inl h
    · right
      cases hfn : F.fns[f]? with
      | none => simp [hfn] at h
      | some fn => exact ⟨fn, rfl, by simpa [hfn] using h⟩
  · intro r hr
    have := h3 r ((memN_iff _ _).1 hr)
    simpa using this

structure GuardSpec (F : Facts) (g : Nat × Nat × Bool) : Prop where
  notGlobal : memN g.1 F.globals = false
  writes : ∀ (fn : Fn) (w : Acc), fn ∈ F.fns → w ∈ fn.writes → w.tgt = g.1 → (g.2.1, true) ∈ w.held
  reads : g.2.2 = true → ∀ (fn : Fn) (r : Acc), fn ∈ F.fns → r ∈ fn.reads → r.tgt = g.1 → ∃ x, (g.2.1, x) ∈ r.held

theorem guardedLocations_spec (F : Facts) (h : GuardedLocations F = true) :
    ∀ g, g ∈ F.guards → GuardSpec F g := by
  simp only [GuardedLocations, List.all_eq_true, Bool.and_eq_true] at h
  intro g hg
  obtain ⟨h0, h1⟩ := h g hg
  refine ⟨by simpa using h0, ?_, ?_⟩
  · intro fn w hfn hw htgt
    have := (h1 fn hfn).1 w hw
    simp only [htgt, Nat.beq_refl, Bool.not_true, Bool.false_or] at this
    exact (heldExcl_iff _ _).1 this
  · intro hr fn r hfn hrd htgt
    have := (h1 fn hfn).2
    simp only [hr, Bool.not_true, Bool.false_or, List.all_eq_true] at this
    have := this r hrd
    simp only [htgt, Nat.beq_refl, Bool.not_true, Bool.false_or] at this
    exact (heldHas_iff _ _).1 this

/-! ### From the predicates to the discipline of the abstract program -/

/-- What is known about an access event of goroutine `k` of a C19 program. -/
def ThreadFact (F : Facts) (k : Nat) (H : Held (Nat × Nat)) (b : Bool) (l : Nat × Nat) : Prop :=
  ∃ (inst g : Nat) (fn : Fn) (a : Acc),
    ((inst = sharedInst ∧ memN g F.readerReach = true ∧ inClaim a = true) ∨ inst = k + 2) ∧
    memN g F.initOnly = false ∧ F.fns[g]? = some fn ∧ a ∈ (if b = true then fn.writes else fn.reads) ∧
    l = locOf F inst a.tgt ∧ HeldIn inst a.held H

theorem notInit_closed (F : Facts) (hG : GlobalsSpec F) (ok : Acc → Bool) :
    Closed F ok (fun g => memN g F.initOnly = false) := by
  intro g fn a hg hfn ha _
  cases hc : memN a.tgt F.initOnly with
  | false => rfl
  | true =>
    have := hG.callers g fn a hfn ha hc
    rw [this] at hg; cases hg

theorem thread_fact (F : Facts) (hR : ReaderSpec F) (hG : GlobalsSpec F) (k : Nat) (p pre post : List AEv)
    (b : Bool) (l : Nat × Nat) (hp : ReaderThread F p ∨ PipelineThread F k p)
    (hsplit : p = pre ++ acc b l :: post) : ThreadFact F k (heldAfter pre) b l := by
  rcases hp with hp | hp
  · have hc : Closed F inClaim (fun g => memN g F.readerReach = true ∧ memN g F.initOnly = false) := by
      intro g fn a hg hfn ha hok
      exact ⟨hR.closed g fn a hg.1 hfn ha hok, notInit_closed F hG inClaim g fn a hg.2 hfn ha hok⟩
    obtain ⟨g, fn, a, hS, hfn, ha, hok, hl, hh⟩ :=
      thread_covered F inClaim sharedInst _ _ hc (fun r hr => ⟨hR.roots r hr, hG.roots r hr⟩) p pre post b l hp hsplit
    exact ⟨sharedInst, g, fn, a, Or.inl ⟨rfl, hS.1, hok⟩, hS.2, hfn, ha, hl, hh⟩
  · obtain ⟨g, fn, a, hS, hfn, ha, _, hl, hh⟩ :=
      thread_covered F (fun _ => true) (k + 2) _ _ (notInit_closed F hG _) (fun r hr => hr) p pre post b l hp hsplit
    exact ⟨k + 2, g, fn, a, Or.inr rfl, hS, hfn, ha, hl, hh⟩

theorem protects_lift (inst : Nat) (w a : List (Nat × Bool)) (Hw Ha : Held (Nat × Nat))
    (hp : protects w a = true) (hw : HeldIn inst w Hw) (ha : HeldIn inst a Ha) : Protects Hw Ha := by
  obtain ⟨m, ⟨hmw, x, hma⟩ | ⟨hma, x, hmw⟩⟩ := protects_spec w a hp
  · refine ⟨(inst, m), Or.inl ⟨by simpa using hw m true hmw, ?_⟩⟩
    have := ha m x hma
    cases x
    · exact Or.inr (by simpa using this)
    · exact Or.inl (by simpa using this)
  · refine ⟨(inst, m), Or.inr ⟨by simpa using ha m true hma, ?_⟩⟩
    have := hw m x hmw
    cases x
    · exact Or.inr (by simpa using this)
    · exact Or.inl (by simpa using this)

theorem c19_disciplined (F : Facts) (hR : ReaderSpec F) (hG : GlobalsSpec F) (prog : List (List AEv))
    (hprog : C19Program F prog) : Disciplined prog := by
  intro l i j pi pj prei posti prej postj b hij hpi hpj hsi hsj
  obtain ⟨insti, gi, fni, ai, hki, hni, hfi, hai, hli, hhi⟩ :=
    thread_fact F hR hG i pi prei posti true l (hprog i pi hpi) (by simpa [acc] using hsi)
  obtain ⟨instj, gj, fnj, aj, hkj, hnj, hfj, haj, hlj, hhj⟩ :=
    thread_fact F hR hG j pj prej postj b l (hprog j pj hpj) hsj
  simp only [if_true] at hai
  -- the written location is not a package-level variable
  have hng : memN ai.tgt F.globals = false := by
    cases hc : memN ai.tgt F.globals with
    | false => rfl
    | true =>
      have := hG.writes gi fni ai hfi hai hc
      rw [this] at hni; cases hni
  have hinsti : insti ≠ 0 := by
    rcases hki with ⟨h, _⟩ | h <;> simp [h, sharedInst]
  simp only [locOf, hng, Bool.false_eq_true, if_false] at hli
  subst hli
  simp only [locOf] at hlj
  split at hlj
  · simp only [Prod.mk.injEq] at hlj
    exact absurd hlj.1 hinsti
  · simp only [Prod.mk.injEq] at hlj
    obtain ⟨hinst, htgt⟩ := hlj
    subst hinst
    rcases hki with ⟨hi1, hri, hci⟩ | hi2
    · rcases hkj with ⟨_, hrj, hcj⟩ | hj2
      · have haj' : aj ∈ fnj.writes ∨ aj ∈ fnj.reads := by
          cases b
          · exact Or.inr (by simpa using haj)
          · exact Or.inl (by simpa using haj)
        have := hR.pairs gi gj fni fnj ai aj hri hrj hfi hfj hai hci haj' hcj htgt.symm
        exact protects_lift _ _ _ _ _ this hhi hhj
      · simp [sharedInst] at hi1; omega
    · rcases hkj with ⟨hj1, _, _⟩ | hj2
      · simp [sharedInst] at hj1; omega
      · omega

theorem guarded_disciplined (F : Facts) (g : Nat × Nat × Bool) (hg : GuardSpec F g) (hstrict : g.2.2 = true)
    (prog : List (List AEv)) (hprog : AnyProgram F prog) : DisciplinedOn prog (sharedInst, g.1) := by
  intro i j pi pj prei posti prej postj b _ hpi hpj hsi hsj
  have hc : Closed F (fun _ => true) (fun _ => True) := fun _ _ _ _ _ _ _ => trivial
  obtain ⟨gi, fni, ai, _, hfi, hai, _, hli, hhi⟩ :=
    thread_covered F (fun _ => true) sharedInst _ _ hc (fun _ h => h) pi prei posti true _ (hprog i pi hpi)
      (by simpa [acc] using hsi)
  obtain ⟨gj, fnj, aj, _, hfj, haj, _, hlj, hhj⟩ :=
    thread_covered F (fun _ => true) sharedInst _ _ hc (fun _ h => h) pj prej postj b _ (hprog j pj hpj) hsj
  simp only [if_true] at hai
  have tgt_of : ∀ (a : Acc), (sharedInst, g.1) = locOf F sharedInst a.tgt → a.tgt = g.1 := by
    intro a h
    simp only [locOf] at h
    split at h
    · simp [sharedInst] at h
    · simp only [Prod.mk.injEq] at h; exact h.2.symm
  have hmi := hg.writes fni ai (List.mem_of_getElem? hfi) hai (tgt_of ai hli)
  have hi' := hhi _ _ hmi
  simp only [if_true] at hi'
  refine ⟨(sharedInst, g.2.1), Or.inl ⟨hi', ?_⟩⟩
  cases b
  · simp only [Bool.false_eq_true, if_false] at haj
    obtain ⟨x, hx⟩ := hg.reads hstrict fnj aj (List.mem_of_getElem? hfj) haj (tgt_of aj hlj)
    have := hhj _ _ hx
    cases x
    · exact Or.inr (by simpa using this)
    · exact Or.inl (by simpa using this)
  · simp only [if_true] at haj
    have := hhj _ _ (hg.writes fnj aj (List.mem_of_getElem? hfj) haj (tgt_of aj hlj))
    exact Or.inl (by simpa using this)

end Goyang.Lemmas.Lockset
