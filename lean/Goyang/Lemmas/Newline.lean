/-
`newLexer` appends a line feed to a text that does not end in one.  For the reference reader
that makes no difference: same tokens, same positions, same forest, same admissibility.
-/
import Goyang.Lemmas.Scan
import Goyang.Lemmas.ListSrc

namespace Goyang.Lemmas.Newline
open Goyang.Spec.Parse Goyang.Lemmas.Scan
open Goyang.Lemmas.ListSrc (argument_suffix stmt_stmts_suffix)

section congr
variable (text1 text2 : List Char) (N : Nat) (hsame : ∀ off, off ≤ N → text1.take off = text2.take off)
include hsame

theorem stmt_stmts_congr : ∀ (g : Nat),
    (∀ ts : List PTok, (∀ t ∈ ts, t.off ≤ N) → stmt text1 g ts = stmt text2 g ts) ∧
    (∀ ts : List PTok, (∀ t ∈ ts, t.off ≤ N) → stmts text1 g ts = stmts text2 g ts) := by
  intro g
  induction g with
  | zero => exact ⟨fun ts _ => by simp [stmt], fun ts _ => by simp [stmts]⟩
  | succ g ih =>
    obtain ⟨ih1, ih2⟩ := ih
    constructor
    · intro ts hoff
      cases ts with
      | nil => simp [stmt]
      | cons k ts' =>
        have hoff' : ∀ t ∈ ts', t.off ≤ N := fun t ht => hoff t (by simp [ht])
        conv => lhs; unfold stmt
        conv => rhs; unfold stmt
        cases hk : k.tok with
        | unq kw =>
          simp only
          rw [argument_congr text1 text2 N hsame _ ts' hoff']
          cases ha : argument text2 (decide (kw = patternKw)) ts' with
          | none => rfl
          | some p =>
            obtain ⟨arg, r1⟩ := p
            simp only
            have hsx := argument_suffix text2 _ ts' arg r1 ha
            cases r1 with
            | nil => rfl
            | cons e r =>
              simp only
              rw [lineOf_congr text1 text2 N hsame k.off (hoff k (by simp)),
                colOf_congr text1 text2 N hsame k.off (hoff k (by simp))]
              have hr : ∀ t ∈ r, t.off ≤ N := fun t ht =>
                hoff' t (List.IsSuffix.mem ht ((List.suffix_cons e r).trans hsx))
              rw [ih2 r hr]
        | semi => rfl
        | lbrace => rfl
        | rbrace => rfl
        | sq s => rfl
        | dq s => rfl
    · intro ts hoff
      cases ts with
      | nil => simp [stmts]
      | cons t ts' =>
        conv => lhs; unfold stmts
        conv => rhs; unfold stmts
        split
        · rfl
        · rw [ih1 (t :: ts') hoff]
          cases hs : stmt text2 g (t :: ts') with
          | none => rfl
          | some p =>
            obtain ⟨s, r⟩ := p
            simp only
            have hsx := ((stmt_stmts_suffix text2 g).1 _ _ _ hs).1
            rw [ih2 r (fun x hx => hoff x (List.IsSuffix.mem hx hsx))]

theorem parseTokens_congr (toks : List PTok) (hoff : ∀ t ∈ toks, t.off ≤ N) :
    parseTokens text1 toks = parseTokens text2 toks := by
  unfold parseTokens
  rw [(stmt_stmts_congr text1 text2 N hsame _).2 toks hoff]

theorem tokExcluded_congr (t : PTok) (h : t.off ≤ N) : tokExcluded text1 t = tokExcluded text2 t := by
  obtain ⟨tok, off⟩ := t
  cases tok <;> simp only [tokExcluded]
  rw [quoteCol_congr text1 text2 N hsame off h]

end congr

theorem all_congr_mem {α : Type} (f g : α → Bool) : ∀ (l : List α), (∀ x ∈ l, f x = g x) → l.all f = l.all g := by
  intro l
  induction l with
  | nil => intro _; rfl
  | cons a l ih =>
    intro h
    rw [List.all_cons, List.all_cons, h a (by simp), ih (fun x hx => h x (by simp [hx]))]

theorem take_append_nl (text : List Char) (off : Nat) (h : off ≤ text.length) :
    (text ++ ['\n']).take off = text.take off := by
  rw [List.take_append_of_le_length h]

/-- the reference reader on the text with a line feed appended -/
theorem parse_nl (text : List Char) : parse (text ++ ['\n']) = parse text := by
  unfold parse
  rw [tokenize_nl]
  cases ht : tokenize text with
  | none => rfl
  | some toks =>
    simp only
    exact parseTokens_congr _ _ text.length (fun off h => take_append_nl text off h) toks
      (tokensAux_off text.length _ text toks ht)

theorem admissible_nl (text : List Char) : Admissible (text ++ ['\n']) = Admissible text := by
  unfold Admissible
  rw [tokenize_nl]
  cases ht : tokenize text with
  | none => rfl
  | some toks =>
    simp only
    apply all_congr_mem
    intro t hmem
    rw [tokExcluded_congr _ _ text.length (fun off h => take_append_nl text off h) t
      (tokensAux_off text.length _ text toks ht t hmem)]

end Goyang.Lemmas.Newline
