/-
Helper lemmas about `Goyang.Model.Number` (core Lean only).
Part 1: `pow10`, `Trunc`/`frac` without overflow for `fd ≤ 18`, order and equality against the
exact cross-multiplied comparison of `Goyang.Spec.Number`.
-/
import Goyang.Model.Number
import Goyang.Spec.Number

namespace Goyang.Lemmas.Number
open Goyang.Model.Number
open Goyang.Spec.Number (num WF WFInt WFDec)

theorem W_eq : W = 2 ^ 64 := by decide
theorem H_eq : H = 2 ^ 63 := by decide

theorem pow10_eq (e : Nat) (h : e ≤ 19) : pow10 e = 10 ^ e := by
  induction e with
  | zero => rfl
  | succ k ih =>
    have hk : k ≤ 18 := by omega
    have : pow10 k = 10 ^ k := ih (by omega)
    unfold pow10
    rw [this]
    have hlt : 10 ^ k * 10 < W := by
      have : 10 ^ k ≤ 10 ^ 18 := Nat.pow_le_pow_right (by decide) hk
      unfold W; omega
    rw [Nat.mod_eq_of_lt hlt, Nat.pow_succ]

theorem pow10_pos (e : Nat) (h : e ≤ 19) : 0 < pow10 e := by
  rw [pow10_eq e h]; exact Nat.pow_pos (by decide)

/-- `Trunc` cannot panic on a number with at most 18 (19) fraction digits -/
theorem truncPanics_false (n : Number) (h : n.fd ≤ 19) : truncPanics n = false := by
  have := pow10_pos n.fd h
  simp [truncPanics]; omega

theorem lessPanics_false (n m : Number) (hn : n.fd ≤ 19) (hm : m.fd ≤ 19) : lessPanics n m = false := by
  simp [lessPanics, truncPanics_false n hn, truncPanics_false m hm]

theorem ten18 (f : Nat) (h : f ≤ 18) : 10 ^ f * 10 ^ (18 - f) = 10 ^ 18 := by
  rw [← Nat.pow_add]; congr 1; omega

/-- value scaled to 18 fraction digits = Trunc·10^18 + frac, and frac < 10^18: no overflow anywhere -/
theorem scaled_split (n : Number) (h : WF n) :
    n.value * 10 ^ (18 - n.fd) = trunc n * 10 ^ 18 + frac n ∧ frac n < 10 ^ 18 := by
  obtain ⟨hv, hfd⟩ := h
  rw [← W_eq] at hv
  have hp := pow10_eq n.fd (by omega)
  have hq := pow10_eq (18 - n.fd) (by omega)
  have he : (18 + 256 - n.fd) % 256 = 18 - n.fd := by omega
  have hpos : 0 < 10 ^ n.fd := Nat.pow_pos (by decide)
  have hdm := Nat.div_add_mod n.value (10 ^ n.fd)
  have hmodlt : n.value % 10 ^ n.fd < 10 ^ n.fd := Nat.mod_lt _ hpos
  have hmul : n.value / 10 ^ n.fd * 10 ^ n.fd ≤ n.value := Nat.div_mul_le_self _ _
  have hi : (trunc n * pow10 n.fd) % W = n.value / 10 ^ n.fd * 10 ^ n.fd := by
    unfold trunc; rw [hp]; apply Nat.mod_eq_of_lt; omega
  have hsub : (n.value + W - n.value / 10 ^ n.fd * 10 ^ n.fd) % W = n.value % 10 ^ n.fd := by
    have : n.value + W - n.value / 10 ^ n.fd * 10 ^ n.fd = n.value % 10 ^ n.fd + W := by
      have := Nat.mul_comm (10 ^ n.fd) (n.value / 10 ^ n.fd); omega
    rw [this, Nat.add_mod_right]; apply Nat.mod_eq_of_lt; omega
  have h18 := ten18 n.fd hfd
  have hfraclt : n.value % 10 ^ n.fd * 10 ^ (18 - n.fd) < 10 ^ 18 := by
    rw [← h18]; exact Nat.mul_lt_mul_of_pos_right hmodlt (Nat.pow_pos (by decide))
  have hfrac : frac n = n.value % 10 ^ n.fd * 10 ^ (18 - n.fd) := by
    unfold frac; simp only [hi, hsub, he, hq]
    apply Nat.mod_eq_of_lt; unfold W; omega
  refine ⟨?_, by rw [hfrac]; exact hfraclt⟩
  rw [hfrac]; unfold trunc; rw [hp]
  calc n.value * 10 ^ (18 - n.fd)
      = (10 ^ n.fd * (n.value / 10 ^ n.fd) + n.value % 10 ^ n.fd) * 10 ^ (18 - n.fd) := by rw [hdm]
    _ = n.value / 10 ^ n.fd * (10 ^ n.fd * 10 ^ (18 - n.fd)) + n.value % 10 ^ n.fd * 10 ^ (18 - n.fd) := by
        rw [Nat.add_mul, Nat.mul_comm (10 ^ n.fd) (n.value / 10 ^ n.fd), Nat.mul_assoc]
    _ = _ := by rw [h18]

/-- lexicographic comparison of (quotient, remainder) is comparison of the number -/
theorem lex_lt (a b c d B : Nat) (hb : b < B) (hd : d < B) :
    a * B + b < c * B + d ↔ (a < c ∨ (a = c ∧ b < d)) := by
  constructor
  · intro h
    by_cases hac : a < c
    · exact Or.inl hac
    · by_cases hca : c < a
      · exfalso
        have : (c + 1) * B ≤ a * B := Nat.mul_le_mul_right B hca
        rw [Nat.add_mul] at this; omega
      · have : a = c := by omega
        subst this; right; exact ⟨rfl, by omega⟩
  · rintro (h | ⟨rfl, h⟩)
    · have : (a + 1) * B ≤ c * B := Nat.mul_le_mul_right B h
      rw [Nat.add_mul] at this; omega
    · omega

/-- the denotation scaled by 10^18 (an integer for fd ≤ 18) -/
def scaled (n : Number) : Int := num n * ((10 ^ (18 - n.fd) : Nat) : Int)

theorem scaled_eq (n : Number) :
    scaled n = if n.neg then -((n.value * 10 ^ (18 - n.fd) : Nat) : Int) else ((n.value * 10 ^ (18 - n.fd) : Nat) : Int) := by
  unfold scaled num
  split <;> simp [Int.natCast_mul, Int.neg_mul]

/-- cross-multiplied comparison = comparison of the values scaled to 18 digits -/
theorem lt_iff_scaled (n m : Number) (hn : n.fd ≤ 18) (hm : m.fd ≤ 18) :
    Spec.Number.lt n m ↔ scaled n < scaled m := by
  unfold Spec.Number.lt scaled
  have h1 : ((10 : Int) ^ m.fd) * ((10 ^ (18 - m.fd) : Nat) : Int) = ((10 ^ 18 : Nat) : Int) := by
    have := ten18 m.fd hm
    rw [← this]; simp [Int.natCast_mul, Int.natCast_pow]
  have h2 : ((10 : Int) ^ n.fd) * ((10 ^ (18 - n.fd) : Nat) : Int) = ((10 ^ 18 : Nat) : Int) := by
    have := ten18 n.fd hn
    rw [← this]; simp [Int.natCast_mul, Int.natCast_pow]
  have hpn : (0 : Int) < ((10 ^ (18 - n.fd) : Nat) : Int) := by
    have : 0 < 10 ^ (18 - n.fd) := Nat.pow_pos (by decide)
    omega
  have hpm : (0 : Int) < ((10 ^ (18 - m.fd) : Nat) : Int) := by
    have : 0 < 10 ^ (18 - m.fd) := Nat.pow_pos (by decide)
    omega
  have hp18 : (0 : Int) < ((10 ^ 18 : Nat) : Int) := by decide
  -- multiply the left inequality by 10^(18-fn) * 10^(18-fm)
  have e1 : num n * (10 : Int) ^ m.fd * (((10 ^ (18 - n.fd) : Nat) : Int) * ((10 ^ (18 - m.fd) : Nat) : Int))
      = num n * ((10 ^ (18 - n.fd) : Nat) : Int) * ((10 ^ 18 : Nat) : Int) := by
    rw [← h1]; simp only [Int.mul_assoc, Int.mul_comm, Int.mul_left_comm]
  have e2 : num m * (10 : Int) ^ n.fd * (((10 ^ (18 - n.fd) : Nat) : Int) * ((10 ^ (18 - m.fd) : Nat) : Int))
      = num m * ((10 ^ (18 - m.fd) : Nat) : Int) * ((10 ^ 18 : Nat) : Int) := by
    rw [← h2]; simp only [Int.mul_assoc, Int.mul_comm, Int.mul_left_comm]
  have hpp := Int.mul_pos hpn hpm
  rw [← Int.mul_lt_mul_right hpp, e1, e2, Int.mul_lt_mul_right hp18]

theorem eq_iff_scaled (n m : Number) (hn : n.fd ≤ 18) (hm : m.fd ≤ 18) :
    Spec.Number.eq n m ↔ scaled n = scaled m := by
  have a := lt_iff_scaled n m hn hm
  have b := lt_iff_scaled m n hm hn
  unfold Spec.Number.lt at a b
  unfold Spec.Number.eq
  omega

/-- C15 order theorem (all well-formed numbers, mixed fraction digits, negative zero included) -/
theorem less_iff (n m : Number) (hn : WF n) (hm : WF m) :
    less n m = true ↔ Spec.Number.lt n m := by
  rw [lt_iff_scaled n m hn.2 hm.2, scaled_eq, scaled_eq]
  obtain ⟨hns, hnf⟩ := scaled_split n hn
  obtain ⟨hms, hmf⟩ := scaled_split m hm
  have hlex := lex_lt (trunc n) (frac n) (trunc m) (frac m) (10 ^ 18) hnf hmf
  have hlex' := lex_lt (trunc m) (frac m) (trunc n) (frac n) (10 ^ 18) hmf hnf
  have hpn : 0 < 10 ^ (18 - n.fd) := Nat.pow_pos (by decide)
  have hpm : 0 < 10 ^ (18 - m.fd) := Nat.pow_pos (by decide)
  have hn0 : n.value = 0 → trunc n = 0 ∧ frac n = 0 := by
    intro h; rw [h] at hns; simp at hns; omega
  have hm0 : m.value = 0 → trunc m = 0 ∧ frac m = 0 := by
    intro h; rw [h] at hms; simp at hms; omega
  have hnp : n.value ≠ 0 → 0 < n.value * 10 ^ (18 - n.fd) := fun h => Nat.mul_pos (by omega) hpn
  have hmp : m.value ≠ 0 → 0 < m.value * 10 ^ (18 - m.fd) := fun h => Nat.mul_pos (by omega) hpm
  rw [hns] at hnp ⊢; rw [hms] at hmp ⊢
  unfold less nsign
  by_cases hnz : n.value = 0 <;> by_cases hmz : m.value = 0 <;>
    cases hnn : n.neg <;> cases hmn : m.neg <;>
    simp only [hnz, hmz, if_true, if_false, Bool.not_false, Bool.not_true,
      Bool.and_false, Bool.and_true, Bool.false_eq_true, Bool.and_self] <;>
    (try have h0 := hn0 hnz) <;> (try have h1 := hm0 hmz) <;>
    (try have h2 := hnp hnz) <;> (try have h3 := hmp hmz) <;>
    (by_cases ht : trunc n = trunc m <;> by_cases hf : frac n = frac m <;> simp [ht, hf] <;> omega)

theorem equal_iff (n m : Number) (hn : WF n) (hm : WF m) :
    equal n m = true ↔ Spec.Number.eq n m := by
  have a := less_iff n m hn hm
  have b := less_iff m n hm hn
  unfold Spec.Number.lt at a b
  unfold equal Spec.Number.eq
  cases h1 : less n m <;> cases h2 : less m n <;> simp [h1, h2] at a b ⊢ <;> omega

end Goyang.Lemmas.Number
