/-
Helper lemmas about `Goyang.Model.Number`, part 2 (core Lean only): what the parsers return.
-/
import Goyang.Lemmas.Number

namespace Goyang.Lemmas.Number
open Goyang.Model.Number
open Goyang.Spec.Number (num WF WFInt WFDec digitsVal Lit)

/-! ### results of the parsers are well-formed -/

theorem puLoop_lt (b0 : Bool) (base : Nat) : ∀ (s : List UInt8) (n : Nat) (us : Bool) (v : Nat) (u : Bool),
    n < W → puLoop b0 base s n us = .ok (v, u) → v < W
  | [], n, us, v, u, hn, h => by
    simp only [puLoop, Except.ok.injEq, Prod.mk.injEq] at h; omega
  | c :: rest, n, us, v, u, hn, h => by
    unfold puLoop at h
    split at h
    · exact puLoop_lt b0 base rest n true v u hn h
    · split at h
      · cases h
      · split at h
        · cases h
        · split at h
          · cases h
          · simp only at h
            split at h
            · cases h
            · exact puLoop_lt b0 base rest _ us v u (Nat.mod_lt _ (by decide)) h

theorem parseUint_lt (b0 : Bool) (s : List UInt8) (v : Nat) (h : parseUint b0 s = .ok v) : v < W := by
  unfold parseUint at h
  split at h
  · cases h
  · split at h
    · cases h
    · rename_i n us heq
      split at h
      · cases h
      · cases h
        exact puLoop_lt _ _ _ _ _ _ _ (by decide) heq

theorem parseInt_wf (s : List UInt8) (n : Number) (h : parseInt s = .ok n) : n.fd = 0 ∧ n.value < 2 ^ 64 := by
  unfold parseInt at h
  simp only at h
  split at h
  · cases h
  · split at h
    · cases h
    · split at h
      · cases h
      · rename_i v hv
        cases h
        exact ⟨rfl, by rw [← W_eq]; exact parseUint_lt _ _ _ hv⟩

theorem toI64_of_lt (u : Nat) (h : u < H) : toI64 u = (u : Int) := by
  unfold toI64
  have : u % W = u := Nat.mod_eq_of_lt (by unfold W; unfold H at h; omega)
  simp [this, h]

theorem toI64_H : toI64 H = -(H : Int) := by decide

theorem toU64_nat (u : Nat) (h : u < W) : toU64 (u : Int) = u := by
  unfold toU64
  have : ((u : Int) % (W : Int)) = ((u % W : Nat) : Int) := by simp
  rw [this, Nat.mod_eq_of_lt h]; simp

theorem negI64_neg (u : Nat) (h : u ≤ H) : negI64 (-(u : Int)) = if u = H then -(H : Int) else (u : Int) := by
  unfold negI64
  rw [Int.neg_neg, toU64_nat u (by unfold W; unfold H at h; omega)]
  split
  · next e => rw [e]; exact toI64_H
  · next e => exact toI64_of_lt u (by omega)

theorem toI64_toU64 (x : Int) (h1 : -(H : Int) ≤ x) (h2 : x < H) : toI64 (toU64 x) = x := by
  unfold toI64 toU64
  have hW : W = 18446744073709551616 := rfl
  have hH : H = 9223372036854775808 := rfl
  have hH' : (H : Int) = 9223372036854775808 := by rw [hH]; rfl
  rw [hW, hH]
  split <;> omega

theorem negI64_pos (u : Nat) (h : u < H) : negI64 (u : Int) = -(u : Int) := by
  unfold negI64
  by_cases h0 : u = 0
  · subst h0; decide
  · exact toI64_toU64 _ (by omega) (by omega)

theorem toU64_abs (v : Int) (h1 : -(H : Int) ≤ v) (h2 : v < H) :
    toU64 (if v < 0 then negI64 v else v) = v.natAbs := by
  have hW : W = 18446744073709551616 := rfl
  have hH : H = 9223372036854775808 := rfl
  have hH' : (H : Int) = 9223372036854775808 := by rw [hH]; rfl
  by_cases hv : v < 0
  · simp only [hv, if_true]
    have e : v = -((v.natAbs : Nat) : Int) := by omega
    have hu : v.natAbs ≤ H := by omega
    rw [e, negI64_neg _ hu]
    split
    · next e2 => rw [Int.natAbs_neg, Int.natAbs_natCast, e2]; decide
    · next e2 =>
      rw [Int.natAbs_neg, Int.natAbs_natCast]
      exact toU64_nat _ (by omega)
  · simp only [hv, if_false]
    have e : v = ((v.natAbs : Nat) : Int) := by omega
    rw [e, Int.natAbs_natCast]
    exact toU64_nat _ (by omega)

/-- `strconv.ParseInt(s, 10, 64)` returns a signed 64-bit value -/
theorem strconvParseInt10_range (s : List UInt8) (v : Int) (h : strconvParseInt10 s = .ok v) :
    -(H : Int) ≤ v ∧ v < H := by
  have hW : W = 18446744073709551616 := rfl
  have hH : H = 9223372036854775808 := rfl
  unfold strconvParseInt10 at h
  split at h
  · cases h
  · simp only at h
    split at h
    · cases h
    · rename_i un hun
      have hlt : un < W := by
        split at hun
        · rename_i u hu; cases hun; exact parseUint_lt _ _ _ hu
        · cases hun; decide
        · cases hun
      split at h
      · cases h
      · split at h
        · cases h
        · rename_i c1 c2
          cases h
          cases hneg : (splitSign s).1
          · simp only [hneg, Bool.not_false, Bool.true_and, decide_eq_true_eq, Nat.not_le] at c1
            simp only [Bool.false_eq_true, if_false]
            rw [toI64_of_lt _ c1]; omega
          · simp only [hneg, Bool.true_and, decide_eq_true_eq, Nat.not_lt] at c2
            simp only [if_true]
            by_cases e : un = H
            · subst e; rw [toI64_H, negI64_neg _ (Nat.le_refl _)]; simp; omega
            · rw [toI64_of_lt _ (by omega), negI64_pos _ (by omega)]; omega

theorem parseDecimal_wf (s : List UInt8) (f : Nat) (n : Number) (h : parseDecimal s f = .ok n) :
    n.fd = f ∧ 1 ≤ f ∧ f ≤ 18 ∧ n.value ≤ 2 ^ 63 := by
  unfold parseDecimal at h
  simp only at h
  split at h
  · cases h
  · split at h
    · cases h
    · unfold decimalValueFromString at h
      split at h
      · cases h
      · rename_i hf
        split at h
        · cases h
        · simp only at h
          split at h
          · cases h
          · split at h
            · cases h
            · rename_i v hv
              cases h
              obtain ⟨h1, h2⟩ := strconvParseInt10_range _ _ hv
              simp only [Bool.or_eq_true, decide_eq_true_eq, not_or, Nat.not_lt] at hf
              refine ⟨rfl, by omega, by omega, ?_⟩
              simp only [decide_eq_true_eq]
              rw [toU64_abs v h1 h2, ← H_eq]
              omega

/-! ### digit strings -/

/-- the bytes of a digit list -/
def asc (ds : List Nat) : List UInt8 := ds.map digitChar

theorem ne_of_toNat_ne {a b : UInt8} (h : a.toNat ≠ b.toNat) : a ≠ b := fun e => h (e ▸ rfl)

theorem digitChar_toNat (d : Nat) (h : d < 10) : (digitChar d).toNat = 48 + d := by
  unfold digitChar
  rw [UInt8.toNat_ofNat']
  omega

theorem digitChar_isDigit (d : Nat) (h : d < 10) : isDigit (digitChar d) = true := by
  unfold isDigit; rw [digitChar_toNat d h]; simp; omega

theorem digitChar_digitVal (d : Nat) (h : d < 10) : digitVal (digitChar d) = some d := by
  unfold digitVal; rw [digitChar_isDigit d h, digitChar_toNat d h]; simp

theorem digitChar_ne (d : Nat) (h : d < 10) (k : UInt8) (hk : k.toNat < 48 ∨ 57 < k.toNat) : digitChar d ≠ k := by
  apply ne_of_toNat_ne; rw [digitChar_toNat d h]; omega

/-- Horner value of a digit list on top of an accumulator -/
def hv (n : Nat) (ds : List Nat) : Nat := ds.foldl (fun a d => a * 10 + d) n

theorem hv_ge (ds : List Nat) : ∀ n, n ≤ hv n ds := by
  induction ds with
  | nil => intro n; exact Nat.le_refl _
  | cons d ds ih => intro n; have := ih (n * 10 + d); simp only [hv, List.foldl_cons] at this ⊢; omega

theorem digitsVal_eq_hv (ds : List Nat) : digitsVal ds = hv 0 ds := rfl

/-- the digit loop of `strconv.ParseUint` in base 10 on a digit string: the value, or a range error
    exactly when the value does not fit 64 bits -/
theorem puLoop_digits (b0 : Bool) (us : Bool) : ∀ (ds : List Nat) (n : Nat), (∀ d ∈ ds, d < 10) → n < W →
    puLoop b0 10 (asc ds) n us = if hv n ds < W then .ok (hv n ds, us) else .error .range
  | [], n, _, hn => by simp [asc, puLoop, hv, hn]
  | d :: ds, n, hds, hn => by
    have hd : d < 10 := hds d (by simp)
    have hds' : ∀ x ∈ ds, x < 10 := fun x hx => hds x (by simp [hx])
    have hW : W = 18446744073709551616 := rfl
    have h95 : (digitChar d == 95) = false := beq_eq_false_iff_ne.mpr (digitChar_ne d hd 95 (by decide))
    simp only [asc, List.map_cons]
    unfold puLoop
    simp only [h95, Bool.false_and, Bool.false_eq_true, if_false, digitChar_digitVal d hd]
    have hnd : ¬ (d ≥ 10) := by omega
    simp only [hnd, if_false]
    have hmono := hv_ge ds (n * 10 + d)
    have hstep : hv n (d :: ds) = hv (n * 10 + d) ds := rfl
    by_cases hc : n ≥ (W - 1) / 10 + 1
    · simp only [hc, if_true]
      have : ¬ hv n (d :: ds) < W := by rw [hstep, hW]; rw [hW] at hc; omega
      simp [this]
    · simp only [hc, if_false]
      have h10 : n * 10 % W = n * 10 := Nat.mod_eq_of_lt (by rw [hW] at hc ⊢; omega)
      rw [h10]
      by_cases ho : n * 10 + d < W
      · have h1 : (n * 10 + d) % W = n * 10 + d := Nat.mod_eq_of_lt ho
        rw [h1]
        have : ¬ (n * 10 + d < n * 10 ∨ n * 10 + d > W - 1) := by omega
        simp only [Bool.or_eq_true, decide_eq_true_eq, this, if_false]
        have ih := puLoop_digits b0 us ds (n * 10 + d) hds' ho
        simp only [asc] at ih
        rw [ih, hstep]
      · have h1 : (n * 10 + d) % W = n * 10 + d - W := by
          rw [Nat.mod_eq_sub_mod (by omega)]; exact Nat.mod_eq_of_lt (by rw [hW] at hc ⊢; omega)
        rw [h1]
        have : (n * 10 + d - W < n * 10 ∨ n * 10 + d - W > W - 1) := by left; rw [hW]; rw [hW] at ho; omega
        simp only [Bool.or_eq_true, decide_eq_true_eq, this, if_true]
        have : ¬ hv n (d :: ds) < W := by rw [hstep]; omega
        simp [this]

theorem asc_isEmpty (ds : List Nat) (h : ds ≠ []) : (asc ds).isEmpty = false := by
  cases ds with
  | nil => exact absurd rfl h
  | cons d ds => rfl

/-- `strconv.ParseUint(_, 10, 64)` on a non-empty digit string -/
theorem parseUint10_digits (ds : List Nat) (hds : ∀ d ∈ ds, d < 10) (hne : ds ≠ []) :
    parseUint false (asc ds) = if digitsVal ds < W then .ok (digitsVal ds) else .error .range := by
  unfold parseUint
  simp only [asc_isEmpty ds hne, Bool.false_eq_true, if_false, basePrefix]
  rw [puLoop_digits false false ds 0 hds (by decide), digitsVal_eq_hv]
  by_cases hw : hv 0 ds < W <;> simp [hw]

/-- `strconv.ParseUint(_, 0, 64)` on a digit string without a superfluous leading zero -/
theorem parseUint0_digits (ds : List Nat) (hds : ∀ d ∈ ds, d < 10)
    (hnz : ds = [0] ∨ (ds ≠ [] ∧ ds.head? ≠ some 0)) :
    parseUintBase0 (asc ds) = if digitsVal ds < W then .ok (digitsVal ds) else .error .range := by
  rcases hnz with rfl | ⟨hne, hh⟩
  · rfl
  · cases ds with
    | nil => exact absurd rfl hne
    | cons d ds' =>
      have hd : d < 10 := hds d (by simp)
      have hd0 : d ≠ 0 := by intro e; apply hh; simp [e]
      have h48 : (digitChar d == 48) = false :=
        beq_eq_false_iff_ne.mpr (ne_of_toNat_ne (by rw [digitChar_toNat d hd]; show 48 + d ≠ 48; omega))
      unfold parseUintBase0 parseUint
      have hb : basePrefix true (asc (d :: ds')) = (10, asc (d :: ds')) := by
        simp only [basePrefix, asc, List.map_cons, if_true, h48, Bool.false_eq_true, if_false]
      simp only [asc_isEmpty (d :: ds') hne, Bool.false_eq_true, if_false, hb]
      rw [puLoop_digits true false (d :: ds') 0 hds (by decide), digitsVal_eq_hv]
      by_cases hw : hv 0 (d :: ds') < W <;> simp [hw]

/-- the bytes of an optional sign -/
def signB : Option Bool → List UInt8
  | none => []
  | some true => [45]
  | some false => [43]

theorem splitSign_sign (sg : Option Bool) (ds : List Nat) (hds : ∀ d ∈ ds, d < 10) (hne : ds ≠ []) :
    splitSign (signB sg ++ asc ds) = (decide (sg = some true), asc ds) := by
  match sg with
  | some true => simp [signB, splitSign]
  | some false => simp [signB, splitSign]
  | none =>
    cases ds with
    | nil => exact absurd rfl hne
    | cons d ds' =>
      have hd : d < 10 := hds d (by simp)
      have h43 : (digitChar d == 43) = false := beq_eq_false_iff_ne.mpr (digitChar_ne d hd 43 (by decide))
      have h45 : (digitChar d == 45) = false := beq_eq_false_iff_ne.mpr (digitChar_ne d hd 45 (by decide))
      simp [signB, splitSign, asc, h43, h45]

/-- `strconv.ParseInt(_, 10, 64)` on `[sign] digits`: the exact value, or a range error exactly when it
    is not a signed 64-bit integer -/
theorem strconvParseInt10_digits (sg : Option Bool) (ds : List Nat) (hds : ∀ d ∈ ds, d < 10) (hne : ds ≠ []) :
    strconvParseInt10 (signB sg ++ asc ds) =
      if sg = some true then
        (if digitsVal ds ≤ H then .ok (-(digitsVal ds : Int)) else .error .range)
      else
        (if digitsVal ds < H then .ok (digitsVal ds : Int) else .error .range) := by
  have hW : W = 18446744073709551616 := rfl
  have hH : H = 9223372036854775808 := rfl
  unfold strconvParseInt10
  have hemp : (signB sg ++ asc ds).isEmpty = false := by
    cases ds with
    | nil => exact absurd rfl hne
    | cons d ds' => cases sg with
      | none => rfl
      | some b => cases b <;> rfl
  simp only [hemp, Bool.false_eq_true, if_false, splitSign_sign sg ds hds hne, parseUint10_digits ds hds hne]
  by_cases hs : sg = some true
  · simp only [hs, decide_true, if_true, Bool.not_true, Bool.false_and, Bool.false_eq_true, if_false, Bool.true_and,
      decide_eq_true_eq]
    by_cases hw : digitsVal ds < W
    · simp only [hw, if_true]
      by_cases hle : digitsVal ds ≤ H
      · have : ¬ digitsVal ds > H := by omega
        simp only [this, if_false, hle, if_true]
        by_cases e : digitsVal ds = H
        · rw [e, toI64_H, negI64_neg _ (Nat.le_refl _)]; simp
        · rw [toI64_of_lt _ (by omega), negI64_pos _ (by omega)]
      · have : digitsVal ds > H := by omega
        simp only [this, if_true, hle, if_false]
    · simp only [hw, if_false]
      have h1 : W - 1 > H := by decide
      have h2 : ¬ digitsVal ds ≤ H := by omega
      simp only [h1, if_true, h2, if_false]
  · have hd : decide (sg = some true) = false := by simp [hs]
    simp only [hs, if_false]
    by_cases hw : digitsVal ds < W
    · simp only [hw, if_true]
      by_cases hlt : digitsVal ds < H
      · have : ¬ digitsVal ds ≥ H := by omega
        simp [this, hlt, toI64_of_lt _ hlt]
      · have : digitsVal ds ≥ H := by omega
        simp [this, hlt]
    · simp only [hw, if_false]
      have h1 : W - 1 ≥ H := by decide
      have h2 : ¬ digitsVal ds < H := by omega
      simp [h1, h2]

/-! ### strings.TrimSpace leaves plain ASCII alone -/

/-- every white-space encoding starts (and ends) with an ASCII blank/control byte or a byte ≥ 0x80 -/
def headOK (p : List UInt8) : Bool :=
  match p with
  | [] => false
  | a :: _ => a.toNat ≤ 32 || a.toNat ≥ 128

theorem heads_fwd : spaceEncodings.all headOK = true := by decide
theorem heads_bwd : (spaceEncodings.map List.reverse).all headOK = true := by decide

/-- a printable ASCII byte -/
def plainB (c : UInt8) : Prop := 33 ≤ c.toNat ∧ c.toNat < 128
instance (c : UInt8) : Decidable (plainB c) := by unfold plainB; exact inferInstance

theorem spacePrefixLen_plain (pats : List (List UInt8)) (hp : pats.all headOK = true) (s : List UInt8)
    (hs : ∀ c ∈ s.head?, plainB c) : spacePrefixLen pats s = 0 := by
  unfold spacePrefixLen
  have : pats.find? (fun p => p.isPrefixOf s) = none := by
    apply List.find?_eq_none.mpr
    intro p hpm
    have hk := List.all_eq_true.mp hp p hpm
    cases p with
    | nil => simp [headOK] at hk
    | cons a t =>
      cases s with
      | nil => simp [List.isPrefixOf]
      | cons c rest =>
        have hc := hs c (by simp)
        have : a ≠ c := by
          apply ne_of_toNat_ne
          simp only [headOK, Bool.or_eq_true, decide_eq_true_eq] at hk
          unfold plainB at hc; omega
        simp [List.isPrefixOf, this]
  rw [this]

theorem trimLeftFuel_plain (pats : List (List UInt8)) (hp : pats.all headOK = true) (fuel : Nat) (s : List UInt8)
    (hs : ∀ c ∈ s.head?, plainB c) : trimLeftFuel pats fuel s = s := by
  cases fuel with
  | zero => rfl
  | succ k => unfold trimLeftFuel; simp only [spacePrefixLen_plain pats hp s hs]

theorem trimSpace_plain (s : List UInt8) (hs : ∀ c ∈ s, plainB c) : trimSpace s = s := by
  unfold trimSpace trimLeft trimRight
  rw [trimLeftFuel_plain _ heads_fwd _ s (fun c hc => hs c (List.mem_of_mem_head? hc))]
  rw [trimLeftFuel_plain _ heads_bwd _ s.reverse
    (fun c hc => hs c (by rw [List.head?_reverse] at hc; exact List.mem_of_mem_getLast? hc))]
  exact List.reverse_reverse s

/-! ### parsing a rendered literal -/

open Goyang.Spec.Number (parseDecimalSpec parseIntSpec)

theorem render_eq (l : Lit) :
    l.render = signB l.sign ++ asc l.ip ++ (match l.fp with | none => [] | some f => 46 :: asc f) := by
  unfold Lit.render
  match l.sign with
  | none => rfl
  | some true => rfl
  | some false => rfl

theorem asc_append (a b : List Nat) : asc (a ++ b) = asc a ++ asc b := List.map_append

theorem asc_plain (ds : List Nat) (hds : ∀ d ∈ ds, d < 10) : ∀ c ∈ asc ds, plainB c ∧ c ≠ 46 := by
  intro c hc
  simp only [asc, List.mem_map] at hc
  obtain ⟨d, hd, rfl⟩ := hc
  have := digitChar_toNat d (hds d hd)
  have := hds d hd
  exact ⟨by unfold plainB; omega, digitChar_ne d (hds d hd) 46 (by decide)⟩

theorem signB_plain (sg : Option Bool) : ∀ c ∈ signB sg, plainB c ∧ c ≠ 46 := by
  intro c hc
  match sg with
  | none => simp [signB] at hc
  | some true => simp only [signB, List.mem_singleton] at hc; subst hc; exact ⟨by decide, by decide⟩
  | some false => simp only [signB, List.mem_singleton] at hc; subst hc; exact ⟨by decide, by decide⟩

theorem indexDot_none (s : List UInt8) (h : ∀ c ∈ s, c ≠ 46) : indexDot s = none := by
  induction s with
  | nil => rfl
  | cons c rest ih =>
    have hc : (c == 46) = false := beq_eq_false_iff_ne.mpr (h c (by simp))
    simp [indexDot, hc, ih (fun x hx => h x (by simp [hx]))]

theorem indexDot_app (a b : List UInt8) (h : ∀ c ∈ a, c ≠ 46) : indexDot (a ++ 46 :: b) = some a.length := by
  induction a with
  | nil => simp [indexDot]
  | cons c rest ih =>
    have hc : (c == 46) = false := beq_eq_false_iff_ne.mpr (h c (by simp))
    simp [indexDot, hc, ih (fun x hx => h x (by simp [hx]))]

theorem dropDot_app (a b : List UInt8) (h : ∀ c ∈ a, c ≠ 46) : dropDot (a ++ 46 :: b) = (b.length, a ++ b) := by
  unfold dropDot
  rw [indexDot_app a b h]
  have h1 : (a ++ 46 :: b).length - 1 - a.length = b.length := by
    simp only [List.length_append, List.length_cons]; omega
  have h2 : List.take a.length (a ++ 46 :: b) = a := by simp
  have h3 : List.drop (a.length + 1) (a ++ 46 :: b) = b := by
    rw [List.drop_append]
    have e : a.length + 1 - a.length = 1 := by omega
    rw [e, List.drop_eq_nil_of_le (by omega)]; rfl
  simp only [h1, h2, h3]

theorem dropDot_render (l : Lit) (hd : l.digitsOK) :
    dropDot l.render = (l.scale, signB l.sign ++ asc (l.ip ++ l.fp.getD [])) := by
  have hpre : ∀ c ∈ signB l.sign ++ asc l.ip, c ≠ 46 := by
    intro c hc
    rcases List.mem_append.mp hc with h | h
    · exact (signB_plain _ c h).2
    · exact (asc_plain _ hd.1 c h).2
  rw [render_eq]
  unfold Lit.scale
  cases hfp : l.fp with
  | none =>
    simp only [List.append_nil, Option.getD_none, List.length_nil]
    unfold dropDot
    rw [indexDot_none _ hpre]
  | some f =>
    simp only [Option.getD_some]
    rw [dropDot_app _ _ hpre, asc_append, List.append_assoc]
    simp [asc]

/-- the guard of the repaired `decimalValueFromString` never fires on a literal `[sign] digits [. digits]` -/
theorem signAfterDot_render (l : Lit) (hd : l.digitsOK) : signAfterDot l.render = false := by
  have hpre : ∀ c ∈ signB l.sign ++ asc l.ip, c ≠ 46 := by
    intro c hc
    rcases List.mem_append.mp hc with h | h
    · exact (signB_plain _ c h).2
    · exact (asc_plain _ hd.1 c h).2
  rw [render_eq]
  unfold signAfterDot
  cases hfp : l.fp with
  | none =>
    simp only [List.append_nil]
    rw [indexDot_none _ hpre]
  | some f =>
    simp only
    rw [indexDot_app _ _ hpre]
    have h3 : List.drop ((signB l.sign ++ asc l.ip).length + 1) (signB l.sign ++ asc l.ip ++ 46 :: asc f) = asc f := by
      rw [List.drop_append]
      have e : (signB l.sign ++ asc l.ip).length + 1 - (signB l.sign ++ asc l.ip).length = 1 := by omega
      rw [e, List.drop_eq_nil_of_le (by omega)]; rfl
    simp only [h3]
    have hf : ∀ d ∈ f, d < 10 := by
      have := hd.2; rw [hfp] at this; simpa using this
    cases f with
    | nil => rfl
    | cons d rest =>
      have hd10 : d < 10 := hf d (by simp)
      have h45 : (digitChar d == 45) = false := beq_eq_false_iff_ne.mpr (digitChar_ne d hd10 45 (by decide))
      have h43 : (digitChar d == 43) = false := beq_eq_false_iff_ne.mpr (digitChar_ne d hd10 43 (by decide))
      simp [asc, h45, h43]

theorem space18_take (k : Nat) (h : k ≤ 18) : space18.take k = asc (List.replicate k 0) := by
  unfold space18 asc
  rw [List.take_replicate, List.map_replicate, Nat.min_eq_left h]
  rfl

theorem hv_append (a b : List Nat) (n : Nat) : hv n (a ++ b) = hv (hv n a) b := by
  unfold hv; rw [List.foldl_append]

theorem hv_zeros (k n : Nat) : hv n (List.replicate k 0) = n * 10 ^ k := by
  induction k generalizing n with
  | zero => simp [hv]
  | succ k ih =>
    rw [List.replicate_succ]
    show hv (n * 10 + 0) (List.replicate k 0) = _
    rw [ih, Nat.pow_succ]; simp [Nat.mul_assoc, Nat.mul_comm]

theorem digitsVal_zeros (ds : List Nat) (k : Nat) : digitsVal (ds ++ List.replicate k 0) = digitsVal ds * 10 ^ k := by
  rw [digitsVal_eq_hv, hv_append, hv_zeros]; rfl

/-- `decimalValueFromString` on a literal `[sign] digits [. digits]` (digit strings may be empty) -/
theorem decimalValueFromString_render (l : Lit) (f : Nat) (hd : l.digitsOK) (hf1 : 1 ≤ f) (hf2 : f ≤ 18) :
    decimalValueFromString l.render f =
      if l.scale > f then .error .precision
      else match parseDecimalSpec l f with
        | some n => .ok n
        | none => .error .range := by
  have hH : H = 9223372036854775808 := rfl
  unfold decimalValueFromString
  have hbad : (decide (f > 18) || decide (f < 1)) = false := by simp; omega
  simp only [hbad, Bool.false_eq_true, if_false, signAfterDot_render l hd, dropDot_render l hd]
  by_cases hsc : l.scale > f
  · simp [hsc]
  · simp only [hsc, if_false]
    rw [space18_take _ (by omega), List.append_assoc, ← asc_append]
    have hds : ∀ d ∈ l.ip ++ l.fp.getD [] ++ List.replicate (f - l.scale) 0, d < 10 := by
      intro d hm
      rcases List.mem_append.mp hm with h | h
      · rcases List.mem_append.mp h with h | h
        · exact hd.1 d h
        · exact hd.2 d h
      · rw [List.mem_replicate] at h; omega
    have hne : l.ip ++ l.fp.getD [] ++ List.replicate (f - l.scale) 0 ≠ [] := by
      intro e
      have := congrArg List.length e
      simp only [List.length_append, List.length_replicate, List.length_nil] at this
      unfold Lit.scale at hsc this
      omega
    rw [strconvParseInt10_digits l.sign _ hds hne, digitsVal_zeros]
    unfold parseDecimalSpec
    simp only [hsc, if_false]
    have hm : digitsVal (l.ip ++ l.fp.getD []) = l.mant := rfl
    rw [hm]
    generalize l.mant * 10 ^ (f - l.scale) = m
    unfold Lit.neg
    by_cases hs : l.sign = some true
    · simp only [hs, if_true, decide_true, Bool.true_and]
      by_cases hle : m ≤ H
      · have hle' : m ≤ 2 ^ 63 := by rw [← H_eq]; exact hle
        simp only [hle, hle', if_true]
        have h1 : -(H : Int) ≤ -(m : Int) := by omega
        have h2 : -(m : Int) < (H : Int) := by omega
        have := toU64_abs (-(m : Int)) h1 h2
        simp only [decide_eq_true_eq] at this ⊢
        rw [this]
        by_cases h0 : m = 0
        · subst h0; simp
        · have h3 : 0 < m := by omega
          simp [h3, h0]
      · have hle' : ¬ m ≤ 2 ^ 63 := by rw [← H_eq]; exact hle
        simp [hle, hle']
    · have hdn : decide (l.sign = some true) = false := by simp [hs]
      simp only [hs, if_false]
      by_cases hlt : m < H
      · have hlt' : m < 2 ^ 63 := by rw [← H_eq]; exact hlt
        simp only [hlt, hlt', if_true]
        have h1 : -(H : Int) ≤ (m : Int) := by omega
        have h2 : (m : Int) < (H : Int) := by omega
        have := toU64_abs (m : Int) h1 h2
        have hnn : ¬ ((m : Int) < 0) := by omega
        simp only [hnn, if_false, decide_false, Bool.false_eq_true] at this ⊢
        rw [this]; simp
      · have hlt' : ¬ m < 2 ^ 63 := by rw [← H_eq]; exact hlt
        simp [hlt, hlt']

theorem render_plain (l : Lit) (hd : l.digitsOK) : ∀ c ∈ l.render, plainB c := by
  rw [render_eq]
  intro c hc
  rcases List.mem_append.mp hc with h | h
  · rcases List.mem_append.mp h with h | h
    · exact (signB_plain _ c h).1
    · exact (asc_plain _ hd.1 c h).1
  · cases hfp : l.fp with
    | none => rw [hfp] at h; simp at h
    | some fp =>
      rw [hfp] at h
      rcases List.mem_cons.mp h with h | h
      · subst h; decide
      · exact (asc_plain _ (by have := hd.2; rw [hfp] at this; exact this) c h).1

/-- a rendered literal with at least one digit or a dot is neither empty nor a lone sign -/
theorem render_not_sign (l : Lit) (hd : l.digitsOK) (hne : l.ip ≠ [] ∨ l.fp ≠ none) :
    l.render ≠ [] ∧ l.render ≠ [43] ∧ l.render ≠ [45] := by
  rw [render_eq]
  have hdig : ∀ d, d < 10 → digitChar d ≠ 43 ∧ digitChar d ≠ 45 := fun d h =>
    ⟨digitChar_ne d h 43 (by decide), digitChar_ne d h 45 (by decide)⟩
  cases hip : l.ip with
  | nil =>
    rw [hip] at hne
    cases hfp : l.fp with
    | none => rw [hfp] at hne; simp at hne
    | some fp =>
      match l.sign with
      | none => simp [signB, asc]
      | some true => simp [signB, asc]
      | some false => simp [signB, asc]
  | cons d ds =>
    have hd' := hdig d (hd.1 d (by rw [hip]; simp))
    match l.sign with
    | none => simp [signB, asc, hd'.1, hd'.2]
    | some true => simp [signB, asc]
    | some false => simp [signB, asc]

/-- `yang.ParseDecimal` on a literal `[sign] digits [. digits]`: exactly what the specification prescribes -/
theorem parseDecimal_render (l : Lit) (f : Nat) (hd : l.digitsOK) (hne : l.ip ≠ [] ∨ l.fp ≠ none)
    (hf1 : 1 ≤ f) (hf2 : f ≤ 18) :
    parseDecimal l.render f =
      if l.scale > f then .error .precision
      else match parseDecimalSpec l f with
        | some n => .ok n
        | none => .error .range := by
  unfold parseDecimal
  obtain ⟨h0, h1, h2⟩ := render_not_sign l hd hne
  simp only [trimSpace_plain _ (render_plain l hd), h0, h1, h2, if_false, decide_false, Bool.or_self,
    Bool.false_eq_true]
  exact decimalValueFromString_render l f hd hf1 hf2

/-- `yang.ParseInt` on `[sign] digits` without a superfluous leading zero -/
theorem parseInt_render (l : Lit) (hd : l.digitsOK) (hip : l.ip ≠ []) (hfp : l.fp = none) (hz : l.noLeadingZero) :
    parseInt l.render = match parseIntSpec l with
      | some n => .ok n
      | none => .error .range := by
  unfold parseInt
  obtain ⟨h0, h1, h2⟩ := render_not_sign l hd (Or.inl hip)
  simp only [trimSpace_plain _ (render_plain l hd), h0, h1, h2, if_false, decide_false, Bool.or_self,
    Bool.false_eq_true]
  have hr : l.render = signB l.sign ++ asc l.ip := by rw [render_eq, hfp]; simp
  rw [hr, splitSign_sign l.sign l.ip hd.1 hip]
  have hz' : l.ip = [0] ∨ (l.ip ≠ [] ∧ l.ip.head? ≠ some 0) := by
    rcases hz with h | h
    · exact Or.inl h
    · exact Or.inr ⟨hip, h⟩
  simp only [parseUint0_digits l.ip hd.1 hz']
  unfold parseIntSpec Lit.mant Lit.neg
  simp only [hfp, Option.getD_none, List.append_nil, ← W_eq]
  by_cases hw : digitsVal l.ip < W <;> simp [hw]

end Goyang.Lemmas.Number
