/-
Helper lemmas about `Goyang.Model.Number`, part 3 (core Lean only): what `String` prints, as a literal.
-/
import Goyang.Lemmas.NumberParse

namespace Goyang.Lemmas.Number
open Goyang.Model.Number
open Goyang.Spec.Number (num WF WFInt WFDec digitsVal Lit parseDecimalSpec parseIntSpec)

/-- decimal digits of a natural number, most significant first -/
def natDs (n : Nat) : List Nat :=
  if n < 10 then [n] else natDs (n / 10) ++ [n % 10]
termination_by n
decreasing_by omega

theorem natDigits_eq (n : Nat) : natDigits n = asc (natDs n) := by
  induction n using Nat.strongRecOn with
  | _ n ih =>
    rw [natDigits, natDs]
    by_cases h : n < 10
    · simp [h, asc]
    · simp only [h, if_false]
      rw [ih (n / 10) (by omega), asc_append]; rfl

theorem natDs_lt (n : Nat) : ∀ d ∈ natDs n, d < 10 := by
  induction n using Nat.strongRecOn with
  | _ n ih =>
    rw [natDs]
    by_cases h : n < 10
    · simp [h]
    · simp only [h, if_false]
      intro d hd
      rcases List.mem_append.mp hd with hd | hd
      · exact ih (n / 10) (by omega) d hd
      · simp at hd; omega

theorem digitsVal_snoc (ds : List Nat) (d : Nat) : digitsVal (ds ++ [d]) = digitsVal ds * 10 + d := by
  unfold digitsVal; rw [List.foldl_append]; rfl

theorem natDs_val (n : Nat) : digitsVal (natDs n) = n := by
  induction n using Nat.strongRecOn with
  | _ n ih =>
    rw [natDs]
    by_cases h : n < 10
    · simp [h, digitsVal]
    · simp only [h, if_false]
      rw [digitsVal_snoc, ih (n / 10) (by omega)]; omega

theorem natDs_ne (n : Nat) : natDs n ≠ [] := by
  rw [natDs]; split <;> simp

theorem natDs_head (n : Nat) (h0 : n ≠ 0) : (natDs n).head? ≠ some 0 := by
  induction n using Nat.strongRecOn with
  | _ n ih =>
    rw [natDs]
    by_cases h : n < 10
    · simp [h, h0]
    · simp only [h, if_false]
      have := ih (n / 10) (by omega) (by omega)
      cases hh : natDs (n / 10) with
      | nil => exact absurd hh (natDs_ne _)
      | cons a b => rw [hh] at this; simpa using this

theorem natDs_noLeadingZero (n : Nat) : natDs n = [0] ∨ (natDs n).head? ≠ some 0 := by
  by_cases h : n = 0
  · subst h; left; rw [natDs]; simp
  · right; exact natDs_head n h

/-- the literal that `String` prints -/
def toLit (n : Number) : Lit :=
  let ds := natDs n.value
  let sg : Option Bool := if n.neg then some true else none
  if n.fd = 0 then ⟨sg, ds, none⟩
  else if ds.length ≤ n.fd then ⟨sg, [0], some (List.replicate (n.fd - ds.length) 0 ++ ds)⟩
  else ⟨sg, ds.take (ds.length - n.fd), some (ds.drop (ds.length - n.fd))⟩

theorem signB_neg (b : Bool) (rest : List UInt8) :
    (if b then (45 : UInt8) :: rest else rest) = signB (if b then some true else none) ++ rest := by
  cases b <;> rfl

theorem toStrPanics_false (n : Number) (h : n.fd ≤ 18) : toStrPanics n = false := by
  unfold toStrPanics
  have : 1 ≤ (natDigits n.value).length := by
    rw [natDigits_eq]; unfold asc; rw [List.length_map]
    have := natDs_ne n.value
    cases hh : natDs n.value with
    | nil => exact absurd hh this
    | cons a b => simp
  simp; omega

/-- `String` prints exactly the literal `toLit n` -/
theorem toStr_eq_render (n : Number) (h : n.fd ≤ 18) : toStr n = (toLit n).render := by
  unfold toStr toLit
  simp only [natDigits_eq]
  rw [signB_neg]
  have hlen : (asc (natDs n.value)).length = (natDs n.value).length := by unfold asc; simp
  by_cases h0 : n.fd = 0
  · simp only [h0, ne_eq, not_true_eq_false, if_false, if_true]
    rw [render_eq]; simp
  · simp only [h0, ne_eq, not_false_eq_true, if_true, if_false, hlen]
    by_cases hl : (natDs n.value).length ≤ n.fd
    · simp only [hl, if_true]
      have hne := natDs_ne n.value
      have hk : n.fd - (natDs n.value).length + 1 ≤ 18 := by
        have : 1 ≤ (natDs n.value).length := by
          cases hh : natDs n.value with
          | nil => exact absurd hh hne
          | cons a b => simp
        omega
      rw [space18_take _ hk, ← asc_append, List.replicate_succ]
      rw [render_eq]
      simp [asc, List.append_assoc]
    · simp only [hl, if_false]
      rw [render_eq]
      simp only [asc, List.map_take, List.map_drop, List.append_assoc]
      rfl

theorem toLit_digitsOK (n : Number) : (toLit n).digitsOK := by
  have hlt := natDs_lt n.value
  unfold toLit Lit.digitsOK
  simp only
  split
  · exact ⟨hlt, by simp⟩
  · split
    · refine ⟨by simp, ?_⟩
      intro d hd
      simp only [Option.getD_some] at hd
      rcases List.mem_append.mp hd with hd | hd
      · rw [List.mem_replicate] at hd; omega
      · exact hlt d hd
    · exact ⟨fun d hd => hlt d (List.mem_of_mem_take hd), fun d hd => hlt d (List.mem_of_mem_drop (by simpa using hd))⟩

theorem toLit_neg (n : Number) : (toLit n).neg = n.neg := by
  unfold toLit Lit.neg
  simp only
  cases hb : n.neg <;> (split <;> (try split) <;> simp_all)

theorem toLit_scale (n : Number) : (toLit n).scale = n.fd := by
  unfold toLit Lit.scale
  simp only
  split
  · next h => simp [h]
  · split
    · next h1 h2 => simp; omega
    · next h1 h2 => simp; omega

theorem digitsVal_zero_cons (ds : List Nat) : digitsVal (0 :: ds) = digitsVal ds := rfl

theorem digitsVal_zeros_pre (k : Nat) (ds : List Nat) : digitsVal (List.replicate k 0 ++ ds) = digitsVal ds := by
  induction k with
  | zero => simp
  | succ k ih => rw [List.replicate_succ, List.cons_append, digitsVal_zero_cons, ih]

theorem toLit_mant (n : Number) : (toLit n).mant = n.value := by
  unfold toLit Lit.mant
  simp only
  split
  · simp [natDs_val]
  · split
    · simp only [Option.getD_some, List.singleton_append, digitsVal_zero_cons, digitsVal_zeros_pre, natDs_val]
    · simp only [Option.getD_some, List.take_append_drop, natDs_val]

/-- the integer part of the printed literal is never empty, the fraction part never empty when present -/
theorem toLit_proper (n : Number) : (toLit n).proper := by
  have hne := natDs_ne n.value
  unfold toLit Lit.proper
  simp only
  split
  · exact ⟨hne, by simp⟩
  · next h0 =>
    split
    · exact ⟨by simp, by simp; exact fun _ => hne⟩
    · next hl =>
      refine ⟨?_, ?_⟩
      · intro e
        have := congrArg List.length e
        simp at this; omega
      · intro e
        simp only [Option.some.injEq] at e
        have := congrArg List.length e
        simp at this; omega

theorem toLit_int (n : Number) (h : n.fd = 0) :
    (toLit n).fp = none ∧ (toLit n).ip ≠ [] ∧ (toLit n).noLeadingZero := by
  unfold toLit Lit.noLeadingZero
  simp only [h, if_true]
  exact ⟨trivial, natDs_ne _, natDs_noLeadingZero _⟩

/-! ### Int, FromInt -/

theorem toInt_eq (n : Number) :
    toInt n = if n.fd ≠ 0 then .error .decimalInt
      else if Spec.Number.inInt64 (num n) then .ok (num n) else .error .overflow := by
  have hH : H = 9223372036854775808 := rfl
  have hH' : (H : Int) = 9223372036854775808 := by rw [hH]; rfl
  unfold toInt num Spec.Number.inInt64
  by_cases hfd : n.fd ≠ 0
  · simp [hfd]
  · simp only [hfd, if_false]
    cases hneg : n.neg
    · simp only [Bool.false_eq_true, if_false]
      by_cases hv : n.value ≤ H - 1
      · rw [if_pos hv, toI64_of_lt _ (by omega), if_pos (by omega)]
      · rw [if_neg hv, if_neg (by omega)]
    · simp only [if_true]
      by_cases hv : n.value > H
      · rw [if_pos hv, if_neg (by omega)]
      · rw [if_neg hv]
        by_cases e : n.value = H
        · rw [e, toI64_H, negI64_neg _ (Nat.le_refl _), if_pos rfl, if_pos (by omega)]
        · rw [toI64_of_lt _ (by omega), negI64_pos _ (by omega), if_pos (by omega)]

theorem fromInt_eq (i : Int) (h1 : -(H : Int) ≤ i) (h2 : i < H) :
    fromInt i = { value := i.natAbs, fd := 0, neg := decide (i < 0) } := by
  have := toU64_abs i h1 h2
  unfold fromInt
  by_cases hi : i < 0
  · simp only [hi, if_true] at this ⊢; rw [this]; simp
  · simp only [hi, if_false] at this ⊢; rw [this]; simp

/-! ### printing then parsing -/

theorem print_parse_int (n : Number) (h : WFInt n) : parseInt (toStr n) = .ok n := by
  obtain ⟨hfd, hv⟩ := h
  rw [toStr_eq_render n (by omega)]
  obtain ⟨hfp, hip, hz⟩ := toLit_int n hfd
  rw [parseInt_render _ (toLit_digitsOK n) hip hfp hz]
  unfold parseIntSpec
  rw [toLit_mant, toLit_neg]
  simp only [hv, if_true]
  cases n; simp_all

theorem print_parse_dec (n : Number) (h : WFDec n) :
    parseDecimal (toStr n) n.fd = .ok { n with neg := n.neg && n.value != 0 } := by
  obtain ⟨hf1, hf2, hv⟩ := h
  rw [toStr_eq_render n hf2]
  rw [parseDecimal_render _ n.fd (toLit_digitsOK n) (Or.inl (toLit_proper n).1) hf1 hf2]
  unfold parseDecimalSpec
  rw [toLit_scale, toLit_mant, toLit_neg]
  simp only [Nat.lt_irrefl, if_false, Nat.sub_self, Nat.pow_zero, Nat.mul_one, hv, if_true]

end Goyang.Lemmas.Number
