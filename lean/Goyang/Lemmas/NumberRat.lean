/-
Bridge between the rational denotation `Spec.Number.den` and the cross-multiplied integer
comparisons `Spec.Number.lt` / `Spec.Number.eq` (uses Mathlib's ordered-field lemmas).
-/
import Goyang.Spec.Number
import Mathlib.Algebra.Order.Field.Basic
import Mathlib.Data.Rat.Cast.Order
import Mathlib.Tactic.NormNum

namespace Goyang.Lemmas.Number
open Goyang.Model.Number (Number)
open Goyang.Spec.Number

theorem den_lt_iff (n m : Number) : den n < den m ↔ Spec.Number.lt n m := by
  unfold den Spec.Number.lt
  have hn : (0 : ℚ) < (10 : ℚ) ^ n.fd := pow_pos (by norm_num) _
  have hm : (0 : ℚ) < (10 : ℚ) ^ m.fd := pow_pos (by norm_num) _
  rw [div_lt_div_iff₀ hn hm]
  constructor
  · intro h; exact_mod_cast h
  · intro h; exact_mod_cast h

theorem den_eq_iff (n m : Number) : den n = den m ↔ Spec.Number.eq n m := by
  unfold den Spec.Number.eq
  have hn : (10 : ℚ) ^ n.fd ≠ 0 := pow_ne_zero _ (by norm_num)
  have hm : (10 : ℚ) ^ m.fd ≠ 0 := pow_ne_zero _ (by norm_num)
  rw [div_eq_div_iff hn hm]
  constructor
  · intro h; exact_mod_cast h
  · intro h; exact_mod_cast h

theorem den_int (n : Number) (h : n.fd = 0) : den n = (num n : ℚ) := by
  unfold den; rw [h]; simp

end Goyang.Lemmas.Number
