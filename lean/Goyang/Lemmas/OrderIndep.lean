import Goyang.Lemmas.SortUnique
/-
Order-independence of the places where the Go code still ranges over a map (property C05):
`importErrors` / `checkErrors` over `Entry.Dir` (collection order of errors), `merge` over
`oe.Dir`, `FixChoice` over `Entry.Dir`, and the canonical error set of the model (`canonErrs`).
In the model a Go map is the list of its values in *some* order; "any map order" is "any
permutation of that list".  Core Lean only.
-/
namespace Goyang.Lemmas.OrderIndep
open Goyang.Model Goyang.Lemmas.SortUnique

/-! ### errors are collected as a multiset -/

theorem allErrorsL_append (a b : List Entry) : Entry.allErrorsL (a ++ b) = Entry.allErrorsL a ++ Entry.allErrorsL b := by
  induction a with
  | nil => rfl
  | cons x t ih => simp [Entry.allErrorsL, ih, List.append_assoc]

/-- Walking the children in another order collects the same errors, as a multiset. -/
theorem allErrorsL_perm {c₁ c₂ : List Entry} (h : c₁.Perm c₂) : (Entry.allErrorsL c₁).Perm (Entry.allErrorsL c₂) := by
  induction h with
  | nil => exact List.Perm.refl _
  | cons x _ ih => exact List.Perm.append_left _ ih
  | swap x y l =>
    simp only [Entry.allErrorsL]
    rw [← List.append_assoc, ← List.append_assoc]
    exact List.Perm.append_right _ List.perm_append_comm
  | trans _ _ ih₁ ih₂ => exact ih₁.trans ih₂

theorem allErrors_perm (d : EData) {c₁ c₂ : List Entry} (i o : List Entry) (h : c₁.Perm c₂) :
    (Entry.allErrors (.mk d c₁ i o)).Perm (Entry.allErrors (.mk d c₂ i o)) := by
  simp only [Entry.allErrors]
  exact List.Perm.append_right _ (List.Perm.append_right _ (List.Perm.append_right _ (allErrorsL_perm h)))

/-! ### the canonical error set -/

/-- The comparison `canonErrs` sorts with. -/
def errLt (a b : Err) : Bool :=
  if a.file != b.file then a.file < b.file
  else if a.line != b.line then a.line < b.line
  else if a.col != b.col then a.col < b.col
  else a.cls < b.cls

theorem canonErrs_eq (es : List Err) : canonErrs es = (sortBy errLt es).eraseDups := rfl

theorem str_total {a b : String} (h : a ≠ b) : a < b ∨ b < a := by
  by_cases h1 : a < b
  · exact Or.inl h1
  · by_cases h2 : b < a
    · exact Or.inr h2
    · exact absurd (String.le_antisymm (String.not_lt.mp h2) (String.not_lt.mp h1)) h

theorem errLt_iff (a b : Err) : errLt a b = true ↔
    a.file < b.file ∨ (a.file = b.file ∧ (a.line < b.line ∨ (a.line = b.line ∧
      (a.col < b.col ∨ (a.col = b.col ∧ a.cls < b.cls))))) := by
  unfold errLt
  by_cases hf : a.file = b.file
  · by_cases hl : a.line = b.line
    · by_cases hc : a.col = b.col
      · simp [hf, hl, hc, String.lt_irrefl]
      · simp [hf, hl, hc, String.lt_irrefl]
    · simp [hf, hl, String.lt_irrefl]
  · simp [hf]

theorem errLt_irrefl (a : Err) : errLt a a = false := by
  simp [errLt, String.lt_irrefl]

theorem errLt_total {a b : Err} (h : a ≠ b) : errLt a b = true ∨ errLt b a = true := by
  rw [errLt_iff, errLt_iff]
  by_cases hf : a.file = b.file
  · by_cases hl : a.line = b.line
    · by_cases hc : a.col = b.col
      · have hk : a.cls ≠ b.cls := by
          intro hk; apply h
          cases a; cases b; simp_all
        rcases str_total hk with h1 | h1
        · exact Or.inl (Or.inr ⟨hf, Or.inr ⟨hl, Or.inr ⟨hc, h1⟩⟩⟩)
        · exact Or.inr (Or.inr ⟨hf.symm, Or.inr ⟨hl.symm, Or.inr ⟨hc.symm, h1⟩⟩⟩)
      · rcases Nat.lt_or_gt_of_ne hc with h1 | h1
        · exact Or.inl (Or.inr ⟨hf, Or.inr ⟨hl, Or.inl h1⟩⟩)
        · exact Or.inr (Or.inr ⟨hf.symm, Or.inr ⟨hl.symm, Or.inl h1⟩⟩)
    · rcases Nat.lt_or_gt_of_ne hl with h1 | h1
      · exact Or.inl (Or.inr ⟨hf, Or.inl h1⟩)
      · exact Or.inr (Or.inr ⟨hf.symm, Or.inl h1⟩)
  · rcases str_total hf with h1 | h1
    · exact Or.inl (Or.inl h1)
    · exact Or.inr (Or.inl h1)

theorem errLt_trans (a b c : Err) (h1 : errLt a b = true) (h2 : errLt b c = true) : errLt a c = true := by
  rw [errLt_iff] at *
  rcases h1 with h1 | ⟨f1, h1⟩
  · rcases h2 with h2 | ⟨f2, _⟩
    · exact Or.inl (String.lt_trans h1 h2)
    · exact Or.inl (f2 ▸ h1)
  · rcases h2 with h2 | ⟨f2, h2⟩
    · exact Or.inl (f1 ▸ h2)
    · refine Or.inr ⟨f1.trans f2, ?_⟩
      rcases h1 with h1 | ⟨l1, h1⟩
      · rcases h2 with h2 | ⟨l2, _⟩
        · exact Or.inl (by omega)
        · exact Or.inl (by omega)
      · rcases h2 with h2 | ⟨l2, h2⟩
        · exact Or.inl (by omega)
        · refine Or.inr ⟨l1.trans l2, ?_⟩
          rcases h1 with h1 | ⟨c1, h1⟩
          · rcases h2 with h2 | ⟨c2, _⟩
            · exact Or.inl (by omega)
            · exact Or.inl (by omega)
          · rcases h2 with h2 | ⟨c2, h2⟩
            · exact Or.inl (by omega)
            · exact Or.inr ⟨c1.trans c2, String.lt_trans h1 h2⟩

/-- The model's canonical error set does not depend on the order in which the errors were
collected. -/
theorem canonErrs_perm_invariant {l₁ l₂ : List Err} (h : l₁.Perm l₂) : canonErrs l₁ = canonErrs l₂ := by
  rw [canonErrs_eq, canonErrs_eq,
    sortBy_perm_invariant errLt errLt_irrefl errLt_trans h (fun a _ b _ hne => errLt_total hne)]

/-! ### `merge` (Go: `for k, v := range oe.Dir`) -/

/-- The namespace stamp `merge` puts on a copied child. -/
def stamp (ns : Option String) (v : Entry) : Entry :=
  match ns with
  | some n => v.withD fun d => { d with ns := some n }
  | none => v

theorem stamp_name (ns : Option String) (v : Entry) : (stamp ns v).name = v.name := by
  cases ns <;> cases v <;> rfl

/-- One iteration of the loop in `merge`; `x` is the duplicate-node error. -/
def step (ns : Option String) (x : Err) (e v : Entry) : Entry :=
  match e.child? (stamp ns v).name with
  | some _ => e.addErr x
  | none => e.withDir (e.dir ++ [stamp ns v])

theorem merge_eq (e : Entry) (ns : Option String) (oe : Entry) :
    e.merge ns oe = oe.dir.foldl (step ns (Err.at_ oe.d.node "duplicate-node")) (e.importErrors oe) := by
  cases ns <;> rfl

/-- The key `k` is present among the children `c` (Go: `e.Dir[k] != nil`). -/
def taken (c : List Entry) (k : String) : Bool := (c.find? (·.name == k)).isSome

theorem taken_append_singleton (c : List Entry) (s : Entry) (k : String) :
    taken (c ++ [s]) k = (taken c k || s.name == k) := by
  unfold taken
  rw [List.find?_append]
  cases h : c.find? (·.name == k) <;> simp [List.find?_cons]
  cases s.name == k <;> rfl

/-- Closed form of the loop when the keys of `oe.Dir` are unique (they are keys of a map): every
child whose name is free lands in `Dir`, every other one costs one error; what was added by
earlier iterations never matters to later ones. -/
theorem foldl_step (ns : Option String) (x : Err) (vs : List Entry) (hnd : (vs.map Entry.name).Nodup)
    (d : EData) (c i o : List Entry) :
    vs.foldl (step ns x) (.mk d c i o) =
      .mk { d with errors := d.errors ++ (vs.filter fun v => taken c v.name).map fun _ => x }
          (c ++ (vs.filter fun v => !taken c v.name).map (stamp ns)) i o := by
  induction vs generalizing d c with
  | nil => simp
  | cons v t ih =>
    rw [List.map_cons, List.nodup_cons] at hnd
    rw [List.foldl_cons]
    have hstep : step ns x (.mk d c i o) v =
        if taken c v.name then .mk { d with errors := d.errors ++ [x] } c i o
        else .mk d (c ++ [stamp ns v]) i o := by
      unfold step taken Entry.child?
      rw [stamp_name]
      simp only [Entry.dir]
      cases h : c.find? (·.name == v.name) <;> simp [Entry.addErr, Entry.withD, Entry.withDir]
    rw [hstep]
    by_cases htk : taken c v.name = true
    · simp only [htk, ↓reduceIte]
      rw [ih hnd.2]
      simp [htk, List.append_assoc]
    · have htk' : taken c v.name = false := by simpa using htk
      simp only [htk', Bool.false_eq_true, ↓reduceIte]
      rw [ih hnd.2]
      have hcongr : ∀ w ∈ t, taken (c ++ [stamp ns v]) w.name = taken c w.name := by
        intro w hw
        rw [taken_append_singleton, stamp_name]
        have : v.name ≠ w.name := fun e => hnd.1 (e ▸ List.mem_map_of_mem hw)
        simp [this]
      have f1 : (t.filter fun w => taken (c ++ [stamp ns v]) w.name) = t.filter fun w => taken c w.name :=
        List.filter_congr fun w hw => hcongr w hw
      have f2 : (t.filter fun w => !taken (c ++ [stamp ns v]) w.name) = t.filter fun w => !taken c w.name :=
        List.filter_congr fun w hw => by rw [hcongr w hw]
      rw [f1, f2]
      simp [htk', List.append_assoc]

/-- `merge` does not depend on the order in which the map `oe.Dir` is walked: another order
gives the same children (as a set: a permutation of the insertion-ordered list), the same
multiset of errors, and the same everything else. -/
theorem merge_perm (e : Entry) (ns : Option String) (od : EData) {c₁ c₂ : List Entry} (oi oo : List Entry)
    (h : c₁.Perm c₂) (hnd : (c₁.map Entry.name).Nodup) :
    (e.merge ns (.mk od c₁ oi oo)).dir.Perm (e.merge ns (.mk od c₂ oi oo)).dir ∧
    (e.merge ns (.mk od c₁ oi oo)).d.errors.Perm (e.merge ns (.mk od c₂ oi oo)).d.errors ∧
    { (e.merge ns (.mk od c₁ oi oo)).d with errors := [] } = { (e.merge ns (.mk od c₂ oi oo)).d with errors := [] } ∧
    (e.merge ns (.mk od c₁ oi oo)).inp = (e.merge ns (.mk od c₂ oi oo)).inp ∧
    (e.merge ns (.mk od c₁ oi oo)).out = (e.merge ns (.mk od c₂ oi oo)).out := by
  have hnd₂ : (c₂.map Entry.name).Nodup := (h.map Entry.name).nodup_iff.mp hnd
  obtain ⟨d, c, i, o⟩ := e
  rw [merge_eq, merge_eq]
  simp only [Entry.importErrors, Entry.addErrs, Entry.withD, Entry.d, Entry.dir, Entry.inp, Entry.out]
  rw [foldl_step ns _ c₁ hnd, foldl_step ns _ c₂ hnd₂]
  refine ⟨?_, ?_, ?_, ?_, ?_⟩ <;> try trivial
  · exact List.Perm.append_left _ ((h.filter _).map _)
  · refine List.Perm.append ?_ ((h.filter _).map _)
    refine List.Perm.append_left _ ?_
    exact List.Perm.append_right _ (List.Perm.append_right _ (List.Perm.append_left _ (allErrorsL_perm h)))

/-! ### `FixChoice` (Go: two `range e.Dir` loops) -/

/-- The implicit case `FixChoice` puts around a non-case child of a choice. -/
def wrapOne (ce : Entry) : Entry :=
  if ce.d.kind == .case_ then ce
  else .mk { name := ce.d.name, kind := .case_, hasDir := true, config := ce.d.config, node := ce.d.node,
             nodeMod := ce.d.nodeMod, nodeKw := "case" } [ce] [] []

theorem wrapCases_eq_map (l : List Entry) : wrapCases l = l.map wrapOne := by
  induction l with
  | nil => rfl
  | cons a t ih => simp [wrapCases, wrapOne, ih]

theorem fixChoiceL_eq_map (l : List Entry) : fixChoiceL l = l.map fixChoice := by
  induction l with
  | nil => rfl
  | cons a t ih => simp [fixChoiceL, ih]

/-- `FixChoice` treats every child on its own: walking `Dir` in another order gives the same
children (as a set), and nothing else changes. -/
theorem fixChoice_perm (d : EData) {c₁ c₂ : List Entry} (i o : List Entry) (h : c₁.Perm c₂) :
    (fixChoice (.mk d c₁ i o)).dir.Perm (fixChoice (.mk d c₂ i o)).dir ∧
    (fixChoice (.mk d c₁ i o)).d = (fixChoice (.mk d c₂ i o)).d ∧
    (fixChoice (.mk d c₁ i o)).inp = (fixChoice (.mk d c₂ i o)).inp ∧
    (fixChoice (.mk d c₁ i o)).out = (fixChoice (.mk d c₂ i o)).out := by
  simp only [fixChoice, Entry.dir, Entry.d, Entry.inp, Entry.out, fixChoiceL_eq_map, wrapCases_eq_map]
  refine ⟨?_, ?_, ?_, ?_⟩ <;> try trivial
  split
  · exact (h.map _).map _
  · exact h.map _

/-- The result for one child does not depend on its siblings. -/
theorem fixChoice_children (d : EData) (c i o : List Entry) :
    (fixChoice (.mk d c i o)).dir =
      c.map fun ce => if d.kind == .choice && d.errors.isEmpty then wrapOne (fixChoice ce) else fixChoice ce := by
  simp only [fixChoice, Entry.dir, fixChoiceL_eq_map, wrapCases_eq_map]
  split <;> simp

end Goyang.Lemmas.OrderIndep
