/-
Totality of the parser model: with the fuel `parseText` supplies no loop runs dry and no fault is
reached, for arbitrary byte input.  Proved once for any token source whose fetches lower a
measure (`Tame`), then instantiated with the lexer (`rank`, `Lemmas/Lex.lean`).
-/
import Goyang.Model.Parse
import Goyang.Lemmas.Lex

namespace Goyang.Lemmas.Parse
open Goyang.Model.Lex (Token ErrLine ErrClass Code Fault Lexer)
open Goyang.Model.Parse

/-- a source with an invariant `inv` and a measure `μ` that every fetched token lowers -/
structure Tame {σ : Type} (S : Source σ) (inv : σ → Prop) (μ : σ → Nat) : Prop where
  pull_inv : ∀ b s, inv s → inv (S.pull b s).2
  pull_some : ∀ b s t, inv s → (S.pull b s).1 = some t → μ (S.pull b s).2 + 1 ≤ μ s
  pull_none : ∀ b s, inv s → (S.pull b s).1 = none → μ (S.pull b s).2 ≤ μ s
  addErr_inv : ∀ e s, inv s → inv (S.addErr e s)
  addErr_mu : ∀ e s, μ (S.addErr e s) = μ s
  fault_none : ∀ s, inv s → S.fault s = .none

/-- `omega`, after reducing projections of pairs if need be -/
local macro "somega" : tactic => `(tactic| first | omega | (simp only; omega))

section generic
variable {σ : Type} {S : Source σ} {inv : σ → Prop} {μ : σ → Nat}

/-- tokens the parser can still get: pushed back + what the source has -/
def size (μ : σ → Nat) (p : Parser σ) : Nat := μ p.src + p.tokens.length

/-- parser invariant -/
structure Good (inv : σ → Prop) (p : Parser σ) : Prop where
  src : inv p.src
  fault : p.fault = .none

theorem pullTok_spec (hT : Tame S inv μ) (b : Bool) (p : Parser σ) (hg : Good inv p) :
    Good inv (pullTok S b p).2 ∧
    (∀ t, (pullTok S b p).1 = some t → size μ (pullTok S b p).2 + 1 ≤ size μ p) ∧
    ((pullTok S b p).1 = none → size μ (pullTok S b p).2 ≤ size μ p) := by
  unfold pullTok size
  simp only
  refine ⟨⟨hT.pull_inv b _ hg.src, hg.fault⟩, ?_, ?_⟩
  · intro t ht; have := hT.pull_some b _ t hg.src ht; omega
  · intro hn; have := hT.pull_none b _ hg.src hn; omega

theorem push_spec (ts : List Token) (p : Parser σ) (hg : Good inv p) :
    Good inv (push ts p) ∧ size μ (push ts p) = size μ p + ts.length := by
  unfold push size
  refine ⟨⟨hg.src, hg.fault⟩, ?_⟩
  simp only [List.length_append, List.length_reverse]; omega

theorem addErr_spec (hT : Tame S inv μ) (e : ErrLine) (p : Parser σ) (hg : Good inv p) :
    Good inv (addErr S e p) ∧ size μ (addErr S e p) = size μ p ∧ (addErr S e p).depth = p.depth := by
  unfold addErr size
  exact ⟨⟨hT.addErr_inv e _ hg.src, hg.fault⟩, by simp only; rw [hT.addErr_mu], rfl⟩

theorem concatLoop_spec (hT : Tame S inv μ) (b : Bool) : ∀ (f : Nat) (t : Token) (p : Parser σ),
    Good inv p → size μ p + 1 ≤ f →
    Good inv (concatLoop S b f t p).2 ∧ size μ (concatLoop S b f t p).2 ≤ size μ p := by
  intro f
  induction f with
  | zero => intro t p _ h; omega
  | succ f ih =>
    intro t p hg hf
    unfold concatLoop
    simp only
    obtain ⟨g1, s1, n1⟩ := pullTok_spec hT b p hg
    split
    · rename_i hn; exact ⟨g1, n1 hn⟩
    · rename_i nt hnt
      have hs1 := s1 nt hnt
      split
      · split
        · obtain ⟨g2, e2⟩ := push_spec (μ := μ) [nt] _ g1
          exact ⟨g2, by rw [e2]; simp only [List.length_cons, List.length_nil]; omega⟩
        · obtain ⟨g2, s2, n2⟩ := pullTok_spec hT b _ g1
          split
          · rename_i hn
            obtain ⟨g3, e3⟩ := push_spec (μ := μ) [nt] _ g2
            have := n2 hn
            exact ⟨g3, by rw [e3]; simp only [List.length_cons, List.length_nil]; omega⟩
          · rename_i nnt hnnt
            have hs2 := s2 nnt hnnt
            split
            · obtain ⟨g3, l3⟩ := ih { t with text := t.text ++ nnt.text } _ g2 (by omega)
              exact ⟨g3, by omega⟩
            · obtain ⟨g3, e3⟩ := push_spec (μ := μ) [nnt, nt] _ g2
              exact ⟨g3, by rw [e3]; simp only [List.length_cons, List.length_nil]; omega⟩
      · obtain ⟨g2, e2⟩ := push_spec (μ := μ) [nt] _ g1
        exact ⟨g2, by rw [e2]; simp only [List.length_cons, List.length_nil]; omega⟩

/-- `parser.next`: a returned token lowers `size`; `depth` is not touched -/
theorem next_spec (hT : Tame S inv μ) (b : Bool) (f : Nat) (p : Parser σ) (hg : Good inv p)
    (hf : size μ p ≤ f) :
    Good inv (next S b f p).2 ∧
    (∀ t, (next S b f p).1 = some t → size μ (next S b f p).2 + 1 ≤ size μ p) ∧
    ((next S b f p).1 = none → size μ (next S b f p).2 ≤ size μ p) := by
  unfold next
  split
  · rename_i t ts ht
    refine ⟨⟨hg.src, hg.fault⟩, ?_, fun h => by cases h⟩
    intro _ _
    unfold size; rw [ht]; simp only [List.length_cons]; omega
  · simp only
    obtain ⟨g1, s1, n1⟩ := pullTok_spec hT b p hg
    split
    · rename_i hn; exact ⟨g1, (fun _ h => by cases h), fun _ => n1 hn⟩
    · rename_i t ht
      have hs1 := s1 t ht
      split
      · obtain ⟨g2, l2⟩ := concatLoop_spec hT b f t _ g1 (by omega)
        exact ⟨g2, (fun _ _ => by simp only; omega), fun h => by cases h⟩
      · exact ⟨g1, fun _ _ => hs1, fun h => by cases h⟩

theorem fetchArg_spec (hT : Tame S inv μ) (kw : Token) (f : Nat) (p : Parser σ) (hg : Good inv p)
    (hf : size μ p ≤ f) :
    Good inv (fetchArg S kw f p).2.2 ∧
    (∀ e, (fetchArg S kw f p).2.1 = some e → size μ (fetchArg S kw f p).2.2 + 1 ≤ size μ p) ∧
    size μ (fetchArg S kw f p).2.2 ≤ size μ p := by
  unfold fetchArg
  simp only
  obtain ⟨g1, s1, n1⟩ := next_spec hT (kw.text = patternKw) f p hg hf
  split
  · rename_i a ha
    have hs1 := s1 a ha
    split
    · obtain ⟨g2, s2, n2⟩ := next_spec hT false f _ g1 (by omega)
      refine ⟨g2, fun e he => ?_, ?_⟩
      · have := s2 e he; simp only; omega
      · simp only
        cases h : (next S false f (next S (decide (kw.text = patternKw)) f p).2).1 with
        | none => have := n2 h; omega
        | some e => have := s2 e h; omega
    · exact ⟨g1, (fun e _ => by simp only; omega), by simp only; omega⟩
  · rename_i hn
    exact ⟨g1, (fun e he => by cases he), n1 hn⟩

theorem stmt_block_spec (hT : Tame S inv μ) : ∀ (f : Nat),
    (∀ (p : Parser σ), Good inv p → size μ p + 1 ≤ f →
      Good inv (nextStatement S f p).2 ∧ size μ (nextStatement S f p).2 ≤ size μ p ∧
      (∀ s, (nextStatement S f p).1 = .stmt s → size μ (nextStatement S f p).2 + 1 ≤ size μ p) ∧
      (∀ a b c, (nextStatement S f p).1 = .brace a b c → size μ (nextStatement S f p).2 + 1 ≤ size μ p)) ∧
    (∀ (acc : List Statement) (p : Parser σ), Good inv p → size μ p + 2 ≤ f →
      Good inv (blockLoop S f acc p).2 ∧ size μ (blockLoop S f acc p).2 ≤ size μ p) := by
  intro f
  induction f with
  | zero => exact ⟨(fun p _ h => by somega), (fun _ p _ h => by somega)⟩
  | succ f ih =>
    obtain ⟨ihs, ihb⟩ := ih
    constructor
    · intro p hg hf
      unfold nextStatement
      simp only
      obtain ⟨g1, s1, n1⟩ := next_spec hT false f p hg (by somega)
      split
      · rename_i hn
        exact ⟨g1, n1 hn, (fun _ h => by cases h), (fun _ _ _ h => by cases h)⟩
      · rename_i t ht
        have hs1 := s1 t ht
        split
        · refine ⟨⟨g1.src, g1.fault⟩, ?_, (fun _ h => by cases h), fun _ _ _ _ => ?_⟩
          · show size μ (next S false f p).2 ≤ _; somega
          · show size μ (next S false f p).2 + 1 ≤ _; somega
        · split
          · obtain ⟨g2, e2, _⟩ := addErr_spec hT (tokenErr t .keywordNotUnquoted) _ g1
            exact ⟨g2, by rw [e2]; somega, (fun _ _ => by rw [e2]; somega), (fun _ _ _ h => by cases h)⟩
          · obtain ⟨ga, sa, la⟩ := fetchArg_spec hT t f _ g1 (by somega)
            split
            · obtain ⟨g2, e2, _⟩ := addErr_spec hT { file := t.file, pos := none, cls := .unexpectedEOF } _ ga
              exact ⟨g2, by rw [e2]; somega, (fun _ h => by cases h), (fun _ _ _ h => by cases h)⟩
            · rename_i e he
              have hsa := sa e he
              split
              · exact ⟨ga, by somega, (fun _ _ => by somega), (fun _ _ _ h => by cases h)⟩
              · split
                · have gb : Good inv (setDepth ((fetchArg S t f (next S false f p).2).2.2.depth + 1)
                      (fetchArg S t f (next S false f p).2).2.2) := ⟨ga.src, ga.fault⟩
                  obtain ⟨g3, l3⟩ := ihb [] _ gb (by show size μ (fetchArg S t f (next S false f p).2).2.2 + 2 ≤ f; omega)
                  have l3' : size μ (blockLoop S f [] (setDepth ((fetchArg S t f (next S false f p).2).2.2.depth + 1)
                      (fetchArg S t f (next S false f p).2).2.2)).2 ≤
                      size μ (fetchArg S t f (next S false f p).2).2.2 := l3
                  split
                  · exact ⟨g3, by somega, (fun _ h => by cases h), (fun _ _ _ h => by cases h)⟩
                  · exact ⟨g3, by somega, (fun _ _ => by somega), (fun _ _ _ h => by cases h)⟩
                · obtain ⟨g2, e2, _⟩ := addErr_spec hT (tokenErr e .expectedSemiOrBrace) _ ga
                  exact ⟨g2, by rw [e2]; somega, (fun _ _ => by rw [e2]; somega), (fun _ _ _ h => by cases h)⟩
    · intro acc p hg hf
      unfold blockLoop
      simp only
      obtain ⟨g1, l1, s1, b1⟩ := ihs p hg (by somega)
      split
      · exact ⟨g1, l1⟩
      · exact ⟨g1, l1⟩
      · rename_i s hs
        have := s1 s hs
        obtain ⟨g2, l2⟩ := ihb (acc ++ [s]) _ g1 (by somega)
        exact ⟨g2, by somega⟩

theorem topLoop_spec (hT : Tame S inv μ) : ∀ (f : Nat) (acc : List Statement) (p : Parser σ),
    Good inv p → size μ p + 2 ≤ f → Good inv (topLoop S f acc p).2 := by
  intro f
  induction f with
  | zero => intro _ p _ h; omega
  | succ f ih =>
    intro acc p hg hf
    unfold topLoop
    simp only
    obtain ⟨g1, l1, s1, b1⟩ := (stmt_block_spec hT f).1 p hg (by omega)
    split
    · exact g1
    · rename_i a b c hb
      have := b1 a b c hb
      obtain ⟨g2, e2, _⟩ := addErr_spec hT { file := a, pos := some (b, c), cls := .unexpectedRBrace } _ g1
      exact ih acc _ g2 (by rw [e2]; omega)
    · rename_i s hs
      have := s1 s hs
      exact ih (acc ++ [s]) _ g1 (by omega)

/-- with enough fuel `Parse` over a tame source never faults -/
theorem parseWith_no_fault (hT : Tame S inv μ) (fuel : Nat) (s : σ) (hs : inv s) (hf : μ s + 2 ≤ fuel) :
    ∀ f, parseWith S fuel s ≠ .fault f := by
  intro f
  unfold parseWith
  simp only
  have hg : Good inv (initParser s) := ⟨hs, rfl⟩
  have h1 := topLoop_spec hT fuel [] _ hg (by unfold size initParser; simpa using hf)
  have h2 : Good inv (checkStatementDepthIsZero S (topLoop S fuel [] (initParser s)).2) := by
    unfold checkStatementDepthIsZero
    split
    · exact h1
    · exact (addErr_spec hT _ _ h1).1
  rw [if_neg (by rw [h2.fault]; simp)]
  rw [if_neg (by rw [hT.fault_none _ h2.src]; simp)]
  split <;> simp

end generic

/-! ## the lexer as a tame source -/

open Goyang.Lemmas.Lex in
/-- invariant of the lexer between two calls of `NextToken` -/
def LexInv (l : Lexer) : Prop := Ok l ∧ (l.state = .ground ∨ l.state = .done)

open Goyang.Lemmas.Lex Goyang.Model.Lex in
theorem skipErrors_spec : ∀ (f : Nat) (l : Lexer), LexInv l → rank l + 1 ≤ f →
    LexInv (skipErrors f l).2 ∧
    (∀ t, (skipErrors f l).1 = some t → rank (skipErrors f l).2 + 1 ≤ rank l) ∧
    ((skipErrors f l).1 = none → rank (skipErrors f l).2 ≤ rank l) := by
  intro f
  induction f with
  | zero => intro l _ h; omega
  | succ f ih =>
    intro l hi hf
    unfold skipErrors
    simp only
    have hp := nextToken_spec l hi.1 hi.2
    split
    · rename_i hn
      exact ⟨⟨hp.ok, hp.st⟩, (fun _ h => by cases h), fun _ => (hp.none_rank hn).1⟩
    · rename_i t ht
      have hr := hp.some_rank t ht
      split
      · obtain ⟨i2, s2, n2⟩ := ih (nextToken l).2 ⟨hp.ok, hp.st⟩ (by omega)
        refine ⟨i2, fun t' ht' => ?_, fun hn => ?_⟩
        · have := s2 t' ht'; omega
        · have := n2 hn; omega
      · exact ⟨⟨hp.ok, hp.st⟩, (fun _ _ => hr), fun h => by cases h⟩

open Goyang.Lemmas.Lex Goyang.Model.Lex in
theorem lexSource_tame : Tame lexSource LexInv rank := by
  have hfuel : ∀ (b : Bool) (l : Lexer), rank { l with inPattern := b } + 1 ≤
      l.items.length + l.rest.length + (l.pos - l.start) + 2 := by
    intro b l
    unfold rank unread Lexer.pos
    cases l.state <;> simp only [weight] <;> omega
  have hinv : ∀ (b : Bool) (l : Lexer), LexInv l → LexInv { l with inPattern := b } :=
    fun b l h => ⟨⟨h.1.fault, h.1.start_le⟩, h.2⟩
  refine ⟨?_, ?_, ?_, ?_, ?_, ?_⟩
  · intro b l hi
    exact (skipErrors_spec _ _ (hinv b l hi) (hfuel b l)).1
  · intro b l t hi ht
    exact (skipErrors_spec _ _ (hinv b l hi) (hfuel b l)).2.1 t ht
  · intro b l hi hn
    exact (skipErrors_spec _ _ (hinv b l hi) (hfuel b l)).2.2 hn
  · intro e l hi
    exact ⟨⟨hi.1.fault, hi.1.start_le⟩, hi.2⟩
  · intro e l; rfl
  · intro l hi; exact hi.1.fault

open Goyang.Lemmas.Lex Goyang.Model.Lex in
/-- `yang.Parse` as modelled never reaches a fault: every loop has enough fuel, no slice is out of
range — for arbitrary bytes as input -/
theorem parseText_no_fault (file text : List UInt8) (f : Fault) : parseText file text ≠ .fault f := by
  unfold parseText
  apply parseWith_no_fault lexSource_tame
  · unfold newLexer
    exact ⟨⟨rfl, Nat.le_refl _⟩, Or.inl rfl⟩
  · unfold parseFuel newLexer rank unread
    simp only [weight]
    split <;> simp <;> omega

end Goyang.Lemmas.Parse
