/-
Two token sources that hand out the same tokens as long as neither has written an error make the
(generic) parser model return the same forest — or both runs end with an error written.
-/
import Goyang.Model.Parse

namespace Goyang.Lemmas.ParseSim
open Goyang.Model.Lex (Token Code ErrLine ErrClass Fault)
open Goyang.Model.Parse

/-- errors are only ever added -/
structure Mono {σ : Type} (S : Source σ) : Prop where
  pull : ∀ b s, S.errs s ≠ [] → S.errs (S.pull b s).2 ≠ []
  add : ∀ e s, S.errs (S.addErr e s) ≠ []

section mono
variable {σ : Type} {S : Source σ}

def Bad (S : Source σ) (p : Parser σ) : Prop := S.errs p.src ≠ []

theorem pullTok_bad (hM : Mono S) (b : Bool) (p : Parser σ) (h : Bad S p) : Bad S (pullTok S b p).2 :=
  hM.pull b p.src h

theorem addErr_bad (hM : Mono S) (e : ErrLine) (p : Parser σ) : Bad S (addErr S e p) := hM.add e p.src

theorem concatLoop_bad (hM : Mono S) (b : Bool) : ∀ (f : Nat) (T : Token) (p : Parser σ),
    Bad S p → Bad S (concatLoop S b f T p).2 := by
  intro f
  induction f with
  | zero => intro T p h; exact h
  | succ f ih =>
    intro T p h
    unfold concatLoop
    simp only
    have h1 := pullTok_bad hM b p h
    split
    · exact h1
    · split
      · split
        · exact h1
        · have h2 := pullTok_bad hM b _ h1
          split
          · exact h2
          · split
            · exact ih _ _ h2
            · exact h2
      · exact h1

theorem next_bad (hM : Mono S) (b : Bool) (f : Nat) (p : Parser σ) (h : Bad S p) : Bad S (next S b f p).2 := by
  unfold next
  split
  · exact h
  · simp only
    have h1 := pullTok_bad hM b p h
    split
    · exact h1
    · split
      · exact concatLoop_bad hM b f _ _ h1
      · exact h1

theorem fetchArg_bad (hM : Mono S) (kw : Token) (f : Nat) (p : Parser σ) (h : Bad S p) :
    Bad S (fetchArg S kw f p).2.2 := by
  unfold fetchArg
  simp only
  have h1 := next_bad hM (kw.text = patternKw) f p h
  split
  · split
    · exact next_bad hM false f _ h1
    · exact h1
  · exact h1

theorem stmt_block_bad (hM : Mono S) : ∀ (f : Nat),
    (∀ (p : Parser σ), Bad S p → Bad S (nextStatement S f p).2) ∧
    (∀ (acc : List Statement) (p : Parser σ), Bad S p → Bad S (blockLoop S f acc p).2) := by
  intro f
  induction f with
  | zero =>
    constructor
    · intro p h; unfold nextStatement; exact h
    · intro acc p h; unfold blockLoop; exact h
  | succ f ih =>
    obtain ⟨ihs, ihb⟩ := ih
    constructor
    · intro p h
      unfold nextStatement
      simp only
      have h1 := next_bad hM false f p h
      split
      · exact h1
      · rename_i t _
        split
        · exact h1
        · split
          · exact addErr_bad hM _ _
          · have h2 := fetchArg_bad hM t f _ h1
            split
            · exact addErr_bad hM _ _
            · split
              · exact h2
              · split
                · have h3 := ihb [] _ (show Bad S (setDepth ((fetchArg S t f (next S false f p).2).2.2.depth + 1)
                      (fetchArg S t f (next S false f p).2).2.2) from h2)
                  split
                  · exact h3
                  · exact h3
                · exact addErr_bad hM _ _
    · intro acc p h
      unfold blockLoop
      simp only
      have h1 := ihs p h
      split
      · exact h1
      · exact h1
      · exact ihb _ _ h1

theorem topLoop_bad (hM : Mono S) : ∀ (f : Nat) (acc : List Statement) (p : Parser σ),
    Bad S p → Bad S (topLoop S f acc p).2 := by
  intro f
  induction f with
  | zero => intro acc p h; unfold topLoop; exact h
  | succ f ih =>
    intro acc p h
    unfold topLoop
    simp only
    have h1 := (stmt_block_bad hM f).1 p h
    split
    · exact h1
    · exact ih _ _ (addErr_bad hM _ _)
    · exact ih _ _ h1

/-- an error written by the first fetch of a statement stays -/
theorem nextStatement_bad_of_next (hM : Mono S) (f : Nat) (p : Parser σ) (h1 : Bad S (next S false f p).2) :
    Bad S (nextStatement S (f + 1) p).2 := by
  unfold nextStatement
  simp only
  split
  · exact h1
  · rename_i t _
    split
    · exact h1
    · split
      · exact addErr_bad hM _ _
      · have h2 := fetchArg_bad hM t f _ h1
        split
        · exact addErr_bad hM _ _
        · split
          · exact h2
          · split
            · have h3 := (stmt_block_bad hM f).2 [] _ (show Bad S (setDepth
                  ((fetchArg S t f (next S false f p).2).2.2.depth + 1)
                  (fetchArg S t f (next S false f p).2).2.2) from h2)
              split
              · exact h3
              · exact h3
            · exact addErr_bad hM _ _

theorem fetchArg_bad_of_next (hM : Mono S) (kw : Token) (f : Nat) (p : Parser σ)
    (h1 : Bad S (next S (kw.text = patternKw) f p).2) : Bad S (fetchArg S kw f p).2.2 := by
  unfold fetchArg
  simp only
  split
  · split
    · exact next_bad hM false f _ h1
    · exact h1
  · exact h1

theorem next_bad_of_pull (hM : Mono S) (b : Bool) (f : Nat) (p : Parser σ) (ht : p.tokens = [])
    (h1 : Bad S (pullTok S b p).2) : Bad S (next S b f p).2 := by
  unfold next
  rw [ht]
  simp only
  split
  · exact h1
  · split
    · exact concatLoop_bad hM b f _ _ h1
    · exact h1

/-- once an error is written the result is not a forest -/
theorem parseWith_bad (hM : Mono S) (fuel : Nat) (s : σ)
    (h : Bad S (topLoop S fuel [] (initParser s)).2)
    (forest : List Statement) : parseWith S fuel s ≠ .ok forest := by
  unfold parseWith
  simp only
  have h2 : Bad S (checkStatementDepthIsZero S
      (topLoop S fuel [] (initParser s)).2) := by
    unfold checkStatementDepthIsZero
    split
    · exact h
    · exact addErr_bad hM _ _
  split
  · simp
  · split
    · simp
    · split
      · rename_i he
        exact absurd (List.isEmpty_iff.mp he) h2
      · simp

end mono

/-! ## a parser fault stays -/

section fault
variable {σ : Type} {S : Source σ}

def Faulty (p : Parser σ) : Prop := p.fault ≠ .none

theorem concatLoop_faulty (b : Bool) : ∀ (f : Nat) (T : Token) (p : Parser σ),
    Faulty p → Faulty (concatLoop S b f T p).2 := by
  intro f
  induction f with
  | zero => intro T p _; unfold concatLoop Faulty; simp
  | succ f ih =>
    intro T p h
    unfold concatLoop
    simp only
    have h1 : Faulty (pullTok S b p).2 := h
    split
    · exact h1
    · split
      · split
        · exact h1
        · have h2 : Faulty (pullTok S b (pullTok S b p).2).2 := h1
          split
          · exact h2
          · split
            · exact ih _ _ h2
            · exact h2
      · exact h1

theorem next_faulty (b : Bool) (f : Nat) (p : Parser σ) (h : Faulty p) : Faulty (next S b f p).2 := by
  unfold next
  split
  · exact h
  · simp only
    have h1 : Faulty (pullTok S b p).2 := h
    split
    · exact h1
    · split
      · exact concatLoop_faulty b f _ _ h1
      · exact h1

theorem fetchArg_faulty (kw : Token) (f : Nat) (p : Parser σ) (h : Faulty p) : Faulty (fetchArg S kw f p).2.2 := by
  unfold fetchArg
  simp only
  have h1 := next_faulty (S := S) (kw.text = patternKw) f p h
  split
  · split
    · exact next_faulty false f _ h1
    · exact h1
  · exact h1

theorem stmt_block_faulty : ∀ (f : Nat),
    (∀ (p : Parser σ), Faulty p → Faulty (nextStatement S f p).2) ∧
    (∀ (acc : List Statement) (p : Parser σ), Faulty p → Faulty (blockLoop S f acc p).2) := by
  intro f
  induction f with
  | zero =>
    constructor
    · intro p _; unfold nextStatement Faulty; simp
    · intro acc p _; unfold blockLoop Faulty; simp
  | succ f ih =>
    obtain ⟨ihs, ihb⟩ := ih
    constructor
    · intro p h
      unfold nextStatement
      simp only
      have h1 := next_faulty (S := S) false f p h
      split
      · exact h1
      · rename_i t _
        split
        · exact h1
        · split
          · exact h1
          · have h2 := fetchArg_faulty (S := S) t f _ h1
            split
            · exact h2
            · split
              · exact h2
              · split
                · have h3 := ihb [] _ (show Faulty (setDepth ((fetchArg S t f (next S false f p).2).2.2.depth + 1)
                      (fetchArg S t f (next S false f p).2).2.2) from h2)
                  split
                  · exact h3
                  · exact h3
                · exact h2
    · intro acc p h
      unfold blockLoop
      simp only
      have h1 := ihs p h
      split
      · exact h1
      · exact h1
      · exact ihb _ _ h1

theorem topLoop_faulty : ∀ (f : Nat) (acc : List Statement) (p : Parser σ),
    Faulty p → Faulty (topLoop S f acc p).2 := by
  intro f
  induction f with
  | zero => intro acc p _; unfold topLoop Faulty; simp
  | succ f ih =>
    intro acc p h
    unfold topLoop
    simp only
    have h1 := (stmt_block_faulty (S := S) f).1 p h
    split
    · exact h1
    · exact ih _ _ h1
    · exact ih _ _ h1

end fault

/-! ## two sources in step -/

/-- `R` relates states of two sources that have not written an error and will hand out the same
tokens until one of them does -/
structure Sim {σ₁ σ₂ : Type} (S₁ : Source σ₁) (S₂ : Source σ₂) (R : σ₁ → σ₂ → Prop) : Prop where
  clean : ∀ s₁ s₂, R s₁ s₂ → S₁.errs s₁ = [] ∧ S₂.errs s₂ = []
  fault : ∀ s₁ s₂, R s₁ s₂ → S₁.fault s₁ = .none ∧ S₂.fault s₂ = .none
  pull : ∀ b s₁ s₂, R s₁ s₂ →
    ((S₁.pull b s₁).1 = (S₂.pull b s₂).1 ∧ R (S₁.pull b s₁).2 (S₂.pull b s₂).2) ∨
    (S₁.errs (S₁.pull b s₁).2 ≠ [] ∧ S₂.errs (S₂.pull b s₂).2 ≠ [])

section sim
variable {σ₁ σ₂ : Type} {S₁ : Source σ₁} {S₂ : Source σ₂} {R : σ₁ → σ₂ → Prop}

/-- the two parsers are in step -/
structure PR (R : σ₁ → σ₂ → Prop) (p₁ : Parser σ₁) (p₂ : Parser σ₂) : Prop where
  src : R p₁.src p₂.src
  tokens : p₁.tokens = p₂.tokens
  depth : p₁.depth = p₂.depth
  fault : p₁.fault = p₂.fault

/-- both have written an error -/
def BadB (S₁ : Source σ₁) (S₂ : Source σ₂) (p₁ : Parser σ₁) (p₂ : Parser σ₂) : Prop := Bad S₁ p₁ ∧ Bad S₂ p₂

theorem pullTok_sim (hS : Sim S₁ S₂ R) (b : Bool) (p₁ : Parser σ₁) (p₂ : Parser σ₂) (h : PR R p₁ p₂) :
    ((pullTok S₁ b p₁).1 = (pullTok S₂ b p₂).1 ∧ PR R (pullTok S₁ b p₁).2 (pullTok S₂ b p₂).2) ∨
    BadB S₁ S₂ (pullTok S₁ b p₁).2 (pullTok S₂ b p₂).2 := by
  unfold pullTok
  simp only
  rcases hS.pull b _ _ h.src with ⟨h1, h2⟩ | h
  · exact Or.inl ⟨h1, ⟨h2, h.tokens, h.depth, h.fault⟩⟩
  · exact Or.inr h

theorem push_sim (ts : List Token) (p₁ : Parser σ₁) (p₂ : Parser σ₂) (h : PR R p₁ p₂) :
    PR R (push ts p₁) (push ts p₂) :=
  ⟨h.src, by unfold push; simp only; rw [h.tokens], h.depth, h.fault⟩

theorem concatLoop_sim (hS : Sim S₁ S₂ R) (hM₁ : Mono S₁) (hM₂ : Mono S₂) (b : Bool) :
    ∀ (f : Nat) (T : Token) (p₁ : Parser σ₁) (p₂ : Parser σ₂), PR R p₁ p₂ →
    ((concatLoop S₁ b f T p₁).1 = (concatLoop S₂ b f T p₂).1 ∧
        PR R (concatLoop S₁ b f T p₁).2 (concatLoop S₂ b f T p₂).2) ∨
    BadB S₁ S₂ (concatLoop S₁ b f T p₁).2 (concatLoop S₂ b f T p₂).2 := by
  intro f
  induction f with
  | zero =>
    intro T p₁ p₂ h
    unfold concatLoop
    exact Or.inl ⟨rfl, ⟨h.src, h.tokens, h.depth, by simp⟩⟩
  | succ f ih =>
    intro T p₁ p₂ h
    unfold concatLoop
    simp only
    rcases pullTok_sim hS b p₁ p₂ h with ⟨e1, r1⟩ | hb
    · rw [e1]
      split
      · exact Or.inl ⟨rfl, r1⟩
      · rename_i nt _
        split
        · split
          · exact Or.inl ⟨rfl, push_sim _ _ _ r1⟩
          · rcases pullTok_sim hS b _ _ r1 with ⟨e2, r2⟩ | hb
            · rw [e2]
              split
              · exact Or.inl ⟨rfl, push_sim _ _ _ r2⟩
              · split
                · exact ih _ _ _ r2
                · exact Or.inl ⟨rfl, push_sim _ _ _ r2⟩
            · right
              constructor
              · split
                · exact hb.1
                · split
                  · exact concatLoop_bad hM₁ b f _ _ hb.1
                  · exact hb.1
              · split
                · exact hb.2
                · split
                  · exact concatLoop_bad hM₂ b f _ _ hb.2
                  · exact hb.2
        · exact Or.inl ⟨rfl, push_sim _ _ _ r1⟩
    · right
      constructor
      · split
        · exact hb.1
        · split
          · split
            · exact hb.1
            · have h2 := pullTok_bad hM₁ b _ hb.1
              split
              · exact h2
              · split
                · exact concatLoop_bad hM₁ b f _ _ h2
                · exact h2
          · exact hb.1
      · split
        · exact hb.2
        · split
          · split
            · exact hb.2
            · have h2 := pullTok_bad hM₂ b _ hb.2
              split
              · exact h2
              · split
                · exact concatLoop_bad hM₂ b f _ _ h2
                · exact h2
          · exact hb.2

theorem next_sim (hS : Sim S₁ S₂ R) (hM₁ : Mono S₁) (hM₂ : Mono S₂) (b : Bool) (f : Nat)
    (p₁ : Parser σ₁) (p₂ : Parser σ₂) (h : PR R p₁ p₂) :
    ((next S₁ b f p₁).1 = (next S₂ b f p₂).1 ∧ PR R (next S₁ b f p₁).2 (next S₂ b f p₂).2) ∨
    BadB S₁ S₂ (next S₁ b f p₁).2 (next S₂ b f p₂).2 := by
  cases ht : p₂.tokens with
  | cons t ts =>
    have ht1 : p₁.tokens = t :: ts := h.tokens.trans ht
    unfold next
    rw [ht, ht1]
    exact Or.inl ⟨rfl, ⟨h.src, rfl, h.depth, h.fault⟩⟩
  | nil =>
    have ht1 : p₁.tokens = [] := h.tokens.trans ht
    rcases pullTok_sim hS b p₁ p₂ h with ⟨e1, r1⟩ | hb
    · unfold next
      rw [ht, ht1]
      simp only
      rw [e1]
      split
      · exact Or.inl ⟨rfl, r1⟩
      · split
        · rcases concatLoop_sim hS hM₁ hM₂ b f _ _ _ r1 with ⟨e2, r2⟩ | hb
          · exact Or.inl ⟨by rw [e2], r2⟩
          · exact Or.inr hb
        · exact Or.inl ⟨rfl, r1⟩
    · exact Or.inr ⟨next_bad_of_pull hM₁ b f p₁ ht1 hb.1, next_bad_of_pull hM₂ b f p₂ ht hb.2⟩

theorem fetchArg_sim (hS : Sim S₁ S₂ R) (hM₁ : Mono S₁) (hM₂ : Mono S₂) (kw : Token) (f : Nat)
    (p₁ : Parser σ₁) (p₂ : Parser σ₂) (h : PR R p₁ p₂) :
    ((fetchArg S₁ kw f p₁).1 = (fetchArg S₂ kw f p₂).1 ∧ (fetchArg S₁ kw f p₁).2.1 = (fetchArg S₂ kw f p₂).2.1 ∧
        PR R (fetchArg S₁ kw f p₁).2.2 (fetchArg S₂ kw f p₂).2.2) ∨
    BadB S₁ S₂ (fetchArg S₁ kw f p₁).2.2 (fetchArg S₂ kw f p₂).2.2 := by
  rcases next_sim hS hM₁ hM₂ (kw.text = patternKw) f p₁ p₂ h with ⟨e1, r1⟩ | hb
  · unfold fetchArg
    simp only
    rw [e1]
    split
    · split
      · rcases next_sim hS hM₁ hM₂ false f _ _ r1 with ⟨e2, r2⟩ | hb
        · exact Or.inl ⟨rfl, e2, r2⟩
        · exact Or.inr hb
      · exact Or.inl ⟨rfl, rfl, r1⟩
    · exact Or.inl ⟨rfl, rfl, r1⟩
  · exact Or.inr ⟨fetchArg_bad_of_next hM₁ kw f p₁ hb.1, fetchArg_bad_of_next hM₂ kw f p₂ hb.2⟩

theorem addErr_badB (hM₁ : Mono S₁) (hM₂ : Mono S₂) (e : ErrLine) (p₁ : Parser σ₁) (p₂ : Parser σ₂) :
    BadB S₁ S₂ (addErr S₁ e p₁) (addErr S₂ e p₂) := ⟨addErr_bad hM₁ e p₁, addErr_bad hM₂ e p₂⟩

theorem stmt_block_sim (hS : Sim S₁ S₂ R) (hM₁ : Mono S₁) (hM₂ : Mono S₂) : ∀ (f : Nat),
    (∀ (p₁ : Parser σ₁) (p₂ : Parser σ₂), PR R p₁ p₂ →
      ((nextStatement S₁ f p₁).1 = (nextStatement S₂ f p₂).1 ∧
          PR R (nextStatement S₁ f p₁).2 (nextStatement S₂ f p₂).2) ∨
      BadB S₁ S₂ (nextStatement S₁ f p₁).2 (nextStatement S₂ f p₂).2) ∧
    (∀ (acc : List Statement) (p₁ : Parser σ₁) (p₂ : Parser σ₂), PR R p₁ p₂ →
      ((blockLoop S₁ f acc p₁).1 = (blockLoop S₂ f acc p₂).1 ∧
          PR R (blockLoop S₁ f acc p₁).2 (blockLoop S₂ f acc p₂).2) ∨
      BadB S₁ S₂ (blockLoop S₁ f acc p₁).2 (blockLoop S₂ f acc p₂).2) := by
  intro f
  induction f with
  | zero =>
    constructor
    · intro p₁ p₂ h
      unfold nextStatement
      exact Or.inl ⟨rfl, ⟨h.src, h.tokens, h.depth, rfl⟩⟩
    · intro acc p₁ p₂ h
      unfold blockLoop
      exact Or.inl ⟨rfl, ⟨h.src, h.tokens, h.depth, rfl⟩⟩
  | succ f ih =>
    obtain ⟨ihs, ihb⟩ := ih
    constructor
    · intro p₁ p₂ h
      rcases next_sim hS hM₁ hM₂ false f p₁ p₂ h with ⟨e1, r1⟩ | hb
      · unfold nextStatement
        simp only
        rw [e1]
        split
        · exact Or.inl ⟨rfl, r1⟩
        · rename_i t _
          split
          · exact Or.inl ⟨rfl, ⟨r1.src, r1.tokens, by unfold setDepth; simp only; rw [r1.depth], r1.fault⟩⟩
          · split
            · exact Or.inr (addErr_badB hM₁ hM₂ _ _ _)
            · rcases fetchArg_sim hS hM₁ hM₂ t f _ _ r1 with ⟨a1, a2, a3⟩ | hb
              · rw [a1, a2]
                split
                · exact Or.inr (addErr_badB hM₁ hM₂ _ _ _)
                · split
                  · exact Or.inl ⟨rfl, a3⟩
                  · split
                    · have hpr : PR R (setDepth ((fetchArg S₁ t f (next S₁ false f p₁).2).2.2.depth + 1)
                          (fetchArg S₁ t f (next S₁ false f p₁).2).2.2)
                          (setDepth ((fetchArg S₂ t f (next S₂ false f p₂).2).2.2.depth + 1)
                          (fetchArg S₂ t f (next S₂ false f p₂).2).2.2) :=
                        ⟨a3.src, a3.tokens, by unfold setDepth; simp only; rw [a3.depth], a3.fault⟩
                      rcases ihb [] _ _ hpr with ⟨b1, b2⟩ | hb
                      · rw [b1]
                        split
                        · exact Or.inl ⟨rfl, b2⟩
                        · exact Or.inl ⟨rfl, b2⟩
                      · right
                        constructor
                        · split <;> exact hb.1
                        · split <;> exact hb.2
                    · exact Or.inr (addErr_badB hM₁ hM₂ _ _ _)
              · right
                constructor
                · split
                  · exact addErr_bad hM₁ _ _
                  · split
                    · exact hb.1
                    · split
                      · have h3 := (stmt_block_bad hM₁ f).2 [] _ (show Bad S₁ (setDepth
                            ((fetchArg S₁ t f (next S₁ false f p₁).2).2.2.depth + 1)
                            (fetchArg S₁ t f (next S₁ false f p₁).2).2.2) from hb.1)
                        split <;> exact h3
                      · exact addErr_bad hM₁ _ _
                · split
                  · exact addErr_bad hM₂ _ _
                  · split
                    · exact hb.2
                    · split
                      · have h3 := (stmt_block_bad hM₂ f).2 [] _ (show Bad S₂ (setDepth
                            ((fetchArg S₂ t f (next S₂ false f p₂).2).2.2.depth + 1)
                            (fetchArg S₂ t f (next S₂ false f p₂).2).2.2) from hb.2)
                        split <;> exact h3
                      · exact addErr_bad hM₂ _ _
      · exact Or.inr ⟨nextStatement_bad_of_next hM₁ f p₁ hb.1, nextStatement_bad_of_next hM₂ f p₂ hb.2⟩
    · intro acc p₁ p₂ h
      unfold blockLoop
      simp only
      rcases ihs p₁ p₂ h with ⟨e1, r1⟩ | hb
      · rw [e1]
        split
        · exact Or.inl ⟨rfl, r1⟩
        · exact Or.inl ⟨rfl, r1⟩
        · exact ihb _ _ _ r1
      · right
        constructor
        · split
          · exact hb.1
          · exact hb.1
          · exact (stmt_block_bad hM₁ f).2 _ _ hb.1
        · split
          · exact hb.2
          · exact hb.2
          · exact (stmt_block_bad hM₂ f).2 _ _ hb.2

theorem topLoop_sim (hS : Sim S₁ S₂ R) (hM₁ : Mono S₁) (hM₂ : Mono S₂) : ∀ (f : Nat) (acc : List Statement)
    (p₁ : Parser σ₁) (p₂ : Parser σ₂), PR R p₁ p₂ →
    ((topLoop S₁ f acc p₁).1 = (topLoop S₂ f acc p₂).1 ∧ PR R (topLoop S₁ f acc p₁).2 (topLoop S₂ f acc p₂).2) ∨
    BadB S₁ S₂ (topLoop S₁ f acc p₁).2 (topLoop S₂ f acc p₂).2 := by
  intro f
  induction f with
  | zero =>
    intro acc p₁ p₂ h
    unfold topLoop
    exact Or.inl ⟨rfl, ⟨h.src, h.tokens, h.depth, rfl⟩⟩
  | succ f ih =>
    intro acc p₁ p₂ h
    unfold topLoop
    simp only
    rcases (stmt_block_sim hS hM₁ hM₂ f).1 p₁ p₂ h with ⟨e1, r1⟩ | hb
    · rw [e1]
      split
      · exact Or.inl ⟨rfl, r1⟩
      · exact Or.inr ⟨topLoop_bad hM₁ _ _ _ (addErr_bad hM₁ _ _), topLoop_bad hM₂ _ _ _ (addErr_bad hM₂ _ _)⟩
      · exact ih _ _ _ r1
    · right
      constructor
      · split
        · exact hb.1
        · exact topLoop_bad hM₁ _ _ _ (addErr_bad hM₁ _ _)
        · exact topLoop_bad hM₁ _ _ _ hb.1
      · split
        · exact hb.2
        · exact topLoop_bad hM₂ _ _ _ (addErr_bad hM₂ _ _)
        · exact topLoop_bad hM₂ _ _ _ hb.2

/-- two sources in step give the same forest, or neither gives one -/
theorem parseWith_sim (hS : Sim S₁ S₂ R) (hM₁ : Mono S₁) (hM₂ : Mono S₂) (fuel : Nat) (s₁ : σ₁) (s₂ : σ₂)
    (h : R s₁ s₂) (forest : List Statement) :
    parseWith S₁ fuel s₁ = .ok forest ↔ parseWith S₂ fuel s₂ = .ok forest := by
  have hpr : PR R (initParser s₁)
      (initParser s₂) := ⟨h, rfl, rfl, rfl⟩
  rcases topLoop_sim hS hM₁ hM₂ fuel [] _ _ hpr with ⟨e1, r1⟩ | hb
  · obtain ⟨c1, c2⟩ := hS.clean _ _ r1.src
    obtain ⟨f1, f2⟩ := hS.fault _ _ r1.src
    unfold parseWith
    simp only
    by_cases hd : (topLoop S₂ fuel [] (initParser s₂)).2.depth = 0
    · have hd1 : (topLoop S₁ fuel [] (initParser s₁)).2.depth = 0 :=
        r1.depth.trans hd
      have k1 : checkStatementDepthIsZero S₁ (topLoop S₁ fuel [] (initParser s₁)).2 = (topLoop S₁ fuel [] (initParser s₁)).2 := by
        unfold checkStatementDepthIsZero; rw [if_pos (by rw [hd1]; simp)]
      have k2 : checkStatementDepthIsZero S₂ (topLoop S₂ fuel [] (initParser s₂)).2 = (topLoop S₂ fuel [] (initParser s₂)).2 := by
        unfold checkStatementDepthIsZero; rw [if_pos (by rw [hd]; simp)]
      rw [k1, k2, r1.fault, f1, f2, c1, c2, e1]
    · have hd1 : ¬ (topLoop S₁ fuel [] (initParser s₁)).2.depth = 0 := by
        rw [r1.depth]; exact hd
      have b1 : Bad S₁ (checkStatementDepthIsZero S₁ (topLoop S₁ fuel [] (initParser s₁)).2) := by
        unfold checkStatementDepthIsZero
        rw [if_neg (by rw [c1]; simpa using hd1)]
        exact addErr_bad hM₁ _ _
      have b2 : Bad S₂ (checkStatementDepthIsZero S₂ (topLoop S₂ fuel [] (initParser s₂)).2) := by
        unfold checkStatementDepthIsZero
        rw [if_neg (by rw [c2]; simpa using hd)]
        exact addErr_bad hM₂ _ _
      constructor
      · intro h
        exfalso
        split at h
        · cases h
        · split at h
          · cases h
          · split at h
            · rename_i he; exact b1 (List.isEmpty_iff.mp he)
            · cases h
      · intro h
        exfalso
        split at h
        · cases h
        · split at h
          · cases h
          · split at h
            · rename_i he; exact b2 (List.isEmpty_iff.mp he)
            · cases h
  · constructor
    · intro h'; exact absurd h' (parseWith_bad hM₁ fuel s₁ hb.1 forest)
    · intro h'; exact absurd h' (parseWith_bad hM₂ fuel s₂ hb.2 forest)

end sim

end Goyang.Lemmas.ParseSim
