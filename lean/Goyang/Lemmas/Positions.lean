/-
C16, statement positions: every statement the reference reader returns carries the line and
column of the first character of its keyword.
-/
import Goyang.Lemmas.Scan
import Goyang.Lemmas.ListSrc

namespace Goyang.Lemmas.Positions
open Goyang.Spec.Parse Goyang.Lemmas.Scan
open Goyang.Lemmas.ListSrc (argument_suffix stmt_stmts_suffix)

/-- the statement `s` (and every statement below it) is positioned at the first character of its
keyword: there is an offset inside the text where the keyword stands — the non-empty run of
characters up to the next delimiter — and `line` is 1 + the number of line feeds before that
offset, `col` is 1 + the number of characters since the last of them -/
inductive TruePos (text : List Char) : Stmt → Prop
  | mk (s : Stmt) (off : Nat) (hoff : off < text.length) (hne : s.keyword ≠ [])
      (hkw : s.keyword = (text.drop off).takeWhile (fun x => !isDelim x))
      (hline : s.line = 1 + (text.take off).count '\n')
      (hcol : s.col = 1 + (lastLine (text.take off)).length)
      (hsubs : ∀ c, c ∈ s.subs → TruePos text c) : TruePos text s

/-- what `tokenize_keyword_start` says of a token -/
def KS (text : List Char) (t : PTok) : Prop :=
  t.off < text.length ∧ ∀ s, t.tok = .unq s → s ≠ [] ∧ s = (text.drop t.off).takeWhile (fun x => !isDelim x)

theorem stmt_stmts_truePos (text : List Char) : ∀ (g : Nat),
    (∀ ts s rest, (∀ t ∈ ts, KS text t) → stmt text g ts = some (s, rest) → TruePos text s) ∧
    (∀ ts ss rest, (∀ t ∈ ts, KS text t) → stmts text g ts = some (ss, rest) → ∀ s ∈ ss, TruePos text s) := by
  intro g
  induction g with
  | zero =>
    exact ⟨fun ts s rest _ h => by simp [stmt] at h, fun ts ss rest _ h => by simp [stmts] at h⟩
  | succ g ih =>
    obtain ⟨ih1, ih2⟩ := ih
    constructor
    · intro ts s rest hks h
      cases ts with
      | nil => simp [stmt] at h
      | cons k ts' =>
        have hk := hks k (by simp)
        unfold stmt at h
        split at h
        · rename_i kw hkw
          obtain ⟨hne, hrun⟩ := hk.2 kw hkw
          split at h
          · cases h
          · rename_i arg r1 harg
            have hsx := argument_suffix text _ ts' arg r1 harg
            split at h
            · rename_i e r2
              split at h
              · simp only [Option.some.injEq, Prod.mk.injEq] at h
                rw [← h.1]
                exact TruePos.mk _ k.off hk.1 hne hrun rfl rfl (fun c hc => by cases hc)
              · split at h
                · split at h
                  · rename_i subs c r3 hs
                    split at h
                    · simp only [Option.some.injEq, Prod.mk.injEq] at h
                      rw [← h.1]
                      refine TruePos.mk _ k.off hk.1 hne hrun rfl rfl ?_
                      intro c' hc'
                      exact ih2 r2 subs _ (fun t ht => hks t (by
                        have := List.IsSuffix.mem ht ((List.suffix_cons e r2).trans hsx)
                        simp [this])) hs c' hc'
                    · cases h
                  · cases h
                · cases h
            · cases h
        · cases h
    · intro ts ss rest hks h
      cases ts with
      | nil => simp [stmts] at h; rw [h.1]; intro s hs; cases hs
      | cons t ts' =>
        unfold stmts at h
        split at h
        · simp only [Option.some.injEq, Prod.mk.injEq] at h
          rw [← h.1]; intro s hs; cases hs
        · cases hs : stmt text g (t :: ts') with
          | none => rw [hs] at h; cases h
          | some p =>
            obtain ⟨s0, r⟩ := p
            rw [hs] at h
            simp only at h
            cases hss : stmts text g r with
            | none => rw [hss] at h; cases h
            | some q =>
              obtain ⟨ss', r'⟩ := q
              rw [hss] at h
              simp only [Option.some.injEq, Prod.mk.injEq] at h
              rw [← h.1]
              intro s hsm
              simp only [List.mem_cons] at hsm
              rcases hsm with hsm | hsm
              · rw [hsm]; exact ih1 _ _ _ hks hs
              · have hsx := ((stmt_stmts_suffix text g).1 _ _ _ hs).1
                exact ih2 r ss' r' (fun x hx => hks x (List.IsSuffix.mem hx hsx)) hss s hsm

/-- every statement of the reference reader's forest stands at the first character of its keyword -/
theorem parse_truePos (text : List Char) (forest : List Stmt) (h : parse text = some forest) :
    ∀ s ∈ forest, TruePos text s := by
  unfold parse at h
  cases ht : tokenize text with
  | none => rw [ht] at h; cases h
  | some toks =>
    rw [ht] at h
    simp only at h
    unfold parseTokens at h
    split at h
    · rename_i forest' heq
      injection h with h
      rw [← h]
      exact (stmt_stmts_truePos text _).2 toks forest' [] (tokenize_keyword_start text toks ht) heq
    · cases h

end Goyang.Lemmas.Positions
