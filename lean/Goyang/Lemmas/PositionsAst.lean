import Goyang.Spec.Positions
import Goyang.Lemmas.Ast
/-
Helper lemmas for the semantic half of C16, AST builder part: which statement a positioned error
of `Ast.build` is about (`Spec.Positions.Ast.Blames`).  Built on the loop invariant and the
id-versus-spelling lemmas of the C03 work (Lemmas/Ast.lean).
-/
set_option linter.unusedVariables false
namespace Goyang.Lemmas.PositionsAst
open Goyang.Model.Ast Goyang.Spec.Ast Goyang.Spec.Positions.Ast Goyang.Lemmas.Ast

theorem within_trans {a b c : Stmt} (h1 : Within a b) (h2 : Within b c) : Within a c := by
  induction h1 with
  | top => exact h2
  | sub _ hc ih => exact .sub (ih h2) hc

/-- What is blamed inside a substatement tree is blamed inside the enclosing tree. -/
theorem blames_lift {tbl : Schema} {top ss : Stmt} {cls : ErrClass} {c : Stmt} (h : Blames tbl ss cls c)
    (hw : Within ss top) : Blames tbl top cls c := by
  cases h with
  | unknownStmt h1 h2 => exact .unknownStmt (within_trans h1 hw) h2
  | unknownField h1 h2 h3 h4 h5 => exact .unknownField (within_trans h1 hw) h2 h3 h4 h5
  | noExt h1 h2 h3 h4 h5 h6 => exact .noExt (within_trans h1 hw) h2 h3 h4 h5 h6
  | foreign h1 h2 h3 h4 h5 => exact .foreign (within_trans h1 hw) h2 h3 h4 h5
  | missing h1 h2 h3 h4 h5 => exact .missing (within_trans h1 hw) h2 h3 h4 h5

/-- The culprit is a statement of the tree. -/
theorem blames_within {tbl : Schema} {top : Stmt} {cls : ErrClass} {c : Stmt} (h : Blames tbl top cls c) :
    Within c top := by
  cases h with
  | unknownStmt h1 _ => exact h1
  | unknownField h1 h2 _ _ _ => exact .sub h1 h2
  | noExt h1 h2 _ _ _ _ => exact .sub h1 h2
  | foreign h1 _ _ _ _ => exact h1
  | missing h1 _ _ _ _ => exact h1

theorem setParent_err_pos {tbl : Schema} {T : TypeDef} {p : Option Nat} {e : Err}
    (h : setParent tbl T p = .error e) : e.pos = none := by
  unfold setParent at h
  repeat' split at h
  all_goals first
    | (simp only [Except.error.injEq] at h; subst h; rfl)
    | cases h

/-- The ways one step of the substatement loop fails. -/
theorem addSub_err {tbl : Schema} (hw : WFP tbl) {T : TypeDef} (hT : WFT tbl T) {ss : Stmt} {st : Partial}
    {child : Unit → Except Err ANode} {e : Err} (h : addSub tbl T ss st child = .error e) :
    child () = .error e ∨ e.pos = none ∨
    (e = ⟨.noExt, ss.pos⟩ ∧ knownIn tbl T ss.kw = false ∧ prefixed ss.kw = true ∧ T.hasKind .ext = false) ∨
    (e = ⟨.unknownField, ss.pos⟩ ∧ knownIn tbl T ss.kw = false ∧ prefixed ss.kw = false) := by
  unfold addSub at h
  dsimp only at h
  split at h
  · -- a function was found
    split at h
    · split at h
      · simp only [Except.error.injEq] at h; subst h; exact Or.inr (Or.inl rfl)
      · split at h
        · rename_i e' he'
          simp only [Except.error.injEq] at h; subst h; exact Or.inl he'
        · split at h
          · simp only [Except.error.injEq] at h; subst h; exact Or.inr (Or.inl rfl)
          · cases h
    · simp only [Except.error.injEq] at h; subst h; exact Or.inr (Or.inl rfl)
  · rename_i hnone
    have hk : knownIn tbl T ss.kw = false := fn_none hw hT hnone
    split at h
    · rename_i hext
      split at h
      · cases h
      · rename_i hnoext
        simp only [Except.error.injEq] at h; subst h
        exact Or.inr (Or.inr (Or.inl ⟨rfl, hk, by rw [← isExtKw_eq]; exact hext, by simpa using hnoext⟩))
    · rename_i hext
      simp only [Except.error.injEq] at h; subst h
      exact Or.inr (Or.inr (Or.inr ⟨rfl, hk, by rw [← isExtKw_eq]; simpa using hext⟩))

/-- The ways the substatement loop fails. -/
theorem buildSubs_err {tbl : Schema} (hw : WFP tbl) {t : Nat} {T : TypeDef} (hT : WFT tbl T) :
    ∀ (rest : List Stmt) (st : Partial) (e : Err), buildSubs tbl t T rest st = .error e →
      (∃ ss ∈ rest, build tbl ss (some t) = .error e) ∨ e.pos = none ∨
      (∃ ss ∈ rest, e = ⟨.noExt, ss.pos⟩ ∧ knownIn tbl T ss.kw = false ∧ prefixed ss.kw = true ∧ T.hasKind .ext = false) ∨
      (∃ ss ∈ rest, e = ⟨.unknownField, ss.pos⟩ ∧ knownIn tbl T ss.kw = false ∧ prefixed ss.kw = false) := by
  intro rest
  induction rest with
  | nil => intro st e h; simp [buildSubs] at h
  | cons ss rest ih =>
    intro st e h
    rw [buildSubs] at h
    split at h
    · rename_i e1 h1
      cases h
      rcases addSub_err hw hT h1 with h | h | h | h
      · exact Or.inl ⟨ss, List.mem_cons_self, h⟩
      · exact Or.inr (Or.inl h)
      · exact Or.inr (Or.inr (Or.inl ⟨ss, List.mem_cons_self, h⟩))
      · exact Or.inr (Or.inr (Or.inr ⟨ss, List.mem_cons_self, h⟩))
    · rename_i st1 h1
      rcases ih st1 e h with ⟨x, hx, h⟩ | h | ⟨x, hx, h⟩ | ⟨x, hx, h⟩
      · exact Or.inl ⟨x, List.mem_cons_of_mem _ hx, h⟩
      · exact Or.inr (Or.inl h)
      · exact Or.inr (Or.inr (Or.inl ⟨x, List.mem_cons_of_mem _ hx, h⟩))
      · exact Or.inr (Or.inr (Or.inr ⟨x, List.mem_cons_of_mem _ hx, h⟩))

/-- The ways the checks after the loop fail: the error stands at the statement itself, and a
mandatory substatement is absent or a substatement mandatory for another keyword only is present. -/
theorem finish_err {tbl : Schema} (hw : WFP tbl) {t : Nat} {T : TypeDef} (hT : WFT tbl T)
    {kw : Bytes} {pos : Nat × Nat} {name : Bytes} {src : Option Stmt} {par : Option Nat}
    {st : Partial} {subs : List Stmt} {e : Err} (hinv : Inv tbl t T st subs)
    (h : finish tbl t T (tbl.kwId kw) pos name src par st = .error e) :
    e.pos = some pos ∧
    ((e.cls = .missing ∧ ∃ f ∈ T.fields, f.kind.isSub = true ∧
        (f.required = true ∨ ∃ k ∈ f.reqKinds, tbl.kwName k = some kw) ∧ subsOf tbl f subs = []) ∨
     (e.cls = .unknownField ∧ ∃ f ∈ T.fields, f.kind.isSub = true ∧
        (∃ k ∈ f.reqKinds, tbl.kwName k ≠ some kw) ∧ subsOf tbl f subs ≠ [])) := by
  have hfound : ∀ r, st.found.contains (some r) = true ↔ ∃ ss ∈ subs, tbl.kwName r = some ss.kw := by
    intro r
    rw [hinv.found, found_iff]
    constructor
    · rintro ⟨ss, hss, hk⟩; exact ⟨ss, hss, kwId_name hk⟩
    · rintro ⟨ss, hss, hk⟩; exact ⟨ss, hss, kwId_of_name hw.names hk⟩
  have hsubOf : ∀ f ∈ T.fields, (f.required = true ∨ f.reqKinds ≠ []) → f.kind.isSub = true := by
    intro f hf hreq
    cases hs' : f.kind.isSub with
    | true => rfl
    | false =>
      obtain ⟨h1, h2⟩ := hT.metaPlain f hf hs'
      rcases hreq with hr | hr
      · rw [h1] at hr; cases hr
      · exact absurd h2 hr
  have hempty : ∀ f : Field, st.found.contains (some f.tag) = false → subsOf tbl f subs = [] := by
    intro f hnf
    cases hl : subsOf tbl f subs with
    | nil => rfl
    | cons a l =>
      have hpos : 1 ≤ (subsOf tbl f subs).length := by rw [hl]; simp
      rw [subsOf_pos_iff, ← hfound] at hpos
      rw [hpos] at hnf; cases hnf
  have hnonempty : ∀ f : Field, st.found.contains (some f.tag) = true → subsOf tbl f subs ≠ [] := by
    intro f hf hnil
    have hpos : 1 ≤ (subsOf tbl f subs).length := by rw [subsOf_pos_iff, ← hfound]; exact hf
    rw [hnil] at hpos; simp at hpos
  unfold finish at h
  simp only at h
  split at h
  · rename_i h1
    simp only [Except.error.injEq] at h; subst h
    refine ⟨rfl, Or.inl ⟨rfl, ?_⟩⟩
    simp only [TypeDef.required, List.any_map, List.any_filter, List.any_eq_true, Bool.and_eq_true,
      Function.comp, Bool.not_eq_true'] at h1
    obtain ⟨f, hf, hr, hnf⟩ := h1
    have hs := hsubOf f hf (Or.inl hr)
    rw [(hT.sub f hf hs).2.1] at hnf
    exact ⟨f, hf, hs, Or.inl hr, hempty f hnf⟩
  · split at h
    · rename_i h2
      simp only [Except.error.injEq] at h; subst h
      refine ⟨rfl, Or.inl ⟨rfl, ?_⟩⟩
      simp only [TypeDef.sRequired, List.any_map, List.any_filter, List.any_eq_true, Bool.and_eq_true,
        Function.comp, Bool.not_eq_true', beq_iff_eq] at h2
      obtain ⟨f, hf, ⟨k, hk, hkid⟩, hnf⟩ := h2
      have hs := hsubOf f hf (Or.inr (List.ne_nil_of_mem hk))
      rw [(hT.sub f hf hs).2.1] at hnf
      exact ⟨f, hf, hs, Or.inr ⟨k, hk, kwId_name hkid.symm⟩, hempty f hnf⟩
    · split at h
      · rename_i h3
        simp only [Except.error.injEq] at h; subst h
        refine ⟨rfl, Or.inr ⟨rfl, ?_⟩⟩
        simp only [TypeDef.sRequiredOther, List.any_map, List.any_filter, List.any_eq_true, Bool.and_eq_true,
          Function.comp, bne_iff_ne, ne_eq] at h3
        obtain ⟨f, hf, ⟨k, hk, hkid⟩, hfd⟩ := h3
        have hs := hsubOf f hf (Or.inr (List.ne_nil_of_mem hk))
        rw [(hT.sub f hf hs).2.1] at hfd
        refine ⟨f, hf, hs, ⟨k, hk, ?_⟩, hnonempty f hfd⟩
        intro hname
        exact hkid (kwId_of_name hw.names hname).symm
      · cases h

/-- Every positioned error of the builder is about a statement of the tree it was given: the
statement with the unknown keyword, the unknown substatement, the statement that lacks a mandatory
substatement or holds one that is mandatory for another keyword only. -/
theorem build_blames {tbl : Schema} (hw : WFP tbl) :
    ∀ (s : Stmt) (p : Option Nat) (e : Err) (pq : Nat × Nat), build tbl s p = .error e → e.pos = some pq →
      ∃ c, Blames tbl s e.cls c ∧ pq = (c.line, c.col) := by
  intro s
  induction s using Stmt.induct with
  | h kw ha arg line col subs ih =>
    intro p e pq h hpos
    rw [build] at h
    simp only at h
    split at h
    · rename_i hnone
      simp only [Except.error.injEq] at h; subst h
      simp only [Option.some.injEq] at hpos
      exact ⟨_, .unknownStmt (.top _) (by rw [typeFor_eq hw]; exact hnone), hpos.symm⟩
    rename_i t ht
    have htf : typeFor tbl kw = some t := by rw [typeFor_eq hw]; exact ht
    split at h
    · simp only [Except.error.injEq] at h; subst h; cases hpos
    rename_i T hTy
    have hT : WFT tbl T := hw.types T (List.mem_of_getElem? hTy)
    have hnt : nodeType tbl (Stmt.mk kw ha arg line col subs) = some T := by
      simp [nodeType, htf, hTy]
    split at h
    · rename_i e' he'
      simp only [Except.error.injEq] at h; subst h
      rw [setParent_err_pos he'] at hpos; cases hpos
    split at h
    · rename_i e' he'
      simp only [Except.error.injEq] at h; subst h
      rcases buildSubs_err hw hT subs _ e' he' with ⟨ss, hss, hb⟩ | hn | ⟨ss, hss, rfl, h1, h2, h3⟩ | ⟨ss, hss, rfl, h1, h2⟩
      · obtain ⟨c, hc, hpq⟩ := ih ss hss (some t) e' pq hb hpos
        exact ⟨c, blames_lift hc (.sub (.top _) hss), hpq⟩
      · rw [hn] at hpos; cases hpos
      · simp only [Stmt.pos, Option.some.injEq] at hpos
        exact ⟨ss, .noExt (.top _) hss hnt h1 h2 h3, hpos.symm⟩
      · simp only [Stmt.pos, Option.some.injEq] at hpos
        exact ⟨ss, .unknownField (.top _) hss hnt h1 h2, hpos.symm⟩
    · rename_i st hst
      have hinv := buildSubs_inv hw hT subs (fun ss hss c hc => build_sound hw ss (some t) c hc) _ [] st
        (Inv.init tbl t T) hst
      simp only [List.nil_append] at hinv
      obtain ⟨hp', hcase⟩ := finish_err hw hT hinv h
      rw [hp'] at hpos
      simp only [Option.some.injEq] at hpos
      refine ⟨Stmt.mk kw ha arg line col subs, ?_, hpos.symm⟩
      rcases hcase with ⟨hc, f, hf, hs, hreq, hnil⟩ | ⟨hc, f, hf, hs, hreq, hne⟩
      · rw [hc]
        refine .missing (.top _) hnt hf ?_ hnil
        simp only [mandatoryFor, hs, Bool.true_and, Bool.or_eq_true, List.any_eq_true, beq_iff_eq, kw_mk]
        exact hreq
      · rw [hc]
        refine .foreign (.top _) hnt hf ?_ hne
        simp only [foreignFor, hs, Bool.true_and, List.any_eq_true, bne_iff_ne, ne_eq, kw_mk]
        exact hreq

/-- The ways one step of the substatement loop fails (no assumption on the table). -/
theorem addSub_err' {tbl : Schema} {T : TypeDef} {ss : Stmt} {st : Partial}
    {child : Unit → Except Err ANode} {e : Err} (h : addSub tbl T ss st child = .error e) :
    child () = .error e ∨ e.pos = none ∨ e.cls = .noExt ∨ e.cls = .unknownField := by
  unfold addSub at h
  dsimp only at h
  split at h
  · split at h
    · split at h
      · simp only [Except.error.injEq] at h; subst h; exact Or.inr (Or.inl rfl)
      · split at h
        · rename_i e' he'
          simp only [Except.error.injEq] at h; subst h; exact Or.inl he'
        · split at h
          · simp only [Except.error.injEq] at h; subst h; exact Or.inr (Or.inl rfl)
          · cases h
    · simp only [Except.error.injEq] at h; subst h; exact Or.inr (Or.inl rfl)
  · split at h
    · split at h
      · cases h
      · simp only [Except.error.injEq] at h; subst h
        exact Or.inr (Or.inr (Or.inl rfl))
    · simp only [Except.error.injEq] at h; subst h
      exact Or.inr (Or.inr (Or.inr rfl))

/-- Errors about a second occurrence of a single-valued substatement carry no position. -/
theorem build_alreadySet_unpositioned {tbl : Schema} :
    ∀ (s : Stmt) (p : Option Nat) (e : Err), build tbl s p = .error e → e.cls = .alreadySet → e.pos = none := by
  intro s
  induction s using Stmt.induct with
  | h kw ha arg line col subs ih =>
    intro p e h hc
    rw [build] at h
    simp only at h
    split at h
    · simp only [Except.error.injEq] at h; subst h; cases hc
    rename_i t ht
    split at h
    · simp only [Except.error.injEq] at h; subst h; cases hc
    rename_i T hTy
    split at h
    · rename_i e' he'
      simp only [Except.error.injEq] at h; subst h
      exact setParent_err_pos he'
    split at h
    · rename_i e' he'
      simp only [Except.error.injEq] at h; subst h
      have key : ∀ (rest : List Stmt), (∀ ss ∈ rest, ss ∈ subs) → ∀ (st : Partial),
          buildSubs tbl t T rest st = .error e' → e'.pos = none := by
        intro rest
        induction rest with
        | nil => intro _ st h; simp [buildSubs] at h
        | cons ss rest ihr =>
          intro hsub st h
          rw [buildSubs] at h
          split at h
          · rename_i e1 h1
            cases h
            rcases addSub_err' h1 with hb | hn | hn | hn
            · exact ih ss (hsub ss List.mem_cons_self) _ _ hb hc
            · exact hn
            · rw [hc] at hn; cases hn
            · rw [hc] at hn; cases hn
          · exact ihr (fun x hx => hsub x (List.mem_cons_of_mem _ hx)) _ h
      exact key subs (fun _ h => h) _ he'
    · unfold finish at h
      simp only at h
      repeat' split at h
      all_goals first
        | (simp only [Except.error.injEq] at h; subst h; cases hc)
        | cases h

end Goyang.Lemmas.PositionsAst
