import Goyang.Lemmas.PositionsSem
import Goyang.Model.Pipeline
import Goyang.Lemmas.Types
/-
Semantic half of C16: the layers plugged into `processAll` by `Goyang.Model.plugFull` — type
resolution (`Goyang.Model.Types`), typedef resolution and identity resolution
(`Goyang.Model.Identity`) — keep the position discipline `PlugPositionsAt Names`: every error they
build is bare or `Err.at_ s cls` with `s` a statement of a loaded module, and for the classes
`Names` constrains `s` is the `type` / `range` / `length` statement.
-/
set_option linter.unusedVariables false
set_option linter.unusedSimpArgs false
set_option linter.unusedSectionVars false
namespace Goyang.Lemmas.PositionsTypes
open Goyang.Model Goyang.Model.Types Goyang.Spec.Positions Goyang.Lemmas.PositionsSem
open Goyang.Lemmas.Tree (foldl_inv one?_kw mem_all_kw)

/-- The classes `Names` says something about. -/
def constrained : List String :=
  ["unknown-group", "bad-ordered-by", "bad-max-elements", "bad-min-elements", "bad-tristate", "unknown-type",
   "unknown-prefix", "bad-range", "bad-length", "negative-length"] ++ enumClasses

/-- The classes constrained to something else than a `type` statement. -/
def notType : List String :=
  ["unknown-group", "bad-ordered-by", "bad-max-elements", "bad-min-elements", "bad-tristate",
   "bad-range", "bad-length", "negative-length"] ++ enumClasses

/-- The classes constrained to something else than an `enum` / `bit` statement. -/
def notEnum : List String :=
  ["unknown-group", "bad-ordered-by", "bad-max-elements", "bad-min-elements", "bad-tristate", "unknown-type",
   "unknown-prefix", "bad-range", "bad-length", "negative-length"]

/-- Any statement may carry an error of a class that `Names` does not constrain. -/
theorem names_free {cls : String} (s : Stmt) (h : cls ∉ constrained) : Names cls s := by
  simp only [constrained, List.mem_append, List.mem_cons, List.not_mem_nil, or_false, not_or] at h
  obtain ⟨⟨h1, h2, h3, h4, h5, h6, h7, h8, h9, h10⟩, h11⟩ := h
  exact ⟨fun e => absurd e h1, fun e => absurd e h2, fun e => absurd e h3, fun e => absurd e h4,
    fun e => absurd e h5, fun e => absurd e h6, fun e => absurd e h7, fun e => absurd e h8,
    fun e => absurd e h9, fun e => absurd e h10, fun e => absurd e h11⟩

theorem names_type {cls : String} {s : Stmt} (hs : s.kw = "type") (h : cls ∉ notType) : Names cls s := by
  simp only [notType, List.mem_append, List.mem_cons, List.not_mem_nil, or_false, not_or] at h
  obtain ⟨⟨h1, h2, h3, h4, h5, h8, h9, h10⟩, h11⟩ := h
  exact ⟨fun e => absurd e h1, fun e => absurd e h2, fun e => absurd e h3, fun e => absurd e h4,
    fun e => absurd e h5, fun _ => hs, fun _ => hs, fun e => absurd e h8,
    fun e => absurd e h9, fun e => absurd e h10, fun e => absurd e h11⟩

theorem names_enum {cls : String} {s : Stmt} (hs : s.kw = "enum" ∨ s.kw = "bit") (h : cls ∉ notEnum) : Names cls s := by
  simp only [notEnum, List.mem_cons, List.not_mem_nil, or_false, not_or] at h
  obtain ⟨h1, h2, h3, h4, h5, h6, h7, h8, h9, h10⟩ := h
  exact ⟨fun e => absurd e h1, fun e => absurd e h2, fun e => absurd e h3, fun e => absurd e h4,
    fun e => absurd e h5, fun e => absurd e h6, fun e => absurd e h7, fun e => absurd e h8,
    fun e => absurd e h9, fun e => absurd e h10, fun _ => hs⟩

section
variable {reg : Registry}

abbrev Good (reg : Registry) (e : Err) : Prop := PosAt Names reg e
abbrev GoodL (reg : Registry) (l : List Err) : Prop := ErrsOK Names reg l

theorem good_bare (cls : String) : Good reg (Err.bare cls) := posOK_bare reg cls

theorem good_free {s : Stmt} (hs : StmtOf reg s) {cls : String} (h : cls ∉ constrained) : Good reg (Err.at_ s cls) :=
  posOK_at hs cls (names_free s h)

theorem good_type {s : Stmt} (hs : StmtOf reg s) (hk : s.kw = "type") {cls : String}
    (h : cls ∉ notType) : Good reg (Err.at_ s cls) :=
  posOK_at hs cls (names_type hk h)

/-! ### typedef lookup returns statements of loaded modules -/

/-- A typedef reference into the loaded set. -/
structure GoodRef (reg : Registry) (r : TdRef) : Prop where
  mem : r.root ∈ reg.mods
  td : Within r.td r.root.stmt
  scope : ∀ s ∈ r.scope, Within s r.root.stmt

theorem findIn_mem {n td : Stmt} {name : String} (h : findIn n name = some td) : td ∈ n.subs := by
  unfold findIn at h
  split at h
  · have := List.mem_of_getLast? h
    exact (List.mem_filter.mp (List.mem_filter.mp this).1).1
  · cases h

theorem findInScope_good {root : Mod} (hroot : root ∈ reg.mods) (name : String) :
    ∀ (l : List Stmt), (∀ s ∈ l, Within s root.stmt) → ∀ r, findInScope root name l = some r → GoodRef reg r := by
  intro l
  induction l with
  | nil => intro _ r h; simp [findInScope] at h
  | cons n up ih =>
    intro hl r h
    unfold findInScope at h
    split at h
    · rename_i td htd
      simp only [Option.some.injEq] at h; subst h
      exact ⟨hroot, .sub (hl n (by simp)) (findIn_mem htd), hl⟩
    · exact ih (fun s hs => hl s (List.mem_cons_of_mem _ hs)) r h

theorem includeTargets_mem {lk : Identity.Link} {m im : Mod} (h : im ∈ Identity.includeTargets reg lk m) :
    im ∈ reg.mods := by
  unfold Identity.includeTargets at h
  simp only [List.mem_filterMap] at h
  obtain ⟨⟨s, i⟩, _, hs⟩ := h
  dsimp only at hs
  split at hs
  · exact Fuel.findModule_mem hs
  · cases hs

theorem firstHit_found {α σ : Type} (f : α → σ → Lookup × σ) (P : TdRef → Prop) :
    ∀ (l : List α) (s : σ), (∀ a ∈ l, ∀ s r, (f a s).1 = .found r → P r) →
      ∀ r, (firstHit f l s).1 = .found r → P r := by
  intro l
  induction l with
  | nil => intro s _ r h; simp [firstHit] at h
  | cons a rest ih =>
    intro s hl r h
    unfold firstHit at h
    split at h
    · rename_i s' heq
      exact ih s' (fun a' ha' => hl a' (List.mem_cons_of_mem _ ha')) r h
    · rename_i res hne
      exact hl a (by simp) s r h

theorem findInModule_good (env : Types.Env) (name : String) :
    ∀ (fuel : Nat) (m : Mod) (seen : List Nat), m ∈ env.reg.mods →
      ∀ r, (findInModule env name fuel m seen).1 = .found r → GoodRef env.reg r := by
  intro fuel
  induction fuel with
  | zero => intro m seen _ r h; simp [findInModule] at h
  | succ fuel ih =>
    intro m seen hm r h
    unfold findInModule at h
    split at h
    · simp at h
    · dsimp only at h
      split at h
      · rename_i td htd
        simp only [Lookup.found.injEq] at h; subst h
        exact ⟨hm, .sub (.top _) (findIn_mem htd), by simp; exact .top _⟩
      · refine firstHit_found _ (GoodRef env.reg) _ _ ?_ r h
        intro im him s r' hr'
        exact ih im s (includeTargets_mem him) r' hr'

theorem findLocalModules_good (env : Types.Env) {root : Mod} (hroot : root ∈ env.reg.mods) (name : String) (r : TdRef)
    (h : findLocalModules env root name = .found r) : GoodRef env.reg r := by
  unfold findLocalModules at h
  dsimp only at h
  refine firstHit_found _ (GoodRef env.reg) _ _ ?_ r h
  intro m hm s r' hr'
  refine findInModule_good env name _ m s ?_ r' hr'
  split at hm
  · rename_i b hb
    rcases List.mem_cons.mp hm with hm | hm
    · subst hm; exact hroot
    · cases hg : env.reg.getModule b with
      | none => rw [hg] at hm; simp at hm
      | some o =>
        rw [hg] at hm
        simp only [Option.toList_some, List.mem_singleton] at hm
        subst hm; exact Fuel.getModule_mem hg
  · simp only [List.mem_singleton] at hm
    subst hm; exact hroot

theorem findModuleByPrefix_mem {root ext : Mod} {pfx : String} (hroot : root ∈ reg.mods)
    (h : reg.findModuleByPrefix root pfx = some ext) : ext ∈ reg.mods := by
  unfold Registry.findModuleByPrefix at h
  split at h
  · simp only [Option.some.injEq] at h; subst h; exact hroot
  · split at h
    · exact Fuel.findModule_mem h
    · cases h

/-- The lookup at the head of `Type.resolve`: a typedef of a loaded module, or an error at the
`type` statement itself. -/
theorem lookup_good (env : Types.Env) {root : Mod} (hroot : root ∈ env.reg.mods) {scope : List Stmt} {t : Stmt}
    (ht : Within t root.stmt) (hkw : t.kw = "type") (hscope : ∀ s ∈ scope, Within s root.stmt) :
    (∀ src r, lookup env root scope t = .typedef src r → GoodRef env.reg r) ∧
    (∀ e, lookup env root scope t = .error e → Good env.reg e) := by
  have hst : StmtOf env.reg t := ⟨root, hroot, ht⟩
  have hts : ∀ s ∈ t :: scope, Within s root.stmt := by
    intro s hs
    rcases List.mem_cons.mp hs with hs | hs
    · subst hs; exact ht
    · exact hscope s hs
  constructor
  · intro src r h
    unfold lookup at h
    split at h
    · cases h
    · dsimp only at h
      split at h
      · split at h
        · rename_i r' hr'
          simp only [Bound.typedef.injEq] at h
          obtain ⟨_, rfl⟩ := h
          exact findInScope_good hroot _ _ hts _ hr'
        · split at h
          · rename_i r' hr'
            simp only [Bound.typedef.injEq] at h
            obtain ⟨_, rfl⟩ := h
            exact findLocalModules_good env hroot _ _ hr'
          · cases h
          · cases h
      · split at h
        · cases h
        · rename_i ext hext
          split at h
          · rename_i r' hr'
            simp only [Bound.typedef.injEq] at h
            obtain ⟨_, rfl⟩ := h
            exact findInModule_good env _ _ ext [] (findModuleByPrefix_mem hroot hext) _ hr'
          · cases h
          · cases h
  · intro e h
    unfold lookup at h
    split at h
    · cases h
    · dsimp only at h
      repeat' split at h
      all_goals first
        | (simp only [Bound.error.injEq] at h; subst h; exact good_type hst hkw (by decide))
        | cases h

/-! ### the overlays of `Type.resolve` -/

theorem goodL_nil : GoodL reg [] := errsOK_nil
theorem goodL_snoc {l : List Err} {e : Err} (hl : GoodL reg l) (he : Good reg e) : GoodL reg (l ++ [e]) :=
  errsOK_snoc hl he
theorem goodL_append {a b : List Err} (ha : GoodL reg a) (hb : GoodL reg b) : GoodL reg (a ++ b) :=
  errsOK_append ha hb

theorem findIdentityBase_good (dict : Identity.Dict) {root : Mod} (hroot : root ∈ reg.mods) (baseStr : String) (e : Err)
    (h : Identity.findIdentityBase reg dict root baseStr = .error e) : Good reg e := by
  have hrs : StmtOf reg root.stmt := ⟨root, hroot, .top _⟩
  unfold Identity.findIdentityBase at h
  dsimp only at h
  repeat' split at h
  all_goals first
    | (simp only [Except.error.injEq] at h; subst h
       first
         | exact good_bare _
         | exact good_free hrs (by decide))
    | cases h

theorem stepRequireInstance_good (t : Stmt) (s : St) (hs : GoodL reg s.2) : GoodL reg (stepRequireInstance t s).2 := by
  unfold stepRequireInstance
  repeat' split
  all_goals first
    | exact hs
    | exact goodL_snoc hs (good_bare _)

theorem stepPath_good (t : Stmt) (s : St) (hs : GoodL reg s.2) : GoodL reg (stepPath t s).2 := by
  unfold stepPath
  split <;> exact hs

theorem stepKind_good (env : Types.Env) {root : Mod} (hroot : root ∈ env.reg.mods) {t : Stmt} (ht : StmtOf env.reg t)
    (hkw : t.kw = "type") (source : Source) (dec : Bool) (s : St) (hs : GoodL env.reg s.2) :
    GoodL env.reg (stepKind env root t source dec s).2 := by
  unfold stepKind
  dsimp only
  repeat' split
  all_goals first
    | exact hs
    | exact goodL_snoc hs (good_type ht hkw (by decide))
    | (rename_i e he
       exact goodL_snoc hs (findIdentityBase_good _ hroot _ e he))

theorem stepRange_good {t : Stmt} (ht : StmtOf reg t) (dec : Bool) (s : St) (hs : GoodL reg s.2) :
    GoodL reg (stepRange t dec s).2 := by
  unfold stepRange
  split
  · exact hs
  · rename_i r hr
    split
    · exact hs
    · refine goodL_snoc hs (posOK_at (stmtOf_one ht hr) _ ?_)
      have hk := one?_kw t _ r hr
      exact ⟨fun e => absurd e (by decide), fun e => absurd e (by decide), fun e => absurd e (by decide),
        fun e => absurd e (by decide), fun e => absurd e (by decide), fun e => absurd e (by decide),
        fun e => absurd e (by decide), fun _ => hk, fun e => absurd e (by decide), fun e => absurd e (by decide),
        fun e => absurd e (by decide)⟩

theorem stepLength_good {t : Stmt} (ht : StmtOf reg t) (s : St) (hs : GoodL reg s.2) :
    GoodL reg (stepLength t s).2 := by
  unfold stepLength
  split
  · exact hs
  · rename_i l hl
    have hk := one?_kw t _ l hl
    split
    · exact hs
    · refine goodL_snoc hs (posOK_at (stmtOf_one ht hl) _ ?_)
      exact ⟨fun e => absurd e (by decide), fun e => absurd e (by decide), fun e => absurd e (by decide),
        fun e => absurd e (by decide), fun e => absurd e (by decide), fun e => absurd e (by decide),
        fun e => absurd e (by decide), fun e => absurd e (by decide), fun e => absurd e (by decide), fun _ => hk,
        fun e => absurd e (by decide)⟩
    · refine goodL_snoc hs (posOK_at (stmtOf_one ht hl) _ ?_)
      exact ⟨fun e => absurd e (by decide), fun e => absurd e (by decide), fun e => absurd e (by decide),
        fun e => absurd e (by decide), fun e => absurd e (by decide), fun e => absurd e (by decide),
        fun e => absurd e (by decide), fun e => absurd e (by decide), fun _ => hk, fun e => absurd e (by decide),
        fun e => absurd e (by decide)⟩

theorem enumErrClass_notEnum (x : Enum.EnumErr) : enumErrClass x ∉ notEnum := by
  cases x <;> simp only [enumErrClass] <;> decide

/-- The errors of the enum / bit loop stand at the rejected `enum` / `bit` member. -/
theorem enumFold_good (start : EnumTab) (valueKw : String) (members : List Stmt)
    (hm : ∀ e ∈ members, StmtOf reg e ∧ (e.kw = "enum" ∨ e.kw = "bit")) :
    GoodL reg (enumFold start valueKw members).2 := by
  intro x hx
  unfold enumFold at hx
  simp only [List.mem_filterMap, Option.map_eq_some_iff] at hx
  obtain ⟨ie, _, e, he, rfl⟩ := hx
  obtain ⟨h1, h2⟩ := hm e (List.mem_of_getElem? he)
  exact posOK_at h1 _ (names_enum h2 (enumErrClass_notEnum _))

theorem stepEnum_good {t : Stmt} (ht : StmtOf reg t) (s : St) (hs : GoodL reg s.2) : GoodL reg (stepEnum t s).2 := by
  unfold stepEnum
  split
  · exact hs
  · rename_i heq
    refine goodL_append hs (enumFold_good _ _ _ ?_)
    intro e he
    exact ⟨stmtOf_all ht he, Or.inl (mem_all_kw t _ e he)⟩

theorem stepBit_good {t : Stmt} (ht : StmtOf reg t) (s : St) (hs : GoodL reg s.2) : GoodL reg (stepBit t s).2 := by
  unfold stepBit
  split
  · exact hs
  · rename_i heq
    refine goodL_append hs (enumFold_good _ _ _ ?_)
    intro e he
    exact ⟨stmtOf_all ht he, Or.inr (mem_all_kw t _ e he)⟩

theorem posixPatterns_sub (env : Types.Env) (root : Mod) (t : Stmt) (pps : List Stmt)
    (h : posixPatterns env root t = some pps) : ∀ e ∈ pps, e ∈ t.subs := by
  unfold posixPatterns at h
  have key : ∀ (l : List Stmt) (acc : Option (List Stmt)), (∀ x ∈ l, x ∈ t.subs) →
      (∀ a, acc = some a → ∀ e ∈ a, e ∈ t.subs) →
      ∀ a, l.foldl (fun acc ext =>
        match acc with
        | none => none
        | some l =>
          let pn := splitPrefix ext.kw
          match env.reg.findModuleByPrefix root pn.1 with
          | none => none
          | some m => if pn.2 == "posix-pattern" && m.name == "openconfig-extensions" then some (l ++ [ext]) else some l)
        acc = some a → ∀ e ∈ a, e ∈ t.subs := by
    intro l acc hl hacc
    refine foldl_inv (fun acc : Option (List Stmt) => ∀ a, acc = some a → ∀ e ∈ a, e ∈ t.subs) _ l acc hacc ?_
    intro acc ext hext ha
    split
    · intro a h; cases h
    · rename_i l'
      dsimp only
      split
      · intro a h; cases h
      · split
        · intro a h
          simp only [Option.some.injEq] at h; subst h
          intro e he
          rcases List.mem_append.mp he with he | he
          · exact ha l' rfl e he
          · simp only [List.mem_singleton] at he; subst he; exact hl e hext
        · intro a h
          simp only [Option.some.injEq] at h; subst h
          exact ha l' rfl
  refine key (extsOf t) (some []) ?_ ?_ pps h
  · intro x hx; exact (List.mem_filter.mp hx).1
  · intro a h; simp only [Option.some.injEq] at h; subst h; simp

theorem stepPosix_good (env : Types.Env) {t : Stmt} (ht : StmtOf env.reg t) (pps : List Stmt) (hp : ∀ e ∈ pps, e ∈ t.subs)
    (s : St) (hs : GoodL env.reg s.2) : GoodL env.reg (stepPosix env pps s).2 := by
  unfold stepPosix
  refine goodL_append hs ?_
  intro x hx
  simp only [List.mem_map, List.mem_filter] at hx
  obtain ⟨e, ⟨he, _⟩, rfl⟩ := hx
  exact good_free (stmtOf_sub ht (hp e he)) (by decide)

theorem stepMembers_good (members : List Res) (hm : ∀ r ∈ members, GoodL reg r.errs) (s : St) (hs : GoodL reg s.2) :
    GoodL reg (stepMembers members s).2 := by
  unfold stepMembers
  intro x hx
  rcases (Goyang.Lemmas.Types.mem_appendNewErrs x _ _).mp hx with h | h
  · exact hs x h
  · simp only [List.mem_flatMap] at h
    obtain ⟨r, hr, hxr⟩ := h
    exact hm r hr x hxr

theorem overlayType_good (env : Types.Env) {root : Mod} (hroot : root ∈ env.reg.mods) {t : Stmt} (ht : StmtOf env.reg t)
    (hkw : t.kw = "type") (source : Source) (tdY : YType) (members : List Res)
    (hm : ∀ r ∈ members, GoodL env.reg r.errs) :
    GoodL env.reg (overlayType env root t source tdY members).errs := by
  have h1 : GoodL env.reg (stepPath t (stepRequireInstance t (tdY.copyOf, []))).2 :=
    stepPath_good _ _ (stepRequireInstance_good _ _ goodL_nil)
  unfold overlayType
  dsimp only
  split
  · exact goodL_snoc h1 (good_type ht hkw (by decide))
  · have h7 : GoodL env.reg (overlayLocal env root t source tdY (stepPath t (stepRequireInstance t (tdY.copyOf, [])))).2 := by
      unfold overlayLocal
      dsimp only
      unfold stepPattern
      dsimp only
      exact stepBit_good ht _ (stepEnum_good ht _ (stepLength_good ht _ (stepRange_good ht _ _
        (stepKind_good env hroot ht hkw _ _ _ h1))))
    split
    · exact errsOK_single (good_bare _)
    · rename_i pps hpps
      exact stepMembers_good members hm _ (stepPosix_good env ht pps (posixPatterns_sub env root t pps hpps) _ h7)

theorem typedefOverlay_good (env : Types.Env) (root : Mod) (td tt : Stmt) (ty : YType) :
    GoodL env.reg (typedefOverlay env root td tt ty).errs := by
  unfold typedefOverlay
  split
  · exact errsOK_single (good_bare _)
  · exact goodL_nil

/-! ### the recursion -/

/-- Go: `Type.resolve` on a `type` statement of a loaded module only reports statements of loaded
modules: the type statement itself, its `range` / `length` / `enum` / `bit` / pattern-extension
substatements, its union members, and the same for the typedefs it is based on. -/
theorem resolveTypeF_good (env : Types.Env) : ∀ (fuel : Nat) (root : Mod) (scope : List Stmt) (t : Stmt)
    (stack : List TypeKey), root ∈ env.reg.mods → Within t root.stmt → t.kw = "type" →
    (∀ s ∈ scope, Within s root.stmt) → GoodL env.reg (resolveTypeF env fuel root scope t stack).errs := by
  intro fuel
  induction fuel with
  | zero =>
    intro root scope t stack hroot ht hkw hscope
    exact errsOK_single (good_type ⟨root, hroot, ht⟩ hkw (by decide))
  | succ fuel ih =>
    intro root scope t stack hroot ht hkw hscope
    have hst : StmtOf env.reg t := ⟨root, hroot, ht⟩
    have hts : ∀ s ∈ t :: scope, Within s root.stmt := by
      intro s hs
      rcases List.mem_cons.mp hs with hs | hs
      · subst hs; exact ht
      · exact hscope s hs
    obtain ⟨hl1, hl2⟩ := lookup_good env hroot ht hkw hscope
    have hmem : ∀ st, ∀ r ∈ (t.all "type").map (fun ut => resolveTypeF env fuel root (t :: scope) ut st),
        GoodL env.reg r.errs := by
      intro st r hr
      simp only [List.mem_map] at hr
      obtain ⟨ut, hut, rfl⟩ := hr
      exact ih root (t :: scope) ut st hroot (within_all ht hut) (mem_all_kw t _ ut hut) hts
    unfold resolveTypeF
    dsimp only
    split
    · exact errsOK_single (good_type hst hkw (by decide))
    · split
      · rename_i e he
        exact errsOK_single (hl2 e he)
      · exact overlayType_good env hroot hst hkw _ _ _ (hmem _)
      · rename_i src r hr
        have hgr := hl1 src r hr
        have htd : StmtOf env.reg r.td := ⟨r.root, hgr.mem, hgr.td⟩
        split
        · exact errsOK_single (good_free htd (by decide))
        · rename_i tt htt
          have hbase := ih r.root (r.td :: r.scope) tt (typeKey root t :: stack) hgr.mem (within_one hgr.td htt)
            (one?_kw r.td _ tt htt) (by
              intro s hs
              rcases List.mem_cons.mp hs with hs | hs
              · subst hs; exact hgr.td
              · exact hgr.scope s hs)
          split
          · exact hbase
          · split
            · exact errsOK_single (good_free (stmtOf_one htd htt) (by decide))
            · split
              · exact typedefOverlay_good env _ _ _ _
              · split
                · exact errsOK_single (good_free htd (by decide))
                · exact overlayType_good env hroot hst hkw _ _ _ (hmem _)

theorem resolveTypedefF_good (env : Types.Env) (fuel : Nat) {root : Mod} (hroot : root ∈ env.reg.mods)
    {scope : List Stmt} {td : Stmt} (htd : Within td root.stmt) (hscope : ∀ s ∈ scope, Within s root.stmt) :
    GoodL env.reg (resolveTypedefF env fuel root scope td).errs := by
  have hs : StmtOf env.reg td := ⟨root, hroot, htd⟩
  unfold resolveTypedefF
  split
  · exact errsOK_single (good_free hs (by decide))
  · rename_i tt htt
    have hbase := resolveTypeF_good env fuel root (td :: scope) tt [] hroot (within_one htd htt) (one?_kw td _ tt htt) (by
      intro s hs'
      rcases List.mem_cons.mp hs' with hs' | hs'
      · subst hs'; exact htd
      · exact hscope s hs')
    dsimp only
    split
    · exact hbase
    · split
      · exact errsOK_single (good_free (stmtOf_one hs htt) (by decide))
      · exact typedefOverlay_good env _ _ _ _

/-! ### walking the loaded set -/

theorem mem_collectL (kws : List String) (up : List Stmt) (l : List Stmt) (x : Stmt × List Stmt) :
    x ∈ collectL kws up l ↔ ∃ c ∈ l, x ∈ collect kws up c := by
  induction l with
  | nil => simp [collectL]
  | cons a l ih => simp [collectL, ih]

/-- Everything `collect` returns is a statement of the tree with ancestors in the tree. -/
theorem collect_within (kws : List String) (top : Stmt) : ∀ (s : Stmt) (up : List Stmt), Within s top →
    (∀ u ∈ up, Within u top) → ∀ x ∈ collect kws up s, Within x.1 top ∧ ∀ u ∈ x.2, Within u top := by
  intro s
  induction s using stmt_induct with
  | h kw ha a f l c subs ih =>
    intro up hs hup x hx
    unfold collect at hx
    dsimp only at hx
    split at hx
    · simp at hx
    · rcases List.mem_append.mp hx with hx | hx
      · split at hx
        · simp only [List.mem_singleton] at hx; subst hx; exact ⟨hs, hup⟩
        · simp at hx
      · obtain ⟨ch, hch, hxc⟩ := (mem_collectL _ _ _ _).1 hx
        refine ih ch hch _ (.sub hs hch) ?_ x hxc
        intro u hu
        rcases List.mem_cons.mp hu with hu | hu
        · subst hu; exact hs
        · exact hup u hu

theorem resolveAllTypedefsE_good (env : Types.Env) : GoodL env.reg (resolveAllTypedefsE env) := by
  intro x hx
  unfold resolveAllTypedefsE at hx
  simp only [List.mem_flatMap] at hx
  obtain ⟨m, hm, ⟨td, scope⟩, hts, hxe⟩ := hx
  unfold dictTypedefs at hts
  simp only [List.mem_flatMap, List.mem_map, List.mem_filter] at hts
  obtain ⟨⟨n, up⟩, hcol, td', ⟨htd', _⟩, heq⟩ := hts
  simp only [Prod.mk.injEq] at heq
  obtain ⟨rfl, rfl⟩ := heq
  obtain ⟨hn, hup⟩ := collect_within typedeferKinds m.stmt m.stmt [] (.top _) (by simp) (n, up) hcol
  dsimp only at hn hup hxe
  refine resolveTypedefF_good env env.fuel hm (within_all hn htd') ?_ x hxe
  intro s hs
  rcases List.mem_cons.mp hs with hs | hs
  · subst hs; exact hn
  · exact hup s hs

theorem normTypeErr_good {e : Err} (h : Good reg e) : Good reg (normTypeErr e) := by
  unfold normTypeErr
  split
  · exact good_bare _
  · exact h

/-! ### identity resolution -/

/-- Every dictionary entry was made from an `identity` statement of a loaded module. -/
def DictOK (reg : Registry) (d : Identity.Dict) : Prop := ∀ e ∈ d, StmtOf reg e.stmt

theorem dictOK_bind {d : Identity.Dict} {e : Identity.DEntry} (hd : DictOK reg d) (he : StmtOf reg e.stmt) :
    DictOK reg (d.bind e) := by
  unfold Identity.Dict.bind
  split
  · intro x hx
    simp only [List.mem_map] at hx
    obtain ⟨y, hy, rfl⟩ := hx
    split
    · exact he
    · exact hd y hy
  · intro x hx
    rcases List.mem_append.mp hx with hx | hx
    · exact hd x hx
    · simp only [List.mem_singleton] at hx; subst hx; exact he

theorem registerMod_good {m : Mod} (hm : m ∈ reg.mods) (acc : Identity.Dict × List Err)
    (h : DictOK reg acc.1 ∧ GoodL reg acc.2) :
    DictOK reg (Identity.registerMod reg m acc).1 ∧ GoodL reg (Identity.registerMod reg m acc).2 := by
  have hms : StmtOf reg m.stmt := ⟨m, hm, .top _⟩
  unfold Identity.registerMod
  split
  · split
    · rename_i b hb
      exact ⟨h.1, goodL_snoc h.2 (good_free (stmtOf_one hms hb) (by decide))⟩
    · exact ⟨h.1, goodL_snoc h.2 (good_bare _)⟩
  · refine ⟨?_, h.2⟩
    dsimp only
    refine foldl_inv (DictOK reg) _ _ _ h.1 ?_
    rintro d ⟨s, i⟩ hsi hd
    dsimp only
    refine dictOK_bind hd ?_
    have : s ∈ Identity.identities m := by
      have := List.mem_zipIdx hsi
      simp only [Nat.zero_add] at this
      rw [this.2.2]; exact List.getElem_mem _
    exact stmtOf_all hms this

theorem foldlM_option_inv {α β : Type} (P : β → Prop) (f : β → α → Option β) :
    ∀ (l : List α) (b : β), P b → (∀ b a b', a ∈ l → P b → f b a = some b' → P b') →
      ∀ r, l.foldlM f b = some r → P r := by
  intro l
  induction l with
  | nil =>
    intro b hb _ r h
    simp only [List.foldlM_nil, Option.pure_def, Option.some.injEq] at h
    subst h; exact hb
  | cons a l ih =>
    intro b hb hs r h
    simp only [List.foldlM_cons, Option.bind_eq_bind] at h
    cases hf : f b a with
    | none => rw [hf] at h; simp at h
    | some b' =>
      rw [hf] at h
      simp only [Option.bind_some] at h
      exact ih b' (hs b a b' (by simp) hb hf) (fun b a b' ha => hs b a b' (List.mem_cons_of_mem _ ha)) r h

theorem buildDict_good (o : Identity.Oracle) (lk : Identity.Link) (d : Identity.Dict) (errs : List Err)
    (h : Identity.buildDict o reg lk = some (d, errs)) : DictOK reg d ∧ GoodL reg errs := by
  unfold Identity.buildDict at h
  refine foldlM_option_inv (fun acc : Identity.Dict × List Err => DictOK reg acc.1 ∧ GoodL reg acc.2) _ _ _
    ⟨(by intro e he; cases he), goodL_nil⟩ ?_ (d, errs) h
  intro acc mod acc' _ hacc hstep
  split at hstep
  · cases hstep
  · rename_i closure _
    simp only [Option.some.injEq] at hstep
    subst hstep
    refine foldl_inv (fun acc : Identity.Dict × List Err => DictOK reg acc.1 ∧ GoodL reg acc.2) _ _ _ hacc ?_
    intro acc s _ ha
    split
    · rename_i m hm
      exact registerMod_good (Fuel.byId_mem hm) acc ha
    · exact ha

theorem directAll_good (dict : Identity.Dict) (order : List Identity.DEntry) (vals0 : Identity.Vtx → List Identity.Vtx) :
    GoodL reg (Identity.directAll reg dict order vals0).2 := by
  unfold Identity.directAll
  refine foldl_inv (fun acc : (Identity.Vtx → List Identity.Vtx) × List Err => GoodL reg acc.2) _ _ _ goodL_nil ?_
  intro acc e _ hacc
  unfold Identity.directOne
  refine foldl_inv (fun acc : (Identity.Vtx → List Identity.Vtx) × List Err => GoodL reg acc.2) _ _ _ hacc ?_
  intro acc rb hrb ha
  split
  · rename_i err
    refine goodL_snoc ha ?_
    unfold Identity.resolvedBases at hrb
    split at hrb
    · rename_i root hroot
      simp only [List.mem_map] at hrb
      obtain ⟨b, _, hb⟩ := hrb
      exact findIdentityBase_good dict (Fuel.byId_mem hroot) _ err hb
    · simp at hrb
  · exact ha

theorem resolveIdentities_good (o : Identity.Oracle) (lk : Identity.Link) (vals0 : Identity.Vtx → List Identity.Vtx)
    (res : Identity.Result) (h : Identity.resolveIdentities o reg lk vals0 = some res) : GoodL reg res.errs := by
  unfold Identity.resolveIdentities at h
  split at h
  · cases h
  · rename_i dict errs1 hbd
    obtain ⟨hd, he1⟩ := buildDict_good o lk dict errs1 hbd
    dsimp only at h
    split at h
    · cases h
    · rename_i vals2 cyc _
      simp only [Option.some.injEq] at h
      subst h
      dsimp only
      refine goodL_append (goodL_append he1 (directAll_good dict _ vals0)) ?_
      intro x hx
      simp only [List.mem_filterMap, Option.map_eq_some_iff] at hx
      obtain ⟨v, _, e, he, rfl⟩ := hx
      exact good_free (hd e (List.mem_of_find?_eq_some he)) (by decide)

/-! ### the plug of the pipeline -/

theorem env_of_reg (reg : Registry) : (Types.Env.of reg).reg = reg := rfl

/-- The layers plugged in by `plugFull` keep the discipline (finer form). -/
theorem plugFull_positions (reg : Registry) : PlugPositionsAt Names reg (plugFull reg) := by
  refine ⟨?_, ?_, ?_⟩
  · intro root scope t hroot ht hkw hscope e he
    simp only [plugFull, resolveTypeE, List.mem_map] at he
    obtain ⟨e', he', rfl⟩ := he
    have := resolveTypeF_good (Types.Env.of reg) (Types.Env.of reg).fuel root scope t [] hroot ht hkw hscope e' he'
    exact normTypeErr_good this
  · intro e he
    simp only [plugFull] at he
    split at he
    · rename_i res _ hrun
      unfold Identity.run at hrun
      split at hrun
      · cases hrun
      · split at hrun
        · cases hrun
        · split at hrun
          · cases hrun
          · rename_i res' hres
            simp only [Identity.Outcome.done.injEq] at hrun
            obtain ⟨rfl, _⟩ := hrun
            exact resolveIdentities_good _ _ _ _ hres e he
    · simp at he
  · intro e he
    simp only [plugFull, List.mem_map] at he
    obtain ⟨e', he', rfl⟩ := he
    exact normTypeErr_good (resolveAllTypedefsE_good (Types.Env.of reg) e' he')

/-! ### loading: the statements of loaded modules are statements of the given files -/

theorem mods_withKm (r : Registry) (b : Bool) (km : KeyMap) : (r.withKm b km).mods = r.mods := by
  cases b <;> rfl
theorem mods_withUm (r : Registry) (b : Bool) (um : KeyMap) : (r.withUm b um).mods = r.mods := by
  cases b <;> rfl

/-- `Modules.add` appends the statement it was given as a new (sub)module and touches no other. -/
theorem add_mods {r r' : Registry} {s : Stmt} (h : r.add s = .ok r') :
    ∀ m ∈ r'.mods, m ∈ r.mods ∨ m.stmt = s := by
  have h := (Registry.add_ok h).2
  unfold Registry.addChecked at h
  dsimp only at h
  repeat' split at h
  all_goals first
    | (simp only [Except.ok.injEq] at h
       subst h
       intro m hm
       simp only [mods_withKm, mods_withUm, List.mem_append, List.mem_singleton] at hm
       rcases hm with hm | hm
       · exact Or.inl hm
       · subst hm; exact Or.inr rfl)
    | cases h

theorem foldlM_add_mods : ∀ (ss : List Stmt) (r r' : Registry), ss.foldlM (fun r s => r.add s) r = .ok r' →
    ∀ m ∈ r'.mods, m ∈ r.mods ∨ m.stmt ∈ ss := by
  intro ss
  induction ss with
  | nil =>
    intro r r' h m hm
    simp only [List.foldlM_nil] at h
    cases h
    exact Or.inl hm
  | cons s ss ih =>
    intro r r' h m hm
    simp only [List.foldlM_cons] at h
    cases hadd : r.add s with
    | error e => rw [hadd] at h; cases h
    | ok r1 =>
      rw [hadd] at h
      rcases ih r1 r' h m hm with h1 | h1
      · rcases add_mods hadd m h1 with h2 | h2
        · exact Or.inl h2
        · exact Or.inr (by rw [h2]; simp)
      · exact Or.inr (List.mem_cons_of_mem _ h1)

/-- Every loaded (sub)module is a top-level statement of one of the given files. -/
theorem loadFiles_mods (files : List SrcFile) : ∀ m ∈ (loadFiles files).mods, ∃ f ∈ files, m.stmt ∈ f.stmts := by
  unfold loadFiles
  refine foldl_inv (fun r : Registry => ∀ m ∈ r.mods, ∃ f ∈ files, m.stmt ∈ f.stmts) _ files {} (by intro m hm; cases hm) ?_
  intro r f hf hr
  unfold loadFile
  split
  · rename_i r' hr'
    intro m hm
    rcases foldlM_add_mods _ _ _ hr' m hm with h | h
    · exact hr m h
    · exact ⟨f, hf, h⟩
  · exact hr

end

end Goyang.Lemmas.PositionsTypes
