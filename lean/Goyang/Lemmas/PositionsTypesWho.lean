import Goyang.Lemmas.PositionsTypes
import Goyang.Spec.PositionsWho
/-
Semantic half of C16, second reading: the layers plugged into `processAll` by
`Goyang.Model.plugFull` keep the position discipline `PlugPositionsAt (NamesWP APred.P reg)`, i.e. that of
`Goyang.Lemmas.PositionsTypes.plugFull_positions` together with `Who` (which none of the classes
of the type / typedef / identity layers is constrained by).  Same proofs as in PositionsTypes.lean,
with `Good` / `GoodL` read over `NamesWP APred.P reg`; the lemmas that do not mention them are reused.
-/
set_option linter.unusedVariables false
set_option linter.unusedSimpArgs false
set_option linter.unusedSectionVars false
namespace Goyang.Lemmas.PositionsTypesWho
open Goyang.Model Goyang.Model.Types Goyang.Spec.Positions Goyang.Lemmas.PositionsSem
open Goyang.Lemmas.Tree (foldl_inv one?_kw mem_all_kw)

/-- The classes `NamesW` says something about. -/
def constrainedW : List String := PositionsTypes.constrained ++ whoClasses

/-- The classes constrained to something else than a `type` statement. -/
def notTypeW : List String := PositionsTypes.notType ++ whoClasses

/-- The classes constrained to something else than an `enum` / `bit` statement. -/
def notEnumW : List String := PositionsTypes.notEnum ++ whoClasses

/-- The extra condition on the statement an `augment-not-found` error names (`WhoP`), as a parameter
of the whole file (none of the layers treated here builds that class). -/
class APred where
  P : Stmt → Prop

section
variable {reg : Registry} [APred]

/-- Any statement may carry an error of a class that `NamesW` does not constrain. -/
theorem names_free {cls : String} (s : Stmt) (h : cls ∉ constrainedW) : NamesWP APred.P reg cls s :=
  ⟨PositionsTypes.names_free s (fun hc => h (List.mem_append_left _ hc)),
   who_freeP APred.P reg s (fun hc => h (List.mem_append_right _ hc))⟩

theorem names_type {cls : String} {s : Stmt} (hs : s.kw = "type") (h : cls ∉ notTypeW) : NamesWP APred.P reg cls s :=
  ⟨PositionsTypes.names_type hs (fun hc => h (List.mem_append_left _ hc)),
   who_freeP APred.P reg s (fun hc => h (List.mem_append_right _ hc))⟩

theorem names_enum {cls : String} {s : Stmt} (hs : s.kw = "enum" ∨ s.kw = "bit") (h : cls ∉ notEnumW) :
    NamesWP APred.P reg cls s :=
  ⟨PositionsTypes.names_enum hs (fun hc => h (List.mem_append_left _ hc)),
   who_freeP APred.P reg s (fun hc => h (List.mem_append_right _ hc))⟩

abbrev Good (reg : Registry) (e : Err) : Prop := PosAt (NamesWP APred.P reg) reg e
abbrev GoodL (reg : Registry) (l : List Err) : Prop := ErrsOK (NamesWP APred.P reg) reg l

theorem good_bare (cls : String) : Good reg (Err.bare cls) := posOK_bare reg cls

theorem good_free {s : Stmt} (hs : StmtOf reg s) {cls : String} (h : cls ∉ constrainedW) : Good reg (Err.at_ s cls) :=
  posOK_at hs cls (names_free s h)

theorem good_type {s : Stmt} (hs : StmtOf reg s) (hk : s.kw = "type") {cls : String}
    (h : cls ∉ notTypeW) : Good reg (Err.at_ s cls) :=
  posOK_at hs cls (names_type hk h)

/-- The lookup at the head of `Type.resolve`: a typedef of a loaded module, or an error at the
`type` statement itself. -/
theorem lookup_good (env : Types.Env) {root : Mod} (hroot : root ∈ env.reg.mods) {scope : List Stmt} {t : Stmt}
    (ht : Within t root.stmt) (hkw : t.kw = "type") (hscope : ∀ s ∈ scope, Within s root.stmt) :
    (∀ src r, lookup env root scope t = .typedef src r → PositionsTypes.GoodRef env.reg r) ∧
    (∀ e, lookup env root scope t = .error e → Good env.reg e) := by
  have hst : StmtOf env.reg t := ⟨root, hroot, ht⟩
  have hts : ∀ s ∈ t :: scope, Within s root.stmt := by
    intro s hs
    rcases List.mem_cons.mp hs with hs | hs
    · subst hs; exact ht
    · exact hscope s hs
  constructor
  · intro src r h
    unfold lookup at h
    split at h
    · cases h
    · dsimp only at h
      split at h
      · split at h
        · rename_i r' hr'
          simp only [Bound.typedef.injEq] at h
          obtain ⟨_, rfl⟩ := h
          exact PositionsTypes.findInScope_good hroot _ _ hts _ hr'
        · split at h
          · rename_i r' hr'
            simp only [Bound.typedef.injEq] at h
            obtain ⟨_, rfl⟩ := h
            exact PositionsTypes.findLocalModules_good env hroot _ _ hr'
          · cases h
          · cases h
      · split at h
        · cases h
        · rename_i ext hext
          split at h
          · rename_i r' hr'
            simp only [Bound.typedef.injEq] at h
            obtain ⟨_, rfl⟩ := h
            exact PositionsTypes.findInModule_good env _ _ ext [] (PositionsTypes.findModuleByPrefix_mem hroot hext) _ hr'
          · cases h
          · cases h
  · intro e h
    unfold lookup at h
    split at h
    · cases h
    · dsimp only at h
      repeat' split at h
      all_goals first
        | (simp only [Bound.error.injEq] at h; subst h; exact good_type hst hkw (by decide))
        | cases h

/-! ### the overlays of `Type.resolve` -/

theorem goodL_nil : GoodL reg [] := errsOK_nil
theorem goodL_snoc {l : List Err} {e : Err} (hl : GoodL reg l) (he : Good reg e) : GoodL reg (l ++ [e]) :=
  errsOK_snoc hl he
theorem goodL_append {a b : List Err} (ha : GoodL reg a) (hb : GoodL reg b) : GoodL reg (a ++ b) :=
  errsOK_append ha hb

theorem findIdentityBase_good (dict : Identity.Dict) {root : Mod} (hroot : root ∈ reg.mods) (baseStr : String) (e : Err)
    (h : Identity.findIdentityBase reg dict root baseStr = .error e) : Good reg e := by
  have hrs : StmtOf reg root.stmt := ⟨root, hroot, .top _⟩
  unfold Identity.findIdentityBase at h
  dsimp only at h
  repeat' split at h
  all_goals first
    | (simp only [Except.error.injEq] at h; subst h
       first
         | exact good_bare _
         | exact good_free hrs (by decide))
    | cases h

theorem stepRequireInstance_good (t : Stmt) (s : St) (hs : GoodL reg s.2) : GoodL reg (stepRequireInstance t s).2 := by
  unfold stepRequireInstance
  repeat' split
  all_goals first
    | exact hs
    | exact goodL_snoc hs (good_bare _)

theorem stepPath_good (t : Stmt) (s : St) (hs : GoodL reg s.2) : GoodL reg (stepPath t s).2 := by
  unfold stepPath
  split <;> exact hs

theorem stepKind_good (env : Types.Env) {root : Mod} (hroot : root ∈ env.reg.mods) {t : Stmt} (ht : StmtOf env.reg t)
    (hkw : t.kw = "type") (source : Source) (dec : Bool) (s : St) (hs : GoodL env.reg s.2) :
    GoodL env.reg (stepKind env root t source dec s).2 := by
  unfold stepKind
  dsimp only
  repeat' split
  all_goals first
    | exact hs
    | exact goodL_snoc hs (good_type ht hkw (by decide))
    | (rename_i e he
       exact goodL_snoc hs (findIdentityBase_good _ hroot _ e he))

theorem stepRange_good {t : Stmt} (ht : StmtOf reg t) (dec : Bool) (s : St) (hs : GoodL reg s.2) :
    GoodL reg (stepRange t dec s).2 := by
  unfold stepRange
  split
  · exact hs
  · rename_i r hr
    split
    · exact hs
    · refine goodL_snoc hs (posOK_at (stmtOf_one ht hr) _ ?_)
      have hk := one?_kw t _ r hr
      exact ⟨⟨fun e => absurd e (by decide), fun e => absurd e (by decide), fun e => absurd e (by decide),
        fun e => absurd e (by decide), fun e => absurd e (by decide), fun e => absurd e (by decide),
        fun e => absurd e (by decide), fun _ => hk, fun e => absurd e (by decide), fun e => absurd e (by decide),
        fun e => absurd e (by decide)⟩, who_freeP APred.P reg _ (by decide)⟩

theorem stepLength_good {t : Stmt} (ht : StmtOf reg t) (s : St) (hs : GoodL reg s.2) :
    GoodL reg (stepLength t s).2 := by
  unfold stepLength
  split
  · exact hs
  · rename_i l hl
    have hk := one?_kw t _ l hl
    split
    · exact hs
    · refine goodL_snoc hs (posOK_at (stmtOf_one ht hl) _ ?_)
      exact ⟨⟨fun e => absurd e (by decide), fun e => absurd e (by decide), fun e => absurd e (by decide),
        fun e => absurd e (by decide), fun e => absurd e (by decide), fun e => absurd e (by decide),
        fun e => absurd e (by decide), fun e => absurd e (by decide), fun e => absurd e (by decide), fun _ => hk,
        fun e => absurd e (by decide)⟩, who_freeP APred.P reg _ (by decide)⟩
    · refine goodL_snoc hs (posOK_at (stmtOf_one ht hl) _ ?_)
      exact ⟨⟨fun e => absurd e (by decide), fun e => absurd e (by decide), fun e => absurd e (by decide),
        fun e => absurd e (by decide), fun e => absurd e (by decide), fun e => absurd e (by decide),
        fun e => absurd e (by decide), fun e => absurd e (by decide), fun _ => hk, fun e => absurd e (by decide),
        fun e => absurd e (by decide)⟩, who_freeP APred.P reg _ (by decide)⟩

theorem enumErrClass_notEnumW (x : Enum.EnumErr) : enumErrClass x ∉ notEnumW := by
  cases x <;> simp only [enumErrClass] <;> decide

/-- The errors of the enum / bit loop stand at the rejected `enum` / `bit` member. -/
theorem enumFold_good (start : EnumTab) (valueKw : String) (members : List Stmt)
    (hm : ∀ e ∈ members, StmtOf reg e ∧ (e.kw = "enum" ∨ e.kw = "bit")) :
    GoodL reg (enumFold start valueKw members).2 := by
  intro x hx
  unfold enumFold at hx
  simp only [List.mem_filterMap, Option.map_eq_some_iff] at hx
  obtain ⟨ie, _, e, he, rfl⟩ := hx
  obtain ⟨h1, h2⟩ := hm e (List.mem_of_getElem? he)
  exact posOK_at h1 _ (names_enum h2 (enumErrClass_notEnumW _))

theorem stepEnum_good {t : Stmt} (ht : StmtOf reg t) (s : St) (hs : GoodL reg s.2) : GoodL reg (stepEnum t s).2 := by
  unfold stepEnum
  split
  · exact hs
  · rename_i heq
    refine goodL_append hs (enumFold_good _ _ _ ?_)
    intro e he
    exact ⟨stmtOf_all ht he, Or.inl (mem_all_kw t _ e he)⟩

theorem stepBit_good {t : Stmt} (ht : StmtOf reg t) (s : St) (hs : GoodL reg s.2) : GoodL reg (stepBit t s).2 := by
  unfold stepBit
  split
  · exact hs
  · rename_i heq
    refine goodL_append hs (enumFold_good _ _ _ ?_)
    intro e he
    exact ⟨stmtOf_all ht he, Or.inr (mem_all_kw t _ e he)⟩

theorem stepPosix_good (env : Types.Env) {t : Stmt} (ht : StmtOf env.reg t) (pps : List Stmt) (hp : ∀ e ∈ pps, e ∈ t.subs)
    (s : St) (hs : GoodL env.reg s.2) : GoodL env.reg (stepPosix env pps s).2 := by
  unfold stepPosix
  refine goodL_append hs ?_
  intro x hx
  simp only [List.mem_map, List.mem_filter] at hx
  obtain ⟨e, ⟨he, _⟩, rfl⟩ := hx
  exact good_free (stmtOf_sub ht (hp e he)) (by decide)

theorem stepMembers_good (members : List Res) (hm : ∀ r ∈ members, GoodL reg r.errs) (s : St) (hs : GoodL reg s.2) :
    GoodL reg (stepMembers members s).2 := by
  unfold stepMembers
  intro x hx
  rcases (Goyang.Lemmas.Types.mem_appendNewErrs x _ _).mp hx with h | h
  · exact hs x h
  · simp only [List.mem_flatMap] at h
    obtain ⟨r, hr, hxr⟩ := h
    exact hm r hr x hxr

theorem overlayType_good (env : Types.Env) {root : Mod} (hroot : root ∈ env.reg.mods) {t : Stmt} (ht : StmtOf env.reg t)
    (hkw : t.kw = "type") (source : Source) (tdY : YType) (members : List Res)
    (hm : ∀ r ∈ members, GoodL env.reg r.errs) :
    GoodL env.reg (overlayType env root t source tdY members).errs := by
  have h1 : GoodL env.reg (stepPath t (stepRequireInstance t (tdY.copyOf, []))).2 :=
    stepPath_good _ _ (stepRequireInstance_good _ _ goodL_nil)
  unfold overlayType
  dsimp only
  split
  · exact goodL_snoc h1 (good_type ht hkw (by decide))
  · have h7 : GoodL env.reg (overlayLocal env root t source tdY (stepPath t (stepRequireInstance t (tdY.copyOf, [])))).2 := by
      unfold overlayLocal
      dsimp only
      unfold stepPattern
      dsimp only
      exact stepBit_good ht _ (stepEnum_good ht _ (stepLength_good ht _ (stepRange_good ht _ _
        (stepKind_good env hroot ht hkw _ _ _ h1))))
    split
    · exact errsOK_single (good_bare _)
    · rename_i pps hpps
      exact stepMembers_good members hm _ (stepPosix_good env ht pps (PositionsTypes.posixPatterns_sub env root t pps hpps) _ h7)

theorem typedefOverlay_good (env : Types.Env) (root : Mod) (td tt : Stmt) (ty : YType) :
    GoodL env.reg (typedefOverlay env root td tt ty).errs := by
  unfold typedefOverlay
  split
  · exact errsOK_single (good_bare _)
  · exact goodL_nil

/-! ### the recursion -/

/-- Go: `Type.resolve` on a `type` statement of a loaded module only reports statements of loaded
modules: the type statement itself, its `range` / `length` / `enum` / `bit` / pattern-extension
substatements, its union members, and the same for the typedefs it is based on. -/
theorem resolveTypeF_good (env : Types.Env) : ∀ (fuel : Nat) (root : Mod) (scope : List Stmt) (t : Stmt)
    (stack : List TypeKey), root ∈ env.reg.mods → Within t root.stmt → t.kw = "type" →
    (∀ s ∈ scope, Within s root.stmt) → GoodL env.reg (resolveTypeF env fuel root scope t stack).errs := by
  intro fuel
  induction fuel with
  | zero =>
    intro root scope t stack hroot ht hkw hscope
    exact errsOK_single (good_type ⟨root, hroot, ht⟩ hkw (by decide))
  | succ fuel ih =>
    intro root scope t stack hroot ht hkw hscope
    have hst : StmtOf env.reg t := ⟨root, hroot, ht⟩
    have hts : ∀ s ∈ t :: scope, Within s root.stmt := by
      intro s hs
      rcases List.mem_cons.mp hs with hs | hs
      · subst hs; exact ht
      · exact hscope s hs
    obtain ⟨hl1, hl2⟩ := lookup_good env hroot ht hkw hscope
    have hmem : ∀ st, ∀ r ∈ (t.all "type").map (fun ut => resolveTypeF env fuel root (t :: scope) ut st),
        GoodL env.reg r.errs := by
      intro st r hr
      simp only [List.mem_map] at hr
      obtain ⟨ut, hut, rfl⟩ := hr
      exact ih root (t :: scope) ut st hroot (within_all ht hut) (mem_all_kw t _ ut hut) hts
    unfold resolveTypeF
    dsimp only
    split
    · exact errsOK_single (good_type hst hkw (by decide))
    · split
      · rename_i e he
        exact errsOK_single (hl2 e he)
      · exact overlayType_good env hroot hst hkw _ _ _ (hmem _)
      · rename_i src r hr
        have hgr := hl1 src r hr
        have htd : StmtOf env.reg r.td := ⟨r.root, hgr.mem, hgr.td⟩
        split
        · exact errsOK_single (good_free htd (by decide))
        · rename_i tt htt
          have hbase := ih r.root (r.td :: r.scope) tt (typeKey root t :: stack) hgr.mem (within_one hgr.td htt)
            (one?_kw r.td _ tt htt) (by
              intro s hs
              rcases List.mem_cons.mp hs with hs | hs
              · subst hs; exact hgr.td
              · exact hgr.scope s hs)
          split
          · exact hbase
          · split
            · exact errsOK_single (good_free (stmtOf_one htd htt) (by decide))
            · split
              · exact typedefOverlay_good env _ _ _ _
              · split
                · exact errsOK_single (good_free htd (by decide))
                · exact overlayType_good env hroot hst hkw _ _ _ (hmem _)

theorem resolveTypedefF_good (env : Types.Env) (fuel : Nat) {root : Mod} (hroot : root ∈ env.reg.mods)
    {scope : List Stmt} {td : Stmt} (htd : Within td root.stmt) (hscope : ∀ s ∈ scope, Within s root.stmt) :
    GoodL env.reg (resolveTypedefF env fuel root scope td).errs := by
  have hs : StmtOf env.reg td := ⟨root, hroot, htd⟩
  unfold resolveTypedefF
  split
  · exact errsOK_single (good_free hs (by decide))
  · rename_i tt htt
    have hbase := resolveTypeF_good env fuel root (td :: scope) tt [] hroot (within_one htd htt) (one?_kw td _ tt htt) (by
      intro s hs'
      rcases List.mem_cons.mp hs' with hs' | hs'
      · subst hs'; exact htd
      · exact hscope s hs')
    dsimp only
    split
    · exact hbase
    · split
      · exact errsOK_single (good_free (stmtOf_one hs htt) (by decide))
      · exact typedefOverlay_good env _ _ _ _

theorem resolveAllTypedefsE_good (env : Types.Env) : GoodL env.reg (resolveAllTypedefsE env) := by
  intro x hx
  unfold resolveAllTypedefsE at hx
  simp only [List.mem_flatMap] at hx
  obtain ⟨m, hm, ⟨td, scope⟩, hts, hxe⟩ := hx
  unfold dictTypedefs at hts
  simp only [List.mem_flatMap, List.mem_map, List.mem_filter] at hts
  obtain ⟨⟨n, up⟩, hcol, td', ⟨htd', _⟩, heq⟩ := hts
  simp only [Prod.mk.injEq] at heq
  obtain ⟨rfl, rfl⟩ := heq
  obtain ⟨hn, hup⟩ := PositionsTypes.collect_within typedeferKinds m.stmt m.stmt [] (.top _) (by simp) (n, up) hcol
  dsimp only at hn hup hxe
  refine resolveTypedefF_good env env.fuel hm (within_all hn htd') ?_ x hxe
  intro s hs
  rcases List.mem_cons.mp hs with hs | hs
  · subst hs; exact hn
  · exact hup s hs

theorem normTypeErr_good {e : Err} (h : Good reg e) : Good reg (normTypeErr e) := by
  unfold normTypeErr
  split
  · exact good_bare _
  · exact h

/-! ### identity resolution -/

theorem registerMod_good {m : Mod} (hm : m ∈ reg.mods) (acc : Identity.Dict × List Err)
    (h : PositionsTypes.DictOK reg acc.1 ∧ GoodL reg acc.2) :
    PositionsTypes.DictOK reg (Identity.registerMod reg m acc).1 ∧ GoodL reg (Identity.registerMod reg m acc).2 := by
  have hms : StmtOf reg m.stmt := ⟨m, hm, .top _⟩
  unfold Identity.registerMod
  split
  · split
    · rename_i b hb
      exact ⟨h.1, goodL_snoc h.2 (good_free (stmtOf_one hms hb) (by decide))⟩
    · exact ⟨h.1, goodL_snoc h.2 (good_bare _)⟩
  · refine ⟨?_, h.2⟩
    dsimp only
    refine foldl_inv (PositionsTypes.DictOK reg) _ _ _ h.1 ?_
    rintro d ⟨s, i⟩ hsi hd
    dsimp only
    refine PositionsTypes.dictOK_bind hd ?_
    have : s ∈ Identity.identities m := by
      have := List.mem_zipIdx hsi
      simp only [Nat.zero_add] at this
      rw [this.2.2]; exact List.getElem_mem _
    exact stmtOf_all hms this

theorem buildDict_good (o : Identity.Oracle) (lk : Identity.Link) (d : Identity.Dict) (errs : List Err)
    (h : Identity.buildDict o reg lk = some (d, errs)) : PositionsTypes.DictOK reg d ∧ GoodL reg errs := by
  unfold Identity.buildDict at h
  refine PositionsTypes.foldlM_option_inv (fun acc : Identity.Dict × List Err => PositionsTypes.DictOK reg acc.1 ∧ GoodL reg acc.2) _ _ _
    ⟨(by intro e he; cases he), goodL_nil⟩ ?_ (d, errs) h
  intro acc mod acc' _ hacc hstep
  split at hstep
  · cases hstep
  · rename_i closure _
    simp only [Option.some.injEq] at hstep
    subst hstep
    refine foldl_inv (fun acc : Identity.Dict × List Err => PositionsTypes.DictOK reg acc.1 ∧ GoodL reg acc.2) _ _ _ hacc ?_
    intro acc s _ ha
    split
    · rename_i m hm
      exact registerMod_good (Fuel.byId_mem hm) acc ha
    · exact ha

theorem directAll_good (dict : Identity.Dict) (order : List Identity.DEntry) (vals0 : Identity.Vtx → List Identity.Vtx) :
    GoodL reg (Identity.directAll reg dict order vals0).2 := by
  unfold Identity.directAll
  refine foldl_inv (fun acc : (Identity.Vtx → List Identity.Vtx) × List Err => GoodL reg acc.2) _ _ _ goodL_nil ?_
  intro acc e _ hacc
  unfold Identity.directOne
  refine foldl_inv (fun acc : (Identity.Vtx → List Identity.Vtx) × List Err => GoodL reg acc.2) _ _ _ hacc ?_
  intro acc rb hrb ha
  split
  · rename_i err
    refine goodL_snoc ha ?_
    unfold Identity.resolvedBases at hrb
    split at hrb
    · rename_i root hroot
      simp only [List.mem_map] at hrb
      obtain ⟨b, _, hb⟩ := hrb
      exact findIdentityBase_good dict (Fuel.byId_mem hroot) _ err hb
    · simp at hrb
  · exact ha

theorem resolveIdentities_good (o : Identity.Oracle) (lk : Identity.Link) (vals0 : Identity.Vtx → List Identity.Vtx)
    (res : Identity.Result) (h : Identity.resolveIdentities o reg lk vals0 = some res) : GoodL reg res.errs := by
  unfold Identity.resolveIdentities at h
  split at h
  · cases h
  · rename_i dict errs1 hbd
    obtain ⟨hd, he1⟩ := buildDict_good o lk dict errs1 hbd
    dsimp only at h
    split at h
    · cases h
    · rename_i vals2 cyc _
      simp only [Option.some.injEq] at h
      subst h
      dsimp only
      refine goodL_append (goodL_append he1 (directAll_good dict _ vals0)) ?_
      intro x hx
      simp only [List.mem_filterMap, Option.map_eq_some_iff] at hx
      obtain ⟨v, _, e, he, rfl⟩ := hx
      exact good_free (hd e (List.mem_of_find?_eq_some he)) (by decide)

/-! ### the plug of the pipeline -/

/-- The layers plugged in by `plugFull` keep the discipline (finer form). -/
theorem plugFull_positionsA (reg : Registry) : PlugPositionsAt (NamesWP APred.P reg) reg (plugFull reg) := by
  refine ⟨?_, ?_, ?_⟩
  · intro root scope t hroot ht hkw hscope e he
    simp only [plugFull, resolveTypeE, List.mem_map] at he
    obtain ⟨e', he', rfl⟩ := he
    have := resolveTypeF_good (Types.Env.of reg) (Types.Env.of reg).fuel root scope t [] hroot ht hkw hscope e' he'
    exact normTypeErr_good this
  · intro e he
    simp only [plugFull] at he
    split at he
    · rename_i res _ hrun
      unfold Identity.run at hrun
      split at hrun
      · cases hrun
      · split at hrun
        · cases hrun
        · split at hrun
          · cases hrun
          · rename_i res' hres
            simp only [Identity.Outcome.done.injEq] at hrun
            obtain ⟨rfl, _⟩ := hrun
            exact resolveIdentities_good _ _ _ _ hres e he
    · simp at he
  · intro e he
    simp only [plugFull, List.mem_map] at he
    obtain ⟨e', he', rfl⟩ := he
    exact normTypeErr_good (resolveAllTypedefsE_good (Types.Env.of reg) e' he')

end

/-- For every extra condition `P` on the statement named by `augment-not-found`. -/
theorem plugFull_positionsWP (P : Stmt → Prop) (reg : Registry) :
    PlugPositionsAt (NamesWP P reg) reg (plugFull reg) :=
  @plugFull_positionsA ⟨P⟩ reg

theorem posAt_mono {K K' : String → Stmt → Prop} {reg : Registry} {e : Err} (hm : ∀ cls s, K cls s → K' cls s)
    (h : PosAt K reg e) : PosAt K' reg e := by
  intro hp
  obtain ⟨s, h1, h2, h3⟩ := h hp
  exact ⟨s, h1, h2, hm _ _ h3⟩

/-- The form without extra condition. -/
theorem plugFull_positionsW (reg : Registry) : PlugPositionsAt (NamesW reg) reg (plugFull reg) := by
  have h := plugFull_positionsWP (fun _ => True) reg
  exact ⟨fun root scope t h1 h2 h3 h4 e he => posAt_mono (fun _ _ => NamesWP.toW) (h.resolve root scope t h1 h2 h3 h4 e he),
    fun e he => posAt_mono (fun _ _ => NamesWP.toW) (h.identity e he),
    fun e he => posAt_mono (fun _ _ => NamesWP.toW) (h.typedefs e he)⟩

end Goyang.Lemmas.PositionsTypesWho
