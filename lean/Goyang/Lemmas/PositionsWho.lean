import Goyang.Spec.PositionsWho
import Goyang.Lemmas.Tree
import Goyang.Lemmas.FuelGrouping
import Goyang.Lemmas.PositionsSem
/-
Second traversal for the semantic half of C16 (Props/C16Sem.lean): WHICH statement the errors of
the resolver's own stages name (duplicate-key, duplicate-node, augment-not-found, the deviation
classes).  Same plan as Lemmas/PositionsSem.lean (whose text this file started from), with a
stronger invariant:

 * the `node` field of every entry IS a statement of a loaded module (not merely something at the
   position of one), so that the class / statement relation `K` can be asked of it;
 * `Sites reg K` gives each error site what is known there (the parent statement and the
   substatement that could not be added; the kind of statement whose children are merged; …);
 * the results of `toEntry` carry a `Shape`: the entry made from statement `n` has `n` itself as
   its source statement (and no children when `n` is a `uses` whose grouping was not found), or is
   a cached (sub)module entry, or the entry of the grouping a `uses` refers to;
 * the conversion state keeps: cached module entries come from `module` / `submodule` statements,
   cached grouping entries from `grouping` statements, pending augments from `augment` statements.
-/
set_option linter.unusedVariables false
set_option linter.unusedSimpArgs false
set_option linter.unusedSectionVars false
namespace Goyang.Lemmas.PositionsWho
open Goyang.Model Goyang.Spec.Positions Goyang.Spec.Tree Goyang.Lemmas.Tree

variable {K : String → Stmt → Prop}

/-- What the class / statement relation `K` must allow: the error sites of the resolver itself,
each with what is known of the statement at that place. -/
structure Sites (reg : Registry) (K : String → Stmt → Prop) : Prop where
  dupKey : ∀ n c kw, c ∈ n.all kw → kw ∈ keyKws → kw ∈ fieldOrder n.kw → K "duplicate-key" n
  dupNode : ∀ s, (s.kw = "grouping" ∨ ModAugment reg s ∨ IsModKw s.kw ∨ TopOf reg s) → K "duplicate-node" s
  tristate : ∀ n v, v ∈ n.subs → (v.kw = "config" ∨ v.kw = "mandatory") → v.arg ≠ "true" → v.arg ≠ "false" →
    K "bad-tristate" n
  orderedBy : ∀ s, s.kw = "ordered-by" → K "bad-ordered-by" s
  maxEl : ∀ s, s.kw = "max-elements" → K "bad-max-elements" s
  minEl : ∀ s, s.kw = "min-elements" → K "bad-min-elements" s
  unknownGroup : ∀ s, s.kw = "uses" → K "unknown-group" s
  cycle : ∀ s, K "cycle" s
  fuel : ∀ s, K "out-of-fuel" s
  include_ : ∀ s, s.kw = "include" → K "other" s
  devKind : ∀ s dv, s.kw = "deviation" → dv ∈ s.all "deviate" → deviateKinds.contains dv.arg = false →
    K "deviate-unknown-kind" s
  deviation : ∀ cls m dv ds, cls ∈ devStageClasses → m ∈ reg.mods → dv ∈ m.stmt.all "deviation" →
    ds ∈ dv.all "deviate" → ds.arg = devKindOf cls → K cls m.stmt

/-! ### statements of loaded modules -/

theorem within_all {n t c : Stmt} {kw : String} (h : Within n t) (hc : c ∈ n.all kw) : Within c t :=
  .sub h (List.mem_filter.mp hc).1

theorem within_one {n t c : Stmt} {kw : String} (h : Within n t) (hc : n.one? kw = some c) : Within c t :=
  .sub h (List.mem_of_find?_eq_some hc)

theorem within_trans {a b c : Stmt} (h1 : Within a b) (h2 : Within b c) : Within a c := by
  induction h1 with
  | top => exact h2
  | sub _ hc ih => exact .sub (ih h2) hc

theorem stmtOf_within {reg : Registry} {m : Mod} {s : Stmt} (hm : m ∈ reg.mods) (h : Within s m.stmt) : StmtOf reg s :=
  ⟨m, hm, h⟩

theorem stmtOf_sub {reg : Registry} {p c : Stmt} (h : StmtOf reg p) (hc : c ∈ p.subs) : StmtOf reg c := by
  obtain ⟨m, hm, hw⟩ := h
  exact ⟨m, hm, .sub hw hc⟩

theorem stmtOf_one {reg : Registry} {p c : Stmt} {kw : String} (h : StmtOf reg p) (hc : p.one? kw = some c) :
    StmtOf reg c := stmtOf_sub h (List.mem_of_find?_eq_some hc)

theorem stmtOf_all {reg : Registry} {p c : Stmt} {kw : String} (h : StmtOf reg p) (hc : c ∈ p.all kw) :
    StmtOf reg c := stmtOf_sub h (List.mem_filter.mp hc).1

/-! ### errors -/

theorem posOK_bare (reg : Registry) (cls : String) : PosAt K reg (Err.bare cls) := by
  intro h
  rcases h with h | h <;> exact absurd rfl h

theorem posOK_at {reg : Registry} {s : Stmt} (h : StmtOf reg s) (cls : String) (hk : K cls s) :
    PosAt K reg (Err.at_ s cls) :=
  fun _ => ⟨s, h, ⟨rfl, rfl, rfl⟩, hk⟩

/-- The finer form implies the coarse one. -/
theorem posOK_of_posAt {reg : Registry} {e : Err} (h : PosAt K reg e) : PosOK reg e := by
  intro hp
  obtain ⟨s, hs, ⟨h1, h2, h3⟩, _⟩ := h hp
  exact ⟨s, hs, h1.symm, h2.symm, h3.symm⟩

theorem posAt_true_of_posOK {reg : Registry} {e : Err} (h : PosOK reg e) : PosAt (fun _ _ => True) reg e := by
  intro hp
  obtain ⟨s, hs, h1, h2, h3⟩ := h hp
  exact ⟨s, hs, ⟨h1.symm, h2.symm, h3.symm⟩, trivial⟩

/-- What stands in the `node` field of an entry: a statement of a loaded module. -/
def NodeOK (reg : Registry) (s : Stmt) : Prop := StmtOf reg s

theorem nodeOK_of_stmtOf {reg : Registry} {s : Stmt} (h : StmtOf reg s) : NodeOK reg s := h

/-! ### the entry invariant -/

mutual
/-- `P` holds of the data of every node: the node itself, the `Dir` subtrees, rpc input and output. -/
def AllD (P : EData → Prop) : Entry → Prop
  | .mk d c i o => P d ∧ AllDL P c ∧ AllDL P i ∧ AllDL P o
def AllDL (P : EData → Prop) : List Entry → Prop
  | [] => True
  | e :: es => AllD P e ∧ AllDL P es
end

theorem allDL_iff (P : EData → Prop) (l : List Entry) : AllDL P l ↔ ∀ x ∈ l, AllD P x := by
  induction l with
  | nil => simp [AllDL]
  | cons a l ih => simp [AllDL, ih]

theorem allD_mk (P : EData → Prop) (d : EData) (c i o : List Entry) :
    AllD P (.mk d c i o) ↔ P d ∧ (∀ x ∈ c, AllD P x) ∧ (∀ x ∈ i, AllD P x) ∧ (∀ x ∈ o, AllD P x) := by
  simp [AllD, allDL_iff]

/-- The data of one node: its source statement is a statement of a loaded module (or has no
position) and each of its errors is bare or positioned at a statement of a loaded module. -/
def DOK (K : String → Stmt → Prop) (reg : Registry) (d : EData) : Prop :=
  NodeOK reg d.node ∧ ∀ x ∈ d.errors, PosAt K reg x

/-- Every error recorded anywhere in the tree is bare or positioned at a statement of a loaded
module, and so is every node's source statement. -/
def EntryOK (K : String → Stmt → Prop) (reg : Registry) (e : Entry) : Prop := AllD (DOK K reg) e

section Closure
variable {reg : Registry}

theorem entryOK_own {e : Entry} (h : EntryOK K reg e) : DOK K reg e.d := by
  cases e with | mk d c i o => exact ((allD_mk _ _ _ _ _).1 h).1

theorem entryOK_withD {e : Entry} (f : EData → EData) (hf : ∀ d, DOK K reg d → DOK K reg (f d)) (h : EntryOK K reg e) :
    EntryOK K reg (e.withD f) := by
  cases e with | mk d c i o =>
  unfold EntryOK at *
  simp only [Entry.withD]
  rw [allD_mk] at h ⊢
  exact ⟨hf d h.1, h.2⟩

/-- A change of the node's data that touches neither the source statement nor the errors. -/
theorem entryOK_withD_same {e : Entry} (f : EData → EData) (hn : ∀ d, (f d).node = d.node)
    (he : ∀ d, (f d).errors = d.errors) (h : EntryOK K reg e) : EntryOK K reg (e.withD f) :=
  entryOK_withD f (fun d hd => ⟨by rw [hn]; exact hd.1, by rw [he]; exact hd.2⟩) h

theorem entryOK_addErrs {e : Entry} {xs : List Err} (hx : ∀ x ∈ xs, PosAt K reg x) (h : EntryOK K reg e) :
    EntryOK K reg (e.addErrs xs) :=
  entryOK_withD _ (fun d hd => ⟨hd.1, fun x hxm => by
    rcases List.mem_append.mp hxm with hxm | hxm
    · exact hd.2 x hxm
    · exact hx x hxm⟩) h

theorem entryOK_addErr {e : Entry} {x : Err} (hx : PosAt K reg x) (h : EntryOK K reg e) : EntryOK K reg (e.addErr x) :=
  entryOK_withD _ (fun d hd => ⟨hd.1, fun y hy => by
    rcases List.mem_append.mp hy with hy | hy
    · exact hd.2 y hy
    · simp only [List.mem_singleton] at hy; subst hy; exact hx⟩) h

theorem mem_allErrorsL (l : List Entry) (x : Err) : x ∈ Entry.allErrorsL l ↔ ∃ e ∈ l, x ∈ e.allErrors := by
  induction l with
  | nil => simp [Entry.allErrorsL]
  | cons a l ih => simp [Entry.allErrorsL, ih]

/-- Everything the error sweep collects from a good tree is good. -/
theorem allErrors_ok (e : Entry) : EntryOK K reg e → ∀ x ∈ e.allErrors, PosAt K reg x := by
  induction e using entry_ind with
  | h d c i o hc hi ho =>
    intro h x hx
    unfold EntryOK at h
    rw [allD_mk] at h
    simp only [Entry.allErrors, List.mem_append, mem_allErrorsL] at hx
    rcases hx with ((⟨y, hy, hxy⟩ | ⟨y, hy, hxy⟩) | ⟨y, hy, hxy⟩) | hx
    · exact hc y hy (h.2.1 y hy) x hxy
    · exact hi y hy (h.2.2.1 y hy) x hxy
    · exact ho y hy (h.2.2.2 y hy) x hxy
    · exact h.1.2 x hx

theorem allErrorsL_ok (l : List Entry) (h : ∀ y ∈ l, EntryOK K reg y) : ∀ x ∈ Entry.allErrorsL l, PosAt K reg x := by
  intro x hx
  obtain ⟨y, hy, hxy⟩ := (mem_allErrorsL _ _).1 hx
  exact allErrors_ok y (h y hy) x hxy

theorem entryOK_importErrors {e c : Entry} (h : EntryOK K reg e) (hc : EntryOK K reg c) :
    EntryOK K reg (e.importErrors c) := by
  unfold Entry.importErrors
  refine entryOK_addErrs ?_ h
  cases c with | mk d cc ci co =>
  have hc' := hc
  unfold EntryOK at hc'
  rw [allD_mk] at hc'
  intro x hx
  simp only [Entry.d, Entry.dir, Entry.inp, Entry.out, List.mem_append] at hx
  rcases hx with ((hx | hx) | hx) | hx
  · exact hc'.1.2 x hx
  · exact allErrorsL_ok _ hc'.2.1 x hx
  · exact allErrorsL_ok _ hc'.2.2.1 x hx
  · exact allErrorsL_ok _ hc'.2.2.2 x hx

theorem entryOK_append {e v : Entry} (h : EntryOK K reg e) (hv : EntryOK K reg v) :
    EntryOK K reg (e.withDir (e.dir ++ [v])) := by
  cases e with | mk d c i o =>
  unfold EntryOK at *
  simp only [Entry.withDir, Entry.dir]
  rw [allD_mk] at h ⊢
  refine ⟨h.1, ?_, h.2.2⟩
  intro x hx
  rcases List.mem_append.mp hx with hx | hx
  · exact h.2.1 x hx
  · simp only [List.mem_singleton] at hx; subst hx; exact hv

theorem entryOK_add {e v : Entry} (k : String) (hk : K "duplicate-key" e.d.node) (h : EntryOK K reg e)
    (hv : EntryOK K reg v) : EntryOK K reg (e.add k v) := by
  unfold Entry.add
  split
  · exact entryOK_addErr (posOK_at (entryOK_own h).1 _ hk) h
  · exact entryOK_append h hv

theorem entryOK_dir {e x : Entry} (h : EntryOK K reg e) (hx : x ∈ e.dir) : EntryOK K reg x := by
  cases e with | mk d c i o =>
  unfold EntryOK at h
  rw [allD_mk] at h
  exact h.2.1 x hx

theorem entryOK_merge {e oe : Entry} (ns : Option String) (hk : oe.dir = [] ∨ K "duplicate-node" oe.d.node)
    (h : EntryOK K reg e) (ho : EntryOK K reg oe) : EntryOK K reg (e.merge ns oe) := by
  unfold Entry.merge
  refine foldl_inv (EntryOK K reg) _ _ _ (entryOK_importErrors h ho) ?_
  intro b v hv hb
  dsimp only
  have hv0 : EntryOK K reg v := entryOK_dir ho hv
  have hk' : K "duplicate-node" oe.d.node := by
    rcases hk with hk | hk
    · rw [hk] at hv; cases hv
    · exact hk
  split
  · exact entryOK_addErr (posOK_at (entryOK_own ho).1 _ hk') hb
  · refine entryOK_append hb ?_
    split
    · exact entryOK_withD_same _ (fun d => rfl) (fun d => rfl) hv0
    · exact hv0

/-! ### the source statement of the entry under construction is kept -/

/-- The source statement of the node is kept. -/
def NodeKeep (a b : Entry) : Prop := b.d.node = a.d.node

theorem NodeKeep.refl (a : Entry) : NodeKeep a a := rfl
theorem NodeKeep.trans {a b c : Entry} (h1 : NodeKeep a b) (h2 : NodeKeep b c) : NodeKeep a c :=
  Eq.trans h2 h1

theorem nodeKeep_withD (e : Entry) (f : EData → EData) (hf : ∀ d, (f d).node = d.node) : NodeKeep e (e.withD f) := by
  cases e with | mk d c i o => exact hf d

theorem nodeKeep_addErr (e : Entry) (x : Err) : NodeKeep e (e.addErr x) := nodeKeep_withD _ _ (fun d => rfl)
theorem nodeKeep_addErrs (e : Entry) (xs : List Err) : NodeKeep e (e.addErrs xs) := nodeKeep_withD _ _ (fun d => rfl)
theorem nodeKeep_importErrors (e c : Entry) : NodeKeep e (e.importErrors c) := nodeKeep_addErrs _ _
theorem nodeKeep_withDir (e : Entry) (c : List Entry) : NodeKeep e (e.withDir c) := by
  cases e with | mk d c i o => rfl

theorem nodeKeep_add (e : Entry) (k : String) (v : Entry) : NodeKeep e (e.add k v) := by
  unfold Entry.add; split
  · exact nodeKeep_addErr _ _
  · exact nodeKeep_withDir _ _

theorem nodeKeep_merge (e : Entry) (ns : Option String) (oe : Entry) : NodeKeep e (e.merge ns oe) := by
  unfold Entry.merge
  refine foldl_inv (fun x => NodeKeep e x) _ _ _ (nodeKeep_importErrors _ _) ?_
  intro b a _ hb
  dsimp only
  split
  · exact hb.trans (nodeKeep_addErr _ _)
  · exact hb.trans (nodeKeep_withDir _ _)

theorem nodeKeep_foldl {α} (g : Entry × TState → α → Entry × TState) (l : List α) (acc : Entry × TState)
    (h : ∀ acc a, NodeKeep acc.1 (g acc a).1) : NodeKeep acc.1 (l.foldl g acc).1 :=
  foldl_inv (fun x => NodeKeep acc.1 x.1) g l acc (NodeKeep.refl _) (fun b a _ hb => hb.trans (h b a))

theorem nodeKeep_withD_addErrs (e : Entry) (f : EData → EData) (xs : List Err)
    (hf : ∀ d, (f d).node = d.node) : NodeKeep e ((e.withD f).addErrs xs) :=
  (nodeKeep_withD e f hf).trans (nodeKeep_addErrs _ _)

theorem nodeKeep_withD2_addErrs (e : Entry) (f g : EData → EData) (xs : List Err)
    (hf : ∀ d, (f d).node = d.node) (hg : ∀ d, (g d).node = d.node) :
    NodeKeep e (((e.withD f).withD g).addErrs xs) :=
  (nodeKeep_withD e f hf).trans ((nodeKeep_withD _ g hg).trans (nodeKeep_addErrs _ _))

theorem nodeKeep_stepFn (env : Env) (rec : Rec) (root : Mod) (n : Stmt) (sub : List Stmt) (visiting : List NodeId)
    (isMod : Bool) (acc : Entry × TState) (f : String) :
    NodeKeep acc.1 (stepFn env rec root n sub visiting isMod acc f).1 := by
  obtain ⟨e, st⟩ := acc
  unfold stepFn
  dsimp only
  split
  all_goals try dsimp only
  all_goals first
    | exact NodeKeep.refl _
    | exact nodeKeep_withD_addErrs _ _ _ (fun d => rfl)
    | (unfold addAllFn; refine nodeKeep_foldl _ _ (e, st) ?_; intro acc a; exact nodeKeep_add _ _ _)
    | (refine nodeKeep_foldl _ _ (e, st) ?_; intro acc a; try dsimp only
       first
         | exact nodeKeep_add _ _ _
         | exact nodeKeep_importErrors _ _
         | exact nodeKeep_merge _ _ _
         | (split <;> first | exact nodeKeep_importErrors _ _ | exact (nodeKeep_importErrors _ _).trans (nodeKeep_addErr _ _))
         | (repeat' split
            all_goals try dsimp only
            all_goals first
              | exact NodeKeep.refl _
              | exact nodeKeep_addErr _ _
              | exact nodeKeep_merge _ _ _))
    | (repeat' split
       all_goals try dsimp only
       all_goals first
         | exact NodeKeep.refl _
         | exact nodeKeep_addErr _ _
         | exact nodeKeep_withD _ _ (fun d => rfl)
         | exact nodeKeep_withD2_addErrs _ _ _ _ (fun d => rfl) (fun d => rfl)
         | (cases e; rfl)
         | rfl)

theorem nodeKeep_fold_steps (env : Env) (rec : Rec) (root : Mod) (n : Stmt) (sub : List Stmt) (visiting : List NodeId)
    (isMod : Bool) (l : List String) (acc : Entry × TState) :
    NodeKeep acc.1 (l.foldl (stepFn env rec root n sub visiting isMod) acc).1 :=
  nodeKeep_foldl _ _ _ (fun acc f => nodeKeep_stepFn env rec root n sub visiting isMod acc f)

end Closure

/-! ### the error sites of the entry layer -/

section Sites
variable {reg : Registry}

/-- A tristate error stands at the node being converted, and the value statement is neither
`true` nor `false`. -/
theorem tristate_errs (n : Stmt) (v : Option Stmt) : ∀ x ∈ (tristate n v).2,
    x = Err.at_ n "bad-tristate" ∧ ∃ v', v = some v' ∧ v'.arg ≠ "true" ∧ v'.arg ≠ "false" := by
  intro x hx
  unfold tristate at hx
  split at hx
  · simp at hx
  · rename_i v'
    split at hx
    · simp at hx
    · rename_i h1
      split at hx
      · simp at hx
      · rename_i h2
        exact ⟨by simpa using hx, v', rfl, by simpa using h1, by simpa using h2⟩

theorem tristate_ok (hK : Sites reg K) {n : Stmt} (hn : StmtOf reg n) (kw : String) (hkw : kw = "config" ∨ kw = "mandatory") :
    ∀ x ∈ (tristate n (n.one? kw)).2, PosAt K reg x := by
  intro x hx
  obtain ⟨rfl, v', hv', h1, h2⟩ := tristate_errs n _ x hx
  refine posOK_at hn _ (hK.tristate n v' (List.mem_of_find?_eq_some hv') ?_ h1 h2)
  rw [one?_kw n kw v' hv']; exact hkw

theorem semMax_errs (v : Stmt) : ∀ x ∈ (semMax (some v)).2, x = Err.at_ v "bad-max-elements" := by
  intro x hx
  unfold semMax at hx
  dsimp only at hx
  repeat' split at hx
  all_goals simp at hx
  all_goals exact hx

theorem semMin_errs (v : Stmt) : ∀ x ∈ (semMin (some v)).2, x = Err.at_ v "bad-min-elements" := by
  intro x hx
  unfold semMin at hx
  dsimp only at hx
  repeat' split at hx
  all_goals simp at hx
  all_goals exact hx

theorem semMax_ok (hK : Sites reg K) {v : Stmt} (hv : StmtOf reg v) (hkw : v.kw = "max-elements") :
    ∀ x ∈ (semMax (some v)).2, PosAt K reg x := by
  intro x hx; rw [semMax_errs v x hx]; exact posOK_at hv _ (hK.maxEl v hkw)

theorem semMin_ok (hK : Sites reg K) {v : Stmt} (hv : StmtOf reg v) (hkw : v.kw = "min-elements") :
    ∀ x ∈ (semMin (some v)).2, PosAt K reg x := by
  intro x hx; rw [semMin_errs v x hx]; exact posOK_at hv _ (hK.minEl v hkw)

theorem semMax_none : (semMax none).2 = [] := rfl
theorem semMin_none : (semMin none).2 = [] := rfl

/-- The errors of the list attributes are positioned at the `ordered-by`, `max-elements` or
`min-elements` substatement they are about. -/
theorem listAttrOf_errs (s : Stmt) : ∀ x ∈ (listAttrOf s).2,
    (∃ o, s.one? "ordered-by" = some o ∧ x = Err.at_ o "bad-ordered-by") ∨
    (∃ v, s.one? "max-elements" = some v ∧ x = Err.at_ v "bad-max-elements") ∨
    (∃ v, s.one? "min-elements" = some v ∧ x = Err.at_ v "bad-min-elements") := by
  intro x hx
  unfold listAttrOf at hx
  dsimp only at hx
  simp only [List.mem_append] at hx
  rcases hx with (hx | hx) | hx
  · left
    split at hx
    · simp at hx
    · rename_i o ho
      split at hx
      · simp at hx
      · split at hx
        · simp at hx
        · exact ⟨o, ho, by simpa using hx⟩
  · right; left
    cases hv : s.one? "max-elements" with
    | none => rw [hv, semMax_none] at hx; simp at hx
    | some v => rw [hv] at hx; exact ⟨v, rfl, semMax_errs v x hx⟩
  · right; right
    cases hv : s.one? "min-elements" with
    | none => rw [hv, semMin_none] at hx; simp at hx
    | some v => rw [hv] at hx; exact ⟨v, rfl, semMin_errs v x hx⟩

theorem listAttrOf_ok (hK : Sites reg K) {s : Stmt} (hs : StmtOf reg s) : ∀ x ∈ (listAttrOf s).2, PosAt K reg x := by
  intro x hx
  rcases listAttrOf_errs s x hx with ⟨o, ho, rfl⟩ | ⟨o, ho, rfl⟩ | ⟨o, ho, rfl⟩
  · exact posOK_at (stmtOf_one hs ho) _ (hK.orderedBy o (one?_kw s _ o ho))
  · exact posOK_at (stmtOf_one hs ho) _ (hK.maxEl o (one?_kw s _ o ho))
  · exact posOK_at (stmtOf_one hs ho) _ (hK.minEl o (one?_kw s _ o ho))

theorem entryOK_errorEntry {root : Mod} {n : Stmt} (hn : StmtOf reg n) (cls : String) (hk : K cls n) :
    EntryOK K reg (errorEntry root n cls) := by
  unfold EntryOK errorEntry
  rw [allD_mk]
  refine ⟨⟨nodeOK_of_stmtOf hn, ?_⟩, by simp, by simp, by simp⟩
  intro x hx
  simp only [List.mem_singleton] at hx
  subst hx
  exact posOK_at hn _ hk

theorem entryOK_e0 (hK : Sites reg K) {root : Mod} {n : Stmt} (hn : StmtOf reg n) : EntryOK K reg (e0 root n) := by
  unfold EntryOK e0
  rw [allD_mk]
  refine ⟨⟨?_, ?_⟩, by simp, by simp, by simp⟩
  · have : (baseData root n).1.node = n := by
      unfold baseData; dsimp only; split
      · rfl
      · split <;> rfl
    dsimp only
    rw [this]
    exact nodeOK_of_stmtOf hn
  · dsimp only
    unfold baseData
    dsimp only
    split
    · exact listAttrOf_ok hK hn
    · split <;> simp

end Sites

/-! ### the traversal of `toEntry` -/

/-- The type resolver of the environment keeps the position discipline. -/
def TresOK (K : String → Stmt → Prop) (env : Env) : Prop :=
  ∀ root scope t, root ∈ env.reg.mods → Within t root.stmt → t.kw = "type" → (∀ s ∈ scope, Within s root.stmt) →
    ∀ e ∈ (env.tres.resolve env.reg root scope t).2, PosAt K env.reg e

/-- `toEntry` is called on a statement `n` (with ancestors `scope`) of the loaded module `root`. -/
structure GoodCall (reg : Registry) (root : Mod) (scope : List Stmt) (n : Stmt) : Prop where
  mem : root ∈ reg.mods
  within : Within n root.stmt
  anc : ∀ s ∈ scope, Within s root.stmt

theorem GoodCall.stmtOf {reg : Registry} {root : Mod} {scope : List Stmt} {n : Stmt} (h : GoodCall reg root scope n) :
    StmtOf reg n := ⟨root, h.mem, h.within⟩

/-- The ancestors handed to the children of `n`. -/
theorem GoodCall.sub {reg : Registry} {root : Mod} {scope : List Stmt} {n : Stmt} (h : GoodCall reg root scope n) :
    ∀ s ∈ n :: scope, Within s root.stmt := by
  intro s hs
  rcases List.mem_cons.mp hs with hs | hs
  · subst hs; exact h.within
  · exact h.anc s hs

/-- Everything held in the conversion state is good; cached module entries come from `module` /
`submodule` statements, cached grouping entries from `grouping` statements, pending augments from
`augment` statements. -/
structure StOK (K : String → Stmt → Prop) (reg : Registry) (st : TState) : Prop where
  cache : ∀ p ∈ st.cache, EntryOK K reg p.2
  gcache : ∀ p ∈ st.gcache, EntryOK K reg p.2
  augs : ∀ p ∈ st.augs, ∀ a ∈ p.2, EntryOK K reg a
  cacheKw : ∀ p ∈ st.cache, IsModKw p.2.d.node.kw
  gcacheKw : ∀ p ∈ st.gcache, p.2.d.node.kw = "grouping"
  augsKw : ∀ p ∈ st.augs, ∀ a ∈ p.2, ModAugment reg a.d.node

theorem stOK_empty (reg : Registry) : StOK K reg {} := ⟨by simp, by simp, by simp, by simp, by simp, by simp⟩

/-- What the entry made from statement `n` looks like at its root: its source statement is `n`
(and it has no children when `n` is a `uses`: the grouping was not found), or it is a cached
(sub)module entry, or it is the entry of the grouping a `uses` refers to (or a cached grouping entry). -/
def ResShape (n : Stmt) (e : Entry) : Prop :=
  (e.d.node = n ∧ (n.kw = "uses" → e.dir = [])) ∨
  (IsModKw n.kw ∧ IsModKw e.d.node.kw) ∨
  ((n.kw = "uses" ∨ n.kw = "grouping") ∧ e.d.node.kw = "grouping")

/-- What the induction hypothesis gives for the recursive calls. -/
def RecOK (K : String → Stmt → Prop) (reg : Registry) (rec : Rec) : Prop :=
  ∀ root scope n visiting st, GoodCall reg root scope n → StOK K reg st →
    EntryOK K reg (rec root scope n visiting st).1 ∧ StOK K reg (rec root scope n visiting st).2 ∧
      ResShape n (rec root scope n visiting st).1

def AccOK (K : String → Stmt → Prop) (reg : Registry) (acc : Entry × TState) : Prop :=
  EntryOK K reg acc.1 ∧ StOK K reg acc.2

theorem includeTarget_mem {env : Env} {root im : Mod} {a : Stmt} (h : env.includeTarget root a = some im) :
    im ∈ env.reg.mods := by
  unfold Env.includeTarget at h
  split at h
  · exact Fuel.findModule_mem h
  · cases h

theorem entryOK_leafEntry {env : Env} (hK : Sites env.reg K) (ht : TresOK K env) {root : Mod} {scope : List Stmt} {n : Stmt}
    (hg : GoodCall env.reg root scope n) (syn : Bool) : EntryOK K env.reg (leafEntry env root scope n syn) := by
  unfold EntryOK leafEntry
  dsimp only
  rw [allD_mk]
  refine ⟨⟨nodeOK_of_stmtOf hg.stmtOf, ?_⟩, by simp, by simp, by simp⟩
  intro x hx
  dsimp only at hx
  simp only [List.mem_append] at hx
  rcases hx with (hx | hx) | hx
  · split at hx
    · rename_i t htt
      exact ht root (n :: scope) t hg.mem (within_one hg.within htt) (one?_kw n _ t htt) hg.sub x hx
    · simp at hx
  · exact tristate_ok hK hg.stmtOf _ (Or.inl rfl) x hx
  · split at hx
    · simp at hx
    · exact tristate_ok hK hg.stmtOf _ (Or.inr rfl) x hx

section Step
variable {env : Env} (hK : Sites env.reg K) (ht : TresOK K env) {rec : Rec} (hrec : RecOK K env.reg rec)
  (root : Mod) (n : Stmt) (sub : List Stmt) (visiting : List NodeId)
  (hroot : root ∈ env.reg.mods) (hn : Within n root.stmt) (hsub : ∀ s ∈ sub, Within s root.stmt)
include hK hrec hroot hn hsub

theorem addFold_ok (kw : String) (hkw : kw ∈ keyKws) (hfo : kw ∈ fieldOrder n.kw) (acc : Entry × TState) (hnode : acc.1.d.node = n)
    (h : AccOK K env.reg acc) :
    AccOK K env.reg ((n.all kw).foldl (fun (acc : Entry × TState) c =>
      (acc.1.add c.arg (rec root sub c visiting acc.2).1, (rec root sub c visiting acc.2).2)) acc) := by
  refine (foldl_inv (fun acc : Entry × TState => AccOK K env.reg acc ∧ acc.1.d.node = n) _ _ _ ⟨h, hnode⟩ ?_).1
  rintro ⟨e, st⟩ c hc ⟨⟨he, hst⟩, hnd⟩
  obtain ⟨r1, r2, _⟩ := hrec root sub c visiting st ⟨hroot, within_all hn hc, hsub⟩ hst
  dsimp only at hnd
  exact ⟨⟨entryOK_add _ (by rw [hnd]; exact hK.dupKey n c kw hc hkw hfo) he r1, r2⟩, Eq.trans (nodeKeep_add _ _ _) hnd⟩

theorem rpcFold_ok (kw : String) (hkw : kw ∈ keyKws) (hfo : kw ∈ fieldOrder n.kw) (acc : Entry × TState) (hnode : acc.1.d.node = n)
    (h : AccOK K env.reg acc) :
    AccOK K env.reg ((n.all kw).foldl (fun (acc : Entry × TState) c =>
      (acc.1.add c.arg ((rec root sub c visiting acc.2).1.withD fun d => { d with isRpc := true }),
        (rec root sub c visiting acc.2).2)) acc) := by
  refine (foldl_inv (fun acc : Entry × TState => AccOK K env.reg acc ∧ acc.1.d.node = n) _ _ _ ⟨h, hnode⟩ ?_).1
  rintro ⟨e, st⟩ c hc ⟨⟨he, hst⟩, hnd⟩
  obtain ⟨r1, r2, _⟩ := hrec root sub c visiting st ⟨hroot, within_all hn hc, hsub⟩ hst
  dsimp only at hnd
  exact ⟨⟨entryOK_add _ (by rw [hnd]; exact hK.dupKey n c kw hc hkw hfo) he
    (entryOK_withD_same _ (fun d => rfl) (fun d => rfl) r1), r2⟩, Eq.trans (nodeKeep_add _ _ _) hnd⟩

theorem importFold_ok (kw : String) (acc : Entry × TState) (h : AccOK K env.reg acc) :
    AccOK K env.reg ((n.all kw).foldl (fun (acc : Entry × TState) g =>
      (acc.1.importErrors (rec root sub g visiting acc.2).1, (rec root sub g visiting acc.2).2)) acc) := by
  refine foldl_inv (AccOK K env.reg) _ _ _ h ?_
  rintro ⟨e, st⟩ c hc ⟨he, hst⟩
  obtain ⟨r1, r2, _⟩ := hrec root sub c visiting st ⟨hroot, within_all hn hc, hsub⟩ hst
  exact ⟨entryOK_importErrors he r1, r2⟩

theorem deviateFold_ok (hdev : n.kw = "deviation") (acc : Entry × TState) (h : AccOK K env.reg acc) :
    AccOK K env.reg ((n.all "deviate").foldl (fun (acc : Entry × TState) dv =>
      (if deviateKinds.contains dv.arg = true then acc.1.importErrors (rec root sub dv visiting acc.2).1
        else (acc.1.importErrors (rec root sub dv visiting acc.2).1).addErr (Err.at_ n "deviate-unknown-kind"),
       (rec root sub dv visiting acc.2).2)) acc) := by
  refine foldl_inv (AccOK K env.reg) _ _ _ h ?_
  rintro ⟨e, st⟩ c hc ⟨he, hst⟩
  obtain ⟨r1, r2, _⟩ := hrec root sub c visiting st ⟨hroot, within_all hn hc, hsub⟩ hst
  refine ⟨?_, r2⟩
  dsimp only
  split
  · exact entryOK_importErrors he r1
  · rename_i hkind
    exact entryOK_addErr (posOK_at ⟨root, hroot, hn⟩ _ (hK.devKind n c hdev hc (by simpa using hkind)))
      (entryOK_importErrors he r1)

theorem usesFold_ok (acc : Entry × TState) (h : AccOK K env.reg acc) :
    AccOK K env.reg ((n.all "uses").foldl (fun (acc : Entry × TState) u =>
      (acc.1.merge none (rec root sub u visiting acc.2).1, (rec root sub u visiting acc.2).2)) acc) := by
  refine foldl_inv (AccOK K env.reg) _ _ _ h ?_
  rintro ⟨e, st⟩ c hc ⟨he, hst⟩
  obtain ⟨r1, r2, r3⟩ := hrec root sub c visiting st ⟨hroot, within_all hn hc, hsub⟩ hst
  have hu : c.kw = "uses" := mem_all_kw n _ c hc
  refine ⟨entryOK_merge none ?_ he r1, r2⟩
  rcases r3 with ⟨_, h2⟩ | ⟨h1, _⟩ | ⟨_, h2⟩
  · exact Or.inl (h2 hu)
  · rcases h1 with h1 | h1 <;> (rw [hu] at h1; exact absurd h1 (by decide))
  · exact Or.inr (hK.dupNode _ (Or.inl h2))

omit hK hrec hroot hn hsub in
theorem stOK_merged (st : TState) (m : List String) (h : StOK K env.reg st) : StOK K env.reg { st with merged := m } :=
  ⟨h.cache, h.gcache, h.augs, h.cacheKw, h.gcacheKw, h.augsKw⟩

theorem includeFold_ok (acc : Entry × TState) (h : AccOK K env.reg acc) :
    AccOK K env.reg ((n.all "include").foldl (fun (acc : Entry × TState) a =>
      match env.includeTarget root a with
      | none => (acc.1.addErr (Err.at_ a "other"), acc.2)
      | some im =>
        if acc.2.merged.contains (im.name ++ ":" ++ n.arg) = true then (acc.1, acc.2)
        else if (!acc.2.merged.contains (n.arg ++ ":" ++ im.name) && im.name != n.arg) = true then
          if acc.2.merged.contains (im.name ++ ":" ++ (im.belongsTo?.getD "")) = true then (acc.1, acc.2)
          else
            (acc.1.merge none (rec im [] im.stmt visiting
                { acc.2 with merged := acc.2.merged ++ [im.name ++ ":" ++ n.arg, im.name ++ ":" ++ (im.belongsTo?.getD "")] }).1,
             (rec im [] im.stmt visiting
                { acc.2 with merged := acc.2.merged ++ [im.name ++ ":" ++ n.arg, im.name ++ ":" ++ (im.belongsTo?.getD "")] }).2)
        else if env.opts.ignoreCircular = true then (acc.1, acc.2)
        else (acc.1.addErr (Err.bare "cycle"), acc.2)) acc) := by
  refine foldl_inv (AccOK K env.reg) _ _ _ h ?_
  rintro ⟨e, st⟩ a ha ⟨he, hst⟩
  dsimp only
  split
  · exact ⟨entryOK_addErr (posOK_at ⟨root, hroot, within_all hn ha⟩ _ (hK.include_ a (mem_all_kw n _ a ha))) he, hst⟩
  · rename_i im him
    have himm : im ∈ env.reg.mods := includeTarget_mem him
    repeat' split
    all_goals first
      | exact ⟨he, hst⟩
      | exact ⟨entryOK_addErr (posOK_bare _ _) he, hst⟩
      | (obtain ⟨r1, r2, r3⟩ := hrec im [] im.stmt visiting _ ⟨himm, .top _, by simp⟩ (stOK_merged st _ hst)
         refine ⟨entryOK_merge none (Or.inr (hK.dupNode _ ?_)) he r1, r2⟩
         rcases r3 with ⟨h1, _⟩ | ⟨_, h2⟩ | ⟨_, h2⟩
         · exact Or.inr (Or.inr (Or.inr ⟨im, himm, h1⟩))
         · exact Or.inr (Or.inr (Or.inl h2))
         · exact Or.inl h2)

theorem augFold_ok (hmodn : IsModKw n.kw) (st : TState) (h : StOK K env.reg st) :
    (∀ a ∈ ((n.all "augment").foldl (fun (acc : List Entry × TState) a =>
      (acc.1 ++ [(rec root sub a visiting acc.2).1], (rec root sub a visiting acc.2).2)) ([], st)).1,
        EntryOK K env.reg a ∧ ModAugment env.reg a.d.node) ∧
    StOK K env.reg ((n.all "augment").foldl (fun (acc : List Entry × TState) a =>
      (acc.1 ++ [(rec root sub a visiting acc.2).1], (rec root sub a visiting acc.2).2)) ([], st)).2 := by
  refine foldl_inv (fun acc : List Entry × TState =>
    (∀ a ∈ acc.1, EntryOK K env.reg a ∧ ModAugment env.reg a.d.node) ∧ StOK K env.reg acc.2) _ _ _
    ⟨by simp, h⟩ ?_
  rintro ⟨as, st⟩ a ha ⟨has, hst⟩
  obtain ⟨r1, r2, r3⟩ := hrec root sub a visiting st ⟨hroot, within_all hn ha, hsub⟩ hst
  have hkw : a.kw = "augment" := mem_all_kw n _ a ha
  refine ⟨?_, r2⟩
  intro x hx
  rcases List.mem_append.mp hx with hx | hx
  · exact has x hx
  · simp only [List.mem_singleton] at hx; subst hx
    refine ⟨r1, ?_⟩
    rcases r3 with ⟨h1, _⟩ | ⟨h1, _⟩ | ⟨h1, _⟩
    · rw [h1]; exact ⟨hkw, n, ⟨root, hroot, hn⟩, hmodn, (List.mem_filter.mp ha).1⟩
    · rcases h1 with h1 | h1 <;> (rw [hkw] at h1; exact absurd h1 (by decide))
    · rcases h1 with h1 | h1 <;> (rw [hkw] at h1; exact absurd h1 (by decide))

omit hK hrec hroot hn hsub in
theorem fieldOrder_deviate {kw : String} (h : "deviate" ∈ fieldOrder kw) : kw = "deviation" := by
  unfold fieldOrder at h
  split at h <;> first | rfl | simp at h

theorem stepFn_ok (isMod : Bool) (hmod : isMod = true → IsModKw n.kw) (acc : Entry × TState) (f : String)
    (hf : f ∈ fieldOrder n.kw) (hnode : acc.1.d.node = n) (h : AccOK K env.reg acc) :
    AccOK K env.reg (stepFn env rec root n sub visiting isMod acc f) := by
  obtain ⟨e, st⟩ := acc
  obtain ⟨he, hst⟩ := h
  dsimp only at he hst hnode
  have hsn : StmtOf env.reg n := ⟨root, hroot, hn⟩
  have hsame : ∀ (x : Entry) (g : EData → EData), (∀ d, (g d).node = d.node) → (∀ d, (g d).errors = d.errors) →
      EntryOK K env.reg x → EntryOK K env.reg (x.withD g) := fun x g h1 h2 hx => entryOK_withD_same g h1 h2 hx
  unfold stepFn
  dsimp only
  split
  all_goals try dsimp only
  all_goals first
    | exact ⟨he, hst⟩
    | exact ⟨entryOK_addErrs (tristate_ok hK hsn _ (Or.inl rfl)) (hsame _ _ (fun d => rfl) (fun d => rfl) he), hst⟩
    | exact ⟨entryOK_addErrs (tristate_ok hK hsn _ (Or.inr rfl)) (hsame _ _ (fun d => rfl) (fun d => rfl) he), hst⟩
    | (refine ⟨?_, hst⟩; split
       · exact hsame _ _ (fun d => rfl) (fun d => rfl) he
       · exact he)
    | exact addFold_ok hK hrec root n sub visiting hroot hn hsub _ (by decide) hf (e, st) hnode ⟨he, hst⟩
    | exact rpcFold_ok hK hrec root n sub visiting hroot hn hsub _ (by decide) hf (e, st) hnode ⟨he, hst⟩
    | exact importFold_ok hK hrec root n sub visiting hroot hn hsub _ (e, st) ⟨he, hst⟩
    | exact usesFold_ok hK hrec root n sub visiting hroot hn hsub (e, st) ⟨he, hst⟩
    | exact includeFold_ok hK hrec root n sub visiting hroot hn hsub (e, st) ⟨he, hst⟩
    | exact deviateFold_ok hK hrec root n sub visiting hroot hn hsub (fieldOrder_deviate hf) (e, st) ⟨he, hst⟩
    | skip
  case h_18 =>
    split
    · exact ⟨he, hst⟩
    · rename_i i hi
      obtain ⟨r1, r2, _⟩ := hrec root sub i visiting st ⟨hroot, within_one hn hi, hsub⟩ hst
      refine ⟨?_, r2⟩
      cases e with | mk d c i' o' =>
      have he' := he
      unfold EntryOK at he' ⊢
      rw [allD_mk] at he' ⊢
      refine ⟨he'.1, he'.2.1, ?_, he'.2.2.2⟩
      intro x hx
      simp only [List.mem_singleton] at hx
      subst hx
      exact hsame _ _ (fun d => rfl) (fun d => rfl) r1
  case h_19 =>
    split
    · exact ⟨he, hst⟩
    · rename_i o ho
      obtain ⟨r1, r2, _⟩ := hrec root sub o visiting st ⟨hroot, within_one hn ho, hsub⟩ hst
      refine ⟨?_, r2⟩
      cases e with | mk d c i' o' =>
      have he' := he
      unfold EntryOK at he' ⊢
      rw [allD_mk] at he' ⊢
      refine ⟨he'.1, he'.2.1, he'.2.2.1, ?_⟩
      intro x hx
      simp only [List.mem_singleton] at hx
      subst hx
      exact hsame _ _ (fun d => rfl) (fun d => rfl) r1
  case h_23 =>
    split
    · exact ⟨he, hst⟩
    · split
      · exact ⟨hsame _ _ (fun d => rfl) (fun d => rfl) he, hst⟩
      · exact ⟨entryOK_addErr (posOK_bare _ _) he, hst⟩
  case h_24 =>
    split
    · refine ⟨?_, hst⟩
      split
      · exact hsame _ _ (fun d => rfl) (fun d => rfl) he
      · exact he
    · exact ⟨he, hst⟩
  case h_26 =>
    split
    · exact ⟨he, hst⟩
    · refine ⟨?_, hst⟩
      have h1 := hsame e (fun d => { d with listAttr := some (d.listAttr.getD {}) }) (fun d => rfl) (fun d => rfl) he
      split
      · exact h1
      · rename_i v hv
        exact entryOK_addErrs (semMax_ok hK (stmtOf_one hsn hv) (one?_kw n _ v hv)) (hsame _ _ (fun d => rfl) (fun d => rfl) h1)
  case h_27 =>
    split
    · exact ⟨he, hst⟩
    · refine ⟨?_, hst⟩
      have h1 := hsame e (fun d => { d with listAttr := some (d.listAttr.getD {}) }) (fun d => rfl) (fun d => rfl) he
      split
      · exact h1
      · rename_i v hv
        exact entryOK_addErrs (semMin_ok hK (stmtOf_one hsn hv) (one?_kw n _ v hv)) (hsame _ _ (fun d => rfl) (fun d => rfl) h1)
  case h_28 =>
    split
    · exact ⟨he, hst⟩
    · rename_i hnm
      obtain ⟨a1, a2⟩ := augFold_ok hK hrec root n sub visiting hroot hn hsub (hmod (by simpa using hnm)) st hst
      refine ⟨he, ⟨a2.cache, a2.gcache, ?_, a2.cacheKw, a2.gcacheKw, ?_⟩⟩
      · intro p hp
        rcases List.mem_append.mp hp with hp | hp
        · exact a2.augs p hp
        · simp only [List.mem_singleton] at hp; subst hp; exact fun a ha => (a1 a ha).1
      · intro p hp
        rcases List.mem_append.mp hp with hp | hp
        · exact a2.augsKw p hp
        · simp only [List.mem_singleton] at hp; subst hp; exact fun a ha => (a1 a ha).2

end Step

section Body
variable {env : Env} (hK : Sites env.reg K) (ht : TresOK K env) {rec : Rec} (hrec : RecOK K env.reg rec)
  (root : Mod) (n : Stmt) (scope : List Stmt) (visiting : List NodeId)
  (hg : GoodCall env.reg root scope n)
include hK ht hrec hg

theorem dirBody_ok (st : TState) (hst : StOK K env.reg st) (isMod : Bool) (hmod : isMod = true → IsModKw n.kw) :
    EntryOK K env.reg (dirBody env rec root scope n visiting st isMod).1 ∧
      StOK K env.reg (dirBody env rec root scope n visiting st isMod).2 ∧
      (dirBody env rec root scope n visiting st isMod).1.d.node = n := by
  have steps : AccOK K env.reg ((fieldOrder n.kw).foldl (stepFn env rec root n (n :: scope) visiting isMod) (e0 root n, st)) ∧
      ((fieldOrder n.kw).foldl (stepFn env rec root n (n :: scope) visiting isMod) (e0 root n, st)).1.d.node = n := by
    refine foldl_inv (fun acc : Entry × TState => AccOK K env.reg acc ∧ acc.1.d.node = n) _ _ _
      ⟨⟨entryOK_e0 hK hg.stmtOf, hst⟩, (e0_data root n).2.2.2.1⟩ ?_
    intro acc f hf ha
    exact ⟨stepFn_ok hK hrec root n (n :: scope) visiting hg.mem hg.within hg.sub isMod hmod acc f hf ha.2 ha.1,
      Eq.trans (nodeKeep_stepFn env rec root n (n :: scope) visiting isMod acc f) ha.2⟩
  obtain ⟨steps, hnode⟩ := steps
  unfold dirBody
  dsimp only
  split
  · rename_i hm
    refine ⟨steps.1, ⟨?_, steps.2.gcache, steps.2.augs, ?_, steps.2.gcacheKw, steps.2.augsKw⟩, hnode⟩
    · intro p hp
      rcases List.mem_append.mp hp with hp | hp
      · exact steps.2.cache p hp
      · simp only [List.mem_singleton] at hp; subst hp; exact steps.1
    · intro p hp
      rcases List.mem_append.mp hp with hp | hp
      · exact steps.2.cacheKw p hp
      · simp only [List.mem_singleton] at hp; subst hp
        dsimp only; rw [hnode]; exact hmod hm
  · split
    · rename_i hgk
      refine ⟨steps.1, ⟨steps.2.cache, ?_, steps.2.augs, steps.2.cacheKw, ?_, steps.2.augsKw⟩, hnode⟩
      · intro p hp
        rcases List.mem_append.mp hp with hp | hp
        · exact steps.2.gcache p hp
        · simp only [List.mem_singleton] at hp; subst hp; exact steps.1
      · intro p hp
        rcases List.mem_append.mp hp with hp | hp
        · exact steps.2.gcacheKw p hp
        · simp only [List.mem_singleton] at hp; subst hp
          dsimp only; rw [hnode]; simpa using hgk
    · exact ⟨steps.1, steps.2, hnode⟩

omit hK ht hrec hg in
theorem withD_node (e : Entry) (f : EData → EData) (hf : ∀ d, (f d).node = d.node) : (e.withD f).d.node = e.d.node := by
  cases e; exact hf _

omit hK ht hrec hg in
theorem withD_dir (e : Entry) (f : EData → EData) : (e.withD f).dir = e.dir := by
  cases e; rfl

/-- One level of `toEntry` keeps the invariant, given that the recursive calls do. -/
theorem toEntryBody_ok (fuel : Nat) (st : TState) (hst : StOK K env.reg st) :
    EntryOK K env.reg (toEntryBody env fuel rec root scope n visiting st).1 ∧
      StOK K env.reg (toEntryBody env fuel rec root scope n visiting st).2 ∧
      ResShape n (toEntryBody env fuel rec root scope n visiting st).1 := by
  unfold toEntryBody
  dsimp only
  split
  · rename_i k e hfind
    split at hfind
    · rename_i hm
      have hmem := List.mem_of_find?_eq_some hfind
      exact ⟨hst.cache _ hmem, hst, Or.inr (Or.inl ⟨by simpa [IsModKw] using hm, hst.cacheKw _ hmem⟩)⟩
    · exact absurd hfind (by simp)
  · split
    · rename_i k e hfind
      split at hfind
      · rename_i hgk
        have hmem := List.mem_of_find?_eq_some hfind
        exact ⟨hst.gcache _ hmem, hst, Or.inr (Or.inr ⟨Or.inr (by simpa using hgk), hst.gcacheKw _ hmem⟩)⟩
      · exact absurd hfind (by simp)
    · split
      · exact ⟨entryOK_errorEntry hg.stmtOf _ (hK.cycle n), hst, Or.inl ⟨rfl, fun _ => rfl⟩⟩
      · split
        · have hd := leafEntry_data env root scope n false
          exact ⟨entryOK_leafEntry hK ht hg false, hst, Or.inl ⟨hd.2.2.2.1, fun _ => hd.2.2.2.2.2.1⟩⟩
        · split
          · have hd := leafEntry_data env root scope n true
            refine ⟨?_, hst, Or.inl ⟨?_, fun _ => ?_⟩⟩
            · dsimp only
              refine entryOK_withD _ ?_ (entryOK_leafEntry hK ht hg true)
              intro d hd
              refine ⟨hd.1, ?_⟩
              intro x hx
              rcases List.mem_append.mp hx with hx | hx
              · exact hd.2 x hx
              · exact listAttrOf_ok hK hg.stmtOf x hx
            · exact (withD_node _ _ (fun d => rfl)).trans hd.2.2.2.1
            · have := hd.2.2.2.2.2.1
              generalize leafEntry env root scope n true = le at this ⊢
              cases le; exact this
          · split
            · rename_i huses
              have huses' : n.kw = "uses" := by simpa using huses
              split
              · exact ⟨entryOK_errorEntry hg.stmtOf _ (hK.unknownGroup n huses'), hst, Or.inl ⟨rfl, fun _ => rfl⟩⟩
              · rename_i g groot gscope hfg
                obtain ⟨hgkw, ⟨m, up, hgs, hgm⟩, hcase⟩ := Fuel.findGrouping_sound hfg
                have hgc : GoodCall env.reg groot gscope g := by
                  rcases hcase with ⟨hr, pre, hpre⟩ | ⟨hr, hsc⟩
                  · subst hr
                    have hsc : ∀ s ∈ gscope, Within s groot.stmt := by
                      intro s hs
                      exact hg.anc s (by rw [hpre]; exact List.mem_append_right _ hs)
                    exact ⟨hg.mem, .sub (hsc m (by rw [hgs]; simp)) hgm, hsc⟩
                  · have hm : m = groot.stmt := by
                      rw [hsc] at hgs
                      simp only [List.cons.injEq] at hgs
                      exact hgs.1.symm
                    refine ⟨hr, .sub (hm ▸ .top _) hgm, ?_⟩
                    intro s hs
                    rw [hsc] at hs
                    simp only [List.mem_singleton] at hs
                    subst hs; exact .top _
                obtain ⟨r1, r2, r3⟩ := hrec groot gscope g _ st hgc hst
                refine ⟨r1, r2, Or.inr (Or.inr ⟨Or.inl huses', ?_⟩)⟩
                rcases r3 with ⟨h1, _⟩ | ⟨h1, _⟩ | ⟨_, h2⟩
                · rw [h1]; exact hgkw
                · rcases h1 with h1 | h1 <;> (rw [hgkw] at h1; exact absurd h1 (by decide))
                · exact h2
            · rename_i huses
              obtain ⟨d1, d2, d3⟩ := dirBody_ok hK ht hrec root n scope _ hg st hst (n.kw == "module" || n.kw == "submodule")
                (fun hm => by simpa [IsModKw] using hm)
              exact ⟨d1, d2, Or.inl ⟨d3, fun hu => absurd (by simpa using hu) huses⟩⟩

end Body

/-- The invariant of `toEntry`: called on a statement of a loaded module in a good state, it
produces a good entry and a good state. -/
theorem toEntry_ok {env : Env} (hK : Sites env.reg K) (ht : TresOK K env) (fuel : Nat) : RecOK K env.reg (toEntry env fuel) := by
  induction fuel with
  | zero =>
    intro root scope n visiting st hg hst
    exact ⟨entryOK_errorEntry hg.stmtOf _ (hK.fuel n), hst, Or.inl ⟨rfl, fun _ => rfl⟩⟩
  | succ fuel ih =>
    intro root scope n visiting st hg hst
    rw [toEntry_succ]
    exact toEntryBody_ok hK ht ih root n scope visiting hg fuel st hst

/-! ### the conversion of all modules -/

theorem tresOK_envOf {reg : Registry} {plug : Plug} (hp : PlugPositionsAt K reg plug) (opts : Opts) :
    TresOK K (envOf reg opts plug) := fun root scope t h1 h2 h3 h4 => hp.resolve root scope t h1 h2 h3 h4

theorem keyOrder_mem {reg : Registry} {m : Mod} (h : m ∈ keyOrder reg) : m ∈ reg.mods := by
  unfold keyOrder at h
  simp only [List.mem_append, List.mem_filterMap] at h
  rcases h with ⟨kv, _, hk⟩ | ⟨kv, _, hk⟩ <;> exact Fuel.byId_mem hk

theorem tstate_ok {reg : Registry} (hK : Sites reg K) {plug : Plug} (hp : PlugPositionsAt K reg plug) (opts : Opts) :
    StOK K reg (tstate reg opts plug) := by
  unfold tstate
  refine foldl_inv (StOK K reg) _ _ _ (stOK_empty reg) ?_
  intro st m hm hst
  exact (toEntry_ok hK (tresOK_envOf hp opts) (entryFuel reg) m [] m.stmt [] st
    ⟨keyOrder_mem hm, .top _, by simp⟩ hst).2.1

theorem forestErrs_ok {reg : Registry} {f : Forest} (h : ForestAll (EntryOK K reg) f) :
    ∀ x ∈ forestErrs f, PosAt K reg x := by
  intro x hx
  unfold forestErrs at hx
  simp only [List.mem_flatten, List.mem_map] at hx
  obtain ⟨l, ⟨t, ht, rfl⟩, hxl⟩ := hx
  exact allErrors_ok _ (h t ht) x hxl

/-! ### updates inside a tree -/

theorem entryOK_updateAt {reg : Registry} (f : Entry → Entry) (hf : ∀ x, EntryOK K reg x → EntryOK K reg (f x)) :
    ∀ (path : Path) (e : Entry), EntryOK K reg e → EntryOK K reg (e.updateAt path f) := by
  intro path
  induction path with
  | nil => intro e h; exact hf e h
  | cons s path ih =>
    intro e h
    cases e with | mk d c i o =>
    unfold EntryOK at h ⊢
    rw [allD_mk] at h
    obtain ⟨h1, h2, h3, h4⟩ := h
    cases s with
    | child k =>
      simp only [Entry.updateAt]
      rw [allD_mk]
      refine ⟨h1, ?_, h3, h4⟩
      intro x hx
      simp only [List.mem_map] at hx
      obtain ⟨y, hy, rfl⟩ := hx
      split
      · exact ih y (h2 y hy)
      · exact h2 y hy
    | input =>
      simp only [Entry.updateAt]
      rw [allD_mk]
      refine ⟨h1, h2, ?_, h4⟩
      intro x hx
      simp only [List.mem_map] at hx
      obtain ⟨y, hy, rfl⟩ := hx
      exact ih y (h3 y hy)
    | output =>
      simp only [Entry.updateAt]
      rw [allD_mk]
      refine ⟨h1, h2, h3, ?_⟩
      intro x hx
      simp only [List.mem_map] at hx
      obtain ⟨y, hy, rfl⟩ := hx
      exact ih y (h4 y hy)

theorem entryOK_implicitIO {reg : Registry} {parent : Entry} (h : EntryOK K reg parent) (b : Bool) :
    EntryOK K reg (implicitIO parent b) := by
  unfold EntryOK implicitIO
  rw [allD_mk]
  exact ⟨⟨(entryOK_own h).1, by simp⟩, by simp, by simp, by simp⟩

theorem entryOK_setImplicitIn {reg : Registry} (x : Entry) (hx : EntryOK K reg x) : EntryOK K reg (setImplicitIn x) := by
  have hio := entryOK_implicitIO hx true
  cases x with | mk d c i o =>
  unfold EntryOK setImplicitIn at *
  rw [allD_mk] at hx ⊢
  refine ⟨hx.1, hx.2.1, ?_, hx.2.2.2⟩
  intro y hy; simp only [List.mem_singleton] at hy; subst hy; exact hio

theorem entryOK_setImplicitOut {reg : Registry} (x : Entry) (hx : EntryOK K reg x) : EntryOK K reg (setImplicitOut x) := by
  have hio := entryOK_implicitIO hx false
  cases x with | mk d c i o =>
  unfold EntryOK setImplicitOut at *
  rw [allD_mk] at hx ⊢
  refine ⟨hx.1, hx.2.1, hx.2.2.1, ?_⟩
  intro y hy; simp only [List.mem_singleton] at hy; subst hy; exact hio

theorem entryOK_walkParts {reg : Registry} (parts : List String) (root : Entry) (cur : Option Path)
    (h : EntryOK K reg root) : EntryOK K reg (walkParts parts root cur).2 :=
  walkParts_inv (EntryOK K reg)
    (fun root p h => entryOK_updateAt _ entryOK_setImplicitIn p root h)
    (fun root p h => entryOK_updateAt _ entryOK_setImplicitOut p root h)
    parts root cur h

/-- `find` changes a tree through `walkParts`, or records a bare error on a root. -/
theorem entryOK_find {reg : Registry} (f : Forest) (start : Loc) (ctx : Nat) (name : String)
    (hf : ForestAll (EntryOK K reg) f) : ForestAll (EntryOK K reg) (find reg f start ctx name).2 := by
  unfold find
  dsimp only
  repeat' split
  all_goals first
    | exact hf
    | (rename_i heq
       exact forestAll_setTree _ _ _ hf (entryOK_walkParts _ _ _ (forestAll_tree? _ _ _ hf heq)))
    | (rename_i heq
       exact forestAll_setTree _ _ _ hf (entryOK_addErr (posOK_bare _ _) (forestAll_tree? _ _ _ hf heq)))

/-! ### the augment stage -/

/-- The state invariant of the augment stage: every tree and every pending augment is good. -/
structure PInv (K : String → Stmt → Prop) (reg : Registry) (s : PState) : Prop where
  trees : ForestAll (EntryOK K reg) s.forest
  pend : ∀ p ∈ s.pending, ∀ a ∈ p.2, EntryOK K reg a
  pendKw : ∀ p ∈ s.pending, ∀ a ∈ p.2, ModAugment reg a.d.node

section Aug
variable {reg : Registry}

theorem augFail_inv (hK : Sites reg K) (id : Nat) (addErrors : Bool) (a : Entry) (s : PState) (un : List Entry) (p k : Nat)
    (ha : EntryOK K reg a) (hanf : addErrors = true → K "augment-not-found" a.d.node)
    (hf : ForestAll (EntryOK K reg) s.forest) :
    ForestAll (EntryOK K reg) (augFail id addErrors a s un p k).1.forest := by
  unfold augFail
  dsimp only
  split
  · rename_i hadd
    split
    · rename_i root hroot
      exact forestAll_setTree _ _ _ hf
        (entryOK_addErr (posOK_at (entryOK_own ha).1 _ (hanf hadd)) (forestAll_tree? _ _ _ hf hroot))
    · exact hf
  · exact hf

theorem augStep_inv (hK : Sites reg K) (id : Nat) (addErrors : Bool) (nsOf : String)
    (acc : PState × List Entry × Nat × Nat) (a : Entry) (hf : ForestAll (EntryOK K reg) acc.1.forest)
    (ha : EntryOK K reg a) (hkw : ModAugment reg a.d.node) (hanf : addErrors = true → K "augment-not-found" a.d.node) :
    ForestAll (EntryOK K reg) (augStep reg id addErrors nsOf acc a).1.forest := by
  obtain ⟨s, un, p, k⟩ := acc
  dsimp only at hf
  have hfind := entryOK_find (K := K) (reg := reg) s.forest (id, []) a.d.nodeMod a.d.name hf
  unfold augStep
  dsimp only
  generalize find reg s.forest (id, []) a.d.nodeMod a.d.name = r at hfind
  obtain ⟨target, forest⟩ := r
  dsimp only at hfind ⊢
  have fail := augFail_inv hK id addErrors a { s with forest := forest } un p k ha hanf hfind
  split
  · exact fail
  · rename_i t path
    split
    · exact fail
    · rename_i te hte
      split
      · exact fail
      · split
        · exact fail
        · rename_i root hroot
          dsimp only at hroot hte ⊢
          exact forestAll_setTree _ _ _ hfind
            (entryOK_updateAt _ (fun x hx => entryOK_merge _ (Or.inr (hK.dupNode _ (Or.inr (Or.inl hkw)))) hx ha) path root (forestAll_tree? _ _ _ hfind hroot))

/-- Every augment still pending may be reported as not found (needed of the reporting sweep only). -/
def PendANF (K : String → Stmt → Prop) (s : PState) : Prop :=
  ∀ p ∈ s.pending, ∀ a ∈ p.2, K "augment-not-found" a.d.node

/-- The pending lists only shrink. -/
theorem augmentTree_pendANF (id : Nat) (addErrors : Bool) (s : PState) (h : PendANF K s) :
    PendANF K (augmentTree reg id addErrors s).1 := by
  obtain ⟨un, _, hp, hsub, _, _, _⟩ := augmentTree_ok reg id addErrors s
  unfold PendANF
  rw [hp]
  intro p hp' a ha
  simp only [List.mem_map] at hp'
  obtain ⟨ip, hip, rfl⟩ := hp'
  split at ha
  · obtain ⟨p0, hp0, h0⟩ := pendingOf_mem s id a (hsub a ha)
    exact h p0 hp0 a h0
  · exact h ip hip a ha

theorem augmentTree_pinv (hK : Sites reg K) (id : Nat) (addErrors : Bool) (s : PState) (h : PInv K reg s)
    (hanf : addErrors = true → PendANF K s) :
    PInv K reg (augmentTree reg id addErrors s).1 := by
  obtain ⟨un, _, hp, hsub, _, _, _⟩ := augmentTree_ok reg id addErrors s
  refine ⟨?_, ?_, ?_⟩
  · rw [augmentTree_eq]
    dsimp only
    refine foldl_inv (fun acc : PState × List Entry × Nat × Nat => ForestAll (EntryOK K reg) acc.1.forest) _ _ _ h.trees ?_
    intro acc a ha hacc
    obtain ⟨p, hp, hap⟩ := pendingOf_mem s id a ha
    exact augStep_inv hK id addErrors _ acc a hacc (h.pend p hp a hap) (h.pendKw p hp a hap)
      (fun hadd => hanf hadd p hp a hap)
  · rw [hp]
    intro p hp' a ha
    simp only [List.mem_map] at hp'
    obtain ⟨ip, hip, rfl⟩ := hp'
    split at ha
    · obtain ⟨p0, hp0, h0⟩ := pendingOf_mem s id a (hsub a ha)
      exact h.pend p0 hp0 a h0
    · exact h.pend ip hip a ha
  · rw [hp]
    intro p hp' a ha
    simp only [List.mem_map] at hp'
    obtain ⟨ip, hip, rfl⟩ := hp'
    split at ha
    · obtain ⟨p0, hp0, h0⟩ := pendingOf_mem s id a (hsub a ha)
      exact h.pendKw p0 hp0 a h0
    · exact h.pendKw ip hip a ha

theorem augmentPass_pinv (hK : Sites reg K) : ∀ (fuel : Nat) (mods : Array Nat) (i processed : Nat) (s : PState),
    PInv K reg s → PInv K reg (augmentPass reg fuel mods i processed s).2.2 := by
  intro fuel
  induction fuel with
  | zero => intro mods i processed s h; exact h
  | succ fuel ih =>
    intro mods i processed s h
    unfold augmentPass
    split
    · have := augmentTree_pinv hK mods[i] false s h (fun hf => absurd hf (by decide))
      generalize augmentTree reg mods[i] false s = r at this ⊢
      obtain ⟨s', p, k⟩ := r
      dsimp only at this ⊢
      split
      · exact ih _ _ _ _ this
      · exact ih _ _ _ _ this
    · exact h

theorem augmentLoop_pinv (hK : Sites reg K) : ∀ (fuel : Nat) (mods : Array Nat) (s : PState),
    PInv K reg s → PInv K reg (augmentLoop reg fuel mods s).2 := by
  intro fuel
  induction fuel with
  | zero => intro mods s h; exact h
  | succ fuel ih =>
    intro mods s h
    unfold augmentLoop
    split
    · exact h
    · have := augmentPass_pinv hK (reg := reg) (mods.size + 1) mods 0 0 s h
      generalize augmentPass reg (mods.size + 1) mods 0 0 s = r at this ⊢
      obtain ⟨mods', processed, s'⟩ := r
      dsimp only at this ⊢
      split
      · exact this
      · exact ih _ _ this

theorem leftover_pinv (hK : Sites reg K) (left : Array Nat) (s : PState) (h : PInv K reg s) (hanf : PendANF K s) :
    PInv K reg (left.foldl (fun (acc : PState × Nat) id =>
      let (s, p, _) := augmentTree reg id true acc.1
      (s, acc.2 + p)) (s, 0)).1 := by
  rw [← Array.foldl_toList]
  refine (foldl_inv (fun acc : PState × Nat => PInv K reg acc.1 ∧ PendANF K acc.1) _ _ _ ⟨h, hanf⟩ ?_).1
  rintro ⟨s, cnt⟩ id _ ⟨hs, ha⟩
  have h1 := augmentTree_pinv hK id true s hs (fun _ => ha)
  have h2 := augmentTree_pendANF (reg := reg) id true s ha
  generalize augmentTree reg id true s = r at h1 h2 ⊢
  obtain ⟨s', p, k⟩ := r
  exact ⟨h1, h2⟩

/-! ### `fixChoice` -/

theorem entryOK_wrapCase (x : Entry) (h : EntryOK K reg x) : EntryOK K reg (wrapCase x) := by
  unfold wrapCase
  split
  · exact h
  · unfold EntryOK
    rw [allD_mk]
    refine ⟨⟨(entryOK_own h).1, by simp⟩, ?_, by simp, by simp⟩
    intro y hy; simp only [List.mem_singleton] at hy; subst hy; exact h

theorem entryOK_fixChoice (e : Entry) : EntryOK K reg e → EntryOK K reg (fixChoice e) := by
  induction e using entry_ind with
  | h d c i o hc hi ho =>
    intro h
    rw [fixChoice_eq]
    unfold EntryOK at h ⊢
    rw [allD_mk] at h ⊢
    refine ⟨h.1, ?_, ?_, ?_⟩
    · intro x hx
      split at hx
      · simp only [List.mem_map] at hx
        obtain ⟨y, ⟨z, hz, rfl⟩, rfl⟩ := hx
        exact entryOK_wrapCase _ (hc z hz (h.2.1 z hz))
      · simp only [List.mem_map] at hx
        obtain ⟨z, hz, rfl⟩ := hx
        exact hc z hz (h.2.1 z hz)
    · intro x hx
      simp only [List.mem_map] at hx
      obtain ⟨z, hz, rfl⟩ := hx
      exact hi z hz (h.2.2.1 z hz)
    · intro x hx
      simp only [List.mem_map] at hx
      obtain ⟨z, hz, rfl⟩ := hx
      exact ho z hz (h.2.2.2 z hz)

theorem pinv_fixAll (s : PState) (h : PInv K reg s) : PInv K reg (fixAll s) := by
  refine ⟨?_, h.pend, h.pendKw⟩
  intro t ht
  simp only [fixAll, List.mem_map] at ht
  obtain ⟨⟨i, e⟩, hie, rfl⟩ := ht
  exact entryOK_fixChoice _ (h.trees _ hie)

end Aug

theorem pinv_pstate0 {reg : Registry} (hK : Sites reg K) {plug : Plug} (hp : PlugPositionsAt K reg plug) (opts : Opts) :
    PInv K reg (pstate0 reg opts plug) := by
  have hst := tstate_ok hK hp opts
  refine ⟨fun t ht => hst.cache t ht, ?_, ?_⟩
  · intro p hp' a ha
    simp only [pstate0, pending0, List.mem_map] at hp'
    obtain ⟨m, _, rfl⟩ := hp'
    dsimp only at ha
    cases hf : (tstate reg opts plug).augs.find? (fun x => x.1 == m.seq) with
    | none => simp [hf] at ha
    | some q =>
      simp only [hf, Option.map_some, Option.getD_some] at ha
      exact hst.augs q (List.mem_of_find?_eq_some hf) a ha
  · intro p hp' a ha
    simp only [pstate0, pending0, List.mem_map] at hp'
    obtain ⟨m, _, rfl⟩ := hp'
    dsimp only at ha
    cases hf : (tstate reg opts plug).augs.find? (fun x => x.1 == m.seq) with
    | none => simp [hf] at ha
    | some q =>
      simp only [hf, Option.map_some, Option.getD_some] at ha
      exact hst.augsKw q (List.mem_of_find?_eq_some hf) a ha

theorem pinv_afterRounds {reg : Registry} (hK : Sites reg K) {plug : Plug} (hp : PlugPositionsAt K reg plug) (opts : Opts) :
    PInv K reg (afterRounds reg opts plug).2 :=
  afterRounds_state reg opts plug (PInv K reg) (fun fuel mods s h => augmentLoop_pinv hK fuel mods s h)
    (fun s h => pinv_fixAll s h) (pinv_pstate0 hK hp opts)

theorem pinv_preDev {reg : Registry} (hK : Sites reg K) {plug : Plug} (hp : PlugPositionsAt K reg plug) (opts : Opts)
    (hanf : PInv K reg (afterRounds reg opts plug).2 → PendANF K (afterRounds reg opts plug).2) :
    PInv K reg (preDev reg opts plug) := by
  have h1 : PInv K reg (afterRounds reg opts plug).2 :=
    afterRounds_state reg opts plug (PInv K reg) (fun fuel mods s h => augmentLoop_pinv hK fuel mods s h)
      (fun s h => pinv_fixAll s h) (pinv_pstate0 hK hp opts)
  have h2 : PInv K reg (leftoverPass reg opts plug).1 := leftover_pinv hK _ _ h1 (hanf h1)
  unfold preDev
  split
  · exact pinv_fixAll _ h2
  · exact h2

/-! ### the deviation stage: its errors are returned, positioned at the deviating module's statement -/

/-- Every error of the list is bare or positioned at a statement of a loaded module. -/
def ErrsOK (K : String → Stmt → Prop) (reg : Registry) (l : List Err) : Prop := ∀ x ∈ l, PosAt K reg x

section Dev
variable {reg : Registry}

theorem errsOK_nil : ErrsOK K reg [] := by intro x hx; simp at hx
theorem errsOK_append {a b : List Err} (ha : ErrsOK K reg a) (hb : ErrsOK K reg b) : ErrsOK K reg (a ++ b) := by
  intro x hx
  rcases List.mem_append.mp hx with hx | hx
  · exact ha x hx
  · exact hb x hx
theorem errsOK_single {x : Err} (h : PosAt K reg x) : ErrsOK K reg [x] := by
  intro y hy; simp only [List.mem_singleton] at hy; subst hy; exact h
theorem errsOK_snoc {a : List Err} {x : Err} (ha : ErrsOK K reg a) (h : PosAt K reg x) : ErrsOK K reg (a ++ [x]) :=
  errsOK_append ha (errsOK_single h)

variable {ms : Stmt} (hms : StmtOf reg ms) (kind : String) (sd : EData)
include hms

theorem dDefault_errs (hK : ∀ cls ∈ devStageClasses, devKindOf cls = kind → K cls ms) (node : Entry) :
    ErrsOK K reg (dDefault ms kind sd node).2 := by
  unfold dDefault
  repeat' split
  all_goals first
    | exact errsOK_nil
    | exact errsOK_single (posOK_at hms _ (hK _ (by simp [devStageClasses]) (by simp_all [devKindOf])))

theorem dDefaultDel_errs (hK : ∀ cls ∈ devStageClasses, devKindOf cls = "delete" → K cls ms) (node : Entry) :
    ErrsOK K reg (dDefaultDel ms sd node).2 := by
  unfold dDefaultDel
  repeat' split
  all_goals first
    | exact errsOK_nil
    | exact errsOK_single (posOK_at hms _ (hK _ (by simp [devStageClasses]) (by simp [devKindOf])))

omit hms in
theorem dMinDel_errs (node : Entry) (errs : List Err) (h : ErrsOK K reg errs) : ErrsOK K reg (dMinDel sd node errs).2 := by
  unfold dMinDel
  repeat' split
  all_goals first
    | exact h
    | exact errsOK_snoc h (posOK_bare _ _)

omit hms in
theorem dMaxDel_errs (node : Entry) (errs : List Err) (h : ErrsOK K reg errs) : ErrsOK K reg (dMaxDel sd node errs).2 := by
  unfold dMaxDel
  repeat' split
  all_goals first
    | exact h
    | exact errsOK_snoc h (posOK_bare _ _)

/-- The errors of one deviate statement are bare or positioned at the deviating module's statement. -/
theorem applyOneDeviate_errs (hK : ∀ cls ∈ devStageClasses, devKindOf cls = kind → K cls ms)
    (opts : Opts) (spec : Entry) (hp : Bool) (node : Entry) :
    ErrsOK K reg (applyOneDeviate opts ms kind spec hp node).2.2 := by
  rw [applyOneDeviate_eq]
  unfold applyOneDeviate'
  have a1 := fun n => dDefault_errs hms kind spec.d hK n
  have a2 := fun (hk : kind = "delete") n => dDefaultDel_errs hms spec.d (fun cls hc hd => hK cls hc (hd.trans hk.symm)) n
  have a3 := fun n es h => dMinDel_errs (K := K) (reg := reg) spec.d n es h
  have a4 := fun n es h => dMaxDel_errs (K := K) (reg := reg) spec.d n es h
  simp only []
  repeat' split
  all_goals first
    | exact errsOK_nil
    | exact a1 _
    | exact a2 (by simp_all) _
    | exact errsOK_snoc (a1 _) (posOK_bare _ _)
    | exact errsOK_snoc (a2 (by simp_all) _) (posOK_bare _ _)
    | exact errsOK_single (posOK_at hms _ (hK _ (by simp [devStageClasses]) (by simp_all [devKindOf])))
    | exact errsOK_single (posOK_bare _ _)
    | exact errsOK_snoc (a3 _ _ (a2 (by simp_all) _)) (posOK_bare _ _)
    | exact a4 _ _ (a3 _ _ (a2 (by simp_all) _))

omit hms in
/-- Only `not-supported` asks for the removal of the target. -/
theorem applyOneDeviate_remove (opts : Opts) (spec : Entry) (hp : Bool) (node : Entry)
    (h : (applyOneDeviate opts ms kind spec hp node).2.1 = true) : kind = "not-supported" := by
  rw [applyOneDeviate_eq] at h
  unfold applyOneDeviate' at h
  simp only [] at h
  repeat' split at h
  all_goals simp_all

end Dev

theorem applyDeviations_errs {reg : Registry} (hK : Sites reg K) (opts : Opts) {m : Mod} (hm : m ∈ reg.mods)
    (devs : List (Stmt × List (String × Entry)))
    (hdevs : ∀ d ∈ devs, d.1 ∈ m.stmt.all "deviation" ∧ ∀ ds ∈ d.2, ∃ s ∈ d.1.all "deviate", s.arg = ds.1) (f : Forest) :
    ErrsOK K reg (applyDeviations reg opts m devs f).2 := by
  have hms : StmtOf reg m.stmt := ⟨m, hm, .top _⟩
  unfold applyDeviations
  refine foldl_inv (fun acc : Forest × List Err => ErrsOK K reg acc.2) _ devs (f, []) errsOK_nil ?_
  rintro ⟨f, errs⟩ ⟨dstmt, deviates⟩ hmem hP
  obtain ⟨hdv, hds⟩ := hdevs _ hmem
  dsimp only at hP hdv hds ⊢
  generalize find reg f (m.seq, []) m.seq dstmt.arg = r
  obtain ⟨target, f'⟩ := r
  dsimp only
  split
  · exact errsOK_snoc hP (posOK_bare _ _)
  · rename_i t path
    split
    · exact errsOK_snoc hP (posOK_bare _ _)
    · rename_i node0 hn0
      dsimp only
      refine foldl_inv (fun acc : Forest × Entry × Bool × List Err => ErrsOK K reg acc.2.2.2) _ deviates _ hP ?_
      rintro ⟨f2, node, detached, errs2⟩ ds hdsm hacc
      obtain ⟨sd, hsd, hsarg⟩ := hds ds hdsm
      have hKd : ∀ cls ∈ devStageClasses, devKindOf cls = ds.1 → K cls m.stmt :=
        fun cls hc hk => hK.deviation cls m dstmt sd hc hm hdv hsd (hsarg.trans hk.symm)
      dsimp only at hacc ⊢
      refine errsOK_append hacc ?_
      have h1 := applyOneDeviate_errs hms ds.1 hKd opts ds.2 (!path.isEmpty) node
      split
      · rename_i hrem
        have hkind : ds.1 = "not-supported" :=
          applyOneDeviate_remove ds.1 opts ds.2 (!path.isEmpty) node (by simp only [Bool.and_eq_true] at hrem; exact hrem.1)
        exact errsOK_snoc h1 (posOK_at hms _ (hKd _ (by simp [devStageClasses]) (by simp [devKindOf, hkind])))
      · exact h1

theorem devStage_errs {reg : Registry} (hK : Sites reg K) (opts : Opts) (plug : Plug) (f0 : Forest) :
    ErrsOK K reg (devStage reg opts plug f0).2.1 := by
  unfold devStage
  refine foldl_inv (fun acc : Forest × List Err × List String => ErrsOK K reg acc.2.1) _ _ _ errsOK_nil ?_
  rintro ⟨f, errs, done⟩ m hm hP
  dsimp only at hP ⊢
  split
  · exact hP
  · dsimp only
    refine errsOK_append hP (applyDeviations_errs hK opts (keyOrder_mem hm) _ ?_ _)
    intro d hd
    simp only [List.mem_map] at hd
    obtain ⟨dv, hdv, rfl⟩ := hd
    refine ⟨hdv, ?_⟩
    intro ds hds
    simp only [List.mem_filterMap] at hds
    obtain ⟨s, hs, hsome⟩ := hds
    refine ⟨s, hs, ?_⟩
    split at hsome
    · simp only [Option.some.injEq] at hsome
      rw [← hsome]
    · cases hsome

/-! ### linking; the canonical error list -/

theorem includeWalk_errs (reg : Registry) : ∀ (fuel : Nat) (visited : List Nat) (m : Mod) (e : Err),
    (includeWalk reg fuel visited m).2 = some e → PosAt K reg e := by
  intro fuel
  induction fuel with
  | zero =>
    intro visited m e h
    simp only [includeWalk, Option.some.injEq] at h
    subst h; exact posOK_bare _ _
  | succ fuel ih =>
    intro visited m e h
    unfold includeWalk at h
    split at h
    · cases h
    · dsimp only at h
      have key : ∀ (b : Bool) (l : List Stmt) (acc : List Nat × Option Err),
          (∀ e, acc.2 = some e → PosAt K reg e) →
          ∀ e, (l.foldl (fun (acc : List Nat × Option Err) i =>
            match acc.2 with
            | some _ => acc
            | none =>
              match reg.findModule b i with
              | none => (acc.1, some (Err.bare (if b then "no-such-submodule" else "no-such-module")))
              | some im => includeWalk reg fuel acc.1 im) acc).2 = some e → PosAt K reg e := by
        intro b l acc hacc
        refine foldl_inv (fun acc : List Nat × Option Err => ∀ e, acc.2 = some e → PosAt K reg e) _ l acc hacc ?_
        intro acc i _ ha
        split
        · exact ha
        · split
          · intro e he
            simp only [Option.some.injEq] at he
            subst he; exact posOK_bare _ _
          · intro e he; exact ih _ _ e he
      refine key false _ _ ?_ e h
      exact key true _ _ (by intro e he; cases he)

theorem linkAll_errs (reg : Registry) : ErrsOK K reg (linkAll reg).2 := by
  unfold linkAll
  dsimp only
  refine foldl_inv (fun acc : List Nat × List Err => ErrsOK K reg acc.2) _ _ _ errsOK_nil ?_
  rintro ⟨v, errs⟩ m _ hP
  dsimp only at hP ⊢
  have := includeWalk_errs (K := K) reg (reg.mods.length + 1) v m
  generalize includeWalk reg (reg.mods.length + 1) v m = r at this ⊢
  obtain ⟨v', e⟩ := r
  dsimp only at this ⊢
  split
  · rename_i e'
    exact errsOK_snoc hP (this e' rfl)
  · exact hP

theorem mem_of_mem_eraseDups {α : Type} [BEq α] : ∀ (n : Nat) (l : List α), l.length ≤ n → ∀ x ∈ l.eraseDups, x ∈ l := by
  intro n
  induction n with
  | zero =>
    intro l h x hx
    have : l = [] := List.length_eq_zero_iff.mp (Nat.le_zero.mp h)
    subst this
    simp at hx
  | succ n ih =>
    intro l h x hx
    cases l with
    | nil => simp at hx
    | cons a as =>
      rw [List.eraseDups_cons] at hx
      rcases List.mem_cons.mp hx with hxa | hx
      · subst hxa; simp
      · have hlen : (as.filter (fun b => !b == a)).length ≤ n :=
          Nat.le_trans (List.length_filter_le _ _) (by simpa using h)
        exact List.mem_cons_of_mem _ (List.mem_filter.mp (ih _ hlen x hx)).1

/-- Canonicalisation (sorting, removal of duplicates) invents no error. -/
theorem mem_canonErrs {es : List Err} {x : Err} (h : x ∈ canonErrs es) : x ∈ es := by
  unfold canonErrs at h
  dsimp only at h
  exact (mem_sortBy _ x es).1 (mem_of_mem_eraseDups _ _ (Nat.le_refl _) x h)

/-! ### the whole of `processAll` -/

attribute [local irreducible] leftoverRounds in
theorem processAll_errors_ok {reg : Registry} (hK : Sites reg K) {plug : Plug} (hp : PlugPositionsAt K reg plug) (opts : Opts)
    (hanf : PInv K reg (afterRounds reg opts plug).2 → PendANF K (afterRounds reg opts plug).2) :
    ErrsOK K reg (processAll reg opts plug).errors := by
  rw [processAll_eq]
  split
  · intro x hx
    have hx := mem_canonErrs hx
    unfold stage1Errs at hx
    simp only [List.mem_append] at hx
    rcases hx with (hx | hx) | hx
    · exact linkAll_errs reg x hx
    · exact hp.identity x hx
    · exact hp.typedefs x hx
  · split
    · intro x hx
      exact forestErrs_ok (fun t ht => (tstate_ok hK hp opts).cache t ht) x (mem_canonErrs hx)
    · intro x hx
      have hx := mem_canonErrs hx
      rcases List.mem_append.mp hx with hx | hx
      · exact forestErrs_ok (pinv_preDev hK hp opts hanf).trees x hx
      · exact devStage_errs hK opts plug _ x hx

/-! ### the relation of the specification is allowed by the sites -/

theorem mem_all_sub {n c : Stmt} {kw : String} (h : c ∈ n.all kw) : c ∈ n.subs ∧ c.kw = kw :=
  ⟨(List.mem_filter.mp h).1, mem_all_kw n kw c h⟩

/-- The sites of the resolver allow `NamesW reg`: what `Names` says (entry layer classes) and what
`Who reg` says (duplicate keys and nodes, augment targets, deviations). -/
theorem sites_namesW (reg : Registry) : Sites reg (NamesW reg) := by
  have hN := PositionsSem.sites_names
  constructor
  case dupKey =>
    intro n c kw hc hkw hfo
    obtain ⟨h1, h2⟩ := mem_all_sub hc
    refine ⟨hN.dupKey n, fun _ => ⟨c, h1, h2 ▸ hkw, h2 ▸ hfo⟩, ?_, ?_, ?_, ?_⟩ <;> intro h <;> exact absurd h (by decide)
  case dupNode =>
    intro s hs
    refine ⟨hN.dupNode s, ?_, fun _ => hs, ?_, ?_, ?_⟩ <;> intro h <;> exact absurd h (by decide)
  case devKind =>
    intro s dv hs hdv hk
    obtain ⟨h1, h2⟩ := mem_all_sub hdv
    refine ⟨hN.devKind s, ?_, ?_, ?_, fun _ => ⟨hs, dv, h1, h2, hk⟩, ?_⟩ <;> intro h <;> exact absurd h (by decide)
  case deviation =>
    intro cls m dv ds hc hm hdv hds hkind
    obtain ⟨h1, h2⟩ := mem_all_sub hdv
    obtain ⟨h3, h4⟩ := mem_all_sub hds
    refine ⟨hN.deviation cls m.stmt hc, ?_⟩
    have hlast : TopOf reg m.stmt ∧
        ∃ dv ∈ m.stmt.subs, dv.kw = "deviation" ∧ ∃ ds ∈ dv.subs, ds.kw = "deviate" ∧ ds.arg = devKindOf cls :=
      ⟨⟨m, hm, rfl⟩, dv, h1, h2, ds, h3, h4, hkind⟩
    simp only [devStageClasses, List.mem_cons, List.not_mem_nil, or_false] at hc
    rcases hc with rfl | rfl | rfl | rfl | rfl | rfl | rfl <;>
      (refine ⟨?_, ?_, ?_, ?_, fun _ => hlast⟩ <;> intro h <;> exact absurd h (by decide))
  case tristate =>
    intro n v hv hk h1 h2
    exact ⟨hN.tristate n v hv hk h1 h2, who_free reg _ (by decide)⟩
  case orderedBy => intro s hs; exact ⟨hN.orderedBy s hs, who_free reg _ (by decide)⟩
  case maxEl => intro s hs; exact ⟨hN.maxEl s hs, who_free reg _ (by decide)⟩
  case minEl => intro s hs; exact ⟨hN.minEl s hs, who_free reg _ (by decide)⟩
  case unknownGroup => intro s hs; exact ⟨hN.unknownGroup s hs, who_free reg _ (by decide)⟩
  case cycle => intro s; exact ⟨hN.cycle s, who_free reg _ (by decide)⟩
  case fuel => intro s; exact ⟨hN.fuel s, who_free reg _ (by decide)⟩
  case include_ => intro s hs; exact ⟨hN.include_ s hs, who_free reg _ (by decide)⟩

/-- The same with one more condition on the statement named by `augment-not-found` (no site of the
entry layer, of the loop or of the deviation stage builds that class). -/
theorem sites_namesWP (P : Stmt → Prop) (reg : Registry) : Sites reg (NamesWP P reg) := by
  have hW := sites_namesW reg
  constructor
  case dupKey => intro n c kw h1 h2 h3; exact ⟨(hW.dupKey n c kw h1 h2 h3).1, (hW.dupKey n c kw h1 h2 h3).2, fun h => absurd h (by decide)⟩
  case dupNode => intro s hs; exact ⟨(hW.dupNode s hs).1, (hW.dupNode s hs).2, fun h => absurd h (by decide)⟩
  case tristate =>
    intro n v hv hk h1 h2
    exact ⟨(hW.tristate n v hv hk h1 h2).1, (hW.tristate n v hv hk h1 h2).2, fun h => absurd h (by decide)⟩
  case orderedBy => intro s hs; exact ⟨(hW.orderedBy s hs).1, (hW.orderedBy s hs).2, fun h => absurd h (by decide)⟩
  case maxEl => intro s hs; exact ⟨(hW.maxEl s hs).1, (hW.maxEl s hs).2, fun h => absurd h (by decide)⟩
  case minEl => intro s hs; exact ⟨(hW.minEl s hs).1, (hW.minEl s hs).2, fun h => absurd h (by decide)⟩
  case unknownGroup => intro s hs; exact ⟨(hW.unknownGroup s hs).1, (hW.unknownGroup s hs).2, fun h => absurd h (by decide)⟩
  case cycle => intro s; exact ⟨(hW.cycle s).1, (hW.cycle s).2, fun h => absurd h (by decide)⟩
  case fuel => intro s; exact ⟨(hW.fuel s).1, (hW.fuel s).2, fun h => absurd h (by decide)⟩
  case include_ => intro s hs; exact ⟨(hW.include_ s hs).1, (hW.include_ s hs).2, fun h => absurd h (by decide)⟩
  case devKind =>
    intro s dv h1 h2 h3
    exact ⟨(hW.devKind s dv h1 h2 h3).1, (hW.devKind s dv h1 h2 h3).2, fun h => absurd h (by decide)⟩
  case deviation =>
    intro cls m dv ds hc hm h1 h2 h3
    refine ⟨(hW.deviation cls m dv ds hc hm h1 h2 h3).1, (hW.deviation cls m dv ds hc hm h1 h2 h3).2, ?_⟩
    intro h; subst h; exact absurd hc (by decide)

/-- `s` is the source statement of an augment that is still pending when the augment loop, FixChoice
and all retry rounds are over (`afterRounds`): one that none of them could apply. -/
def LeftOver (reg : Registry) (opts : Opts) (plug : Plug) (s : Stmt) : Prop :=
  ∃ p ∈ (afterRounds reg opts plug).2.pending, ∃ a ∈ p.2, a.d.node = s

/-- The whole of `processAll`, with `augment-not-found` tied to the augments the loop and the retry
rounds left pending: only the reporting sweep builds that class, for entries of its pending lists,
and those lists only shrink. -/
theorem processAll_errors_okP {reg : Registry} {plug : Plug} (opts : Opts)
    (hp : PlugPositionsAt (NamesWP (LeftOver reg opts plug) reg) reg plug) :
    ErrsOK (NamesWP (LeftOver reg opts plug) reg) reg (processAll reg opts plug).errors := by
  refine processAll_errors_ok (sites_namesWP _ reg) hp opts ?_
  intro hpinv p hp' a ha
  refine ⟨PositionsSem.sites_names.augNF _, ⟨?_, ?_, fun _ => hpinv.pendKw p hp' a ha, ?_, ?_⟩, fun _ => ⟨p, hp', a, ha, rfl⟩⟩ <;>
    intro h <;> exact absurd h (by decide)

/-- … and the form without the extra condition (`NamesW`). -/
theorem processAll_errors_okW {reg : Registry} {plug : Plug} (opts : Opts)
    (hp : PlugPositionsAt (NamesW reg) reg plug) : ErrsOK (NamesW reg) reg (processAll reg opts plug).errors := by
  refine processAll_errors_ok (sites_namesW reg) hp opts ?_
  intro hpinv p hp' a ha
  refine ⟨PositionsSem.sites_names.augNF _, ?_, ?_, fun _ => hpinv.pendKw p hp' a ha, ?_, ?_⟩ <;>
    intro h <;> exact absurd h (by decide)

end Goyang.Lemmas.PositionsWho
