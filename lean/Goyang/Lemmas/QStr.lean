/-
(b) The double-quoted-string loop of `lexQString`, abstracted to a fold over the raw items
(`stepC`: one literal character or one backslash pair at a time, exactly the case analysis of the
Go loop, on characters), computes what the three passes of the reference reader compute
(`dequote`): trailing-blank strip, indentation strip, escape substitution.
The only hypothesis is exclusion (3) of the property: no line of the raw text ends — trailing
literal blanks aside — in a blank produced by a backslash pair.  (For the other excluded
constructs implementation and reference reader agree anyway.)
`Lemmas/LexSim.lean` shows that the lexer model really performs this fold, on bytes.
-/
import Goyang.Spec.Parse

namespace Goyang.Lemmas.QStr
open Goyang.Spec.Parse

/-- column after `c`, a tab reaching to the next multiple of 8 -/
def adv (w : Nat) (c : Char) : Nat := if c = '\t' then (w / 8 + 1) * 8 else w + 1

/-- what a backslash pair appends in the Go loop (in pattern mode and otherwise) -/
def escValue (c : Char) : List Char :=
  if c = 'n' then ['\n'] else if c = 't' then ['\t'] else if c = '"' then ['"']
  else if c = '\\' then ['\\'] else ['\\', c]

def itemValue : QItem → List Char
  | .lit c => [c]
  | .esc c => escValue c

/-- pass 3 in pattern mode, as a total function -/
def substAll (l : List QItem) : List Char := l.flatMap itemValue

/-- a backslash pair RFC 7950 defines -/
def validEsc : QItem → Bool
  | .lit _ => true
  | .esc c => c = 'n' || c = 't' || c = '"' || c = '\\'

theorem subst_true (l : List QItem) : subst true l = some (substAll l) := by
  induction l with
  | nil => rfl
  | cons q r ih =>
    cases q with
    | lit c => simp [subst, ih, substAll, itemValue]
    | esc c =>
      simp only [subst, ih, substAll, List.flatMap_cons, itemValue, escValue]
      split
      · simp
      · split
        · simp
        · split
          · simp
          · split <;> simp

theorem subst_false (l : List QItem) :
    subst false l = if l.all validEsc then some (substAll l) else none := by
  induction l with
  | nil => rfl
  | cons q r ih =>
    cases q with
    | lit c =>
      simp only [subst, ih, List.all_cons, validEsc, Bool.true_and]
      split <;> simp [substAll, itemValue]
    | esc c =>
      simp only [subst, ih, List.all_cons, validEsc, substAll, List.flatMap_cons, itemValue, escValue]
      by_cases hr : r.all validEsc = true
      · by_cases h1 : c = 'n'
        · simp [h1, hr]
        · by_cases h2 : c = 't'
          · simp [h2, hr]
          · by_cases h3 : c = '"'
            · simp [h3, hr]
            · by_cases h4 : c = '\\'
              · simp [h4, hr]
              · simp [h1, h2, h3, h4, hr]
      · by_cases h1 : c = 'n'
        · simp [h1, hr]
        · by_cases h2 : c = 't'
          · simp [h2, hr]
          · by_cases h3 : c = '"'
            · simp [h3, hr]
            · by_cases h4 : c = '\\'
              · simp [h4, hr]
              · simp [h1, h2, h3, h4, hr]

/-- the trailing-blank trimming loop, on characters -/
def trimC (t : List Char) : List Char := (t.reverse.dropWhile isBlank).reverse

/-- state of the Go loop: accumulated text, the flag `over`, and — meaningful while `over` is
false — the tab-expanded column `tcol` -/
structure QS where
  text : List Char
  over : Bool
  w : Nat

/-- one iteration of the Go loop -/
def stepC (qcol : Nat) (s : QS) : QItem → QS
  | .lit c =>
    if c = '\n' then ⟨trimC s.text ++ ['\n'], false, 0⟩
    else if isBlank c then
      if !s.over && adv s.w c ≤ qcol then ⟨s.text, false, adv s.w c⟩
      else ⟨s.text ++ [c], true, adv s.w c⟩
    else ⟨s.text ++ [c], true, adv s.w c⟩
  | .esc c => ⟨s.text ++ escValue c, true, s.w⟩

/-- the text the Go loop has accumulated when it meets the closing quote -/
def implValue (qcol : Nat) (raw : List QItem) : List Char :=
  (raw.foldl (stepC qcol) ⟨[], true, qcol⟩).text

/-! ## lines -/

def noLF (l : List QItem) : Prop := QItem.lit '\n' ∉ l

theorem splitLines_ne_nil (raw : List QItem) : splitLines raw ≠ [] := by
  induction raw with
  | nil => simp [splitLines]
  | cons q qs ih =>
    unfold splitLines
    split
    · simp
    · split <;> simp

theorem join_split (raw : List QItem) : joinLines (splitLines raw) = raw := by
  induction raw with
  | nil => rfl
  | cons q qs ih =>
    unfold splitLines
    split
    · rename_i h; exact absurd h (splitLines_ne_nil qs)
    · rename_i l ls h
      rw [h] at ih
      split
      · rename_i hq
        rw [hq]
        simp only [joinLines, List.nil_append]
        rw [ih]
      · cases ls with
        | nil => simp only [joinLines] at ih ⊢; rw [ih]
        | cons l2 ls => simp only [joinLines, List.cons_append] at ih ⊢; rw [ih]

theorem split_noLF (raw : List QItem) : ∀ l ∈ splitLines raw, noLF l := by
  induction raw with
  | nil => intro l hl; simp [splitLines] at hl; subst hl; simp [noLF]
  | cons q qs ih =>
    unfold splitLines
    split
    · rename_i h; exact absurd h (splitLines_ne_nil qs)
    · rename_i l ls h
      rw [h] at ih
      split
      · intro x hx
        simp only [List.mem_cons] at hx
        rcases hx with hx | hx | hx
        · subst hx; simp [noLF]
        · exact ih x (by simp [hx])
        · exact ih x (by simp [hx])
      · rename_i hq
        intro x hx
        simp only [List.mem_cons] at hx
        rcases hx with hx | hx
        · subst hx
          have := ih l (by simp)
          unfold noLF at *
          simp only [List.mem_cons, not_or]
          exact ⟨fun h => hq h.symm, this⟩
        · exact ih x (by simp [hx])

/-! ## one line -/

theorem substAll_append (a b : List QItem) : substAll (a ++ b) = substAll a ++ substAll b := by
  simp [substAll]

theorem substAll_cons (q : QItem) (l : List QItem) : substAll (q :: l) = itemValue q ++ substAll l := by
  simp [substAll]

/-- past the indentation a line is appended as it is -/
theorem fold_line_over (qcol : Nat) (l : List QItem) (hl : noLF l) : ∀ (t : List Char) (w : Nat),
    (l.foldl (stepC qcol) ⟨t, true, w⟩).text = t ++ substAll l := by
  induction l with
  | nil => intro t w; simp [substAll]
  | cons q qs ih =>
    intro t w
    have hqs : noLF qs := fun h => hl (List.mem_cons_of_mem _ h)
    simp only [List.foldl_cons]
    cases q with
    | lit c =>
      have hc : c ≠ '\n' := by intro h; apply hl; simp [h]
      simp only [stepC, if_neg hc, Bool.not_true, Bool.false_and]
      split
      · simp only [Bool.false_eq_true, if_false]
        rw [ih hqs]; simp [substAll_cons, itemValue]
      · rw [ih hqs]; simp [substAll_cons, itemValue]
    | esc c =>
      simp only [stepC]
      rw [ih hqs]; simp [substAll_cons, itemValue]

/-- within the indentation leading blanks are dropped up to the quote column -/
theorem fold_line_notover (qcol : Nat) (l : List QItem) (hl : noLF l) : ∀ (t : List Char) (w : Nat),
    (l.foldl (stepC qcol) ⟨t, false, w⟩).text = t ++ substAll (stripLead qcol w l) := by
  induction l with
  | nil => intro t w; simp [substAll, stripLead]
  | cons q qs ih =>
    intro t w
    have hqs : noLF qs := fun h => hl (List.mem_cons_of_mem _ h)
    simp only [List.foldl_cons]
    cases q with
    | lit c =>
      have hc : c ≠ '\n' := by intro h; apply hl; simp [h]
      simp only [stepC, if_neg hc, Bool.not_false, Bool.true_and]
      by_cases hsp : c = ' '
      · subst hsp
        simp only [isBlank, decide_true, Bool.true_or, if_true, adv, show (' ' : Char) ≠ '\t' by decide,
          if_false, decide_eq_true_eq, stripLead]
        split
        · exact ih hqs t (w + 1)
        · rw [fold_line_over qcol qs hqs]; simp [substAll_cons, itemValue]
      · by_cases htab : c = '\t'
        · subst htab
          simp only [isBlank, decide_true, Bool.or_true, if_true, adv, decide_eq_true_eq, stripLead,
            show ('\t' : Char) ≠ ' ' by decide, if_false]
          split
          · exact ih hqs t _
          · rw [fold_line_over qcol qs hqs]; simp [substAll_cons, itemValue]
        · have hb : isBlank c = false := by simp [isBlank, hsp, htab]
          simp only [hb, Bool.false_eq_true, if_false, stripLead, if_neg hsp, if_neg htab]
          rw [fold_line_over qcol qs hqs]; simp [substAll_cons, itemValue]
    | esc c =>
      simp only [stepC, stripLead]
      rw [fold_line_over qcol qs hqs]; simp [substAll_cons, itemValue]

/-! ## trimming at a line break -/

def revVal (q : QItem) : List Char := (itemValue q).reverse

theorem substAll_reverse (m : List QItem) : (substAll m).reverse = m.reverse.flatMap revVal := by
  induction m with
  | nil => rfl
  | cons q m ih =>
    rw [substAll_cons, List.reverse_append, ih, List.reverse_cons, List.flatMap_append]
    simp [revVal]

/-- the last character a non-blank item contributes is not a blank, unless the item is a
backslash pair that stands for a blank -/
theorem revVal_head (q : QItem) (h1 : isLitBlank q = false) (h2 : isEscBlank q = false) :
    ∃ x xs, revVal q = x :: xs ∧ isBlank x = false := by
  cases q with
  | lit c => exact ⟨c, [], rfl, by simpa [isLitBlank] using h1⟩
  | esc c =>
    simp only [isEscBlank, Bool.or_eq_false_iff, decide_eq_false_iff_not] at h2
    obtain ⟨⟨hn, hs⟩, ht⟩ := h2
    unfold revVal itemValue escValue
    by_cases h1 : c = 'n'
    · exact ⟨'\n', [], by simp [h1], by decide⟩
    · by_cases h3 : c = '"'
      · exact ⟨'"', [], by simp [h3], by decide⟩
      · by_cases h4 : c = '\\'
        · exact ⟨'\\', [], by simp [h4], by decide⟩
        · exact ⟨c, ['\\'], by simp [h1, hn, h3, h4], by simp [isBlank, hs, ht]⟩

theorem dropWhile_rev (r : List QItem) (T : List Char)
    (hT : T = [] ∨ ∃ x xs, T = x :: xs ∧ isBlank x = false)
    (hok : ∀ q, (r.dropWhile isLitBlank).head? = some q → isEscBlank q = false) :
    (r.flatMap revVal ++ T).dropWhile isBlank = (r.dropWhile isLitBlank).flatMap revVal ++ T := by
  induction r with
  | nil =>
    simp only [List.flatMap_nil, List.nil_append, List.dropWhile_nil]
    rcases hT with h | ⟨x, xs, h, hx⟩
    · rw [h]; rfl
    · rw [h, List.dropWhile_cons, hx]; rfl
  | cons q r ih =>
    by_cases hq : isLitBlank q = true
    · cases q with
      | esc c => simp [isLitBlank] at hq
      | lit c =>
        have hc : isBlank c = true := by simpa [isLitBlank] using hq
        simp only [List.flatMap_cons, revVal, itemValue, List.reverse_cons, List.reverse_nil, List.nil_append,
          List.cons_append, List.dropWhile_cons, hc, if_true, hq]
        apply ih
        intro q' hq'
        apply hok q'
        simp only [List.dropWhile_cons, hq, if_true]
        exact hq'
    · have hq' : isLitBlank q = false := by simpa using hq
      have h2 : isEscBlank q = false := hok q (by simp [hq'])
      obtain ⟨x, xs, hx, hb⟩ := revVal_head q hq' h2
      simp only [List.flatMap_cons, List.dropWhile_cons, hq', Bool.false_eq_true, if_false, hx, List.cons_append, hb]

/-- at a line break the accumulated text loses exactly the blanks `stripTrail` removes from the line -/
theorem trim_substAll (T : List Char) (m : List QItem)
    (hT : T = [] ∨ ∃ x, T.getLast? = some x ∧ isBlank x = false)
    (hok : ∀ q, (stripTrail m).getLast? = some q → isEscBlank q = false) :
    trimC (T ++ substAll m) = T ++ substAll (stripTrail m) := by
  unfold trimC stripTrail
  rw [List.reverse_append, substAll_reverse]
  rw [dropWhile_rev]
  · rw [List.reverse_append, List.reverse_reverse]
    congr 1
    have := substAll_reverse (List.dropWhile isLitBlank m.reverse).reverse
    rw [List.reverse_reverse] at this
    rw [← this, List.reverse_reverse]
  · rcases hT with h | ⟨x, hx, hb⟩
    · left; rw [h]; rfl
    · right
      cases hr : T.reverse with
      | nil =>
        have : T = [] := by simpa using hr
        rw [this] at hx; simp at hx
      | cons y ys =>
        refine ⟨y, ys, rfl, ?_⟩
        have : T.getLast? = some y := by
          rw [List.getLast?_eq_head?_reverse, hr]; rfl
        rw [this] at hx
        injection hx with hx
        rw [hx]; exact hb
  · intro q hq
    apply hok q
    unfold stripTrail
    rw [List.getLast?_reverse]
    exact hq

/-! ## the two strips commute -/

theorem stripTrail_cons (q : QItem) (r : List QItem) :
    stripTrail (q :: r) = if stripTrail r = [] ∧ isLitBlank q = true then [] else q :: stripTrail r := by
  unfold stripTrail
  rw [List.reverse_cons, List.dropWhile_append]
  by_cases h : (List.dropWhile isLitBlank r.reverse).isEmpty = true
  · have h' : List.dropWhile isLitBlank r.reverse = [] := by simpa using h
    rw [if_pos h, h']
    by_cases hq : isLitBlank q = true
    · simp [hq]
    · simp [hq]
  · have h' : List.dropWhile isLitBlank r.reverse ≠ [] := by simpa using h
    rw [if_neg h]
    have : ¬ ((List.dropWhile isLitBlank r.reverse).reverse = [] ∧ isLitBlank q = true) := by
      intro hc; apply h'; simpa using hc.1
    rw [if_neg this]
    simp

theorem stripTrail_nil : stripTrail [] = [] := rfl

theorem stripLead_nil (qcol w : Nat) : stripLead qcol w [] = [] := by simp [stripLead]

theorem strip_comm (qcol : Nat) (l : List QItem) : ∀ w,
    stripTrail (stripLead qcol w l) = stripLead qcol w (stripTrail l) := by
  induction l with
  | nil => intro w; simp [stripLead_nil, stripTrail_nil]
  | cons q r ih =>
    intro w
    cases q with
    | esc c =>
      have h1 : stripLead qcol w (QItem.esc c :: r) = QItem.esc c :: r := by simp [stripLead]
      rw [h1, stripTrail_cons]
      simp [isLitBlank, stripLead]
    | lit c =>
      by_cases hsp : c = ' '
      · subst hsp
        by_cases hle : w + 1 ≤ qcol
        · have h1 : stripLead qcol w (QItem.lit ' ' :: r) = stripLead qcol (w + 1) r := by
            simp [stripLead, hle]
          rw [h1, ih, stripTrail_cons]
          by_cases hr : stripTrail r = []
          · simp [hr, isLitBlank, isBlank, stripLead_nil]
          · simp [hr, stripLead, hle]
        · have h1 : stripLead qcol w (QItem.lit ' ' :: r) = QItem.lit ' ' :: r := by
            simp [stripLead, hle]
          rw [h1, stripTrail_cons]
          by_cases hr : stripTrail r = []
          · simp [hr, isLitBlank, isBlank, stripLead_nil]
          · simp [hr, stripLead, hle]
      · by_cases htab : c = '\t'
        · subst htab
          by_cases hle : (w / 8 + 1) * 8 ≤ qcol
          · have h1 : stripLead qcol w (QItem.lit '\t' :: r) = stripLead qcol ((w / 8 + 1) * 8) r := by
              simp [stripLead, hle]
            rw [h1, ih, stripTrail_cons]
            by_cases hr : stripTrail r = []
            · simp [hr, isLitBlank, isBlank, stripLead_nil]
            · simp [hr, stripLead, hle]
          · have h1 : stripLead qcol w (QItem.lit '\t' :: r) = QItem.lit '\t' :: r := by
              simp [stripLead, hle]
            rw [h1, stripTrail_cons]
            by_cases hr : stripTrail r = []
            · simp [hr, isLitBlank, isBlank, stripLead_nil]
            · simp [hr, stripLead, hle]
        · have h1 : stripLead qcol w (QItem.lit c :: r) = QItem.lit c :: r := by
            simp [stripLead, hsp, htab]
          have hb : isLitBlank (QItem.lit c) = false := by simp [isLitBlank, isBlank, hsp, htab]
          rw [h1, stripTrail_cons]
          simp [hb, stripLead, hsp, htab]

/-- the last item of a line stripped both ways is the last item of the line stripped at its end -/
theorem stripLead_getLast (qcol : Nat) (l : List QItem) : ∀ w q,
    (stripLead qcol w l).getLast? = some q → l.getLast? = some q := by
  induction l with
  | nil => intro w q h; simp [stripLead_nil] at h
  | cons x r ih =>
    intro w q h
    cases x with
    | esc c => simpa [stripLead] using h
    | lit c =>
      by_cases hsp : c = ' '
      · subst hsp
        by_cases hle : w + 1 ≤ qcol
        · have h1 : stripLead qcol w (QItem.lit ' ' :: r) = stripLead qcol (w + 1) r := by
            simp [stripLead, hle]
          rw [h1] at h
          have := ih _ _ h
          rw [List.getLast?_cons, this]; rfl
        · have h1 : stripLead qcol w (QItem.lit ' ' :: r) = QItem.lit ' ' :: r := by
            simp [stripLead, hle]
          rw [h1] at h; exact h
      · by_cases htab : c = '\t'
        · subst htab
          by_cases hle : (w / 8 + 1) * 8 ≤ qcol
          · have h1 : stripLead qcol w (QItem.lit '\t' :: r) = stripLead qcol ((w / 8 + 1) * 8) r := by
              simp [stripLead, hle]
            rw [h1] at h
            have := ih _ _ h
            rw [List.getLast?_cons, this]; rfl
          · have h1 : stripLead qcol w (QItem.lit '\t' :: r) = QItem.lit '\t' :: r := by
              simp [stripLead, hle]
            rw [h1] at h; exact h
        · have h1 : stripLead qcol w (QItem.lit c :: r) = QItem.lit c :: r := by
            simp [stripLead, hsp, htab]
          rw [h1] at h; exact h

/-! ## all lines -/

/-- the first line is not a continuation line -/
def lead (qcol : Nat) (first : Bool) (l : List QItem) : List QItem :=
  if first then l else stripLead qcol 0 l

/-- the lines after passes 1 and 2, when the first of them is (`first = false`) or is not a
continuation line -/
def outLines (qcol : Nat) (first : Bool) (lines : List (List QItem)) : List (List QItem) :=
  match mapInit stripTrail lines with
  | [] => []
  | x :: xs => lead qcol first x :: xs.map (stripLead qcol 0)

theorem outLines_true (qcol : Nat) (raw : List QItem) :
    outLines qcol true (splitLines raw) = strippedLines qcol raw := by
  unfold outLines strippedLines
  cases mapInit stripTrail (splitLines raw) with
  | nil => rfl
  | cons x xs => simp [lead, mapTail]

theorem mapInit_cons2 (f : List QItem → List QItem) (a b : List QItem) (r : List (List QItem)) :
    mapInit f (a :: b :: r) = f a :: mapInit f (b :: r) := by
  simp [mapInit]

theorem outLines_cons2 (qcol : Nat) (first : Bool) (a b : List QItem) (r : List (List QItem)) :
    outLines qcol first (a :: b :: r) = lead qcol first (stripTrail a) :: outLines qcol false (b :: r) := by
  unfold outLines
  rw [mapInit_cons2]
  cases h : mapInit stripTrail (b :: r) with
  | nil => cases r <;> simp [mapInit] at h
  | cons x xs => simp [lead]

theorem outLines_ne_nil (qcol : Nat) (first : Bool) (b : List QItem) (r : List (List QItem)) :
    outLines qcol first (b :: r) ≠ [] := by
  unfold outLines
  cases h : mapInit stripTrail (b :: r) with
  | nil => cases r <;> simp [mapInit] at h
  | cons x xs => simp

theorem joinLines_cons (a : List QItem) (r : List (List QItem)) (hr : r ≠ []) :
    joinLines (a :: r) = a ++ QItem.lit '\n' :: joinLines r := by
  cases r with
  | nil => exact absurd rfl hr
  | cons b r => rfl

theorem stepC_lf (qcol : Nat) (s : QS) : stepC qcol s (.lit '\n') = ⟨trimC s.text ++ ['\n'], false, 0⟩ := by
  simp [stepC]

theorem fold_lines (qcol : Nat) : ∀ (ls : List (List QItem)) (l : List QItem) (first : Bool)
    (T : List Char) (w : Nat),
    (∀ x ∈ l :: ls, noLF x) →
    (T = [] ∨ ∃ x, T.getLast? = some x ∧ isBlank x = false) →
    (first = false → w = 0) →
    (∀ x ∈ (l :: ls).dropLast, ∀ q, (stripTrail x).getLast? = some q → isEscBlank q = false) →
    ((joinLines (l :: ls)).foldl (stepC qcol) ⟨T, first, w⟩).text =
      T ++ substAll (joinLines (outLines qcol first (l :: ls))) := by
  intro ls
  induction ls with
  | nil =>
    intro l first T w hlf _ hw _
    have hl : noLF l := hlf l (by simp)
    simp only [joinLines, outLines, mapInit, List.map_nil]
    cases first with
    | true => rw [fold_line_over qcol l hl]; simp [lead]
    | false =>
      rw [hw rfl, fold_line_notover qcol l hl]; simp [lead]
  | cons l2 ls ih =>
    intro l first T w hlf hT hw hok
    have hl : noLF l := hlf l (by simp)
    rw [joinLines_cons l (l2 :: ls) (by simp), List.foldl_append, List.foldl_cons, stepC_lf]
    rw [outLines_cons2, joinLines_cons _ _ (outLines_ne_nil qcol false l2 ls)]
    have htext : (List.foldl (stepC qcol) ⟨T, first, w⟩ l).text = T ++ substAll (lead qcol first l) := by
      cases first with
      | true => rw [fold_line_over qcol l hl]; simp [lead]
      | false => rw [hw rfl, fold_line_notover qcol l hl]; simp [lead]
    rw [htext]
    have hcomm : stripTrail (lead qcol first l) = lead qcol first (stripTrail l) := by
      cases first with
      | true => simp [lead]
      | false => simp only [lead, Bool.false_eq_true, if_false]; exact strip_comm qcol l 0
    have htrim : trimC (T ++ substAll (lead qcol first l)) = T ++ substAll (lead qcol first (stripTrail l)) := by
      rw [trim_substAll T _ hT, hcomm]
      intro q hq
      rw [hcomm] at hq
      apply hok l (by simp [List.dropLast]) q
      cases first with
      | true => simpa [lead] using hq
      | false =>
        simp only [lead, Bool.false_eq_true, if_false] at hq
        exact stripLead_getLast qcol _ 0 q hq
    rw [htrim]
    rw [ih l2 false _ 0 (fun x hx => hlf x (List.mem_cons_of_mem _ hx))
      (Or.inr ⟨'\n', by simp, by decide⟩) (fun _ => rfl)
      (fun x hx => hok x (by
        simp only [List.dropLast_cons_cons] at hx ⊢
        exact List.mem_cons_of_mem _ hx))]
    simp [substAll_append, substAll_cons, itemValue]

/-- no line of the raw text ends, trailing literal blanks aside, in a backslash pair that stands
for a blank (exclusion (3) of the property) -/
def noEscBlankEnd (raw : List QItem) : Prop :=
  ∀ x ∈ (splitLines raw).dropLast, ∀ q, (stripTrail x).getLast? = some q → isEscBlank q = false

/-- **(b)**: the single-pass loop computes the three passes of RFC 7950 6.1.3 -/
theorem implValue_eq (qcol : Nat) (raw : List QItem) (h : noEscBlankEnd raw) :
    implValue qcol raw = substAll (joinLines (strippedLines qcol raw)) := by
  unfold implValue
  have hj := join_split raw
  cases hs : splitLines raw with
  | nil => exact absurd hs (splitLines_ne_nil raw)
  | cons l ls =>
    rw [hs] at hj
    have := fold_lines qcol ls l true [] qcol (by rw [← hs]; exact split_noLF raw) (Or.inl rfl)
      (fun h => by cases h) (by rw [← hs]; exact h)
    rw [hj] at this
    rw [this, ← hs, outLines_true]
    simp

/-- in pattern mode the loop's text is the value of the string -/
theorem dequote_true (qcol : Nat) (raw : List QItem) (h : noEscBlankEnd raw) :
    dequote true qcol raw = some (implValue qcol raw) := by
  unfold dequote
  rw [subst_true, implValue_eq qcol raw h]

theorem all_validEsc_stripLead (qcol : Nat) (l : List QItem) : ∀ w,
    (stripLead qcol w l).all validEsc = l.all validEsc := by
  induction l with
  | nil => intro w; simp [stripLead_nil]
  | cons x r ih =>
    intro w
    cases x with
    | esc c => simp [stripLead]
    | lit c =>
      unfold stripLead
      split
      · split
        · rw [ih]; simp [validEsc]
        · rfl
      · split
        · split
          · rw [ih]; simp [validEsc]
          · rfl
        · rfl

theorem mem_takeWhile_pos {α : Type} (p : α → Bool) : ∀ (l : List α) (x : α), x ∈ l.takeWhile p → p x = true := by
  intro l
  induction l with
  | nil => intro x h; simp at h
  | cons a r ih =>
    intro x h
    rw [List.takeWhile_cons] at h
    split at h
    · rename_i ha
      simp only [List.mem_cons] at h
      rcases h with h | h
      · rw [h]; exact ha
      · exact ih x h
    · simp at h

theorem all_validEsc_stripTrail (l : List QItem) : (stripTrail l).all validEsc = l.all validEsc := by
  unfold stripTrail
  rw [List.all_reverse]
  have h := @List.takeWhile_append_dropWhile _ isLitBlank l.reverse
  have h2 : l.all validEsc = l.reverse.all validEsc := by rw [List.all_reverse]
  rw [h2, ← h, List.all_append]
  have h3 : (List.takeWhile isLitBlank l.reverse).all validEsc = true := by
    rw [List.all_eq_true]
    intro x hx
    have := mem_takeWhile_pos _ _ _ hx
    cases x with
    | lit c => rfl
    | esc c => simp [isLitBlank] at this
  rw [h3, h]; simp

theorem all_validEsc_join (ls : List (List QItem)) :
    (joinLines ls).all validEsc = ls.all (fun l => l.all validEsc) := by
  induction ls with
  | nil => rfl
  | cons l r ih =>
    cases r with
    | nil => simp [joinLines]
    | cons l2 r =>
      rw [joinLines_cons l (l2 :: r) (by simp), List.all_append, List.all_cons, ih]
      simp [validEsc]

theorem all_validEsc_out (qcol : Nat) : ∀ (ls : List (List QItem)) (first : Bool),
    (outLines qcol first ls).all (fun l => l.all validEsc) = ls.all (fun l => l.all validEsc) := by
  intro ls
  induction ls with
  | nil => intro first; rfl
  | cons l r ih =>
    intro first
    cases r with
    | nil =>
      simp only [outLines, mapInit, List.map_nil, List.all_cons, List.all_nil, Bool.and_true]
      cases first with
      | true => simp [lead]
      | false => simp only [lead, Bool.false_eq_true, if_false]; exact all_validEsc_stripLead qcol l 0
    | cons l2 r =>
      rw [outLines_cons2, List.all_cons, ih false, List.all_cons]
      congr 1
      cases first with
      | true => simp only [lead, if_true]; exact all_validEsc_stripTrail l
      | false =>
        simp only [lead, Bool.false_eq_true, if_false]
        rw [all_validEsc_stripLead, all_validEsc_stripTrail]

/-- outside pattern mode the string has a value only if every backslash pair is one RFC 7950
defines, and then it is the same value -/
theorem dequote_false (qcol : Nat) (raw : List QItem) (h : noEscBlankEnd raw) :
    dequote false qcol raw = if raw.all validEsc then some (implValue qcol raw) else none := by
  unfold dequote
  rw [subst_false, implValue_eq qcol raw h, all_validEsc_join, ← outLines_true, all_validEsc_out,
    ← all_validEsc_join, join_split]

end Goyang.Lemmas.QStr
