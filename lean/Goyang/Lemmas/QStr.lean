/-
(b) The double-quoted-string loop of `lexQString`, abstracted to a fold over the raw items
(`stepC`: one literal character or one backslash pair at a time, exactly the case analysis of the
Go loop, on characters), computes what the three passes of the reference reader compute
(`dequote`): trailing-blank strip, indentation strip, escape substitution.
The only hypothesis is exclusion (3) of the property: no line of the raw text ends — trailing
literal blanks aside — in a blank produced by a backslash pair.  (For the other excluded
constructs implementation and reference reader agree anyway.)
`Lemmas/LexSim.lean` shows that the lexer model really performs this fold, on bytes.
-/
import Goyang.Spec.Parse

namespace Goyang.Lemmas.QStr
open Goyang.Spec.Parse

/-- column after `c`, a tab reaching to the next multiple of 8 -/
def adv (w : Nat) (c : Char) : Nat := if c = '\t' then (w / 8 + 1) * 8 else w + 1

/-- what a backslash pair appends in the Go loop (in pattern mode and otherwise) -/
def escValue (c : Char) : List Char :=
  if c = 'n' then ['\n'] else if c = 't' then ['\t'] else if c = '"' then ['"']
  else if c = '\\' then ['\\'] else ['\\', c]

def itemValue : QItem → List Char
  | .lit c => [c]
  | .esc c => escValue c

/-- pass 3 in pattern mode, as a total function -/
def substAll (l : List QItem) : List Char := l.flatMap itemValue

/-- a backslash pair RFC 7950 defines -/
def validEsc : QItem → Bool
  | .lit _ => true
  | .esc c => c = 'n' || c = 't' || c = '"' || c = '\\'

theorem subst_true (l : List QItem) : subst true l = some (substAll l) := by
  induction l with
  | nil => rfl
  | cons q r ih =>
    cases q with
    | lit c => simp [subst, ih, substAll, itemValue]
    | esc c =>
      simp only [subst, ih, substAll, List.flatMap_cons, itemValue, escValue]
      split
      · simp
      · split
        · simp
        · split
          · simp
          · split <;> simp

theorem subst_false (l : List QItem) :
    subst false l = if l.all validEsc then some (substAll l) else none := by
  induction l with
  | nil => rfl
  | cons q r ih =>
    cases q with
    | lit c =>
      simp only [subst, ih, List.all_cons, validEsc, Bool.true_and]
      split <;> simp [substAll, itemValue]
    | esc c =>
      simp only [subst, ih, List.all_cons, validEsc, substAll, List.flatMap_cons, itemValue, escValue]
      by_cases hr : r.all validEsc = true
      · by_cases h1 : c = 'n'
        · simp [h1, hr]
        · by_cases h2 : c = 't'
          · simp [h2, hr]
          · by_cases h3 : c = '"'
            · simp [h3, hr]
            · by_cases h4 : c = '\\'
              · simp [h4, hr]
              · simp [h1, h2, h3, h4, hr]
      · by_cases h1 : c = 'n'
        · simp [h1, hr]
        · by_cases h2 : c = 't'
          · simp [h2, hr]
          · by_cases h3 : c = '"'
            · simp [h3, hr]
            · by_cases h4 : c = '\\'
              · simp [h4, hr]
              · simp [h1, h2, h3, h4, hr]

/-- the trailing-blank trimming loop, on characters -/
def trimC (t : List Char) : List Char := (t.reverse.dropWhile isBlank).reverse

/-- state of the Go loop: accumulated text, the flag `over`, and — meaningful while `over` is
false — the tab-expanded column `tcol` -/
structure QS where
  text : List Char
  over : Bool
  w : Nat

/-- one iteration of the Go loop -/
def stepC (qcol : Nat) (s : QS) : QItem → QS
  | .lit c =>
    if c = '\n' then ⟨trimC s.text ++ ['\n'], false, 0⟩
    else if isBlank c then
      if !s.over && adv s.w c ≤ qcol then ⟨s.text, false, adv s.w c⟩
      else ⟨s.text ++ [c], true, adv s.w c⟩
    else ⟨s.text ++ [c], true, adv s.w c⟩
  | .esc c => ⟨s.text ++ escValue c, true, s.w⟩

/-- the text the Go loop has accumulated when it meets the closing quote -/
def implValue (qcol : Nat) (raw : List QItem) : List Char :=
  (raw.foldl (stepC qcol) ⟨[], true, qcol⟩).text

/-! ## lines -/

def noLF (l : List QItem) : Prop := QItem.lit '\n' ∉ l

theorem splitLines_ne_nil (raw : List QItem) : splitLines raw ≠ [] := by
  induction raw with
  | nil => simp [splitLines]
  | cons q qs ih =>
    unfold splitLines
    split
    · simp
    · split <;> simp

theorem join_split (raw : List QItem) : joinLines (splitLines raw) = raw := by
  induction raw with
  | nil => rfl
  | cons q qs ih =>
    unfold splitLines
    split
    · rename_i h; exact absurd h (splitLines_ne_nil qs)
    · rename_i l ls h
      rw [h] at ih
      split
      · rename_i hq
        rw [hq]
        simp only [joinLines, List.nil_append]
        rw [ih]
      · cases ls with
        | nil => simp only [joinLines] at ih ⊢; rw [ih]
        | cons l2 ls => simp only [joinLines, List.cons_append] at ih ⊢; rw [ih]

theorem split_noLF (raw : List QItem) : ∀ l ∈ splitLines raw, noLF l := by
  induction raw with
  | nil => intro l hl; simp [splitLines] at hl; subst hl; simp [noLF]
  | cons q qs ih =>
    unfold splitLines
    split
    · rename_i h; exact absurd h (splitLines_ne_nil qs)
    · rename_i l ls h
      rw [h] at ih
      split
      · intro x hx
        simp only [List.mem_cons] at hx
        rcases hx with hx | hx | hx
        · subst hx; simp [noLF]
        · exact ih x (by simp [hx])
        · exact ih x (by simp [hx])
      · rename_i hq
        intro x hx
        simp only [List.mem_cons] at hx
        rcases hx with hx | hx
        · subst hx
          have := ih l (by simp)
          unfold noLF at *
          simp only [List.mem_cons, not_or]
          exact ⟨fun h => hq h.symm, this⟩
        · exact ih x (by simp [hx])

/-! ## one line -/

theorem substAll_append (a b : List QItem) : substAll (a ++ b) = substAll a ++ substAll b := by
  simp [substAll]

theorem substAll_cons (q : QItem) (l : List QItem) : substAll (q :: l) = itemValue q ++ substAll l := by
  simp [substAll]

/-- past the indentation a line is appended as it is -/
theorem fold_line_over (qcol : Nat) (l : List QItem) (hl : noLF l) : ∀ (t : List Char) (w : Nat),
    (l.foldl (stepC qcol) ⟨t, true, w⟩).text = t ++ substAll l := by
  induction l with
  | nil => intro t w; simp [substAll]
  | cons q qs ih =>
    intro t w
    have hqs : noLF qs := fun h => hl (List.mem_cons_of_mem _ h)
    simp only [List.foldl_cons]
    cases q with
    | lit c =>
      have hc : c ≠ '\n' := by intro h; apply hl; simp [h]
      simp only [stepC, if_neg hc, Bool.not_true, Bool.false_and]
      split
      · simp only [Bool.false_eq_true, if_false]
        rw [ih hqs]; simp [substAll_cons, itemValue]
      · rw [ih hqs]; simp [substAll_cons, itemValue]
    | esc c =>
      simp only [stepC]
      rw [ih hqs]; simp [substAll_cons, itemValue]

/-- within the indentation leading blanks are dropped up to the quote column -/
theorem fold_line_notover (qcol : Nat) (l : List QItem) (hl : noLF l) : ∀ (t : List Char) (w : Nat),
    (l.foldl (stepC qcol) ⟨t, false, w⟩).text = t ++ substAll (stripLead qcol w l) := by
  induction l with
  | nil => intro t w; simp [substAll, stripLead]
  | cons q qs ih =>
    intro t w
    have hqs : noLF qs := fun h => hl (List.mem_cons_of_mem _ h)
    simp only [List.foldl_cons]
    cases q with
    | lit c =>
      have hc : c ≠ '\n' := by intro h; apply hl; simp [h]
      simp only [stepC, if_neg hc, Bool.not_false, Bool.true_and]
      by_cases hsp : c = ' '
      · subst hsp
        simp only [isBlank, decide_true, Bool.true_or, if_true, adv, show (' ' : Char) ≠ '\t' by decide,
          if_false, decide_eq_true_eq, stripLead]
        split
        · exact ih hqs t (w + 1)
        · rw [fold_line_over qcol qs hqs]; simp [substAll_cons, itemValue]
      · by_cases htab : c = '\t'
        · subst htab
          simp only [isBlank, decide_true, Bool.or_true, if_true, adv, decide_eq_true_eq, stripLead,
            show ('\t' : Char) ≠ ' ' by decide, if_false]
          split
          · exact ih hqs t _
          · rw [fold_line_over qcol qs hqs]; simp [substAll_cons, itemValue]
        · have hb : isBlank c = false := by simp [isBlank, hsp, htab]
          simp only [hb, Bool.false_eq_true, if_false, stripLead, if_neg hsp, if_neg htab]
          rw [fold_line_over qcol qs hqs]; simp [substAll_cons, itemValue]
    | esc c =>
      simp only [stepC, stripLead]
      rw [fold_line_over qcol qs hqs]; simp [substAll_cons, itemValue]

/-! ## trimming at a line break -/

def revVal (q : QItem) : List Char := (itemValue q).reverse

theorem substAll_reverse (m : List QItem) : (substAll m).reverse = m.reverse.flatMap revVal := by
  induction m with
  | nil => rfl
  | cons q m ih =>
    rw [substAll_cons, List.reverse_append, ih, List.reverse_cons, List.flatMap_append]
    simp [revVal]

/-- the last character a non-blank item contributes is not a blank, unless the item is a
backslash pair that stands for a blank -/
theorem revVal_head (q : QItem) (h1 : isLitBlank q = false) (h2 : isEscBlank q = false) :
    ∃ x xs, revVal q = x :: xs ∧ isBlank x = false := by
  cases q with
  | lit c => exact ⟨c, [], rfl, by simpa [isLitBlank] using h1⟩
  | esc c =>
    simp only [isEscBlank, Bool.or_eq_false_iff, decide_eq_false_iff_not] at h2
    obtain ⟨⟨hn, hs⟩, ht⟩ := h2
    unfold revVal itemValue escValue
    by_cases h1 : c = 'n'
    · exact ⟨'\n', [], by simp [h1], by decide⟩
    · by_cases h3 : c = '"'
      · exact ⟨'"', [], by simp [h3], by decide⟩
      · by_cases h4 : c = '\\'
        · exact ⟨'\\', [], by simp [h4], by decide⟩
        · exact ⟨c, ['\\'], by simp [h1, hn, h3, h4], by simp [isBlank, hs, ht]⟩

theorem dropWhile_rev (r : List QItem) (T : List Char)
    (hT : T = [] ∨ ∃ x xs, T = x :: xs ∧ isBlank x = false)
    (hok : ∀ q, (r.dropWhile isLitBlank).head? = some q → isEscBlank q = false) :
    (r.flatMap revVal ++ T).dropWhile isBlank = (r.dropWhile isLitBlank).flatMap revVal ++ T := by
  induction r with
  | nil =>
    simp only [List.flatMap_nil, List.nil_append, List.dropWhile_nil]
    rcases hT with h | ⟨x, xs, h, hx⟩
    · rw [h]; rfl
    · rw [h, List.dropWhile_cons, hx]; rfl
  | cons q r ih =>
    by_cases hq : isLitBlank q = true
    · cases q with
      | esc c => simp [isLitBlank] at hq
      | lit c =>
        have hc : isBlank c = true := by simpa [isLitBlank] using hq
        simp only [List.flatMap_cons, revVal, itemValue, List.reverse_cons, List.reverse_nil, List.nil_append,
          List.cons_append, List.dropWhile_cons, hc, if_true, hq]
        apply ih
        intro q' hq'
        apply hok q'
        simp only [List.dropWhile_cons, hq, if_true]
        exact hq'
    · have hq' : isLitBlank q = false := by simpa using hq
      have h2 : isEscBlank q = false := hok q (by simp [hq'])
      obtain ⟨x, xs, hx, hb⟩ := revVal_head q hq' h2
      simp only [List.flatMap_cons, List.dropWhile_cons, hq', Bool.false_eq_true, if_false, hx, List.cons_append, hb]

/-- at a line break the accumulated text loses exactly the blanks `stripTrail` removes from the line -/
theorem trim_substAll (T : List Char) (m : List QItem)
    (hT : T = [] ∨ ∃ x, T.getLast? = some x ∧ isBlank x = false)
    (hok : ∀ q, (stripTrail m).getLast? = some q → isEscBlank q = false) :
    trimC (T ++ substAll m) = T ++ substAll (stripTrail m) := by
  unfold trimC stripTrail
  rw [List.reverse_append, substAll_reverse]
  rw [dropWhile_rev]
  · rw [List.reverse_append, List.reverse_reverse]
    congr 1
    have := substAll_reverse (List.dropWhile isLitBlank m.reverse).reverse
    rw [List.reverse_reverse] at this
    rw [← this, List.reverse_reverse]
  · rcases hT with h | ⟨x, hx, hb⟩
    · left; rw [h]; rfl
    · right
      cases hr : T.reverse with
      | nil =>
        have : T = [] := by simpa using hr
        rw [this] at hx; simp at hx
      | cons y ys =>
        refine ⟨y, ys, rfl, ?_⟩
        have : T.getLast? = some y := by
          rw [List.getLast?_eq_head?_reverse, hr]; rfl
        rw [this] at hx
        injection hx with hx
        rw [hx]; exact hb
  · intro q hq
    apply hok q
    unfold stripTrail
    rw [List.getLast?_reverse]
    exact hq

/-! ## the two strips commute -/

theorem stripTrail_cons (q : QItem) (r : List QItem) :
    stripTrail (q :: r) = if stripTrail r = [] ∧ isLitBlank q = true then [] else q :: stripTrail r := by
  unfold stripTrail
  rw [List.reverse_cons, List.dropWhile_append]
  by_cases h : (List.dropWhile isLitBlank r.reverse).isEmpty = true
  · have h' : List.dropWhile isLitBlank r.reverse = [] := by simpa using h
    rw [if_pos h, h']
    by_cases hq : isLitBlank q = true
    · simp [List.dropWhile_cons, hq]
    · simp [List.dropWhile_cons, hq]
  · have h' : List.dropWhile isLitBlank r.reverse ≠ [] := by simpa using h
    rw [if_neg h]
    have : ¬ ((List.dropWhile isLitBlank r.reverse).reverse = [] ∧ isLitBlank q = true) := by
      intro hc; apply h'; simpa using hc.1
    rw [if_neg this]
    simp

theorem stripTrail_nil : stripTrail [] = [] := rfl

theorem stripLead_nil (qcol w : Nat) : stripLead qcol w [] = [] := by simp [stripLead]

theorem strip_comm (qcol : Nat) (l : List QItem) : ∀ w,
    stripTrail (stripLead qcol w l) = stripLead qcol w (stripTrail l) := by
  induction l with
  | nil => intro w; simp [stripLead_nil, stripTrail_nil]
  | cons q r ih =>
    intro w
    cases q with
    | esc c =>
      have h1 : stripLead qcol w (QItem.esc c :: r) = QItem.esc c :: r := by simp [stripLead]
      rw [h1, stripTrail_cons]
      simp [isLitBlank, stripLead]
    | lit c =>
      by_cases hsp : c = ' '
      · subst hsp
        by_cases hle : w + 1 ≤ qcol
        · have h1 : stripLead qcol w (QItem.lit ' ' :: r) = stripLead qcol (w + 1) r := by
            simp [stripLead, hle]
          rw [h1, ih, stripTrail_cons]
          by_cases hr : stripTrail r = []
          · simp [hr, isLitBlank, isBlank, stripLead_nil]
          · simp [hr, stripLead, hle]
        · have h1 : stripLead qcol w (QItem.lit ' ' :: r) = QItem.lit ' ' :: r := by
            simp [stripLead, hle]
          rw [h1, stripTrail_cons]
          by_cases hr : stripTrail r = []
          · simp [hr, isLitBlank, isBlank, stripLead_nil]
          · simp [hr, stripLead, hle]
      · by_cases htab : c = '\t'
        · subst htab
          by_cases hle : (w / 8 + 1) * 8 ≤ qcol
          · have h1 : stripLead qcol w (QItem.lit '\t' :: r) = stripLead qcol ((w / 8 + 1) * 8) r := by
              simp [stripLead, hle]
            rw [h1, ih, stripTrail_cons]
            by_cases hr : stripTrail r = []
            · simp [hr, isLitBlank, isBlank, stripLead_nil]
            · simp [hr, stripLead, hle]
          · have h1 : stripLead qcol w (QItem.lit '\t' :: r) = QItem.lit '\t' :: r := by
              simp [stripLead, hle]
            rw [h1, stripTrail_cons]
            by_cases hr : stripTrail r = []
            · simp [hr, isLitBlank, isBlank, stripLead_nil]
            · simp [hr, stripLead, hle]
        · have h1 : stripLead qcol w (QItem.lit c :: r) = QItem.lit c :: r := by
            simp [stripLead, hsp, htab]
          have hb : isLitBlank (QItem.lit c) = false := by simp [isLitBlank, isBlank, hsp, htab]
          rw [h1, stripTrail_cons]
          simp [hb, stripLead, hsp, htab]

/-- the last item of a line stripped both ways is the last item of the line stripped at its end -/
theorem stripLead_getLast (qcol : Nat) (l : List QItem) : ∀ w q,
    (stripLead qcol w l).getLast? = some q → l.getLast? = some q := by
  induction l with
  | nil => intro w q h; simp [stripLead_nil] at h
  | cons x r ih =>
    intro w q h
    cases x with
    | esc c => simpa [stripLead] using h
    | lit c =>
      by_cases hsp : c = ' '
      · subst hsp
        by_cases hle : w + 1 ≤ qcol
        · have h1 : stripLead qcol w (QItem.lit ' ' :: r) = stripLead qcol (w + 1) r := by
            simp [stripLead, hle]
          rw [h1] at h
          have := ih _ _ h
          rw [List.getLast?_cons, this]; rfl
        · have h1 : stripLead qcol w (QItem.lit ' ' :: r) = QItem.lit ' ' :: r := by
            simp [stripLead, hle]
          rw [h1] at h; exact h
      · by_cases htab : c = '\t'
        · subst htab
          by_cases hle : (w / 8 + 1) * 8 ≤ qcol
          · have h1 : stripLead qcol w (QItem.lit '\t' :: r) = stripLead qcol ((w / 8 + 1) * 8) r := by
              simp [stripLead, hle]
            rw [h1] at h
            have := ih _ _ h
            rw [List.getLast?_cons, this]; rfl
          · have h1 : stripLead qcol w (QItem.lit '\t' :: r) = QItem.lit '\t' :: r := by
              simp [stripLead, hle]
            rw [h1] at h; exact h
        · have h1 : stripLead qcol w (QItem.lit c :: r) = QItem.lit c :: r := by
            simp [stripLead, hsp, htab]
          rw [h1] at h; exact h

end Goyang.Lemmas.QStr
