/-
Helper lemmas for C10, part 2: the model over `Number`s (`Goyang.Model.Range`) is mapped by "take the
signed mantissa" onto the integer-interval algorithms of `Goyang.Lemmas.RangeZ`, for numbers with a
common number of fraction digits `f ≤ 18` and 64-bit magnitudes — including the top of the `uint64`
range, where `addQuantum` wraps and the guard in `coalesce` takes over.  Then: what
`parseChildRanges` accepts and returns, in terms of the reading of the text in `Goyang.Spec.Range`.
Core Lean only.
-/
import Goyang.Lemmas.RangeZ
import Goyang.Lemmas.Number
import Goyang.Lemmas.NumberParse

namespace Goyang.Lemmas.Range
open Goyang.Model.Number Goyang.Model.Range Goyang.Spec.Range Goyang.Lemmas.RangeZ
open Goyang.Spec.Number (num WF)
open Goyang.Lemmas.Number (less_iff equal_iff W_eq H_eq)

/-! ### numbers at a common scale -/

/-- a number with `f` fraction digits and a 64-bit magnitude -/
def NumOk (f : Nat) (n : Number) : Prop := n.fd = f ∧ n.value < W

def PartOk (f : Nat) (r : YRange) : Prop := NumOk f r.min ∧ NumOk f r.max

/-- every bound of the list has `f` fraction digits and a 64-bit magnitude -/
def Uniform (f : Nat) (r : YangRange) : Prop := ∀ p ∈ r, PartOk f p

/-- the interval of mantissas of a part -/
def absP (r : YRange) : Iv := (num r.min, num r.max)

/-- the list of mantissa intervals: the argument of the denotation `⟦·⟧` -/
def abs (r : YangRange) : List Iv := r.map absP

theorem uniform_nil (f : Nat) : Uniform f [] := fun _ h => by cases h

theorem uniform_cons {f : Nat} {p : YRange} {r : YangRange} :
    Uniform f (p :: r) ↔ (PartOk f p ∧ Uniform f r) := by
  unfold Uniform
  constructor
  · intro h
    exact ⟨h p (List.mem_cons_self ..), fun q hq => h q (List.mem_cons_of_mem _ hq)⟩
  · rintro ⟨h1, h2⟩ q hq
    rcases List.mem_cons.mp hq with rfl | hq
    · exact h1
    · exact h2 q hq

theorem numOk_wf {f : Nat} (hf : f ≤ 18) {n : Number} (h : NumOk f n) : WF n := by
  unfold WF
  have := h.2
  rw [W_eq] at this
  exact ⟨this, by rw [h.1]; exact hf⟩

theorem num_bounds {f : Nat} {n : Number} (h : NumOk f n) : -(W : Int) < num n ∧ num n < (W : Int) := by
  have := h.2
  unfold num
  split <;> omega

theorem pow_pos_int (f : Nat) : (0 : Int) < (10 : Int) ^ f := Int.pow_pos (by decide)

/-- at a common scale `Less` compares mantissas -/
theorem less_num {f : Nat} (hf : f ≤ 18) {a b : Number} (ha : NumOk f a) (hb : NumOk f b) :
    less a b = decide (num a < num b) := by
  have h := less_iff a b (numOk_wf hf ha) (numOk_wf hf hb)
  unfold Goyang.Spec.Number.lt at h
  rw [ha.1, hb.1] at h
  have hp := pow_pos_int f
  have h2 : num a * (10 : Int) ^ f < num b * (10 : Int) ^ f ↔ num a < num b :=
    ⟨fun hh => Int.lt_of_mul_lt_mul_right hh (Int.le_of_lt hp), fun hh => Int.mul_lt_mul_of_pos_right hh hp⟩
  rw [h2] at h
  cases hl : less a b
  · have : ¬ num a < num b := fun hh => by rw [h.mpr hh] at hl; cases hl
    simp [this]
  · simp [h.mp hl]

/-- at a common scale `Equal` is equality of mantissas -/
theorem equal_num {f : Nat} (hf : f ≤ 18) {a b : Number} (ha : NumOk f a) (hb : NumOk f b) :
    Goyang.Model.Number.equal a b = decide (num a = num b) := by
  unfold Goyang.Model.Number.equal
  rw [less_num hf ha hb, less_num hf hb ha]
  by_cases h : num a = num b
  · simp [h]
  · simp [h]
    omega

/-! ### addQuantum, also where it wraps -/

theorem addQuantum_ok {f : Nat} {n : Number} (h : NumOk f n) :
    NumOk f (addQuantum n 1) ∧
    num (addQuantum n 1) = if n.neg = false ∧ n.value = W - 1 then 0 else num n + 1 := by
  obtain ⟨hfd, hv⟩ := h
  unfold addQuantum
  cases hn : n.neg
  · -- non-negative: `Value += 1` wraps at 2^64 - 1
    simp only [Bool.false_eq_true, if_false]
    by_cases hw : n.value = W - 1
    · have hz : (n.value + 1) % W = 0 := by
        rw [hw]; unfold W; decide
      refine ⟨⟨hfd, by simp only; rw [hz]; unfold W; decide⟩, ?_⟩
      simp only [hw, and_self, if_true]
      unfold num
      simp only [Bool.false_eq_true, if_false]
      have : (W - 1 + 1) % W = 0 := by unfold W; decide
      simp [this]
    · have hlt : n.value + 1 < W := by omega
      refine ⟨⟨hfd, by simp only; rw [Nat.mod_eq_of_lt hlt]; exact hlt⟩, ?_⟩
      have : ¬ (True ∧ n.value = W - 1) := fun hh => hw hh.2
      simp only [hw, and_false, if_false]
      unfold num
      simp only [Bool.false_eq_true, if_false, hn]
      rw [Nat.mod_eq_of_lt hlt]
      omega
  · simp only [if_true]
    have hne : ¬ (true = false ∧ n.value = W - 1) := fun hh => by cases hh.1
    simp only [hne, if_false]
    by_cases h1 : n.value ≤ 1
    · simp only [h1, if_true]
      refine ⟨⟨hfd, by simp only; unfold W at *; omega⟩, ?_⟩
      unfold num
      simp only [Bool.false_eq_true, if_false, hn, if_true]
      omega
    · simp only [h1, if_false]
      refine ⟨⟨hfd, by simp only; omega⟩, ?_⟩
      unfold num
      simp only [hn, if_true]
      omega

/-! ### Less on parts, sort -/

theorem rangeLess_abs {f : Nat} (hf : f ≤ 18) {a b : YRange} (ha : PartOk f a) (hb : PartOk f b) :
    rangeLess a b = lexLt (absP a) (absP b) := by
  unfold rangeLess lexLt absP
  rw [less_num hf ha.1 hb.1, less_num hf hb.1 ha.1, less_num hf ha.2 hb.2]
  simp only [decide_eq_true_eq]

theorem mem_bubble (x : YRange) (l : List YRange) (r : YRange) : r ∈ bubble x l ↔ (r = x ∨ r ∈ l) := by
  induction l with
  | nil => simp [bubble]
  | cons y ys ih =>
    unfold bubble
    split
    · simp [ih]
      constructor
      · rintro (h | h | h)
        · exact Or.inr (Or.inl h)
        · exact Or.inl h
        · exact Or.inr (Or.inr h)
      · rintro (h | h | h)
        · exact Or.inr (Or.inl h)
        · exact Or.inl h
        · exact Or.inr (Or.inr h)
    · simp

theorem mem_sortLoop (pre l : List YRange) (r : YRange) : r ∈ sortLoop pre l ↔ (r ∈ pre ∨ r ∈ l) := by
  induction l generalizing pre with
  | nil => simp [sortLoop]
  | cons x xs ih =>
    unfold sortLoop
    rw [ih, mem_bubble]
    simp
    constructor
    · rintro ((h | h) | h)
      · exact Or.inr (Or.inl h)
      · exact Or.inl h
      · exact Or.inr (Or.inr h)
    · rintro (h | h | h)
      · exact Or.inl (Or.inr h)
      · exact Or.inl (Or.inl h)
      · exact Or.inr h

theorem mem_sort (l : List YRange) (r : YRange) : r ∈ sort l ↔ r ∈ l := by
  unfold sort; rw [mem_sortLoop]; simp

theorem sort_uniform {f : Nat} {l : YangRange} (h : Uniform f l) : Uniform f (sort l) :=
  fun p hp => h p ((mem_sort l p).mp hp)

theorem bubble_abs {f : Nat} (hf : f ≤ 18) {x : YRange} {l : List YRange} (hx : PartOk f x) (hl : Uniform f l) :
    abs (bubble x l) = bubbleZ (absP x) (abs l) := by
  induction l with
  | nil => rfl
  | cons y ys ih =>
    have hy := uniform_cons.mp hl
    unfold bubble
    simp only [abs, List.map_cons]
    unfold bubbleZ
    rw [rangeLess_abs hf hx hy.1]
    split
    · simp only [List.map_cons]
      have := ih hy.2
      unfold abs at this
      rw [this]
    · rfl

theorem bubble_uniform {f : Nat} {x : YRange} {l : List YRange} (hx : PartOk f x) (hl : Uniform f l) :
    Uniform f (bubble x l) := by
  intro p hp
  rcases (mem_bubble x l p).mp hp with rfl | hp
  · exact hx
  · exact hl p hp

theorem sortLoop_abs {f : Nat} (hf : f ≤ 18) (l pre : List YRange) (hp : Uniform f pre) (hl : Uniform f l) :
    abs (sortLoop pre l) = sortLoopZ (abs pre) (abs l) := by
  induction l generalizing pre with
  | nil => simp [sortLoop, sortLoopZ, abs]
  | cons x xs ih =>
    have hx := uniform_cons.mp hl
    unfold sortLoop
    rw [ih _ (bubble_uniform hx.1 hp) hx.2, bubble_abs hf hx.1 hp]
    simp [abs, sortLoopZ]

theorem sort_abs {f : Nat} (hf : f ≤ 18) {l : YangRange} (hl : Uniform f l) : abs (sort l) = sortZ (abs l) := by
  unfold sort sortZ
  exact sortLoop_abs hf l [] (uniform_nil f) hl

/-! ### coalesce -/

theorem coalesceLoop_abs {f : Nat} (hf : f ≤ 18) (rs : List YRange) : ∀ (cur : YRange), PartOk f cur → Uniform f rs →
    abs (coalesceLoop cur rs) = coalLoopZ (absP cur) (abs rs) ∧ Uniform f (coalesceLoop cur rs) := by
  induction rs with
  | nil =>
    intro cur hc _
    refine ⟨rfl, ?_⟩
    intro p hp
    simp [coalesceLoop] at hp
    subst hp
    exact hc
  | cons r1 rest ih =>
    intro cur hc hrs
    have hr := uniform_cons.mp hrs
    obtain ⟨hnext, hnum⟩ := addQuantum_ok hc.2
    have hb1 := num_bounds hr.1.1
    have hb2 := num_bounds hc.2
    -- the guard is `max + 1 < r1.min` on mantissas, whether or not the addition wrapped
    have hguard : (less cur.max (addQuantum cur.max 1) && less (addQuantum cur.max 1) r1.min)
        = decide (num cur.max + 1 < num r1.min) := by
      rw [less_num hf hc.2 hnext, less_num hf hnext hr.1.1, hnum]
      by_cases hw : cur.max.neg = false ∧ cur.max.value = W - 1
      · simp only [hw, and_self, if_true]
        have hm : num cur.max = (W : Int) - 1 := by
          unfold num
          rw [hw.1, hw.2]
          simp only [Bool.false_eq_true, if_false]
          unfold W; decide
        have h1 : ¬ num cur.max < 0 := by rw [hm]; unfold W; decide
        have h2 : ¬ num cur.max + 1 < num r1.min := by omega
        simp [h1, h2]
      · simp only [hw, if_false]
        have h1 : num cur.max < num cur.max + 1 := by omega
        simp [h1]
    unfold coalesceLoop
    simp only [abs, List.map_cons]
    unfold coalLoopZ
    simp only [hguard, decide_eq_true_eq]
    have habs1 : (absP cur).2 + 1 < (absP r1).1 ↔ num cur.max + 1 < num r1.min := by
      unfold absP; simp
    by_cases hg : num cur.max + 1 < num r1.min
    · have hg' := habs1.mpr hg
      simp only [hg, hg', if_true]
      obtain ⟨ha, hu⟩ := ih r1 hr.1 hr.2
      refine ⟨?_, uniform_cons.mpr ⟨hc, hu⟩⟩
      simp only [List.map_cons]
      unfold abs at ha
      rw [ha]
    · have hg' : ¬ (absP cur).2 + 1 < (absP r1).1 := fun h => hg (habs1.mp h)
      simp only [hg, hg', if_false]
      rw [less_num hf hc.2 hr.1.2]
      simp only [decide_eq_true_eq]
      have habs2 : (absP cur).2 < (absP r1).2 ↔ num cur.max < num r1.max := by
        unfold absP; simp
      by_cases hm : num cur.max < num r1.max
      · have hm' := habs2.mpr hm
        simp only [hm, hm', if_true]
        have hc' : PartOk f { cur with max := r1.max } := ⟨hc.1, hr.1.2⟩
        obtain ⟨ha, hu⟩ := ih _ hc' hr.2
        refine ⟨?_, hu⟩
        unfold abs at ha
        rw [ha]
        rfl
      · have hm' : ¬ (absP cur).2 < (absP r1).2 := fun h => hm (habs2.mp h)
        simp only [hm, hm', if_false]
        obtain ⟨ha, hu⟩ := ih cur hc hr.2
        refine ⟨?_, hu⟩
        unfold abs at ha
        rw [ha]

theorem coalesce_abs {f : Nat} (hf : f ≤ 18) {r : YangRange} (hr : Uniform f r) :
    abs (coalesce r) = coalZ (abs r) ∧ Uniform f (coalesce r) := by
  cases r with
  | nil => exact ⟨rfl, uniform_nil f⟩
  | cons r0 rest =>
    have h := uniform_cons.mp hr
    exact coalesceLoop_abs hf rest r0 h.1 h.2

/-! ### Validate, Equal, Contains -/

theorem isSorted_abs {f : Nat} (hf : f ≤ 18) {r : YangRange} (hr : Uniform f r) : isSorted r = isSortedZ (abs r) := by
  induction r with
  | nil => rfl
  | cons a r ih =>
    cases r with
    | nil => rfl
    | cons b rest =>
      have ha := uniform_cons.mp hr
      have hb := uniform_cons.mp ha.2
      unfold isSorted
      simp only [abs, List.map_cons]
      unfold isSortedZ
      rw [rangeLess_abs hf hb.1 ha.1]
      have := ih ha.2
      simp only [abs, List.map_cons] at this
      rw [this]

theorem validate_abs {f : Nat} (hf : f ≤ 18) {r : YangRange} (hr : Uniform f r) : validate r = validateZ (abs r) := by
  unfold validate validateZ
  rw [isSorted_abs hf hr]
  cases r with
  | nil => rfl
  | cons p rest =>
    have hp := uniform_cons.mp hr
    simp only [abs, List.map_cons]
    unfold YRange.valid
    rw [less_num hf hp.1.2 hp.1.1]
    have hany : ∀ (l : List YRange), Uniform f l →
        l.any (fun n => less n.min p.max) = (l.map absP).any (fun n => decide (n.1 < (absP p).2)) := by
      intro l
      induction l with
      | nil => intro _; rfl
      | cons n l ihl =>
        intro hl
        have hn := uniform_cons.mp hl
        simp only [List.any_cons, List.map_cons]
        rw [ihl hn.2, less_num hf hn.1.1 hp.1.2]
        rfl
    rw [hany rest hp.2]
    rfl

theorem equal_abs {f : Nat} (hf : f ≤ 18) : ∀ (a b : YangRange), Uniform f a → Uniform f b →
    Goyang.Model.Range.equal a b = true → abs a = abs b := by
  intro a
  induction a with
  | nil =>
    intro b _ _ h
    cases b with
    | nil => rfl
    | cons _ _ => simp [Goyang.Model.Range.equal] at h
  | cons x a ih =>
    intro b ha hb h
    cases b with
    | nil => simp [Goyang.Model.Range.equal] at h
    | cons y b =>
      have hx := uniform_cons.mp ha
      have hy := uniform_cons.mp hb
      unfold Goyang.Model.Range.equal at h
      simp only [Bool.and_eq_true] at h
      unfold YRange.equal at h
      rw [equal_num hf hx.1.1 hy.1.1, equal_num hf hx.1.2 hy.1.2] at h
      simp only [Bool.and_eq_true, decide_eq_true_eq] at h
      simp only [abs, List.map_cons]
      have := ih b hx.2 hy.2 h.2
      unfold abs at this
      rw [this]
      unfold absP
      rw [h.1.1, h.1.2]

theorem advance_abs {f : Nat} (hf : f ≤ 18) {x : Number} (hx : NumOk f x) (rest : List YRange) :
    ∀ (cur : YRange), PartOk f cur → Uniform f rest →
    match advance x cur rest with
    | none => advanceZ (num x) (absP cur) (abs rest) = none
    | some (c', r') => advanceZ (num x) (absP cur) (abs rest) = some (absP c', abs r') ∧ PartOk f c' ∧ Uniform f r' := by
  induction rest with
  | nil =>
    intro cur hc _
    unfold advance
    simp only [abs, List.map_nil]
    unfold advanceZ
    rw [less_num hf hc.2 hx]
    by_cases h : num cur.max < num x
    · have h' : (absP cur).2 < num x := h
      simp [h, h']
    · have h' : ¬ (absP cur).2 < num x := h
      simp [h, h']
      exact ⟨hc, uniform_nil f⟩
  | cons n rest' ih =>
    intro cur hc hr
    have hn := uniform_cons.mp hr
    unfold advance
    simp only [abs, List.map_cons]
    unfold advanceZ
    rw [less_num hf hc.2 hx]
    by_cases h : num cur.max < num x
    · have h' : (absP cur).2 < num x := h
      simp only [h, h', decide_true, if_true]
      exact ih n hn.1 hn.2
    · have h' : ¬ (absP cur).2 < num x := h
      simp only [h, h', decide_false, Bool.false_eq_true, if_false]
      exact ⟨rfl, hc, hr⟩

theorem containsLoop_abs {f : Nat} (hf : f ≤ 18) (s : List YRange) : ∀ (cur : YRange) (rest : List YRange),
    PartOk f cur → Uniform f rest → Uniform f s →
    containsLoop cur rest s = containsLoopZ (absP cur) (abs rest) (abs s) := by
  induction s with
  | nil => intro _ _ _ _ _; rfl
  | cons ss more ih =>
    intro cur rest hc hr hs
    have hss := uniform_cons.mp hs
    have hadv := advance_abs hf hss.1.1 rest cur hc hr
    unfold containsLoop
    simp only [abs, List.map_cons]
    unfold containsLoopZ
    have hss1 : (absP ss).1 = num ss.min := rfl
    rw [hss1]
    cases ha : advance ss.min cur rest with
    | none =>
      rw [ha] at hadv
      simp only at hadv
      unfold abs at hadv
      rw [hadv]
    | some p =>
      obtain ⟨c', r'⟩ := p
      rw [ha] at hadv
      simp only at hadv
      obtain ⟨hz, hc', hr'⟩ := hadv
      unfold abs at hz
      rw [hz]
      simp only
      rw [less_num hf hss.1.1 hc'.1, less_num hf hc'.2 hss.1.2]
      have := ih c' r' hc' hr' hss.2
      unfold abs at this
      rw [this]
      rfl

theorem contains_abs {f : Nat} (hf : f ≤ 18) {r s : YangRange} (hr : Uniform f r) (hs : Uniform f s) :
    contains r s = containsZ (abs r) (abs s) := by
  cases r with
  | nil => simp [contains, containsZ, abs]
  | cons cur rest =>
    cases s with
    | nil => simp [contains, containsZ, abs]
    | cons ss more =>
      have h := uniform_cons.mp hr
      unfold contains containsZ
      simp only [abs, List.map_cons]
      exact containsLoop_abs hf (ss :: more) cur rest h.1 h.2 hs

/-! ### strings.Split for "|" and ".." against the generic `splitOn` of the specification -/

theorem splitBar_eq : ∀ (s acc : List UInt8) (fuel : Nat), s.length < fuel →
    splitOnAux [124] fuel s acc = (splitBar s acc).1 :: (splitBar s acc).2 := by
  intro s
  induction s with
  | nil =>
    intro acc fuel h
    cases fuel with
    | zero => cases h
    | succ k => simp [splitOnAux, splitBar]
  | cons c rest ih =>
    intro acc fuel h
    cases fuel with
    | zero => cases h
    | succ k =>
      have hk : rest.length < k := by simp at h; omega
      unfold splitOnAux splitBar
      by_cases hc : c = 124
      · subst hc
        simp only [List.isPrefixOf, beq_self_eq_true, Bool.and_self, if_true, List.length_cons, List.length_nil,
          List.drop_succ_cons, List.drop_zero]
        rw [ih [] k hk]
      · have hne : ((124 : UInt8) == c) = false := by
          simp; exact fun h => hc h.symm
        simp only [List.isPrefixOf, hne, Bool.false_and, Bool.false_eq_true, if_false, hc]
        exact ih (c :: acc) k hk

theorem splitOn_bar (s : List UInt8) : splitOn sepBar s = (splitBar s []).1 :: (splitBar s []).2 :=
  splitBar_eq s [] (s.length + 1) (Nat.lt_succ_self _)

theorem splitDots_eq : ∀ (fuel : Nat) (s acc : List UInt8), s.length < fuel →
    splitOnAux [46, 46] fuel s acc = (splitDots s acc).1 :: (splitDots s acc).2 := by
  intro fuel
  induction fuel with
  | zero => intro s acc h; cases h
  | succ k ih =>
    intro s acc h
    match s with
    | [] => simp [splitOnAux, splitDots]
    | [c] =>
      unfold splitOnAux splitDots
      have : List.isPrefixOf [46, 46] [c] = false := by
        simp [List.isPrefixOf]
      simp only [this, Bool.false_eq_true, if_false]
      cases k <;> simp [splitOnAux]
    | c :: d :: rest =>
      have hk : rest.length < k := by simp at h; omega
      have hk2 : (d :: rest).length < k := by simp at h ⊢; omega
      unfold splitOnAux splitDots
      by_cases hc : c = 46 ∧ d = 46
      · obtain ⟨h1, h2⟩ := hc
        subst h1; subst h2
        simp only [List.isPrefixOf, beq_self_eq_true, Bool.and_self, if_true, List.length_cons, List.length_nil,
          List.drop_succ_cons, List.drop_zero, and_self]
        rw [ih rest [] hk]
      · have hne : List.isPrefixOf [46, 46] (c :: d :: rest) = false := by
          simp only [List.isPrefixOf, Bool.and_true]
          by_cases h1 : c = 46
          · have h2 : ¬ d = 46 := fun h2 => hc ⟨h1, h2⟩
            have : ((46 : UInt8) == d) = false := by simp; exact fun h => h2 h.symm
            simp [this]
          · have : ((46 : UInt8) == c) = false := by simp; exact fun h => h1 h.symm
            simp [this]
        simp only [hne, Bool.false_eq_true, if_false, hc]
        exact ih (d :: rest) (c :: acc) hk2

theorem splitOn_dots (s : List UInt8) : splitOn sepDots s = (splitDots s []).1 :: (splitDots s []).2 :=
  splitDots_eq (s.length + 1) s [] (Nat.lt_succ_self _)

/-! ### what `parseChildRanges` accepts and returns -/

/-- the scales of the property: integers (also lengths) and decimal64 at 1 to 18 fraction digits -/
def ScaleOk (dec : Bool) (f : Nat) : Prop := (dec = false ∧ f = 0) ∨ (dec = true ∧ 1 ≤ f ∧ f ≤ 18)

theorem ScaleOk.le {dec : Bool} {f : Nat} (h : ScaleOk dec f) : f ≤ 18 := by
  rcases h with ⟨_, h⟩ | ⟨_, _, h⟩ <;> omega

/-- a parent set: at the scale of the type, sorted, disjoint and coalesced -/
def ParentOk (f : Nat) (y : YangRange) : Prop := Uniform f y ∧ SDC (abs y)

theorem kw_ne : Goyang.Model.Range.kwMin ≠ Goyang.Model.Range.kwMax := by decide

theorem highest_abs {f : Nat} {y : YangRange} (hy : ParentOk f y) (l : YRange) (hl : y.getLast? = some l) :
    highest (abs y) = some (num l.max) ∧ NumOk f l.max := by
  cases y with
  | nil => simp at hl
  | cons r rs =>
    have hne : (r :: rs) ≠ [] := List.cons_ne_nil _ _
    have hlast : (r :: rs).getLast hne = l := by
      rw [List.getLast?_eq_some_getLast hne] at hl
      exact Option.some.inj hl
    have hmem : l ∈ r :: rs := by rw [← hlast]; exact List.getLast_mem hne
    refine ⟨?_, (hy.1 l hmem).2⟩
    have hs := hy.2
    simp only [abs, List.map_cons] at hs ⊢
    rw [highest_sdc hs]
    have : (absP r :: List.map absP rs) = List.map absP (r :: rs) := rfl
    simp only [this, List.getLast_map, hlast]
    rfl

theorem lowest_abs {f : Nat} {y : YangRange} (hy : ParentOk f y) (h : YRange) (hh : y.head? = some h) :
    lowest (abs y) = some (num h.min) ∧ NumOk f h.min := by
  cases y with
  | nil => simp at hh
  | cons r rs =>
    simp at hh
    subst hh
    refine ⟨?_, (hy.1 r (List.mem_cons_self ..)).1⟩
    have hs := hy.2
    simp only [abs, List.map_cons] at hs ⊢
    rw [lowest_sdc hs]
    rfl

/-- a boundary that the Go code accepts: it is a boundary of the grammar, and its value is the mantissa -/
theorem parseNumber_ok {dec : Bool} {f : Nat} (hsc : ScaleOk dec f) {y : YangRange} (hy : ParentOk f y)
    (t : List UInt8) (n : Number) (h : parseNumber y dec f (trimSpace t) = .ok n) :
    NumOk f n ∧ ∃ b, readBound (lit dec f) t = some b ∧ b.eval (abs y) = some (num n) := by
  unfold parseNumber at h
  unfold readBound trim
  by_cases hmax : trimSpace t = Goyang.Model.Range.kwMax
  · have hmin : ¬ trimSpace t = Goyang.Spec.Range.kwMin := by
      rw [hmax]; decide
    have hmax' : trimSpace t = Goyang.Spec.Range.kwMax := hmax
    simp only [hmax, if_true] at h
    cases hl : y.getLast? with
    | none => rw [hl] at h; cases h
    | some l =>
      rw [hl] at h
      simp only [Except.ok.injEq] at h
      subst h
      obtain ⟨hhi, hok⟩ := highest_abs hy l hl
      refine ⟨⟨rfl, hok.2⟩, .max, by rw [if_neg hmin, if_pos hmax'], ?_⟩
      simp only [Bound.eval, hhi]
      rfl
  · simp only [hmax, if_false] at h
    have hmax' : ¬ trimSpace t = Goyang.Spec.Range.kwMax := hmax
    by_cases hmin : trimSpace t = Goyang.Model.Range.kwMin
    · have hmin' : trimSpace t = Goyang.Spec.Range.kwMin := hmin
      simp only [hmin, if_true] at h
      cases hl : y.head? with
      | none => rw [hl] at h; cases h
      | some hd =>
        rw [hl] at h
        simp only [Except.ok.injEq] at h
        subst h
        obtain ⟨hlo, hok⟩ := lowest_abs hy hd hl
        refine ⟨⟨rfl, hok.2⟩, .min, by rw [if_pos hmin'], ?_⟩
        simp only [Bound.eval, hlo]
        rfl
    · simp only [hmin, if_false] at h
      have hmin' : ¬ trimSpace t = Goyang.Spec.Range.kwMin := hmin
      cases hd : dec with
      | true =>
        simp only [hd, if_true] at h
        cases hp : parseDecimal (trimSpace t) f with
        | error e => rw [hp] at h; cases h
        | ok m =>
          rw [hp] at h
          simp only [Except.ok.injEq] at h
          subst h
          have hwf := Goyang.Lemmas.Number.parseDecimal_wf _ _ _ hp
          refine ⟨⟨hwf.1, by have := hwf.2.2.2; unfold W; omega⟩, .lit (num m), ?_, rfl⟩
          simp [hmin', hmax', lit, hp]
      | false =>
        simp only [hd, Bool.false_eq_true, if_false] at h
        cases hp : parseInt (trimSpace t) with
        | error e => rw [hp] at h; cases h
        | ok m =>
          rw [hp] at h
          simp only [Except.ok.injEq] at h
          subst h
          have hwf := Goyang.Lemmas.Number.parseInt_wf _ _ hp
          have hf0 : f = 0 := by
            rcases hsc with ⟨_, h0⟩ | ⟨h1, _⟩
            · exact h0
            · rw [hd] at h1; cases h1
          refine ⟨⟨by rw [hwf.1, hf0], by have := hwf.2; unfold W; omega⟩, .lit (num m), ?_, rfl⟩
          simp [hmin', hmax', lit, hp]

/-- a boundary that the Go code rejects is not a boundary of the grammar, or a keyword without a parent -/
theorem parseNumber_err {dec : Bool} {f : Nat} {y : YangRange}
    (t : List UInt8) (e : RangeErr) (h : parseNumber y dec f (trimSpace t) = .error e) :
    ∀ b, readBound (lit dec f) t = some b → b.eval (abs y) = none := by
  intro b hb
  unfold parseNumber at h
  unfold readBound trim at hb
  by_cases hmax : trimSpace t = Goyang.Model.Range.kwMax
  · have hmin : ¬ trimSpace t = Goyang.Spec.Range.kwMin := by
      rw [hmax]; decide
    have hmax' : trimSpace t = Goyang.Spec.Range.kwMax := hmax
    simp only [hmax, if_true] at h
    rw [if_neg hmin, if_pos hmax'] at hb
    simp only [Option.some.injEq] at hb
    subst hb
    cases hl : y.getLast? with
    | none =>
      have : y = [] := List.getLast?_eq_none_iff.mp hl
      subst this
      rfl
    | some l => rw [hl] at h; cases h
  · simp only [hmax, if_false] at h
    have hmax' : ¬ trimSpace t = Goyang.Spec.Range.kwMax := hmax
    by_cases hmin : trimSpace t = Goyang.Model.Range.kwMin
    · have hmin' : trimSpace t = Goyang.Spec.Range.kwMin := hmin
      simp only [hmin, if_true] at h
      rw [if_pos hmin'] at hb
      simp only [Option.some.injEq] at hb
      subst hb
      cases hl : y.head? with
      | none =>
        have : y = [] := List.head?_eq_none_iff.mp hl
        subst this
        rfl
      | some hd => rw [hl] at h; cases h
    · simp only [hmin, if_false] at h
      have hmin' : ¬ trimSpace t = Goyang.Spec.Range.kwMin := hmin
      rw [if_neg hmin', if_neg hmax'] at hb
      exfalso
      cases hd : dec with
      | true =>
        simp only [hd, if_true] at h
        cases hp : parseDecimal (trimSpace t) f with
        | error e' => simp [lit, hd, hp] at hb
        | ok m => rw [hp] at h; cases h
      | false =>
        simp only [hd, Bool.false_eq_true, if_false] at h
        cases hp : parseInt (trimSpace t) with
        | error e' => simp [lit, hd, hp] at hb
        | ok m => rw [hp] at h; cases h

/-- a part that the Go code accepts -/
theorem parsePart_ok {dec : Bool} {f : Nat} (hsc : ScaleOk dec f) {y : YangRange} (hy : ParentOk f y)
    (p : List UInt8) (r : YRange) (h : parsePart y dec f p = .ok r) :
    PartOk f r ∧ (absP r).1 ≤ (absP r).2 ∧
      ∃ w, readPart (lit dec f) p = some w ∧ Part.eval (abs y) w = some (absP r) := by
  unfold parsePart at h
  unfold readPart
  rw [splitOn_dots]
  simp only at h
  generalize (splitDots p []).1 = p0 at h ⊢
  generalize (splitDots p []).2 = more at h ⊢
  cases hmin : parseNumber y dec f (trimSpace p0) with
  | error e => rw [hmin] at h; cases h
  | ok mn =>
    rw [hmin] at h
    simp only at h
    obtain ⟨hmnok, bmin, hbmin, hemin⟩ := parseNumber_ok hsc hy p0 mn hmin
    have hf := hsc.le
    match more, h with
    | [], h =>
      simp only at h
      rw [less_num hf hmnok hmnok] at h
      simp only [Int.lt_irrefl, decide_false, Bool.false_eq_true, if_false, Except.ok.injEq] at h
      subst h
      refine ⟨⟨hmnok, hmnok⟩, Int.le_refl _, (bmin, bmin), by simp [hbmin], ?_⟩
      simp [Part.eval, hemin, absP]
    | [p1], h =>
      simp only at h
      cases hmax : parseNumber y dec f (trimSpace p1) with
      | error e => rw [hmax] at h; cases h
      | ok mx =>
        rw [hmax] at h
        simp only at h
        obtain ⟨hmxok, bmax, hbmax, hemax⟩ := parseNumber_ok hsc hy p1 mx hmax
        rw [less_num hf hmxok hmnok] at h
        by_cases hlt : num mx < num mn
        · simp [hlt] at h
        · simp only [hlt, decide_false, Bool.false_eq_true, if_false, Except.ok.injEq] at h
          subst h
          refine ⟨⟨hmnok, hmxok⟩, by simp only [absP]; omega, (bmin, bmax), by simp [hbmin, hbmax], ?_⟩
          simp [Part.eval, hemin, hemax, absP]
    | _ :: _ :: _, h => simp at h

/-- a part that the Go code rejects: not a part of the grammar, or a boundary without value, or out of order -/
theorem parsePart_err {dec : Bool} {f : Nat} (hsc : ScaleOk dec f) {y : YangRange} (hy : ParentOk f y)
    (p : List UInt8) (e : RangeErr) (h : parsePart y dec f p = .error e) :
    ∀ w iv, readPart (lit dec f) p = some w → Part.eval (abs y) w = some iv → ¬ iv.1 ≤ iv.2 := by
  intro w iv hw hiv
  unfold parsePart at h
  unfold readPart at hw
  rw [splitOn_dots] at hw
  simp only at h
  generalize (splitDots p []).1 = p0 at h hw
  generalize (splitDots p []).2 = more at h hw
  have hf := hsc.le
  cases hmin : parseNumber y dec f (trimSpace p0) with
  | error e' =>
    have hn := parseNumber_err p0 e' hmin
    match more, hw with
    | [], hw =>
      simp only [Option.map_eq_some_iff] at hw
      obtain ⟨b, hb, rfl⟩ := hw
      simp [Part.eval, hn b hb] at hiv
    | [p1], hw =>
      simp only at hw
      cases hb0 : readBound (lit dec f) p0 with
      | none => simp [hb0] at hw
      | some b0 =>
        cases hb1 : readBound (lit dec f) p1 with
        | none => simp [hb0, hb1] at hw
        | some b1 =>
          simp [hb0, hb1] at hw
          subst hw
          simp [Part.eval, hn b0 hb0] at hiv
    | _ :: _ :: _, hw => simp at hw
  | ok mn =>
    rw [hmin] at h
    simp only at h
    obtain ⟨hmnok, bmin, hbmin, hemin⟩ := parseNumber_ok hsc hy p0 mn hmin
    match more, h, hw with
    | [], h, _ =>
      simp only at h
      rw [less_num hf hmnok hmnok] at h
      simp at h
    | [p1], h, hw =>
      simp only at h hw
      cases hmax : parseNumber y dec f (trimSpace p1) with
      | error e' =>
        have hn := parseNumber_err p1 e' hmax
        cases hb1 : readBound (lit dec f) p1 with
        | none => simp [hbmin, hb1] at hw
        | some b1 =>
          simp [hbmin, hb1] at hw
          subst hw
          simp [Part.eval, hemin, hn b1 hb1] at hiv
      | ok mx =>
        rw [hmax] at h
        simp only at h
        obtain ⟨hmxok, bmax, hbmax, hemax⟩ := parseNumber_ok hsc hy p1 mx hmax
        rw [less_num hf hmxok hmnok] at h
        by_cases hlt : num mx < num mn
        · simp [hbmin, hbmax] at hw
          subst hw
          simp [Part.eval, hemin, hemax] at hiv
          subst hiv
          simp only
          omega
        · simp [hlt] at h
    | _ :: _ :: _, _, hw => simp at hw

theorem ordered_iff (ivs : List Iv) : ordered ivs = true ↔ AllValid ivs := by
  unfold ordered AllValid
  simp [List.all_eq_true]

theorem allValid_cons {r : Iv} {rs : List Iv} : AllValid (r :: rs) ↔ (r.1 ≤ r.2 ∧ AllValid rs) := by
  unfold AllValid
  constructor
  · intro h
    exact ⟨h r (List.mem_cons_self ..), fun q hq => h q (List.mem_cons_of_mem _ hq)⟩
  · rintro ⟨h1, h2⟩ q hq
    rcases List.mem_cons.mp hq with rfl | hq
    · exact h1
    · exact h2 q hq

theorem parseParts_ok {dec : Bool} {f : Nat} (hsc : ScaleOk dec f) {y : YangRange} (hy : ParentOk f y)
    (ps : List (List UInt8)) : ∀ (rs : YangRange), parseParts y dec f ps = .ok rs →
    Uniform f rs ∧ AllValid (abs rs) ∧ rs.length = ps.length ∧
      ∃ w, readParts (lit dec f) ps = some w ∧ writtenIvs (abs y) w = some (abs rs) := by
  induction ps with
  | nil =>
    intro rs h
    simp only [parseParts, Except.ok.injEq] at h
    subst h
    exact ⟨uniform_nil f, (fun _ h => by cases h), rfl, [], rfl, rfl⟩
  | cons p ps ih =>
    intro rs h
    unfold parseParts at h
    cases hp : parsePart y dec f p with
    | error e => rw [hp] at h; cases h
    | ok r =>
      rw [hp] at h
      simp only at h
      cases hps : parseParts y dec f ps with
      | error e => rw [hps] at h; cases h
      | ok rs' =>
        rw [hps] at h
        simp only [Except.ok.injEq] at h
        subst h
        obtain ⟨hu, hv, hlen, w', hw', hiv'⟩ := ih rs' hps
        obtain ⟨hpok, hord, w, hw, hiv⟩ := parsePart_ok hsc hy p r hp
        refine ⟨uniform_cons.mpr ⟨hpok, hu⟩, ?_, by simp [hlen], w :: w', ?_, ?_⟩
        · simp only [abs, List.map_cons]
          exact allValid_cons.mpr ⟨hord, hv⟩
        · simp [readParts, hw, hw']
        · unfold writtenIvs
          rw [hiv, hiv']
          rfl

theorem parseParts_err {dec : Bool} {f : Nat} (hsc : ScaleOk dec f) {y : YangRange} (hy : ParentOk f y)
    (ps : List (List UInt8)) : ∀ (e : RangeErr), parseParts y dec f ps = .error e →
    ∀ w ivs, readParts (lit dec f) ps = some w → writtenIvs (abs y) w = some ivs → ¬ AllValid ivs := by
  induction ps with
  | nil => intro e h; simp [parseParts] at h
  | cons p ps ih =>
    intro e h w ivs hw hivs hall
    unfold readParts at hw
    cases hrp : readPart (lit dec f) p with
    | none => simp [hrp] at hw
    | some w0 =>
      cases hrps : readParts (lit dec f) ps with
      | none => simp [hrp, hrps] at hw
      | some ws =>
        simp [hrp, hrps] at hw
        subst hw
        unfold writtenIvs at hivs
        cases he : Part.eval (abs y) w0 with
        | none => simp [he] at hivs
        | some iv =>
          cases hes : writtenIvs (abs y) ws with
          | none => simp [he, hes] at hivs
          | some ivs' =>
            simp [he, hes] at hivs
            subst hivs
            have hall' := allValid_cons.mp hall
            unfold parseParts at h
            cases hp : parsePart y dec f p with
            | error e' => exact parsePart_err hsc hy p e' hp w0 iv hrp he hall'.1
            | ok r =>
              rw [hp] at h
              simp only at h
              cases hps : parseParts y dec f ps with
              | error e' => exact ih e' hps ws ivs' hrps hes hall'.2
              | ok rs' => rw [hps] at h; cases h

/-- What an accepted restriction is: the text reads as parts `w` whose values `ivs` (with `min`/`max`
the parent's bounds) are all in order; the result denotes their union, is sorted, disjoint and
coalesced, at the scale of the type, not empty, and lies within the parent's set. -/
theorem parse_ok {dec : Bool} {f : Nat} (hsc : ScaleOk dec f) {y : YangRange} (hy : ParentOk f y)
    (s : List UInt8) (r : YangRange) (h : parseChildRanges y s dec f = .ok r) :
    ∃ w ivs, read (lit dec f) s = some w ∧ writtenIvs (abs y) w = some ivs ∧ AllValid ivs ∧
      (∀ x, Mem x (abs r) ↔ Mem x ivs) ∧ SDC (abs r) ∧ Uniform f r ∧ r ≠ [] ∧
      (y = [] ∨ Within (abs r) (abs y)) := by
  have hf := hsc.le
  unfold parseChildRanges at h
  simp only at h
  cases hps : parseParts y dec f ((splitBar s []).1 :: (splitBar s []).2) with
  | error e => rw [hps] at h; cases h
  | ok rs =>
    rw [hps] at h
    simp only at h
    obtain ⟨hu, hv, hlen, w, hw, hiv⟩ := parseParts_ok hsc hy _ rs hps
    have hsu := sort_uniform hu
    obtain ⟨hcabs, hcu⟩ := coalesce_abs hf hsu
    have hsabs := sort_abs hf hu
    have hspec := coalZ_spec (sortZ (abs rs)) (sortZ_allValid _ hv) (sortZ_sortedLo _)
    have hsdc : SDC (abs (coalesce (sort rs))) := by rw [hcabs, hsabs]; exact hspec.1
    have hmem : ∀ x, Mem x (abs (coalesce (sort rs))) ↔ Mem x (abs rs) := by
      intro x; rw [hcabs, hsabs, hspec.2 x, sortZ_mem]
    by_cases hc : contains y (coalesce (sort rs)) = true
    · simp only [hc, Bool.not_true, Bool.false_eq_true, if_false] at h
      rw [validate_abs hf hcu, validateZ_sdc _ hsdc] at h
      simp only [Except.ok.injEq] at h
      subst h
      have hne : coalesce (sort rs) ≠ [] := by
        have h1 : abs rs ≠ [] := by
          intro he
          have : rs.length = 0 := by
            have := congrArg List.length he
            simpa [abs] using this
          rw [hlen] at this
          simp at this
        have h2 := coalZ_ne_nil _ (sortZ_ne_nil _ h1)
        intro he
        rw [← hsabs, ← hcabs, he] at h2
        exact h2 rfl
      rw [contains_abs hf hy.1 hcu, containsZ_iff _ _ hy.2 hsdc] at hc
      refine ⟨w, abs rs, by unfold Goyang.Spec.Range.read; rw [splitOn_bar]; exact hw, hiv, hv, hmem, hsdc, hcu, hne, ?_⟩
      rcases hc with hc | hc
      · left
        cases y with
        | nil => rfl
        | cons _ _ => simp [abs] at hc
      · exact Or.inr hc
    · simp [hc] at h

/-- What a rejected restriction is: whenever the text reads as parts with values all in order, the
parent is not empty and the written set is not inside the parent's set. -/
theorem parse_err {dec : Bool} {f : Nat} (hsc : ScaleOk dec f) {y : YangRange} (hy : ParentOk f y)
    (s : List UInt8) (e : RangeErr) (h : parseChildRanges y s dec f = .error e) :
    ∀ w ivs, read (lit dec f) s = some w → writtenIvs (abs y) w = some ivs → AllValid ivs →
      (y ≠ [] ∧ ¬ Within ivs (abs y)) := by
  intro w ivs hw hivs hall
  have hf := hsc.le
  unfold Goyang.Spec.Range.read at hw
  rw [splitOn_bar] at hw
  unfold parseChildRanges at h
  simp only at h
  cases hps : parseParts y dec f ((splitBar s []).1 :: (splitBar s []).2) with
  | error e' => exact absurd hall (parseParts_err hsc hy _ e' hps w ivs hw hivs)
  | ok rs =>
    rw [hps] at h
    simp only at h
    obtain ⟨hu, hv, hlen, w', hw', hiv'⟩ := parseParts_ok hsc hy _ rs hps
    rw [hw] at hw'
    simp only [Option.some.injEq] at hw'
    subst hw'
    rw [hivs] at hiv'
    simp only [Option.some.injEq] at hiv'
    subst hiv'
    have hsu := sort_uniform hu
    obtain ⟨hcabs, hcu⟩ := coalesce_abs hf hsu
    have hsabs := sort_abs hf hu
    have hspec := coalZ_spec (sortZ (abs rs)) (sortZ_allValid _ hv) (sortZ_sortedLo _)
    have hsdc : SDC (abs (coalesce (sort rs))) := by rw [hcabs, hsabs]; exact hspec.1
    have hmem : ∀ x, Mem x (abs (coalesce (sort rs))) ↔ Mem x (abs rs) := by
      intro x; rw [hcabs, hsabs, hspec.2 x, sortZ_mem]
    by_cases hc : contains y (coalesce (sort rs)) = true
    · simp only [hc, Bool.not_true, Bool.false_eq_true, if_false] at h
      rw [validate_abs hf hcu, validateZ_sdc _ hsdc] at h
      cases h
    · rw [contains_abs hf hy.1 hcu] at hc
      have hc' : ¬ (abs y = [] ∨ Within (abs (coalesce (sort rs))) (abs y)) :=
        fun hh => hc ((containsZ_iff _ _ hy.2 hsdc).mpr hh)
      refine ⟨?_, ?_⟩
      · intro hy0
        apply hc'
        left
        rw [hy0]
        rfl
      · intro hwi
        apply hc'
        right
        intro x hx
        exact hwi x ((hmem x).mp hx)

/-- parts that tie under `YangRange.Less` have the same mantissas: they denote the same interval and
differ at most in the sign of a zero bound -/
theorem rangeLess_tie {f : Nat} (hf : f ≤ 18) {a b : YRange} (ha : PartOk f a) (hb : PartOk f b)
    (h1 : rangeLess a b = false) (h2 : rangeLess b a = false) : absP a = absP b := by
  rw [rangeLess_abs hf ha hb, lexLt_false_iff] at h1
  rw [rangeLess_abs hf hb ha, lexLt_false_iff] at h2
  unfold LexLe at h1 h2
  apply Prod.ext <;> omega

/-! ### the built-in ranges are legitimate parents -/

theorem intRange_ok (lo hi : Nat) (hlo : lo < W) (hhi : hi < W) : ParentOk 0 (intRange lo hi) ∧ intRange lo hi ≠ [] := by
  refine ⟨⟨?_, ?_⟩, by simp [intRange]⟩
  · intro p hp
    simp [intRange] at hp
    subst hp
    exact ⟨⟨rfl, hlo⟩, ⟨rfl, hhi⟩⟩
  · simp only [abs, intRange, List.map, absP, num, SDC]
    simp

theorem uintRange_ok (hi : Nat) (hhi : hi < W) : ParentOk 0 (uintRange hi) ∧ uintRange hi ≠ [] := by
  refine ⟨⟨?_, ?_⟩, by simp [uintRange]⟩
  · intro p hp
    simp [uintRange] at hp
    subst hp
    exact ⟨⟨rfl, by show (0 : Nat) < W; unfold W; omega⟩, ⟨rfl, hhi⟩⟩
  · simp only [abs, uintRange, List.map, absP, num, SDC]
    simp

end Goyang.Lemmas.Range
