/-
Helper lemmas for C10, part 1: the algorithms of the range code (insertion sort, coalesce,
Validate, Contains) written over integer intervals, and what they compute in terms of the
denotation of `Goyang.Spec.Range`.  Part 2 (`Goyang.Lemmas.Range`) shows that the model over
`Number`s is mapped onto these by taking mantissas, including at the 64-bit extremes.

`coalLoopZ` and its two theorems are the design-round spike `design-spikes/Coal.lean`.
Core Lean only.
-/
import Goyang.Spec.Range
import Goyang.Model.Range

namespace Goyang.Lemmas.RangeZ
open Goyang.Spec.Range
open Goyang.Model.Range (RangeErr)

/-! ### denotation basics -/

def AllValid (l : List Iv) : Prop := ∀ r ∈ l, r.1 ≤ r.2
def SortedLo (l : List Iv) : Prop := l.Pairwise (fun a b => a.1 ≤ b.1)

theorem mem_nil (x : Int) : ¬ Mem x [] := by
  rintro ⟨r, hr, _⟩; cases hr

theorem mem_cons (x : Int) (r : Iv) (rs : List Iv) :
    Mem x (r :: rs) ↔ ((r.1 ≤ x ∧ x ≤ r.2) ∨ Mem x rs) := by
  unfold Mem
  constructor
  · rintro ⟨q, hq, h⟩
    rcases List.mem_cons.mp hq with rfl | hq
    · exact Or.inl h
    · exact Or.inr ⟨q, hq, h⟩
  · rintro (h | ⟨q, hq, h⟩)
    · exact ⟨r, List.mem_cons_self .., h⟩
    · exact ⟨q, List.mem_cons_of_mem _ hq, h⟩

theorem mem_append (x : Int) (a b : List Iv) : Mem x (a ++ b) ↔ (Mem x a ∨ Mem x b) := by
  unfold Mem
  constructor
  · rintro ⟨q, hq, h⟩
    rcases List.mem_append.mp hq with hq | hq
    · exact Or.inl ⟨q, hq, h⟩
    · exact Or.inr ⟨q, hq, h⟩
  · rintro (⟨q, hq, h⟩ | ⟨q, hq, h⟩)
    · exact ⟨q, List.mem_append_left _ hq, h⟩
    · exact ⟨q, List.mem_append_right _ hq, h⟩

/-- membership in the denotation only depends on which parts occur -/
theorem mem_congr {a b : List Iv} (h : ∀ r, r ∈ a ↔ r ∈ b) (x : Int) : Mem x a ↔ Mem x b := by
  unfold Mem
  constructor
  · rintro ⟨q, hq, hx⟩; exact ⟨q, (h q).mp hq, hx⟩
  · rintro ⟨q, hq, hx⟩; exact ⟨q, (h q).mpr hq, hx⟩

theorem memB_iff (x : Int) (rs : List Iv) : memB x rs = true ↔ Mem x rs := by
  unfold memB Mem
  simp [List.any_eq_true]

theorem sdcB_iff (rs : List Iv) : sdcB rs = true ↔ SDC rs := by
  induction rs with
  | nil => simp [sdcB, SDC]
  | cons r rs ih =>
    cases rs with
    | nil => simp [sdcB, SDC]
    | cons s rest => simp [sdcB, SDC, ih, and_assoc]

/-! ### SDC -/

theorem sdc_tail {r : Iv} {rs : List Iv} (h : SDC (r :: rs)) : SDC rs := by
  cases rs with
  | nil => trivial
  | cons s rest => exact h.2.2

theorem sdc_head {r : Iv} {rs : List Iv} (h : SDC (r :: rs)) : r.1 ≤ r.2 := by
  cases rs with
  | nil => exact h
  | cons s rest => exact h.1

theorem sdc_allValid {rs : List Iv} (h : SDC rs) : AllValid rs := by
  induction rs with
  | nil => intro r hr; cases hr
  | cons r rs ih =>
    intro q hq
    rcases List.mem_cons.mp hq with rfl | hq
    · exact sdc_head h
    · exact ih (sdc_tail h) q hq

/-- every later part starts beyond the end of the first part plus one -/
theorem sdc_gap {p : Iv} {rest : List Iv} (h : SDC (p :: rest)) : ∀ n ∈ rest, p.2 + 1 < n.1 := by
  induction rest generalizing p with
  | nil => intro n hn; cases hn
  | cons s rest ih =>
    intro n hn
    rcases List.mem_cons.mp hn with rfl | hn
    · exact h.2.1
    · have h2 := ih h.2.2 n hn
      have h3 : s.1 ≤ s.2 := sdc_head h.2.2
      have h4 := h.2.1
      omega

theorem sdc_append_right {a b : List Iv} (h : SDC (a ++ b)) : SDC b := by
  induction a with
  | nil => exact h
  | cons r a ih => exact ih (sdc_tail h)

theorem sdc_sortedLo {rs : List Iv} (h : SDC rs) : SortedLo rs := by
  induction rs with
  | nil => exact List.Pairwise.nil
  | cons r rs ih =>
    refine List.Pairwise.cons ?_ (ih (sdc_tail h))
    intro n hn
    have := sdc_gap h n hn
    have := sdc_head h
    omega

/-- the first part of an SDC list holds the least element -/
theorem lowest_sdc {r : Iv} {rs : List Iv} (h : SDC (r :: rs)) : lowest (r :: rs) = some r.1 := by
  induction rs generalizing r with
  | nil => simp [lowest, sdc_head h]
  | cons s rest ih =>
    have h1 := ih h.2.2
    have hr := h.1
    have hg := h.2.1
    unfold lowest
    rw [h1]
    simp [hr]
    omega

theorem highest_sdc {r : Iv} {rs : List Iv} (h : SDC (r :: rs)) :
    highest (r :: rs) = some ((r :: rs).getLast (List.cons_ne_nil _ _)).2 := by
  induction rs generalizing r with
  | nil => simp [highest, sdc_head h]
  | cons s rest ih =>
    have h1 := ih h.2.2
    have hr := h.1
    have hg := h.2.1
    unfold highest
    rw [h1]
    simp [hr]
    -- the last part ends after `r`
    have hl : ∀ (q : Iv) (l : List Iv), SDC (q :: l) → q.2 ≤ ((q :: l).getLast (List.cons_ne_nil _ _)).2 := by
      intro q l
      induction l generalizing q with
      | nil => intro _; simp
      | cons t l ihl =>
        intro hq
        have := ihl t hq.2.2
        have := hq.2.1
        have := sdc_head hq.2.2
        simp [List.getLast_cons] at this ⊢
        omega
    have := hl s rest h.2.2
    have := sdc_head h.2.2
    omega

/-- `lowest` is the least element (any list) -/
theorem lowest_isLeast (p : List Iv) (m : Int) (h : lowest p = some m) : IsLeast p m := by
  induction p generalizing m with
  | nil => simp [lowest] at h
  | cons r rs ih =>
    unfold lowest at h
    by_cases hv : r.1 ≤ r.2
    · simp only [hv, if_true] at h
      cases hl : lowest rs with
      | none =>
        rw [hl] at h
        simp at h
        subst h
        -- nothing valid in rs
        have hnone : ∀ (l : List Iv), lowest l = none → ∀ x, ¬ Mem x l := by
          intro l
          induction l with
          | nil => intro _ x; exact mem_nil x
          | cons q l ihl =>
            intro hq x
            unfold lowest at hq
            by_cases hqv : q.1 ≤ q.2
            · simp only [hqv, if_true] at hq
              cases hql : lowest l <;> simp [hql] at hq
            · simp only [hqv, if_false] at hq
              rw [mem_cons]
              rintro (hx | hx)
              · omega
              · exact ihl hq x hx
        refine ⟨(mem_cons _ _ _).mpr (Or.inl ⟨Int.le_refl _, hv⟩), fun x hx => ?_⟩
        rcases (mem_cons _ _ _).mp hx with hx | hx
        · exact hx.1
        · exact absurd hx (hnone rs hl x)
      | some m' =>
        rw [hl] at h
        simp at h
        obtain ⟨hm1, hm2⟩ := ih m' hl
        by_cases hlt : r.1 < m'
        · simp [hlt] at h
          subst h
          refine ⟨(mem_cons _ _ _).mpr (Or.inl ⟨Int.le_refl _, hv⟩), fun x hx => ?_⟩
          rcases (mem_cons _ _ _).mp hx with hx | hx
          · exact hx.1
          · have := hm2 x hx; omega
        · simp [hlt] at h
          subst h
          refine ⟨(mem_cons _ _ _).mpr (Or.inr hm1), fun x hx => ?_⟩
          rcases (mem_cons _ _ _).mp hx with hx | hx
          · omega
          · exact hm2 x hx
    · simp only [hv, if_false] at h
      obtain ⟨hm1, hm2⟩ := ih m h
      refine ⟨(mem_cons _ _ _).mpr (Or.inr hm1), fun x hx => ?_⟩
      rcases (mem_cons _ _ _).mp hx with hx | hx
      · omega
      · exact hm2 x hx

theorem highest_isGreatest (p : List Iv) (m : Int) (h : highest p = some m) : IsGreatest p m := by
  induction p generalizing m with
  | nil => simp [highest] at h
  | cons r rs ih =>
    unfold highest at h
    by_cases hv : r.1 ≤ r.2
    · simp only [hv, if_true] at h
      cases hl : highest rs with
      | none =>
        rw [hl] at h
        simp at h
        subst h
        have hnone : ∀ (l : List Iv), highest l = none → ∀ x, ¬ Mem x l := by
          intro l
          induction l with
          | nil => intro _ x; exact mem_nil x
          | cons q l ihl =>
            intro hq x
            unfold highest at hq
            by_cases hqv : q.1 ≤ q.2
            · simp only [hqv, if_true] at hq
              cases hql : highest l <;> simp [hql] at hq
            · simp only [hqv, if_false] at hq
              rw [mem_cons]
              rintro (hx | hx)
              · omega
              · exact ihl hq x hx
        refine ⟨(mem_cons _ _ _).mpr (Or.inl ⟨hv, Int.le_refl _⟩), fun x hx => ?_⟩
        rcases (mem_cons _ _ _).mp hx with hx | hx
        · exact hx.2
        · exact absurd hx (hnone rs hl x)
      | some m' =>
        rw [hl] at h
        simp at h
        obtain ⟨hm1, hm2⟩ := ih m' hl
        by_cases hlt : m' < r.2
        · simp [hlt] at h
          subst h
          refine ⟨(mem_cons _ _ _).mpr (Or.inl ⟨hv, Int.le_refl _⟩), fun x hx => ?_⟩
          rcases (mem_cons _ _ _).mp hx with hx | hx
          · exact hx.2
          · have := hm2 x hx; omega
        · simp [hlt] at h
          subst h
          refine ⟨(mem_cons _ _ _).mpr (Or.inr hm1), fun x hx => ?_⟩
          rcases (mem_cons _ _ _).mp hx with hx | hx
          · omega
          · exact hm2 x hx
    · simp only [hv, if_false] at h
      obtain ⟨hm1, hm2⟩ := ih m h
      refine ⟨(mem_cons _ _ _).mpr (Or.inr hm1), fun x hx => ?_⟩
      rcases (mem_cons _ _ _).mp hx with hx | hx
      · omega
      · exact hm2 x hx

/-! ### insertion sort -/

/-- `YangRange.Less` on mantissas -/
def lexLt (a b : Iv) : Bool :=
  if a.1 < b.1 then true else if b.1 < a.1 then false else decide (a.2 < b.2)

def bubbleZ (x : Iv) : List Iv → List Iv
  | [] => [x]
  | y :: ys => if lexLt x y then y :: bubbleZ x ys else x :: y :: ys

def sortLoopZ : List Iv → List Iv → List Iv
  | revPre, [] => revPre.reverse
  | revPre, x :: xs => sortLoopZ (bubbleZ x revPre) xs

def sortZ (l : List Iv) : List Iv := sortLoopZ [] l

/-- `b` is not after `a` in the lexicographic order -/
def LexLe (b a : Iv) : Prop := b.1 < a.1 ∨ (b.1 = a.1 ∧ b.2 ≤ a.2)

theorem lexLt_false_iff (a b : Iv) : lexLt a b = false ↔ LexLe b a := by
  unfold lexLt LexLe
  by_cases h1 : a.1 < b.1
  · simp [h1]; omega
  · by_cases h2 : b.1 < a.1
    · simp [h1, h2]
    · simp [h1, h2]; omega

theorem lexLt_true_imp (a b : Iv) (h : lexLt a b = true) : LexLe a b := by
  unfold lexLt at h
  unfold LexLe
  by_cases h1 : a.1 < b.1
  · exact Or.inl h1
  · by_cases h2 : b.1 < a.1
    · simp [h1, h2] at h
    · simp [h1, h2] at h; right; omega

theorem lexLe_trans {a b c : Iv} (h1 : LexLe a b) (h2 : LexLe b c) : LexLe a c := by
  unfold LexLe at *; omega

theorem mem_bubbleZ (x : Iv) (l : List Iv) (r : Iv) : r ∈ bubbleZ x l ↔ (r = x ∨ r ∈ l) := by
  induction l with
  | nil => simp [bubbleZ]
  | cons y ys ih =>
    unfold bubbleZ
    split
    · simp [ih]
      constructor
      · rintro (h | h | h)
        · exact Or.inr (Or.inl h)
        · exact Or.inl h
        · exact Or.inr (Or.inr h)
      · rintro (h | h | h)
        · exact Or.inr (Or.inl h)
        · exact Or.inl h
        · exact Or.inr (Or.inr h)
    · simp

theorem mem_sortLoopZ (pre l : List Iv) (r : Iv) : r ∈ sortLoopZ pre l ↔ (r ∈ pre ∨ r ∈ l) := by
  induction l generalizing pre with
  | nil => simp [sortLoopZ]
  | cons x xs ih =>
    unfold sortLoopZ
    rw [ih, mem_bubbleZ]
    simp
    constructor
    · rintro ((h | h) | h)
      · exact Or.inr (Or.inl h)
      · exact Or.inl h
      · exact Or.inr (Or.inr h)
    · rintro (h | h | h)
      · exact Or.inl (Or.inr h)
      · exact Or.inl (Or.inl h)
      · exact Or.inr h

theorem mem_sortZ (l : List Iv) (r : Iv) : r ∈ sortZ l ↔ r ∈ l := by
  unfold sortZ; rw [mem_sortLoopZ]; simp

/-- the reversed prefix is descending -/
def Desc (l : List Iv) : Prop := l.Pairwise (fun a b => LexLe b a)

theorem bubbleZ_desc (x : Iv) (l : List Iv) (h : Desc l) : Desc (bubbleZ x l) := by
  induction l with
  | nil => exact List.Pairwise.cons (fun _ h => by cases h) List.Pairwise.nil
  | cons y ys ih =>
    unfold bubbleZ
    have hy := List.pairwise_cons.mp h
    split
    · rename_i hlt
      refine List.Pairwise.cons ?_ (ih hy.2)
      intro b hb
      rcases (mem_bubbleZ x ys b).mp hb with rfl | hb
      · exact lexLt_true_imp _ _ hlt
      · exact hy.1 b hb
    · rename_i hlt
      have hyx : LexLe y x := (lexLt_false_iff x y).mp (by simpa using hlt)
      refine List.Pairwise.cons ?_ h
      intro b hb
      rcases List.mem_cons.mp hb with rfl | hb
      · exact hyx
      · exact lexLe_trans (hy.1 b hb) hyx

theorem sortLoopZ_sorted (pre l : List Iv) (h : Desc pre) :
    (sortLoopZ pre l).Pairwise (fun a b => LexLe a b) := by
  induction l generalizing pre with
  | nil =>
    unfold sortLoopZ
    rw [List.pairwise_reverse]
    exact h
  | cons x xs ih =>
    unfold sortLoopZ
    exact ih _ (bubbleZ_desc x pre h)

theorem sortZ_lex (l : List Iv) : (sortZ l).Pairwise (fun a b => LexLe a b) :=
  sortLoopZ_sorted [] l List.Pairwise.nil

theorem sortZ_sortedLo (l : List Iv) : SortedLo (sortZ l) := by
  unfold SortedLo
  refine List.Pairwise.imp ?_ (sortZ_lex l)
  intro a b h
  unfold LexLe at h
  omega

theorem sortZ_allValid (l : List Iv) (h : AllValid l) : AllValid (sortZ l) :=
  fun r hr => h r ((mem_sortZ l r).mp hr)

theorem sortZ_mem (l : List Iv) (x : Int) : Mem x (sortZ l) ↔ Mem x l :=
  mem_congr (mem_sortZ l) x

theorem sortZ_ne_nil (l : List Iv) (h : l ≠ []) : sortZ l ≠ [] := by
  cases l with
  | nil => exact absurd rfl h
  | cons a l =>
    intro he
    have : a ∈ sortZ (a :: l) := (mem_sortZ _ a).mpr (List.mem_cons_self ..)
    rw [he] at this
    cases this

/-! ### coalesce (design-spikes/Coal.lean) -/

def coalLoopZ (cur : Iv) : List Iv → List Iv
  | [] => [cur]
  | r :: rs =>
    if cur.2 + 1 < r.1 then cur :: coalLoopZ r rs
    else if cur.2 < r.2 then coalLoopZ (cur.1, r.2) rs
    else coalLoopZ cur rs

def coalZ : List Iv → List Iv
  | [] => []
  | r :: rs => coalLoopZ r rs

theorem coalLoopZ_head (cur : Iv) (rs : List Iv) :
    ∃ hi tl, coalLoopZ cur rs = (cur.1, hi) :: tl ∧ cur.2 ≤ hi := by
  induction rs generalizing cur with
  | nil => exact ⟨cur.2, [], rfl, Int.le_refl _⟩
  | cons r rs ih =>
    unfold coalLoopZ
    split
    · exact ⟨cur.2, coalLoopZ r rs, rfl, Int.le_refl _⟩
    · split
      · obtain ⟨hi, tl, h, hle⟩ := ih (cur.1, r.2)
        exact ⟨hi, tl, h, by simp at hle; omega⟩
      · exact ih cur

theorem coalLoopZ_sdc (cur : Iv) (rs : List Iv) (hc : cur.1 ≤ cur.2)
    (hv : AllValid rs) (hs : SortedLo rs) (hlo : ∀ r ∈ rs, cur.1 ≤ r.1) : SDC (coalLoopZ cur rs) := by
  induction rs generalizing cur with
  | nil => exact hc
  | cons r rs ih =>
    have hr : r.1 ≤ r.2 := hv r (List.mem_cons_self ..)
    have hvrs : AllValid rs := fun q hq => hv q (List.mem_cons_of_mem _ hq)
    have hsp := List.pairwise_cons.mp hs
    have hlo' : ∀ q ∈ rs, cur.1 ≤ q.1 := fun q hq => hlo q (List.mem_cons_of_mem _ hq)
    unfold coalLoopZ
    split
    · rename_i hgap
      have hsub := ih r hr hvrs hsp.2 hsp.1
      obtain ⟨hi, tl, heq, _⟩ := coalLoopZ_head r rs
      rw [heq] at hsub ⊢
      exact ⟨hc, hgap, hsub⟩
    · split
      · exact ih (cur.1, r.2) (by have := hlo r (List.mem_cons_self ..); simp; omega) hvrs hsp.2 hlo'
      · exact ih cur hc hvrs hsp.2 hlo'

theorem coalLoopZ_mem (cur : Iv) (rs : List Iv) (hc : cur.1 ≤ cur.2)
    (hv : AllValid rs) (hs : SortedLo rs) (hlo : ∀ r ∈ rs, cur.1 ≤ r.1) (x : Int) :
    Mem x (coalLoopZ cur rs) ↔ ((cur.1 ≤ x ∧ x ≤ cur.2) ∨ Mem x rs) := by
  induction rs generalizing cur with
  | nil => simp [coalLoopZ, mem_cons, mem_nil]
  | cons r rs ih =>
    have hr : r.1 ≤ r.2 := hv r (List.mem_cons_self ..)
    have hvrs : AllValid rs := fun q hq => hv q (List.mem_cons_of_mem _ hq)
    have hsp := List.pairwise_cons.mp hs
    have hcr : cur.1 ≤ r.1 := hlo r (List.mem_cons_self ..)
    have hlo' : ∀ q ∈ rs, cur.1 ≤ q.1 := fun q hq => hlo q (List.mem_cons_of_mem _ hq)
    unfold coalLoopZ
    split
    · rw [mem_cons, mem_cons, ih r hr hvrs hsp.2 hsp.1]
    · rename_i hgap
      split
      · rename_i hext
        rw [ih (cur.1, r.2) (by simp; omega) hvrs hsp.2 hlo', mem_cons]
        simp only
        constructor
        · rintro (⟨h1, h2⟩ | h)
          · by_cases hx : x ≤ cur.2
            · exact Or.inl ⟨h1, hx⟩
            · exact Or.inr (Or.inl ⟨by omega, h2⟩)
          · exact Or.inr (Or.inr h)
        · rintro (⟨h1, h2⟩ | ⟨h1, h2⟩ | h)
          · exact Or.inl ⟨h1, by omega⟩
          · exact Or.inl ⟨by omega, h2⟩
          · exact Or.inr h
      · rename_i hext
        rw [ih cur hc hvrs hsp.2 hlo', mem_cons]
        constructor
        · rintro (h | h)
          · exact Or.inl h
          · exact Or.inr (Or.inr h)
        · rintro (h | ⟨h1, h2⟩ | h)
          · exact Or.inl h
          · exact Or.inl ⟨by omega, by omega⟩
          · exact Or.inr h

/-- Go's single-pass merge over valid parts sorted by lower bound: the result is sorted, disjoint
and coalesced and denotes the same set. -/
theorem coalZ_spec (rs : List Iv) (hv : AllValid rs) (hs : SortedLo rs) :
    SDC (coalZ rs) ∧ ∀ x, Mem x (coalZ rs) ↔ Mem x rs := by
  cases rs with
  | nil => exact ⟨trivial, fun x => Iff.rfl⟩
  | cons r rs =>
    have hr := hv r (List.mem_cons_self ..)
    have hvrs : AllValid rs := fun q hq => hv q (List.mem_cons_of_mem _ hq)
    have hsp := List.pairwise_cons.mp hs
    refine ⟨coalLoopZ_sdc r rs hr hvrs hsp.2 hsp.1, fun x => ?_⟩
    unfold coalZ
    rw [coalLoopZ_mem r rs hr hvrs hsp.2 hsp.1 x, mem_cons]

theorem coalZ_ne_nil (rs : List Iv) (h : rs ≠ []) : coalZ rs ≠ [] := by
  cases rs with
  | nil => exact absurd rfl h
  | cons r rs =>
    obtain ⟨hi, tl, heq, _⟩ := coalLoopZ_head r rs
    show coalLoopZ r rs ≠ []
    rw [heq]
    exact List.cons_ne_nil _ _

/-! ### Validate -/

def isSortedZ : List Iv → Bool
  | [] => true
  | [_] => true
  | a :: b :: rest => !lexLt b a && isSortedZ (b :: rest)

def validateZ (r : List Iv) : Option RangeErr :=
  if !isSortedZ r then some .unsorted
  else match r with
    | [] => none
    | p :: rest =>
      if !(!decide (p.2 < p.1)) then some .invalid
      else if rest.any (fun n => decide (n.1 < p.2)) then some .overlap
      else none

theorem isSortedZ_sdc (r : List Iv) (h : SDC r) : isSortedZ r = true := by
  induction r with
  | nil => rfl
  | cons a r ih =>
    cases r with
    | nil => rfl
    | cons b rest =>
      unfold isSortedZ
      have h1 := h.1
      have h2 := h.2.1
      have h3 : lexLt b a = false := by
        rw [lexLt_false_iff]; unfold LexLe; omega
      simp [h3, ih h.2.2]

/-- `Validate` never fails on a sorted, disjoint, coalesced list: the last check of
`parseChildRanges` cannot reject what `coalesce` returned. -/
theorem validateZ_sdc (r : List Iv) (h : SDC r) : validateZ r = none := by
  unfold validateZ
  rw [isSortedZ_sdc r h]
  cases r with
  | nil => simp
  | cons p rest =>
    have hp := sdc_head h
    have hg := sdc_gap h
    have h1 : decide (p.2 < p.1) = false := by simp; omega
    have h2 : rest.any (fun n => decide (n.1 < p.2)) = false := by
      rw [List.any_eq_false]
      intro n hn
      have := hg n hn
      simp; omega
    simp [h1, h2]

/-! ### Contains -/

def advanceZ (x : Int) (cur : Iv) : List Iv → Option (Iv × List Iv)
  | [] => if cur.2 < x then none else some (cur, [])
  | n :: rest' => if cur.2 < x then advanceZ x n rest' else some (cur, n :: rest')

def containsLoopZ : Iv → List Iv → List Iv → Bool
  | _, _, [] => true
  | cur, rest, ss :: more =>
    match advanceZ ss.1 cur rest with
    | none => false
    | some (cur', rest') =>
      if decide (ss.1 < cur'.1) || decide (cur'.2 < ss.2) then false
      else containsLoopZ cur' rest' more

def containsZ (r s : List Iv) : Bool :=
  match r, s with
  | [], _ => true
  | _, [] => true
  | cur :: rest, s => containsLoopZ cur rest s

theorem advanceZ_some (x : Int) (cur : Iv) (rest : List Iv) (c' : Iv) (r' : List Iv)
    (h : advanceZ x cur rest = some (c', r')) :
    ∃ dropped, cur :: rest = dropped ++ c' :: r' ∧ (∀ d ∈ dropped, d.2 < x) ∧ ¬ c'.2 < x := by
  induction rest generalizing cur with
  | nil =>
    unfold advanceZ at h
    split at h
    · cases h
    · rename_i hx
      cases h
      exact ⟨[], rfl, (fun d hd => by cases hd), hx⟩
  | cons n rest ih =>
    unfold advanceZ at h
    split at h
    · rename_i hx
      obtain ⟨dr, heq, hd, hc⟩ := ih n h
      refine ⟨cur :: dr, by rw [heq]; rfl, ?_, hc⟩
      intro d hdm
      rcases List.mem_cons.mp hdm with rfl | hdm
      · exact hx
      · exact hd d hdm
    · rename_i hx
      cases h
      exact ⟨[], rfl, (fun d hd => by cases hd), hx⟩

theorem advanceZ_none (x : Int) (cur : Iv) (rest : List Iv) (h : advanceZ x cur rest = none) :
    ∀ d ∈ cur :: rest, d.2 < x := by
  induction rest generalizing cur with
  | nil =>
    unfold advanceZ at h
    split at h
    · rename_i hx
      intro d hd
      rcases List.mem_cons.mp hd with rfl | hd
      · exact hx
      · cases hd
    · cases h
  | cons n rest ih =>
    unfold advanceZ at h
    split at h
    · rename_i hx
      intro d hd
      rcases List.mem_cons.mp hd with rfl | hd
      · exact hx
      · exact ih n h d hd
    · cases h

/-- the merge-walk decides inclusion when both lists are sorted, disjoint and coalesced -/
theorem containsLoopZ_iff (s : List Iv) : ∀ (cur : Iv) (rest : List Iv),
    SDC (cur :: rest) → SDC s → (containsLoopZ cur rest s = true ↔ Within s (cur :: rest)) := by
  induction s with
  | nil =>
    intro cur rest _ _
    simp only [containsLoopZ, true_iff]
    intro x hx
    exact absurd hx (mem_nil x)
  | cons ss more ih =>
    intro cur rest hr hs
    have hssv : ss.1 ≤ ss.2 := sdc_head hs
    have hmore : SDC more := sdc_tail hs
    have hgap := sdc_gap hs
    have hmv := sdc_allValid hmore
    unfold containsLoopZ
    cases hadv : advanceZ ss.1 cur rest with
    | none =>
      simp only [Bool.false_eq_true, false_iff]
      intro hsub
      have hall := advanceZ_none _ _ _ hadv
      have hin : Mem ss.1 (ss :: more) := (mem_cons _ _ _).mpr (Or.inl ⟨Int.le_refl _, hssv⟩)
      obtain ⟨q, hq, h1, h2⟩ := hsub ss.1 hin
      have := hall q hq
      omega
    | some p =>
      obtain ⟨c', r'⟩ := p
      obtain ⟨dr, heq, hdr, hstop⟩ := advanceZ_some _ _ _ _ _ hadv
      have hr' : SDC (c' :: r') := by
        rw [heq] at hr
        exact sdc_append_right hr
      have hc'v := sdc_head hr'
      have hgap' := sdc_gap hr'
      -- every point of ss :: more is at least ss.1, so the dropped parts do not matter
      have hge : ∀ x, Mem x (ss :: more) → ss.1 ≤ x := by
        intro x hx
        rcases (mem_cons _ _ _).mp hx with hx | ⟨q, hq, hx⟩
        · exact hx.1
        · have := hgap q hq; omega
      have hdrop : Within (ss :: more) (cur :: rest) ↔ Within (ss :: more) (c' :: r') := by
        rw [heq]
        constructor
        · intro hsub x hx
          rcases (mem_append _ _ _).mp (hsub x hx) with ⟨q, hq, hq1, hq2⟩ | h
          · have := hdr q hq
            have := hge x hx
            omega
          · exact h
        · intro hsub x hx
          exact (mem_append _ _ _).mpr (Or.inr (hsub x hx))
      rw [hdrop]
      simp only
      by_cases hin : ss.1 < c'.1 ∨ c'.2 < ss.2
      · have : (decide (ss.1 < c'.1) || decide (c'.2 < ss.2)) = true := by
          rcases hin with h | h <;> simp [h]
        simp only [this, if_true, Bool.false_eq_true, false_iff]
        intro hsub
        -- ss.1 lies in c' (it is ≤ c'.2 and later parts start after c'.2 + 1)
        have hlo : Mem ss.1 (c' :: r') := hsub ss.1 ((mem_cons _ _ _).mpr (Or.inl ⟨Int.le_refl _, hssv⟩))
        have hc1 : c'.1 ≤ ss.1 := by
          rcases (mem_cons _ _ _).mp hlo with h | ⟨q, hq, h1, _⟩
          · exact h.1
          · have := hgap' q hq; omega
        rcases hin with h | h
        · omega
        · -- c'.2 + 1 lies in ss but in no part of c' :: r'
          have hmid : Mem (c'.2 + 1) (ss :: more) := (mem_cons _ _ _).mpr (Or.inl ⟨by omega, by omega⟩)
          rcases (mem_cons _ _ _).mp (hsub (c'.2 + 1) hmid) with h' | ⟨q, hq, h1, _⟩
          · omega
          · have := hgap' q hq; omega
      · have hdec : (decide (ss.1 < c'.1) || decide (c'.2 < ss.2)) = false := by
          have h1 : ¬ ss.1 < c'.1 := fun h => hin (Or.inl h)
          have h2 : ¬ c'.2 < ss.2 := fun h => hin (Or.inr h)
          simp [h1, h2]
        simp only [hdec, Bool.false_eq_true, if_false]
        rw [ih c' r' hr' hmore]
        constructor
        · intro hsub x hx
          rcases (mem_cons _ _ _).mp hx with hx | hx
          · exact (mem_cons _ _ _).mpr (Or.inl ⟨by omega, by omega⟩)
          · exact hsub x hx
        · intro hsub x hx
          exact hsub x ((mem_cons _ _ _).mpr (Or.inr hx))

/-- `Contains` on sorted, disjoint, coalesced lists is inclusion of the denoted sets, except that
an empty receiver stands for "everything". -/
theorem containsZ_iff (r s : List Iv) (hr : SDC r) (hs : SDC s) :
    containsZ r s = true ↔ (r = [] ∨ Within s r) := by
  cases r with
  | nil => simp [containsZ]
  | cons cur rest =>
    cases s with
    | nil =>
      simp only [containsZ, true_iff]
      right
      intro x hx
      exact absurd hx (mem_nil x)
    | cons ss more =>
      unfold containsZ
      rw [containsLoopZ_iff (ss :: more) cur rest hr hs]
      simp

/-! ### the executable inclusion test of the specification (critical points) -/

theorem critical_lo {r : Iv} {a : List Iv} (h : r ∈ a) : r.1 ∈ critical a := by
  unfold critical
  rw [List.mem_flatMap]
  exact ⟨r, h, by simp⟩

theorem critical_hi_succ {r : Iv} {a : List Iv} (h : r ∈ a) : r.2 + 1 ∈ critical a := by
  unfold critical
  rw [List.mem_flatMap]
  exact ⟨r, h, by simp⟩

/-- Inclusion of two finite unions of intervals can be tested on the bounds and their neighbours:
walking right from the lower bound of a part of `a`, one can only leave `⟦b⟧` at a point `q.hi + 1`. -/
theorem subsetB_iff (a b : List Iv) : subsetB a b = true ↔ Within a b := by
  unfold subsetB
  rw [List.all_eq_true]
  constructor
  · intro h x ⟨r, hr, hx1, hx2⟩
    have hcrit : ∀ p, p ∈ critical a ++ critical b → Mem p a → Mem p b := by
      intro p hp hpa
      have := h p hp
      simp only [Bool.or_eq_true, Bool.not_eq_true'] at this
      rcases this with h1 | h1
      · have h2 := (memB_iff p a).mpr hpa
        rw [h1] at h2; cases h2
      · exact (memB_iff p b).mp h1
    -- induction on the distance from the lower bound of the part
    have key : ∀ (n : Nat) (x : Int), r.1 ≤ x → x ≤ r.2 → x - r.1 = n → Mem x b := by
      intro n
      induction n with
      | zero =>
        intro x h1 h2 hn
        have : x = r.1 := by omega
        subst this
        exact hcrit _ (List.mem_append_left _ (critical_lo hr)) ⟨r, hr, h1, h2⟩
      | succ k ih =>
        intro x h1 h2 hn
        obtain ⟨q, hq, hq1, hq2⟩ := ih (x - 1) (by omega) (by omega) (by omega)
        by_cases hle : x ≤ q.2
        · exact ⟨q, hq, by omega, hle⟩
        · have hx : x = q.2 + 1 := by omega
          rw [hx]
          exact hcrit _ (List.mem_append_right _ (critical_hi_succ hq)) ⟨r, hr, by omega, by omega⟩
    exact key (x - r.1).toNat x hx1 hx2 (by omega)
  · intro h x _
    simp only [Bool.or_eq_true, Bool.not_eq_true']
    by_cases hxa : Mem x a
    · exact Or.inr ((memB_iff x b).mpr (h x hxa))
    · left
      cases hm : memB x a
      · rfl
      · exact absurd ((memB_iff x a).mp hm) hxa

theorem setEqB_iff (a b : List Iv) : setEqB a b = true ↔ SetEq a b := by
  unfold setEqB SetEq
  rw [Bool.and_eq_true, subsetB_iff, subsetB_iff]
  unfold Within
  constructor
  · rintro ⟨h1, h2⟩ x
    exact ⟨h1 x, h2 x⟩
  · intro h
    exact ⟨fun x => (h x).mp, fun x => (h x).mpr⟩

end Goyang.Lemmas.RangeZ
