import Goyang.Model.Ctx
import Goyang.Spec.Registry
import Goyang.Lemmas.StrOrd
/-
Lemmas for C13 (a): the registry `Registry.add` folded over a list of loads binds every key to
the header the specification names (`denotesS`, the specification read with Go's string order;
`Props/C13.lean` converts to date order for well-formed dates).
-/
namespace Goyang.Lemmas.Registry
open Goyang.Model Goyang.Spec.Registry Goyang.Lemmas.StrOrd

/-! ### keys -/

/-- The name contains no `@` (YANG identifiers never do). -/
def NoAt (s : String) : Prop := '@' ∉ s.toList

theorem toList_key (a r : String) : (a ++ "@" ++ r).toList = a.toList ++ '@' :: r.toList := by
  simp [String.toList_append]

theorem list_key_inj : ∀ {a a' r r' : List Char}, '@' ∉ a → '@' ∉ a' →
    a ++ '@' :: r = a' ++ '@' :: r' → a = a' ∧ r = r'
  | [], [], _, _, _, _, h => by simpa using h
  | [], c :: _, _, _, _, h', h => by simp at h; simp [← h.1] at h'
  | c :: _, [], _, _, h', _, h => by simp at h; simp [h.1] at h'
  | c :: a, c' :: a', _, _, h1, h2, h => by
    simp only [List.cons_append, List.cons.injEq] at h
    have := list_key_inj (a := a) (a' := a') (by simp_all) (by simp_all) h.2
    simp [h.1, this.1, this.2]

theorem key_inj {a a' r r' : String} (ha : NoAt a) (ha' : NoAt a') (h : a ++ "@" ++ r = a' ++ "@" ++ r') :
    a = a' ∧ r = r' := by
  have := congrArg String.toList h
  rw [toList_key, toList_key] at this
  have := list_key_inj ha ha' this
  exact ⟨String.toList_inj.mp this.1, String.toList_inj.mp this.2⟩

theorem key_ne_name {a r n : String} (hn : NoAt n) : a ++ "@" ++ r ≠ n := by
  intro h; apply hn; rw [← h, toList_key]; simp

theorem key_ne_self (a r : String) : a ++ "@" ++ r ≠ a := by
  intro h
  have := congrArg (fun s => s.toList.length) h
  simp at this

/-! ### the specification read with string order -/

/-- `a` is not later than `b` in Go's string order; `""` (no revision) is the least string. -/
def sLe (a b : String) : Bool := !strLt b a

theorem sLe_refl (a : String) : sLe a a = true := by simp [sLe, strLt_irrefl]

theorem sLe_trans {a b c : String} (h1 : sLe a b = true) (h2 : sLe b c = true) : sLe a c = true := by
  simp only [sLe, Bool.not_eq_true'] at *
  rcases strLt_total a b with h | h | h
  · cases hca : strLt c a with
    | false => rfl
    | true => have := strLt_trans hca h; simp [this] at h2
  · subst h; exact h2
  · simp [h] at h1

theorem sLe_total (a b : String) : sLe a b = true ∨ sLe b a = true := by
  simp only [sLe, Bool.not_eq_true']
  rcases strLt_total a b with h | h | h
  · exact .inl (strLt_asymm h)
  · subst h; exact .inl (strLt_irrefl a)
  · exact .inr (strLt_asymm h)

def latestS (hs : List Header) : Option Header := hs.find? fun h => hs.all fun g => sLe g.rev h.rev

def denotesS (hs : List Header) (sub : Bool) (key : String) : Option Header :=
  let same := hs.filter (·.isSub == sub)
  match same.find? (fun h => h.rev ≠ "" ∧ h.name ++ "@" ++ h.rev = key) with
  | some h => some h
  | none => latestS (same.filter (·.name = key))

theorem exists_max : ∀ (c : List Header), c ≠ [] → ∃ o ∈ c, ∀ g ∈ c, sLe g.rev o.rev = true
  | [h], _ => ⟨h, by simp, by simp [sLe_refl]⟩
  | h :: h' :: rest, _ => by
    obtain ⟨o, ho, hmax⟩ := exists_max (h' :: rest) (by simp)
    rcases sLe_total h.rev o.rev with hle | hle
    · exact ⟨o, List.mem_cons_of_mem _ ho, fun g hg => by
        rcases List.mem_cons.mp hg with rfl | hg
        · exact hle
        · exact hmax g hg⟩
    · exact ⟨h, by simp, fun g hg => by
        rcases List.mem_cons.mp hg with rfl | hg
        · exact sLe_refl _
        · exact sLe_trans (hmax g hg) hle⟩

theorem latestS_eq_none {c : List Header} : latestS c = none ↔ c = [] := by
  constructor
  · intro h
    apply Classical.byContradiction
    intro hc
    obtain ⟨o, ho, hmax⟩ := exists_max c hc
    simp only [latestS, List.find?_eq_none] at h
    exact h o ho (List.all_eq_true.mpr hmax)
  · rintro rfl; rfl

theorem latestS_some {c : List Header} {o : Header} (h : latestS c = some o) :
    o ∈ c ∧ ∀ g ∈ c, sLe g.rev o.rev = true := by
  have h1 := List.mem_of_find?_eq_some h
  have h2 := List.find?_some h
  exact ⟨h1, List.all_eq_true.mp h2⟩

/-- Adding a header at the end of a list of headers. -/
theorem latestS_snoc (c : List Header) (h : Header) :
    latestS (c ++ [h]) =
      match latestS c with
      | none => some h
      | some o => if strLt o.rev h.rev then some h else some o := by
  cases hc : latestS c with
  | none =>
    rw [latestS_eq_none.mp hc]
    simp [latestS, sLe_refl]
  | some o =>
    obtain ⟨ho, hmax⟩ := latestS_some hc
    simp only
    by_cases hlt : strLt o.rev h.rev = true
    · -- nobody in `c` is at least `h`
      simp only [hlt, if_true]
      unfold latestS
      rw [List.find?_append]
      have : (c.find? fun x => (c ++ [h]).all fun g => sLe g.rev x.rev) = none := by
        rw [List.find?_eq_none]
        intro g hg
        simp only [List.all_append, List.all_cons, List.all_nil, Bool.and_true, Bool.and_eq_true, not_and,
          Bool.not_eq_true]
        intro _
        have hgo := hmax g hg
        simp only [sLe, Bool.not_eq_true', Bool.not_eq_false'] at *
        rcases strLt_total g.rev o.rev with h' | h' | h'
        · exact strLt_trans h' hlt
        · rw [h']; exact hlt
        · simp [h'] at hgo
      rw [this]
      simp only [Option.none_or, List.find?_cons, List.all_append, List.all_cons, List.all_nil, Bool.and_true,
        sLe_refl]
      have : (c.all fun g => sLe g.rev h.rev) = true := by
        rw [List.all_eq_true]; intro g hg
        exact sLe_trans (hmax g hg) (by simp [sLe, strLt_asymm hlt])
      simp [this]
    · rw [if_neg hlt]
      unfold latestS at hc ⊢
      rw [List.find?_append]
      have hpred : ∀ x ∈ c, ((c ++ [h]).all fun g => sLe g.rev x.rev) =
          ((c.all fun g => sLe g.rev x.rev) && sLe h.rev x.rev) := by
        intro x _; simp [List.all_append]
      -- elements before `o` still fail, `o` still passes
      have : (c.find? fun x => (c ++ [h]).all fun g => sLe g.rev x.rev) = some o := by
        rw [List.find?_eq_some_iff_append] at hc ⊢
        obtain ⟨hp, as, bs, rfl, hbefore⟩ := hc
        refine ⟨?_, as, bs, rfl, ?_⟩
        · rw [hpred o ho, hp]; simp [sLe, hlt]
        · intro a ha
          have := hbefore a ha
          rw [hpred a (by simp [ha])]
          rw [Bool.not_eq_true'] at this ⊢
          rw [this]; rfl
      rw [this]; rfl

/-- A header that is already present changes nothing. -/
theorem latestS_snoc_dup (c : List Header) {h : Header} (hm : h ∈ c) : latestS (c ++ [h]) = latestS c := by
  unfold latestS
  have hpred : ∀ x : Header, ((c ++ [h]).all fun g => sLe g.rev x.rev) = (c.all fun g => sLe g.rev x.rev) := by
    intro x
    simp only [List.all_append, List.all_cons, List.all_nil, Bool.and_true]
    cases hall : c.all fun g => sLe g.rev x.rev with
    | false => rfl
    | true => simpa using List.all_eq_true.mp hall h hm
  simp only [hpred]
  rw [List.find?_append]
  cases hf : c.find? fun x => c.all fun g => sLe g.rev x.rev with
  | some o => rfl
  | none =>
    simp only [Option.none_or, List.find?_cons, List.find?_nil]
    rw [List.find?_eq_none] at hf
    have := hf h hm
    simp only [Bool.not_eq_true] at this
    simp [this]

end Goyang.Lemmas.Registry
