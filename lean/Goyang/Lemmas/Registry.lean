import Goyang.Model.Ctx
import Goyang.Spec.Registry
import Goyang.Lemmas.StrOrd
import Goyang.Lemmas.Date
/-
Lemmas for C13 (a): the registry `Registry.add` folded over a list of loads binds every key to
the header the specification names (`denotesS`, the specification read with Go's string order;
`Props/C13.lean` converts to date order for well-formed dates).
-/
namespace Goyang.Lemmas.Registry
open Goyang.Model Goyang.Spec.Registry Goyang.Lemmas.StrOrd

/-! ### keys -/

/-- The name contains no `@` (YANG identifiers never do). -/
def NoAt (s : String) : Prop := '@' ∉ s.toList

theorem contains_of_noAt {s : String} (h : NoAt s) : s.toList.contains '@' = false := by
  simpa [NoAt] using h

theorem noAt_of_contains {s : String} (h : s.toList.contains '@' = false) : NoAt s := by
  simpa [NoAt] using h

theorem toList_key (a r : String) : (a ++ "@" ++ r).toList = a.toList ++ '@' :: r.toList := by
  simp [String.toList_append]

theorem list_key_inj : ∀ {a a' r r' : List Char}, '@' ∉ a → '@' ∉ a' →
    a ++ '@' :: r = a' ++ '@' :: r' → a = a' ∧ r = r'
  | [], [], _, _, _, _, h => by simpa using h
  | [], c :: _, _, _, _, h', h => by simp at h; simp [← h.1] at h'
  | c :: _, [], _, _, h', _, h => by simp at h; simp [h.1] at h'
  | c :: a, c' :: a', _, _, h1, h2, h => by
    simp only [List.cons_append, List.cons.injEq] at h
    have := list_key_inj (a := a) (a' := a') (by simp_all) (by simp_all) h.2
    simp [h.1, this.1, this.2]

theorem key_inj {a a' r r' : String} (ha : NoAt a) (ha' : NoAt a') (h : a ++ "@" ++ r = a' ++ "@" ++ r') :
    a = a' ∧ r = r' := by
  have := congrArg String.toList h
  rw [toList_key, toList_key] at this
  have := list_key_inj ha ha' this
  exact ⟨String.toList_inj.mp this.1, String.toList_inj.mp this.2⟩

theorem key_ne_name {a r n : String} (hn : NoAt n) : a ++ "@" ++ r ≠ n := by
  intro h; apply hn; rw [← h, toList_key]; simp

theorem key_ne_self (a r : String) : a ++ "@" ++ r ≠ a := by
  intro h
  have := congrArg (fun s => s.toList.length) h
  simp at this

/-! ### the specification read with string order -/

/-- `a` is not later than `b` in Go's string order; `""` (no revision) is the least string. -/
def sLe (a b : String) : Bool := !strLt b a

theorem sLe_refl (a : String) : sLe a a = true := by simp [sLe, strLt_irrefl]

theorem sLe_trans {a b c : String} (h1 : sLe a b = true) (h2 : sLe b c = true) : sLe a c = true := by
  simp only [sLe, Bool.not_eq_true'] at *
  rcases strLt_total a b with h | h | h
  · cases hca : strLt c a with
    | false => rfl
    | true => have := strLt_trans hca h; simp [this] at h2
  · subst h; exact h2
  · simp [h] at h1

theorem sLe_total (a b : String) : sLe a b = true ∨ sLe b a = true := by
  simp only [sLe, Bool.not_eq_true']
  rcases strLt_total a b with h | h | h
  · exact .inl (strLt_asymm h)
  · subst h; exact .inl (strLt_irrefl a)
  · exact .inr (strLt_asymm h)

def latestS (hs : List Header) : Option Header := hs.find? fun h => hs.all fun g => sLe g.rev h.rev

def denotesS (hs : List Header) (sub : Bool) (key : String) : Option Header :=
  let same := hs.filter (·.isSub == sub)
  match same.find? (fun h => h.rev ≠ "" ∧ h.name ++ "@" ++ h.rev = key) with
  | some h => some h
  | none => latestS (same.filter (·.name = key))

theorem exists_max : ∀ (c : List Header), c ≠ [] → ∃ o ∈ c, ∀ g ∈ c, sLe g.rev o.rev = true
  | [h], _ => ⟨h, by simp, by simp [sLe_refl]⟩
  | h :: h' :: rest, _ => by
    obtain ⟨o, ho, hmax⟩ := exists_max (h' :: rest) (by simp)
    rcases sLe_total h.rev o.rev with hle | hle
    · exact ⟨o, List.mem_cons_of_mem _ ho, fun g hg => by
        rcases List.mem_cons.mp hg with rfl | hg
        · exact hle
        · exact hmax g hg⟩
    · exact ⟨h, by simp, fun g hg => by
        rcases List.mem_cons.mp hg with rfl | hg
        · exact sLe_refl _
        · exact sLe_trans (hmax g hg) hle⟩

theorem latestS_eq_none {c : List Header} : latestS c = none ↔ c = [] := by
  constructor
  · intro h
    apply Classical.byContradiction
    intro hc
    obtain ⟨o, ho, hmax⟩ := exists_max c hc
    simp only [latestS, List.find?_eq_none] at h
    exact h o ho (List.all_eq_true.mpr hmax)
  · rintro rfl; rfl

theorem latestS_some {c : List Header} {o : Header} (h : latestS c = some o) :
    o ∈ c ∧ ∀ g ∈ c, sLe g.rev o.rev = true := by
  have h1 := List.mem_of_find?_eq_some h
  have h2 := List.find?_some h
  exact ⟨h1, List.all_eq_true.mp h2⟩

/-- Adding a header at the end of a list of headers. -/
theorem latestS_snoc (c : List Header) (h : Header) :
    latestS (c ++ [h]) =
      match latestS c with
      | none => some h
      | some o => if strLt o.rev h.rev then some h else some o := by
  cases hc : latestS c with
  | none =>
    rw [latestS_eq_none.mp hc]
    simp [latestS, sLe_refl]
  | some o =>
    obtain ⟨ho, hmax⟩ := latestS_some hc
    simp only
    by_cases hlt : strLt o.rev h.rev = true
    · -- nobody in `c` is at least `h`
      simp only [hlt, if_true]
      unfold latestS
      rw [List.find?_append]
      have : (c.find? fun x => (c ++ [h]).all fun g => sLe g.rev x.rev) = none := by
        rw [List.find?_eq_none]
        intro g hg
        simp only [List.all_append, List.all_cons, List.all_nil, Bool.and_true, Bool.and_eq_true, not_and,
          Bool.not_eq_true]
        intro _
        have hgo := hmax g hg
        simp only [sLe, Bool.not_eq_true', Bool.not_eq_false'] at *
        rcases strLt_total g.rev o.rev with h' | h' | h'
        · exact strLt_trans h' hlt
        · rw [h']; exact hlt
        · simp [h'] at hgo
      rw [this]
      simp only [Option.none_or, List.find?_cons, List.all_append, List.all_cons, List.all_nil, Bool.and_true,
        sLe_refl]
      have : (c.all fun g => sLe g.rev h.rev) = true := by
        rw [List.all_eq_true]; intro g hg
        exact sLe_trans (hmax g hg) (by simp [sLe, strLt_asymm hlt])
      simp [this]
    · rw [if_neg hlt]
      unfold latestS at hc ⊢
      rw [List.find?_append]
      have hpred : ∀ x ∈ c, ((c ++ [h]).all fun g => sLe g.rev x.rev) =
          ((c.all fun g => sLe g.rev x.rev) && sLe h.rev x.rev) := by
        intro x _; simp [List.all_append]
      -- elements before `o` still fail, `o` still passes
      have : (c.find? fun x => (c ++ [h]).all fun g => sLe g.rev x.rev) = some o := by
        rw [List.find?_eq_some_iff_append] at hc ⊢
        obtain ⟨hp, as, bs, rfl, hbefore⟩ := hc
        refine ⟨?_, as, bs, rfl, ?_⟩
        · rw [hpred o ho, hp]; simp [sLe, hlt]
        · intro a ha
          have := hbefore a ha
          rw [hpred a (by simp [ha])]
          rw [Bool.not_eq_true'] at this ⊢
          rw [this]; rfl
      rw [this]; rfl

/-- A header that is already present changes nothing. -/
theorem latestS_snoc_dup (c : List Header) {h : Header} (hm : h ∈ c) : latestS (c ++ [h]) = latestS c := by
  unfold latestS
  have hpred : ∀ x : Header, ((c ++ [h]).all fun g => sLe g.rev x.rev) = (c.all fun g => sLe g.rev x.rev) := by
    intro x
    simp only [List.all_append, List.all_cons, List.all_nil, Bool.and_true]
    cases hall : c.all fun g => sLe g.rev x.rev with
    | false => rfl
    | true => simpa using List.all_eq_true.mp hall h hm
  simp only [hpred]
  rw [List.find?_append]
  cases hf : c.find? fun x => c.all fun g => sLe g.rev x.rev with
  | some o => rfl
  | none =>
    simp only [Option.none_or, List.find?_cons, List.find?_nil]
    rw [List.find?_eq_none] at hf
    have := hf h hm
    simp only [Bool.not_eq_true] at this
    simp [this]

/-! ### `denotesS` when one more header is loaded -/

def exactP (key : String) (h : Header) : Bool := decide (h.rev ≠ "" ∧ h.name ++ "@" ++ h.rev = key)

theorem denotesS_def (hs : List Header) (sub : Bool) (key : String) :
    denotesS hs sub key =
      ((hs.filter (·.isSub == sub)).find? (exactP key)).or
        (latestS ((hs.filter (·.isSub == sub)).filter (·.name = key))) := by
  unfold denotesS
  simp only
  split <;> rename_i h
  · unfold exactP; rw [h]; rfl
  · unfold exactP; rw [h]; rfl

theorem denotesS_other {hs : List Header} {h : Header} {sub : Bool} (hk : h.isSub ≠ sub) (key : String) :
    denotesS (hs ++ [h]) sub key = denotesS hs sub key := by
  simp [denotesS_def, List.filter_append, hk]

theorem denotesS_dup {hs : List Header} {h : Header} (hm : h ∈ hs) (sub : Bool) (key : String) :
    denotesS (hs ++ [h]) sub key = denotesS hs sub key := by
  by_cases hk : h.isSub = sub
  · rw [denotesS_def, denotesS_def]
    have hsame : h ∈ hs.filter (·.isSub == sub) := by simp [hm, hk]
    simp only [List.filter_append, List.filter_cons, List.filter_nil, hk, beq_self_eq_true, if_true,
      List.find?_append]
    cases hf : (hs.filter (·.isSub == sub)).find? (exactP key) with
    | some o => simp
    | none =>
      have hno : exactP key h = false := by
        rw [List.find?_eq_none] at hf
        simpa using hf h hsame
      simp only [Option.none_or, List.find?_cons, hno, List.find?_nil]
      by_cases hn : h.name = key
      · simp only [hn, decide_true, if_true]
        rw [latestS_snoc_dup]
        simp [hm, hk, hn]
      · simp [hn]
  · exact denotesS_other hk key

theorem denotesS_mem {hs : List Header} {sub : Bool} {key : String} {x : Header}
    (h : denotesS hs sub key = some x) :
    x ∈ hs ∧ x.isSub = sub ∧ ((x.rev ≠ "" ∧ x.name ++ "@" ++ x.rev = key) ∨ x.name = key) := by
  rw [denotesS_def] at h
  cases hf : (hs.filter (·.isSub == sub)).find? (exactP key) with
  | some o =>
    simp only [hf, Option.some_or, Option.some.injEq] at h
    subst h
    have h1 := List.mem_of_find?_eq_some hf
    have h2 := List.find?_some hf
    simp only [List.mem_filter, beq_iff_eq] at h1
    simp only [exactP, decide_eq_true_eq] at h2
    exact ⟨h1.1, h1.2, .inl h2⟩
  | none =>
    simp only [hf, Option.none_or] at h
    have := (latestS_some h).1
    simp only [List.mem_filter, beq_iff_eq, decide_eq_true_eq] at this
    exact ⟨this.1.1, this.1.2, .inr this.2⟩

/-- An exact key `name@rev` denotes the header with that name and revision, if loaded. -/
theorem denotesS_exact_of_mem {hs : List Header} {h : Header} (hm : h ∈ hs) (hr : h.rev ≠ "") :
    ∃ x, denotesS hs h.isSub (h.name ++ "@" ++ h.rev) = some x := by
  rw [denotesS_def]
  cases hf : (hs.filter (·.isSub == h.isSub)).find? (exactP (h.name ++ "@" ++ h.rev)) with
  | some o => exact ⟨o, by simp⟩
  | none =>
    rw [List.find?_eq_none] at hf
    have := hf h (by simp [hm])
    simp [exactP, hr] at this

/-- Loading a header without revision. -/
theorem denotesS_snoc_unrev {hs : List Header} {h : Header} (hr : h.rev = "") (hn : NoAt h.name)
    (key : String) :
    denotesS (hs ++ [h]) h.isSub key =
      if key = h.name then (match denotesS hs h.isSub key with | none => some h | some o => some o)
      else denotesS hs h.isSub key := by
  rw [denotesS_def, denotesS_def]
  have hno : exactP key h = false := by simp [exactP, hr]
  simp only [List.filter_append, List.filter_cons, List.filter_nil, beq_self_eq_true, if_true,
    List.find?_append, List.find?_cons, hno, List.find?_nil, Option.or_none]
  by_cases hk : key = h.name
  · subst hk
    have hex : (hs.filter (·.isSub == h.isSub)).find? (exactP h.name) = none := by
      rw [List.find?_eq_none]
      intro x _
      simp only [exactP, decide_eq_true_eq, not_and]
      intro _ he
      exact key_ne_name hn he
    simp only [hex, Option.none_or, decide_true, if_true]
    rw [latestS_snoc]
    cases latestS ((hs.filter (·.isSub == h.isSub)).filter (·.name = h.name)) with
    | none => rfl
    | some o => simp [hr, strLt_empty_right]
  · have : ¬ h.name = key := fun e => hk e.symm
    simp [hk, this]

/-- Loading a header with a revision that is not loaded yet. -/
theorem denotesS_snoc_rev {hs : List Header} {h : Header} (hr : h.rev ≠ "") (hnew : h ∉ hs)
    (hn : NoAt h.name) (hns : ∀ x ∈ hs, NoAt x.name) (key : String) :
    denotesS (hs ++ [h]) h.isSub key =
      if key = h.name ++ "@" ++ h.rev then some h
      else if key = h.name then
        (match denotesS hs h.isSub key with
         | none => some h
         | some o => if strLt o.rev h.rev then some h else some o)
      else denotesS hs h.isSub key := by
  rw [denotesS_def, denotesS_def]
  simp only [List.filter_append, List.filter_cons, List.filter_nil, beq_self_eq_true, if_true,
    List.find?_append, List.find?_cons, List.find?_nil]
  by_cases hk : key = h.name ++ "@" ++ h.rev
  · subst hk
    have hex : (hs.filter (·.isSub == h.isSub)).find? (exactP (h.name ++ "@" ++ h.rev)) = none := by
      rw [List.find?_eq_none]
      intro x hx
      simp only [List.mem_filter, beq_iff_eq] at hx
      simp only [exactP, decide_eq_true_eq, not_and]
      intro _ he
      have := key_inj (hns x hx.1) hn he
      apply hnew
      have : x = h := by
        cases x; cases h; simp_all
      exact this ▸ hx.1
    have hyes : exactP (h.name ++ "@" ++ h.rev) h = true := by simp [exactP, hr]
    simp [hex, hyes]
  · have hno : exactP key h = false := by
      simp only [exactP, decide_eq_false_iff_not, not_and]
      intro _ he; exact hk he.symm
    simp only [hno, hk, if_false, Option.or_none]
    by_cases hk2 : key = h.name
    · subst hk2
      have hex : (hs.filter (·.isSub == h.isSub)).find? (exactP h.name) = none := by
        rw [List.find?_eq_none]
        intro x _
        simp only [exactP, decide_eq_true_eq, not_and]
        intro _ he
        exact key_ne_name hn he
      simp only [hex, Option.none_or, decide_true, if_true]
      rw [latestS_snoc]
    · have : ¬ h.name = key := fun e => hk2 e.symm
      simp [hk2, this]

/-! ### association lists as maps -/

theorem get?_append (m : KeyMap) (k : String) (v : Nat) (k' : String) :
    KeyMap.get? (m ++ [(k, v)]) k' =
      match KeyMap.get? m k' with
      | some x => some x
      | none => if k' = k then some v else none := by
  unfold KeyMap.get?
  rw [List.find?_append]
  cases hf : m.find? (·.1 == k') with
  | some x => simp
  | none =>
    by_cases hk : k' = k
    · subst hk; simp
    · have : ¬ k = k' := fun e => hk e.symm
      simp [hk, this]

theorem get?_map_replace (m : KeyMap) (k : String) (v : Nat) (k' : String) :
    KeyMap.get? (m.map fun kv => if kv.1 == k then (k, v) else kv) k' =
      if k' = k then (if m.any (·.1 == k) then some v else none) else KeyMap.get? m k' := by
  unfold KeyMap.get?
  induction m with
  | nil => simp
  | cons kv rest ih =>
    rw [List.map_cons, List.find?_cons, List.find?_cons, List.any_cons]
    by_cases h1 : kv.1 = k
    · have e1 : (kv.1 == k) = true := by simpa using h1
      simp only [e1, if_true, Bool.true_or]
      by_cases hk : k' = k
      · subst hk; simp
      · have e2 : (k == k') = false := by simpa using fun e => hk (Eq.symm e)
        have e3 : (kv.1 == k') = false := by rw [h1]; exact e2
        simp only [e2, e3, hk, if_false] at ih ⊢
        exact ih
    · have e1 : (kv.1 == k) = false := by simpa using h1
      simp only [e1, Bool.false_or, if_false, Bool.false_eq_true]
      by_cases hk : kv.1 = k'
      · have e2 : (kv.1 == k') = true := by simpa using hk
        have : ¬ k' = k := fun e => h1 (hk.trans e)
        simp [e2, this]
      · have e2 : (kv.1 == k') = false := by simpa using hk
        simp only [e2]
        exact ih

theorem get?_eq_none_of_not_any {m : KeyMap} {k : String} (h : m.any (·.1 == k) = false) :
    KeyMap.get? m k = none := by
  unfold KeyMap.get?
  rw [Option.map_eq_none_iff, List.find?_eq_none]
  intro x hx
  have := List.any_eq_false.mp h x hx
  simpa using this

/-- Go map assignment then lookup. -/
theorem get?_bind (m : KeyMap) (k : String) (v : Nat) (k' : String) :
    KeyMap.get? (m.bind k v) k' = if k' = k then some v else KeyMap.get? m k' := by
  unfold KeyMap.bind
  by_cases ha : m.any (·.1 == k) = true
  · rw [if_pos ha, get?_map_replace]; simp [ha]
  · rw [if_neg ha, get?_append]
    have ha' : m.any (·.1 == k) = false := Bool.eq_false_iff.mpr ha
    by_cases hk : k' = k
    · subst hk; simp [get?_eq_none_of_not_any ha']
    · simp only [hk, if_false]; cases KeyMap.get? m k' <;> rfl

/-! ### module ids -/

theorem find?_seq : ∀ (l : List Mod) (off id : Nat), (∀ i (h : i < l.length), (l[i]).seq = off + i) →
    l.find? (·.seq == off + id) = l[id]?
  | [], _, _, _ => by simp
  | m :: rest, off, id, h => by
    have h0 := h 0 (by simp)
    simp only [List.getElem_cons_zero, Nat.add_zero] at h0
    cases id with
    | zero => simp [h0]
    | succ id =>
      have hne : (m.seq == off + (id + 1)) = false := by simp [h0]
      simp only [List.find?_cons, hne, List.getElem?_cons_succ]
      have := find?_seq rest (off + 1) id (fun i hi => by
        have := h (i + 1) (by simpa using hi)
        simp only [List.getElem_cons_succ] at this
        omega)
      rw [← this]; congr 1; funext x; congr 1; omega

def SeqOk (mods : List Mod) : Prop := ∀ i (h : i < mods.length), (mods[i]).seq = i

theorem byId_eq {r : Registry} (h : SeqOk r.mods) (id : Nat) : r.byId id = r.mods[id]? := by
  have := find?_seq r.mods 0 id (by simpa [SeqOk] using h)
  simpa [Registry.byId] using this

theorem seqOk_snoc {mods : List Mod} (h : SeqOk mods) (s : Stmt) : SeqOk (mods ++ [⟨mods.length, s⟩]) := by
  intro i hi
  by_cases hlt : i < mods.length
  · rw [List.getElem_append_left hlt]; exact h i hlt
  · have : i = mods.length := by simp at hi; omega
    subst this; simp

/-! ### the registry invariant -/

def hdrOf (m : Mod) : Header := ⟨m.isSub, m.name, m.current⟩
def hdr (s : Stmt) : Header := hdrOf ⟨0, s⟩

theorem hdrOf_eq (m : Mod) : hdrOf m = hdr m.stmt := rfl

/-- What a key denotes in the table of a kind (`getSub` / `getModule`). -/
def lk (r : Registry) (sub : Bool) (k : String) : Option Mod := ((r.kmOf sub).get? k).bind r.byId

theorem lk_true (r : Registry) (k : String) : lk r true k = r.getSub k := rfl
theorem lk_false (r : Registry) (k : String) : lk r false k = r.getModule k := rfl

theorem kmOf_withKm (r : Registry) (b b' : Bool) (km : KeyMap) :
    (r.withKm b km).kmOf b' = if b' = b then km else r.kmOf b' := by
  cases b <;> cases b' <;> rfl
theorem umOf_withKm (r : Registry) (b b' : Bool) (km : KeyMap) : (r.withKm b km).umOf b' = r.umOf b' := by
  cases b <;> cases b' <;> rfl
theorem mods_withKm (r : Registry) (b : Bool) (km : KeyMap) : (r.withKm b km).mods = r.mods := by
  cases b <;> rfl
theorem kmOf_withUm (r : Registry) (b b' : Bool) (um : KeyMap) : (r.withUm b um).kmOf b' = r.kmOf b' := by
  cases b <;> cases b' <;> rfl
theorem umOf_withUm (r : Registry) (b b' : Bool) (um : KeyMap) :
    (r.withUm b um).umOf b' = if b' = b then um else r.umOf b' := by
  cases b <;> cases b' <;> rfl
theorem mods_withUm (r : Registry) (b : Bool) (um : KeyMap) : (r.withUm b um).mods = r.mods := by
  cases b <;> rfl

theorem fullName_eq (m : Mod) :
    m.fullName = if m.current = "" then m.name else m.name ++ "@" ++ m.current := by
  unfold Mod.fullName
  by_cases h : m.current = "" <;> simp [h]

theorem fullName_beq_name (m : Mod) : (m.fullName == m.name) = decide (m.current = "") := by
  rw [fullName_eq]
  by_cases h : m.current = ""
  · simp [h]
  · simp only [h, if_false, decide_false]
    exact beq_false_of_ne (key_ne_self _ _)

structure Inv (r : Registry) (L : List Stmt) : Prop where
  seq : SeqOk r.mods
  valid : ∀ sub k id, (r.kmOf sub).get? k = some id → id < r.mods.length
  src : ∀ m ∈ r.mods, m.stmt ∈ L
  look : ∀ sub k, (lk r sub k).map hdrOf = denotesS (L.map hdr) sub k
  unrev : ∀ sub n, ((r.umOf sub).get? n).isSome = true ↔ (⟨sub, n, ""⟩ : Header) ∈ L.map hdr

theorem inv_empty : Inv {} [] where
  seq := by intro i h; simp at h
  valid := by intro sub k id h; cases sub <;> simp [Registry.kmOf, KeyMap.get?] at h
  src := by simp
  look := by intro sub k; cases sub <;> simp [lk, Registry.kmOf, KeyMap.get?, denotesS, latestS]
  unrev := by intro sub n; cases sub <;> simp [Registry.umOf, KeyMap.get?]

theorem inv_dup {r : Registry} {L : List Stmt} {s : Stmt} (inv : Inv r L) (hd : hdr s ∈ L.map hdr) :
    Inv r (L ++ [s]) where
  seq := inv.seq
  valid := inv.valid
  src := fun m hm => List.mem_append_left _ (inv.src m hm)
  look := by
    intro sub k
    rw [List.map_append, List.map_cons, List.map_nil, denotesS_dup hd]
    exact inv.look sub k
  unrev := by
    intro sub n
    rw [inv.unrev, List.map_append, List.mem_append]
    constructor
    · exact .inl
    · rintro (h | h)
      · exact h
      · simp only [List.map_cons, List.map_nil, List.mem_singleton] at h
        rw [h]; exact hd

/-- Lookup of an id after one more module has been appended. -/
theorem byId_snoc {r r' : Registry} {s : Stmt} (hseq : SeqOk r.mods)
    (hmods : r'.mods = r.mods ++ [⟨r.mods.length, s⟩]) (id : Nat) :
    r'.byId id = if id < r.mods.length then r.byId id
      else if id = r.mods.length then some ⟨r.mods.length, s⟩ else none := by
  have hseq' : SeqOk r'.mods := by rw [hmods]; exact seqOk_snoc hseq s
  rw [byId_eq hseq', byId_eq hseq, hmods]
  by_cases h1 : id < r.mods.length
  · rw [if_pos h1, List.getElem?_append_left h1]
  · rw [if_neg h1]
    by_cases h2 : id = r.mods.length
    · subst h2; simp
    · rw [if_neg h2]
      apply List.getElem?_eq_none
      simp; omega

theorem byId_some_of_lt {r : Registry} (hseq : SeqOk r.mods) {id : Nat} (h : id < r.mods.length) :
    ∃ o, r.byId id = some o ∧ o ∈ r.mods := by
  rw [byId_eq hseq]
  exact ⟨r.mods[id], List.getElem?_eq_getElem h, List.getElem_mem h⟩

theorem lk_snoc {r r' : Registry} {s : Stmt} (inv_seq : SeqOk r.mods)
    (hmods : r'.mods = r.mods ++ [⟨r.mods.length, s⟩]) (sub : Bool) (k : String) :
    lk r' sub k =
      match (r'.kmOf sub).get? k with
      | none => none
      | some id => if id < r.mods.length then r.byId id
          else if id = r.mods.length then some ⟨r.mods.length, s⟩ else none := by
  unfold lk
  cases (r'.kmOf sub).get? k with
  | none => rfl
  | some id => simp only [Option.bind_some]; exact byId_snoc inv_seq hmods id

/-- A table entry that is there denotes a loaded module. -/
theorem lk_of_get? {r : Registry} {L : List Stmt} (inv : Inv r L) {sub : Bool} {k : String} {id : Nat}
    (h : (r.kmOf sub).get? k = some id) : ∃ o, r.byId id = some o ∧ lk r sub k = some o ∧ o ∈ r.mods := by
  obtain ⟨o, ho, hmem⟩ := byId_some_of_lt inv.seq (inv.valid sub k id h)
  exact ⟨o, ho, by simp [lk, h, ho], hmem⟩

theorem lk_none_of_get? {r : Registry} {sub : Bool} {k : String} (h : (r.kmOf sub).get? k = none) :
    lk r sub k = none := by simp [lk, h]

theorem noAt_hdrs {L : List Stmt} (hL : ∀ t ∈ L, NoAt t.arg) : ∀ x ∈ L.map hdr, NoAt x.name := by
  intro x hx
  obtain ⟨t, ht, rfl⟩ := List.mem_map.mp hx
  exact hL t ht

theorem hdr_eta (h : Header) : h = ⟨h.isSub, h.name, h.rev⟩ := rfl

/-- A lookup whose table entry is an old id is the old lookup. -/
theorem lk_snoc_old {r r' : Registry} {L : List Stmt} {s : Stmt} (inv : Inv r L)
    (hmods : r'.mods = r.mods ++ [⟨r.mods.length, s⟩]) {sub : Bool} {k : String}
    (hsame : (r'.kmOf sub).get? k = (r.kmOf sub).get? k) : lk r' sub k = lk r sub k := by
  rw [lk_snoc inv.seq hmods, hsame]
  cases hg : (r.kmOf sub).get? k with
  | none => simp [lk, hg]
  | some id =>
    have := inv.valid sub k id hg
    simp [lk, hg, this]

theorem lk_snoc_new {r r' : Registry} {s : Stmt} (hseq : SeqOk r.mods)
    (hmods : r'.mods = r.mods ++ [⟨r.mods.length, s⟩]) {sub : Bool} {k : String}
    (hnew : (r'.kmOf sub).get? k = some r.mods.length) : lk r' sub k = some ⟨r.mods.length, s⟩ := by
  rw [lk_snoc hseq hmods, hnew]; simp

/-- The successful load of a module without revision. -/
theorem inv_add_unrev {r : Registry} {L : List Stmt} {s : Stmt} (inv : Inv r L)
    (hs : NoAt s.arg) (hc : (hdr s).rev = "")
    (hum : (r.umOf (hdr s).isSub).get? (hdr s).name = none) :
    hdr s ∉ L.map hdr ∧
    Inv (({ r with mods := r.mods ++ [(⟨r.mods.length, s⟩ : Mod)] } : Registry).withUm (hdr s).isSub
          ((r.umOf (hdr s).isSub).bind (hdr s).name r.mods.length)
        |>.withKm (hdr s).isSub
          (match (r.kmOf (hdr s).isSub).get? (hdr s).name with
           | some _ => r.kmOf (hdr s).isSub
           | none => (r.kmOf (hdr s).isSub).bind (hdr s).name r.mods.length)) (L ++ [s]) := by
  generalize hh : hdr s = h at *
  have hnew : h ∉ L.map hdr := by
    intro hm
    have := (inv.unrev h.isSub h.name).mpr (by rw [← hc]; exact hm)
    simp [hum] at this
  refine ⟨hnew, ?_⟩
  generalize hr' : Registry.withKm _ _ _ = r'
  have hmods : r'.mods = r.mods ++ [⟨r.mods.length, s⟩] := by
    rw [← hr', mods_withKm, mods_withUm]
  have hkm : ∀ b', r'.kmOf b' = if b' = h.isSub then
      (match (r.kmOf h.isSub).get? h.name with
           | some _ => r.kmOf h.isSub
           | none => (r.kmOf h.isSub).bind h.name r.mods.length) else r.kmOf b' := by
    intro b'; rw [← hr', kmOf_withKm]
    by_cases hb : b' = h.isSub
    · simp [hb]
    · simp only [hb, if_false, kmOf_withUm]; cases b' <;> rfl
  have hum' : ∀ b', r'.umOf b' = if b' = h.isSub then (r.umOf h.isSub).bind h.name r.mods.length
      else r.umOf b' := by
    intro b'; rw [← hr', umOf_withKm, umOf_withUm]
    by_cases hb : b' = h.isSub
    · simp [hb]
    · simp only [hb, if_false]; cases b' <;> rfl
  have hmap : (L ++ [s]).map hdr = L.map hdr ++ [h] := by simp [hh]
  -- the table of the kind of `s`, key by key
  have hget : ∀ k, (r'.kmOf h.isSub).get? k =
      if k = h.name then (match (r.kmOf h.isSub).get? h.name with
        | some id => some id | none => some r.mods.length) else (r.kmOf h.isSub).get? k := by
    intro k
    rw [hkm, if_pos rfl]
    cases hg : (r.kmOf h.isSub).get? h.name with
    | some id => by_cases hk : k = h.name <;> simp [hk, hg]
    | none => simp only [get?_bind]
  constructor
  · rw [hmods]; exact seqOk_snoc inv.seq s
  · intro sub k id hg
    rw [hmods, List.length_append]; simp only [List.length_singleton]
    by_cases hb : sub = h.isSub
    · subst hb
      rw [hget] at hg
      by_cases hk : k = h.name
      · rw [if_pos hk] at hg
        cases hg0 : (r.kmOf h.isSub).get? h.name with
        | some id0 =>
          rw [hg0] at hg; simp only [Option.some.injEq] at hg
          have := inv.valid _ _ _ hg0; omega
        | none => rw [hg0] at hg; simp only [Option.some.injEq] at hg; omega
      · rw [if_neg hk] at hg
        have := inv.valid _ _ _ hg; omega
    · rw [hkm, if_neg hb] at hg
      have := inv.valid _ _ _ hg; omega
  · intro m hm
    rw [hmods] at hm
    rcases List.mem_append.mp hm with hm | hm
    · exact List.mem_append_left _ (inv.src m hm)
    · simp only [List.mem_singleton] at hm; subst hm; simp
  · intro sub k
    rw [hmap]
    by_cases hb : sub = h.isSub
    · subst hb
      rw [denotesS_snoc_unrev hc (hh ▸ hs)]
      by_cases hk : k = h.name
      · subst hk
        rw [if_pos rfl, ← inv.look]
        cases hg0 : (r.kmOf h.isSub).get? h.name with
        | some id0 =>
          obtain ⟨o, _, hlk, _⟩ := lk_of_get? inv hg0
          have : lk r' h.isSub h.name = lk r h.isSub h.name :=
            lk_snoc_old inv hmods (by rw [hget, if_pos rfl, hg0])
          rw [this, hlk]; rfl
        | none =>
          rw [lk_none_of_get? hg0]
          have : lk r' h.isSub h.name = some ⟨r.mods.length, s⟩ :=
            lk_snoc_new inv.seq hmods (by rw [hget, if_pos rfl, hg0])
          rw [this]; simp only [Option.map_some, Option.map_none]; rw [hdrOf_eq, hh]
      · rw [if_neg hk, ← inv.look]
        rw [lk_snoc_old inv hmods (by rw [hget, if_neg hk])]
    · have hb' : h.isSub ≠ sub := fun e => hb e.symm
      rw [denotesS_other hb', ← inv.look]
      rw [lk_snoc_old inv hmods (by rw [hkm, if_neg hb])]
  · intro sub n
    rw [hmap, List.mem_append, ← inv.unrev, hum']
    by_cases hb : sub = h.isSub
    · subst hb
      rw [if_pos rfl, get?_bind]
      by_cases hn : n = h.name
      · subst hn
        simp only [if_true, Option.isSome_some, List.mem_singleton, true_iff]
        right; rw [← hc]
      · simp only [hn, if_false, List.mem_singleton]
        constructor
        · exact .inl
        · rintro (h1 | h1)
          · exact h1
          · exact absurd (congrArg Header.name h1) hn
    · rw [if_neg hb]
      simp only [List.mem_singleton]
      constructor
      · exact .inl
      · rintro (h1 | h1)
        · exact h1
        · exact absurd (congrArg Header.isSub h1) hb

theorem strLt_fullName {o : Mod} {name rev : String} (ho : o.name = name) (hr : rev ≠ "") :
    strLt o.fullName (name ++ "@" ++ rev) = strLt o.current rev := by
  rw [fullName_eq, ho]
  by_cases hc : o.current = ""
  · rw [if_pos hc, hc, String.append_assoc]
    have h1 : strLt name (name ++ ("@" ++ rev)) = true := by
      apply strLt_prefix
      intro h
      have := congrArg (fun s => s.toList.length) h
      simp [String.toList_append] at this
    have h2 : strLt "" rev = true := (strLt_empty_left rev).mpr hr
    rw [h1, h2]
  · rw [if_neg hc, strLt_append_left]

/-- The successful load of a module with a revision. -/
theorem inv_add_rev {r : Registry} {L : List Stmt} {s : Stmt} (inv : Inv r L)
    (hs : NoAt s.arg) (hL : ∀ t ∈ L, NoAt t.arg) (hc : (hdr s).rev ≠ "")
    (hg : (r.kmOf (hdr s).isSub).get? ((hdr s).name ++ "@" ++ (hdr s).rev) = none) :
    hdr s ∉ L.map hdr ∧
    Inv (({ r with mods := r.mods ++ [(⟨r.mods.length, s⟩ : Mod)] } : Registry).withKm (hdr s).isSub
          (match ((r.kmOf (hdr s).isSub).bind ((hdr s).name ++ "@" ++ (hdr s).rev) r.mods.length).get? (hdr s).name with
           | none => ((r.kmOf (hdr s).isSub).bind ((hdr s).name ++ "@" ++ (hdr s).rev) r.mods.length).bind
                (hdr s).name r.mods.length
           | some oid =>
             match ({ r with mods := r.mods ++ [(⟨r.mods.length, s⟩ : Mod)] } : Registry).byId oid with
             | none => (r.kmOf (hdr s).isSub).bind ((hdr s).name ++ "@" ++ (hdr s).rev) r.mods.length
             | some o =>
               if strLt o.fullName ((hdr s).name ++ "@" ++ (hdr s).rev) then
                 ((r.kmOf (hdr s).isSub).bind ((hdr s).name ++ "@" ++ (hdr s).rev) r.mods.length).bind
                   (hdr s).name r.mods.length
               else (r.kmOf (hdr s).isSub).bind ((hdr s).name ++ "@" ++ (hdr s).rev) r.mods.length))
      (L ++ [s]) := by
  have hn : NoAt (hdr s).name := hs
  generalize hh : hdr s = h at *
  have hnew : h ∉ L.map hdr := by
    intro hm
    obtain ⟨x, hx⟩ := denotesS_exact_of_mem hm hc
    rw [← inv.look, lk_none_of_get? hg] at hx
    simp at hx
  refine ⟨hnew, ?_⟩
  have hfn : h.name ++ "@" ++ h.rev ≠ h.name := key_ne_self _ _
  have hnf : h.name ≠ h.name ++ "@" ++ h.rev := fun e => hfn e.symm
  -- the new table, key by key: the full name is bound to the new module; the bare name is rebound
  -- when it is free or held by a smaller full name
  have hkm2 : ∃ km2, (match ((r.kmOf h.isSub).bind (h.name ++ "@" ++ h.rev) r.mods.length).get? h.name with
           | none => ((r.kmOf h.isSub).bind (h.name ++ "@" ++ h.rev) r.mods.length).bind h.name r.mods.length
           | some oid =>
             match ({ r with mods := r.mods ++ [(⟨r.mods.length, s⟩ : Mod)] } : Registry).byId oid with
             | none => (r.kmOf h.isSub).bind (h.name ++ "@" ++ h.rev) r.mods.length
             | some o =>
               if strLt o.fullName (h.name ++ "@" ++ h.rev) then
                 ((r.kmOf h.isSub).bind (h.name ++ "@" ++ h.rev) r.mods.length).bind h.name r.mods.length
               else (r.kmOf h.isSub).bind (h.name ++ "@" ++ h.rev) r.mods.length) = km2 ∧
      ∀ k, km2.get? k =
        if k = h.name ++ "@" ++ h.rev then some r.mods.length
        else if k = h.name then
          (match lk r h.isSub h.name with
           | none => some r.mods.length
           | some o => if strLt o.current h.rev then some r.mods.length else (r.kmOf h.isSub).get? h.name)
        else (r.kmOf h.isSub).get? k := by
    refine ⟨_, rfl, ?_⟩
    intro k
    rw [get?_bind, if_neg hnf]
    cases hg0 : (r.kmOf h.isSub).get? h.name with
    | none =>
      simp only [lk_none_of_get? hg0, get?_bind]
      by_cases hk1 : k = h.name ++ "@" ++ h.rev
      · have : k ≠ h.name := by rw [hk1]; exact hfn
        simp [hk1, this, hfn]
      · by_cases hk2 : k = h.name <;> simp [hk1, hk2]
    | some oid =>
      obtain ⟨o, ho, hlk, _⟩ := lk_of_get? inv hg0
      have hby : ({ r with mods := r.mods ++ [(⟨r.mods.length, s⟩ : Mod)] } : Registry).byId oid = some o := by
        rw [byId_snoc inv.seq rfl, if_pos (inv.valid _ _ _ hg0)]; exact ho
      simp only [hby, hlk]
      have hon : o.name = h.name := by
        have := inv.look h.isSub h.name
        rw [hlk] at this
        obtain ⟨_, _, h3⟩ := denotesS_mem this.symm
        rcases h3 with ⟨_, h3⟩ | h3
        · exact absurd h3 (key_ne_name hn)
        · exact h3
      rw [strLt_fullName hon hc]
      by_cases hlt : strLt o.current h.rev = true
      · simp only [hlt, if_true, get?_bind]
        by_cases hk1 : k = h.name ++ "@" ++ h.rev
        · have : k ≠ h.name := by rw [hk1]; exact hfn
          simp [hk1, this, hfn]
        · by_cases hk2 : k = h.name <;> simp [hk1, hk2]
      · simp only [hlt, if_false, Bool.false_eq_true, get?_bind]
        by_cases hk1 : k = h.name ++ "@" ++ h.rev
        · simp [hk1]
        · by_cases hk2 : k = h.name
          · subst hk2; simp [hk1, hg0]
          · simp [hk1, hk2]
  obtain ⟨km2, hkm2eq, hget⟩ := hkm2
  rw [hkm2eq]
  generalize hr' : Registry.withKm _ _ _ = r'
  have hmods : r'.mods = r.mods ++ [⟨r.mods.length, s⟩] := by rw [← hr', mods_withKm]
  have hkm : ∀ b', r'.kmOf b' = if b' = h.isSub then km2 else r.kmOf b' := by
    intro b'; rw [← hr', kmOf_withKm]
    by_cases hb : b' = h.isSub
    · simp [hb]
    · simp only [hb, if_false]; cases b' <;> rfl
  have hum' : ∀ b', r'.umOf b' = r.umOf b' := by
    intro b'; rw [← hr', umOf_withKm]; cases b' <;> rfl
  have hmap : (L ++ [s]).map hdr = L.map hdr ++ [h] := by simp [hh]
  constructor
  · rw [hmods]; exact seqOk_snoc inv.seq s
  · intro sub k id hgk
    rw [hmods, List.length_append]; simp only [List.length_singleton]
    by_cases hb : sub = h.isSub
    · subst hb
      rw [hkm, if_pos rfl, hget] at hgk
      by_cases hk1 : k = h.name ++ "@" ++ h.rev
      · rw [if_pos hk1] at hgk; simp only [Option.some.injEq] at hgk; omega
      · rw [if_neg hk1] at hgk
        by_cases hk2 : k = h.name
        · rw [if_pos hk2] at hgk
          cases hl : lk r h.isSub h.name with
          | none => rw [hl] at hgk; simp only [Option.some.injEq] at hgk; omega
          | some o =>
            rw [hl] at hgk; simp only at hgk
            by_cases hlt : strLt o.current h.rev = true
            · rw [if_pos hlt] at hgk; simp only [Option.some.injEq] at hgk; omega
            · rw [if_neg hlt] at hgk; have := inv.valid _ _ _ hgk; omega
        · rw [if_neg hk2] at hgk; have := inv.valid _ _ _ hgk; omega
    · rw [hkm, if_neg hb] at hgk
      have := inv.valid _ _ _ hgk; omega
  · intro m hm
    rw [hmods] at hm
    rcases List.mem_append.mp hm with hm | hm
    · exact List.mem_append_left _ (inv.src m hm)
    · simp only [List.mem_singleton] at hm; subst hm; simp
  · intro sub k
    rw [hmap]
    by_cases hb : sub = h.isSub
    · subst hb
      rw [denotesS_snoc_rev hc hnew hn (noAt_hdrs hL)]
      have hnewm : hdrOf ⟨r.mods.length, s⟩ = h := by rw [hdrOf_eq, hh]
      by_cases hk1 : k = h.name ++ "@" ++ h.rev
      · rw [if_pos hk1]
        rw [lk_snoc_new inv.seq hmods (by rw [hkm, if_pos rfl, hget, if_pos hk1])]
        simp [hnewm]
      · rw [if_neg hk1]
        by_cases hk2 : k = h.name
        · subst hk2
          rw [if_pos rfl, ← inv.look]
          cases hl : lk r h.isSub h.name with
          | none =>
            rw [lk_snoc_new inv.seq hmods (by rw [hkm, if_pos rfl, hget, if_neg hk1, if_pos rfl, hl])]
            simp [hnewm]
          | some o =>
            simp only [Option.map_some]
            have hoc : (hdrOf o).rev = o.current := rfl
            rw [hoc]
            by_cases hlt : strLt o.current h.rev = true
            · rw [lk_snoc_new inv.seq hmods (by rw [hkm, if_pos rfl, hget, if_neg hk1, if_pos rfl, hl]; simp [hlt])]
              simp [hnewm, hlt]
            · rw [lk_snoc_old inv hmods (by rw [hkm, if_pos rfl, hget, if_neg hk1, if_pos rfl, hl]; simp [hlt])]
              simp [hl, hlt]
        · rw [if_neg hk2, ← inv.look]
          rw [lk_snoc_old inv hmods (by rw [hkm, if_pos rfl, hget, if_neg hk1, if_neg hk2])]
    · have hb' : h.isSub ≠ sub := fun e => hb e.symm
      rw [denotesS_other hb', ← inv.look]
      rw [lk_snoc_old inv hmods (by rw [hkm, if_neg hb])]
  · intro sub n
    rw [hmap, List.mem_append, ← inv.unrev, hum']
    simp only [List.mem_singleton]
    constructor
    · exact .inl
    · rintro (h1 | h1)
      · exact h1
      · exact absurd (congrArg Header.rev h1).symm hc

/-- One `add`: rejected exactly when a load with the same header came before; the invariant goes on. -/
theorem add_step {r : Registry} {L : List Stmt} {s : Stmt} (inv : Inv r L)
    (hs : NoAt s.arg) (hL : ∀ t ∈ L, NoAt t.arg) :
    match r.add s with
    | .ok r' => hdr s ∉ L.map hdr ∧ Inv r' (L ++ [s])
    | .error _ => hdr s ∈ L.map hdr ∧ Inv r (L ++ [s]) := by
  have e1 : (⟨r.mods.length, s⟩ : Mod).current = (hdr s).rev := rfl
  have e2 : (⟨r.mods.length, s⟩ : Mod).name = (hdr s).name := rfl
  have e3 : (⟨r.mods.length, s⟩ : Mod).isSub = (hdr s).isSub := rfl
  have hbeq : ((⟨r.mods.length, s⟩ : Mod).fullName == (hdr s).name) = decide ((hdr s).rev = "") :=
    fullName_beq_name ⟨r.mods.length, s⟩
  have hs' : NoAt (hdr s).name := hs
  rw [Registry.add_eq_addChecked (contains_of_noAt hs)]
  unfold Registry.addChecked
  simp only [e2, e3, hbeq]
  by_cases hc : (hdr s).rev = ""
  · simp only [hc, decide_true, if_true]
    cases hum : (r.umOf (hdr s).isSub).get? (hdr s).name with
    | some id =>
      simp only
      have hd : hdr s ∈ L.map hdr := by
        have := (inv.unrev (hdr s).isSub (hdr s).name).mp (by simp [hum])
        rw [← hc] at this; exact this
      exact ⟨hd, inv_dup inv hd⟩
    | none =>
      simp only
      exact inv_add_unrev inv hs hc hum
  · have hfull : (⟨r.mods.length, s⟩ : Mod).fullName = (hdr s).name ++ "@" ++ (hdr s).rev := by
      rw [fullName_eq, e1, e2, if_neg hc]
    simp only [hc, decide_false, if_false, Bool.false_eq_true, hfull]
    cases hg : (r.kmOf (hdr s).isSub).get? ((hdr s).name ++ "@" ++ (hdr s).rev) with
    | some id =>
      simp only
      obtain ⟨o, _, hlk, _⟩ := lk_of_get? inv hg
      have hden := inv.look (hdr s).isSub ((hdr s).name ++ "@" ++ (hdr s).rev)
      rw [hlk] at hden
      obtain ⟨hm, hsub, h3⟩ := denotesS_mem hden.symm
      have hd : hdr s ∈ L.map hdr := by
        rcases h3 with ⟨_, h3⟩ | h3
        · have := key_inj (noAt_hdrs hL _ hm) hs' h3
          have : hdrOf o = hdr s :=
            calc hdrOf o = ⟨(hdrOf o).isSub, (hdrOf o).name, (hdrOf o).rev⟩ := rfl
              _ = ⟨(hdr s).isSub, (hdr s).name, (hdr s).rev⟩ := by rw [hsub, this.1, this.2]
              _ = hdr s := rfl
          rw [← this]; exact hm
        · exact absurd h3.symm (key_ne_name (noAt_hdrs hL _ hm))
      exact ⟨hd, inv_dup inv hd⟩
    | none =>
      simp only
      exact inv_add_rev inv hs hL hc hg

/-! ### a whole sequence of loads -/

/-- The outcomes of loading `ss` into a registry that has seen `L`, and the final invariant. -/
theorem loadFrom_spec : ∀ (ss : List Stmt) {r : Registry} {L : List Stmt}, Inv r L →
    (∀ t ∈ L, NoAt t.arg) → (∀ t ∈ ss, NoAt t.arg) →
    Inv (r.loadFrom ss).1 (L ++ ss) ∧
    (r.loadFrom ss).2.map Option.isSome = outcomesAfter (L.map hdr) (ss.map hdr)
  | [], r, L, inv, _, _ => by simpa [Registry.loadFrom, outcomesAfter] using inv
  | s :: rest, r, L, inv, hL, hss => by
    have hs : NoAt s.arg := hss s (by simp)
    have hrest : ∀ t ∈ rest, NoAt t.arg := fun t ht => hss t (by simp [ht])
    have hL' : ∀ t ∈ L ++ [s], NoAt t.arg := by
      intro t ht
      rcases List.mem_append.mp ht with ht | ht
      · exact hL t ht
      · simp only [List.mem_singleton] at ht; subst ht; exact hs
    have step := add_step inv hs hL
    unfold Registry.loadFrom
    cases hadd : r.add s with
    | ok r' =>
      rw [hadd] at step
      obtain ⟨hnew, inv'⟩ := step
      obtain ⟨ih1, ih2⟩ := loadFrom_spec rest inv' hL' hrest
      simp only [List.map_cons, outcomesAfter, Option.isSome_none]
      refine ⟨by simpa using ih1, ?_⟩
      rw [ih2, List.map_append]
      simp [hnew]
    | error e =>
      rw [hadd] at step
      obtain ⟨hd, inv'⟩ := step
      obtain ⟨ih1, ih2⟩ := loadFrom_spec rest inv' hL' hrest
      simp only [List.map_cons, outcomesAfter, Option.isSome_some]
      refine ⟨by simpa using ih1, ?_⟩
      rw [ih2, List.map_append]
      simp [hd]

/-- Loading into a fresh registry. -/
theorem loadAll_spec (ss : List Stmt) (hss : ∀ t ∈ ss, NoAt t.arg) :
    Inv (Registry.loadAll ss).1 ss ∧
    (Registry.loadAll ss).2.map Option.isSome = outcomes (ss.map hdr) := by
  have := loadFrom_spec ss inv_empty (by simp) hss
  simpa [Registry.loadAll, outcomes] using this

/-! ### what `denotesS` returns, by membership only -/

theorem sLe_antisymm {a b : String} (h1 : sLe a b = true) (h2 : sLe b a = true) : a = b := by
  simp only [sLe, Bool.not_eq_true'] at h1 h2
  rcases strLt_total a b with h | h | h
  · simp [h] at h2
  · exact h
  · simp [h] at h1

/-- `x` is what `key` denotes among `hs`, said without reference to the order of `hs`. -/
def Den (hs : List Header) (sub : Bool) (key : String) (x : Header) : Prop :=
  x ∈ hs ∧ x.isSub = sub ∧
  ((x.rev ≠ "" ∧ x.name ++ "@" ++ x.rev = key) ∨
   ((∀ g ∈ hs, g.isSub = sub → ¬ (g.rev ≠ "" ∧ g.name ++ "@" ++ g.rev = key)) ∧ x.name = key ∧
     ∀ g ∈ hs, g.isSub = sub → g.name = key → sLe g.rev x.rev = true))

theorem den_of_denotesS {hs : List Header} {sub : Bool} {key : String} {x : Header}
    (h : denotesS hs sub key = some x) : Den hs sub key x := by
  rw [denotesS_def] at h
  cases hf : (hs.filter (·.isSub == sub)).find? (exactP key) with
  | some o =>
    simp only [hf, Option.some_or, Option.some.injEq] at h
    subst h
    have h1 := List.mem_of_find?_eq_some hf
    have h2 := List.find?_some hf
    simp only [List.mem_filter, beq_iff_eq] at h1
    simp only [exactP, decide_eq_true_eq] at h2
    exact ⟨h1.1, h1.2, .inl h2⟩
  | none =>
    simp only [hf, Option.none_or] at h
    obtain ⟨hm, hmax⟩ := latestS_some h
    simp only [List.mem_filter, beq_iff_eq, decide_eq_true_eq] at hm
    refine ⟨hm.1.1, hm.1.2, .inr ⟨?_, hm.2, ?_⟩⟩
    · intro g hg hgs
      rw [List.find?_eq_none] at hf
      have := hf g (by simp [hg, hgs])
      simpa [exactP] using this
    · intro g hg hgs hgn
      exact hmax g (by simp [hg, hgs, hgn])

theorem denotesS_ne_none_of_den {hs : List Header} {sub : Bool} {key : String} {x : Header}
    (h : Den hs sub key x) : denotesS hs sub key ≠ none := by
  obtain ⟨hm, hs', h3⟩ := h
  rw [denotesS_def]
  intro hnone
  rw [Option.or_eq_none_iff] at hnone
  obtain ⟨hf, hl⟩ := hnone
  rcases h3 with h3 | ⟨_, hn, _⟩
  · rw [List.find?_eq_none] at hf
    have := hf x (by simp [hm, hs'])
    simp [exactP, h3] at this
  · rw [latestS_eq_none] at hl
    have : x ∈ (hs.filter (·.isSub == sub)).filter (·.name = key) := by simp [hm, hs', hn]
    rw [hl] at this; simp at this

theorem den_unique {hs : List Header} {sub : Bool} {key : String} {x y : Header}
    (hn : ∀ g ∈ hs, NoAt g.name) (hx : Den hs sub key x) (hy : Den hs sub key y) : x = y := by
  obtain ⟨xm, xs, x3⟩ := hx
  obtain ⟨ym, ys, y3⟩ := hy
  have ext : x.isSub = y.isSub → x.name = y.name → x.rev = y.rev → x = y := by
    cases x; cases y; simp_all
  rcases x3 with ⟨xr, xk⟩ | ⟨xno, xn, xmax⟩ <;> rcases y3 with ⟨yr, yk⟩ | ⟨yno, yn, ymax⟩
  · have := key_inj (hn x xm) (hn y ym) (xk.trans yk.symm)
    exact ext (xs.trans ys.symm) this.1 this.2
  · exact absurd ⟨xr, xk⟩ (yno x xm xs)
  · exact absurd ⟨yr, yk⟩ (xno y ym ys)
  · exact ext (xs.trans ys.symm) (xn.trans yn.symm)
      (sLe_antisymm (ymax x xm xs xn) (xmax y ym ys yn))

theorem den_perm {hs hs' : List Header} (hp : hs.Perm hs') (sub : Bool) (key : String) (x : Header) :
    Den hs sub key x → Den hs' sub key x := by
  rintro ⟨hm, hs0, h3⟩
  refine ⟨hp.mem_iff.mp hm, hs0, ?_⟩
  rcases h3 with h3 | ⟨h1, h2, h4⟩
  · exact .inl h3
  · exact .inr ⟨fun g hg => h1 g (hp.mem_iff.mpr hg), h2, fun g hg => h4 g (hp.mem_iff.mpr hg)⟩

/-- What a key denotes does not depend on the order of the headers. -/
theorem denotesS_perm {hs hs' : List Header} (hp : hs.Perm hs') (hn : ∀ g ∈ hs, NoAt g.name)
    (sub : Bool) (key : String) : denotesS hs sub key = denotesS hs' sub key := by
  have hn' : ∀ g ∈ hs', NoAt g.name := fun g hg => hn g (hp.mem_iff.mpr hg)
  cases h1 : denotesS hs sub key with
  | none =>
    cases h2 : denotesS hs' sub key with
    | none => rfl
    | some y =>
      exact absurd h1 (denotesS_ne_none_of_den (den_perm hp.symm sub key y (den_of_denotesS h2)))
  | some x =>
    have dx := den_perm hp sub key x (den_of_denotesS h1)
    cases h2 : denotesS hs' sub key with
    | none => exact absurd h2 (denotesS_ne_none_of_den dx)
    | some y => rw [den_unique hn' dx (den_of_denotesS h2)]

/-! ### rejected loads -/

/-- The headers of the rejected loads, given the headers loaded before. -/
def rejAfter (before : List Header) : List Header → List Header
  | [] => []
  | h :: rest => (if before.contains h then [h] else []) ++ rejAfter (before ++ [h]) rest

theorem rejAfter_eq (before hs : List Header) :
    ((hs.zip (outcomesAfter before hs)).filter (·.2)).map (·.1) = rejAfter before hs := by
  induction hs generalizing before with
  | nil => rfl
  | cons h rest ih =>
    simp only [outcomesAfter, List.zip_cons_cons, List.filter_cons, rejAfter]
    by_cases hb : h ∈ before <;> simp [hb, ih]

theorem count_rejAfter (h : Header) (before hs : List Header) :
    (rejAfter before hs).count h = if h ∈ before then hs.count h else hs.count h - 1 := by
  induction hs generalizing before with
  | nil => simp [rejAfter]
  | cons g rest ih =>
    simp only [rejAfter, List.count_append, ih, List.mem_append, List.mem_singleton, List.count_cons]
    by_cases hgb : g ∈ before
    · have : before.contains g = true := by simpa using hgb
      simp only [this, if_true]
      by_cases hgh : g = h
      · subst hgh; simp [hgb] <;> omega
      · have hne : ¬ h = g := fun e => hgh e.symm
        have : (g == h) = false := by simpa using hgh
        simp [hne, this, hgh]
    · have : before.contains g = false := by simpa using hgb
      simp only [this, Bool.false_eq_true, if_false, List.count_nil, Nat.zero_add]
      by_cases hgh : g = h
      · subst hgh; simp [hgb]
      · have hne : ¬ h = g := fun e => hgh e.symm
        have : (g == h) = false := by simpa using hgh
        simp [hne, this] <;> omega

theorem rejAfter_perm {hs hs' : List Header} (hp : hs.Perm hs') : (rejAfter [] hs).Perm (rejAfter [] hs') := by
  rw [List.perm_iff_count]
  intro h
  rw [count_rejAfter, count_rejAfter, hp.count_eq]

/-- The outcome of load `j`: rejected exactly when an equal header is among the earlier loads. -/
theorem outcomesAfter_getElem? (before hs : List Header) (j : Nat) :
    (outcomesAfter before hs)[j]? = hs[j]?.map fun h => (before ++ hs.take j).contains h := by
  induction hs generalizing before j with
  | nil => simp [outcomesAfter]
  | cons g rest ih =>
    cases j with
    | zero => simp [outcomesAfter]
    | succ j => simp [outcomesAfter, ih]

/-- `findModule` in terms of `lk`. -/
theorem findModule_eq (r : Registry) (inc : Bool) (i : Stmt) :
    r.findModule inc i =
      match lk r inc (match i.argOf? "revision-date" with | some d => i.arg ++ "@" ++ d | none => i.arg) with
      | some m => some m
      | none => lk r inc i.arg := by
  cases inc <;> rfl

theorem lk_mem {r : Registry} {sub : Bool} {key : String} {m : Mod} (h : lk r sub key = some m) : m ∈ r.mods := by
  unfold lk at h
  cases hg : (r.kmOf sub).get? key with
  | none => rw [hg] at h; simp at h
  | some id =>
    rw [hg] at h
    exact List.mem_of_find?_eq_some (by simpa [Registry.byId] using h)

theorem inj_of_nodup_map {α β : Type} (f : α → β) : ∀ {l : List α}, (l.map f).Nodup →
    ∀ s ∈ l, ∀ t ∈ l, f s = f t → s = t
  | [], _, _, hs, _, _, _ => by simp at hs
  | a :: l, hnd, s, hs, t, ht, he => by
    rw [List.map_cons, List.nodup_cons] at hnd
    rcases List.mem_cons.mp hs with hs' | hs' <;> rcases List.mem_cons.mp ht with ht' | ht'
    · rw [hs', ht']
    · subst hs'; exact absurd (he ▸ List.mem_map_of_mem ht') hnd.1
    · subst ht'; exact absurd (he ▸ List.mem_map_of_mem hs') hnd.1
    · exact inj_of_nodup_map f hnd.2 s hs' t ht' he

/-! ### string order = date order for well-formed revisions -/

theorem find?_congr_mem {α : Type} {p q : α → Bool} : ∀ {l : List α}, (∀ a ∈ l, p a = q a) → l.find? p = l.find? q
  | [], _ => rfl
  | a :: l, h => by
    have ha := h a (by simp)
    have := find?_congr_mem (l := l) (fun b hb => h b (by simp [hb]))
    simp [List.find?_cons, ha, this]

theorem all_congr_mem {α : Type} {p q : α → Bool} : ∀ {l : List α}, (∀ a ∈ l, p a = q a) → l.all p = l.all q
  | [], _ => rfl
  | a :: l, h => by
    have ha := h a (by simp)
    have := all_congr_mem (l := l) (fun b hb => h b (by simp [hb]))
    simp [ha, this]

theorem toList_ne_nil_of_parse {s : String} (h : (Spec.parseDate s.toList).isSome = true) : s ≠ "" := by
  intro e; subst e; simp [Spec.parseDate] at h

theorem sLe_eq_revLe {a b : String} (ha : WellFormedRev a) (hb : WellFormedRev b) : sLe a b = revLe a b := by
  unfold revLe
  rcases ha with rfl | ha
  · simp [sLe, strLt_empty_right]
  · have hane := toList_ne_nil_of_parse ha
    have hbeq : (a == "") = false := by simpa using hane
    rw [hbeq, Bool.false_or]
    obtain ⟨x, hx⟩ := Option.isSome_iff_exists.mp ha
    rcases hb with rfl | hb
    · have : Spec.parseDate ("" : String).toList = none := by simp [Spec.parseDate]
      rw [hx, this]
      simp [sLe, (strLt_empty_left a).mpr hane]
    · obtain ⟨y, hy⟩ := Option.isSome_iff_exists.mp hb
      rw [hx, hy]
      simp only [sLe, strLt, Spec.Date.le]
      rw [Goyang.Lemmas.Date.charsLt_date hy hx]

theorem latestS_eq_latest {c : List Header} (hw : ∀ h ∈ c, WellFormedRev h.rev) : latestS c = latest c := by
  unfold latestS latest
  apply find?_congr_mem
  intro h hh
  apply all_congr_mem
  intro g hg
  exact sLe_eq_revLe (hw g hg) (hw h hh)

theorem denotesS_eq_denotes {hs : List Header} (hw : ∀ h ∈ hs, WellFormedRev h.rev) (sub : Bool) (key : String) :
    denotesS hs sub key = denotes hs sub key := by
  have : latestS ((hs.filter (·.isSub == sub)).filter (·.name = key)) =
      latest ((hs.filter (·.isSub == sub)).filter (·.name = key)) := by
    apply latestS_eq_latest
    intro h hh
    simp only [List.mem_filter] at hh
    exact hw h hh.1.1
  unfold denotesS denotes
  simp only [this]
  rfl

/-! ### arbitrary names: a name with `@` is refused by `add` itself (D61) -/

/-- The load can be accepted at all: its name has no `@`. -/
def good (s : Stmt) : Bool := !s.arg.toList.contains '@'

theorem good_eq_nameOk (s : Stmt) : good s = nameOk (hdr s) := rfl

theorem noAt_of_good {s : Stmt} (h : good s = true) : NoAt s.arg := by
  apply noAt_of_contains; simpa [good] using h

theorem good_of_noAt {s : Stmt} (h : NoAt s.arg) : good s = true := by
  unfold good; rw [contains_of_noAt h]; rfl

/-- `add_accepts_only_ok_names`: whatever `add` accepts has a name without `@`. -/
theorem add_accepts_only_ok_names {r r' : Registry} {s : Stmt} (h : r.add s = .ok r') : NoAt s.arg :=
  noAt_of_contains (Registry.add_ok h).1

def toOutcome : Option Registry.AddErr → Outcome
  | none => .ok
  | some (.duplicate _ _) => .dup
  | some (.badName _ _) => .badName

theorem isSome_eq_toOutcome (o : Option Registry.AddErr) : o.isSome = (toOutcome o != .ok) := by
  rcases o with _ | ⟨_ | _⟩ <;> rfl

theorem addChecked_error {r : Registry} {s : Stmt} {e : Registry.AddErr} (h : r.addChecked s = .error e) :
    toOutcome (some e) = .dup := by
  unfold Registry.addChecked at h
  simp only at h
  repeat' split at h
  all_goals first
    | (cases h; rfl)
    | cases h

theorem add_error_good {r : Registry} {s : Stmt} {e : Registry.AddErr} (hg : good s = true)
    (h : r.add s = .error e) : toOutcome (some e) = .dup := by
  rw [Registry.add_eq_addChecked (contains_of_noAt (noAt_of_good hg))] at h
  exact addChecked_error h

theorem add_error_bad {r : Registry} {s : Stmt} (hg : good s = false) :
    ∃ e, r.add s = .error e ∧ toOutcome (some e) = .badName := by
  have hc : s.arg.toList.contains '@' = true := by simpa [good] using hg
  unfold Registry.add
  rw [if_pos hc]
  exact ⟨_, rfl, rfl⟩

/-- The outcomes of loading `ss` — any names — into a registry that has seen the loadable loads
`L`, and the final invariant: only loadable loads count. -/
theorem loadFrom_specG : ∀ (ss : List Stmt) {r : Registry} {L : List Stmt}, Inv r L →
    (∀ t ∈ L, NoAt t.arg) →
    Inv (r.loadFrom ss).1 (L ++ ss.filter good) ∧
    (r.loadFrom ss).2.map toOutcome = outcomesAfterG (L.map hdr) (ss.map hdr)
  | [], r, L, inv, _ => by simpa [Registry.loadFrom, outcomesAfterG] using inv
  | s :: rest, r, L, inv, hL => by
    unfold Registry.loadFrom
    cases hg : good s with
    | false =>
      obtain ⟨e, he, hk⟩ := add_error_bad (r := r) hg
      obtain ⟨ih1, ih2⟩ := loadFrom_specG rest inv hL
      have hn : nameOk (hdr s) = false := by rw [← good_eq_nameOk]; exact hg
      rw [he]
      simp only [List.map_cons, outcomesAfterG, hn, Bool.false_eq_true, if_false, List.filter_cons, hg]
      exact ⟨ih1, by rw [hk, ih2]⟩
    | true =>
      have hs : NoAt s.arg := noAt_of_good hg
      have hn : nameOk (hdr s) = true := by rw [← good_eq_nameOk]; exact hg
      have hL' : ∀ t ∈ L ++ [s], NoAt t.arg := by
        intro t ht
        rcases List.mem_append.mp ht with ht | ht
        · exact hL t ht
        · simp only [List.mem_singleton] at ht; subst ht; exact hs
      have step := add_step inv hs hL
      cases hadd : r.add s with
      | ok r' =>
        rw [hadd] at step
        obtain ⟨hnew, inv'⟩ := step
        obtain ⟨ih1, ih2⟩ := loadFrom_specG rest inv' hL'
        have hc : (L.map hdr).contains (hdr s) = false := by simpa using hnew
        simp only [List.map_cons, outcomesAfterG, hn, if_true, List.filter_cons, hg, hc, Bool.false_eq_true,
          if_false, toOutcome]
        refine ⟨by simpa using ih1, ?_⟩
        rw [ih2, List.map_append]; rfl
      | error e =>
        rw [hadd] at step
        obtain ⟨hd, inv'⟩ := step
        obtain ⟨ih1, ih2⟩ := loadFrom_specG rest inv' hL'
        have hc : (L.map hdr).contains (hdr s) = true := by simpa using hd
        simp only [List.map_cons, outcomesAfterG, hn, if_true, List.filter_cons, hg, hc]
        refine ⟨by simpa using ih1, ?_⟩
        rw [add_error_good hg hadd, ih2, List.map_append]; rfl

/-- Loading any statements into a fresh registry. -/
theorem loadAll_specG (ss : List Stmt) :
    Inv (Registry.loadAll ss).1 (ss.filter good) ∧
    (Registry.loadAll ss).2.map toOutcome = outcomesG (ss.map hdr) := by
  have := loadFrom_specG ss inv_empty (by simp)
  simpa [Registry.loadAll, outcomesG] using this

theorem noAt_filter_good (ss : List Stmt) : ∀ t ∈ ss.filter good, NoAt t.arg := by
  intro t ht
  exact noAt_of_good (List.mem_filter.mp ht).2

theorem map_hdr_filter_good (ss : List Stmt) : (ss.filter good).map hdr = loadable (ss.map hdr) := by
  unfold loadable
  rw [List.filter_map]
  rfl

/-- Every registry reached from the empty one by loads holds only modules with `@`-free names. -/
theorem loadAll_names_ok (ss : List Stmt) : ∀ m ∈ (Registry.loadAll ss).1.mods, NoAt m.stmt.arg := by
  intro m hm
  exact noAt_filter_good ss _ ((loadAll_specG ss).1.src m hm)

/-! #### the rejected headers, arbitrary names -/

/-- The headers of the loads that are not accepted. -/
def rejAfterG (before : List Header) : List Header → List Header
  | [] => []
  | h :: rest =>
    if nameOk h then (if before.contains h then [h] else []) ++ rejAfterG (before ++ [h]) rest
    else h :: rejAfterG before rest

theorem rejAfterG_eq (before hs : List Header) :
    ((hs.zip ((outcomesAfterG before hs).map (· != .ok))).filter (·.2)).map (·.1) = rejAfterG before hs := by
  induction hs generalizing before with
  | nil => rfl
  | cons h rest ih =>
    unfold outcomesAfterG rejAfterG
    cases hn : nameOk h with
    | false => simp [ih]
    | true =>
      by_cases hb : h ∈ before <;> simp [hb, ih]

theorem count_rejAfterG (h : Header) (before hs : List Header) :
    (rejAfterG before hs).count h =
      if nameOk h then (if h ∈ before then hs.count h else hs.count h - 1) else hs.count h := by
  induction hs generalizing before with
  | nil => simp [rejAfterG]
  | cons g rest ih =>
    unfold rejAfterG
    cases hg : nameOk g with
    | false =>
      simp only [Bool.false_eq_true, if_false, List.count_cons, ih]
      by_cases hgh : g = h
      · subst hgh; simp [hg]
      · have : (g == h) = false := by simpa using hgh
        simp [this]
    | true =>
      simp only [if_true, List.count_append, ih, List.mem_append, List.mem_singleton, List.count_cons]
      by_cases hgh : g = h
      · subst hgh
        by_cases hgb : g ∈ before
        · simp [hg, hgb] <;> omega
        · simp [hg, hgb]
      · have hne : ¬ h = g := fun e => hgh e.symm
        have hbeq : (g == h) = false := by simpa using hgh
        by_cases hgb : g ∈ before
        · simp [hgb, hne, hbeq, hgh]
        · simp [hgb, hne, hbeq]

theorem rejAfterG_perm {hs hs' : List Header} (hp : hs.Perm hs') : (rejAfterG [] hs).Perm (rejAfterG [] hs') := by
  rw [List.perm_iff_count]
  intro h
  rw [count_rejAfterG, count_rejAfterG, hp.count_eq]

/-- The outcome of load `j`, arbitrary names. -/
theorem outcomesAfterG_getElem? (before hs : List Header) (j : Nat) :
    (outcomesAfterG before hs)[j]? = hs[j]?.map fun h =>
      if nameOk h then (if (before ++ loadable (hs.take j)).contains h then .dup else .ok) else .badName := by
  induction hs generalizing before j with
  | nil => simp [outcomesAfterG]
  | cons g rest ih =>
    cases j with
    | zero =>
      unfold outcomesAfterG
      cases hg : nameOk g <;> simp [loadable, hg]
    | succ j =>
      unfold outcomesAfterG
      cases hg : nameOk g with
      | false => simp [ih, loadable, hg]
      | true => simp [ih, loadable, hg]

/-! ### texts with several top-level statements (`Modules.Parse` is atomic) -/

theorem addText_nil (r : Registry) : r.addText [] = .ok r := rfl

theorem addText_cons (r : Registry) (s : Stmt) (rest : List Stmt) :
    r.addText (s :: rest) = match r.add s with | .ok r' => r'.addText rest | .error e => .error e := by
  unfold Registry.addText
  rw [List.foldlM_cons]
  cases r.add s <;> rfl

/-- One statement per text is the statement-wise load. -/
theorem loadTextsFrom_singletons : ∀ (ss : List Stmt) (r : Registry),
    r.loadTextsFrom (ss.map fun s => [s]) = r.loadFrom ss
  | [], _ => rfl
  | s :: rest, r => by
    simp only [List.map_cons, Registry.loadTextsFrom, Registry.loadFrom, addText_cons, addText_nil]
    cases r.add s with
    | ok r' => simp only [loadTextsFrom_singletons rest r']
    | error e => simp only [loadTextsFrom_singletons rest r]

/-- A text is accepted exactly when none of its statements would be refused when added one after
the other; the registry is then the one those adds produce. -/
theorem addText_ok_iff : ∀ (ss : List Stmt) (r r' : Registry),
    r.addText ss = .ok r' ↔ ((r.loadFrom ss).2.all Option.isNone = true ∧ r' = (r.loadFrom ss).1)
  | [], r, r' => by simp [addText_nil, Registry.loadFrom, eq_comm]
  | s :: rest, r, r' => by
    rw [addText_cons]
    unfold Registry.loadFrom
    cases r.add s with
    | ok r1 => simpa using addText_ok_iff rest r1 r'
    | error e => simp

theorem outcomesAfterG_all_ok (before hs : List Header) :
    (outcomesAfterG before hs).all (· == .ok) = true ↔
      (∀ h ∈ hs, nameOk h = true) ∧ hs.Nodup ∧ ∀ h ∈ hs, h ∉ before := by
  induction hs generalizing before with
  | nil => simp [outcomesAfterG]
  | cons g rest ih =>
    unfold outcomesAfterG
    cases hg : nameOk g with
    | false => simp [hg]
    | true =>
      simp only [if_true, List.all_cons, Bool.and_eq_true, ih, List.mem_cons, forall_eq_or_imp, hg, true_and,
        List.nodup_cons, List.mem_append, List.mem_singleton, not_or]
      by_cases hb : g ∈ before
      · simp [hb]
      · have hc : before.contains g = false := by simpa using hb
        simp only [hc, Bool.false_eq_true, if_false]
        constructor
        · rintro ⟨_, h1, h2, h3⟩
          exact ⟨h1, ⟨fun hm => (h3 g hm).2.1 rfl, h2⟩, hb, fun h hh => (h3 h hh).1⟩
        · rintro ⟨h1, ⟨h2, h3⟩, _, h4⟩
          exact ⟨rfl, h1, h3, fun h hh => ⟨h4 h hh, fun e => h2 (e ▸ hh), by simp⟩⟩

/-- **One text.**  Into a registry that holds the loads `L`, a text is accepted exactly when every
name in it is free of `@`, no two of its statements have the same header, and none has the header
of a load already there; the invariant then goes on with the text's statements appended. -/
theorem addText_spec {r : Registry} {L : List Stmt} (inv : Inv r L) (hL : ∀ t ∈ L, NoAt t.arg) (ss : List Stmt) :
    match r.addText ss with
    | .ok r' => ((∀ s ∈ ss, NoAt s.arg) ∧ (ss.map hdr).Nodup ∧ ∀ s ∈ ss, hdr s ∉ L.map hdr) ∧ Inv r' (L ++ ss)
    | .error _ => ¬ ((∀ s ∈ ss, NoAt s.arg) ∧ (ss.map hdr).Nodup ∧ ∀ s ∈ ss, hdr s ∉ L.map hdr) := by
  obtain ⟨inv', hout⟩ := loadFrom_specG ss inv hL
  have hall : (r.loadFrom ss).2.all Option.isNone = true ↔
      ((∀ s ∈ ss, NoAt s.arg) ∧ (ss.map hdr).Nodup ∧ ∀ s ∈ ss, hdr s ∉ L.map hdr) := by
    have h1 : (r.loadFrom ss).2.all Option.isNone = ((r.loadFrom ss).2.map toOutcome).all (· == .ok) := by
      rw [List.all_map]
      apply all_congr_mem
      intro o _
      rcases o with _ | ⟨_ | _⟩ <;> rfl
    rw [h1, hout, outcomesAfterG_all_ok]
    simp only [List.mem_map, forall_exists_index, and_imp, forall_apply_eq_imp_iff₂]
    constructor
    · rintro ⟨h1, h2, h3⟩
      exact ⟨fun s hs => noAt_of_good (h1 s hs), h2, h3⟩
    · rintro ⟨h1, h2, h3⟩
      exact ⟨fun s hs => good_of_noAt (h1 s hs), h2, h3⟩
  cases hadd : r.addText ss with
  | ok r' =>
    obtain ⟨ha, rfl⟩ := (addText_ok_iff ss r r').mp hadd
    have hc := hall.mp ha
    refine ⟨hc, ?_⟩
    have : ss.filter good = ss := List.filter_eq_self.mpr fun s hs => good_of_noAt (hc.1 s hs)
    rw [this] at inv'
    exact inv'
  | error e =>
    intro hc
    have := (addText_ok_iff ss r (r.loadFrom ss).1).mpr ⟨hall.mpr hc, rfl⟩
    rw [hadd] at this; cases this

/-- The texts that were accepted, in order. -/
def acceptedTexts (r : Registry) : List (List Stmt) → List (List Stmt)
  | [] => []
  | t :: rest =>
    match r.addText t with
    | .ok r' => t :: acceptedTexts r' rest
    | .error _ => acceptedTexts r rest

/-- **All texts.**  The invariant after loading texts: the registry has seen exactly the statements
of the accepted texts, all with `@`-free names and pairwise different headers. -/
theorem loadTextsFrom_spec : ∀ (ts : List (List Stmt)) {r : Registry} {L : List Stmt}, Inv r L →
    (∀ t ∈ L, NoAt t.arg) → (L.map hdr).Nodup →
    Inv (r.loadTextsFrom ts).1 (L ++ (acceptedTexts r ts).flatten) ∧
    (∀ t ∈ L ++ (acceptedTexts r ts).flatten, NoAt t.arg) ∧
    ((L ++ (acceptedTexts r ts).flatten).map hdr).Nodup
  | [], r, L, inv, hL, hnd => by simpa [Registry.loadTextsFrom, acceptedTexts] using ⟨inv, hL, hnd⟩
  | t :: rest, r, L, inv, hL, hnd => by
    have step := addText_spec inv hL t
    unfold Registry.loadTextsFrom acceptedTexts
    cases hadd : r.addText t with
    | ok r' =>
      rw [hadd] at step
      obtain ⟨⟨h1, h2, h3⟩, inv'⟩ := step
      have hL' : ∀ x ∈ L ++ t, NoAt x.arg := by
        intro x hx
        rcases List.mem_append.mp hx with hx | hx
        · exact hL x hx
        · exact h1 x hx
      have hnd' : ((L ++ t).map hdr).Nodup := by
        rw [List.map_append, List.nodup_append]
        refine ⟨hnd, h2, ?_⟩
        intro a ha b hb hab
        obtain ⟨s, hs, rfl⟩ := List.mem_map.mp hb
        exact h3 s hs (hab ▸ ha)
      have ih := loadTextsFrom_spec rest inv' hL' hnd'
      simpa [List.append_assoc] using ih
    | error e =>
      simpa using loadTextsFrom_spec rest inv hL hnd

/-- After the accepted texts, the registry is the one that loading their statements one by one
produces — and none of those loads is refused — so everything proved about `loadAll` applies. -/
theorem loadTextsFrom_eq_loadFrom : ∀ (ts : List (List Stmt)) (r : Registry),
    (r.loadTextsFrom ts).1 = (r.loadFrom (acceptedTexts r ts).flatten).1 ∧
    (r.loadFrom (acceptedTexts r ts).flatten).2.all Option.isNone = true
  | [], r => by simp [Registry.loadTextsFrom, acceptedTexts, Registry.loadFrom]
  | t :: rest, r => by
    unfold Registry.loadTextsFrom acceptedTexts
    cases hadd : r.addText t with
    | ok r' =>
      obtain ⟨ha, rfl⟩ := (addText_ok_iff t r r').mp hadd
      obtain ⟨ih1, ih2⟩ := loadTextsFrom_eq_loadFrom rest (r.loadFrom t).1
      simp only [List.flatten_cons]
      refine ⟨?_, ?_⟩
      · rw [ih1]
        exact (loadFrom_append_fst r t _).symm
      · rw [loadFrom_append_snd, List.all_append, ha, ih2]; rfl
    | error e => exact loadTextsFrom_eq_loadFrom rest r
where
  loadFrom_append_fst (r : Registry) : ∀ (a b : List Stmt),
      (r.loadFrom (a ++ b)).1 = ((r.loadFrom a).1.loadFrom b).1
    | [], _ => rfl
    | s :: rest, b => by
      simp only [List.cons_append, Registry.loadFrom]
      cases r.add s with
      | ok r' => exact loadFrom_append_fst r' rest b
      | error e => exact loadFrom_append_fst r rest b
  loadFrom_append_snd (r : Registry) : ∀ (a b : List Stmt),
      (r.loadFrom (a ++ b)).2 = (r.loadFrom a).2 ++ ((r.loadFrom a).1.loadFrom b).2
    | [], _ => rfl
    | s :: rest, b => by
      simp only [List.cons_append, Registry.loadFrom]
      cases r.add s with
      | ok r' => simp [loadFrom_append_snd r' rest b]
      | error e => simp [loadFrom_append_snd r rest b]

end Goyang.Lemmas.Registry
