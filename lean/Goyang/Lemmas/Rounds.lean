import Goyang.Model.Process
/-
The retry rounds of `Modules.Process` after the first `FixChoice` (`Model.leftoverRounds`; Go:
`for augmentLoop() > 0 { fixChoice() }`, the repair of D67): the counting loop `augmentLoopN` is
`augmentLoop` plus a count, and the rounds are an iteration of `augmentLoop` and `FixChoice`
everywhere — so everything the two preserve is preserved by the rounds (`rounds_ind`), and two runs
that go through the loop in lockstep go through the rounds in lockstep (`rounds_rel`).
-/
set_option linter.unusedVariables false
namespace Goyang.Lemmas.Rounds
open Goyang.Model

/-- Go: `FixChoice` on every module and submodule (the state part). -/
def fixS (s : PState) : PState :=
  { s with forest := { trees := s.forest.trees.map fun (i, e) => (i, fixChoice e) } }

/-- The counting loop is the loop (module list). -/
theorem augmentLoopN_mods (reg : Registry) : ∀ (fuel : Nat) (mods : Array Nat) (s : PState),
    (augmentLoopN reg fuel mods s).1 = (augmentLoop reg fuel mods s).1 ∧
    (augmentLoopN reg fuel mods s).2.1 = (augmentLoop reg fuel mods s).2
  | 0, mods, s => ⟨rfl, rfl⟩
  | fuel + 1, mods, s => by
    unfold augmentLoopN augmentLoop
    split
    · exact ⟨rfl, rfl⟩
    · simp only
      split
      · exact ⟨rfl, rfl⟩
      · exact augmentLoopN_mods reg fuel _ _

theorem augmentLoopN_fst (reg : Registry) (fuel : Nat) (mods : Array Nat) (s : PState) :
    (augmentLoopN reg fuel mods s).1 = (augmentLoop reg fuel mods s).1 := (augmentLoopN_mods reg fuel mods s).1

theorem augmentLoopN_snd (reg : Registry) (fuel : Nat) (mods : Array Nat) (s : PState) :
    (augmentLoopN reg fuel mods s).2.1 = (augmentLoop reg fuel mods s).2 := (augmentLoopN_mods reg fuel mods s).2

/-- The number the loop returns. -/
def loopCount (reg : Registry) (fuel : Nat) (mods : Array Nat) (s : PState) : Nat :=
  (augmentLoopN reg fuel mods s).2.2

theorem augmentLoopN_eq (reg : Registry) (fuel : Nat) (mods : Array Nat) (s : PState) :
    augmentLoopN reg fuel mods s =
      ((augmentLoop reg fuel mods s).1, (augmentLoop reg fuel mods s).2, loopCount reg fuel mods s) := by
  rw [← augmentLoopN_fst, ← augmentLoopN_snd]; rfl

/-- The loop applied nothing exactly when it did not run (no fuel, no modules) or its first pass
applied nothing. -/
theorem loopCount_eq_zero (reg : Registry) (fuel : Nat) (mods : Array Nat) (s : PState) :
    loopCount reg fuel mods s = 0 ↔
      fuel = 0 ∨ mods.isEmpty = true ∨ (augmentPass reg (mods.size + 1) mods 0 0 s).2.1 = 0 := by
  unfold loopCount
  cases fuel with
  | zero => simp [augmentLoopN]
  | succ fuel =>
    unfold augmentLoopN
    by_cases he : mods.isEmpty = true
    · simp [he]
    · simp only [he, Bool.false_eq_true, if_false, false_or, Nat.add_one_ne_zero]
      by_cases hp : (augmentPass reg (mods.size + 1) mods 0 0 s).2.1 = 0
      · simp [hp]
      · have hp' : ((augmentPass reg (mods.size + 1) mods 0 0 s).2.1 == 0) = false := by simpa using hp
        simp only [hp', Bool.false_eq_true, if_false, hp, iff_false]
        intro h
        exact hp (Nat.add_eq_zero_iff.mp h).1

/-- With no module left the loop does nothing. -/
theorem augmentLoop_empty (reg : Registry) (fuel : Nat) (mods : Array Nat) (s : PState) (h : mods.isEmpty = true) :
    augmentLoop reg fuel mods s = (mods, s) := by
  cases fuel with
  | zero => rfl
  | succ fuel => unfold augmentLoop; simp [h]

theorem loopCount_empty (reg : Registry) (fuel : Nat) (mods : Array Nat) (s : PState) (h : mods.isEmpty = true) :
    loopCount reg fuel mods s = 0 := (loopCount_eq_zero reg fuel mods s).mpr (Or.inr (Or.inl h))

/-- One round, in terms of `augmentLoop`. -/
theorem leftoverRounds_succ (reg : Registry) (fuel n : Nat) (mods : Array Nat) (s : PState) :
    leftoverRounds reg fuel (n + 1) mods s =
      if loopCount reg fuel mods s = 0 then augmentLoop reg fuel mods s
      else leftoverRounds reg fuel n (augmentLoop reg fuel mods s).1 (fixS (augmentLoop reg fuel mods s).2) := by
  conv => lhs; unfold leftoverRounds
  rw [augmentLoopN_eq]
  simp only [beq_iff_eq]
  split <;> rfl

theorem leftoverRounds_zero (reg : Registry) (fuel : Nat) (mods : Array Nat) (s : PState) :
    leftoverRounds reg fuel 0 mods s = (mods, s) := rfl

/-- With no module left the rounds do nothing. -/
theorem leftoverRounds_empty (reg : Registry) (fuel n : Nat) (mods : Array Nat) (s : PState) (h : mods.isEmpty = true) :
    leftoverRounds reg fuel n mods s = (mods, s) := by
  cases n with
  | zero => rfl
  | succ n => rw [leftoverRounds_succ, if_pos (loopCount_empty reg fuel mods s h), augmentLoop_empty reg fuel mods s h]

/-- **Induction over the rounds**: what `augmentLoop` and `FixChoice` everywhere preserve, the
rounds preserve. -/
theorem rounds_ind (reg : Registry) (P : Array Nat → PState → Prop)
    (hloop : ∀ fuel mods s, P mods s → P (augmentLoop reg fuel mods s).1 (augmentLoop reg fuel mods s).2)
    (hfix : ∀ mods s, P mods s → P mods (fixS s)) (fuel : Nat) :
    ∀ (n : Nat) (mods : Array Nat) (s : PState), P mods s →
      P (leftoverRounds reg fuel n mods s).1 (leftoverRounds reg fuel n mods s).2
  | 0, mods, s, h => h
  | n + 1, mods, s, h => by
    rw [leftoverRounds_succ]
    split
    · exact hloop fuel mods s h
    · exact rounds_ind reg P hloop hfix fuel n _ _ (hfix _ _ (hloop fuel mods s h))

/-- The same for a property of the state alone. -/
theorem rounds_ind_state (reg : Registry) (P : PState → Prop)
    (hloop : ∀ fuel mods s, P s → P (augmentLoop reg fuel mods s).2)
    (hfix : ∀ s, P s → P (fixS s)) (fuel n : Nat) (mods : Array Nat) (s : PState) (h : P s) :
    P (leftoverRounds reg fuel n mods s).2 :=
  rounds_ind reg (fun _ s => P s) hloop (fun _ => hfix) fuel n mods s h

/-- **Two runs in lockstep**: if the loops of two runs keep a relation between (modules, state)
pairs and their first passes agree on whether anything was applied, the rounds keep the relation. -/
theorem rounds_rel (r₁ r₂ : Registry) (R : Array Nat → PState → Array Nat → PState → Prop)
    (hloop : ∀ fuel m₁ s₁ m₂ s₂, R m₁ s₁ m₂ s₂ →
      R (augmentLoop r₁ fuel m₁ s₁).1 (augmentLoop r₁ fuel m₁ s₁).2 (augmentLoop r₂ fuel m₂ s₂).1 (augmentLoop r₂ fuel m₂ s₂).2)
    (hcount : ∀ fuel m₁ s₁ m₂ s₂, R m₁ s₁ m₂ s₂ → (loopCount r₁ fuel m₁ s₁ = 0 ↔ loopCount r₂ fuel m₂ s₂ = 0))
    (hfix : ∀ m₁ s₁ m₂ s₂, R m₁ s₁ m₂ s₂ → R m₁ (fixS s₁) m₂ (fixS s₂)) (fuel : Nat) :
    ∀ (n : Nat) (m₁ : Array Nat) (s₁ : PState) (m₂ : Array Nat) (s₂ : PState), R m₁ s₁ m₂ s₂ →
      R (leftoverRounds r₁ fuel n m₁ s₁).1 (leftoverRounds r₁ fuel n m₁ s₁).2
        (leftoverRounds r₂ fuel n m₂ s₂).1 (leftoverRounds r₂ fuel n m₂ s₂).2
  | 0, m₁, s₁, m₂, s₂, h => h
  | n + 1, m₁, s₁, m₂, s₂, h => by
    rw [leftoverRounds_succ, leftoverRounds_succ]
    by_cases hc : loopCount r₁ fuel m₁ s₁ = 0
    · rw [if_pos hc, if_pos ((hcount fuel m₁ s₁ m₂ s₂ h).mp hc)]
      exact hloop fuel m₁ s₁ m₂ s₂ h
    · rw [if_neg hc, if_neg (fun h2 => hc ((hcount fuel m₁ s₁ m₂ s₂ h).mpr h2))]
      exact rounds_rel r₁ r₂ R hloop hcount hfix fuel n _ _ _ _ (hfix _ _ _ _ (hloop fuel m₁ s₁ m₂ s₂ h))

end Goyang.Lemmas.Rounds
