/-
The tokeniser of the reference reader, one token at a time (`specNext`), and the tokens found
before a lexical failure (`scanAll`): what the simulation of the lexer model runs against.
-/
import Goyang.Spec.Parse

namespace Goyang.Lemmas.Scan
open Goyang.Spec.Parse

/-- the next token after skipping (`g` = `skipGround cs`, `cs` the tail of a text of `n` characters) and what follows it;
`none`: an unterminated quote or comment; `some none`: nothing but white space and comments -/
def specNextG (n : Nat) (g : Option (List Char)) : Option (Option (PTok × List Char)) :=
  match g with
  | none => none
  | some [] => some none
  | some (c :: r) =>
    let off := n - (r.length + 1)
    if c = ';' then some (some (⟨.semi, off⟩, r))
    else if c = '{' then some (some (⟨.lbrace, off⟩, r))
    else if c = '}' then some (some (⟨.rbrace, off⟩, r))
    else if c = '\'' then
      match scanSq r with
      | none => none
      | some (s, r') => some (some (⟨.sq s, off⟩, r'))
    else if c = '"' then
      match scanDq r with
      | none => none
      | some (s, r') => some (some (⟨.dq s, off⟩, r'))
    else
      some (some (⟨.unq ((c :: r).takeWhile (fun x => !isDelim x)), off⟩, (c :: r).dropWhile (fun x => !isDelim x)))

/-- the next token of `cs` -/
def specNext (n : Nat) (cs : List Char) : Option (Option (PTok × List Char)) := specNextG n (skipGround cs)

theorem tokensAux_succ (n f : Nat) (cs : List Char) :
    tokensAux n (f + 1) cs =
      match specNext n cs with
      | none => none
      | some none => some []
      | some (some (t, r)) => (tokensAux n f r).map (t :: ·) := by
  conv => lhs; rw [tokensAux]
  unfold specNext specNextG
  cases skipGround cs with
  | none => rfl
  | some l =>
    cases l with
    | nil => rfl
    | cons c r =>
      simp only
      split
      · rfl
      · split
        · rfl
        · split
          · rfl
          · split
            · cases scanSq r with
              | none => rfl
              | some p => rfl
            · split
              · cases scanDq r with
                | none => rfl
                | some p => rfl
              · rfl

/-- the tokens up to the end or up to the first lexical failure, and whether the end was reached -/
def scanAll (n : Nat) : Nat → List Char → List PTok × Bool
  | 0, _ => ([], false)
  | f + 1, cs =>
    match specNext n cs with
    | none => ([], false)
    | some none => ([], true)
    | some (some (t, r)) => (t :: (scanAll n f r).1, (scanAll n f r).2)

theorem tokensAux_scanAll (n : Nat) : ∀ (f : Nat) (cs : List Char),
    tokensAux n f cs = if (scanAll n f cs).2 then some (scanAll n f cs).1 else none := by
  intro f
  induction f with
  | zero => intro cs; simp [tokensAux, scanAll]
  | succ f ih =>
    intro cs
    rw [tokensAux_succ]
    unfold scanAll
    cases specNext n cs with
    | none => rfl
    | some o =>
      cases o with
      | none => rfl
      | some p =>
        obtain ⟨t, r⟩ := p
        simp only
        rw [ih r]
        split <;> simp

/-! ## the skipping functions, by shape of the text -/

theorem skipGround_blanks (bl r : List Char) (h : ∀ x ∈ bl, isSpace x = true) :
    skipGround (bl ++ r) = skipGround r := by
  induction bl with
  | nil => rfl
  | cons b bl ih =>
    simp only [List.cons_append]
    rw [skipGround, if_pos (h b (by simp))]
    exact ih (fun x hx => h x (by simp [hx]))

theorem skipGround_token (c : Char) (r : List Char) (hs : isSpace c = false) (hc : c ≠ '/') :
    skipGround (c :: r) = some (c :: r) := by
  rw [skipGround]; simp [hs, hc]

theorem skipGround_slash (r : List Char) : skipGround ('/' :: r) = afterSlash r := by
  rw [skipGround]; simp [isSpace]

theorem afterSlash_line (r : List Char) : afterSlash ('/' :: r) = skipLine r := by
  rw [afterSlash]; simp

theorem afterSlash_block (r : List Char) : afterSlash ('*' :: r) = skipBlock false r := by
  rw [afterSlash]; simp

theorem afterSlash_token (r : List Char) (h : ∀ c r', r = c :: r' → c ≠ '/' ∧ c ≠ '*') :
    afterSlash r = some ('/' :: r) := by
  cases r with
  | nil => rw [afterSlash]
  | cons c r' =>
    obtain ⟨h1, h2⟩ := h c r' rfl
    rw [afterSlash]; simp [h1, h2]

theorem skipLine_found (s r : List Char) (hs : '\n' ∉ s) : skipLine (s ++ '\n' :: r) = skipGround r := by
  induction s with
  | nil => rw [List.nil_append, skipLine]; simp
  | cons d s ih =>
    have hd : d ≠ '\n' := fun h => hs (by rw [h]; simp)
    simp only [List.cons_append]
    rw [skipLine, if_neg hd]
    exact ih (fun h => hs (by simp [h]))

/-- the text before the nearest `*/` and the text after it -/
def findSS : List Char → Option (List Char × List Char)
  | [] => none
  | [_] => none
  | c :: d :: r =>
    if c = '*' ∧ d = '/' then some ([], r)
    else (findSS (d :: r)).map fun p => (c :: p.1, p.2)

theorem findSS_split : ∀ (n : Nat) (cs : List Char), cs.length ≤ n → ∀ (s r : List Char),
    findSS cs = some (s, r) → cs = s ++ '*' :: '/' :: r := by
  intro n
  induction n with
  | zero =>
    intro cs hn s r h
    have : cs = [] := List.eq_nil_of_length_eq_zero (by omega)
    subst this; simp [findSS] at h
  | succ n ih =>
    intro cs hn s r h
    cases cs with
    | nil => simp [findSS] at h
    | cons c cs =>
      cases cs with
      | nil => simp [findSS] at h
      | cons d r0 =>
        rw [findSS] at h
        split at h
        · rename_i hc
          simp only [Option.some.injEq, Prod.mk.injEq] at h
          rw [← h.1, ← h.2, hc.1, hc.2]; rfl
        · cases hf : findSS (d :: r0) with
          | none => simp [hf] at h
          | some p =>
            simp only [hf, Option.map_some, Option.some.injEq, Prod.mk.injEq] at h
            have := ih (d :: r0) (by simp only [List.length_cons] at hn ⊢; omega) p.1 p.2 hf
            rw [← h.1, ← h.2, this]; rfl

/-- where a block comment ends -/
def blockEnd (cs : List Char) : Option (List Char) :=
  match findSS cs with
  | none => none
  | some p => skipGround p.2

theorem blockEnd_cons (c : Char) (cs : List Char) (hc : c ≠ '*') : blockEnd (c :: cs) = blockEnd cs := by
  unfold blockEnd
  cases cs with
  | nil => simp [findSS]
  | cons d r =>
    rw [findSS, if_neg (fun h => hc h.1)]
    cases findSS (d :: r) with
    | none => rfl
    | some p => rfl

theorem blockEnd_star (c : Char) (cs : List Char) :
    blockEnd ('*' :: c :: cs) = if c = '/' then skipGround cs else blockEnd (c :: cs) := by
  unfold blockEnd
  rw [findSS]
  by_cases hc : c = '/'
  · simp [hc]
  · rw [if_neg (fun h => hc h.2), if_neg hc]
    cases findSS (c :: cs) with
    | none => rfl
    | some p => rfl

theorem skipBlock_blockEnd : ∀ (cs : List Char),
    skipBlock false cs = blockEnd cs ∧ skipBlock true cs = blockEnd ('*' :: cs) := by
  intro cs
  induction cs with
  | nil => constructor <;> simp [skipBlock, blockEnd, findSS]
  | cons c cs ih =>
    obtain ⟨ih1, ih2⟩ := ih
    have hfalse : skipBlock false (c :: cs) = blockEnd (c :: cs) := by
      rw [skipBlock]
      simp only [Bool.false_and, Bool.false_eq_true, if_false]
      by_cases hc : c = '*'
      · subst hc; simp only [decide_true]; exact ih2
      · simp only [hc, decide_false]; rw [ih1, blockEnd_cons c cs hc]
    refine ⟨hfalse, ?_⟩
    rw [blockEnd_star, skipBlock]
    by_cases hc : c = '/'
    · simp [hc]
    · simp only [Bool.true_and, decide_eq_true_eq, hc, if_false]
      rw [← hfalse, skipBlock]
      simp

theorem skipBlock_found (cs s r : List Char) (h : findSS cs = some (s, r)) : skipBlock false cs = skipGround r := by
  rw [(skipBlock_blockEnd cs).1]; unfold blockEnd; rw [h]

theorem skipBlock_none (cs : List Char) (h : findSS cs = none) : skipBlock false cs = none := by
  rw [(skipBlock_blockEnd cs).1]; unfold blockEnd; rw [h]

/-! ## single quotes -/

theorem scanSq_found : ∀ (s r : List Char), '\'' ∉ s → scanSq (s ++ '\'' :: r) = some (s, r) := by
  intro s
  induction s with
  | nil => intro r _; rw [List.nil_append, scanSq]; simp
  | cons d s ih =>
    intro r hs
    have hd : d ≠ '\'' := fun h => hs (by rw [h]; simp)
    simp only [List.cons_append]
    rw [scanSq, if_neg hd, ih r (fun h => hs (by simp [h]))]
    rfl

theorem scanSq_none : ∀ (s : List Char), '\'' ∉ s → scanSq s = none := by
  intro s
  induction s with
  | nil => intro _; rfl
  | cons d s ih =>
    intro hs
    have hd : d ≠ '\'' := fun h => hs (by rw [h]; simp)
    rw [scanSq, if_neg hd, ih (fun h => hs (by simp [h]))]
    rfl

theorem scanSq_split : ∀ (cs s r : List Char), scanSq cs = some (s, r) → cs = s ++ '\'' :: r ∧ '\'' ∉ s := by
  intro cs
  induction cs with
  | nil => intro s r h; simp [scanSq] at h
  | cons c cs ih =>
    intro s r h
    rw [scanSq] at h
    split at h
    · rename_i hc
      simp only [Option.some.injEq, Prod.mk.injEq] at h
      rw [← h.1, ← h.2, hc]; simp
    · rename_i hc
      cases hf : scanSq cs with
      | none => simp [hf] at h
      | some p =>
        obtain ⟨s', r'⟩ := p
        simp only [hf, Option.map_some, Option.some.injEq, Prod.mk.injEq] at h
        obtain ⟨h1, h2⟩ := ih s' r' hf
        rw [← h.1, ← h.2, h1]
        refine ⟨rfl, ?_⟩
        simp only [List.mem_cons, not_or]
        exact ⟨fun he => hc he.symm, h2⟩

theorem scanSq_none_iff (cs : List Char) (h : scanSq cs = none) : '\'' ∉ cs := by
  induction cs with
  | nil => simp
  | cons c cs ih =>
    rw [scanSq] at h
    split at h
    · cases h
    · rename_i hc
      cases hf : scanSq cs with
      | none =>
        simp only [List.mem_cons, not_or]
        exact ⟨fun he => hc he.symm, ih hf⟩
      | some p => simp [hf] at h

end Goyang.Lemmas.Scan
