/-
The tokeniser of the reference reader, one token at a time (`specNext`), and the tokens found
before a lexical failure (`scanAll`): what the simulation of the lexer model runs against.
-/
import Goyang.Spec.Parse

namespace Goyang.Lemmas.Scan
open Goyang.Spec.Parse

/-- the next token after skipping (`g` = `skipGround cs`, `cs` the tail of a text of `n` characters) and what follows it;
`none`: an unterminated quote or comment; `some none`: nothing but white space and comments -/
def specNextG (n : Nat) (g : Option (List Char)) : Option (Option (PTok × List Char)) :=
  match g with
  | none => none
  | some [] => some none
  | some (c :: r) =>
    let off := n - (r.length + 1)
    if c = ';' then some (some (⟨.semi, off⟩, r))
    else if c = '{' then some (some (⟨.lbrace, off⟩, r))
    else if c = '}' then some (some (⟨.rbrace, off⟩, r))
    else if c = '\'' then
      match scanSq r with
      | none => none
      | some (s, r') => some (some (⟨.sq s, off⟩, r'))
    else if c = '"' then
      match scanDq r with
      | none => none
      | some (s, r') => some (some (⟨.dq s, off⟩, r'))
    else
      some (some (⟨.unq ((c :: r).takeWhile (fun x => !isDelim x)), off⟩, (c :: r).dropWhile (fun x => !isDelim x)))

/-- the next token of `cs` -/
def specNext (n : Nat) (cs : List Char) : Option (Option (PTok × List Char)) := specNextG n (skipGround cs)

theorem tokensAux_succ (n f : Nat) (cs : List Char) :
    tokensAux n (f + 1) cs =
      match specNext n cs with
      | none => none
      | some none => some []
      | some (some (t, r)) => (tokensAux n f r).map (t :: ·) := by
  conv => lhs; rw [tokensAux]
  unfold specNext specNextG
  cases skipGround cs with
  | none => rfl
  | some l =>
    cases l with
    | nil => rfl
    | cons c r =>
      simp only
      split
      · rfl
      · split
        · rfl
        · split
          · rfl
          · split
            · cases scanSq r with
              | none => rfl
              | some p => rfl
            · split
              · cases scanDq r with
                | none => rfl
                | some p => rfl
              · rfl

/-- the tokens up to the end or up to the first lexical failure, and whether the end was reached -/
def scanAll (n : Nat) : Nat → List Char → List PTok × Bool
  | 0, _ => ([], false)
  | f + 1, cs =>
    match specNext n cs with
    | none => ([], false)
    | some none => ([], true)
    | some (some (t, r)) => (t :: (scanAll n f r).1, (scanAll n f r).2)

theorem tokensAux_scanAll (n : Nat) : ∀ (f : Nat) (cs : List Char),
    tokensAux n f cs = if (scanAll n f cs).2 then some (scanAll n f cs).1 else none := by
  intro f
  induction f with
  | zero => intro cs; simp [tokensAux, scanAll]
  | succ f ih =>
    intro cs
    rw [tokensAux_succ]
    unfold scanAll
    cases specNext n cs with
    | none => rfl
    | some o =>
      cases o with
      | none => rfl
      | some p =>
        obtain ⟨t, r⟩ := p
        simp only
        rw [ih r]
        split <;> simp

/-! ## the skipping functions, by shape of the text -/

theorem skipGround_blanks (bl r : List Char) (h : ∀ x ∈ bl, isSpace x = true) :
    skipGround (bl ++ r) = skipGround r := by
  induction bl with
  | nil => rfl
  | cons b bl ih =>
    simp only [List.cons_append]
    rw [skipGround, if_pos (h b (by simp))]
    exact ih (fun x hx => h x (by simp [hx]))

theorem skipGround_token (c : Char) (r : List Char) (hs : isSpace c = false) (hc : c ≠ '/') :
    skipGround (c :: r) = some (c :: r) := by
  rw [skipGround]; simp [hs, hc]

theorem skipGround_slash (r : List Char) : skipGround ('/' :: r) = afterSlash r := by
  rw [skipGround]; simp [isSpace]

theorem afterSlash_line (r : List Char) : afterSlash ('/' :: r) = skipLine r := by
  rw [afterSlash]; simp

theorem afterSlash_block (r : List Char) : afterSlash ('*' :: r) = skipBlock false r := by
  rw [afterSlash]; simp

theorem afterSlash_token (r : List Char) (h : ∀ c r', r = c :: r' → c ≠ '/' ∧ c ≠ '*') :
    afterSlash r = some ('/' :: r) := by
  cases r with
  | nil => rw [afterSlash]
  | cons c r' =>
    obtain ⟨h1, h2⟩ := h c r' rfl
    rw [afterSlash]; simp [h1, h2]

theorem skipLine_found (s r : List Char) (hs : '\n' ∉ s) : skipLine (s ++ '\n' :: r) = skipGround r := by
  induction s with
  | nil => rw [List.nil_append, skipLine]; simp
  | cons d s ih =>
    have hd : d ≠ '\n' := fun h => hs (by rw [h]; simp)
    simp only [List.cons_append]
    rw [skipLine, if_neg hd]
    exact ih (fun h => hs (by simp [h]))

/-- the text before the nearest `*/` and the text after it -/
def findSS : List Char → Option (List Char × List Char)
  | [] => none
  | [_] => none
  | c :: d :: r =>
    if c = '*' ∧ d = '/' then some ([], r)
    else (findSS (d :: r)).map fun p => (c :: p.1, p.2)

theorem findSS_split : ∀ (n : Nat) (cs : List Char), cs.length ≤ n → ∀ (s r : List Char),
    findSS cs = some (s, r) → cs = s ++ '*' :: '/' :: r := by
  intro n
  induction n with
  | zero =>
    intro cs hn s r h
    have : cs = [] := List.eq_nil_of_length_eq_zero (by omega)
    subst this; simp [findSS] at h
  | succ n ih =>
    intro cs hn s r h
    cases cs with
    | nil => simp [findSS] at h
    | cons c cs =>
      cases cs with
      | nil => simp [findSS] at h
      | cons d r0 =>
        rw [findSS] at h
        split at h
        · rename_i hc
          simp only [Option.some.injEq, Prod.mk.injEq] at h
          rw [← h.1, ← h.2, hc.1, hc.2]; rfl
        · cases hf : findSS (d :: r0) with
          | none => simp [hf] at h
          | some p =>
            simp only [hf, Option.map_some, Option.some.injEq, Prod.mk.injEq] at h
            have := ih (d :: r0) (by simp only [List.length_cons] at hn ⊢; omega) p.1 p.2 hf
            rw [← h.1, ← h.2, this]; rfl

/-- where a block comment ends -/
def blockEnd (cs : List Char) : Option (List Char) :=
  match findSS cs with
  | none => none
  | some p => skipGround p.2

theorem blockEnd_cons (c : Char) (cs : List Char) (hc : c ≠ '*') : blockEnd (c :: cs) = blockEnd cs := by
  unfold blockEnd
  cases cs with
  | nil => simp [findSS]
  | cons d r =>
    rw [findSS, if_neg (fun h => hc h.1)]
    cases findSS (d :: r) with
    | none => rfl
    | some p => rfl

theorem blockEnd_star (c : Char) (cs : List Char) :
    blockEnd ('*' :: c :: cs) = if c = '/' then skipGround cs else blockEnd (c :: cs) := by
  unfold blockEnd
  rw [findSS]
  by_cases hc : c = '/'
  · simp [hc]
  · rw [if_neg (fun h => hc h.2), if_neg hc]
    cases findSS (c :: cs) with
    | none => rfl
    | some p => rfl

theorem skipBlock_blockEnd : ∀ (cs : List Char),
    skipBlock false cs = blockEnd cs ∧ skipBlock true cs = blockEnd ('*' :: cs) := by
  intro cs
  induction cs with
  | nil => constructor <;> simp [skipBlock, blockEnd, findSS]
  | cons c cs ih =>
    obtain ⟨ih1, ih2⟩ := ih
    have hfalse : skipBlock false (c :: cs) = blockEnd (c :: cs) := by
      rw [skipBlock]
      simp only [Bool.false_and, Bool.false_eq_true, if_false]
      by_cases hc : c = '*'
      · subst hc; simp only [decide_true]; exact ih2
      · simp only [hc, decide_false]; rw [ih1, blockEnd_cons c cs hc]
    refine ⟨hfalse, ?_⟩
    rw [blockEnd_star, skipBlock]
    by_cases hc : c = '/'
    · simp [hc]
    · simp only [Bool.true_and, decide_eq_true_eq, hc, if_false]
      rw [← hfalse, skipBlock]
      simp

theorem skipBlock_found (cs s r : List Char) (h : findSS cs = some (s, r)) : skipBlock false cs = skipGround r := by
  rw [(skipBlock_blockEnd cs).1]; unfold blockEnd; rw [h]

theorem skipBlock_none (cs : List Char) (h : findSS cs = none) : skipBlock false cs = none := by
  rw [(skipBlock_blockEnd cs).1]; unfold blockEnd; rw [h]

/-! ## single quotes -/

theorem scanSq_found : ∀ (s r : List Char), '\'' ∉ s → scanSq (s ++ '\'' :: r) = some (s, r) := by
  intro s
  induction s with
  | nil => intro r _; rw [List.nil_append, scanSq]; simp
  | cons d s ih =>
    intro r hs
    have hd : d ≠ '\'' := fun h => hs (by rw [h]; simp)
    simp only [List.cons_append]
    rw [scanSq, if_neg hd, ih r (fun h => hs (by simp [h]))]
    rfl

theorem scanSq_none : ∀ (s : List Char), '\'' ∉ s → scanSq s = none := by
  intro s
  induction s with
  | nil => intro _; rfl
  | cons d s ih =>
    intro hs
    have hd : d ≠ '\'' := fun h => hs (by rw [h]; simp)
    rw [scanSq, if_neg hd, ih (fun h => hs (by simp [h]))]
    rfl

theorem scanSq_split : ∀ (cs s r : List Char), scanSq cs = some (s, r) → cs = s ++ '\'' :: r ∧ '\'' ∉ s := by
  intro cs
  induction cs with
  | nil => intro s r h; simp [scanSq] at h
  | cons c cs ih =>
    intro s r h
    rw [scanSq] at h
    split at h
    · rename_i hc
      simp only [Option.some.injEq, Prod.mk.injEq] at h
      rw [← h.1, ← h.2, hc]; simp
    · rename_i hc
      cases hf : scanSq cs with
      | none => simp [hf] at h
      | some p =>
        obtain ⟨s', r'⟩ := p
        simp only [hf, Option.map_some, Option.some.injEq, Prod.mk.injEq] at h
        obtain ⟨h1, h2⟩ := ih s' r' hf
        rw [← h.1, ← h.2, h1]
        refine ⟨rfl, ?_⟩
        simp only [List.mem_cons, not_or]
        exact ⟨fun he => hc he.symm, h2⟩

theorem scanSq_none_iff (cs : List Char) (h : scanSq cs = none) : '\'' ∉ cs := by
  induction cs with
  | nil => simp
  | cons c cs ih =>
    rw [scanSq] at h
    split at h
    · cases h
    · rename_i hc
      cases hf : scanSq cs with
      | none =>
        simp only [List.mem_cons, not_or]
        exact ⟨fun he => hc he.symm, ih hf⟩
      | some p => simp [hf] at h

/-! ## every token takes at least one character -/

theorem skipLine_none (s : List Char) (hs : '\n' ∉ s) : skipLine s = some [] := by
  induction s with
  | nil => rw [skipLine]
  | cons d s ih =>
    have hd : d ≠ '\n' := fun h => hs (by rw [h]; simp)
    rw [skipLine, if_neg hd]
    exact ih (fun h => hs (by simp [h]))

theorem split_first_nl : ∀ (l : List Char), '\n' ∈ l → ∃ s r, l = s ++ '\n' :: r ∧ '\n' ∉ s := by
  intro l
  induction l with
  | nil => intro h; simp at h
  | cons d l ih =>
    intro h
    by_cases hd : d = '\n'
    · exact ⟨[], l, by rw [hd]; rfl, by simp⟩
    · have : '\n' ∈ l := by
        simp only [List.mem_cons] at h
        rcases h with h | h
        · exact absurd h.symm hd
        · exact h
      obtain ⟨s, r, h1, h2⟩ := ih this
      refine ⟨d :: s, r, by rw [h1]; rfl, ?_⟩
      simp only [List.mem_cons, not_or]
      exact ⟨fun he => hd he.symm, h2⟩

/-- what `skipGround` leaves is no longer than the text and starts with a character that is not white space -/
theorem skipGround_le : ∀ (n : Nat) (cs : List Char), cs.length ≤ n → ∀ r, skipGround cs = some r →
    r.length ≤ cs.length ∧ ∀ c r', r = c :: r' → isSpace c = false := by
  intro n
  induction n using Nat.strongRecOn with
  | _ n ih =>
    intro cs hn r h
    cases cs with
    | nil => rw [skipGround] at h; injection h with h; rw [← h]; exact ⟨Nat.le_refl _, fun c r' h => by cases h⟩
    | cons c cs' =>
      simp only [List.length_cons] at hn
      by_cases hsp : isSpace c = true
      · rw [skipGround, if_pos hsp] at h
        obtain ⟨h1, h2⟩ := ih cs'.length (by omega) cs' (Nat.le_refl _) r h
        exact ⟨by simp only [List.length_cons]; omega, h2⟩
      · have hsp' : isSpace c = false := by simpa using hsp
        by_cases hc : c = '/'
        · subst hc
          rw [skipGround_slash] at h
          cases cs' with
          | nil =>
            rw [afterSlash] at h; injection h with h; rw [← h]
            exact ⟨Nat.le_refl _, fun c r' he => by simp only [List.cons.injEq] at he; rw [← he.1]; decide⟩
          | cons d r1 =>
            by_cases hd1 : d = '/'
            · subst hd1
              rw [afterSlash_line] at h
              by_cases hnl : '\n' ∈ r1
              · obtain ⟨s0, r2, hr1, hs0⟩ := split_first_nl r1 hnl
                rw [hr1, skipLine_found s0 r2 hs0] at h
                obtain ⟨h1, h2⟩ := ih r2.length (by
                  rw [hr1] at hn; simp only [List.length_cons, List.length_append] at hn; omega) r2 (Nat.le_refl _) r h
                refine ⟨?_, h2⟩
                rw [hr1]; simp only [List.length_cons, List.length_append]; omega
              · rw [skipLine_none r1 hnl] at h
                injection h with h; rw [← h]
                exact ⟨by simp, fun c r' he => by cases he⟩
            · by_cases hd2 : d = '*'
              · subst hd2
                rw [afterSlash_block] at h
                cases hf : findSS r1 with
                | none => rw [skipBlock_none r1 hf] at h; cases h
                | some p =>
                  obtain ⟨s0, r2⟩ := p
                  rw [skipBlock_found r1 s0 r2 hf] at h
                  have hsp2 := findSS_split r1.length r1 (Nat.le_refl _) s0 r2 hf
                  obtain ⟨h1, h2⟩ := ih r2.length (by
                    rw [hsp2] at hn; simp only [List.length_cons, List.length_append] at hn; omega) r2 (Nat.le_refl _) r h
                  refine ⟨?_, h2⟩
                  rw [hsp2]; simp only [List.length_cons, List.length_append]; omega
              · rw [afterSlash_token (d :: r1) (fun c' r' he => by
                  simp only [List.cons.injEq] at he; rw [← he.1]; exact ⟨hd1, hd2⟩)] at h
                injection h with h; rw [← h]
                exact ⟨Nat.le_refl _, fun c r' he => by simp only [List.cons.injEq] at he; rw [← he.1]; decide⟩
        · rw [skipGround_token c cs' hsp' hc] at h
          injection h with h; rw [← h]
          exact ⟨Nat.le_refl _, fun c' r' he => by simp only [List.cons.injEq] at he; rw [← he.1]; exact hsp'⟩

theorem scanSq_length (cs s r : List Char) (h : scanSq cs = some (s, r)) : r.length < cs.length := by
  obtain ⟨h1, _⟩ := scanSq_split cs s r h
  rw [h1]; simp only [List.length_cons, List.length_append]; omega

theorem scanDq_length : ∀ (n : Nat) (cs : List Char), cs.length ≤ n → ∀ (s : List QItem) (r : List Char),
    scanDq cs = some (s, r) → r.length < cs.length := by
  intro n
  induction n with
  | zero =>
    intro cs hn s r h
    have : cs = [] := List.eq_nil_of_length_eq_zero (by omega)
    subst this; simp [scanDq] at h
  | succ n ih =>
    intro cs hn s r h
    cases cs with
    | nil => simp [scanDq] at h
    | cons c cs =>
      unfold scanDq at h
      split at h
      · simp only [Option.some.injEq, Prod.mk.injEq] at h
        rw [← h.2]; simp
      · split at h
        · split at h
          · cases h
          · rename_i e r0
            cases hs : scanDq r0 with
            | none => simp [hs] at h
            | some p =>
              obtain ⟨s', r'⟩ := p
              simp only [hs, Option.map_some, Option.some.injEq, Prod.mk.injEq] at h
              have := ih r0 (by simp only [List.length_cons] at hn; omega) s' r' hs
              rw [← h.2]; simp only [List.length_cons]; omega
        · cases hs : scanDq cs with
          | none => simp [hs] at h
          | some p =>
            obtain ⟨s', r'⟩ := p
            simp only [hs, Option.map_some, Option.some.injEq, Prod.mk.injEq] at h
            have := ih cs (by simp only [List.length_cons] at hn; omega) s' r' hs
            rw [← h.2]; simp only [List.length_cons]; omega

theorem scanDq_suffix : ∀ (n : Nat) (cs : List Char), cs.length ≤ n → ∀ (s : List QItem) (r : List Char),
    scanDq cs = some (s, r) → r <:+ cs := by
  intro n
  induction n with
  | zero =>
    intro cs hn s r h
    have : cs = [] := List.eq_nil_of_length_eq_zero (by omega)
    subst this; simp [scanDq] at h
  | succ n ih =>
    intro cs hn s r h
    cases cs with
    | nil => simp [scanDq] at h
    | cons c cs =>
      unfold scanDq at h
      split at h
      · simp only [Option.some.injEq, Prod.mk.injEq] at h
        rw [← h.2]; exact List.suffix_cons c cs
      · split at h
        · split at h
          · cases h
          · rename_i e r0
            cases hs : scanDq r0 with
            | none => simp [hs] at h
            | some p =>
              obtain ⟨s', r'⟩ := p
              simp only [hs, Option.map_some, Option.some.injEq, Prod.mk.injEq] at h
              have := ih r0 (by simp only [List.length_cons] at hn; omega) s' r' hs
              rw [← h.2]; exact this.trans ((List.suffix_cons e r0).trans (List.suffix_cons c _))
        · cases hs : scanDq cs with
          | none => simp [hs] at h
          | some p =>
            obtain ⟨s', r'⟩ := p
            simp only [hs, Option.map_some, Option.some.injEq, Prod.mk.injEq] at h
            have := ih cs (by simp only [List.length_cons] at hn; omega) s' r' hs
            rw [← h.2]; exact this.trans (List.suffix_cons c cs)

theorem dropWhile_length_le {α : Type} (p : α → Bool) (l : List α) : (l.dropWhile p).length ≤ l.length := by
  induction l with
  | nil => simp
  | cons a l ih =>
    rw [List.dropWhile_cons]
    split
    · simp only [List.length_cons]; omega
    · exact Nat.le_refl _

/-- a token takes at least one character; its offset lies inside the text -/
theorem specNext_lt (n : Nat) (cs : List Char) (t : PTok) (rest : List Char)
    (h : specNext n cs = some (some (t, rest))) : rest.length < cs.length ∧ t.off ≤ n := by
  unfold specNext at h
  cases hg : skipGround cs with
  | none => rw [hg] at h; simp [specNextG] at h
  | some l =>
    rw [hg] at h
    obtain ⟨hle, hhead⟩ := skipGround_le cs.length cs (Nat.le_refl _) l hg
    cases l with
    | nil => simp [specNextG] at h
    | cons c r =>
      have hcs := hhead c r rfl
      simp only [List.length_cons] at hle
      unfold specNextG at h
      simp only at h
      split at h
      · simp only [Option.some.injEq, Prod.mk.injEq] at h; rw [← h.2, ← h.1]; exact ⟨by omega, Nat.sub_le _ _⟩
      · split at h
        · simp only [Option.some.injEq, Prod.mk.injEq] at h; rw [← h.2, ← h.1]; exact ⟨by omega, Nat.sub_le _ _⟩
        · split at h
          · simp only [Option.some.injEq, Prod.mk.injEq] at h; rw [← h.2, ← h.1]; exact ⟨by omega, Nat.sub_le _ _⟩
          · split at h
            · cases hs : scanSq r with
              | none => simp [hs] at h
              | some p =>
                obtain ⟨s, r'⟩ := p
                simp only [hs, Option.some.injEq, Prod.mk.injEq] at h
                have := scanSq_length r s r' hs
                rw [← h.2, ← h.1]; exact ⟨by omega, Nat.sub_le _ _⟩
            · split at h
              · cases hs : scanDq r with
                | none => simp [hs] at h
                | some p =>
                  obtain ⟨s, r'⟩ := p
                  simp only [hs, Option.some.injEq, Prod.mk.injEq] at h
                  have := scanDq_length r.length r (Nat.le_refl _) s r' hs
                  rw [← h.2, ← h.1]; exact ⟨by omega, Nat.sub_le _ _⟩
              · rename_i h1 h2 h3 h4 h5
                simp only [Option.some.injEq, Prod.mk.injEq] at h
                have hnd : isDelim c = false := by simp [isDelim, hcs, h1, h2, h3, h4, h5]
                have : (c :: r).dropWhile (fun x => !isDelim x) = r.dropWhile (fun x => !isDelim x) := by
                  simp [List.dropWhile_cons, hnd]
                have hl := dropWhile_length_le (fun x => !isDelim x) r
                rw [← h.2, ← h.1, this]; exact ⟨by omega, Nat.sub_le _ _⟩

/-- more fuel than characters + 1 changes nothing -/
theorem tokensAux_fuel (n : Nat) : ∀ (f : Nat) (cs : List Char), cs.length + 1 ≤ f →
    tokensAux n (f + 1) cs = tokensAux n f cs := by
  intro f
  induction f with
  | zero => intro cs h; omega
  | succ f ih =>
    intro cs h
    rw [tokensAux_succ n (f + 1) cs, tokensAux_succ n f cs]
    cases hs : specNext n cs with
    | none => rfl
    | some o =>
      cases o with
      | none => rfl
      | some p =>
        obtain ⟨t, r⟩ := p
        simp only
        have := (specNext_lt n cs t r hs).1
        rw [ih r (by omega)]

/-! ## a line feed appended to the text (`newLexer` does that) changes no token -/

/-- what is left after skipping, when a line feed is appended to the text -/
def withNL (r : List Char) : List Char := if r = [] then [] else r ++ ['\n']

theorem findSS_nl : ∀ (n : Nat) (cs : List Char), cs.length ≤ n →
    findSS (cs ++ ['\n']) = (findSS cs).map fun p => (p.1, p.2 ++ ['\n']) := by
  intro n
  induction n with
  | zero =>
    intro cs hn
    have : cs = [] := List.eq_nil_of_length_eq_zero (by omega)
    subst this; simp [findSS]
  | succ n ih =>
    intro cs hn
    cases cs with
    | nil => simp [findSS]
    | cons c cs =>
      cases cs with
      | nil =>
        simp only [List.cons_append, List.nil_append]
        rw [findSS]
        simp [findSS]
      | cons d r =>
        simp only [List.cons_append]
        rw [findSS, findSS]
        split
        · simp
        · have := ih (d :: r) (by simp only [List.length_cons] at hn ⊢; omega)
          simp only [List.cons_append] at this
          rw [this]
          cases findSS (d :: r) <;> simp

theorem skipGround_nl : ∀ (n : Nat) (cs : List Char), cs.length ≤ n →
    skipGround (cs ++ ['\n']) = (skipGround cs).map withNL := by
  intro n
  induction n using Nat.strongRecOn with
  | _ n ih =>
    intro cs hn
    cases cs with
    | nil =>
      simp only [List.nil_append]
      rw [skipGround, skipGround, skipGround]
      simp [isSpace, withNL]
    | cons c cs' =>
      simp only [List.length_cons] at hn
      simp only [List.cons_append]
      by_cases hsp : isSpace c = true
      · rw [skipGround, if_pos hsp]
        conv => rhs; rw [skipGround, if_pos hsp]
        exact ih cs'.length (by omega) cs' (Nat.le_refl _)
      · have hsp' : isSpace c = false := by simpa using hsp
        by_cases hc : c = '/'
        · subst hc
          rw [skipGround_slash, skipGround_slash]
          cases cs' with
          | nil =>
            simp only [List.nil_append]
            rw [afterSlash_token ['\n'] (fun c r h => by
              simp only [List.cons.injEq] at h; rw [← h.1]; exact ⟨by decide, by decide⟩)]
            rw [afterSlash]
            simp [withNL]
          | cons d r1 =>
            simp only [List.cons_append]
            by_cases hd1 : d = '/'
            · subst hd1
              rw [afterSlash_line, afterSlash_line]
              by_cases hnl : '\n' ∈ r1
              · obtain ⟨s0, r2, hr1, hs0⟩ := split_first_nl r1 hnl
                rw [hr1, skipLine_found s0 r2 hs0]
                have : s0 ++ '\n' :: r2 ++ ['\n'] = s0 ++ '\n' :: (r2 ++ ['\n']) := by simp
                rw [this, skipLine_found s0 (r2 ++ ['\n']) hs0]
                exact ih r2.length (by
                  rw [hr1] at hn; simp only [List.length_cons, List.length_append] at hn; omega) r2 (Nat.le_refl _)
              · rw [skipLine_none r1 hnl, skipLine_found r1 [] hnl]
                rw [skipGround]
                simp [withNL]
            · by_cases hd2 : d = '*'
              · subst hd2
                rw [afterSlash_block, afterSlash_block]
                rw [(skipBlock_blockEnd _).1, (skipBlock_blockEnd _).1]
                unfold blockEnd
                rw [findSS_nl r1.length r1 (Nat.le_refl _)]
                cases hf : findSS r1 with
                | none => rfl
                | some p =>
                  simp only [Option.map_some]
                  have hsp2 := findSS_split r1.length r1 (Nat.le_refl _) p.1 p.2 (by rw [hf])
                  exact ih p.2.length (by
                    rw [hsp2] at hn; simp only [List.length_cons, List.length_append] at hn; omega) p.2 (Nat.le_refl _)
              · rw [afterSlash_token (d :: r1) (fun c' r' he => by
                  simp only [List.cons.injEq] at he; rw [← he.1]; exact ⟨hd1, hd2⟩)]
                rw [afterSlash_token (d :: (r1 ++ ['\n'])) (fun c' r' he => by
                  simp only [List.cons.injEq] at he; rw [← he.1]; exact ⟨hd1, hd2⟩)]
                simp [withNL]
        · rw [skipGround_token c (cs' ++ ['\n']) hsp' hc, skipGround_token c cs' hsp' hc]
          simp [withNL]

theorem scanSq_nl : ∀ (cs : List Char),
    scanSq (cs ++ ['\n']) = (scanSq cs).map fun p => (p.1, p.2 ++ ['\n']) := by
  intro cs
  induction cs with
  | nil => simp [scanSq]
  | cons c cs ih =>
    simp only [List.cons_append]
    rw [scanSq, scanSq]
    split
    · simp
    · rw [ih]; cases scanSq cs <;> simp

theorem scanDq_nl : ∀ (n : Nat) (cs : List Char), cs.length ≤ n →
    scanDq (cs ++ ['\n']) = (scanDq cs).map fun p => (p.1, p.2 ++ ['\n']) := by
  intro n
  induction n with
  | zero =>
    intro cs hn
    have : cs = [] := List.eq_nil_of_length_eq_zero (by omega)
    subst this; simp [scanDq]
  | succ n ih =>
    intro cs hn
    cases cs with
    | nil => simp [scanDq]
    | cons c cs =>
      simp only [List.cons_append]
      by_cases hq : c = '"'
      · subst hq; unfold scanDq; simp
      · by_cases hb : c = '\\'
        · subst hb
          cases cs with
          | nil => simp [scanDq]
          | cons e r0 =>
            simp only [List.cons_append]
            have := ih r0 (by simp only [List.length_cons] at hn; omega)
            conv => lhs; unfold scanDq
            conv => rhs; unfold scanDq
            simp only [show ('\\' : Char) ≠ '"' by decide, if_false, if_true]
            rw [this]
            cases scanDq r0 <;> simp
        · have := ih cs (by simp only [List.length_cons] at hn; omega)
          conv => lhs; unfold scanDq
          conv => rhs; unfold scanDq
          simp only [hq, hb, if_false]
          rw [this]
          cases scanDq cs <;> simp

theorem takeWhile_snoc_neg {α : Type} (p : α → Bool) (x : α) (hx : p x = false) : ∀ (l : List α),
    (l ++ [x]).takeWhile p = l.takeWhile p ∧ (l ++ [x]).dropWhile p = l.dropWhile p ++ [x] := by
  intro l
  induction l with
  | nil => simp [List.takeWhile_cons, List.dropWhile_cons, hx]
  | cons a l ih =>
    simp only [List.cons_append, List.takeWhile_cons, List.dropWhile_cons]
    split
    · exact ⟨by rw [ih.1], ih.2⟩
    · exact ⟨rfl, rfl⟩

theorem specNext_nl (n : Nat) (cs : List Char) :
    specNext (n + 1) (cs ++ ['\n']) =
      match specNext n cs with
      | none => none
      | some none => some none
      | some (some (t, rest)) => some (some (t, rest ++ ['\n'])) := by
  unfold specNext
  rw [skipGround_nl cs.length cs (Nat.le_refl _)]
  cases hg : skipGround cs with
  | none => rfl
  | some l =>
    obtain ⟨_, hhead⟩ := skipGround_le cs.length cs (Nat.le_refl _) l hg
    cases l with
    | nil => simp [withNL, specNextG]
    | cons c r =>
      have hcs := hhead c r rfl
      have hoff : n + 1 - ((r ++ ['\n']).length + 1) = n - (r.length + 1) := by
        simp only [List.length_append, List.length_cons, List.length_nil]; omega
      simp only [Option.map_some, withNL, reduceCtorEq, if_false, List.cons_append]
      unfold specNextG
      simp only [hoff]
      split
      · rfl
      · split
        · rfl
        · split
          · rfl
          · split
            · rw [scanSq_nl]; cases scanSq r <;> rfl
            · split
              · rw [scanDq_nl r.length r (Nat.le_refl _)]; cases scanDq r <;> rfl
              · have h := takeWhile_snoc_neg (fun x => !isDelim x) '\n' (by decide) (c :: r)
                simp only [List.cons_append] at h
                rw [h.1, h.2]

theorem tokensAux_nl (n : Nat) : ∀ (f : Nat) (cs : List Char),
    tokensAux (n + 1) f (cs ++ ['\n']) = tokensAux n f cs := by
  intro f
  induction f with
  | zero => intro cs; simp [tokensAux]
  | succ f ih =>
    intro cs
    rw [tokensAux_succ, tokensAux_succ, specNext_nl]
    cases specNext n cs with
    | none => rfl
    | some o =>
      cases o with
      | none => rfl
      | some p =>
        obtain ⟨t, r⟩ := p
        simp only
        rw [ih r]

/-- the tokens of the text with a line feed appended are the tokens of the text -/
theorem tokenize_nl (text : List Char) : tokenize (text ++ ['\n']) = tokenize text := by
  unfold tokenize
  rw [List.length_append, List.length_cons, List.length_nil, Nat.zero_add, tokensAux_nl]
  exact tokensAux_fuel text.length (text.length + 1) text (Nat.le_refl _)

/-! ## a token's offset is where its first character stands -/

/-- what `skipGround` leaves is a tail of the text -/
theorem skipGround_suffix : ∀ (n : Nat) (cs : List Char), cs.length ≤ n → ∀ r, skipGround cs = some r → r <:+ cs := by
  intro n
  induction n using Nat.strongRecOn with
  | _ n ih =>
    intro cs hn r h
    cases cs with
    | nil => rw [skipGround] at h; injection h with h; rw [← h]; exact List.suffix_refl _
    | cons c cs' =>
      simp only [List.length_cons] at hn
      by_cases hsp : isSpace c = true
      · rw [skipGround, if_pos hsp] at h
        exact (ih cs'.length (by omega) cs' (Nat.le_refl _) r h).trans (List.suffix_cons c cs')
      · have hsp' : isSpace c = false := by simpa using hsp
        by_cases hc : c = '/'
        · subst hc
          rw [skipGround_slash] at h
          cases cs' with
          | nil => rw [afterSlash] at h; injection h with h; rw [← h]; exact List.suffix_refl _
          | cons d r1 =>
            by_cases hd1 : d = '/'
            · subst hd1
              rw [afterSlash_line] at h
              by_cases hnl : '\n' ∈ r1
              · obtain ⟨s0, r2, hr1, hs0⟩ := split_first_nl r1 hnl
                rw [hr1, skipLine_found s0 r2 hs0] at h
                have h1 := ih r2.length (by
                  rw [hr1] at hn; simp only [List.length_cons, List.length_append] at hn; omega) r2 (Nat.le_refl _) r h
                refine h1.trans ?_
                rw [hr1]
                exact ⟨'/' :: '/' :: (s0 ++ ['\n']), by simp⟩
              · rw [skipLine_none r1 hnl] at h
                injection h with h; rw [← h]
                exact List.nil_suffix
            · by_cases hd2 : d = '*'
              · subst hd2
                rw [afterSlash_block] at h
                cases hf : findSS r1 with
                | none => rw [skipBlock_none r1 hf] at h; cases h
                | some p =>
                  obtain ⟨s0, r2⟩ := p
                  rw [skipBlock_found r1 s0 r2 hf] at h
                  have hsp2 := findSS_split r1.length r1 (Nat.le_refl _) s0 r2 hf
                  have h1 := ih r2.length (by
                    rw [hsp2] at hn; simp only [List.length_cons, List.length_append] at hn; omega) r2 (Nat.le_refl _) r h
                  refine h1.trans ?_
                  rw [hsp2]
                  exact ⟨'/' :: '*' :: (s0 ++ ['*', '/']), by simp⟩
              · rw [afterSlash_token (d :: r1) (fun c' r' he => by
                  simp only [List.cons.injEq] at he; rw [← he.1]; exact ⟨hd1, hd2⟩)] at h
                injection h with h; rw [← h]; exact List.suffix_refl _
        · rw [skipGround_token c cs' hsp' hc] at h
          injection h with h; rw [← h]; exact List.suffix_refl _

/-- the offset of a token is the number of characters before its first character, and an unquoted
token (every keyword is one) is not empty and is the text from there up to the next delimiter -/
theorem specNext_off (text pre cs : List Char) (ht : text = pre ++ cs) (t : PTok) (rest : List Char)
    (h : specNext text.length cs = some (some (t, rest))) :
    ∃ pre', text = pre' ++ rest ∧ rest <:+ cs ∧ t.off < text.length ∧
      ∀ s, t.tok = .unq s → s ≠ [] ∧ s = (text.drop t.off).takeWhile (fun x => !isDelim x) := by
  unfold specNext at h
  cases hg : skipGround cs with
  | none => rw [hg] at h; simp [specNextG] at h
  | some l =>
    rw [hg] at h
    have hsx := skipGround_suffix cs.length cs (Nat.le_refl _) l hg
    obtain ⟨_, hhead⟩ := skipGround_le cs.length cs (Nat.le_refl _) l hg
    cases l with
    | nil => simp [specNextG] at h
    | cons c r =>
      obtain ⟨sk, hsk⟩ := hsx
      have htext : text = (pre ++ sk) ++ c :: r := by rw [ht, ← hsk]; simp
      have hoff : text.length - (r.length + 1) = (pre ++ sk).length := by
        rw [htext]; simp only [List.length_append, List.length_cons]; omega
      have hdrop : text.drop (pre ++ sk).length = c :: r := by rw [htext, List.drop_left']; rfl
      have hlt : (pre ++ sk).length < text.length := by
        rw [htext]; simp only [List.length_append, List.length_cons]; omega
      have hcs := hhead c r rfl
      have fin : ∀ (tk : Tok) (rest' : List Char), rest' <:+ r → (∀ s, tk ≠ .unq s) →
          (⟨tk, text.length - (r.length + 1)⟩, rest') = (t, rest) →
          ∃ pre', text = pre' ++ rest ∧ rest <:+ cs ∧ t.off < text.length ∧
            ∀ s, t.tok = .unq s → s ≠ [] ∧ s = (text.drop t.off).takeWhile (fun x => !isDelim x) := by
        intro tk rest' hr hnu he
        simp only [Prod.mk.injEq] at he
        obtain ⟨a, ha⟩ := hr
        refine ⟨pre ++ sk ++ (c :: a), ?_, ?_, ?_, ?_⟩
        · rw [← he.2, htext, ← ha]; simp
        · rw [← he.2, ← hsk, ← ha]; exact ⟨sk ++ c :: a, by simp⟩
        · rw [← he.1]; simp only; rw [hoff]; exact hlt
        · intro s hs; rw [← he.1] at hs; exact absurd hs (hnu s)
      unfold specNextG at h
      simp only at h
      split at h
      · simp only [Option.some.injEq] at h
        exact fin .semi r (List.suffix_refl _) (fun s h => by cases h) h
      · split at h
        · simp only [Option.some.injEq] at h
          exact fin .lbrace r (List.suffix_refl _) (fun s h => by cases h) h
        · split at h
          · simp only [Option.some.injEq] at h
            exact fin .rbrace r (List.suffix_refl _) (fun s h => by cases h) h
          · split at h
            · cases hs : scanSq r with
              | none => simp [hs] at h
              | some p =>
                obtain ⟨s0, r'⟩ := p
                simp only [hs, Option.some.injEq] at h
                obtain ⟨hsp, _⟩ := scanSq_split r s0 r' hs
                exact fin (.sq s0) r' ⟨s0 ++ ['\''], by rw [hsp]; simp⟩ (fun s h => by cases h) h
            · split at h
              · cases hs : scanDq r with
                | none => simp [hs] at h
                | some p =>
                  obtain ⟨s0, r'⟩ := p
                  simp only [hs, Option.some.injEq] at h
                  have hl := scanDq_length r.length r (Nat.le_refl _) s0 r' hs
                  have hsuf : r' <:+ r := by
                    -- the raw text and the closing quote precede `r'`
                    have := scanDq_suffix r.length r (Nat.le_refl _) s0 r' hs
                    exact this
                  exact fin (.dq s0) r' hsuf (fun s h => by cases h) h
              · rename_i h1 h2 h3 h4 h5
                simp only [Option.some.injEq, Prod.mk.injEq] at h
                have hnd : isDelim c = false := by simp [isDelim, hcs, h1, h2, h3, h4, h5]
                obtain ⟨D, hD⟩ : ∃ D, D = (c :: r).dropWhile (fun x => !isDelim x) := ⟨_, rfl⟩
                obtain ⟨a, ha⟩ : D <:+ c :: r := by rw [hD]; exact List.dropWhile_suffix _
                rw [← hD] at h
                refine ⟨pre ++ sk ++ a, ?_, ?_, ?_, ?_⟩
                · rw [← h.2, htext, ← ha]; simp
                · rw [← h.2, ← hsk, ← ha]; exact ⟨sk ++ a, by simp⟩
                · rw [← h.1]; simp only; rw [hoff]; exact hlt
                · intro s hs
                  rw [← h.1] at hs
                  simp only [Tok.unq.injEq] at hs
                  rw [← hs, ← h.1]
                  simp only
                  rw [hoff, hdrop]
                  refine ⟨?_, rfl⟩
                  simp [hnd]

theorem tokensAux_keyword_start (text : List Char) : ∀ (f : Nat) (pre cs : List Char) (toks : List PTok),
    text = pre ++ cs → tokensAux text.length f cs = some toks →
    ∀ t ∈ toks, t.off < text.length ∧
      ∀ s, t.tok = .unq s → s ≠ [] ∧ s = (text.drop t.off).takeWhile (fun x => !isDelim x) := by
  intro f
  induction f with
  | zero => intro pre cs toks _ h; simp [tokensAux] at h
  | succ f ih =>
    intro pre cs toks ht h
    rw [tokensAux_succ] at h
    cases hs : specNext text.length cs with
    | none => rw [hs] at h; cases h
    | some o =>
      cases o with
      | none => rw [hs] at h; injection h with h; rw [← h]; intro t htm; cases htm
      | some p =>
        obtain ⟨t0, r⟩ := p
        rw [hs] at h
        simp only at h
        obtain ⟨pre', hp', _, hlt, hunq⟩ := specNext_off text pre cs ht t0 r hs
        cases hr : tokensAux text.length f r with
        | none => rw [hr] at h; cases h
        | some ts =>
          rw [hr] at h
          simp only [Option.map_some, Option.some.injEq] at h
          rw [← h]
          intro t htm
          simp only [List.mem_cons] at htm
          rcases htm with htm | htm
          · rw [htm]; exact ⟨hlt, hunq⟩
          · exact ih pre' r ts hp' hr t htm

/-- every token of a text starts inside the text, and an unquoted one is the non-empty run of
characters from its offset up to the next delimiter -/
theorem tokenize_keyword_start (text : List Char) (toks : List PTok) (h : tokenize text = some toks) :
    ∀ t ∈ toks, t.off < text.length ∧
      ∀ s, t.tok = .unq s → s ≠ [] ∧ s = (text.drop t.off).takeWhile (fun x => !isDelim x) :=
  tokensAux_keyword_start text _ [] text toks rfl h

/-! ## positions depend on the text before the offset only -/

theorem tokensAux_off (n : Nat) : ∀ (f : Nat) (cs : List Char) (toks : List PTok),
    tokensAux n f cs = some toks → ∀ t ∈ toks, t.off ≤ n := by
  intro f
  induction f with
  | zero => intro cs toks h; simp [tokensAux] at h
  | succ f ih =>
    intro cs toks h
    rw [tokensAux_succ] at h
    cases hs : specNext n cs with
    | none => rw [hs] at h; cases h
    | some o =>
      cases o with
      | none => rw [hs] at h; injection h with h; rw [← h]; intro t ht; cases ht
      | some p =>
        obtain ⟨t0, r⟩ := p
        rw [hs] at h
        simp only at h
        cases hr : tokensAux n f r with
        | none => rw [hr] at h; cases h
        | some ts =>
          rw [hr] at h
          simp only [Option.map_some, Option.some.injEq] at h
          rw [← h]
          intro t ht
          simp only [List.mem_cons] at ht
          rcases ht with ht | ht
          · rw [ht]; exact (specNext_lt n cs t0 r hs).2
          · exact ih r ts hr t ht

section congr
variable (text1 text2 : List Char) (N : Nat) (hsame : ∀ off, off ≤ N → text1.take off = text2.take off)
include hsame

theorem lineOf_congr (off : Nat) (h : off ≤ N) : lineOf text1 off = lineOf text2 off := by
  unfold lineOf; rw [hsame off h]

theorem colOf_congr (off : Nat) (h : off ≤ N) : colOf text1 off = colOf text2 off := by
  unfold colOf; rw [hsame off h]

theorem quoteCol_congr (off : Nat) (h : off ≤ N) : quoteCol text1 off = quoteCol text2 off := by
  unfold quoteCol; rw [hsame off h]

theorem piece_congr (b : Bool) (t : PTok) (h : t.off ≤ N) : piece text1 b t = piece text2 b t := by
  obtain ⟨tok, off⟩ := t
  cases tok <;> simp only [piece]
  rw [quoteCol_congr text1 text2 N hsame off h]

theorem concatTail_congr (b : Bool) : ∀ (n : Nat) (ts : List PTok), ts.length ≤ n → (∀ t ∈ ts, t.off ≤ N) →
    concatTail text1 b ts = concatTail text2 b ts := by
  intro n
  induction n with
  | zero =>
    intro ts hn _
    have : ts = [] := List.eq_nil_of_length_eq_zero (by omega)
    subst this; simp [concatTail]
  | succ n ih =>
    intro ts hn hoff
    cases ts with
    | nil => simp [concatTail]
    | cons p ts1 =>
      cases ts1 with
      | nil => simp [concatTail]
      | cons q ts2 =>
        simp only [concatTail]
        rw [piece_congr text1 text2 N hsame b q (hoff q (by simp)),
          ih ts2 (by simp only [List.length_cons] at hn; omega) (fun t ht => hoff t (by simp [ht]))]

theorem argument_congr (b : Bool) (ts : List PTok) (hoff : ∀ t ∈ ts, t.off ≤ N) :
    argument text1 b ts = argument text2 b ts := by
  cases ts with
  | nil => simp [argument]
  | cons t ts' =>
    have h1 := piece_congr text1 text2 N hsame b t (hoff t (by simp))
    have h2 := concatTail_congr text1 text2 N hsame b ts'.length ts' (Nat.le_refl _)
      (fun x hx => hoff x (by simp [hx]))
    cases hk : t.tok <;> simp only [argument, hk, h1, h2]

end congr

end Goyang.Lemmas.Scan
