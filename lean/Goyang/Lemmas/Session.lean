import Goyang.Spec.Session
/-
Helper lemmas for property C18 (Goyang/Props/C18.lean): how `Session.step` and `Session.runFrom`
act on the three components of the state, and what histories can be cut into.
-/
namespace Goyang.Lemmas.Session
open Goyang.Model Goyang.Model.Session Goyang.Spec.Session

/-! ### the Lean front end -/

/-- `loadText` changes the registry only when it answers `accepted` (so ignoring the registry it
returns beside another answer, as `tryLoadSrc` does, loses nothing). -/
theorem loadText_cases (reg : Registry) (name text : List UInt8) :
    (loadText reg name text).2 = .accepted ∨ (loadText reg name text).1 = reg := by
  unfold loadText
  repeat' split
  all_goals first | exact .inr rfl | exact .inl rfl

theorem loadText_rejected_reg (reg : Registry) (name text : List UInt8)
    (h : (loadText reg name text).2 ≠ .accepted) : (loadText reg name text).1 = reg := by
  rcases loadText_cases reg name text with h' | h'
  · exact absurd h' h
  · exact h'

attribute [local irreducible] Goyang.Model.loadText

theorem tryLoadSrc_text (reg : Registry) (name text : List UInt8) :
    tryLoadSrc reg (.text name text) = ofLoadText (loadText reg name text) := rfl

theorem tryLoadSrc_stmts (reg : Registry) (f : SrcFile) :
    tryLoadSrc reg (.stmts f true) = tryLoad reg f := rfl

theorem loadSrc_text (reg : Registry) (name text : List UInt8) :
    loadSrc reg (.text name text) = (loadText reg name text).1 := by
  have h := loadText_cases reg name text
  unfold loadSrc
  rw [tryLoadSrc_text]
  generalize loadText reg name text = p at h ⊢
  obtain ⟨r, res⟩ := p
  cases res
  case accepted => rfl
  all_goals
    rcases h with h | h
    · cases h
    · exact h.symm

theorem loadSrc_stmts (reg : Registry) (f : SrcFile) (h : ∃ r, tryLoad reg f = .ok r) :
    loadSrc reg (.stmts f true) = loadFile reg f := by
  obtain ⟨r, hr⟩ := h
  unfold loadSrc
  rw [tryLoadSrc_stmts, hr, loadFile_of_ok reg r f hr]

/-! ### one step -/

theorem step_load_bad (plug : Registry → Plug) (s : Session) (f : SrcFile) :
    step plug s (.load (.stmts f false)) = (s, .rejected .build) := rfl

theorem step_load_ok (plug : Registry → Plug) (s : Session) (src : Src) (r : Registry) (h : tryLoadSrc s.reg src = .ok r) :
    step plug s (.load src) = ({ s with reg := r }, .accepted) := by
  simp only [step, h]

theorem step_load_dup (plug : Registry → Plug) (s : Session) (src : Src) (e : Reject) (h : tryLoadSrc s.reg src = .error e) :
    step plug s (.load src) = (s, .rejected e) := by
  simp only [step, h]

theorem step_process (plug : Registry → Plug) (s : Session) :
    step plug s .process =
      ({ s with cache := some (processAll s.reg s.opts (plug s.reg)) }, .processed (processAll s.reg s.opts (plug s.reg))) := rfl

/-- A load answers `accepted` or `rejected`, nothing else; accepted exactly when `tryLoadSrc`
gave a new registry. -/
theorem step_load_cases (plug : Registry → Plug) (s : Session) (src : Src) :
    (∃ r, tryLoadSrc s.reg src = .ok r ∧ step plug s (.load src) = ({ s with reg := r }, .accepted)) ∨
    (∃ w, step plug s (.load src) = (s, .rejected w)) := by
  cases h : tryLoadSrc s.reg src with
  | ok r => exact .inl ⟨r, rfl, step_load_ok plug s src r h⟩
  | error e => exact .inr ⟨e, step_load_dup plug s src e h⟩

theorem loadSrc_of_ok (reg r : Registry) (src : Src) (h : tryLoadSrc reg src = .ok r) : loadSrc reg src = r := by
  simp only [loadSrc, h]

/-- A rejected load leaves the state as it was: equal, not merely equivalent. -/
theorem step_rejected_state (plug : Registry → Plug) (s : Session) (src : Src) (w : Reject)
    (h : (step plug s (.load src)).2 = .rejected w) : (step plug s (.load src)).1 = s := by
  rcases step_load_cases plug s src with ⟨r, _, e⟩ | ⟨w', e⟩
  · rw [e] at h; cases h
  · rw [e]

/-- An accepted load: the text was built and `tryLoad` gave the new registry. -/
theorem step_accepted (plug : Registry → Plug) (s : Session) (src : Src)
    (h : (step plug s (.load src)).2 = .accepted) :
    ∃ r, tryLoadSrc s.reg src = .ok r ∧ (step plug s (.load src)).1 = { s with reg := r } := by
  rcases step_load_cases plug s src with ⟨r, hr, e⟩ | ⟨w', e⟩
  · exact ⟨r, hr, by rw [e]⟩
  · rw [e] at h; cases h

/-- No op writes the options. -/
theorem step_opts (plug : Registry → Plug) (s : Session) (op : Op) : (step plug s op).1.opts = s.opts := by
  cases op with
  | load src => rcases step_load_cases plug s src with ⟨r, _, e⟩ | ⟨w, e⟩ <;> rw [e]
  | process => rfl
  | read key path =>
    simp only [step]
    split
    · rfl
    · split
      · rfl
      · split
        · rfl
        · split <;> rfl

/-- `process` and `read` do not write the registry. -/
theorem step_reg_of_not_load (plug : Registry → Plug) (s : Session) (op : Op) (h : ∀ src, op ≠ .load src) :
    (step plug s op).1.reg = s.reg := by
  cases op with
  | load src => exact absurd rfl (h src)
  | process => rfl
  | read key path =>
    simp only [step]
    split
    · rfl
    · split
      · rfl
      · split
        · rfl
        · split <;> rfl

/-- A read answers with a read answer. -/
theorem step_read_out (plug : Registry → Plug) (s : Session) (key path : String) :
    (step plug s (.read key path)).2.isReadOut = true := by
  simp only [step]
  split
  · rfl
  · split
    · rfl
    · split
      · rfl
      · split <;> rfl

/-- Anything else does not. -/
theorem step_nonread_out (plug : Registry → Plug) (s : Session) (op : Op) (h : op.isRead = false) :
    (step plug s op).2.isReadOut = false := by
  cases op with
  | load src => rcases step_load_cases plug s src with ⟨r, _, e⟩ | ⟨w, e⟩ <;> rw [e] <;> rfl
  | process => rfl
  | read key path => cases h

/-- Two sessions with the same registry and options: `load` and `process` answer the same and
stay that way (the cache is only read by `read`). -/
theorem step_core (plug : Registry → Plug) (s t : Session) (op : Op) (hr : s.reg = t.reg) (ho : s.opts = t.opts)
    (hop : op.isRead = false) :
    (step plug s op).2 = (step plug t op).2 ∧ (step plug s op).1.reg = (step plug t op).1.reg := by
  cases op with
  | read key path => cases hop
  | process => simp only [step_process, hr, ho, and_self]
  | load src =>
    cases h : tryLoadSrc s.reg src with
    | ok r =>
      rw [step_load_ok plug s src r h, step_load_ok plug t src r (hr ▸ h)]
      exact ⟨rfl, rfl⟩
    | error e =>
      rw [step_load_dup plug s src e h, step_load_dup plug t src e (hr ▸ h)]
      exact ⟨rfl, hr⟩

/-! ### histories -/

theorem runFrom_nil (plug : Registry → Plug) (s : Session) : runFrom plug s [] = (s, []) := rfl

theorem runFrom_cons (plug : Registry → Plug) (s : Session) (op : Op) (ops : List Op) :
    runFrom plug s (op :: ops) =
      ((runFrom plug (step plug s op).1 ops).1, (step plug s op).2 :: (runFrom plug (step plug s op).1 ops).2) := rfl

theorem runFrom_append (plug : Registry → Plug) (s : Session) (h₁ h₂ : List Op) :
    runFrom plug s (h₁ ++ h₂) =
      ((runFrom plug (runFrom plug s h₁).1 h₂).1, (runFrom plug s h₁).2 ++ (runFrom plug (runFrom plug s h₁).1 h₂).2) := by
  induction h₁ generalizing s with
  | nil => rfl
  | cons op ops ih => simp only [List.cons_append, runFrom_cons, ih]

theorem runFrom_length (plug : Registry → Plug) (s : Session) (h : List Op) : (runFrom plug s h).2.length = h.length := by
  induction h generalizing s with
  | nil => rfl
  | cons op ops ih => simp only [runFrom_cons, List.length_cons, ih]

theorem runFrom_opts (plug : Registry → Plug) (s : Session) (h : List Op) : (runFrom plug s h).1.opts = s.opts := by
  induction h generalizing s with
  | nil => rfl
  | cons op ops ih => rw [runFrom_cons]; simp only [ih, step_opts]

/-- The registry a history leaves behind is the registry obtained by loading, in order, exactly
the texts whose load was answered `accepted`. -/
theorem runFrom_reg (plug : Registry → Plug) (s : Session) (h : List Op) :
    (runFrom plug s h).1.reg = (acceptedTexts h (runFrom plug s h).2).foldl loadSrc s.reg := by
  induction h generalizing s with
  | nil => rfl
  | cons op ops ih =>
    rw [runFrom_cons]
    cases op with
    | load src =>
      rcases step_load_cases plug s src with ⟨r, hr, e⟩ | ⟨w, e⟩
      · simp only [e, acceptedTexts, List.foldl_cons, loadSrc_of_ok _ _ _ hr, ih]
      · simp only [e, acceptedTexts, ih]
    | process =>
      simp only [acceptedTexts, step_process, ih]
    | read key path =>
      have hr := step_reg_of_not_load plug s (.read key path) (fun _ h => by cases h)
      have : acceptedTexts (Op.read key path :: ops)
          ((step plug s (.read key path)).2 :: (runFrom plug (step plug s (.read key path)).1 ops).2) =
          acceptedTexts ops (runFrom plug (step plug s (.read key path)).1 ops).2 := by
        have ho := step_read_out plug s key path
        cases hs : (step plug s (.read key path)).2 with
        | accepted => rw [hs] at ho; cases ho
        | rejected w => rfl
        | processed o => rfl
        | found l => rfl
        | noModule => rfl
        | unprocessed => rfl
      simp only [this, ih, hr]

/-- Loading the accepted texts of a history as a batch, into any session with the registry the
history started from: every one of them is accepted again and the registry reached is the same. -/
theorem batch_replays (plug : Registry → Plug) (h : List Op) (s t : Session) (hst : t.reg = s.reg) :
    (runFrom plug t (loads (acceptedTexts h (runFrom plug s h).2))).1.reg = (runFrom plug s h).1.reg ∧
    (runFrom plug t (loads (acceptedTexts h (runFrom plug s h).2))).2 =
      (acceptedTexts h (runFrom plug s h).2).map fun _ => Out.accepted := by
  induction h generalizing s t with
  | nil => exact ⟨hst, rfl⟩
  | cons op ops ih =>
    rw [runFrom_cons]
    cases op with
    | load src =>
      rcases step_load_cases plug s src with ⟨r, hr, e⟩ | ⟨w, e⟩
      · have ht : step plug t (.load src) = ({ t with reg := r }, .accepted) :=
          step_load_ok plug t src r (hst ▸ hr)
        have := ih { s with reg := r } { t with reg := r } rfl
        simp only [e, acceptedTexts, loads, List.map_cons, runFrom_cons, ht]
        exact ⟨this.1, by rw [← loads, this.2]⟩
      · simp only [e, acceptedTexts]
        exact ih s t hst
    | process =>
      simp only [acceptedTexts, step_process]
      exact ih _ t hst
    | read key path =>
      have hr := step_reg_of_not_load plug s (.read key path) (fun _ h => by cases h)
      have ho := step_read_out plug s key path
      have : acceptedTexts (Op.read key path :: ops)
          ((step plug s (.read key path)).2 :: (runFrom plug (step plug s (.read key path)).1 ops).2) =
          acceptedTexts ops (runFrom plug (step plug s (.read key path)).1 ops).2 := by
        cases hs : (step plug s (.read key path)).2 with
        | accepted => rw [hs] at ho; cases ho
        | rejected w => rfl
        | processed o => rfl
        | found l => rfl
        | noModule => rfl
        | unprocessed => rfl
      rw [this]
      exact ih _ t (hst.trans hr.symm)

/-- Histories from two sessions with the same registry and options answer every `load` and
`process` alike, whatever reads are interleaved in one of them. -/
theorem runFrom_skip_reads (plug : Registry → Plug) (h : List Op) (s t : Session) (hr : s.reg = t.reg) (ho : s.opts = t.opts) :
    (runFrom plug s h).2.filter (fun o => !o.isReadOut) = (runFrom plug t (h.filter fun op => !op.isRead)).2 ∧
    (runFrom plug s h).1.reg = (runFrom plug t (h.filter fun op => !op.isRead)).1.reg := by
  induction h generalizing s t with
  | nil => exact ⟨rfl, hr⟩
  | cons op ops ih =>
    cases hop : op.isRead with
    | true =>
      cases op with
      | load src => cases hop
      | process => cases hop
      | read key path =>
        have h1 := step_read_out plug s key path
        have h2 := step_reg_of_not_load plug s (.read key path) (fun _ h => by cases h)
        have h3 := step_opts plug s (.read key path)
        have := ih (step plug s (.read key path)).1 t (h2.trans hr) (h3.trans ho)
        simp only [runFrom_cons, List.filter_cons, h1, Op.isRead, Bool.not_true, Bool.false_eq_true, if_false]
        exact this
    | false =>
      have h1 := step_nonread_out plug s op hop
      have hc := step_core plug s t op hr ho hop
      have h3 : (step plug s op).1.opts = (step plug t op).1.opts := by rw [step_opts, step_opts, ho]
      have := ih (step plug s op).1 (step plug t op).1 hc.2 h3
      simp only [runFrom_cons, List.filter_cons, h1, hop, Bool.not_false, if_true]
      exact ⟨by rw [this.1, hc.1], this.2⟩

end Goyang.Lemmas.Session
