import Goyang.Model.SessionCached
/-
Property C18: the cached machine (Model/SessionCached.lean) refines the pure one, for every kit
that satisfies three size laws, under the reset discipline (`Policy.sound`).

The invariant (`Coh`, cache coherence): the two machines hold the same registry and options; no
memoised type result carries a stamp beyond the current generation (so after the increment at the
start of a run none is a hit and every type is resolved afresh); and the trees the pure machine
would answer a read from are the trees in the entry cache - unless texts were accepted since that
run, in which case the pure machine declines to answer and the entry cache may hold anything.
Links and identity tables need no clause: the prologue forgets them before the run looks at them.
-/
namespace Goyang.Lemmas.SessionCached
open Goyang.Model.SessionCached

/-- What the refinement needs of a kit. -/
structure Laws (K : Kit) : Prop where
  /-- an accepted text does not shrink the registry -/
  grow : ∀ r src r', K.tryLoad r src = .ok r' → K.size r ≤ K.size r'
  /-- a run does not see more modules than there are -/
  osize_run : ∀ reg opts, K.osize (K.processAll reg opts) ≤ K.size reg
  /-- Find does not change how many modules the run saw -/
  osize_find : ∀ reg o key path, K.osize (K.find reg o key path).2 = K.osize o

/-- Cache coherence. -/
structure Coh {K : Kit} (s : PState K) (c : CState K) : Prop where
  reg : c.reg = s.reg
  opts : c.opts = s.opts
  stamps : ∀ e ∈ c.memo, e.2.1 ≤ c.gen
  trees : ∀ o, s.cache = some o → K.osize o ≤ K.size s.reg ∧ (c.run = some o ∨ K.osize o < K.size s.reg)

theorem sound_eq {P : Policy} (h : P.sound = true) : P = {} := by
  obtain ⟨a, b, c, d, e, f⟩ := P
  cases a <;> cases b <;> cases c <;> cases d <;> cases e <;> cases f <;> first | rfl | cases h

/-- With every stamp below the generation asked for, the memo has no hit. -/
theorem memoHit_none (K : Kit) (memo : List (K.TyKey × Nat × K.TyVal)) (gen : Nat)
    (h : ∀ e ∈ memo, e.2.1 < gen) (k : K.TyKey) : memoHit K memo true gen k = none := by
  unfold memoHit
  cases hf : memo.find? (fun e => K.keyEq e.1 k) with
  | none => rfl
  | some e =>
    obtain ⟨k', g, v⟩ := e
    have hm := List.mem_of_find?_eq_some hf
    have hlt : g < gen := h _ hm
    have : (g == gen) = false := by
      rw [beq_eq_false_iff_ne]; omega
    simp only [Bool.not_true, Bool.false_or, this, Bool.false_eq_true, if_false]

theorem tyFun_fresh (K : Kit) (memo : List (K.TyKey × Nat × K.TyVal)) (gen : Nat)
    (h : ∀ e ∈ memo, e.2.1 < gen) (reg : K.Reg) (L : K.Links) (I : K.Ids) :
    tyFun K memo true gen reg L I = K.resolveTy reg L I := by
  funext k
  unfold tyFun
  rw [memoHit_none K memo gen h k]

/-- The initial states are coherent. -/
theorem coh_init (K : Kit) (reg : K.Reg) (opts : K.Opts) :
    Coh ({ reg := reg, opts := opts } : PState K) ({ reg := reg, opts := opts } : CState K) :=
  ⟨rfl, rfl, (fun _ h => by cases h), (fun _ h => by cases h)⟩

theorem step_load (K : Kit) (hl : Laws K) (s : PState K) (c : CState K) (h : Coh s c) (src : K.Src) :
    Coh (pstep K s (.load src)).1 (cstep K {} c (.load src)).1 ∧
    Agree (pstep K s (.load src)).2 (cstep K {} c (.load src)).2 := by
  have hg := hl.grow s.reg src
  simp only [pstep, cstep, Kit.tryLoad, verdict, h.reg] at hg ⊢
  cases hd : K.loadDirty s.reg src with
  | mk d w =>
    rw [hd] at hg
    cases w with
    | none =>
      have hg' : K.size s.reg ≤ K.size d := hg d rfl
      refine ⟨⟨rfl, h.opts, h.stamps, ?_⟩, rfl⟩
      intro o ho
      have := h.trees o ho
      refine ⟨Nat.le_trans this.1 hg', ?_⟩
      rcases this.2 with h1 | h1
      · exact .inl h1
      · exact .inr (Nat.lt_of_lt_of_le h1 hg')
    | some w =>
      exact ⟨⟨h.reg ▸ rfl, h.opts, h.stamps, h.trees⟩, rfl⟩

theorem step_process (K : Kit) (hl : Laws K) (s : PState K) (c : CState K) (h : Coh s c) :
    Coh (pstep K s .process).1 (cstep K {} c .process).1 ∧
    Agree (pstep K s .process).2 (cstep K {} c .process).2 := by
  have hfresh : ∀ e ∈ c.memo, e.2.1 < c.gen + 1 := fun e he => Nat.lt_succ_of_le (h.stamps e he)
  have hty := tyFun_fresh K c.memo (c.gen + 1) hfresh
  simp only [pstep, cstep, if_true, hty, h.reg, h.opts, Kit.processAll]
  refine ⟨⟨rfl, rfl, ?_, ?_⟩, rfl⟩
  · intro e he
    rcases List.mem_append.mp he with h1 | h1
    · obtain ⟨k, _, rfl⟩ := List.mem_map.mp h1
      exact Nat.le_refl _
    · exact Nat.le_succ_of_le (h.stamps e h1)
  · intro o ho
    cases ho
    exact ⟨hl.osize_run s.reg s.opts, .inl rfl⟩

theorem step_clear (K : Kit) (s : PState K) (c : CState K) (h : Coh s c) :
    Coh (pstep K s .clear).1 (cstep K {} c .clear).1 ∧
    Agree (pstep K s .clear).2 (cstep K {} c .clear).2 :=
  ⟨⟨h.reg, h.opts, h.stamps, fun _ ho => by cases ho⟩, rfl⟩

/-- The state a read of the cached machine leaves is coherent with any pure state whose answer
does not depend on the entry cache. -/
theorem read_keeps (K : Kit) (s : PState K) (c : CState K) (h : Coh s c) (key : K.Key) (path : K.Path)
    (hs : ∀ o, s.cache = some o → K.osize o < K.size s.reg ∨ (c.run = some o ∧ K.hasTree s.reg o key = false)) :
    Coh s (cstep K {} c (.read key path)).1 ∧
    (K.hasModule s.reg key = true → ∃ a, (cstep K {} c (.read key path)).2 = .found a) := by
  simp only [cstep]
  by_cases hm : K.hasModule c.reg key = true
  · simp only [hm, Bool.not_true, Bool.false_eq_true, if_false]
    split
    · rename_i o hhit
      refine ⟨⟨h.reg, h.opts, h.stamps, ?_⟩, fun _ => ⟨_, rfl⟩⟩
      intro o2 ho2
      refine ⟨(h.trees o2 ho2).1, ?_⟩
      rcases hs o2 ho2 with h1 | ⟨h1, h2⟩
      · exact .inr h1
      · -- the entry cache holds o2, which has no tree of the key: no hit
        simp only [h1, h.reg, h2, Bool.false_eq_true, if_false] at hhit
        cases hhit
    · refine ⟨⟨h.reg, h.opts, ?_, h.trees⟩, fun _ => ⟨_, rfl⟩⟩
      intro e he
      rcases List.mem_append.mp he with h1 | h1
      · obtain ⟨k, _, rfl⟩ := List.mem_map.mp h1
        exact Nat.le_refl _
      · exact h.stamps e h1
  · have hm' : K.hasModule c.reg key = false := Bool.eq_false_iff.mpr hm
    simp only [hm', Bool.not_false, if_true]
    exact ⟨h, fun h1 => by rw [h.reg] at hm'; rw [hm'] at h1; cases h1⟩

theorem step_read (K : Kit) (hl : Laws K) (s : PState K) (c : CState K) (h : Coh s c) (key : K.Key) (path : K.Path) :
    Coh (pstep K s (.read key path)).1 (cstep K {} c (.read key path)).1 ∧
    Agree (pstep K s (.read key path)).2 (cstep K {} c (.read key path)).2 := by
  by_cases hm : K.hasModule s.reg key = true
  · cases hc : s.cache with
    | none =>
      have hk := read_keeps K s c h key path (fun o ho => by rw [hc] at ho; cases ho)
      obtain ⟨a, ha⟩ := hk.2 hm
      simp only [pstep, hm, hc, Bool.not_true, Bool.false_eq_true, if_false]
      exact ⟨hk.1, by rw [ha]; trivial⟩
    | some o =>
      have ht := h.trees o hc
      by_cases hsz : K.osize o = K.size s.reg
      · by_cases htr : K.hasTree s.reg o key = true
        · -- answered by both from the same trees
          have hrun : c.run = some o := by
            rcases ht.2 with h1 | h1
            · exact h1
            · omega
          have hne : (K.osize o != K.size s.reg) = false := by rw [hsz]; exact bne_self_eq_false _
          simp only [pstep, cstep, hm, hc, hne, htr, h.reg, hrun, Bool.not_true, Bool.false_eq_true, if_false, if_true]
          refine ⟨⟨rfl, h.opts, h.stamps, ?_⟩, rfl⟩
          intro o2 ho2
          cases ho2
          rw [hl.osize_find]
          exact ⟨ht.1, .inl rfl⟩
        · have htr' : K.hasTree s.reg o key = false := Bool.eq_false_iff.mpr htr
          have hrun : c.run = some o := by
            rcases ht.2 with h1 | h1
            · exact h1
            · omega
          have hk := read_keeps K s c h key path (fun o2 ho2 => by
            rw [hc] at ho2; cases ho2; exact .inr ⟨hrun, htr'⟩)
          obtain ⟨a, ha⟩ := hk.2 hm
          have hne : (K.osize o != K.size s.reg) = false := by rw [hsz]; exact bne_self_eq_false _
          simp only [pstep, hm, hc, hne, htr', Bool.not_true, Bool.not_false, Bool.false_eq_true, if_false, if_true]
          exact ⟨hk.1, by rw [ha]; trivial⟩
      · have hlt : K.osize o < K.size s.reg := by have := ht.1; omega
        have hk := read_keeps K s c h key path (fun o2 ho2 => by
          rw [hc] at ho2; cases ho2; exact .inl hlt)
        obtain ⟨a, ha⟩ := hk.2 hm
        have hne : (K.osize o != K.size s.reg) = true := by
          rw [bne_iff_ne]; exact hsz
        simp only [pstep, hm, hc, hne, Bool.not_true, Bool.false_eq_true, if_false, if_true]
        exact ⟨hk.1, by rw [ha]; trivial⟩
  · have hm' : K.hasModule s.reg key = false := Bool.eq_false_iff.mpr hm
    simp only [pstep, cstep, hm', h.reg, Bool.not_false, if_true]
    exact ⟨h, rfl⟩

/-- One step: coherence is kept and the answers agree. -/
theorem step_refines (K : Kit) (hl : Laws K) (P : Policy) (hP : P.sound = true) (s : PState K) (c : CState K)
    (h : Coh s c) (op : Op K) :
    Coh (pstep K s op).1 (cstep K P c op).1 ∧ Agree (pstep K s op).2 (cstep K P c op).2 := by
  rw [sound_eq hP]
  cases op with
  | load src => exact step_load K hl s c h src
  | process => exact step_process K hl s c h
  | read key path => exact step_read K hl s c h key path
  | clear => exact step_clear K s c h

theorem prunFrom_cons (K : Kit) (s : PState K) (op : Op K) (ops : List (Op K)) :
    prunFrom K s (op :: ops) =
      ((prunFrom K (pstep K s op).1 ops).1, (pstep K s op).2 :: (prunFrom K (pstep K s op).1 ops).2) := rfl

theorem crunFrom_cons (K : Kit) (P : Policy) (c : CState K) (op : Op K) (ops : List (Op K)) :
    crunFrom K P c (op :: ops) =
      ((crunFrom K P (cstep K P c op).1 ops).1, (cstep K P c op).2 :: (crunFrom K P (cstep K P c op).1 ops).2) := rfl

/-- Every history: the answers agree one by one and the final states are coherent. -/
theorem run_refines (K : Kit) (hl : Laws K) (P : Policy) (hP : P.sound = true) (h : List (Op K)) (s : PState K) (c : CState K)
    (hc : Coh s c) :
    Coh (prunFrom K s h).1 (crunFrom K P c h).1 ∧ AgreeAll (prunFrom K s h).2 (crunFrom K P c h).2 := by
  induction h generalizing s c with
  | nil => exact ⟨hc, trivial⟩
  | cons op ops ih =>
    have h1 := step_refines K hl P hP s c hc op
    have h2 := ih _ _ h1.1
    rw [prunFrom_cons, crunFrom_cons]
    exact ⟨h2.1, h1.2, h2.2⟩

/-- Where the pure machine answers, the cached machine answers the same. -/
theorem agree_eq {K : Kit} {p c : Out K} (h : Agree p c) (hp : ∀ _ : p = .unprocessed, False) : p = c := by
  cases p <;> first | exact h | exact absurd rfl (fun e => hp e)

theorem agreeAll_length {K : Kit} : ∀ {ps cs : List (Out K)}, AgreeAll ps cs → ps.length = cs.length
  | [], [], _ => rfl
  | [], _ :: _, h => h.elim
  | _ :: _, [], h => h.elim
  | _ :: ps, _ :: cs, h => by rw [List.length_cons, List.length_cons, agreeAll_length (ps := ps) (cs := cs) h.2]

/-- Position by position: an answer of the pure machine other than `unprocessed` is the answer of
the cached machine. -/
theorem agreeAll_getElem? {K : Kit} : ∀ {ps cs : List (Out K)}, AgreeAll ps cs → ∀ (i : Nat) (p : Out K),
    ps[i]? = some p → (∀ _ : p = .unprocessed, False) → cs[i]? = some p
  | [], _, _, i, p, hp, _ => by simp at hp
  | _ :: _, [], h, _, _, _, _ => h.elim
  | q :: ps, c :: cs, h, 0, p, hp, hne => by
    simp only [List.getElem?_cons_zero, Option.some.injEq] at hp ⊢
    subst hp
    exact (agree_eq h.1 hne).symm
  | _ :: ps, _ :: cs, h, i + 1, p, hp, hne => by
    simp only [List.getElem?_cons_succ] at hp ⊢
    exact agreeAll_getElem? h.2 i p hp hne

/-- A refused load leaves the WHOLE state of the cached machine - entry cache, links, identity
tables, generation, memo - as it was. -/
theorem cstep_rejected_state (K : Kit) (c : CState K) (src : K.Src) (w : K.Rej)
    (h : (cstep K {} c (.load src)).2 = .rejected w) : (cstep K {} c (.load src)).1 = c := by
  simp only [cstep] at h ⊢
  cases hd : K.loadDirty c.reg src with
  | mk d w' =>
    rw [hd] at h
    cases w' with
    | none => cases h
    | some w' => rfl

/-! ### histories of the cached machine -/

theorem crunFrom_append (K : Kit) (P : Policy) (c : CState K) (h₁ h₂ : List (Op K)) :
    crunFrom K P c (h₁ ++ h₂) =
      ((crunFrom K P (crunFrom K P c h₁).1 h₂).1, (crunFrom K P c h₁).2 ++ (crunFrom K P (crunFrom K P c h₁).1 h₂).2) := by
  induction h₁ generalizing c with
  | nil => rfl
  | cons op ops ih => simp only [List.cons_append, crunFrom_cons, ih]

theorem crunFrom_length (K : Kit) (P : Policy) (c : CState K) (h : List (Op K)) : (crunFrom K P c h).2.length = h.length := by
  induction h generalizing c with
  | nil => rfl
  | cons op ops ih => simp only [crunFrom_cons, List.length_cons, ih]

/-- A load anywhere in a history of the cached machine that is answered `rejected`: cutting it out
changes no other answer - also not of reads outside the contract, which show hidden state - and not
the final state, hidden state included. -/
theorem crun_failed_load_no_trace (K : Kit) (c : CState K) (pre post : List (Op K)) (src : K.Src) (w : K.Rej)
    (h : (crunFrom K {} c (pre ++ .load src :: post)).2[pre.length]? = some (.rejected w)) :
    (crunFrom K {} c (pre ++ .load src :: post)).1 = (crunFrom K {} c (pre ++ post)).1 ∧
    (crunFrom K {} c (pre ++ .load src :: post)).2.eraseIdx pre.length = (crunFrom K {} c (pre ++ post)).2 := by
  have hl : (crunFrom K {} c pre).2.length = pre.length := crunFrom_length K {} c pre
  rw [crunFrom_append, crunFrom_cons] at h
  simp only [List.getElem?_append_right (Nat.le_of_eq hl), hl, Nat.sub_self, List.getElem?_cons_zero,
    Option.some.injEq] at h
  have hs := cstep_rejected_state K (crunFrom K {} c pre).1 src w h
  constructor
  · rw [crunFrom_append, crunFrom_cons, crunFrom_append, hs]
  · rw [crunFrom_append, crunFrom_cons, crunFrom_append, hs]
    simp only [List.eraseIdx_append_of_length_le (Nat.le_of_eq hl), hl, Nat.sub_self, List.eraseIdx_cons_zero]

/-! ### reads -/

theorem agree_kind {K : Kit} {p c : Out K} (h : Agree p c) : c.isReadOut = p.isReadOut := by
  cases p <;> cases c <;> first | rfl | exact h.elim | cases h

theorem agree_nonread {K : Kit} {p c : Out K} (h : Agree p c) (hp : p.isReadOut = false) : c = p := by
  cases p <;> first | exact h.symm | cases hp

/-- Agreeing answer lists have the same answers to everything that is not a read. -/
theorem agreeAll_filter {K : Kit} : ∀ {ps cs : List (Out K)}, AgreeAll ps cs →
    cs.filter (fun o => !o.isReadOut) = ps.filter (fun o => !o.isReadOut)
  | [], [], _ => rfl
  | [], _ :: _, h => h.elim
  | _ :: _, [], h => h.elim
  | p :: ps, c :: cs, h => by
    have ih := agreeAll_filter (ps := ps) (cs := cs) h.2
    have hk := agree_kind h.1
    cases hp : p.isReadOut with
    | true => simp only [List.filter_cons, hk, hp, Bool.not_true, Bool.false_eq_true, if_false, ih]
    | false =>
      have := agree_nonread h.1 hp
      subst this
      simp only [List.filter_cons, hp, Bool.not_false, if_true, ih]

/-- The cached machine answers a read with a read answer, anything else not. -/
theorem cstep_out_kind (K : Kit) (P : Policy) (c : CState K) (op : Op K) : (cstep K P c op).2.isReadOut = op.isRead := by
  cases op with
  | load src =>
    simp only [cstep]
    cases hd : K.loadDirty c.reg src with
    | mk d w => cases w <;> rfl
  | process => rfl
  | read key path =>
    simp only [cstep]
    split
    · rfl
    · split <;> rfl
  | clear => rfl

theorem crun_no_reads (K : Kit) (P : Policy) (h : List (Op K)) (hr : ∀ op ∈ h, op.isRead = false) (c : CState K) :
    (crunFrom K P c h).2.filter (fun o => !o.isReadOut) = (crunFrom K P c h).2 := by
  induction h generalizing c with
  | nil => rfl
  | cons op ops ih =>
    have h1 : (cstep K P c op).2.isReadOut = false := by rw [cstep_out_kind, hr op (List.mem_cons_self ..)]
    rw [crunFrom_cons]
    simp only [List.filter_cons, h1, Bool.not_false, if_true]
    rw [ih (fun op' h' => hr op' (List.mem_cons_of_mem _ h'))]

end Goyang.Lemmas.SessionCached
