import Goyang.Lemmas.Session
import Goyang.Lemmas.SessionCached
/-
Property C18: the kit of the real resolver model (`realKit plug`), for which the pure machine of
Model/SessionCached.lean IS `Goyang.Model.Session` (`pstep_real`), and its three size laws.

What the real kit stores: the link phase (`linkAll reg`: the visited set and the link errors - the
frozen `processAll` is re-stated with that phase as a parameter, `processAllL`, `rfl`-checked), the
results of the identity and typedef passes of `plug reg`, and - per type statement (keyed by the
identity of its AST node, `nodeId`: module and position, as Go keeps the memo IN the node), stamped
with the generation - what `(plug reg).tres.resolve` answered for it; the conversion is handed a
`TypeRes` that looks into that memo first.
What Go converts on the fly outside the contract (`earlyRead`) has no model: a dummy answer, which the
pure machine never compares (it answers `unprocessed`).
-/
namespace Goyang.Lemmas.SessionCachedReal
open Goyang.Model Goyang.Model.Session Goyang.Model.SessionCached Goyang.Lemmas.SessionCached

/-- `processAll` with the result of the link phase as a parameter (copy of Model/Process.lean). -/
def processAllL (L : List Nat × List Err) (reg : Registry) (opts : Opts) (plug : Plug) : Outcome :=
  -- process(): linking, identities, typedefs
  let (linked, lerrs) := L
  let errs := lerrs ++ plug.identityErrs reg ++ plug.typedefErrs reg
  if !errs.isEmpty then { errors := canonErrs errs, forest := {}, reg := reg } else
  let env : Env := { reg := reg, opts := opts, tres := plug.tres, linked := linked }
  let fuel := entryFuel reg
  let mods := reg.distinctModules
  let subs := reg.distinctSubs
  -- ToEntry of every module, then every submodule (the cache makes the order matter only through
  -- the merged-submodule bookkeeping)
  -- in key order of the two maps (a module bound under two keys is converted once: the cache)
  let convOrder : List Mod :=
    let keys (km : KeyMap) := (sortBy (fun (a b : String × Nat) => a.1 < b.1) km).filterMap fun kv => reg.byId kv.2
    keys reg.modules ++ keys reg.subModules
  let st : TState := convOrder.foldl (fun st m => (toEntry env fuel m [] m.stmt [] st).2) {}
  let forest : Forest := { trees := st.cache }
  let errs := (forest.trees.map fun (_, e) => e.allErrors).flatten
  if !errs.isEmpty then { errors := canonErrs errs, forest := forest, reg := reg } else
  -- pending augments of every tree: ToEntry of each augment statement, parent = the module entry
  let pending := (mods ++ subs).map fun m => (m.seq, ((st.augs.find? (·.1 == m.seq)).map (·.2)).getD [])
  let s : PState := { forest := forest, pending := pending }
  -- the loop visits every key of both maps, in (full name, kind) order
  let keyed : List Mod := (reg.modules ++ reg.subModules).filterMap fun kv => reg.byId kv.2
  let order := sortBy (fun (a b : Mod) =>
      if a.fullName != b.fullName then a.fullName < b.fullName else !a.isSub && b.isSub) keyed
  let total := pending.foldl (fun n p => n + p.2.length) 0
  let s := augmentPhase reg (order.map (·.seq)) (total + 2) s
  let errs := (s.forest.trees.map fun (_, e) => e.allErrors).flatten
  -- deviations, once per module name, keys in sorted order (modules, then submodules)
  let devOrder : List Mod :=
    let keys (km : KeyMap) := (sortBy (fun (a b : String × Nat) => a.1 < b.1) km).filterMap fun kv => reg.byId kv.2
    keys reg.modules ++ keys reg.subModules
  let (forest, derrs, _) := devOrder.foldl (fun (acc : Forest × List Err × List String) m =>
    let (f, errs, done) := acc
    if done.contains m.name then acc else
    let devs := (m.stmt.all "deviation").map fun dv =>
      (dv, (dv.all "deviate").filterMap fun ds =>
        if deviateKinds.contains ds.arg then some (ds.arg, (toEntry env fuel m [dv, m.stmt] ds [] {}).1) else none)
    let (f, es) := applyDeviations reg opts m devs f
    (f, errs ++ es, done ++ [m.name])) (s.forest, [], [])
  { errors := canonErrs (errs ++ derrs), forest := forest, reg := reg }

attribute [local irreducible] leftoverRounds in
theorem processAll_eq_L (reg : Registry) (opts : Opts) (plug : Plug) :
    processAll reg opts plug = processAllL (linkAll reg) reg opts plug := rfl

/-! ### the adds of one text -/

/-- The adds of the statements of a text in order; stops at the first refusal with the tables as
they are then (Go: the loop over `nodes` in `Modules.Parse`). -/
def dirtyFold (r : Registry) : List Stmt → Registry × Option Reject
  | [] => (r, none)
  | s :: ss =>
    match addTop r s with
    | .ok r' => dirtyFold r' ss
    | .error w => (r, some w)

/-- A raw text: the front end of the model answers for the whole text (its adds are not visible
one by one: a refused text shows the tables as they were). -/
def dirtyOfText (reg : Registry) : Registry × LoadResult → Registry × Option Reject
  | (r, .accepted) => (r, none)
  | (_, res) => (reg, some (.text res))

def dirty (reg : Registry) : Src → Registry × Option Reject
  | .stmts f buildOk => if !buildOk then (reg, some .build) else dirtyFold reg f.stmts
  | .text name text => dirtyOfText reg (loadText reg name text)

/-- The `type` statements at and below `s`, each with its ancestors (nearest first). -/
def typeStmts : Nat → List Stmt → Stmt → List (List Stmt × Stmt)
  | 0, _, _ => []
  | fuel + 1, anc, s =>
    (if s.kw == "type" then [(anc, s)] else []) ++ (s.subs.map (typeStmts fuel (s :: anc))).flatten

/-- The arguments `TypeRes.resolve` is called with: registry, root module, ancestors, statement. -/
abbrev TyArgs := Registry × Mod × List Stmt × Stmt

def typeArgsOf (reg : Registry) (m : Mod) : List TyArgs :=
  (typeStmts (stmtCount m.stmt + 1) [] m.stmt).map fun p => (reg, m, p.1, p.2)

@[reducible] def realKit (plug : Registry → Plug) : Kit where
  Reg := Registry
  Opts := Opts
  Src := Src
  Rej := Reject
  Outc := Outcome
  Key := String
  Path := String
  Ans := Option Loc
  Links := List Nat × List Err
  Ids := (Registry → List Err) × (Registry → List Err)
  TyKey := TyArgs
  TyVal := Option TypeInfo × List Err
  Early := Unit
  -- Go keeps the memo in the AST node of the type statement: the node's identity (Entry.lean `nodeId`)
  keyEq := fun a b => nodeId a.2.1 a.2.2.2 == nodeId b.2.1 b.2.2.2
  loadDirty := dirty
  hasModule := fun reg key => (reg.getModule key).isSome
  size := fun reg => reg.mods.length
  link := linkAll
  linksNone := ([], [])
  idents := fun reg _ => ((plug reg).identityErrs, (plug reg).typedefErrs)
  idsNone := (fun _ => [], fun _ => [])
  resolveTy := fun reg _ _ k => (plug reg).tres.resolve k.1 k.2.1 k.2.2.1 k.2.2.2
  -- every type statement of every loaded module (Go: those the conversions reach)
  touched := fun reg => (reg.mods.map (typeArgsOf reg)).flatten
  touchedEarly := fun reg key =>
    match reg.getModule key with
    | some m => typeArgsOf reg m
    | none => []
  build := fun reg opts L I ty =>
    processAllL L reg opts { tres := ⟨fun r m anc t => ty (r, m, anc, t)⟩, identityErrs := I.1, typedefErrs := I.2 }
  osize := fun o => o.reg.mods.length
  hasTree := fun reg o key =>
    match reg.getModule key with
    | some m => (o.forest.tree? m.seq).isSome
    | none => false
  find := fun reg o key path =>
    match reg.getModule key with
    | some m =>
      let (loc, forest) := Goyang.Model.find reg o.forest (m.seq, []) m.seq path
      (loc, { o with forest := forest })
    | none => (none, o)
  earlyRead := fun _ _ _ _ _ _ _ _ => (none, ())

/-- A run from nothing of the real kit is `processAll reg opts (plug reg)`. -/
theorem processAll_real (plug : Registry → Plug) (reg : Registry) (opts : Opts) :
    (realKit plug).processAll reg opts = processAll reg opts (plug reg) := by
  rw [processAll_eq_L]
  rfl

theorem dirtyFold_tryLoad (stmts : List Stmt) (r : Registry) :
    verdict (dirtyFold r stmts) = stmts.foldlM addTop r := by
  induction stmts generalizing r with
  | nil => rfl
  | cons s ss ih =>
    rw [List.foldlM_cons]
    unfold dirtyFold
    cases hs : addTop r s with
    | ok r' => simp only [bind, Except.bind]; exact ih r'
    | error e => rfl

theorem withKm_mods (r : Registry) (b : Bool) (km : KeyMap) : (r.withKm b km).mods = r.mods := by
  cases b <;> rfl
theorem withUm_mods (r : Registry) (b : Bool) (um : KeyMap) : (r.withUm b um).mods = r.mods := by
  cases b <;> rfl

theorem addChecked_len {r r' : Registry} {s : Stmt} (h : r.addChecked s = .ok r') :
    r'.mods.length = r.mods.length + 1 := by
  unfold Registry.addChecked at h
  simp only [] at h
  split at h
  · split at h
    · cases h
    · cases h
      simp only [withKm_mods, withUm_mods, List.length_append, List.length_cons, List.length_nil]
  · split at h
    · cases h
    · cases h
      simp only [withKm_mods, List.length_append, List.length_cons, List.length_nil]

theorem add_len {r r' : Registry} {s : Stmt} (h : r.add s = .ok r') : r.mods.length ≤ r'.mods.length := by
  have := addChecked_len (Registry.add_ok h).2
  omega

theorem foldlM_add_len (stmts : List Stmt) (r r' : Registry) (h : stmts.foldlM (fun r s => r.add s) r = .ok r') :
    r.mods.length ≤ r'.mods.length := by
  induction stmts generalizing r with
  | nil => rw [List.foldlM_nil] at h; cases h; exact Nat.le_refl _
  | cons s ss ih =>
    rw [List.foldlM_cons] at h
    cases hs : r.add s with
    | error e => rw [hs] at h; simp only [bind, Except.bind] at h; cases h
    | ok r1 =>
      rw [hs] at h
      exact Nat.le_trans (add_len hs) (ih r1 h)

theorem loadText_len (reg : Registry) (name text : List UInt8) :
    reg.mods.length ≤ (loadText reg name text).1.mods.length := by
  unfold loadText
  repeat' split
  all_goals first
    | exact Nat.le_refl _
    | (rename_i h; exact foldlM_add_len _ _ _ h)

attribute [local irreducible] Goyang.Model.loadText

/-- `Modules.Parse` of the real kit is `tryLoadSrc`. -/
theorem tryLoad_real (plug : Registry → Plug) (reg : Registry) (src : Src) :
    (realKit plug).tryLoad reg src = tryLoadSrc reg src := by
  cases src with
  | stmts f ok =>
    cases ok with
    | false => rfl
    | true => exact dirtyFold_tryLoad f.stmts reg
  | text name text =>
    show verdict (dirtyOfText reg (loadText reg name text)) = ofLoadText (loadText reg name text)
    generalize loadText reg name text = p
    obtain ⟨r, res⟩ := p
    cases res <;> rfl

/-! ### the pure machine of the real kit is the session machine -/

def toP (plug : Registry → Plug) (s : Session) : PState (realKit plug) := { reg := s.reg, opts := s.opts, cache := s.cache }

def embOp (plug : Registry → Plug) : Goyang.Model.Op → SessionCached.Op (realKit plug)
  | .load src => .load src
  | .process => .process
  | .read key path => .read key path

def embOut (plug : Registry → Plug) : Goyang.Model.Out → SessionCached.Out (realKit plug)
  | .accepted => .accepted
  | .rejected w => .rejected w
  | .processed o => .processed o
  | .found loc => .found loc
  | .noModule => .noModule
  | .unprocessed => .unprocessed

theorem pstep_real (plug : Registry → Plug) (s : Session) (op : Goyang.Model.Op) :
    pstep (realKit plug) (toP plug s) (embOp plug op) =
      (toP plug (Session.step plug s op).1, embOut plug (Session.step plug s op).2) := by
  cases op with
  | load src =>
    simp only [pstep, embOp, toP, Session.step, tryLoad_real]
    cases tryLoadSrc s.reg src <;> rfl
  | process =>
    simp only [pstep, embOp, toP, Session.step, processAll_real]
    rfl
  | read key path =>
    cases hm : s.reg.getModule key with
    | none => simp only [pstep, embOp, toP, Session.step, hm, Option.isSome_none, Bool.not_false, if_true]; rfl
    | some m =>
      cases hc : s.cache with
      | none =>
        simp only [pstep, embOp, toP, Session.step, hm, hc, Option.isSome_some, Bool.not_true, Bool.false_eq_true, if_false]
        rfl
      | some o =>
        by_cases hlen : (o.reg.mods.length != s.reg.mods.length) = true
        · simp only [pstep, embOp, toP, Session.step, hm, hc, hlen, Option.isSome_some, Bool.not_true, Bool.false_eq_true,
            if_false, if_true]
          rfl
        · cases ht : o.forest.tree? m.seq with
          | none =>
            simp only [pstep, embOp, toP, Session.step, hm, hc, hlen, ht, Option.isSome_some, Option.isSome_none, Bool.not_true,
              Bool.not_false, Bool.false_eq_true, if_false, if_true]
            rfl
          | some t =>
            simp only [pstep, embOp, toP, Session.step, hm, hc, hlen, ht, Option.isSome_some, Bool.not_true,
              Bool.false_eq_true, if_false]
            rfl

theorem prun_real (plug : Registry → Plug) (h : List Goyang.Model.Op) (s : Session) :
    prunFrom (realKit plug) (toP plug s) (h.map (embOp plug)) =
      (toP plug (Session.runFrom plug s h).1, (Session.runFrom plug s h).2.map (embOut plug)) := by
  induction h generalizing s with
  | nil => rfl
  | cons op ops ih =>
    rw [List.map_cons, prunFrom_cons, pstep_real, ih, Goyang.Lemmas.Session.runFrom_cons]
    rfl

theorem embOp_isRead (plug : Registry → Plug) (op : Goyang.Model.Op) : (embOp plug op).isRead = op.isRead := by
  cases op <;> rfl

theorem embOut_isReadOut (plug : Registry → Plug) (o : Goyang.Model.Out) : (embOut plug o).isReadOut = o.isReadOut := by
  cases o <;> rfl

theorem filter_map_embOut (plug : Registry → Plug) (l : List Goyang.Model.Out) :
    (l.map (embOut plug)).filter (fun o => !o.isReadOut) = (l.filter (fun o => !o.isReadOut)).map (embOut plug) := by
  induction l with
  | nil => rfl
  | cons o os ih =>
    simp only [List.map_cons, List.filter_cons, embOut_isReadOut, ih]
    split <;> rfl

/-! ### the laws -/

theorem tryLoadSrc_len (reg r' : Registry) (src : Src) (h : tryLoadSrc reg src = .ok r') :
    reg.mods.length ≤ r'.mods.length := by
  cases src with
  | stmts f ok =>
    cases ok with
    | false => cases h
    | true => exact foldlM_add_len _ _ _ (foldlM_addTop_ok f.stmts reg r' h)
  | text name text =>
    have hl := loadText_len reg name text
    simp only [tryLoadSrc] at h
    generalize loadText reg name text = p at h hl
    obtain ⟨r, res⟩ := p
    cases res <;> first | (cases h; exact hl) | cases h

theorem processAllL_reg (L : List Nat × List Err) (reg : Registry) (opts : Opts) (plug : Plug) :
    (processAllL L reg opts plug).reg = reg := by
  unfold processAllL
  simp only []
  split
  · rfl
  · split <;> rfl

theorem laws_real (plug : Registry → Plug) : Laws (realKit plug) where
  grow := fun r src r' h => tryLoadSrc_len r r' src ((tryLoad_real plug r src).symm.trans h)
  osize_run := fun reg opts => Nat.le_of_eq
    ((congrArg (fun o : Outcome => o.reg.mods.length) (processAll_real plug reg opts)).trans
      (by rw [processAll_eq_L, processAllL_reg]))
  osize_find := fun reg o key path => by
    show (match reg.getModule key with
      | some m => ((Goyang.Model.find reg o.forest (m.seq, []) m.seq path).1,
          ({ o with forest := (Goyang.Model.find reg o.forest (m.seq, []) m.seq path).2 } : Outcome))
      | none => (none, o)).2.reg.mods.length = o.reg.mods.length
    cases reg.getModule key <;> rfl

end Goyang.Lemmas.SessionCachedReal
