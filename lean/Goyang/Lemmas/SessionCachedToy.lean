import Goyang.Lemmas.SessionCached
/-
Property C18: a small kit on which the machines of Model/SessionCached.lean run in the kernel
(`decide`), used by Props/C18Cached.lean to show that the refinement theorem is not vacuous and that
every reset it assumes is needed; and decidability of answer-by-answer agreement.

The toy resolver: a registry is the list of loaded module numbers; a text is a list of module
numbers, refused at the first one that is already loaded (the tables then hold the earlier ones of
the text: the shape of D32); the link table of a registry is the sum of its modules; module `n` has
one type statement `n`, which resolves to `links + identities + n` - so every result depends on the
whole registry, as in goyang (imports, augments); a run answers (sum of the resolved types + links,
number of modules).
-/
namespace Goyang.Lemmas.SessionCachedToy
open Goyang.Model.SessionCached Goyang.Lemmas.SessionCached

def toyDirty (r : List Nat) : List Nat → List Nat × Option Nat
  | [] => (r, none)
  | n :: ns => if r.contains n then (r, some n) else toyDirty (r ++ [n]) ns

@[reducible] def toy : Kit where
  Reg := List Nat
  Opts := Unit
  Src := List Nat
  Rej := Nat
  Outc := Nat × Nat
  Key := Nat
  Path := Nat
  Ans := Nat
  Links := Nat
  Ids := Nat
  TyKey := Nat
  TyVal := Nat
  Early := Unit
  keyEq := fun a b => a == b
  loadDirty := toyDirty
  hasModule := fun reg key => reg.contains key
  size := fun reg => reg.length
  link := fun reg => reg.sum
  linksNone := 0
  idents := fun reg L => 10 * reg.length + L
  idsNone := 0
  resolveTy := fun _ L I k => L + I + k
  touched := fun reg => reg
  touchedEarly := fun _ key => [key]
  build := fun reg _ L _ ty => ((reg.map ty).sum + L, reg.length)
  osize := fun o => o.2
  hasTree := fun _ o key => decide (key ≤ o.2)
  find := fun _ o key path => (o.1 + key + path, o)
  earlyRead := fun _ _ _ _ ty _ key _ => (ty key, ())

theorem toyDirty_len (src r : List Nat) : r.length ≤ (toyDirty r src).1.length := by
  induction src generalizing r with
  | nil => exact Nat.le_refl _
  | cons n ns ih =>
    unfold toyDirty
    split
    · exact Nat.le_refl _
    · have := ih (r ++ [n])
      rw [List.length_append] at this
      omega

theorem toy_laws : Laws toy where
  grow := fun r src r' h => by
    have hl := toyDirty_len src r
    have h' : verdict (toyDirty r src) = .ok r' := h
    unfold verdict at h'
    split at h'
    · cases h'; exact hl
    · cases h'
  osize_run := fun _ _ => Nat.le_refl _
  osize_find := fun _ _ _ _ => rfl

/-! ### deciding agreement -/

instance decEqOut {K : Kit} [DecidableEq K.Rej] [DecidableEq K.Outc] [DecidableEq K.Ans] : DecidableEq (Out K) := by
  intro a b
  cases a <;> cases b <;> first
    | exact isTrue rfl
    | (rename_i x y; exact if h : x = y then isTrue (h ▸ rfl) else isFalse (fun e => by cases e; exact h rfl))
    | exact isFalse (fun h => by cases h)

instance decAgree {K : Kit} [DecidableEq K.Rej] [DecidableEq K.Outc] [DecidableEq K.Ans] (p c : Out K) :
    Decidable (Agree p c) := by
  cases p <;> cases c <;> unfold Agree <;> infer_instance

instance decAgreeAll {K : Kit} [DecidableEq K.Rej] [DecidableEq K.Outc] [DecidableEq K.Ans] :
    (ps cs : List (Out K)) → Decidable (AgreeAll ps cs)
  | [], [] => isTrue trivial
  | [], _ :: _ => isFalse (fun h => h)
  | _ :: _, [] => isFalse (fun h => h)
  | p :: ps, c :: cs =>
    match decAgree p c, decAgreeAll ps cs with
    | isTrue h1, isTrue h2 => isTrue ⟨h1, h2⟩
    | isFalse h1, _ => isFalse (fun h => h1 h.1)
    | _, isFalse h2 => isFalse (fun h => h2 h.2)

/-- The answers of the two machines to a history on a fresh value. -/
def pureAns (h : List (Op toy)) : List (Out toy) := (prunFrom toy { reg := [], opts := () } h).2
def cachedAns (P : Policy) (h : List (Op toy)) : List (Out toy) := (crunFrom toy P { reg := [], opts := () } h).2

end Goyang.Lemmas.SessionCachedToy
