import Goyang.Model.Process
/-
`sortBy lt` (Model/Process.lean, the insertion sort every canonical order of the model is
computed with) returns the same list for every permutation of its input, provided `lt` is
irreflexive and transitive and any two *different elements of the list* are comparable.
This is the abstract form of "sort the keys of a map, then walk them": the walk does not depend
on the order in which the map handed out its keys.  Core Lean only.
-/
namespace Goyang.Lemmas.SortUnique
open Goyang.Model

variable {α : Type} (lt : α → α → Bool)

theorem insertBy_perm (x : α) (l : List α) : (insertBy lt x l).Perm (x :: l) := by
  induction l with
  | nil => exact List.Perm.refl _
  | cons y ys ih =>
    unfold insertBy
    split
    · exact List.Perm.refl _
    · exact (List.Perm.cons y ih).trans (List.Perm.swap x y ys)

theorem sortBy_perm (l : List α) : (sortBy lt l).Perm l := by
  induction l with
  | nil => exact List.Perm.refl _
  | cons x t ih => exact (insertBy_perm lt x (sortBy lt t)).trans (List.Perm.cons x ih)

/-- Weakly sorted: no later element is `lt` an earlier one. -/
abbrev WSorted (l : List α) : Prop := l.Pairwise fun a b => lt b a = false

section
variable (irr : ∀ a, lt a a = false) (tr : ∀ a b c, lt a b = true → lt b c = true → lt a c = true)
include irr tr

theorem lt_asymm {a b : α} (h : lt a b = true) : lt b a = false := by
  cases h' : lt b a with
  | false => rfl
  | true => have := tr _ _ _ h h'; rw [irr] at this; exact absurd this (by simp)

/-- Inserting into a weakly sorted list keeps it weakly sorted, when the new element is
comparable with every different element of the list. -/
theorem insertBy_sorted (x : α) {l : List α} (tot : ∀ y ∈ l, x ≠ y → lt x y = true ∨ lt y x = true)
    (h : WSorted lt l) : WSorted lt (insertBy lt x l) := by
  induction l with
  | nil => exact List.pairwise_singleton _ _
  | cons y ys ih =>
    have h' := List.pairwise_cons.mp h
    unfold insertBy
    split
    · rename_i hxy
      refine List.pairwise_cons.mpr ⟨?_, h⟩
      intro z hz
      rcases List.mem_cons.mp hz with rfl | hz
      · exact lt_asymm lt irr tr hxy
      · -- x < y ≤ z
        cases hzx : lt z x with
        | false => rfl
        | true =>
          have := tr _ _ _ hzx hxy
          rw [h'.1 z hz] at this; exact absurd this (by simp)
    · rename_i hxy
      refine List.pairwise_cons.mpr ⟨?_, ih (fun z hz => tot z (List.mem_cons_of_mem _ hz)) h'.2⟩
      intro z hz
      rcases List.mem_cons.mp ((insertBy_perm lt x ys).mem_iff.mp hz) with rfl | hz
      · simpa using hxy
      · exact h'.1 z hz

theorem sortBy_sorted (l : List α) (tot : ∀ a ∈ l, ∀ b ∈ l, a ≠ b → lt a b = true ∨ lt b a = true) :
    WSorted lt (sortBy lt l) := by
  induction l with
  | nil => exact List.Pairwise.nil
  | cons x t ih =>
    refine insertBy_sorted lt irr tr x ?_ (ih fun a ha b hb => tot a (List.mem_cons_of_mem _ ha) b (List.mem_cons_of_mem _ hb))
    intro y hy
    exact tot x (List.mem_cons_self ..) y (List.mem_cons_of_mem _ ((sortBy_perm lt t).mem_iff.mp hy))

end

/-- Two weakly sorted arrangements of one multiset are equal when different elements are
comparable. -/
theorem sorted_perm_unique {l₁ l₂ : List α} (hp : l₁.Perm l₂)
    (tot : ∀ a ∈ l₁, ∀ b ∈ l₁, a ≠ b → lt a b = true ∨ lt b a = true)
    (h₁ : WSorted lt l₁) (h₂ : WSorted lt l₂) : l₁ = l₂ := by
  induction l₁ generalizing l₂ with
  | nil => exact (List.nil_perm.mp hp).symm
  | cons a t₁ ih =>
    cases l₂ with
    | nil => exact absurd hp.length_eq (by simp)
    | cons b t₂ =>
      have h₁' := List.pairwise_cons.mp h₁
      have h₂' := List.pairwise_cons.mp h₂
      have hab : a = b := by
        by_cases e : a = b
        · exact e
        · have ha : a ∈ t₂ := by
            rcases List.mem_cons.mp (hp.mem_iff.mp (List.mem_cons_self ..)) with h | h
            · exact absurd h e
            · exact h
          have hb : b ∈ t₁ := by
            rcases List.mem_cons.mp (hp.mem_iff.mpr (List.mem_cons_self ..)) with h | h
            · exact absurd h.symm e
            · exact h
          have := tot a (List.mem_cons_self ..) b (List.mem_cons_of_mem _ hb) e
          rw [h₁'.1 b hb, h₂'.1 a ha] at this
          simp at this
      subst hab
      congr 1
      exact ih hp.cons_inv (fun x hx y hy => tot x (List.mem_cons_of_mem _ hx) y (List.mem_cons_of_mem _ hy)) h₁'.2 h₂'.2

/-- `sortBy` is a function of the multiset. -/
theorem sortBy_perm_invariant (irr : ∀ a, lt a a = false)
    (tr : ∀ a b c, lt a b = true → lt b c = true → lt a c = true) {l₁ l₂ : List α} (hp : l₁.Perm l₂)
    (tot : ∀ a ∈ l₁, ∀ b ∈ l₁, a ≠ b → lt a b = true ∨ lt b a = true) : sortBy lt l₁ = sortBy lt l₂ := by
  have tot₂ : ∀ a ∈ l₂, ∀ b ∈ l₂, a ≠ b → lt a b = true ∨ lt b a = true :=
    fun a ha b hb => tot a (hp.mem_iff.mpr ha) b (hp.mem_iff.mpr hb)
  refine sorted_perm_unique lt (((sortBy_perm lt l₁).trans hp).trans (sortBy_perm lt l₂).symm) ?_
    (sortBy_sorted lt irr tr l₁ tot) (sortBy_sorted lt irr tr l₂ tot₂)
  intro a ha b hb
  exact tot a ((sortBy_perm lt l₁).mem_iff.mp ha) b ((sortBy_perm lt l₁).mem_iff.mp hb)

end Goyang.Lemmas.SortUnique
