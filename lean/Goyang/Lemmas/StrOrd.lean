import Goyang.Model.StrOrd
/-
Order facts about `charsLt` / `strLt` (Go's byte-wise string order): a strict total order;
behaviour under a common prefix; interplay with `++` on `String`.
-/
namespace Goyang.Lemmas.StrOrd
open Goyang.Model

theorem charsLt_irrefl : ∀ a : List Char, charsLt a a = false
  | [] => rfl
  | c :: cs => by simp [charsLt, charsLt_irrefl cs]

theorem char_eq_of_toNat_eq {a b : Char} (h : a.toNat = b.toNat) : a = b :=
  Char.ext (UInt32.toNat_inj.mp h)

theorem charsLt_trans : ∀ {a b c : List Char}, charsLt a b = true → charsLt b c = true → charsLt a c = true
  | _, [], _, h, _ => by cases ‹List Char› <;> simp [charsLt] at h
  | _, _ :: _, [], _, h => by simp [charsLt] at h
  | [], _ :: _, _ :: _, _, _ => by simp [charsLt]
  | x :: xs, y :: ys, z :: zs, h1, h2 => by
    simp only [charsLt, Bool.or_eq_true, decide_eq_true_eq, Bool.and_eq_true, beq_iff_eq] at *
    rcases h1 with h1 | ⟨rfl, h1⟩ <;> rcases h2 with h2 | ⟨rfl, h2⟩
    · left; omega
    · left; exact h1
    · left; exact h2
    · right; exact ⟨rfl, charsLt_trans h1 h2⟩

theorem charsLt_total : ∀ a b : List Char, charsLt a b = true ∨ a = b ∨ charsLt b a = true
  | [], [] => by simp
  | [], _ :: _ => by simp [charsLt]
  | _ :: _, [] => by simp [charsLt]
  | x :: xs, y :: ys => by
    simp only [charsLt, Bool.or_eq_true, decide_eq_true_eq, Bool.and_eq_true, beq_iff_eq, List.cons.injEq]
    rcases Nat.lt_trichotomy x.toNat y.toNat with h | h | h
    · left; left; exact h
    · have hxy := char_eq_of_toNat_eq h
      subst hxy
      rcases charsLt_total xs ys with h' | h' | h'
      · left; right; exact ⟨rfl, h'⟩
      · right; left; exact ⟨rfl, h'⟩
      · right; right; right; exact ⟨rfl, h'⟩
    · right; right; left; exact h

theorem charsLt_asymm {a b : List Char} (h : charsLt a b = true) : charsLt b a = false := by
  cases hb : charsLt b a with
  | false => rfl
  | true => have := charsLt_trans h hb; simp [charsLt_irrefl] at this

theorem charsLt_nil_left (b : List Char) : charsLt [] b = !b.isEmpty := by
  cases b <;> simp [charsLt]

/-- A common prefix does not matter. -/
theorem charsLt_append_left : ∀ (p a b : List Char), charsLt (p ++ a) (p ++ b) = charsLt a b
  | [], _, _ => rfl
  | c :: p, a, b => by simp [charsLt, charsLt_append_left p a b]

/-- A proper prefix is smaller. -/
theorem charsLt_prefix (p : List Char) {s : List Char} (h : s ≠ []) : charsLt p (p ++ s) = true := by
  have := charsLt_append_left p [] s
  simp only [List.append_nil] at this
  rw [this, charsLt_nil_left]; cases s <;> simp_all

/-! ### `String` -/

theorem strLt_irrefl (a : String) : strLt a a = false := charsLt_irrefl _

theorem strLt_trans {a b c : String} (h1 : strLt a b = true) (h2 : strLt b c = true) : strLt a c = true :=
  charsLt_trans h1 h2

theorem strLt_total (a b : String) : strLt a b = true ∨ a = b ∨ strLt b a = true := by
  rcases charsLt_total a.toList b.toList with h | h | h
  · exact .inl h
  · exact .inr (.inl (String.toList_inj.mp h))
  · exact .inr (.inr h)

theorem strLt_asymm {a b : String} (h : strLt a b = true) : strLt b a = false := charsLt_asymm h

theorem strLt_empty_left (b : String) : strLt "" b = true ↔ b ≠ "" := by
  unfold strLt
  rw [show ("" : String).toList = [] from rfl, charsLt_nil_left]
  constructor
  · intro h hb; subst hb; simp at h
  · intro h
    cases hb : b.toList with
    | nil => exact absurd (String.toList_inj.mp (hb.trans (rfl : ("" : String).toList = []).symm)) h
    | cons _ _ => rfl

theorem strLt_empty_right (a : String) : strLt a "" = false := by
  unfold strLt; rw [show ("" : String).toList = [] from rfl]; cases a.toList <;> rfl

theorem strLt_append_left (p a b : String) : strLt (p ++ a) (p ++ b) = strLt a b := by
  simp [strLt, String.toList_append, charsLt_append_left]

theorem strLt_prefix (p : String) {s : String} (h : s ≠ "") : strLt p (p ++ s) = true := by
  unfold strLt; rw [String.toList_append]
  apply charsLt_prefix
  intro hs; exact h (String.toList_inj.mp (hs.trans (rfl : ("" : String).toList = []).symm))

end Goyang.Lemmas.StrOrd
