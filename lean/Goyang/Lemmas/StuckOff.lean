/-
The offset a fault is reported at (`Stuck ... (.fault k off)`, `Goyang/Spec/Fault.lean`) is bounded
like the offsets of the tokens: it is the offset of one of the tokens, or a position inside a
double-quoted token with an undefined backslash pair.
-/
import Goyang.Lemmas.FaultNL

namespace Goyang.Lemmas.StuckOff
open Goyang.Spec.Parse Goyang.Spec.Fault
open Goyang.Lemmas.ListSrc (argument_suffix stmt_stmts_suffix)

/-- the piece with the undefined pair is one of the tokens, and it has an undefined pair -/
theorem argPieces_mem (ts : List PTok) (x : PTok) (h : ArgPieces ts x) :
    x ∈ ts ∧ hasUndefined x = true := by
  induction h with
  | here x post hu => exact ⟨List.mem_cons_self, hu⟩
  | more q p ts x _ _ _ _ ih =>
    exact ⟨List.mem_cons_of_mem q (List.mem_cons_of_mem p ih.1), ih.2⟩

theorem stuck_off_le (text : List Char) (N : Nat) (c : Ctx) (toks : List PTok) (k : FaultKind) (off : Nat)
    (h : Stuck text c toks (.fault k off)) (hoff : ∀ x ∈ toks, x.off ≤ N)
    (hdq : ∀ x ∈ toks, ∀ raw, x.tok = .dq raw → hasUndefined x = true → x.off + 1 + undefinedAt raw ≤ N) :
    off ≤ N := by
  generalize hw : Where.fault k off = w at h
  induction h with
  | rbrace t ts ht =>
    injection hw with _ ho
    rw [ho]; exact hoff t List.mem_cons_self
  | first c t ts w hc ht _ ih => exact ih hoff hdq hw
  | later c t ts s rest w hc ht hs _ ih =>
    have hsx := ((stmt_stmts_suffix text _).1 _ _ _ hs).1
    exact ih (fun x hx => hoff x (hsx.mem hx)) (fun x hx => hdq x (hsx.mem hx)) hw
  | ended c hc => cases hw
  | keyword t ts hq hu =>
    injection hw with _ ho
    rw [ho]; exact hoff t List.mem_cons_self
  | escape k0 kw ts x raw hk hkw hp hx =>
    injection hw with _ ho
    obtain ⟨hm, hu⟩ := argPieces_mem ts x hp
    rw [ho]; exact hdq x (List.mem_cons_of_mem k0 hm) raw hx hu
  | noTerm k0 kw ts arg e rest hk ha h1 h2 h3 =>
    injection hw with _ ho
    have hsx := argument_suffix text _ ts arg (e :: rest) ha
    rw [ho]; exact hoff e (List.mem_cons_of_mem k0 (hsx.mem List.mem_cons_self))
  | argEnds k0 kw ts hk hr => cases hw
  | block k0 kw ts arg e rest w hk ha he _ ih =>
    have hsx := argument_suffix text _ ts arg (e :: rest) ha
    have hm : ∀ x ∈ rest, x ∈ k0 :: ts := fun x hx =>
      List.mem_cons_of_mem k0 (((List.suffix_cons e rest).trans hsx).mem hx)
    exact ih (fun x hx => hoff x (hm x hx)) (fun x hx => hdq x (hm x hx)) hw

end Goyang.Lemmas.StuckOff
