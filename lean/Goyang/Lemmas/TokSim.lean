/-
(d) One call of `NextToken` of the lexer model on a well-encoded text = the next token of the
reference reader (`specNext`): same kind, same text (for double-quoted strings: the fold of
`Lemmas/QStr.lean`), same position; the lexer ends up between two tokens again.  A lexical
failure of the reference reader, or an undefined backslash pair outside pattern mode, makes the
lexer write an error.
-/
import Goyang.Lemmas.LexSim
import Goyang.Lemmas.ListSrc

namespace Goyang.Lemmas.TokSim
open Goyang.Model.Lex Goyang.Model.Utf8 Goyang.Lemmas.Utf8 Goyang.Lemmas.Lex Goyang.Lemmas.LexSim
open Goyang.Spec.Parse Goyang.Lemmas.Scan Goyang.Lemmas.QStr
open Goyang.Lemmas.ListSrc (conv tokCode tokText badEsc)

/-- the text is empty or ends in a line feed (`newLexer` sees to that) -/
def EndsNL (s : List Char) : Prop := s = [] ∨ s.getLast? = some '\n'

theorem EndsNL.suffix {a b : List Char} (h : EndsNL (a ++ b)) : EndsNL b := by
  cases b with
  | nil => exact Or.inl rfl
  | cons c r =>
    right
    rcases h with h | h
    · simp at h
    · rw [List.getLast?_append] at h
      simp only [List.getLast?_cons] at h ⊢
      simpa using h

theorem EndsNL.mem {s : List Char} (h : EndsNL s) (hne : s ≠ []) : '\n' ∈ s := by
  rcases h with h | h
  · exact absurd h hne
  · exact List.mem_of_getLast? h

theorem split_first (c : Char) : ∀ (l : List Char), c ∈ l → ∃ s r, l = s ++ c :: r ∧ c ∉ s := by
  intro l
  induction l with
  | nil => intro h; simp at h
  | cons d l ih =>
    intro h
    by_cases hd : d = c
    · exact ⟨[], l, by rw [hd]; rfl, by simp⟩
    · have : c ∈ l := by
        simp only [List.mem_cons] at h
        rcases h with h | h
        · exact absurd h.symm hd
        · exact h
      obtain ⟨s, r, h1, h2⟩ := ih this
      refine ⟨d :: s, r, by rw [h1]; rfl, ?_⟩
      simp only [List.mem_cons, not_or]
      exact ⟨fun he => hd he.symm, h2⟩

section
variable (text : List Char) (file : List UInt8)

/-- what a call of `NextToken` must deliver before the characters `suf` -/
def Outcome (b : Bool) (suf : List Char) (r : Option Token × Lexer) : Prop :=
  match specNext text.length suf with
  | none => r.2.errout ≠ []
  | some none => r.1 = none ∧ r.2.state = .done ∧ Ready file r.2 ∧ r.2.inPattern = b
  | some (some (t, rest)) =>
    (badEsc b t = true ∧ r.2.errout ≠ []) ∨
    (badEsc b t = false ∧ r.1 = some (conv text file t) ∧
      ∃ pre', text = pre' ++ rest ∧ Gnd file r.2 pre' rest ∧ r.2.inPattern = b)

theorem Outcome_congr (b : Bool) (suf suf2 : List Char) (r : Option Token × Lexer)
    (h : skipGround suf = skipGround suf2) (ho : Outcome text file b suf2 r) : Outcome text file b suf r := by
  unfold Outcome specNext at *
  rw [h]; exact ho

/-- the token the lexer emits is the token of the reference reader -/
theorem tok_eq (P r : List Char) (c : Char) (ht : text = P ++ c :: r) (tk : Tok) (sline scol : Int)
    (hsl : sline = lineAfter P) (hsc : scol = colAfter P) :
    ({ code := tokCode tk, text := tokText text ⟨tk, text.length - (r.length + 1)⟩, file := file, line := sline,
       col := scol + 1 } : Token) = conv text file ⟨tk, text.length - (r.length + 1)⟩ := by
  have hoff : text.length - (r.length + 1) = P.length := by
    rw [ht]; simp only [List.length_append, List.length_cons]; omega
  have htake : text.take P.length = P := by rw [ht, List.take_left']; rfl
  unfold conv
  simp only
  rw [hoff, hsl, hsc]
  unfold lineOf colOf lineAfter colAfter
  rw [htake]
  congr 1
  push_cast
  omega

/-- at the first character of a token: white space skipped, `start`, `sline`, `scol` set -/
structure Tk (l : Lexer) (P suf : List Char) : Prop where
  cur : Cur l P suf
  pos : Pos l P
  start : l.start = (encodeChars P).length
  sline : l.sline = lineAfter P
  scol : l.scol = colAfter P
  ready : Ready file l
  state : l.state = .ground

theorem posN_of_fields {l l' : Lexer} {P rest : List Char} (hp : PosN l P rest) (hc : l'.col = l.col)
    (ht : l'.tcol = l.tcol) : PosN l' P rest := by
  unfold PosN at hp ⊢
  split at hp
  · trivial
  · rw [hc, ht]; exact hp
  · exact ⟨hc.trans hp.col, ht.trans hp.tcol⟩

/-- a token is queued, the lexer is in the ground state behind it: `NextToken` hands it out -/
theorem finish (f : Nat) (l2 : Lexer) (t : Token) (P' rest : List Char) (hi : l2.items = [t])
    (hst : l2.state = .ground) (hc : Cur l2 P' rest) (hp : PosN l2 P' rest) (he : l2.errout = [])
    (hn : l2.errcnt = 0) (hf : l2.fault = .none) (hfile : l2.file = file) :
    (nextTokenLoop (f + 1) l2).1 = some t ∧ Gnd file (nextTokenLoop (f + 1) l2).2 P' rest ∧
    (nextTokenLoop (f + 1) l2).2.inPattern = l2.inPattern := by
  rw [nextTokenLoop_pop1 f l2 t hi]
  exact ⟨rfl, ⟨⟨hc.before, hc.rest, hc.line⟩, posN_of_fields hp rfl rfl, ⟨rfl, he, hn, hf, hfile⟩, hst⟩, rfl⟩

/-- `setState .ground (emitText …)`: the fields -/
theorem emitted (c : Code) (tb : List UInt8) (l : Lexer) (hi : l.items = []) :
    (setState .ground (emitText c tb l)).items =
      [{ code := c, text := tb, file := l.file, line := l.sline, col := l.scol + 1 }] ∧
    (setState .ground (emitText c tb l)).state = .ground ∧
    (setState .ground (emitText c tb l)).before = l.before ∧ (setState .ground (emitText c tb l)).rest = l.rest ∧
    (setState .ground (emitText c tb l)).line = l.line ∧ (setState .ground (emitText c tb l)).col = l.col ∧
    (setState .ground (emitText c tb l)).tcol = l.tcol ∧ (setState .ground (emitText c tb l)).errout = l.errout ∧
    (setState .ground (emitText c tb l)).errcnt = l.errcnt ∧ (setState .ground (emitText c tb l)).fault = l.fault ∧
    (setState .ground (emitText c tb l)).file = l.file ∧
    (setState .ground (emitText c tb l)).inPattern = l.inPattern := by
  obtain ⟨e1, e2, e3, e4, e5, e6, e7, e8, e9, e10, _, _⟩ := emitText_frame c tb l
  exact ⟨emitText_items c tb l hi, rfl, e1, e2, e3, e4, e5, e6, e7, e8, e9, e10⟩

/-- `;`, `{`, `}` -/
theorem punct_case (b : Bool) (f : Nat) (l : Lexer) (P r : List Char) (c : Char) (ht : text = P ++ c :: r)
    (hk : Tk file l P (c :: r)) (hb : l.inPattern = b) (tk : Tok)
    (hc : (c = ';' ∧ tk = .semi) ∨ (c = '{' ∧ tk = .lbrace) ∨ (c = '}' ∧ tk = .rbrace)) :
    (nextTokenLoop (f + 1) (setState .ground (emit (.punct (UInt8.ofNat c.toNat)) (next l).2))).1 =
      some (conv text file ⟨tk, text.length - (r.length + 1)⟩) ∧
    ∃ pre', text = pre' ++ r ∧
      Gnd file (nextTokenLoop (f + 1) (setState .ground (emit (.punct (UInt8.ofNat c.toNat)) (next l).2))).2 pre' r ∧
      (nextTokenLoop (f + 1) (setState .ground (emit (.punct (UInt8.ofNat c.toNat)) (next l).2))).2.inPattern = b := by
  obtain ⟨n1, n2, n3, _, n5⟩ := next_char l P r c hk.cur (hk.pos.posN _)
  have hemit : emit (.punct (UInt8.ofNat c.toNat)) (next l).2 =
      emitText (.punct (UInt8.ofNat c.toNat)) (encodeChars [c]) (next l).2 :=
    emit_eq _ _ P [c] r n2 (by rw [n5.start]; exact hk.start)
  rw [hemit]
  have hr1 : Ready file (next l).2 := n5.ready hk.ready
  obtain ⟨e1, e2, e3, e4, e5, e6, e7, e8, e9, e10, e11, e12⟩ :=
    emitted (.punct (UInt8.ofNat c.toNat)) (encodeChars [c]) (next l).2 hr1.items
  have htok : Token.mk (Code.punct (UInt8.ofNat c.toNat)) (encodeChars [c]) (next l).2.file (next l).2.sline
      ((next l).2.scol + 1) = conv text file ⟨tk, text.length - (r.length + 1)⟩ := by
    rw [← tok_eq text file P r c ht tk _ _ (n5.sline.trans hk.sline) (n5.scol.trans hk.scol), hr1.file]
    rcases hc with ⟨h1, h2⟩ | ⟨h1, h2⟩ | ⟨h1, h2⟩ <;> (rw [h1, h2]; rfl)
  rw [htok] at e1
  obtain ⟨q1, q2, q3⟩ := finish file f _ _ (P ++ [c]) r e1 e2 ⟨e3.trans n2.before, e4.trans n2.rest, e5.trans n2.line⟩
    (posN_of_fields (n3.posN r) e6 e7) (e8.trans hr1.errout) (e9.trans hr1.errcnt) (e10.trans hr1.fault)
    (e11.trans hr1.file)
  exact ⟨q1, P ++ [c], by rw [ht]; simp, q2, by rw [q3, e12, n5.inPattern]; exact hb⟩

end

end Goyang.Lemmas.TokSim
