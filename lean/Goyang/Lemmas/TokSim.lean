/-
(d) One call of `NextToken` of the lexer model on a well-encoded text = the next token of the
reference reader (`specNext`): same kind, same text (for double-quoted strings: the fold of
`Lemmas/QStr.lean`), same position; the lexer ends up between two tokens again.  A lexical
failure of the reference reader, or an undefined backslash pair outside pattern mode, makes the
lexer write an error.
-/
import Goyang.Lemmas.LexSim
import Goyang.Lemmas.ListSrc

namespace Goyang.Lemmas.TokSim
open Goyang.Model.Lex Goyang.Model.Utf8 Goyang.Lemmas.Utf8 Goyang.Lemmas.Lex Goyang.Lemmas.LexSim
open Goyang.Spec.Parse Goyang.Lemmas.Scan Goyang.Lemmas.QStr
open Goyang.Lemmas.ListSrc (conv tokCode tokText badEsc)

/-- the text is empty or ends in a line feed (`newLexer` sees to that) -/
def EndsNL (s : List Char) : Prop := s = [] ∨ s.getLast? = some '\n'

theorem EndsNL.suffix {a b : List Char} (h : EndsNL (a ++ b)) : EndsNL b := by
  cases b with
  | nil => exact Or.inl rfl
  | cons c r =>
    right
    rcases h with h | h
    · simp at h
    · rw [List.getLast?_append] at h
      simp only [List.getLast?_cons] at h ⊢
      simpa using h

theorem EndsNL.mem {s : List Char} (h : EndsNL s) (hne : s ≠ []) : '\n' ∈ s := by
  rcases h with h | h
  · exact absurd h hne
  · exact List.mem_of_getLast? h

theorem split_first (c : Char) : ∀ (l : List Char), c ∈ l → ∃ s r, l = s ++ c :: r ∧ c ∉ s := by
  intro l
  induction l with
  | nil => intro h; simp at h
  | cons d l ih =>
    intro h
    by_cases hd : d = c
    · exact ⟨[], l, by rw [hd]; rfl, by simp⟩
    · have : c ∈ l := by
        simp only [List.mem_cons] at h
        rcases h with h | h
        · exact absurd h.symm hd
        · exact h
      obtain ⟨s, r, h1, h2⟩ := ih this
      refine ⟨d :: s, r, by rw [h1]; rfl, ?_⟩
      simp only [List.mem_cons, not_or]
      exact ⟨fun he => hd he.symm, h2⟩

section
variable (text : List Char) (file : List UInt8)

/-- what a call of `NextToken` must deliver before the characters `suf` -/
def Outcome (b : Bool) (suf : List Char) (r : Option Token × Lexer) : Prop :=
  match specNext text.length suf with
  | none => r.2.errout ≠ []
  | some none => r.1 = none ∧ r.2.state = .done ∧ Ready file r.2 ∧ r.2.inPattern = b
  | some (some (t, rest)) =>
    (badEsc b t = true ∧ r.2.errout ≠ []) ∨
    (badEsc b t = false ∧ r.1 = some (conv text file t) ∧
      ∃ pre', text = pre' ++ rest ∧ Gnd file r.2 pre' rest ∧ r.2.inPattern = b)

theorem Outcome_congr (b : Bool) (suf suf2 : List Char) (r : Option Token × Lexer)
    (h : skipGround suf = skipGround suf2) (ho : Outcome text file b suf2 r) : Outcome text file b suf r := by
  unfold Outcome specNext at *
  rw [h]; exact ho

/-- the token the lexer emits is the token of the reference reader -/
theorem tok_eq (P r : List Char) (c : Char) (ht : text = P ++ c :: r) (tk : Tok) (sline scol : Int)
    (hsl : sline = lineAfter P) (hsc : scol = colAfter P) :
    ({ code := tokCode tk, text := tokText text ⟨tk, text.length - (r.length + 1)⟩, file := file, line := sline,
       col := scol + 1 } : Token) = conv text file ⟨tk, text.length - (r.length + 1)⟩ := by
  have hoff : text.length - (r.length + 1) = P.length := by
    rw [ht]; simp only [List.length_append, List.length_cons]; omega
  have htake : text.take P.length = P := by rw [ht, List.take_left']; rfl
  unfold conv
  simp only
  rw [hoff, hsl, hsc]
  unfold lineOf colOf lineAfter colAfter
  rw [htake]
  congr 1
  push_cast
  omega

end

end Goyang.Lemmas.TokSim
