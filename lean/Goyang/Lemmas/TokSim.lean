/-
(d) One call of `NextToken` of the lexer model on a well-encoded text = the next token of the
reference reader (`specNext`): same kind, same text (for double-quoted strings: the fold of
`Lemmas/QStr.lean`), same position; the lexer ends up between two tokens again.  A lexical
failure of the reference reader, or an undefined backslash pair outside pattern mode, makes the
lexer write an error.
-/
import Goyang.Lemmas.LexSim
import Goyang.Lemmas.ListSrc

namespace Goyang.Lemmas.TokSim
open Goyang.Model.Lex Goyang.Model.Utf8 Goyang.Lemmas.Utf8 Goyang.Lemmas.Lex Goyang.Lemmas.LexSim
open Goyang.Spec.Parse Goyang.Lemmas.Scan Goyang.Lemmas.QStr
open Goyang.Lemmas.ListSrc (conv tokCode tokText badEsc)

/-- the text is empty or ends in a line feed (`newLexer` sees to that) -/
def EndsNL (s : List Char) : Prop := s = [] ∨ s.getLast? = some '\n'

theorem EndsNL.suffix {a b : List Char} (h : EndsNL (a ++ b)) : EndsNL b := by
  cases b with
  | nil => exact Or.inl rfl
  | cons c r =>
    right
    rcases h with h | h
    · simp at h
    · rw [List.getLast?_append] at h
      simp only [List.getLast?_cons] at h ⊢
      simpa using h

theorem EndsNL.mem {s : List Char} (h : EndsNL s) (hne : s ≠ []) : '\n' ∈ s := by
  rcases h with h | h
  · exact absurd h hne
  · exact List.mem_of_getLast? h

theorem split_first (c : Char) : ∀ (l : List Char), c ∈ l → ∃ s r, l = s ++ c :: r ∧ c ∉ s := by
  intro l
  induction l with
  | nil => intro h; simp at h
  | cons d l ih =>
    intro h
    by_cases hd : d = c
    · exact ⟨[], l, by rw [hd]; rfl, by simp⟩
    · have : c ∈ l := by
        simp only [List.mem_cons] at h
        rcases h with h | h
        · exact absurd h.symm hd
        · exact h
      obtain ⟨s, r, h1, h2⟩ := ih this
      refine ⟨d :: s, r, by rw [h1]; rfl, ?_⟩
      simp only [List.mem_cons, not_or]
      exact ⟨fun he => hd he.symm, h2⟩

section
variable (text : List Char) (file : List UInt8)

/-- what a call of `NextToken` must deliver before the characters `suf` -/
def Outcome (b : Bool) (pre suf : List Char) (r : Option Token × Lexer) : Prop :=
  match specNext text.length suf with
  | none => r.2.errout ≠ []
  | some none => r.1 = none ∧ r.2.state = .done ∧ Ready file r.2 ∧ r.2.inPattern = b
  | some (some (t, rest)) =>
    (badEsc b t = true ∧ r.2.errout ≠ []) ∨
    (badEsc b t = false ∧ r.1 = some (conv text file t) ∧
      ∃ pre', text = pre' ++ rest ∧ pre.length < pre'.length ∧ Gnd file r.2 pre' rest ∧ r.2.inPattern = b)

theorem Outcome_congr (b : Bool) (pre pre2 suf suf2 : List Char) (r : Option Token × Lexer)
    (h : skipGround suf = skipGround suf2) (hl : pre.length ≤ pre2.length) (ho : Outcome text file b pre2 suf2 r) :
    Outcome text file b pre suf r := by
  unfold Outcome specNext at *
  rw [h]
  cases hsn : specNextG text.length (skipGround suf2) with
  | none => rw [hsn] at ho; exact ho
  | some o =>
    cases o with
    | none => rw [hsn] at ho; exact ho
    | some p =>
      obtain ⟨t, rest⟩ := p
      rw [hsn] at ho
      simp only at ho ⊢
      rcases ho with h1 | ⟨h1, h2, pre', h3, h4, h5⟩
      · exact Or.inl h1
      · exact Or.inr ⟨h1, h2, pre', h3, by omega, h5⟩

/-- the token the lexer emits is the token of the reference reader -/
theorem tok_eq (P r : List Char) (c : Char) (ht : text = P ++ c :: r) (tk : Tok) (sline scol : Int)
    (hsl : sline = lineAfter P) (hsc : scol = colAfter P) :
    ({ code := tokCode tk, text := tokText text ⟨tk, text.length - (r.length + 1)⟩, file := file, line := sline,
       col := scol + 1 } : Token) = conv text file ⟨tk, text.length - (r.length + 1)⟩ := by
  have hoff : text.length - (r.length + 1) = P.length := by
    rw [ht]; simp only [List.length_append, List.length_cons]; omega
  have htake : text.take P.length = P := by rw [ht, List.take_left']; rfl
  unfold conv
  simp only
  rw [hoff, hsl, hsc]
  unfold lineOf colOf lineAfter colAfter
  rw [htake]
  congr 1
  push_cast
  omega

/-- at the first character of a token: white space skipped, `start`, `sline`, `scol` set -/
structure Tk (l : Lexer) (P suf : List Char) : Prop where
  cur : Cur l P suf
  pos : Pos l P
  start : l.start = (encodeChars P).length
  sline : l.sline = lineAfter P
  scol : l.scol = colAfter P
  ready : Ready file l
  state : l.state = .ground

theorem posN_of_fields {l l' : Lexer} {P rest : List Char} (hp : PosN l P rest) (hc : l'.col = l.col)
    (ht : l'.tcol = l.tcol) : PosN l' P rest := by
  unfold PosN at hp ⊢
  split at hp
  · trivial
  · rw [hc, ht]; exact hp
  · exact ⟨hc.trans hp.col, ht.trans hp.tcol⟩

/-- a token is queued, the lexer is in the ground state behind it: `NextToken` hands it out -/
theorem finish (f : Nat) (l2 : Lexer) (t : Token) (P' rest : List Char) (hi : l2.items = [t])
    (hst : l2.state = .ground) (hc : Cur l2 P' rest) (hp : PosN l2 P' rest) (he : l2.errout = [])
    (hn : l2.errcnt = 0) (hf : l2.fault = .none) (hfile : l2.file = file) :
    (nextTokenLoop (f + 1) l2).1 = some t ∧ Gnd file (nextTokenLoop (f + 1) l2).2 P' rest ∧
    (nextTokenLoop (f + 1) l2).2.inPattern = l2.inPattern := by
  rw [nextTokenLoop_pop1 f l2 t hi]
  exact ⟨rfl, ⟨⟨hc.before, hc.rest, hc.line⟩, posN_of_fields hp rfl rfl, ⟨rfl, he, hn, hf, hfile⟩, hst⟩, rfl⟩

/-- `setState .ground (emitText …)`: the fields -/
theorem emitted (c : Code) (tb : List UInt8) (l : Lexer) (hi : l.items = []) :
    (setState .ground (emitText c tb l)).items =
      [{ code := c, text := tb, file := l.file, line := l.sline, col := l.scol + 1 }] ∧
    (setState .ground (emitText c tb l)).state = .ground ∧
    (setState .ground (emitText c tb l)).before = l.before ∧ (setState .ground (emitText c tb l)).rest = l.rest ∧
    (setState .ground (emitText c tb l)).line = l.line ∧ (setState .ground (emitText c tb l)).col = l.col ∧
    (setState .ground (emitText c tb l)).tcol = l.tcol ∧ (setState .ground (emitText c tb l)).errout = l.errout ∧
    (setState .ground (emitText c tb l)).errcnt = l.errcnt ∧ (setState .ground (emitText c tb l)).fault = l.fault ∧
    (setState .ground (emitText c tb l)).file = l.file ∧
    (setState .ground (emitText c tb l)).inPattern = l.inPattern := by
  obtain ⟨e1, e2, e3, e4, e5, e6, e7, e8, e9, e10, _, _⟩ := emitText_frame c tb l
  exact ⟨emitText_items c tb l hi, rfl, e1, e2, e3, e4, e5, e6, e7, e8, e9, e10⟩

/-- `;`, `{`, `}` -/
theorem punct_case (b : Bool) (f : Nat) (l : Lexer) (P r : List Char) (c : Char) (ht : text = P ++ c :: r)
    (hk : Tk file l P (c :: r)) (hb : l.inPattern = b) (tk : Tok)
    (hc : (c = ';' ∧ tk = .semi) ∨ (c = '{' ∧ tk = .lbrace) ∨ (c = '}' ∧ tk = .rbrace)) :
    (nextTokenLoop (f + 1) (setState .ground (emit (.punct (UInt8.ofNat c.toNat)) (next l).2))).1 =
      some (conv text file ⟨tk, text.length - (r.length + 1)⟩) ∧
    ∃ pre', text = pre' ++ r ∧ P.length < pre'.length ∧
      Gnd file (nextTokenLoop (f + 1) (setState .ground (emit (.punct (UInt8.ofNat c.toNat)) (next l).2))).2 pre' r ∧
      (nextTokenLoop (f + 1) (setState .ground (emit (.punct (UInt8.ofNat c.toNat)) (next l).2))).2.inPattern = b := by
  obtain ⟨n1, n2, n3, _, n5⟩ := next_char l P r c hk.cur (hk.pos.posN _)
  have hemit : emit (.punct (UInt8.ofNat c.toNat)) (next l).2 =
      emitText (.punct (UInt8.ofNat c.toNat)) (encodeChars [c]) (next l).2 :=
    emit_eq _ _ P [c] r n2 (by rw [n5.start]; exact hk.start)
  rw [hemit]
  have hr1 : Ready file (next l).2 := n5.ready hk.ready
  obtain ⟨e1, e2, e3, e4, e5, e6, e7, e8, e9, e10, e11, e12⟩ :=
    emitted (.punct (UInt8.ofNat c.toNat)) (encodeChars [c]) (next l).2 hr1.items
  have htok : Token.mk (Code.punct (UInt8.ofNat c.toNat)) (encodeChars [c]) (next l).2.file (next l).2.sline
      ((next l).2.scol + 1) = conv text file ⟨tk, text.length - (r.length + 1)⟩ := by
    rw [← tok_eq text file P r c ht tk _ _ (n5.sline.trans hk.sline) (n5.scol.trans hk.scol), hr1.file]
    rcases hc with ⟨h1, h2⟩ | ⟨h1, h2⟩ | ⟨h1, h2⟩ <;> (rw [h1, h2]; rfl)
  rw [htok] at e1
  obtain ⟨q1, q2, q3⟩ := finish file f _ _ (P ++ [c]) r e1 e2 ⟨e3.trans n2.before, e4.trans n2.rest, e5.trans n2.line⟩
    (posN_of_fields (n3.posN r) e6 e7) (e8.trans hr1.errout) (e9.trans hr1.errcnt) (e10.trans hr1.fault)
    (e11.trans hr1.file)
  exact ⟨q1, P ++ [c], by rw [ht]; simp, by simp, q2, by rw [q3, e12, n5.inPattern]; exact hb⟩

theorem consume_tk (l : Lexer) (P suf : List Char) (hc : Cur l P suf) (hp : Pos l P) (hr : Ready file l)
    (hst : l.state = .ground) (sl sc : Int) (hsl : l.sline = sl) (hsc : l.scol = sc) :
    Cur (consume l) P suf ∧ Pos (consume l) P ∧ (consume l).start = (encodeChars P).length ∧
    Ready file (consume l) ∧ (consume l).state = .ground ∧ (consume l).sline = sl ∧ (consume l).scol = sc ∧
    (consume l).inPattern = l.inPattern := by
  unfold consume Lexer.pos
  refine ⟨⟨hc.before, hc.rest, hc.line⟩, ⟨hp.col, hp.tcol⟩, ?_, ⟨hr.items, hr.errout, hr.errcnt, hr.fault, hr.file⟩,
    hst, hsl, hsc, rfl⟩
  show l.before.length = _
  rw [hc.before]; simp

theorem skipTo_found (pat : List UInt8) (l : Lexer) (x : Nat) (h : indexOf pat l.rest = some x) :
    skipTo pat l = (true, updateCursor x l) := by
  unfold skipTo; rw [h]

theorem skipTo_none (pat : List UInt8) (l : Lexer) (h : indexOf pat l.rest = none) :
    skipTo pat l = (false, l) := by
  unfold skipTo; rw [h]

/-- a single-quoted string -/
theorem sq_case (b : Bool) (f : Nat) (l : Lexer) (P r : List Char) (ht : text = P ++ '\'' :: r)
    (hk : Tk file l P ('\'' :: r)) (hb : l.inPattern = b) :
    match scanSq r with
    | none => ∀ g, (nextTokenLoop g (groundSQuote l)).2.errout ≠ []
    | some (s, r') =>
      (nextTokenLoop (f + 1) (groundSQuote l)).1 = some (conv text file ⟨.sq s, text.length - (r.length + 1)⟩) ∧
      ∃ pre', text = pre' ++ r' ∧ P.length < pre'.length ∧ Gnd file (nextTokenLoop (f + 1) (groundSQuote l)).2 pre' r' ∧
        (nextTokenLoop (f + 1) (groundSQuote l)).2.inPattern = b := by
  obtain ⟨n1, n2, n3, _, n5⟩ := next_char l P r '\'' hk.cur (hk.pos.posN _)
  have hr1 : Ready file (next l).2 := n5.ready hk.ready
  obtain ⟨c1, c2, c3, c4, c5, c6, c7, c8⟩ := consume_tk file (next l).2 (P ++ ['\'']) r n2 n3 hr1
    (n5.state.trans hk.state) _ _ (n5.sline.trans hk.sline) (n5.scol.trans hk.scol)
  cases hs : scanSq r with
  | none =>
    simp only
    have hnm := scanSq_none_iff r hs
    have hidx : indexOf [39] (consume (next l).2).rest = none := by
      rw [c1.rest]; exact indexOf_char_none '\'' (by decide) r hnm
    unfold groundSQuote
    simp only
    rw [skipTo_none _ _ hidx]
    simp only [Bool.false_eq_true, if_false]
    intro g
    apply nextTokenLoop_keeps
    show (errorfAt _ _ _ _).errout ≠ []
    exact errorfAt_errout _ _ _ _ (Or.inl c4.errcnt)
  | some p =>
    obtain ⟨s, r'⟩ := p
    simp only
    obtain ⟨hsplit, hnm⟩ := scanSq_split r s r' hs
    have hidx : indexOf [39] (consume (next l).2).rest = some (encodeChars s).length := by
      rw [c1.rest, hsplit]; exact indexOf_char '\'' (by decide) s r' hnm
    obtain ⟨u1, u2, u3⟩ := updateCursor_chars (consume (next l).2) (P ++ ['\'']) s ('\'' :: r')
      (by rw [← hsplit]; exact c1) c2
    -- name the lexer after the bulk move
    obtain ⟨l3, hl3⟩ : ∃ l3, l3 = updateCursor (encodeChars s).length (consume (next l).2) := ⟨_, rfl⟩
    rw [← hl3] at u1 u2 u3
    have hr3 : Ready file l3 := u3.ready c4
    have hemit : emit .string l3 = emitText .string (encodeChars s) l3 :=
      emit_eq _ _ (P ++ ['\'']) s ('\'' :: r') u1 (by rw [u3.start]; exact c3)
    have htok : Token.mk Code.string (encodeChars s) l3.file l3.sline (l3.scol + 1) =
        conv text file ⟨.sq s, text.length - (r.length + 1)⟩ := by
      rw [← tok_eq text file P r '\'' ht (.sq s) _ _ (u3.sline.trans c6) (u3.scol.trans c7), hr3.file]
      rfl
    obtain ⟨l4, hl4⟩ : ∃ l4, l4 = emitText .string (encodeChars s) l3 := ⟨_, rfl⟩
    have hg : groundSQuote l = setState .ground (next l4).2 := by
      unfold groundSQuote
      simp only
      rw [skipTo_found _ _ _ hidx]
      simp only [if_true]
      rw [← hl3, hemit, ← hl4]
    rw [hg]
    obtain ⟨f1, f2, f3, f4, f5, f6, f7, f8, f9, f10, f11, f12⟩ := emitText_frame .string (encodeChars s) l3
    rw [← hl4] at f1 f2 f3 f4 f5 f6 f7 f8 f9 f10 f11 f12
    have hcur4 : Cur l4 (P ++ ['\''] ++ s) ('\'' :: r') := ⟨f1.trans u1.before, f2.trans u1.rest, f3.trans u1.line⟩
    have hpos4 : Pos l4 (P ++ ['\''] ++ s) := ⟨f4.trans u2.col, f5.trans u2.tcol⟩
    obtain ⟨m1, m2, m3, _, m5⟩ := next_char l4 _ r' '\'' hcur4 (hpos4.posN _)
    have hitems : (setState .ground (next l4).2).items =
        [conv text file ⟨.sq s, text.length - (r.length + 1)⟩] := by
      rw [setState_items, m5.items, hl4, emitText_items _ _ _ hr3.items, htok]
    obtain ⟨q1, q2, q3⟩ := finish file f _ _ (P ++ ['\''] ++ s ++ ['\'']) r' hitems rfl
      ⟨m2.before, m2.rest, m2.line⟩ (posN_of_fields (m3.posN r') rfl rfl)
      (by rw [setState_errout, m5.errout, f6]; exact hr3.errout)
      (by rw [setState_errcnt, m5.errcnt, f7]; exact hr3.errcnt)
      (by rw [setState_fault, m5.fault, f8]; exact hr3.fault)
      (by rw [setState_file, m5.file, f9]; exact hr3.file)
    refine ⟨q1, P ++ ['\''] ++ s ++ ['\''], by rw [ht, hsplit]; simp, by simp, q2, ?_⟩
    rw [q3, setState_inPattern, m5.inPattern, f10, u3.inPattern, c8, n5.inPattern]; exact hb

theorem tcolAfter_quote (P : List Char) (r : List Char) (c : Char) (ht : text = P ++ c :: r) (hn : c ≠ '\n')
    (htb : c ≠ '\t') :
    tcolAfter (P ++ [c]) = ((quoteCol text (text.length - (r.length + 1)) : Nat) : Int) := by
  have hoff : text.length - (r.length + 1) = P.length := by
    rw [ht]; simp only [List.length_append, List.length_cons]; omega
  have htake : text.take P.length = P := by rw [ht, List.take_left']; rfl
  rw [tcolAfter_snoc, if_neg hn, if_neg htb, hoff]
  unfold quoteCol tcolAfter
  rw [htake]; push_cast; omega

/-- a double-quoted string -/
theorem dq_case (b : Bool) (f : Nat) (l : Lexer) (P r : List Char) (ht : text = P ++ '"' :: r)
    (hk : Tk file l P ('"' :: r)) (hb : l.inPattern = b) :
    match scanDq r with
    | none => ∀ g, (nextTokenLoop (g + 1) (setState .qstring (next l).2)).2.errout ≠ []
    | some (items, r') =>
      (badEsc b ⟨.dq items, text.length - (r.length + 1)⟩ = true ∧
        ∀ g, (nextTokenLoop (g + 1) (setState .qstring (next l).2)).2.errout ≠ []) ∨
      (badEsc b ⟨.dq items, text.length - (r.length + 1)⟩ = false ∧
        (nextTokenLoop (f + 2) (setState .qstring (next l).2)).1 =
          some (conv text file ⟨.dq items, text.length - (r.length + 1)⟩) ∧
        ∃ pre', text = pre' ++ r' ∧ P.length < pre'.length ∧
          Gnd file (nextTokenLoop (f + 2) (setState .qstring (next l).2)).2 pre' r' ∧
          (nextTokenLoop (f + 2) (setState .qstring (next l).2)).2.inPattern = b) := by
  obtain ⟨n1, n2, n3, _, n5⟩ := next_char l P r '"' hk.cur (hk.pos.posN _)
  have hr1 : Ready file (next l).2 := n5.ready hk.ready
  obtain ⟨l1, hl1⟩ : ∃ l1, l1 = setState .qstring (next l).2 := ⟨_, rfl⟩
  rw [← hl1]
  have hc1 : Cur l1 (P ++ ['"']) r := by rw [hl1]; exact ⟨n2.before, n2.rest, n2.line⟩
  have hp1 : Pos l1 (P ++ ['"']) := by rw [hl1]; exact ⟨n3.col, n3.tcol⟩
  have hready1 : Ready file l1 := by
    rw [hl1]; exact ⟨hr1.items, hr1.errout, hr1.errcnt, hr1.fault, hr1.file⟩
  have hpat1 : l1.inPattern = b := by rw [hl1, setState_inPattern, n5.inPattern]; exact hb
  have hloop : ∀ g, nextTokenLoop (g + 1) l1 = nextTokenLoop g (lexQString l1) := fun g =>
    nextTokenLoop_qstring g l1 hready1.items (by rw [hl1]; rfl)
  have htc : l1.tcol = ((quoteCol text (text.length - (r.length + 1)) : Nat) : Int) := by
    rw [hp1.tcol]; exact tcolAfter_quote text P r '"' ht (by decide) (by decide)
  have hbadcase : DqBad l1.inPattern r → ∀ g, (nextTokenLoop (g + 1) l1).2.errout ≠ [] := by
    intro hbad g
    rw [hloop]
    apply nextTokenLoop_keeps
    unfold lexQString
    exact qstringLoop_bad _ _ _ r.length r (Nat.le_refl _) _ [] true l1 _ hc1 (Or.inl hready1.errcnt)
      (by rw [hc1.rest]; exact Nat.le_refl _) hbad
  cases hs : scanDq r with
  | none =>
    simp only
    exact hbadcase (Or.inl hs)
  | some p =>
    obtain ⟨items, r'⟩ := p
    simp only
    obtain ⟨hsplit, hwf⟩ := scanDq_split r.length r (Nat.le_refl _) items r' hs
    by_cases hbe : badEsc b ⟨.dq items, text.length - (r.length + 1)⟩ = true
    · left
      refine ⟨hbe, hbadcase (Or.inr ⟨items, r', hs, ?_, ?_⟩)⟩
      · rw [hpat1]
        simp only [badEsc, Bool.and_eq_true, Bool.not_eq_eq_eq_not, Bool.not_true] at hbe
        exact hbe.1
      · simp only [badEsc, Bool.and_eq_true, Bool.not_eq_eq_eq_not, Bool.not_true] at hbe
        exact hbe.2
    · right
      have hbe' : badEsc b ⟨.dq items, text.length - (r.length + 1)⟩ = false := by simpa using hbe
      refine ⟨hbe', ?_⟩
      have hpatok : l1.inPattern = true ∨ items.all validEsc = true := by
        rw [hpat1]
        simp only [badEsc, Bool.and_eq_false_iff, Bool.not_eq_eq_eq_not, Bool.not_true, Bool.not_false] at hbe'
        rcases hbe' with h | h
        · left; exact h
        · right; exact h
      obtain ⟨l', g1, g2, g3, g4⟩ := qstringLoop_good (quoteCol text (text.length - (r.length + 1))) l1.line
        (l1.col - 1) r' items (l1.rest.length + 2) ⟨[], true, quoteCol text (text.length - (r.length + 1))⟩ l1
        (P ++ ['"']) hwf (by rw [← hsplit]; exact hc1) hp1 (fun h => by cases h)
        (by rw [hc1.rest, hsplit]; omega) hpatok
      have hlq : lexQString l1 = setState .ground (emitText .string
          (encodeChars (implValue (quoteCol text (text.length - (r.length + 1))) items)) l') := by
        unfold lexQString
        rw [htc]
        exact g1
      rw [hloop, hlq]
      have hr' : Ready file l' := g4.ready hready1
      obtain ⟨e1, e2, e3, e4, e5, e6, e7, e8, e9, e10, e11, e12⟩ :=
        emitted .string (encodeChars (implValue (quoteCol text (text.length - (r.length + 1))) items)) l' hr'.items
      have htok : Token.mk Code.string
          (encodeChars (implValue (quoteCol text (text.length - (r.length + 1))) items)) l'.file l'.sline
          (l'.scol + 1) = conv text file ⟨.dq items, text.length - (r.length + 1)⟩ := by
        rw [← tok_eq text file P r '"' ht (.dq items) _ _
          (g4.sline.trans (by rw [hl1]; exact n5.sline.trans hk.sline))
          (g4.scol.trans (by rw [hl1]; exact n5.scol.trans hk.scol)), hr'.file]
        rfl
      rw [htok] at e1
      obtain ⟨q1, q2, q3⟩ := finish file f _ _ (P ++ ['"'] ++ (itemsChars items ++ ['"'])) r' e1 e2
        ⟨e3.trans g2.before, e4.trans g2.rest, e5.trans g2.line⟩ (posN_of_fields (g3.posN r') e6 e7)
        (e8.trans hr'.errout) (e9.trans hr'.errcnt) (e10.trans hr'.fault) (e11.trans hr'.file)
      exact ⟨q1, P ++ ['"'] ++ (itemsChars items ++ ['"']), by rw [ht, hsplit]; simp, by simp, q2,
        by rw [q3, e12, g4.inPattern]; exact hpat1⟩

theorem dropWhile_head_delim (r : List Char) : ∀ d t, r.dropWhile (fun x => !isDelim x) = d :: t → isDelim d = true := by
  intro d t h
  have := List.head?_dropWhile_not (fun x => !isDelim x) r
  rw [h] at this
  simpa using this

theorem takeWhile_nondelim (r : List Char) : ∀ x ∈ r.takeWhile (fun x => !isDelim x), isDelim x = false := by
  intro x hx
  have := mem_takeWhile_pos (fun x => !isDelim x) r x hx
  simpa using this

/-- an unquoted token: the lexer is in the state `lexUnquoted` having read `tk` of it -/
theorem unq_finish (b : Bool) (f : Nat) (l2 : Lexer) (P tk rest0 : List Char) (c : Char) (r : List Char)
    (ht : text = P ++ c :: r) (hcr : c :: r = tk ++ rest0)
    (hc : Cur l2 (P ++ tk) rest0) (hp : PosN l2 (P ++ tk) rest0) (hst : l2.start = (encodeChars P).length)
    (hsl : l2.sline = lineAfter P) (hsc : l2.scol = colAfter P) (hr : Ready file l2) (hs : l2.state = .unquoted)
    (hb : l2.inPattern = b) (hne : 0 < (tk ++ rest0.takeWhile (fun x => !isDelim x)).length) :
    (nextTokenLoop (f + 2) l2).1 = some (conv text file
      ⟨.unq (tk ++ rest0.takeWhile (fun x => !isDelim x)), text.length - (r.length + 1)⟩) ∧
    ∃ pre', text = pre' ++ rest0.dropWhile (fun x => !isDelim x) ∧ P.length < pre'.length ∧
      Gnd file (nextTokenLoop (f + 2) l2).2 pre' (rest0.dropWhile (fun x => !isDelim x)) ∧
      (nextTokenLoop (f + 2) l2).2.inPattern = b := by
  rw [nextTokenLoop_unquoted _ l2 hr.items hs]
  have hsplit : rest0 = rest0.takeWhile (fun x => !isDelim x) ++ rest0.dropWhile (fun x => !isDelim x) :=
    List.takeWhile_append_dropWhile.symm
  obtain ⟨l', h1, h2, h3, h4⟩ := unquotedLoop_chars P (rest0.dropWhile (fun x => !isDelim x))
    (dropWhile_head_delim rest0) (rest0.takeWhile (fun x => !isDelim x)) (takeWhile_nondelim rest0)
    (l2.rest.length + 1) l2 tk (by rw [← hsplit]; exact hc) (by rw [← hsplit]; exact hp) hst
    (by rw [hc.rest, ← hsplit]; exact Nat.le_refl _)
  unfold lexUnquoted
  rw [h1]
  have hr' : Ready file l' := h4.ready hr
  obtain ⟨e1, e2, e3, e4, e5, e6, e7, e8, e9, e10, e11, e12⟩ :=
    emitted .unquoted (encodeChars (tk ++ rest0.takeWhile (fun x => !isDelim x))) l' hr'.items
  have htok : Token.mk Code.unquoted (encodeChars (tk ++ rest0.takeWhile (fun x => !isDelim x))) l'.file l'.sline
      (l'.scol + 1) = conv text file
        ⟨.unq (tk ++ rest0.takeWhile (fun x => !isDelim x)), text.length - (r.length + 1)⟩ := by
    rw [← tok_eq text file P r c ht (.unq _) _ _ (h4.sline.trans hsl) (h4.scol.trans hsc), hr'.file]
    rfl
  rw [htok] at e1
  obtain ⟨q1, q2, q3⟩ := finish file f _ _ (P ++ (tk ++ rest0.takeWhile (fun x => !isDelim x)))
    (rest0.dropWhile (fun x => !isDelim x)) e1 e2 ⟨e3.trans h2.before, e4.trans h2.rest, e5.trans h2.line⟩
    (posN_of_fields h3 e6 e7) (e8.trans hr'.errout) (e9.trans hr'.errcnt) (e10.trans hr'.fault)
    (e11.trans hr'.file)
  refine ⟨q1, P ++ (tk ++ rest0.takeWhile (fun x => !isDelim x)), ?_, by rw [List.length_append]; omega, q2,
    by rw [q3, e12, h4.inPattern]; exact hb⟩
  rw [ht, hcr, List.append_assoc, List.append_assoc]
  congr 2

theorem pos_of_posN {l : Lexer} {P r : List Char} {c : Char} (h : PosN l P (c :: r)) (h1 : c ≠ '\n')
    (h2 : c ≠ '\t') : Pos l P := by
  unfold PosN at h
  split at h
  · rename_i heq; simp only [List.cons.injEq] at heq; exact absurd heq.1 h1
  · rename_i heq; simp only [List.cons.injEq] at heq; exact absurd heq.1 h2
  · exact h

theorem groundSlash_line (l : Lexer) (h : (peek (next l).2).1 = 47) :
    groundSlash l = if (skipTo [10] (peek (next l).2).2).1 then setState .ground (skipTo [10] (peek (next l).2).2).2
      else setState .done (errorfAt (skipTo [10] (peek (next l).2).2).2.line
        ((skipTo [10] (peek (next l).2).2).2.col - 1) .noNewline (skipTo [10] (peek (next l).2).2).2) := by
  unfold groundSlash
  simp only [h, if_true]

theorem groundSlash_block (l : Lexer) (h : (peek (next l).2).1 = 42) :
    groundSlash l =
      if (skipTo [42, 47] (next (peek (next l).2).2).2).1 then
        setState .ground (next (next (skipTo [42, 47] (next (peek (next l).2).2).2).2).2).2
      else setState .done (errorfAt (skipTo [42, 47] (next (peek (next l).2).2).2).2.line
        ((skipTo [42, 47] (next (peek (next l).2).2).2).2.col - 2) .missingCommentEnd
        (skipTo [42, 47] (next (peek (next l).2).2).2).2) := by
  unfold groundSlash
  simp only [h, if_true]
  simp

theorem groundSlash_tok (l : Lexer) (h1 : (peek (next l).2).1 ≠ 47) (h2 : (peek (next l).2).1 ≠ 42) :
    groundSlash l = setState .unquoted (peek (next l).2).2 := by
  unfold groundSlash
  simp only [h1, h2, if_false]

/-- `// …`: the lexer is back in the ground state at the end of the line -/
theorem line_comment (l : Lexer) (P s r2 : List Char) (hk : Tk file l P ('/' :: '/' :: (s ++ '\n' :: r2)))
    (hs : '\n' ∉ s) :
    Gnd file (groundSlash l) (P ++ ['/'] ++ ('/' :: s)) ('\n' :: r2) ∧ (groundSlash l).inPattern = l.inPattern := by
  obtain ⟨n1, n2, n3, _, n5⟩ := next_char l P _ '/' hk.cur (hk.pos.posN _)
  obtain ⟨p1, p2, p3, p4⟩ := peek_char (next l).2 _ _ '/' n2 (n3.posN _)
  have hpos : Pos (peek (next l).2).2 (P ++ ['/']) := pos_of_posN p3 (by decide) (by decide)
  have hidx : indexOf [10] (peek (next l).2).2.rest = some (encodeChars ('/' :: s)).length := by
    rw [p2.rest]
    exact indexOf_char '\n' (by decide) ('/' :: s) r2 (by
      simp only [List.mem_cons, not_or]; exact ⟨by decide, hs⟩)
  obtain ⟨u1, u2, u3⟩ := updateCursor_chars (peek (next l).2).2 (P ++ ['/']) ('/' :: s) ('\n' :: r2)
    p2 hpos
  have hg : groundSlash l = setState .ground (updateCursor (encodeChars ('/' :: s)).length (peek (next l).2).2) := by
    rw [groundSlash_line l (by rw [p1]; rfl), skipTo_found _ _ _ hidx]
    rfl
  rw [hg]
  have hfr := (n5.trans p4).trans u3
  obtain ⟨l2, hl2⟩ : ∃ l2, l2 = updateCursor (encodeChars ('/' :: s)).length (peek (next l).2).2 := ⟨_, rfl⟩
  rw [← hl2] at u1 u2 u3 hfr ⊢
  refine ⟨⟨⟨?_, ?_, ?_⟩, ?_, ⟨?_, ?_, ?_, ?_, ?_⟩, setState_state _ _⟩, ?_⟩
  · rw [setState_before]; exact u1.before
  · rw [setState_rest]; exact u1.rest
  · rw [setState_line]; exact u1.line
  · exact posN_of_fields (u2.posN _) (setState_col _ _) (setState_tcol _ _)
  · rw [setState_items]; exact hfr.items.trans hk.ready.items
  · rw [setState_errout]; exact hfr.errout.trans hk.ready.errout
  · rw [setState_errcnt]; exact hfr.errcnt.trans hk.ready.errcnt
  · rw [setState_fault]; exact hfr.fault.trans hk.ready.fault
  · rw [setState_file]; exact hfr.file.trans hk.ready.file
  · rw [setState_inPattern]; exact hfr.inPattern

/-- `/* … */` -/
theorem block_comment (l : Lexer) (P r1 : List Char) (hk : Tk file l P ('/' :: '*' :: r1)) :
    match findSS r1 with
    | none => (groundSlash l).errout ≠ []
    | some (s, r2) =>
      Gnd file (groundSlash l) (P ++ ['/', '*'] ++ s ++ ['*', '/']) r2 ∧ (groundSlash l).inPattern = l.inPattern := by
  obtain ⟨n1, n2, n3, _, n5⟩ := next_char l P _ '/' hk.cur (hk.pos.posN _)
  obtain ⟨p1, p2, p3, p4⟩ := peek_char (next l).2 _ _ '*' n2 (n3.posN _)
  obtain ⟨m1, m2, m3, _, m5⟩ := next_char (peek (next l).2).2 _ _ '*' p2 p3
  obtain ⟨l3, hl3⟩ : ∃ l3, l3 = (next (peek (next l).2).2).2 := ⟨_, rfl⟩
  rw [← hl3] at m2 m3 m5
  have hfr3 : Frame l l3 := (n5.trans p4).trans m5
  have hidx := indexOf_ss r1.length r1 (Nat.le_refl _)
  cases hf : findSS r1 with
  | none =>
    simp only
    rw [hf] at hidx
    have hg : groundSlash l = setState .done (errorfAt l3.line (l3.col - 2) .missingCommentEnd l3) := by
      rw [groundSlash_block l (by rw [p1]; rfl), ← hl3, skipTo_none _ _ (by rw [m2.rest]; exact hidx)]
      rfl
    rw [hg]
    exact errorfAt_errout _ _ _ _ (Or.inl (hfr3.errcnt.trans hk.ready.errcnt))
  | some p =>
    obtain ⟨s, r2⟩ := p
    simp only
    rw [hf] at hidx
    have hsplit := findSS_split r1.length r1 (Nat.le_refl _) s r2 hf
    obtain ⟨u1, u2, u3⟩ := updateCursor_chars l3 (P ++ ['/'] ++ ['*']) s ('*' :: '/' :: r2)
      (by rw [← hsplit]; exact m2) m3
    obtain ⟨l4, hl4⟩ : ∃ l4, l4 = updateCursor (encodeChars s).length l3 := ⟨_, rfl⟩
    rw [← hl4] at u1 u2 u3
    obtain ⟨a1, a2, a3, _, a5⟩ := next_char l4 _ _ '*' u1 (u2.posN _)
    obtain ⟨b1, b2, b3, _, b5⟩ := next_char (next l4).2 _ _ '/' a2 (a3.posN _)
    have hg : groundSlash l = setState .ground (next (next l4).2).2 := by
      rw [groundSlash_block l (by rw [p1]; rfl), ← hl3, skipTo_found _ _ _ (by rw [m2.rest]; exact hidx), ← hl4]
      rfl
    rw [hg]
    have hfr := ((hfr3.trans u3).trans a5).trans b5
    obtain ⟨l6, hl6⟩ : ∃ l6, l6 = (next (next l4).2).2 := ⟨_, rfl⟩
    rw [← hl6] at b2 b3 hfr ⊢
    have hP : P ++ ['/', '*'] ++ s ++ ['*', '/'] = P ++ ['/'] ++ ['*'] ++ s ++ ['*'] ++ ['/'] := by simp
    rw [hP]
    refine ⟨⟨⟨?_, ?_, ?_⟩, ?_, ⟨?_, ?_, ?_, ?_, ?_⟩, setState_state _ _⟩, ?_⟩
    · rw [setState_before]; exact b2.before
    · rw [setState_rest]; exact b2.rest
    · rw [setState_line]; exact b2.line
    · exact posN_of_fields (b3.posN _) (setState_col _ _) (setState_tcol _ _)
    · rw [setState_items]; exact hfr.items.trans hk.ready.items
    · rw [setState_errout]; exact hfr.errout.trans hk.ready.errout
    · rw [setState_errcnt]; exact hfr.errcnt.trans hk.ready.errcnt
    · rw [setState_fault]; exact hfr.fault.trans hk.ready.fault
    · rw [setState_file]; exact hfr.file.trans hk.ready.file
    · rw [setState_inPattern]; exact hfr.inPattern

theorem groundPlus_quote (l : Lexer) (h : (peek (next l).2).1 = 34 ∨ (peek (next l).2).1 = 39) :
    groundPlus l = setState .ground (emit .unquoted (peek (next l).2).2) := by
  unfold groundPlus
  rcases h with h | h <;> simp [h]

theorem groundPlus_tok (l : Lexer) (h1 : (peek (next l).2).1 ≠ 34) (h2 : (peek (next l).2).1 ≠ 39) :
    groundPlus l = setState .unquoted (peek (next l).2).2 := by
  unfold groundPlus
  simp [h1, h2]

/-- `+` directly before a quote is a token of its own -/
theorem plus_quote (b : Bool) (f : Nat) (l : Lexer) (P r' : List Char) (q : Char) (hq : q = '"' ∨ q = '\'')
    (ht : text = P ++ '+' :: q :: r') (hk : Tk file l P ('+' :: q :: r')) (hb : l.inPattern = b) :
    (nextTokenLoop (f + 1) (groundPlus l)).1 =
      some (conv text file ⟨.unq ['+'], text.length - ((q :: r').length + 1)⟩) ∧
    ∃ pre', text = pre' ++ q :: r' ∧ P.length < pre'.length ∧
      Gnd file (nextTokenLoop (f + 1) (groundPlus l)).2 pre' (q :: r') ∧
      (nextTokenLoop (f + 1) (groundPlus l)).2.inPattern = b := by
  obtain ⟨n1, n2, n3, _, n5⟩ := next_char l P _ '+' hk.cur (hk.pos.posN _)
  obtain ⟨p1, p2, p3, p4⟩ := peek_char (next l).2 _ _ q n2 (n3.posN _)
  obtain ⟨l2, hl2⟩ : ∃ l2, l2 = (peek (next l).2).2 := ⟨_, rfl⟩
  rw [← hl2] at p2 p3 p4
  have hfr : Frame l l2 := n5.trans p4
  have hr2 : Ready file l2 := hfr.ready hk.ready
  have hg : groundPlus l = setState .ground (emitText .unquoted (encodeChars ['+']) l2) := by
    rw [groundPlus_quote l (by
      rw [p1]; rcases hq with h | h
      · left; rw [h]; rfl
      · right; rw [h]; rfl), ← hl2]
    rw [emit_eq .unquoted l2 P ['+'] (q :: r') p2 (by rw [hfr.start]; exact hk.start)]
  rw [hg]
  obtain ⟨e1, e2, e3, e4, e5, e6, e7, e8, e9, e10, e11, e12⟩ := emitted .unquoted (encodeChars ['+']) l2 hr2.items
  have htok : Token.mk Code.unquoted (encodeChars ['+']) l2.file l2.sline (l2.scol + 1) =
      conv text file ⟨.unq ['+'], text.length - ((q :: r').length + 1)⟩ := by
    rw [← tok_eq text file P (q :: r') '+' ht (.unq ['+']) _ _ (hfr.sline.trans hk.sline)
      (hfr.scol.trans hk.scol), hr2.file]
    rfl
  rw [htok] at e1
  obtain ⟨q1, q2, q3⟩ := finish file f _ _ (P ++ ['+']) (q :: r') e1 e2
    ⟨e3.trans p2.before, e4.trans p2.rest, e5.trans p2.line⟩ (posN_of_fields p3 e6 e7)
    (e8.trans hr2.errout) (e9.trans hr2.errcnt) (e10.trans hr2.fault) (e11.trans hr2.file)
  exact ⟨q1, P ++ ['+'], by rw [ht]; simp, by simp, q2, by rw [q3, e12, hfr.inPattern]; exact hb⟩

/-! ### the dispatch of `lexGround` -/

theorem lexGround_eof (l : Lexer) (h : (peek (groundStart l)).1 = eofRune) :
    lexGround l = setState .done (peek (groundStart l)).2 := by
  unfold lexGround; simp only [h, if_true]

theorem lexGround_punct (l : Lexer) (h0 : (peek (groundStart l)).1 ≠ eofRune)
    (h : (peek (groundStart l)).1 = 59 ∨ (peek (groundStart l)).1 = 123 ∨ (peek (groundStart l)).1 = 125) :
    lexGround l = setState .ground (emit (.punct (UInt8.ofNat (peek (groundStart l)).1))
      (next (peek (groundStart l)).2).2) := by
  unfold lexGround
  simp only [h0, if_false]
  rcases h with h | h | h <;> simp [h]

theorem lexGround_sq (l : Lexer) (h : (peek (groundStart l)).1 = 39) :
    lexGround l = groundSQuote (peek (groundStart l)).2 := by
  unfold lexGround; simp [h, eofRune]

theorem lexGround_dq (l : Lexer) (h : (peek (groundStart l)).1 = 34) :
    lexGround l = setState .qstring (next (peek (groundStart l)).2).2 := by
  unfold lexGround; simp [h, eofRune]

theorem lexGround_slash (l : Lexer) (h : (peek (groundStart l)).1 = 47) :
    lexGround l = groundSlash (peek (groundStart l)).2 := by
  unfold lexGround; simp [h, eofRune]

theorem lexGround_plus (l : Lexer) (h : (peek (groundStart l)).1 = 43) :
    lexGround l = groundPlus (peek (groundStart l)).2 := by
  unfold lexGround; simp [h, eofRune]

theorem lexGround_other (l : Lexer) (h0 : (peek (groundStart l)).1 ≠ eofRune)
    (h1 : (peek (groundStart l)).1 ≠ 59) (h2 : (peek (groundStart l)).1 ≠ 123)
    (h3 : (peek (groundStart l)).1 ≠ 125) (h4 : (peek (groundStart l)).1 ≠ 39)
    (h5 : (peek (groundStart l)).1 ≠ 34) (h6 : (peek (groundStart l)).1 ≠ 47)
    (h7 : (peek (groundStart l)).1 ≠ 43) :
    lexGround l = setState .unquoted (peek (groundStart l)).2 := by
  unfold lexGround
  simp only [h0, h1, h2, h3, h4, h5, h6, h7, if_false, Bool.or_self, Bool.false_eq_true, decide_false]

/-! ### the reference reader's next token, by first character -/

theorem specNext_nil : specNext text.length [] = some none := by
  simp [specNext, specNextG, skipGround]

theorem specNext_tok (c : Char) (r : List Char) (hs : isSpace c = false) (hc : c ≠ '/') :
    specNext text.length (c :: r) = specNextG text.length (some (c :: r)) := by
  unfold specNext; rw [skipGround_token c r hs hc]

theorem takeWhile_cons_nondelim (c : Char) (r : List Char) (h : isDelim c = false) :
    (c :: r).takeWhile (fun x => !isDelim x) = c :: r.takeWhile (fun x => !isDelim x) ∧
    (c :: r).dropWhile (fun x => !isDelim x) = r.dropWhile (fun x => !isDelim x) := by
  simp [List.takeWhile_cons, List.dropWhile_cons, h]

theorem encodeChars_length_append (a b : List Char) :
    (encodeChars (a ++ b)).length = (encodeChars a).length + (encodeChars b).length := by
  rw [encodeChars_append, List.length_append]

theorem encodeChars_length_ge (a : List Char) : a.length ≤ (encodeChars a).length := by
  induction a with
  | nil => simp [encodeChars]
  | cons c r ih =>
    rw [encodeChars_cons, List.length_append, List.length_cons]
    have := encChar_length_pos c
    omega

/-- `unq_finish` for a lexer that has just been put into the state `lexUnquoted` -/
theorem unq_from (b : Bool) (f : Nat) (X : Lexer) (P tk rest0 : List Char) (c : Char) (r : List Char)
    (ht : text = P ++ c :: r) (hcr : c :: r = tk ++ rest0)
    (hc : Cur X (P ++ tk) rest0) (hp : PosN X (P ++ tk) rest0) (hst : X.start = (encodeChars P).length)
    (hsl : X.sline = lineAfter P) (hsc : X.scol = colAfter P) (hr : Ready file X) (hb : X.inPattern = b)
    (hne : 0 < (tk ++ rest0.takeWhile (fun x => !isDelim x)).length) :
    (nextTokenLoop (f + 2) (setState .unquoted X)).1 = some (conv text file
      ⟨.unq (tk ++ rest0.takeWhile (fun x => !isDelim x)), text.length - (r.length + 1)⟩) ∧
    ∃ pre', text = pre' ++ rest0.dropWhile (fun x => !isDelim x) ∧ P.length < pre'.length ∧
      Gnd file (nextTokenLoop (f + 2) (setState .unquoted X)).2 pre' (rest0.dropWhile (fun x => !isDelim x)) ∧
      (nextTokenLoop (f + 2) (setState .unquoted X)).2.inPattern = b :=
  unq_finish text file b f (setState .unquoted X) P tk rest0 c r ht hcr ⟨hc.before, hc.rest, hc.line⟩
    (posN_of_fields hp (setState_col _ _) (setState_tcol _ _)) hst hsl hsc
    ⟨hr.items, hr.errout, hr.errcnt, hr.fault, hr.file⟩ (setState_state _ _) hb hne

/-- **(d)** `NextToken` from the ground state against the next token of the reference reader -/
theorem ground_sim : ∀ (n : Nat) (suf : List Char), suf.length ≤ n → ∀ (pre : List Char) (l : Lexer) (f : Nat),
    text = pre ++ suf → Gnd file l pre suf → EndsNL suf → (encodeChars suf).length + 3 ≤ f →
    Outcome text file l.inPattern pre suf (nextTokenLoop f l) := by
  intro n
  induction n using Nat.strongRecOn with
  | _ n ih =>
    intro suf hn pre l f ht hg hnl hf
    obtain ⟨f, rfl⟩ : ∃ f', f = f' + 1 := ⟨f - 1, by omega⟩
    rw [nextTokenLoop_ground f l hg.ready.items hg.state]
    -- the white space in front
    obtain ⟨bl, hbl⟩ : ∃ bl, bl = suf.takeWhile isSpace := ⟨_, rfl⟩
    obtain ⟨suf', hsuf'⟩ : ∃ suf', suf' = suf.dropWhile isSpace := ⟨_, rfl⟩
    have hsplit : suf = bl ++ suf' := by rw [hbl, hsuf']; exact List.takeWhile_append_dropWhile.symm
    have hblsp : ∀ x ∈ bl, isSpace x = true := by
      intro x hx; rw [hbl] at hx; exact mem_takeWhile_pos isSpace suf x hx
    have hhead : ∀ c r, suf' = c :: r → isSpace c = false := by
      intro c r h
      have := List.head?_dropWhile_not isSpace suf
      rw [← hsuf', h] at this
      simpa using this
    obtain ⟨g1, g2, g3, g4, g5, g6⟩ := groundStart_chars l pre bl suf' hblsp hhead (by rw [← hsplit]; exact hg.cur)
      (by rw [← hsplit]; exact hg.posn)
    apply Outcome_congr text file _ pre (pre ++ bl) suf suf' _
      (by rw [hsplit]; exact skipGround_blanks bl suf' hblsp) (by simp)
    have htext : text = (pre ++ bl) ++ suf' := by rw [ht, hsplit]; simp
    have hready0 : Ready file (groundStart l) := g6.ready hg.ready
    have hnl' : EndsNL suf' := by rw [hsplit] at hnl; exact hnl.suffix
    have hlen' : (encodeChars suf').length ≤ (encodeChars suf).length := by
      rw [hsplit, encodeChars_length_append]; omega
    have hslen : suf'.length ≤ suf.length := by rw [hsplit]; simp
    cases hs' : suf' with
    | nil =>
      -- nothing but white space is left
      rw [hs'] at g1
      obtain ⟨p1, p2, p3, p4, p5⟩ := peek_eof (groundStart l) _ g1
      rw [lexGround_eof l p1]
      obtain ⟨f, rfl⟩ : ∃ f', f = f' + 1 := ⟨f - 1, by omega⟩
      have hr1 : Ready file (peek (groundStart l)).2 := p5.ready hready0
      rw [nextTokenLoop_done f _ (by rw [setState_items]; exact hr1.items) (setState_state _ _)]
      unfold Outcome
      rw [specNext_nil]
      exact ⟨rfl, setState_state _ _, ⟨hr1.items, hr1.errout, hr1.errcnt, hr1.fault, hr1.file⟩,
        by rw [setState_inPattern, p5.inPattern, g6.inPattern]⟩
    | cons c r =>
      rw [hs'] at g1 htext hnl' hlen' hslen
      have hcs : isSpace c = false := hhead c r hs'
      have hcn : c ≠ '\n' := by intro h; rw [h] at hcs; simp [isSpace] at hcs
      have hct : c ≠ '\t' := by intro h; rw [h] at hcs; simp [isSpace] at hcs
      obtain ⟨p1, p2, p3, p4⟩ := peek_char (groundStart l) _ r c g1 (g2.posN _)
      obtain ⟨l1, hl1⟩ : ∃ l1, l1 = (peek (groundStart l)).2 := ⟨_, rfl⟩
      rw [← hl1] at p2 p3 p4
      have hk : Tk file l1 (pre ++ bl) (c :: r) :=
        ⟨p2, pos_of_posN p3 hcn hct, p4.start.trans g3, p4.sline.trans g4, p4.scol.trans g5, p4.ready hready0,
         p4.state.trans (g6.state.trans hg.state)⟩
      have hpat1 : l1.inPattern = l.inPattern := p4.inPattern.trans g6.inPattern
      have hne0 : (peek (groundStart l)).1 ≠ eofRune := by rw [p1]; exact char_ne_eof c
      have k (d : Char) : (peek (groundStart l)).1 = d.toNat ↔ c = d := by rw [p1]; exact toNat_eq_iff c d
      have hfuel : (encodeChars r).length + 3 ≤ f := by
        have := encodeChars_length_cons c r
        omega
      by_cases hsemi : c = ';' ∨ c = '{' ∨ c = '}'
      · -- punctuation
        have hp : (peek (groundStart l)).1 = 59 ∨ (peek (groundStart l)).1 = 123 ∨ (peek (groundStart l)).1 = 125 := by
          rcases hsemi with h | h | h
          · exact Or.inl ((k ';').2 h)
          · exact Or.inr (Or.inl ((k '{').2 h))
          · exact Or.inr (Or.inr ((k '}').2 h))
        rw [lexGround_punct l hne0 hp, ← hl1, p1]
        obtain ⟨f, rfl⟩ : ∃ f', f = f' + 1 := ⟨f - 1, by omega⟩
        have hslash : c ≠ '/' := by rcases hsemi with h | h | h <;> (rw [h]; decide)
        unfold Outcome
        rw [specNext_tok text c r hcs hslash]
        rcases hsemi with h | h | h
        · obtain ⟨q1, q2⟩ := punct_case text file l.inPattern f l1 (pre ++ bl) r c htext hk hpat1 .semi (Or.inl ⟨h, rfl⟩)
          have : specNextG text.length (some (c :: r)) = some (some (⟨.semi, text.length - (r.length + 1)⟩, r)) := by
            simp [specNextG, h]
          rw [this]
          exact Or.inr ⟨by simp [badEsc], q1, q2⟩
        · obtain ⟨q1, q2⟩ := punct_case text file l.inPattern f l1 (pre ++ bl) r c htext hk hpat1 .lbrace
            (Or.inr (Or.inl ⟨h, rfl⟩))
          have : specNextG text.length (some (c :: r)) = some (some (⟨.lbrace, text.length - (r.length + 1)⟩, r)) := by
            simp [specNextG, h]
          rw [this]
          exact Or.inr ⟨by simp [badEsc], q1, q2⟩
        · obtain ⟨q1, q2⟩ := punct_case text file l.inPattern f l1 (pre ++ bl) r c htext hk hpat1 .rbrace
            (Or.inr (Or.inr ⟨h, rfl⟩))
          have : specNextG text.length (some (c :: r)) = some (some (⟨.rbrace, text.length - (r.length + 1)⟩, r)) := by
            simp [specNextG, h]
          rw [this]
          exact Or.inr ⟨by simp [badEsc], q1, q2⟩
      · have hn1 : c ≠ ';' := fun h => hsemi (Or.inl h)
        have hn2 : c ≠ '{' := fun h => hsemi (Or.inr (Or.inl h))
        have hn3 : c ≠ '}' := fun h => hsemi (Or.inr (Or.inr h))
        by_cases hsq : c = '\''
        · -- single-quoted string
          subst hsq
          rw [lexGround_sq l ((k '\'').2 rfl), ← hl1]
          obtain ⟨f, rfl⟩ : ∃ f', f = f' + 1 := ⟨f - 1, by omega⟩
          have hcase := sq_case text file l.inPattern f l1 (pre ++ bl) r htext hk hpat1
          unfold Outcome
          rw [specNext_tok text '\'' r hcs (by decide)]
          cases hsc : scanSq r with
          | none =>
            rw [hsc] at hcase
            have : specNextG text.length (some ('\'' :: r)) = none := by simp [specNextG, hsc]
            rw [this]
            simp only at hcase ⊢
            exact hcase _
          | some p =>
            obtain ⟨s0, r'⟩ := p
            rw [hsc] at hcase
            have : specNextG text.length (some ('\'' :: r)) =
                some (some (⟨.sq s0, text.length - (r.length + 1)⟩, r')) := by simp [specNextG, hsc]
            rw [this]
            exact Or.inr ⟨by simp [badEsc], hcase.1, hcase.2⟩
        · by_cases hdq : c = '"'
          · -- double-quoted string
            subst hdq
            rw [lexGround_dq l ((k '"').2 rfl), ← hl1]
            obtain ⟨f, rfl⟩ : ∃ f', f = f' + 2 := ⟨f - 2, by omega⟩
            have hcase := dq_case text file l.inPattern f l1 (pre ++ bl) r htext hk hpat1
            unfold Outcome
            rw [specNext_tok text '"' r hcs (by decide)]
            cases hsc : scanDq r with
            | none =>
              rw [hsc] at hcase
              have : specNextG text.length (some ('"' :: r)) = none := by simp [specNextG, hsc]
              rw [this]
              simp only at hcase ⊢
              exact hcase _
            | some p =>
              obtain ⟨items, r'⟩ := p
              rw [hsc] at hcase
              have : specNextG text.length (some ('"' :: r)) =
                  some (some (⟨.dq items, text.length - (r.length + 1)⟩, r')) := by simp [specNextG, hsc]
              rw [this]
              simp only at hcase ⊢
              rcases hcase with ⟨h1, h2⟩ | ⟨h1, h2, h3⟩
              · exact Or.inl ⟨h1, h2 _⟩
              · exact Or.inr ⟨h1, h2, h3⟩
          · have hdelim : isDelim c = false := by
              simp [isDelim, hcs, hn1, hn2, hn3, hsq, hdq]
            by_cases hsl : c = '/'
            · subst hsl
              rw [lexGround_slash l ((k '/').2 rfl), ← hl1]
              obtain ⟨n1, n2, n3, _, n5⟩ := next_char l1 (pre ++ bl) r '/' hk.cur (hk.pos.posN _)
              cases hr : r with
              | nil =>
                -- a lone `/` at the end
                rw [hr] at n2 htext hk
                obtain ⟨e1, e2, e3, e4, e5⟩ := peek_eof (next l1).2 _ n2
                rw [groundSlash_tok l1 (by rw [e1]; decide) (by rw [e1]; decide)]
                obtain ⟨f, rfl⟩ : ∃ f', f = f' + 2 := ⟨f - 2, by omega⟩
                have hfr := n5.trans e5
                obtain ⟨q1, q2⟩ := unq_from text file l.inPattern f (peek (next l1).2).2 (pre ++ bl) ['/'] [] '/' []
                  htext rfl e2 (by
                    show Pos _ _
                    exact ⟨by rw [e3]; exact n3.col, by rw [e4]; exact n3.tcol⟩)
                  (hfr.start.trans hk.start) (hfr.sline.trans hk.sline) (hfr.scol.trans hk.scol)
                  (hfr.ready hk.ready) (hfr.inPattern.trans hpat1) (by simp)
                unfold Outcome specNext
                rw [skipGround_slash, afterSlash_token [] (fun c r' h => by cases h)]
                have : specNextG text.length (some ['/']) =
                    some (some (⟨.unq ['/'], text.length - (([] : List Char).length + 1)⟩, [])) := by
                  simp [specNextG, isDelim, isSpace]
                rw [this]
                exact Or.inr ⟨by simp [badEsc], q1, q2⟩
              | cons d r1 =>
                rw [hr] at n2 htext hk hnl' hslen hfuel
                by_cases hd1 : d = '/'
                · -- `//`
                  subst hd1
                  have hmem : '\n' ∈ r1 := by
                    have := hnl'.mem (by simp)
                    simpa using this
                  obtain ⟨s0, r2, hr1, hs0⟩ := split_first '\n' r1 hmem
                  rw [hr1] at hk htext hslen hfuel
                  obtain ⟨c1, c2⟩ := line_comment file l1 (pre ++ bl) s0 r2 hk hs0
                  have hout := ih ('\n' :: r2).length (by
                      simp only [List.length_cons, List.length_append] at hslen ⊢; omega)
                    ('\n' :: r2) (Nat.le_refl _) _ (groundSlash l1) f (by rw [htext]; simp) c1
                    (by rw [hr1] at hnl'
                        have h1 : EndsNL (['/', '/'] ++ s0 ++ '\n' :: r2) := by simpa using hnl'
                        exact h1.suffix)
                    (by
                      have h1 : (encodeChars ('\n' :: r2)).length ≤ (encodeChars ('/' :: (s0 ++ '\n' :: r2))).length := by
                        rw [show '/' :: (s0 ++ '\n' :: r2) = ('/' :: s0) ++ '\n' :: r2 from rfl,
                          encodeChars_length_append]; omega
                      omega)
                  rw [c2, hpat1] at hout
                  refine Outcome_congr text file _ _ _ _ _ _ ?_ (by simp) hout
                  rw [skipGround_slash, afterSlash_line, hr1, skipLine_found s0 r2 hs0]
                  rw [skipGround]; simp [isSpace]
                · by_cases hd2 : d = '*'
                  · -- `/*`
                    subst hd2
                    have hcase := block_comment file l1 (pre ++ bl) r1 hk
                    cases hfs : findSS r1 with
                    | none =>
                      rw [hfs] at hcase
                      unfold Outcome specNext
                      rw [skipGround_slash, afterSlash_block, skipBlock_none r1 hfs]
                      simp only [specNextG]
                      exact nextTokenLoop_keeps f _ hcase
                    | some p =>
                      obtain ⟨s0, r2⟩ := p
                      rw [hfs] at hcase
                      obtain ⟨c1, c2⟩ := hcase
                      have hsp := findSS_split r1.length r1 (Nat.le_refl _) s0 r2 hfs
                      have hout := ih r2.length (by
                          rw [hsp] at hslen
                          simp only [List.length_cons, List.length_append] at hslen ⊢; omega)
                        r2 (Nat.le_refl _) _ (groundSlash l1) f (by rw [htext, hsp]; simp) c1
                        (by rw [hsp] at hnl'
                            have h1 : EndsNL (['/', '*'] ++ s0 ++ ['*', '/'] ++ r2) := by simpa using hnl'
                            exact h1.suffix)
                        (by
                          rw [hsp] at hfuel
                          have h1 : (encodeChars r2).length ≤ (encodeChars ('*' :: (s0 ++ '*' :: '/' :: r2))).length := by
                            rw [show '*' :: (s0 ++ '*' :: '/' :: r2) = ('*' :: s0 ++ ['*', '/']) ++ r2 by simp,
                              encodeChars_length_append]; omega
                          omega)
                      rw [c2, hpat1] at hout
                      refine Outcome_congr text file _ _ _ _ _ _ ?_ (by simp) hout
                      rw [skipGround_slash, afterSlash_block, skipBlock_found r1 s0 r2 hfs]
                  · -- a token that starts with `/`
                    obtain ⟨e1, e2, e3, e4⟩ := peek_char (next l1).2 _ r1 d n2 (n3.posN _)
                    rw [groundSlash_tok l1 (by rw [e1]; intro h; exact hd1 ((toNat_eq_iff d '/').1 h))
                      (by rw [e1]; intro h; exact hd2 ((toNat_eq_iff d '*').1 h))]
                    obtain ⟨f, rfl⟩ : ∃ f', f = f' + 2 := ⟨f - 2, by omega⟩
                    have hfr := n5.trans e4
                    obtain ⟨q1, q2⟩ := unq_from text file l.inPattern f (peek (next l1).2).2 (pre ++ bl) ['/']
                      (d :: r1) '/' (d :: r1) htext rfl e2 e3 (hfr.start.trans hk.start) (hfr.sline.trans hk.sline)
                      (hfr.scol.trans hk.scol) (hfr.ready hk.ready) (hfr.inPattern.trans hpat1) (by simp)
                    unfold Outcome specNext
                    rw [skipGround_slash, afterSlash_token (d :: r1) (fun c' r' h => by
                      simp only [List.cons.injEq] at h; rw [← h.1]; exact ⟨hd1, hd2⟩)]
                    obtain ⟨t1, t2⟩ := takeWhile_cons_nondelim '/' (d :: r1) (by simp [isDelim, isSpace])
                    have : specNextG text.length (some ('/' :: d :: r1)) =
                        some (some (⟨.unq ('/' :: (d :: r1).takeWhile (fun x => !isDelim x)),
                          text.length - ((d :: r1).length + 1)⟩, (d :: r1).dropWhile (fun x => !isDelim x))) := by
                      simp only [specNextG]
                      rw [t1, t2]
                      simp
                    rw [this]
                    exact Or.inr ⟨by simp [badEsc], q1, q2⟩
            · by_cases hpl : c = '+'
              · subst hpl
                rw [lexGround_plus l ((k '+').2 rfl), ← hl1]
                obtain ⟨n1, n2, n3, _, n5⟩ := next_char l1 (pre ++ bl) r '+' hk.cur (hk.pos.posN _)
                unfold Outcome
                rw [specNext_tok text '+' r hcs (by decide)]
                obtain ⟨t1, t2⟩ := takeWhile_cons_nondelim '+' r (by simp [isDelim, isSpace])
                have hspec : specNextG text.length (some ('+' :: r)) =
                    some (some (⟨.unq ('+' :: r.takeWhile (fun x => !isDelim x)),
                      text.length - (r.length + 1)⟩, r.dropWhile (fun x => !isDelim x))) := by
                  simp only [specNextG]
                  rw [t1, t2]
                  simp
                rw [hspec]
                cases hr : r with
                | nil =>
                  rw [hr] at n2 htext hk
                  obtain ⟨e1, e2, e3, e4, e5⟩ := peek_eof (next l1).2 _ n2
                  rw [groundPlus_tok l1 (by rw [e1]; decide) (by rw [e1]; decide)]
                  obtain ⟨f, rfl⟩ : ∃ f', f = f' + 2 := ⟨f - 2, by omega⟩
                  have hfr := n5.trans e5
                  obtain ⟨q1, q2⟩ := unq_from text file l.inPattern f (peek (next l1).2).2 (pre ++ bl) ['+'] [] '+' []
                    htext rfl e2 (by
                      show Pos _ _
                      exact ⟨by rw [e3]; exact n3.col, by rw [e4]; exact n3.tcol⟩)
                    (hfr.start.trans hk.start) (hfr.sline.trans hk.sline) (hfr.scol.trans hk.scol)
                    (hfr.ready hk.ready) (hfr.inPattern.trans hpat1) (by simp)
                  exact Or.inr ⟨by simp [badEsc], q1, q2⟩
                | cons d r1 =>
                  rw [hr] at n2 htext hk
                  obtain ⟨e1, e2, e3, e4⟩ := peek_char (next l1).2 _ r1 d n2 (n3.posN _)
                  by_cases hq : d = '"' ∨ d = '\''
                  · -- `+` directly before a quote
                    obtain ⟨f, rfl⟩ : ∃ f', f = f' + 1 := ⟨f - 1, by omega⟩
                    obtain ⟨q1, q2⟩ := plus_quote text file l.inPattern f l1 (pre ++ bl) r1 d hq htext hk hpat1
                    have hdd : isDelim d = true := by
                      rcases hq with h | h <;> (rw [h]; decide)
                    have h1 : (d :: r1).takeWhile (fun x => !isDelim x) = [] := by
                      simp [List.takeWhile_cons, hdd]
                    have h2 : (d :: r1).dropWhile (fun x => !isDelim x) = d :: r1 := by
                      simp [List.dropWhile_cons, hdd]
                    rw [h1, h2]
                    exact Or.inr ⟨by simp [badEsc], q1, q2⟩
                  · have hq1 : d ≠ '"' := fun h => hq (Or.inl h)
                    have hq2 : d ≠ '\'' := fun h => hq (Or.inr h)
                    rw [groundPlus_tok l1 (by rw [e1]; intro h; exact hq1 ((toNat_eq_iff d '"').1 h))
                      (by rw [e1]; intro h; exact hq2 ((toNat_eq_iff d '\'').1 h))]
                    obtain ⟨f, rfl⟩ : ∃ f', f = f' + 2 := ⟨f - 2, by omega⟩
                    have hfr := n5.trans e4
                    obtain ⟨q1, q2⟩ := unq_from text file l.inPattern f (peek (next l1).2).2 (pre ++ bl) ['+']
                      (d :: r1) '+' (d :: r1) htext rfl e2 e3 (hfr.start.trans hk.start) (hfr.sline.trans hk.sline)
                      (hfr.scol.trans hk.scol) (hfr.ready hk.ready) (hfr.inPattern.trans hpat1) (by simp)
                    exact Or.inr ⟨by simp [badEsc], q1, q2⟩
              · -- any other character starts an unquoted token
                rw [lexGround_other l hne0 (fun h => hn1 ((k ';').1 h)) (fun h => hn2 ((k '{').1 h))
                  (fun h => hn3 ((k '}').1 h)) (fun h => hsq ((k '\'').1 h)) (fun h => hdq ((k '"').1 h))
                  (fun h => hsl ((k '/').1 h)) (fun h => hpl ((k '+').1 h)), ← hl1]
                obtain ⟨f, rfl⟩ : ∃ f', f = f' + 2 := ⟨f - 2, by omega⟩
                obtain ⟨q1, q2⟩ := unq_from text file l.inPattern f l1 (pre ++ bl) [] (c :: r) c r htext rfl
                  (by simpa using hk.cur) (by simpa using p3) hk.start hk.sline hk.scol hk.ready hpat1
                  (by simp [List.takeWhile_cons, hdelim])
                unfold Outcome
                rw [specNext_tok text c r hcs hsl]
                have hspec : specNextG text.length (some (c :: r)) =
                    some (some (⟨.unq ((c :: r).takeWhile (fun x => !isDelim x)),
                      text.length - (r.length + 1)⟩, (c :: r).dropWhile (fun x => !isDelim x))) := by
                  simp [specNextG, hn1, hn2, hn3, hsq, hdq]
                rw [hspec]
                exact Or.inr ⟨by simp [badEsc], by simpa using q1, by simpa using q2⟩

end

end Goyang.Lemmas.TokSim
