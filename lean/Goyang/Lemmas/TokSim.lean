/-
(d) One call of `NextToken` of the lexer model on a well-encoded text = the next token of the
reference reader (`specNext`): same kind, same text (for double-quoted strings: the fold of
`Lemmas/QStr.lean`), same position; the lexer ends up between two tokens again.  A lexical
failure of the reference reader, or an undefined backslash pair outside pattern mode, makes the
lexer write an error.
-/
import Goyang.Lemmas.LexSim
import Goyang.Lemmas.ListSrc

namespace Goyang.Lemmas.TokSim
open Goyang.Model.Lex Goyang.Model.Utf8 Goyang.Lemmas.Utf8 Goyang.Lemmas.Lex Goyang.Lemmas.LexSim
open Goyang.Spec.Parse Goyang.Lemmas.Scan Goyang.Lemmas.QStr
open Goyang.Lemmas.ListSrc (conv tokCode tokText badEsc)

/-- the text is empty or ends in a line feed (`newLexer` sees to that) -/
def EndsNL (s : List Char) : Prop := s = [] ∨ s.getLast? = some '\n'

theorem EndsNL.suffix {a b : List Char} (h : EndsNL (a ++ b)) : EndsNL b := by
  cases b with
  | nil => exact Or.inl rfl
  | cons c r =>
    right
    rcases h with h | h
    · simp at h
    · rw [List.getLast?_append] at h
      simp only [List.getLast?_cons] at h ⊢
      simpa using h

theorem EndsNL.mem {s : List Char} (h : EndsNL s) (hne : s ≠ []) : '\n' ∈ s := by
  rcases h with h | h
  · exact absurd h hne
  · exact List.mem_of_getLast? h

theorem split_first (c : Char) : ∀ (l : List Char), c ∈ l → ∃ s r, l = s ++ c :: r ∧ c ∉ s := by
  intro l
  induction l with
  | nil => intro h; simp at h
  | cons d l ih =>
    intro h
    by_cases hd : d = c
    · exact ⟨[], l, by rw [hd]; rfl, by simp⟩
    · have : c ∈ l := by
        simp only [List.mem_cons] at h
        rcases h with h | h
        · exact absurd h.symm hd
        · exact h
      obtain ⟨s, r, h1, h2⟩ := ih this
      refine ⟨d :: s, r, by rw [h1]; rfl, ?_⟩
      simp only [List.mem_cons, not_or]
      exact ⟨fun he => hd he.symm, h2⟩

section
variable (text : List Char) (file : List UInt8)

/-- what a call of `NextToken` must deliver before the characters `suf` -/
def Outcome (b : Bool) (suf : List Char) (r : Option Token × Lexer) : Prop :=
  match specNext text.length suf with
  | none => r.2.errout ≠ []
  | some none => r.1 = none ∧ r.2.state = .done ∧ Ready file r.2 ∧ r.2.inPattern = b
  | some (some (t, rest)) =>
    (badEsc b t = true ∧ r.2.errout ≠ []) ∨
    (badEsc b t = false ∧ r.1 = some (conv text file t) ∧
      ∃ pre', text = pre' ++ rest ∧ Gnd file r.2 pre' rest ∧ r.2.inPattern = b)

theorem Outcome_congr (b : Bool) (suf suf2 : List Char) (r : Option Token × Lexer)
    (h : skipGround suf = skipGround suf2) (ho : Outcome text file b suf2 r) : Outcome text file b suf r := by
  unfold Outcome specNext at *
  rw [h]; exact ho

/-- the token the lexer emits is the token of the reference reader -/
theorem tok_eq (P r : List Char) (c : Char) (ht : text = P ++ c :: r) (tk : Tok) (sline scol : Int)
    (hsl : sline = lineAfter P) (hsc : scol = colAfter P) :
    ({ code := tokCode tk, text := tokText text ⟨tk, text.length - (r.length + 1)⟩, file := file, line := sline,
       col := scol + 1 } : Token) = conv text file ⟨tk, text.length - (r.length + 1)⟩ := by
  have hoff : text.length - (r.length + 1) = P.length := by
    rw [ht]; simp only [List.length_append, List.length_cons]; omega
  have htake : text.take P.length = P := by rw [ht, List.take_left']; rfl
  unfold conv
  simp only
  rw [hoff, hsl, hsc]
  unfold lineOf colOf lineAfter colAfter
  rw [htake]
  congr 1
  push_cast
  omega

/-- at the first character of a token: white space skipped, `start`, `sline`, `scol` set -/
structure Tk (l : Lexer) (P suf : List Char) : Prop where
  cur : Cur l P suf
  pos : Pos l P
  start : l.start = (encodeChars P).length
  sline : l.sline = lineAfter P
  scol : l.scol = colAfter P
  ready : Ready file l
  state : l.state = .ground

theorem posN_of_fields {l l' : Lexer} {P rest : List Char} (hp : PosN l P rest) (hc : l'.col = l.col)
    (ht : l'.tcol = l.tcol) : PosN l' P rest := by
  unfold PosN at hp ⊢
  split at hp
  · trivial
  · rw [hc, ht]; exact hp
  · exact ⟨hc.trans hp.col, ht.trans hp.tcol⟩

/-- a token is queued, the lexer is in the ground state behind it: `NextToken` hands it out -/
theorem finish (f : Nat) (l2 : Lexer) (t : Token) (P' rest : List Char) (hi : l2.items = [t])
    (hst : l2.state = .ground) (hc : Cur l2 P' rest) (hp : PosN l2 P' rest) (he : l2.errout = [])
    (hn : l2.errcnt = 0) (hf : l2.fault = .none) (hfile : l2.file = file) :
    (nextTokenLoop (f + 1) l2).1 = some t ∧ Gnd file (nextTokenLoop (f + 1) l2).2 P' rest ∧
    (nextTokenLoop (f + 1) l2).2.inPattern = l2.inPattern := by
  rw [nextTokenLoop_pop1 f l2 t hi]
  exact ⟨rfl, ⟨⟨hc.before, hc.rest, hc.line⟩, posN_of_fields hp rfl rfl, ⟨rfl, he, hn, hf, hfile⟩, hst⟩, rfl⟩

/-- `setState .ground (emitText …)`: the fields -/
theorem emitted (c : Code) (tb : List UInt8) (l : Lexer) (hi : l.items = []) :
    (setState .ground (emitText c tb l)).items =
      [{ code := c, text := tb, file := l.file, line := l.sline, col := l.scol + 1 }] ∧
    (setState .ground (emitText c tb l)).state = .ground ∧
    (setState .ground (emitText c tb l)).before = l.before ∧ (setState .ground (emitText c tb l)).rest = l.rest ∧
    (setState .ground (emitText c tb l)).line = l.line ∧ (setState .ground (emitText c tb l)).col = l.col ∧
    (setState .ground (emitText c tb l)).tcol = l.tcol ∧ (setState .ground (emitText c tb l)).errout = l.errout ∧
    (setState .ground (emitText c tb l)).errcnt = l.errcnt ∧ (setState .ground (emitText c tb l)).fault = l.fault ∧
    (setState .ground (emitText c tb l)).file = l.file ∧
    (setState .ground (emitText c tb l)).inPattern = l.inPattern := by
  obtain ⟨e1, e2, e3, e4, e5, e6, e7, e8, e9, e10, _, _⟩ := emitText_frame c tb l
  exact ⟨emitText_items c tb l hi, rfl, e1, e2, e3, e4, e5, e6, e7, e8, e9, e10⟩

/-- `;`, `{`, `}` -/
theorem punct_case (b : Bool) (f : Nat) (l : Lexer) (P r : List Char) (c : Char) (ht : text = P ++ c :: r)
    (hk : Tk file l P (c :: r)) (hb : l.inPattern = b) (tk : Tok)
    (hc : (c = ';' ∧ tk = .semi) ∨ (c = '{' ∧ tk = .lbrace) ∨ (c = '}' ∧ tk = .rbrace)) :
    (nextTokenLoop (f + 1) (setState .ground (emit (.punct (UInt8.ofNat c.toNat)) (next l).2))).1 =
      some (conv text file ⟨tk, text.length - (r.length + 1)⟩) ∧
    ∃ pre', text = pre' ++ r ∧
      Gnd file (nextTokenLoop (f + 1) (setState .ground (emit (.punct (UInt8.ofNat c.toNat)) (next l).2))).2 pre' r ∧
      (nextTokenLoop (f + 1) (setState .ground (emit (.punct (UInt8.ofNat c.toNat)) (next l).2))).2.inPattern = b := by
  obtain ⟨n1, n2, n3, _, n5⟩ := next_char l P r c hk.cur (hk.pos.posN _)
  have hemit : emit (.punct (UInt8.ofNat c.toNat)) (next l).2 =
      emitText (.punct (UInt8.ofNat c.toNat)) (encodeChars [c]) (next l).2 :=
    emit_eq _ _ P [c] r n2 (by rw [n5.start]; exact hk.start)
  rw [hemit]
  have hr1 : Ready file (next l).2 := n5.ready hk.ready
  obtain ⟨e1, e2, e3, e4, e5, e6, e7, e8, e9, e10, e11, e12⟩ :=
    emitted (.punct (UInt8.ofNat c.toNat)) (encodeChars [c]) (next l).2 hr1.items
  have htok : Token.mk (Code.punct (UInt8.ofNat c.toNat)) (encodeChars [c]) (next l).2.file (next l).2.sline
      ((next l).2.scol + 1) = conv text file ⟨tk, text.length - (r.length + 1)⟩ := by
    rw [← tok_eq text file P r c ht tk _ _ (n5.sline.trans hk.sline) (n5.scol.trans hk.scol), hr1.file]
    rcases hc with ⟨h1, h2⟩ | ⟨h1, h2⟩ | ⟨h1, h2⟩ <;> (rw [h1, h2]; rfl)
  rw [htok] at e1
  obtain ⟨q1, q2, q3⟩ := finish file f _ _ (P ++ [c]) r e1 e2 ⟨e3.trans n2.before, e4.trans n2.rest, e5.trans n2.line⟩
    (posN_of_fields (n3.posN r) e6 e7) (e8.trans hr1.errout) (e9.trans hr1.errcnt) (e10.trans hr1.fault)
    (e11.trans hr1.file)
  exact ⟨q1, P ++ [c], by rw [ht]; simp, q2, by rw [q3, e12, n5.inPattern]; exact hb⟩

theorem consume_tk (l : Lexer) (P suf : List Char) (hc : Cur l P suf) (hp : Pos l P) (hr : Ready file l)
    (hst : l.state = .ground) (sl sc : Int) (hsl : l.sline = sl) (hsc : l.scol = sc) :
    Cur (consume l) P suf ∧ Pos (consume l) P ∧ (consume l).start = (encodeChars P).length ∧
    Ready file (consume l) ∧ (consume l).state = .ground ∧ (consume l).sline = sl ∧ (consume l).scol = sc ∧
    (consume l).inPattern = l.inPattern := by
  unfold consume Lexer.pos
  refine ⟨⟨hc.before, hc.rest, hc.line⟩, ⟨hp.col, hp.tcol⟩, ?_, ⟨hr.items, hr.errout, hr.errcnt, hr.fault, hr.file⟩,
    hst, hsl, hsc, rfl⟩
  show l.before.length = _
  rw [hc.before]; simp

theorem skipTo_found (pat : List UInt8) (l : Lexer) (x : Nat) (h : indexOf pat l.rest = some x) :
    skipTo pat l = (true, updateCursor x l) := by
  unfold skipTo; rw [h]

theorem skipTo_none (pat : List UInt8) (l : Lexer) (h : indexOf pat l.rest = none) :
    skipTo pat l = (false, l) := by
  unfold skipTo; rw [h]

/-- a single-quoted string -/
theorem sq_case (b : Bool) (f : Nat) (l : Lexer) (P r : List Char) (ht : text = P ++ '\'' :: r)
    (hk : Tk file l P ('\'' :: r)) (hb : l.inPattern = b) :
    match scanSq r with
    | none => (nextTokenLoop f (groundSQuote l)).2.errout ≠ []
    | some (s, r') =>
      (nextTokenLoop (f + 1) (groundSQuote l)).1 = some (conv text file ⟨.sq s, text.length - (r.length + 1)⟩) ∧
      ∃ pre', text = pre' ++ r' ∧ Gnd file (nextTokenLoop (f + 1) (groundSQuote l)).2 pre' r' ∧
        (nextTokenLoop (f + 1) (groundSQuote l)).2.inPattern = b := by
  obtain ⟨n1, n2, n3, _, n5⟩ := next_char l P r '\'' hk.cur (hk.pos.posN _)
  have hr1 : Ready file (next l).2 := n5.ready hk.ready
  obtain ⟨c1, c2, c3, c4, c5, c6, c7, c8⟩ := consume_tk file (next l).2 (P ++ ['\'']) r n2 n3 hr1
    (n5.state.trans hk.state) _ _ (n5.sline.trans hk.sline) (n5.scol.trans hk.scol)
  cases hs : scanSq r with
  | none =>
    simp only
    have hnm := scanSq_none_iff r hs
    have hidx : indexOf [39] (consume (next l).2).rest = none := by
      rw [c1.rest]; exact indexOf_char_none '\'' (by decide) r hnm
    unfold groundSQuote
    simp only
    rw [skipTo_none _ _ hidx]
    simp only [Bool.false_eq_true, if_false]
    apply nextTokenLoop_keeps
    show (errorfAt _ _ _ _).errout ≠ []
    exact errorfAt_errout _ _ _ _ (Or.inl c4.errcnt)
  | some p =>
    obtain ⟨s, r'⟩ := p
    simp only
    obtain ⟨hsplit, hnm⟩ := scanSq_split r s r' hs
    have hidx : indexOf [39] (consume (next l).2).rest = some (encodeChars s).length := by
      rw [c1.rest, hsplit]; exact indexOf_char '\'' (by decide) s r' hnm
    obtain ⟨u1, u2, u3⟩ := updateCursor_chars (consume (next l).2) (P ++ ['\'']) s ('\'' :: r')
      (by rw [← hsplit]; exact c1) c2
    -- name the lexer after the bulk move
    obtain ⟨l3, hl3⟩ : ∃ l3, l3 = updateCursor (encodeChars s).length (consume (next l).2) := ⟨_, rfl⟩
    rw [← hl3] at u1 u2 u3
    have hr3 : Ready file l3 := u3.ready c4
    have hemit : emit .string l3 = emitText .string (encodeChars s) l3 :=
      emit_eq _ _ (P ++ ['\'']) s ('\'' :: r') u1 (by rw [u3.start]; exact c3)
    have htok : Token.mk Code.string (encodeChars s) l3.file l3.sline (l3.scol + 1) =
        conv text file ⟨.sq s, text.length - (r.length + 1)⟩ := by
      rw [← tok_eq text file P r '\'' ht (.sq s) _ _ (u3.sline.trans c6) (u3.scol.trans c7), hr3.file]
      rfl
    obtain ⟨l4, hl4⟩ : ∃ l4, l4 = emitText .string (encodeChars s) l3 := ⟨_, rfl⟩
    have hg : groundSQuote l = setState .ground (next l4).2 := by
      unfold groundSQuote
      simp only
      rw [skipTo_found _ _ _ hidx]
      simp only [if_true]
      rw [← hl3, hemit, ← hl4]
    rw [hg]
    obtain ⟨f1, f2, f3, f4, f5, f6, f7, f8, f9, f10, f11, f12⟩ := emitText_frame .string (encodeChars s) l3
    rw [← hl4] at f1 f2 f3 f4 f5 f6 f7 f8 f9 f10 f11 f12
    have hcur4 : Cur l4 (P ++ ['\''] ++ s) ('\'' :: r') := ⟨f1.trans u1.before, f2.trans u1.rest, f3.trans u1.line⟩
    have hpos4 : Pos l4 (P ++ ['\''] ++ s) := ⟨f4.trans u2.col, f5.trans u2.tcol⟩
    obtain ⟨m1, m2, m3, _, m5⟩ := next_char l4 _ r' '\'' hcur4 (hpos4.posN _)
    have hitems : (setState .ground (next l4).2).items =
        [conv text file ⟨.sq s, text.length - (r.length + 1)⟩] := by
      rw [setState_items, m5.items, hl4, emitText_items _ _ _ hr3.items, htok]
    obtain ⟨q1, q2, q3⟩ := finish file f _ _ (P ++ ['\''] ++ s ++ ['\'']) r' hitems rfl
      ⟨m2.before, m2.rest, m2.line⟩ (posN_of_fields (m3.posN r') rfl rfl)
      (by rw [setState_errout, m5.errout, f6]; exact hr3.errout)
      (by rw [setState_errcnt, m5.errcnt, f7]; exact hr3.errcnt)
      (by rw [setState_fault, m5.fault, f8]; exact hr3.fault)
      (by rw [setState_file, m5.file, f9]; exact hr3.file)
    refine ⟨q1, P ++ ['\''] ++ s ++ ['\''], by rw [ht, hsplit]; simp, q2, ?_⟩
    rw [q3, setState_inPattern, m5.inPattern, f10, u3.inPattern, c8, n5.inPattern]; exact hb

end

end Goyang.Lemmas.TokSim
