import Goyang.Spec.Tree
import Goyang.Lemmas.Rounds
import Goyang.Lemmas.AugmentModel
/-
Helper lemmas for C04 (Props/C04.lean): tree predicates along the resolver pipeline.
-/
set_option linter.unusedVariables false
set_option linter.unusedSimpArgs false
namespace Goyang.Lemmas.Tree
open Goyang.Model Goyang.Spec.Tree

/-! ### generic list helpers -/

theorem foldl_inv {α β} (P : β → Prop) (f : β → α → β) (l : List α) (b : β) (h0 : P b)
    (hs : ∀ b a, a ∈ l → P b → P (f b a)) : P (l.foldl f b) := by
  induction l generalizing b with
  | nil => exact h0
  | cons a l ih =>
    simp only [List.foldl_cons]
    exact ih _ (hs _ _ (by simp) h0) (fun b x hx hb => hs b x (by simp [hx]) hb)

theorem insertBy_ne_nil {α} (lt : α → α → Bool) (x : α) (l : List α) : insertBy lt x l ≠ [] := by
  cases l with
  | nil => simp [insertBy]
  | cons y ys => simp only [insertBy]; split <;> simp

theorem mem_insertBy {α} (lt : α → α → Bool) (x y : α) (l : List α) : y ∈ insertBy lt x l ↔ y = x ∨ y ∈ l := by
  induction l with
  | nil => simp [insertBy]
  | cons z zs ih =>
    simp only [insertBy]; split
    · simp
    · simp only [List.mem_cons, ih]
      constructor
      · rintro (h | h | h) <;> simp [h]
      · rintro (h | h | h) <;> simp [h]

theorem mem_sortBy {α} (lt : α → α → Bool) (y : α) (l : List α) : y ∈ sortBy lt l ↔ y ∈ l := by
  induction l with
  | nil => simp [sortBy]
  | cons z zs ih =>
    have : sortBy lt (z :: zs) = insertBy lt z (sortBy lt zs) := rfl
    rw [this, mem_insertBy, ih]; simp

theorem sortBy_eq_nil {α} (lt : α → α → Bool) (l : List α) (h : sortBy lt l = []) : l = [] := by
  cases l with
  | nil => rfl
  | cons a t => exact absurd h (insertBy_ne_nil lt a _)

/-- An empty canonical error list means there were no errors. -/
theorem canonErrs_eq_nil (l : List Err) (h : canonErrs l = []) : l = [] := by
  unfold canonErrs at h
  simp only at h
  generalize hs : sortBy _ l = s at h
  cases s with
  | nil => exact sortBy_eq_nil _ _ hs
  | cons a t => rw [List.eraseDups_cons] at h; exact absurd h (by simp)

/-! ### `everyNode` -/

theorem everyNodeL_iff (p : Entry → Bool) (l : List Entry) :
    everyNodeL p l = true ↔ ∀ x ∈ l, everyNode p x = true := by
  induction l with
  | nil => simp [everyNodeL]
  | cons a l ih => simp [everyNodeL, ih]

theorem everyNode_mk (p : Entry → Bool) (d : EData) (c i o : List Entry) :
    everyNode p (.mk d c i o) = true ↔
      p (.mk d c i o) = true ∧ (∀ x ∈ c, everyNode p x = true) ∧ (∀ x ∈ i, everyNode p x = true) ∧
        (∀ x ∈ o, everyNode p x = true) := by
  simp [everyNode, everyNodeL_iff, and_assoc]

mutual
theorem entry_ind_e {P : Entry → Prop}
    (h : ∀ d c i o, (∀ x ∈ c, P x) → (∀ x ∈ i, P x) → (∀ x ∈ o, P x) → P (.mk d c i o)) : ∀ e, P e
  | .mk d c i o => h d c i o (entry_ind_l h c) (entry_ind_l h i) (entry_ind_l h o)
theorem entry_ind_l {P : Entry → Prop}
    (h : ∀ d c i o, (∀ x ∈ c, P x) → (∀ x ∈ i, P x) → (∀ x ∈ o, P x) → P (.mk d c i o)) :
    ∀ l : List Entry, ∀ x ∈ l, P x
  | [] => by simp
  | e :: es => by
    intro x hx
    rcases List.mem_cons.mp hx with hxe | hx
    · rw [hxe]; exact entry_ind_e h e
    · exact entry_ind_l h es x hx
end

/-- Induction on trees: a node from all its `Dir`, input and output children. -/
theorem entry_ind {P : Entry → Prop}
    (h : ∀ d c i o, (∀ x ∈ c, P x) → (∀ x ∈ i, P x) → (∀ x ∈ o, P x) → P (.mk d c i o)) (e : Entry) : P e :=
  entry_ind_e h e

theorem allErrorsL_eq_nil (l : List Entry) : Entry.allErrorsL l = [] ↔ ∀ x ∈ l, x.allErrors = [] := by
  induction l with
  | nil => simp [Entry.allErrorsL]
  | cons a l ih => simp [Entry.allErrorsL, ih]

/-- The specification's "no node carries an error" is the model's "the error walk finds nothing". -/
theorem noErrors_iff (e : Entry) : NoErrors e ↔ e.allErrors = [] := by
  induction e using entry_ind with
  | h d c i o hc hi ho =>
    unfold NoErrors at *
    rw [everyNode_mk]
    simp only [Entry.allErrors, List.append_eq_nil_iff, allErrorsL_eq_nil, noErrorsHere, Entry.d,
      List.isEmpty_iff]
    constructor
    · rintro ⟨h1, h2, h3, h4⟩
      exact ⟨⟨⟨fun x hx => (hc x hx).1 (h2 x hx), fun x hx => (hi x hx).1 (h3 x hx)⟩,
        fun x hx => (ho x hx).1 (h4 x hx)⟩, h1⟩
    · rintro ⟨⟨⟨h2, h3⟩, h4⟩, h1⟩
      exact ⟨h1, fun x hx => (hc x hx).2 (h2 x hx), fun x hx => (hi x hx).2 (h3 x hx),
        fun x hx => (ho x hx).2 (h4 x hx)⟩


/-! ### the stages of `processAll`, named -/

section Stages
variable (reg : Registry) (opts : Opts) (plug : Plug)

def stage1Errs : List Err := (linkAll reg).2 ++ plug.identityErrs reg ++ plug.typedefErrs reg
def envOf : Env := { reg := reg, opts := opts, tres := plug.tres, linked := (linkAll reg).1 }
def allMods : List Mod := reg.distinctModules ++ reg.distinctSubs
/-- The (sub)modules in key order of the two maps (modules, then submodules). -/
def keyOrder : List Mod :=
  let keys (km : KeyMap) := (sortBy (fun (a b : String × Nat) => a.1 < b.1) km).filterMap fun kv => reg.byId kv.2
  keys reg.modules ++ keys reg.subModules
def tstate : TState :=
  (keyOrder reg).foldl (fun st m => (toEntry (envOf reg opts plug) (entryFuel reg) m [] m.stmt [] st).2) {}
def forest0 : Forest := { trees := (tstate reg opts plug).cache }
def forestErrs (f : Forest) : List Err := (f.trees.map fun (_, e) => e.allErrors).flatten
def pending0 : List (Nat × List Entry) :=
  (allMods reg).map fun m => (m.seq, (((tstate reg opts plug).augs.find? (·.1 == m.seq)).map (·.2)).getD [])
def pstate0 : PState := { forest := forest0 reg opts plug, pending := pending0 reg opts plug }
def augOrder : List Mod :=
  sortBy (fun (a b : Mod) => if a.fullName != b.fullName then a.fullName < b.fullName else !a.isSub && b.isSub)
    ((reg.modules ++ reg.subModules).filterMap fun kv => reg.byId kv.2)
def afterLoop : Array Nat × PState :=
  augmentLoop reg ((pending0 reg opts plug).foldl (fun n p => n + p.2.length) 0 + 2)
    ((augOrder reg).map (·.seq)).toArray (pstate0 reg opts plug)
def fixAll (s : PState) : PState :=
  { s with forest := { trees := s.forest.trees.map fun (i, e) => (i, fixChoice e) } }
/-- The retry rounds after the first `FixChoice` (`for augmentLoop() > 0 { fixChoice() }`): the modules
still holding pending augments and the state. -/
def afterRounds : Array Nat × PState :=
  leftoverRounds reg ((pending0 reg opts plug).foldl (fun n p => n + p.2.length) 0 + 2)
    ((pending0 reg opts plug).foldl (fun n p => n + p.2.length) 0 + 2)
    (afterLoop reg opts plug).1 (fixAll (afterLoop reg opts plug).2)
/-- The reporting sweep (`Augment(true)`) over what the rounds left. -/
def leftoverPass : PState × Nat :=
  (afterRounds reg opts plug).1.foldl (fun (acc : PState × Nat) id =>
    let (s, p, _) := augmentTree reg id true acc.1
    (s, acc.2 + p)) ((afterRounds reg opts plug).2, 0)
/-- The state before the deviations are applied. -/
def preDev : PState :=
  if (leftoverPass reg opts plug).2 > 0 then fixAll (leftoverPass reg opts plug).1 else (leftoverPass reg opts plug).1
def devStage (f0 : Forest) : Forest × List Err × List String :=
  (keyOrder reg).foldl (fun (acc : Forest × List Err × List String) m =>
    let (f, errs, done) := acc
    if done.contains m.name then acc else
    let devs := (m.stmt.all "deviation").map fun dv =>
      (dv, (dv.all "deviate").filterMap fun ds =>
        if deviateKinds.contains ds.arg then some (ds.arg, (toEntry (envOf reg opts plug) (entryFuel reg) m [dv, m.stmt] ds [] {}).1) else none)
    let (f, es) := applyDeviations reg opts m devs f
    (f, errs ++ es, done ++ [m.name])) (f0, [], [])

-- (`leftoverRounds` is kept folded: the elaborator's `whnf` would otherwise run the rounds on the
-- stuck module list while it looks for the pair the rounds return)
attribute [local irreducible] leftoverRounds in
theorem processAll_eq : processAll reg opts plug =
    if !(stage1Errs reg plug).isEmpty then { errors := canonErrs (stage1Errs reg plug), forest := {}, reg := reg } else
    if !(forestErrs (forest0 reg opts plug)).isEmpty then
      { errors := canonErrs (forestErrs (forest0 reg opts plug)), forest := forest0 reg opts plug, reg := reg } else
    { errors := canonErrs (forestErrs (preDev reg opts plug).forest ++ (devStage reg opts plug (preDev reg opts plug).forest).2.1),
      forest := (devStage reg opts plug (preDev reg opts plug).forest).1, reg := reg } := by
  rfl

/-- A property of the state that the augment loop and `FixChoice` everywhere preserve holds after the
retry rounds (the state the reporting sweep starts from). -/
theorem afterRounds_state (P : PState → Prop)
    (hloop : ∀ fuel mods s, P s → P (augmentLoop reg fuel mods s).2)
    (hfix : ∀ s, P s → P (fixAll s)) (h0 : P (pstate0 reg opts plug)) : P (afterRounds reg opts plug).2 :=
  Rounds.rounds_ind_state reg P hloop hfix _ _ _ _ (hfix _ (hloop _ _ _ h0))
end Stages

/-! ### `updateAt`, `getAt` -/

/-- `p` looks at the node's own data only. -/
def OwnOnly (p : Entry → Bool) : Prop := ∀ d c i o c' i' o', p (.mk d c i o) = p (.mk d c' i' o')

theorem ownOnly_noErrorsHere : OwnOnly noErrorsHere := by intro d c i o c' i' o'; rfl

theorem everyNode_updateAt_own (p : Entry → Bool) (hp : OwnOnly p) (f : Entry → Entry)
    (hf : ∀ x, everyNode p x = true → everyNode p (f x) = true) :
    ∀ (path : Path) (e : Entry), everyNode p e = true → everyNode p (e.updateAt path f) = true := by
  intro path
  induction path with
  | nil => intro e h; exact hf e h
  | cons s path ih =>
    intro e h
    cases e with | mk d c i o =>
    rw [everyNode_mk] at h
    obtain ⟨h1, h2, h3, h4⟩ := h
    cases s with
    | child k =>
      simp only [Entry.updateAt]
      rw [everyNode_mk]
      refine ⟨by rw [hp d _ i o c i o]; exact h1, ?_, h3, h4⟩
      intro x hx
      simp only [List.mem_map] at hx
      obtain ⟨y, hy, rfl⟩ := hx
      split
      · exact ih y (h2 y hy)
      · exact h2 y hy
    | input =>
      simp only [Entry.updateAt]
      rw [everyNode_mk]
      refine ⟨by rw [hp d c _ o c i o]; exact h1, h2, ?_, h4⟩
      intro x hx
      simp only [List.mem_map] at hx
      obtain ⟨y, hy, rfl⟩ := hx
      exact ih y (h3 y hy)
    | output =>
      simp only [Entry.updateAt]
      rw [everyNode_mk]
      refine ⟨by rw [hp d c i _ c i o]; exact h1, h2, h3, ?_⟩
      intro x hx
      simp only [List.mem_map] at hx
      obtain ⟨y, hy, rfl⟩ := hx
      exact ih y (h4 y hy)

theorem everyNode_getAt (p : Entry → Bool) : ∀ (path : Path) (e x : Entry), everyNode p e = true →
    e.getAt path = some x → everyNode p x = true := by
  intro path
  induction path with
  | nil => intro e x h hx; simp only [Entry.getAt, Option.some.injEq] at hx; exact hx ▸ h
  | cons s path ih =>
    intro e x h hx
    cases e with | mk d c i o =>
    rw [everyNode_mk] at h
    obtain ⟨h1, h2, h3, h4⟩ := h
    cases s with
    | child k =>
      simp only [Entry.getAt, Entry.child?, Entry.dir] at hx
      cases hf : c.find? (fun x => x.name == k) with
      | none => simp [hf] at hx
      | some y =>
        simp only [hf, Option.bind_some] at hx
        exact ih y x (h2 y (List.mem_of_find?_eq_some hf)) hx
    | input =>
      simp only [Entry.getAt, Entry.inp] at hx
      cases i with
      | nil => simp at hx
      | cons y ys => simp only [List.head?_cons, Option.bind_some] at hx; exact ih y x (h3 y (by simp)) hx
    | output =>
      simp only [Entry.getAt, Entry.out] at hx
      cases o with
      | nil => simp at hx
      | cons y ys => simp only [List.head?_cons, Option.bind_some] at hx; exact ih y x (h4 y (by simp)) hx

/-! ### what one deviate statement can change -/

/-- What a deviate statement leaves alone: children, errors, name, kind, child map presence,
presence of list attributes, source node; a present type stays present. -/
structure DataEquiv (a b : Entry) : Prop where
  dir : b.dir = a.dir
  inp : b.inp = a.inp
  out : b.out = a.out
  errors : b.d.errors = a.d.errors
  name : b.d.name = a.d.name
  kind : b.d.kind = a.d.kind
  hasDir : b.d.hasDir = a.d.hasDir
  la : b.d.listAttr.isSome = a.d.listAttr.isSome
  node : b.d.node = a.d.node
  type : a.d.type.isSome = true → b.d.type.isSome = true

theorem DataEquiv.refl (a : Entry) : DataEquiv a a := ⟨rfl, rfl, rfl, rfl, rfl, rfl, rfl, rfl, rfl, id⟩

theorem DataEquiv.trans {a b c : Entry} (h1 : DataEquiv a b) (h2 : DataEquiv b c) : DataEquiv a c :=
  ⟨h2.dir.trans h1.dir, h2.inp.trans h1.inp, h2.out.trans h1.out, h2.errors.trans h1.errors,
   h2.name.trans h1.name, h2.kind.trans h1.kind, h2.hasDir.trans h1.hasDir, h2.la.trans h1.la,
   h2.node.trans h1.node, fun h => h2.type (h1.type h)⟩

/-- A change of the node's data that a deviate may make. -/
def GoodD (f : EData → EData) : Prop :=
  ∀ d, (f d).errors = d.errors ∧ (f d).name = d.name ∧ (f d).kind = d.kind ∧ (f d).hasDir = d.hasDir ∧
    (f d).listAttr.isSome = d.listAttr.isSome ∧ (f d).node = d.node ∧ (d.type.isSome = true → (f d).type.isSome = true)

theorem DataEquiv.withD (a : Entry) (f : EData → EData) (hf : GoodD f) : DataEquiv a (a.withD f) := by
  cases a with | mk d c i o =>
  obtain ⟨h1, h2, h3, h4, h5, h6, h7⟩ := hf d
  exact ⟨rfl, rfl, rfl, h1, h2, h3, h4, h5, h6, h7⟩

theorem DataEquiv.ite {a x y : Entry} (c : Prop) [Decidable c] (hx : DataEquiv a x) (hy : DataEquiv a y) :
    DataEquiv a (if c then x else y) := by split <;> assumption

section Dev
variable (ms : Stmt) (kind : String) (sd : EData)

def dSetMin (n : Entry) (v : Nat) : Entry := n.withD fun d => { d with listAttr := d.listAttr.map fun la => { la with min := v } }
def dSetMax (n : Entry) (v : Nat) : Entry := n.withD fun d => { d with listAttr := d.listAttr.map fun la => { la with max := v } }
def dCfg (node : Entry) : Entry := if sd.config != .unset then node.withD fun d => { d with config := sd.config } else node
def dDefault (node : Entry) : Entry × List Err :=
  if sd.default.isEmpty then (node, [])
  else if kind == "add" then
    if node.isLeafList then (node.withD fun d => { d with default := d.default ++ sd.default }, [])
    else if sd.default.length > 1 then (node, [Err.at_ ms "deviate-add-many-defaults"])
    else if !node.d.default.isEmpty then (node, [Err.at_ ms "deviate-add-default-exists"])
    else (node.withD fun d => { d with default := sd.default.take 1 }, [])
  else (node.withD fun d => { d with default := sd.default }, [])
def dMand (node : Entry) : Entry := if sd.mandatory != .unset then node.withD fun d => { d with mandatory := sd.mandatory } else node
def dMin (node : Entry) : Entry := if sd.hasMin then dSetMin node (sd.listAttr.getD {}).min else node
def dMax (node : Entry) : Entry := if sd.hasMax then dSetMax node (sd.listAttr.getD {}).max else node
def dUnits (node : Entry) : Entry := if sd.units != "" then node.withD fun d => { d with units := sd.units } else node
def dType (node : Entry) : Entry := if sd.type.isSome then node.withD fun d => { d with type := sd.type } else node
def dCfgDel (node : Entry) : Entry := if sd.config != .unset then node.withD fun d => { d with config := .unset } else node
def dDefaultDel (node : Entry) : Entry × List Err :=
  if sd.default.isEmpty then (node, [])
  else if node.isLeafList then (node, [Err.at_ ms "deviate-delete-default-leaflist"])
  else if node.d.default.isEmpty then (node, [Err.at_ ms "deviate-delete-default-missing"])
  else if sd.default.head? != node.d.default.head? then (node, [Err.at_ ms "deviate-delete-default-mismatch"])
  else (node.withD fun d => { d with default := [] }, [])
def dMandDel (node : Entry) : Entry := if sd.mandatory != .unset then node.withD fun d => { d with mandatory := .unset } else node
def dMinDel (node : Entry) (errs : List Err) : Entry × List Err :=
  if sd.hasMin then
    (dSetMin node 0, if (node.d.listAttr.getD {}).min != (sd.listAttr.getD {}).min then errs ++ [Err.bare "deviate-delete-min-mismatch"] else errs)
  else (node, errs)
def dMaxDel (node : Entry) (errs : List Err) : Entry × List Err :=
  if sd.hasMax then
    (dSetMax node maxU64, if (node.d.listAttr.getD {}).max != (sd.listAttr.getD {}).max then errs ++ [Err.bare "deviate-delete-max-mismatch"] else errs)
  else (node, errs)

/-- `applyOneDeviate` with its blocks named. -/
def applyOneDeviate' (opts : Opts) (hasParent : Bool) (node : Entry) : Entry × Bool × List Err :=
  if kind == "add" || kind == "replace" then
    let p := dDefault ms kind sd (dCfg sd node)
    let node := dMand sd p.1
    if sd.hasMin && !(node.isList || node.isLeafList) then (node, false, p.2 ++ [Err.bare "deviate-min-nonlist"]) else
    let node := dMin sd node
    if sd.hasMax && !(node.isList || node.isLeafList) then (node, false, p.2 ++ [Err.bare "deviate-max-nonlist"]) else
    (dType sd (dUnits sd (dMax sd node)), false, p.2)
  else if kind == "not-supported" then
    if !hasParent then (node, false, [Err.at_ ms "deviate-no-parent"])
    else (node, !opts.ignoreNotSupported, [])
  else if kind == "delete" then
    let p := dDefaultDel ms sd (dCfgDel sd node)
    let node := dMandDel sd p.1
    if sd.hasMin && !(node.isList || node.isLeafList) then (node, false, p.2 ++ [Err.bare "deviate-min-nonlist"]) else
    let q := dMinDel sd node p.2
    if sd.hasMax && !(q.1.isList || q.1.isLeafList) then (q.1, false, q.2 ++ [Err.bare "deviate-max-nonlist"]) else
    let r := dMaxDel sd q.1 q.2
    (r.1, false, r.2)
  else (node, false, [Err.bare "deviate-unknown-kind"])
end Dev

theorem applyOneDeviate_eq (opts : Opts) (ms : Stmt) (kind : String) (spec : Entry) (hp : Bool) (node : Entry) :
    applyOneDeviate opts ms kind spec hp node = applyOneDeviate' ms kind spec.d opts hp node := by
  rfl


section DevLemmas
variable (ms : Stmt) (kind : String) (sd : EData)

theorem dSetMin_equiv (n : Entry) (v : Nat) : DataEquiv n (dSetMin n v) :=
  DataEquiv.withD _ _ (fun d => ⟨rfl, rfl, rfl, rfl, by simp, rfl, id⟩)
theorem dSetMax_equiv (n : Entry) (v : Nat) : DataEquiv n (dSetMax n v) :=
  DataEquiv.withD _ _ (fun d => ⟨rfl, rfl, rfl, rfl, by simp, rfl, id⟩)
theorem dCfg_equiv (n : Entry) : DataEquiv n (dCfg sd n) :=
  DataEquiv.ite _ (DataEquiv.withD _ _ (fun d => ⟨rfl, rfl, rfl, rfl, rfl, rfl, id⟩)) (DataEquiv.refl _)
theorem dDefault_equiv (n : Entry) : DataEquiv n (dDefault ms kind sd n).1 := by
  unfold dDefault
  repeat' split
  all_goals first
    | exact DataEquiv.refl _
    | exact DataEquiv.withD _ _ (fun d => ⟨rfl, rfl, rfl, rfl, rfl, rfl, id⟩)
theorem dMand_equiv (n : Entry) : DataEquiv n (dMand sd n) :=
  DataEquiv.ite _ (DataEquiv.withD _ _ (fun d => ⟨rfl, rfl, rfl, rfl, rfl, rfl, id⟩)) (DataEquiv.refl _)
theorem dMin_equiv (n : Entry) : DataEquiv n (dMin sd n) := DataEquiv.ite _ (dSetMin_equiv _ _) (DataEquiv.refl _)
theorem dMax_equiv (n : Entry) : DataEquiv n (dMax sd n) := DataEquiv.ite _ (dSetMax_equiv _ _) (DataEquiv.refl _)
theorem dUnits_equiv (n : Entry) : DataEquiv n (dUnits sd n) :=
  DataEquiv.ite _ (DataEquiv.withD _ _ (fun d => ⟨rfl, rfl, rfl, rfl, rfl, rfl, id⟩)) (DataEquiv.refl _)
theorem dType_equiv (n : Entry) : DataEquiv n (dType sd n) := by
  unfold dType
  split
  · exact DataEquiv.withD _ _ (fun d => ⟨rfl, rfl, rfl, rfl, rfl, rfl, fun _ => by assumption⟩)
  · exact DataEquiv.refl _
theorem dCfgDel_equiv (n : Entry) : DataEquiv n (dCfgDel sd n) :=
  DataEquiv.ite _ (DataEquiv.withD _ _ (fun d => ⟨rfl, rfl, rfl, rfl, rfl, rfl, id⟩)) (DataEquiv.refl _)
theorem dDefaultDel_equiv (n : Entry) : DataEquiv n (dDefaultDel ms sd n).1 := by
  unfold dDefaultDel
  repeat' split
  all_goals first
    | exact DataEquiv.refl _
    | exact DataEquiv.withD _ _ (fun d => ⟨rfl, rfl, rfl, rfl, rfl, rfl, id⟩)
theorem dMandDel_equiv (n : Entry) : DataEquiv n (dMandDel sd n) :=
  DataEquiv.ite _ (DataEquiv.withD _ _ (fun d => ⟨rfl, rfl, rfl, rfl, rfl, rfl, id⟩)) (DataEquiv.refl _)
theorem dMinDel_equiv (n : Entry) (es : List Err) : DataEquiv n (dMinDel sd n es).1 := by
  unfold dMinDel; split
  · exact dSetMin_equiv _ _
  · exact DataEquiv.refl _
theorem dMaxDel_equiv (n : Entry) (es : List Err) : DataEquiv n (dMaxDel sd n es).1 := by
  unfold dMaxDel; split
  · exact dSetMax_equiv _ _
  · exact DataEquiv.refl _
end DevLemmas

/-- A deviate statement changes none of: children, errors, name, kind, child-map presence,
presence of list attributes, source node; and it never removes a type. -/
theorem applyOneDeviate_equiv (opts : Opts) (ms : Stmt) (kind : String) (spec : Entry) (hp : Bool) (node : Entry) :
    DataEquiv node (applyOneDeviate opts ms kind spec hp node).1 := by
  rw [applyOneDeviate_eq]
  unfold applyOneDeviate'
  have a1 := fun n => dCfg_equiv spec.d n
  have a2 := fun n => dDefault_equiv ms kind spec.d n
  have a3 := fun n => dMand_equiv spec.d n
  have a4 := fun n => dMin_equiv spec.d n
  have a5 := fun n => dMax_equiv spec.d n
  have a6 := fun n => dUnits_equiv spec.d n
  have a7 := fun n => dType_equiv spec.d n
  have b1 := fun n => dCfgDel_equiv spec.d n
  have b2 := fun n => dDefaultDel_equiv ms spec.d n
  have b3 := fun n => dMandDel_equiv spec.d n
  have b4 := fun n es => dMinDel_equiv spec.d n es
  have b5 := fun n es => dMaxDel_equiv spec.d n es
  simp only []
  repeat' split
  all_goals first
    | exact DataEquiv.refl _
    | exact ((a1 _).trans (a2 _)).trans (a3 _)
    | exact (((a1 _).trans (a2 _)).trans (a3 _)).trans (a4 _)
    | exact ((((((a1 _).trans (a2 _)).trans (a3 _)).trans (a4 _)).trans (a5 _)).trans (a6 _)).trans (a7 _)
    | exact ((b1 _).trans (b2 _)).trans (b3 _)
    | exact (((b1 _).trans (b2 _)).trans (b3 _)).trans (b4 _ _)
    | exact ((((b1 _).trans (b2 _)).trans (b3 _)).trans (b4 _ _)).trans (b5 _ _)

/-! ### forests -/

theorem forestAll_setTree {P : Entry → Prop} (f : Forest) (id : Nat) (e : Entry) (hf : ForestAll P f) (he : P e) :
    ForestAll P (f.setTree id e) := by
  intro t ht
  simp only [Forest.setTree, List.mem_map] at ht
  obtain ⟨⟨i, x⟩, hx, rfl⟩ := ht
  split
  · exact he
  · exact hf _ hx

theorem forestAll_tree? {P : Entry → Prop} (f : Forest) (id : Nat) (e : Entry) (hf : ForestAll P f)
    (h : f.tree? id = some e) : P e := by
  simp only [Forest.tree?, Option.map_eq_some_iff] at h
  obtain ⟨t, ht, rfl⟩ := h
  exact hf _ (List.mem_of_find?_eq_some ht)

/-! ### `NoErrors` through the deviation stage -/

theorem noErrors_of_equiv {a b : Entry} (h : DataEquiv a b) (ha : NoErrors a) : NoErrors b := by
  cases a with | mk d c i o =>
  cases b with | mk d' c' i' o' =>
  unfold NoErrors at *
  rw [everyNode_mk] at *
  have h1 := h.dir; have h2 := h.inp; have h3 := h.out; have h4 := h.errors
  simp only [Entry.dir, Entry.inp, Entry.out, Entry.d] at h1 h2 h3 h4
  subst h1 h2 h3
  simp only [noErrorsHere, Entry.d] at *
  rw [h4]; exact ha

theorem noErrors_implicitIO (parent : Entry) (b : Bool) : NoErrors (implicitIO parent b) := by
  unfold NoErrors implicitIO; rw [everyNode_mk]; simp [noErrorsHere, Entry.d]

/-- The two functions `walkParts` applies at an rpc node without input / output. -/
def setImplicitIn : Entry → Entry := fun e => match e with | .mk d c _ o => .mk d c [implicitIO e true] o
def setImplicitOut : Entry → Entry := fun e => match e with | .mk d c i _ => .mk d c i [implicitIO e false]

/-- Anything preserved by the lazy creation of an rpc input / output is preserved by `walkParts`. -/
theorem walkParts_inv (P : Entry → Prop) (hin : ∀ root p, P root → P (root.updateAt p setImplicitIn))
    (hout : ∀ root p, P root → P (root.updateAt p setImplicitOut)) :
    ∀ (parts : List String) (root : Entry) (cur : Option Path), P root → P (walkParts parts root cur).2 := by
  intro parts
  induction parts with
  | nil => intro root cur h; exact h
  | cons part rest ih =>
    intro root cur h
    unfold walkParts
    dsimp only
    repeat' split
    all_goals first
      | exact h
      | exact ih _ _ h
      | exact ih _ _ (hin _ _ h)
      | exact ih _ _ (hout _ _ h)

theorem noErrors_setImplicitIn (x : Entry) (hx : NoErrors x) : NoErrors (setImplicitIn x) := by
  cases x with | mk d c i o =>
  unfold NoErrors setImplicitIn at *
  rw [everyNode_mk] at hx ⊢
  obtain ⟨h1, h2, h3, h4⟩ := hx
  refine ⟨h1, h2, ?_, h4⟩
  intro y hy; simp only [List.mem_singleton] at hy; subst hy; exact noErrors_implicitIO _ _

theorem noErrors_setImplicitOut (x : Entry) (hx : NoErrors x) : NoErrors (setImplicitOut x) := by
  cases x with | mk d c i o =>
  unfold NoErrors setImplicitOut at *
  rw [everyNode_mk] at hx ⊢
  obtain ⟨h1, h2, h3, h4⟩ := hx
  refine ⟨h1, h2, h3, ?_⟩
  intro y hy; simp only [List.mem_singleton] at hy; subst hy; exact noErrors_implicitIO _ _

theorem noErrors_walkParts (parts : List String) (root : Entry) (cur : Option Path) (h : NoErrors root) :
    NoErrors (walkParts parts root cur).2 :=
  walkParts_inv NoErrors
    (fun root p h => everyNode_updateAt_own _ ownOnly_noErrorsHere _ noErrors_setImplicitIn p root h)
    (fun root p h => everyNode_updateAt_own _ ownOnly_noErrorsHere _ noErrors_setImplicitOut p root h)
    parts root cur h

/-- `find` changes a tree through `walkParts`, or records an error on the root of the tree it
started in (an unresolvable prefix). -/
theorem find_inv (P : Entry → Prop) (hw : ∀ parts root cur, P root → P (walkParts parts root cur).2)
    (hadd : ∀ e x, P e → P (e.addErr x))
    (reg : Registry) (f : Forest) (start : Loc) (ctx : Nat) (name : String) (hf : ForestAll P f) :
    ForestAll P (find reg f start ctx name).2 := by
  unfold find
  dsimp only
  repeat' split
  all_goals first
    | exact hf
    | (rename_i heq
       exact forestAll_setTree _ _ _ hf (hw _ _ _ (forestAll_tree? _ _ _ hf heq)))
    | (rename_i heq
       exact forestAll_setTree _ _ _ hf (hadd _ _ (forestAll_tree? _ _ _ hf heq)))

/-- When `find` finds something, it has changed trees through `walkParts` only. -/
theorem find_inv_some (P : Entry → Prop) (hw : ∀ parts root cur, P root → P (walkParts parts root cur).2)
    (reg : Registry) (f : Forest) (start : Loc) (ctx : Nat) (name : String) (hf : ForestAll P f)
    (hsome : (find reg f start ctx name).1 ≠ none) :
    ForestAll P (find reg f start ctx name).2 := by
  revert hsome
  unfold find
  dsimp only
  repeat' split
  all_goals first
    | (intro _; exact hf)
    | (intro h; exact absurd rfl h)
    | (intro hs; rename_i heq
       exact forestAll_setTree _ _ _ hf (hw _ _ _ (forestAll_tree? _ _ _ hf heq)))

/-- What `find` returns is a location in the forest it returns (when the caller looks it up). -/
theorem noErrors_removeAt (root : Entry) (p : Path) (h : NoErrors root) : NoErrors (removeAt root p) := by
  unfold removeAt
  split
  · refine everyNode_updateAt_own _ ownOnly_noErrorsHere _ ?_ _ root h
    intro x hx
    cases x with | mk d c i o =>
    simp only [Entry.withDir, Entry.dir]
    rw [everyNode_mk] at hx ⊢
    exact ⟨hx.1, fun y hy => hx.2.1 y (List.mem_filter.mp hy).1, hx.2.2⟩
  · refine everyNode_updateAt_own _ ownOnly_noErrorsHere _ ?_ _ root h
    intro x hx
    cases x with | mk d c i o =>
    rw [everyNode_mk] at hx ⊢
    exact ⟨hx.1, hx.2.1, by simp, hx.2.2.2⟩
  · refine everyNode_updateAt_own _ ownOnly_noErrorsHere _ ?_ _ root h
    intro x hx
    cases x with | mk d c i o =>
    rw [everyNode_mk] at hx ⊢
    exact ⟨hx.1, hx.2.1, hx.2.2.1, by simp⟩
  · exact h

/-- The deviations of one module keep an error-free forest error-free, unless they return an
error (the errors of a deviation are returned, never recorded on a node; a target path whose
prefix cannot be resolved records an error on the tree and then fails the deviation). -/
theorem noErrors_applyDeviations (reg : Registry) (opts : Opts) (m : Mod) (devs : List (Stmt × List (String × Entry)))
    (f : Forest) (hf : ForestAll NoErrors f) (hclean : (applyDeviations reg opts m devs f).2 = []) :
    ForestAll NoErrors (applyDeviations reg opts m devs f).1 := by
  revert hclean
  unfold applyDeviations
  refine foldl_inv (fun acc : Forest × List Err => acc.2 = [] → ForestAll NoErrors acc.1) _ devs (f, []) (fun _ => hf) ?_
  rintro ⟨f, errs⟩ ⟨dstmt, deviates⟩ _ hP
  dsimp only at hP ⊢
  have hfind := find_inv_some NoErrors noErrors_walkParts reg f (m.seq, []) m.seq dstmt.arg
  generalize find reg f (m.seq, []) m.seq dstmt.arg = r at hfind
  obtain ⟨target, f'⟩ := r
  dsimp only at hfind ⊢
  split
  · intro h; simp at h
  · rename_i t path
    split
    · intro h; simp at h
    · rename_i node0 hn0
      dsimp only
      have key := foldl_inv (fun acc : Forest × Entry × Bool × List Err =>
          (∃ l, acc.2.2.2 = errs ++ l) ∧ (errs = [] → ForestAll NoErrors acc.1 ∧ NoErrors acc.2.1))
        (fun (acc : Forest × Entry × Bool × List Err) (ds : String × Entry) =>
          let (f, node, detached, errs) := acc
          let (node', remove, es) := applyOneDeviate opts m.stmt ds.1 ds.2 (!path.isEmpty) node
          let es := if remove && detached then es ++ [Err.at_ m.stmt "deviate-already-removed"] else es
          let f := if detached then f else
            match f.tree? t with
            | none => f
            | some root =>
              let root := root.updateAt path fun _ => node'
              f.setTree t (if remove then removeAt root path else root)
          (f, node', detached || remove, errs ++ es))
        deviates (f', node0, false, errs) ⟨⟨[], by simp⟩, ?_⟩ ?_
      · intro hfin
        obtain ⟨⟨l, hl⟩, hk⟩ := key
        have he : errs = [] := by
          have := hl.symm.trans hfin
          simp only [List.append_eq_nil_iff] at this; exact this.1
        exact (hk he).1
      · intro he
        have hf' := hfind (hP he) (by simp)
        refine ⟨hf', ?_⟩
        cases ht : f'.tree? t with
        | none => simp [ht] at hn0
        | some root =>
          simp only [ht, Option.bind_some] at hn0
          exact everyNode_getAt _ path root node0 (forestAll_tree? _ _ _ hf' ht) hn0
      · rintro ⟨f2, node, detached, errs2⟩ ds _ ⟨⟨l, hl⟩, hk⟩
        dsimp only at hl hk ⊢
        refine ⟨⟨l ++ _, by rw [hl, List.append_assoc]⟩, ?_⟩
        intro he
        obtain ⟨hf2, hnode⟩ := hk he
        have hnode' := noErrors_of_equiv (applyOneDeviate_equiv opts m.stmt ds.1 ds.2 (!path.isEmpty) node) hnode
        refine ⟨?_, hnode'⟩
        split
        · exact hf2
        · split
          · exact hf2
          · rename_i root hroot
            have hr := forestAll_tree? _ _ _ hf2 hroot
            have hr' : NoErrors (root.updateAt path fun _ => (applyOneDeviate opts m.stmt ds.1 ds.2 (!path.isEmpty) node).1) :=
              everyNode_updateAt_own _ ownOnly_noErrorsHere _ (fun _ _ => hnode') path root hr
            apply forestAll_setTree _ _ _ hf2
            split
            · exact noErrors_removeAt _ _ hr'
            · exact hr'

theorem forestErrs_eq_nil (f : Forest) : forestErrs f = [] ↔ ForestAll NoErrors f := by
  unfold forestErrs ForestAll
  simp only [List.flatten_eq_nil_iff, List.mem_map, forall_exists_index, and_imp]
  constructor
  · intro h t ht; exact (noErrors_iff _).2 (h _ t ht rfl)
  · rintro h l t ht rfl; exact (noErrors_iff _).1 (h t ht)

theorem devStage_noErrors (reg : Registry) (opts : Opts) (plug : Plug) (f0 : Forest) (h : ForestAll NoErrors f0)
    (hclean : (devStage reg opts plug f0).2.1 = []) :
    ForestAll NoErrors (devStage reg opts plug f0).1 := by
  revert hclean
  unfold devStage
  refine foldl_inv (fun acc : Forest × List Err × List String => acc.2.1 = [] → ForestAll NoErrors acc.1) _ _ _
    (fun _ => h) ?_
  rintro ⟨f, errs, done⟩ m _ hP
  dsimp only at hP ⊢
  split
  · exact hP
  · dsimp only
    intro he
    simp only [List.append_eq_nil_iff] at he
    exact noErrors_applyDeviations _ _ _ _ _ (hP he.1) he.2

/-- The three ways `processAll` can end. -/
theorem processAll_clean (reg : Registry) (opts : Opts) (plug : Plug) (h : (processAll reg opts plug).errors = []) :
    stage1Errs reg plug = [] ∧ forestErrs (forest0 reg opts plug) = [] ∧
    forestErrs (preDev reg opts plug).forest = [] ∧ (devStage reg opts plug (preDev reg opts plug).forest).2.1 = [] ∧
    (processAll reg opts plug).forest = (devStage reg opts plug (preDev reg opts plug).forest).1 := by
  rw [processAll_eq] at h
  by_cases h1 : stage1Errs reg plug = []
  · by_cases h2 : forestErrs (forest0 reg opts plug) = []
    · simp only [h1, h2, List.isEmpty_nil, Bool.not_true, Bool.false_eq_true, if_false] at h
      have := canonErrs_eq_nil _ h
      simp only [List.append_eq_nil_iff] at this
      refine ⟨h1, h2, this.1, this.2, ?_⟩
      rw [processAll_eq]
      simp only [h1, h2, List.isEmpty_nil, Bool.not_true, Bool.false_eq_true, if_false]
    · have : (!(forestErrs (forest0 reg opts plug)).isEmpty) = true := by
        cases hh : forestErrs (forest0 reg opts plug) with
        | nil => exact absurd hh h2
        | cons a t => rfl
      simp only [h1, List.isEmpty_nil, Bool.not_true, Bool.false_eq_true, if_false, this, if_true] at h
      exact absurd (canonErrs_eq_nil _ h) h2
  · have : (!(stage1Errs reg plug).isEmpty) = true := by
      cases hh : stage1Errs reg plug with
      | nil => exact absurd hh h1
      | cons a t => rfl
    simp only [this, if_true] at h
    exact absurd (canonErrs_eq_nil _ h) h1

theorem process_clean_no_errors (reg : Registry) (opts : Opts) (plug : Plug)
    (h : (processAll reg opts plug).errors = []) : ForestAll NoErrors (processAll reg opts plug).forest := by
  obtain ⟨_, _, h3, h4, h5⟩ := processAll_clean reg opts plug h
  rw [h5]
  exact devStage_noErrors _ _ _ _ ((forestErrs_eq_nil _).1 h3) h4

/-! ### `toEntry`, one level unfolded with its local functions named -/

abbrev Rec := Mod → List Stmt → Stmt → List NodeId → TState → Entry × TState

section Body
variable (env : Env) (fuel : Nat) (rec : Rec) (root : Mod) (n : Stmt) (sub : List Stmt) (visiting : List NodeId) (isMod : Bool)

def addAllFn (kw : String) (acc : Entry × TState) : Entry × TState :=
  (n.all kw).foldl (fun (acc : Entry × TState) c =>
    let (ce, st) := rec root sub c visiting acc.2
    (acc.1.add c.arg ce, st)) acc

/-- The local `step` of `toEntry`. -/
def stepFn (acc : Entry × TState) (f : String) : Entry × TState :=
  let (e, st) := acc
  match f with
  | "config" =>
    let (t, er) := tristate n (n.one? "config")
    ((e.withD fun d => { d with config := t }).addErrs er, st)
  | "mandatory" =>
    let (t, er) := tristate n (n.one? "mandatory")
    ((e.withD fun d => { d with mandatory := t }).addErrs er, st)
  | "description" =>
    (match n.argOf? "description" with
      | some v => e.withD fun d => { d with description := v }
      | none => e, st)
  | "key" =>
    (match n.argOf? "key" with
      | some v => e.withD fun d => { d with key := v }
      | none => e, st)
  | "anydata" | "anyxml" | "case" | "choice" | "container" | "leaf" | "leaf-list" | "list"
  | "notification" => addAllFn rec root n sub visiting f acc
  | "rpc" | "action" =>
    (n.all f).foldl (fun (acc : Entry × TState) c =>
      let (ce, st) := rec root sub c visiting acc.2
      (acc.1.add c.arg (ce.withD fun d => { d with isRpc := true }), st)) acc
  | "grouping" =>
    (n.all "grouping").foldl (fun (acc : Entry × TState) g =>
      let (ge, st) := rec root sub g visiting acc.2
      (acc.1.importErrors ge, st)) acc
  | "uses" =>
    (n.all "uses").foldl (fun (acc : Entry × TState) u =>
      let (ge, st) := rec root sub u visiting acc.2
      (acc.1.merge none ge, st)) acc
  | "input" =>
    match n.one? "input" with
    | none => acc
    | some i =>
      let (ie, st) := rec root sub i visiting st
      let ie := ie.withD fun d => { d with name := "input", kind := .input }
      (match e with | .mk d c _ o => .mk { d with isRpc := true } c [ie] o, st)
  | "output" =>
    match n.one? "output" with
    | none => acc
    | some o =>
      let (oe, st) := rec root sub o visiting st
      let oe := oe.withD fun d => { d with name := "output", kind := .output }
      (match e with | .mk d c i _ => .mk { d with isRpc := true } c i [oe], st)
  | "include" =>
    (n.all "include").foldl (fun (acc : Entry × TState) a =>
      let (e, st) := acc
      match env.includeTarget root a with
      | none => (e.addErr (Err.at_ a "other"), st)
      | some im =>
        let srcToIncluded := im.name ++ ":" ++ n.arg
        let includedToSrc := n.arg ++ ":" ++ im.name
        if st.merged.contains srcToIncluded then (e, st)
        else if !st.merged.contains includedToSrc && im.name != n.arg then
          let includedToParent := im.name ++ ":" ++ (im.belongsTo?.getD "")
          if st.merged.contains includedToParent then (e, st)
          else
            let st := { st with merged := st.merged ++ [srcToIncluded, includedToParent] }
            let (ie, st) := rec im [] im.stmt visiting st
            (e.merge none ie, st)
        else if env.opts.ignoreCircular then (e, st)
        else (e.addErr (Err.bare "cycle"), st)) acc
  | "deviation" =>
    (n.all "deviation").foldl (fun (acc : Entry × TState) dv =>
      let (de, st) := rec root sub dv visiting acc.2
      (acc.1.importErrors de, st)) acc
  | "deviate" =>
    (n.all "deviate").foldl (fun (acc : Entry × TState) dv =>
      let (de, st) := rec root sub dv visiting acc.2
      let e := acc.1.importErrors de
      (if deviateKinds.contains dv.arg then e else e.addErr (Err.at_ n "deviate-unknown-kind"), st)) acc
  | "type" =>
    match n.one? "type" with
    | none => acc
    | some t =>
      let (ty, terrs) := env.tres.resolve env.reg root sub t
      if terrs.isEmpty then (e.withD fun d => { d with type := ty }, st)
      else (e.addErr (Err.bare "deviate-bad-type"), st)
  | "default" =>
    if e.d.kind == .deviate then
      (match n.one? "default" with
        | some dflt => e.withD fun d => { d with default := [dflt.arg] }
        | none => e, st)
    else acc
  | "units" =>
    (match n.argOf? "units" with
      | some v => e.withD fun d => { d with units := v }
      | none => e, st)
  | "max-elements" =>
    if e.d.kind != .deviate then acc else
    let e := e.withD fun d => { d with listAttr := some (d.listAttr.getD {}) }
    (match n.one? "max-elements" with
      | none => e
      | some v =>
        let (mx, er) := semMax (some v)
        (e.withD fun d => { d with hasMax := true, listAttr := some { (d.listAttr.getD {}) with max := mx } }).addErrs er, st)
  | "min-elements" =>
    if e.d.kind != .deviate then acc else
    let e := e.withD fun d => { d with listAttr := some (d.listAttr.getD {}) }
    (match n.one? "min-elements" with
      | none => e
      | some v =>
        let (mn, er) := semMin (some v)
        (e.withD fun d => { d with hasMin := true, listAttr := some { (d.listAttr.getD {}) with min := mn } }).addErrs er, st)
  | "augment" =>
    if !isMod then acc else
    let (as, st) := (n.all "augment").foldl (fun (acc : List Entry × TState) a =>
      let (ae, st) := rec root sub a visiting acc.2
      (acc.1 ++ [ae], st)) ([], st)
    (e, { st with augs := st.augs ++ [(root.seq, as)] })
  | _ => acc

/-- The data of the entry a directory-like statement starts from. -/
def baseData : EData × List Err :=
  let base : EData := { name := n.arg, kind := kindOfKw n.kw, hasDir := true, node := n, nodeMod := root.seq,
                        nodeKw := n.kw }
  if n.kw == "list" then
    let (la, lerrs) := listAttrOf n
    ({ base with listAttr := some la }, lerrs)
  else if n.kw == "choice" then
    ({ base with default := match n.one? "default" with | some d => [d.arg] | none => [] }, [])
  else (base, [])

def e0 : Entry := .mk { (baseData root n).1 with errors := (baseData root n).2 } [] [] []
end Body

/-- The directory-like case of `toEntry`: all steps, then the caches. -/
def dirBody (env : Env) (rec : Rec) (root : Mod) (scope : List Stmt) (n : Stmt)
    (visiting : List NodeId) (st : TState) (isMod : Bool) : Entry × TState :=
  let (e, st) := (fieldOrder n.kw).foldl (stepFn env rec root n (n :: scope) visiting isMod) (e0 root n, st)
  if isMod then (e, { st with cache := st.cache ++ [(root.seq, e)] })
  else if n.kw == "grouping" then (e, { st with gcache := st.gcache ++ [(nodeId root n, e)] })
  else (e, st)

/-- One level of `toEntry`, with the recursive calls abstracted as `rec`. -/
def toEntryBody (env : Env) (fuel : Nat) (rec : Rec) (root : Mod) (scope : List Stmt) (n : Stmt)
    (visiting : List NodeId) (st : TState) : Entry × TState :=
  let isMod := n.kw == "module" || n.kw == "submodule"
  match (if isMod then st.cache.find? (·.1 == root.seq) else none) with
  | some (_, e) => (e, st)
  | none =>
  match (if n.kw == "grouping" then st.gcache.find? (·.1 == nodeId root n) else none) with
  | some (_, e) => (e, st)
  | none =>
  let track := isMod || n.kw == "grouping"
  if track && visiting.contains (nodeId root n) then (errorEntry root n "cycle", st) else
  let visiting := if track then nodeId root n :: visiting else visiting
  if n.kw == "leaf" then (leafEntry env root scope n false, st)
  else if n.kw == "leaf-list" then
    let e := leafEntry env root scope n true
    let (la, lerrs) := listAttrOf n
    (e.withD fun d => { d with listAttr := some la, errors := d.errors ++ lerrs,
                               default := (n.all "default").map (·.arg) }, st)
  else if n.kw == "uses" then
    match (findGrouping env.reg env.linked (2 * fuel + 16) root scope n.arg []).1 with
    | none => (errorEntry root n "unknown-group", st)
    | some (g, groot, gscope) => rec groot gscope g visiting st
  else dirBody env rec root scope n visiting st isMod

theorem toEntry_zero (env : Env) (root : Mod) (scope : List Stmt) (n : Stmt) (visiting : List NodeId) (st : TState) :
    toEntry env 0 root scope n visiting st = (errorEntry root n "out-of-fuel", st) := rfl

theorem toEntry_succ (env : Env) (fuel : Nat) (root : Mod) (scope : List Stmt) (n : Stmt) (visiting : List NodeId) (st : TState) :
    toEntry env (fuel + 1) root scope n visiting st =
      toEntryBody env fuel (toEntry env fuel) root scope n visiting st := by
  rfl

/-! ### what the steps of `toEntry` keep of the node under construction -/

/-- Name, kind and child-map presence of the node are kept. -/
def RootKeep (a b : Entry) : Prop := b.d.name = a.d.name ∧ b.d.kind = a.d.kind ∧ b.d.hasDir = a.d.hasDir

theorem RootKeep.refl (a : Entry) : RootKeep a a := ⟨rfl, rfl, rfl⟩
theorem RootKeep.trans {a b c : Entry} (h1 : RootKeep a b) (h2 : RootKeep b c) : RootKeep a c :=
  ⟨h2.1.trans h1.1, h2.2.1.trans h1.2.1, h2.2.2.trans h1.2.2⟩

theorem rootKeep_withD (e : Entry) (f : EData → EData)
    (hf : ∀ d, (f d).name = d.name ∧ (f d).kind = d.kind ∧ (f d).hasDir = d.hasDir) : RootKeep e (e.withD f) := by
  cases e with | mk d c i o => exact hf d

theorem rootKeep_addErr (e : Entry) (x : Err) : RootKeep e (e.addErr x) := rootKeep_withD _ _ (fun d => ⟨rfl, rfl, rfl⟩)
theorem rootKeep_addErrs (e : Entry) (xs : List Err) : RootKeep e (e.addErrs xs) := rootKeep_withD _ _ (fun d => ⟨rfl, rfl, rfl⟩)
theorem rootKeep_importErrors (e c : Entry) : RootKeep e (e.importErrors c) := rootKeep_addErrs _ _
theorem rootKeep_withDir (e : Entry) (c : List Entry) : RootKeep e (e.withDir c) := by
  cases e with | mk d c i o => exact ⟨rfl, rfl, rfl⟩

theorem rootKeep_add (e : Entry) (k : String) (v : Entry) : RootKeep e (e.add k v) := by
  unfold Entry.add; split
  · exact rootKeep_addErr _ _
  · exact rootKeep_withDir _ _

theorem rootKeep_merge (e : Entry) (ns : Option String) (oe : Entry) : RootKeep e (e.merge ns oe) := by
  unfold Entry.merge
  refine foldl_inv (fun x => RootKeep e x) _ _ _ (rootKeep_importErrors _ _) ?_
  intro b a _ hb
  dsimp only
  split
  · exact hb.trans (rootKeep_addErr _ _)
  · exact hb.trans (rootKeep_withDir _ _)

theorem rootKeep_foldl {α} (g : Entry × TState → α → Entry × TState) (l : List α) (acc : Entry × TState)
    (h : ∀ acc a, RootKeep acc.1 (g acc a).1) : RootKeep acc.1 (l.foldl g acc).1 :=
  foldl_inv (fun x => RootKeep acc.1 x.1) g l acc (RootKeep.refl _) (fun b a _ hb => hb.trans (h b a))

theorem rootKeep_setRpc (e : Entry) (i o : List Entry → List Entry) :
    RootKeep e (match e with | .mk d c i' o' => .mk { d with isRpc := true } c (i i') (o o')) := by
  cases e with | mk d c i o => exact ⟨rfl, rfl, rfl⟩

theorem rootKeep_withD_addErrs (e : Entry) (f : EData → EData) (xs : List Err)
    (hf : ∀ d, (f d).name = d.name ∧ (f d).kind = d.kind ∧ (f d).hasDir = d.hasDir) :
    RootKeep e ((e.withD f).addErrs xs) := (rootKeep_withD e f hf).trans (rootKeep_addErrs _ _)

theorem rootKeep_withD2_addErrs (e : Entry) (f g : EData → EData) (xs : List Err)
    (hf : ∀ d, (f d).name = d.name ∧ (f d).kind = d.kind ∧ (f d).hasDir = d.hasDir)
    (hg : ∀ d, (g d).name = d.name ∧ (g d).kind = d.kind ∧ (g d).hasDir = d.hasDir) :
    RootKeep e (((e.withD f).withD g).addErrs xs) :=
  (rootKeep_withD e f hf).trans ((rootKeep_withD _ g hg).trans (rootKeep_addErrs _ _))

theorem rootKeep_stepFn (env : Env) (rec : Rec) (root : Mod) (n : Stmt) (sub : List Stmt) (visiting : List NodeId)
    (isMod : Bool) (acc : Entry × TState) (f : String) :
    RootKeep acc.1 (stepFn env rec root n sub visiting isMod acc f).1 := by
  obtain ⟨e, st⟩ := acc
  have hw : ∀ (x : Entry) (f : EData → EData), (∀ d, (f d).name = d.name ∧ (f d).kind = d.kind ∧ (f d).hasDir = d.hasDir) →
      RootKeep x (x.withD f) := rootKeep_withD
  unfold stepFn
  dsimp only
  split
  all_goals try dsimp only
  all_goals first
    | exact RootKeep.refl _
    | exact rootKeep_withD_addErrs _ _ _ (fun d => ⟨rfl, rfl, rfl⟩)
    | (unfold addAllFn; refine rootKeep_foldl _ _ (e, st) ?_; intro acc a; exact rootKeep_add _ _ _)
    | (refine rootKeep_foldl _ _ (e, st) ?_; intro acc a; try dsimp only
       first
         | exact rootKeep_add _ _ _
         | exact rootKeep_importErrors _ _
         | exact rootKeep_merge _ _ _
         | (split <;> first | exact rootKeep_importErrors _ _ | exact (rootKeep_importErrors _ _).trans (rootKeep_addErr _ _))
         | (repeat' split
            all_goals try dsimp only
            all_goals first
              | exact RootKeep.refl _
              | exact rootKeep_addErr _ _
              | exact rootKeep_merge _ _ _))
    | (repeat' split
       all_goals try dsimp only
       all_goals first
         | exact RootKeep.refl _
         | exact rootKeep_addErr _ _
         | exact rootKeep_withD _ _ (fun d => ⟨rfl, rfl, rfl⟩)
         | exact rootKeep_withD2_addErrs _ _ _ _ (fun d => ⟨rfl, rfl, rfl⟩) (fun d => ⟨rfl, rfl, rfl⟩)
         | exact ⟨rfl, rfl, rfl⟩)

theorem rootKeep_fold_steps (env : Env) (rec : Rec) (root : Mod) (n : Stmt) (sub : List Stmt) (visiting : List NodeId)
    (isMod : Bool) (l : List String) (acc : Entry × TState) :
    RootKeep acc.1 (l.foldl (stepFn env rec root n sub visiting isMod) acc).1 :=
  rootKeep_foldl _ _ _ (fun acc f => rootKeep_stepFn env rec root n sub visiting isMod acc f)

/-- Kind of the entry made from a statement with keyword `kw`. -/
def kindOf (kw : String) : Kind := if kw == "leaf" || kw == "leaf-list" then .leaf else kindOfKw kw

theorem e0_data (root : Mod) (n : Stmt) : (e0 root n).d.name = n.arg ∧ (e0 root n).d.kind = kindOfKw n.kw ∧
    (e0 root n).d.hasDir = true ∧ (e0 root n).d.node = n ∧
    ((e0 root n).d.listAttr.isSome = true → n.kw = "list") ∧ (e0 root n).d.type = none := by
  unfold e0 baseData
  dsimp only [Entry.d]
  split
  · rename_i h; simp at h; simp [h]
  · split <;> simp

/-- What the entry made from statement `n` looks like, unless it is an error entry, the result of
a `uses` (the grouping's entry), or a cached grouping / module entry. -/
def Shape (n : Stmt) (e : Entry) : Prop :=
  e.d.errors = [] → n.kw ≠ "uses" → n.kw ≠ "grouping" → n.kw ≠ "module" → n.kw ≠ "submodule" →
    e.d.name = n.arg ∧ e.d.kind = kindOf n.kw ∧ e.d.hasDir = !(n.kw == "leaf" || n.kw == "leaf-list")

theorem leafEntry_data (env : Env) (root : Mod) (scope : List Stmt) (n : Stmt) (syn : Bool) :
    (leafEntry env root scope n syn).d.name = n.arg ∧ (leafEntry env root scope n syn).d.kind = .leaf ∧
    (leafEntry env root scope n syn).d.hasDir = false ∧ (leafEntry env root scope n syn).d.node = n ∧
    (leafEntry env root scope n syn).d.listAttr = none ∧
    (leafEntry env root scope n syn).dir = [] ∧ (leafEntry env root scope n syn).inp = [] ∧
    (leafEntry env root scope n syn).out = [] := by
  unfold leafEntry
  dsimp only
  exact ⟨rfl, rfl, rfl, rfl, rfl, rfl, rfl, rfl⟩

theorem toEntryBody_shape (env : Env) (fuel : Nat) (rec : Rec) (root : Mod) (scope : List Stmt) (n : Stmt)
    (visiting : List NodeId) (st : TState) : Shape n (toEntryBody env fuel rec root scope n visiting st).1 := by
  intro herr h1 h2 h3 h4
  have hm : (n.kw == "module" || n.kw == "submodule") = false := by simp [h3, h4]
  have hg : (n.kw == "grouping") = false := by simp [h2]
  have hu : (n.kw == "uses") = false := by simp [h1]
  unfold toEntryBody at herr ⊢
  simp only [hm, hg, hu, Bool.false_eq_true, if_false, Bool.or_self, Bool.false_and] at herr ⊢
  unfold kindOf
  by_cases hl : n.kw = "leaf"
  · simp only [hl, beq_self_eq_true, if_true, Bool.true_or, Bool.not_true] at herr ⊢
    have := leafEntry_data env root scope n false
    exact ⟨this.1, this.2.1, this.2.2.1⟩
  · by_cases hll : n.kw = "leaf-list"
    · simp only [hll, beq_self_eq_true, if_true, Bool.or_true, Bool.not_true] at herr ⊢
      have := leafEntry_data env root scope n true
      simp only [show ("leaf-list" == "leaf") = false by decide, Bool.false_eq_true, if_false]
      generalize leafEntry env root scope n true = le at this ⊢
      cases le with | mk d c i o =>
      exact ⟨this.1, this.2.1, this.2.2.1⟩
    · have hl' : (n.kw == "leaf") = false := by simp [hl]
      have hll' : (n.kw == "leaf-list") = false := by simp [hll]
      simp only [hl', hll', Bool.false_eq_true, if_false, Bool.or_self, Bool.not_false, dirBody, hg] at herr ⊢
      have hk := rootKeep_fold_steps env rec root n (n :: scope) visiting false (fieldOrder n.kw) (e0 root n, st)
      have h0 := e0_data root n
      exact ⟨hk.1.trans h0.1, hk.2.1.trans h0.2.1, hk.2.2.trans h0.2.2.1⟩

theorem errorEntry_errors (root : Mod) (n : Stmt) (cls : String) : (errorEntry root n cls).d.errors ≠ [] := by
  simp [errorEntry, Entry.d]

theorem toEntry_shape (env : Env) (fuel : Nat) (root : Mod) (scope : List Stmt) (n : Stmt)
    (visiting : List NodeId) (st : TState) : Shape n (toEntry env fuel root scope n visiting st).1 := by
  cases fuel with
  | zero => intro herr; exact absurd herr (errorEntry_errors _ _ _)
  | succ fuel => rw [toEntry_succ]; exact toEntryBody_shape _ _ _ _ _ _ _ _

/-! ### local predicates and their closure properties -/

instance : LawfulBEq Kind where
  eq_of_beq {a b} h := by cases a <;> cases b <;> first | rfl | exact absurd h (by decide)
  rfl {a} := by cases a <;> decide

/-- What a parent's local condition may look at in a child. -/
def hdr (e : Entry) : String × Kind := (e.d.name, e.d.kind)

/-- No `Dir`, input or output child is a deviate entry (those never enter a schema tree). -/
def ndHere (e : Entry) : Bool :=
  e.dir.all (·.d.kind != .deviate) && e.inp.all (·.d.kind != .deviate) && e.out.all (·.d.kind != .deviate)

/-- The node data changes a step of `toEntry` makes without touching what the tree predicates read. -/
def NeutralD (d d' : EData) : Prop :=
  d'.name = d.name ∧ d'.kind = d.kind ∧ d'.hasDir = d.hasDir ∧ d'.node = d.node ∧ d'.listAttr = d.listAttr ∧
    d'.type = d.type

/-- Changes to a deviate entry's list attributes. -/
def LaOnlyD (d d' : EData) : Prop :=
  d'.name = d.name ∧ d'.kind = d.kind ∧ d'.hasDir = d.hasDir ∧ d'.node = d.node ∧ d'.type = d.type

/-- Closure properties of a local predicate `q` under the operations `toEntry`, `merge` and the
augment stage perform. -/
structure LocalBase (env : Env) (q : Entry → Bool) : Prop where
  hdr : ∀ d c i o c' i' o', c.map hdr = c'.map hdr → i.map hdr = i'.map hdr → o.map hdr = o'.map hdr →
    q (.mk d c i o) = q (.mk d c' i' o')
  leaf : ∀ root scope n syn, (leafEntry env root scope n syn).d.errors = [] → q (leafEntry env root scope n syn) = true
  leafList : ∀ (d : EData) la xs dl, d.kind = .leaf → d.hasDir = false → q (.mk d [] [] []) = true →
    q (.mk { d with listAttr := some la, errors := d.errors ++ xs, default := dl } [] [] []) = true
  base : ∀ d : EData, d.hasDir = true → d.kind ≠ .leaf → (d.listAttr.isSome = true → d.kind = .directory) →
    d.type = none → q (.mk d [] [] []) = true
  neutral : ∀ d d' c i o, NeutralD d d' → q (.mk d c i o) = true → q (.mk d' c i o) = true
  rename : ∀ (d : EData) c i o nm, q (.mk d c i o) = true → q (.mk { d with name := nm } c i o) = true
  typeSet : ∀ (d : EData) c i o ty, d.kind ≠ .leaf → q (.mk d c i o) = true → q (.mk { d with type := ty } c i o) = true
  laSet : ∀ d d' c i o, d.kind = .deviate → LaOnlyD d d' → q (.mk d c i o) = true → q (.mk d' c i o) = true
  append : ∀ d c i o (v : Entry), q (.mk d c i o) = true → (∀ x ∈ c, x.name ≠ v.name) → v.d.kind ≠ .deviate →
    q (.mk d (c ++ [v]) i o) = true
  setInp : ∀ d c o (v : Entry), q (.mk d c [] o) = true → v.d.kind = .input → q (.mk d c [v] o) = true
  setOut : ∀ d c i (v : Entry), q (.mk d c i []) = true → v.d.kind = .output → q (.mk d c i [v]) = true

/-- A local predicate with the closure properties that also excludes deviate entries as children. -/
structure LocalOK (env : Env) (q : Entry → Bool) : Prop extends LocalBase env q where
  nd : ∀ e, q e = true → ndHere e = true

/-- "If the tree carries no error, `q` holds at every node." -/
def Cond (q : Entry → Bool) (e : Entry) : Prop := NoErrors e → everyNode q e = true

theorem noErrors_mk (d : EData) (c i o : List Entry) : NoErrors (.mk d c i o) ↔
    d.errors = [] ∧ (∀ x ∈ c, NoErrors x) ∧ (∀ x ∈ i, NoErrors x) ∧ (∀ x ∈ o, NoErrors x) := by
  unfold NoErrors; rw [everyNode_mk]; simp [noErrorsHere, Entry.d]

theorem not_noErrors_addErr (e : Entry) (x : Err) : ¬ NoErrors (e.addErr x) := by
  cases e with | mk d c i o =>
  intro h
  simp only [Entry.addErr, Entry.withD] at h
  rw [noErrors_mk] at h
  simp at h

theorem child?_none (e : Entry) (k : String) (h : e.child? k = none) : ∀ x ∈ e.dir, x.name ≠ k := by
  intro x hx hk
  simp only [Entry.child?, List.find?_eq_none] at h
  exact h x hx (by simp [hk])

section Closure
variable {env : Env} {q : Entry → Bool} (hq : LocalOK env q)
include hq

theorem cond_withD (e : Entry) (f : EData → EData) (hn : ∀ d, NeutralD d (f d))
    (he : ∀ d, ∃ xs, (f d).errors = d.errors ++ xs) (h : Cond q e) : Cond q (e.withD f) := by
  cases e with | mk d c i o =>
  intro hne
  simp only [Entry.withD] at hne ⊢
  rw [noErrors_mk] at hne
  obtain ⟨xs, hxs⟩ := he d
  have hd : d.errors = [] := by
    have := hne.1; rw [hxs] at this; exact (List.append_eq_nil_iff.mp this).1
  have := h ((noErrors_mk _ _ _ _).2 ⟨hd, hne.2⟩)
  rw [everyNode_mk] at this ⊢
  exact ⟨hq.neutral _ _ _ _ _ (hn d) this.1, this.2⟩

theorem cond_addErrs (e : Entry) (xs : List Err) (h : Cond q e) : Cond q (e.addErrs xs) :=
  cond_withD hq e _ (fun d => ⟨rfl, rfl, rfl, rfl, rfl, rfl⟩) (fun d => ⟨xs, rfl⟩) h

theorem cond_addErr (e : Entry) (x : Err) (h : Cond q e) : Cond q (e.addErr x) :=
  cond_withD hq e _ (fun d => ⟨rfl, rfl, rfl, rfl, rfl, rfl⟩) (fun d => ⟨[x], rfl⟩) h

theorem cond_importErrors (e c : Entry) (h : Cond q e) : Cond q (e.importErrors c) := cond_addErrs hq _ _ h

/-- Appending a child whose name is new. -/
theorem cond_append (e v : Entry) (h : Cond q e) (hv : Cond q v) (hk : e.child? v.name = none)
    (hkind : NoErrors v → v.d.kind ≠ .deviate) : Cond q (e.withDir (e.dir ++ [v])) := by
  cases e with | mk d c i o =>
  intro hne
  simp only [Entry.withDir, Entry.dir] at hne ⊢
  rw [noErrors_mk] at hne
  have hnv : NoErrors v := hne.2.1 v (by simp)
  have hne' : NoErrors (.mk d c i o) :=
    (noErrors_mk _ _ _ _).2 ⟨hne.1, fun x hx => hne.2.1 x (by simp [hx]), hne.2.2⟩
  have he := h hne'
  rw [everyNode_mk] at he ⊢
  refine ⟨hq.append _ _ _ _ _ he.1 (child?_none _ _ hk) (hkind hnv), ?_, he.2.2⟩
  intro x hx
  rcases List.mem_append.mp hx with hx | hx
  · exact he.2.1 x hx
  · simp only [List.mem_singleton] at hx; subst hx; exact hv hnv

theorem cond_add (e : Entry) (k : String) (v : Entry) (h : Cond q e) (hv : Cond q v)
    (hs : NoErrors v → v.name = k ∧ v.d.kind ≠ .deviate) : Cond q (e.add k v) := by
  unfold Entry.add
  split
  · intro hne; exact absurd hne (not_noErrors_addErr _ _)
  · rename_i hk
    intro hne
    have hnv : NoErrors v := by
      cases e with | mk d c i o =>
      simp only [Entry.withDir, Entry.dir] at hne
      rw [noErrors_mk] at hne
      exact hne.2.1 v (by simp)
    exact cond_append hq e v h hv (by rw [(hs hnv).1]; exact hk) (fun h => (hs h).2) hne


omit hq in
theorem merge_root_errors (e : Entry) (ns : Option String) (oe : Entry) : ∃ xs, (e.merge ns oe).d.errors =
    (e.d.errors ++ (oe.d.errors ++ Entry.allErrorsL oe.dir ++ Entry.allErrorsL oe.inp ++ Entry.allErrorsL oe.out)) ++ xs := by
  unfold Entry.merge
  refine foldl_inv (fun x : Entry => ∃ xs, x.d.errors =
    (e.d.errors ++ (oe.d.errors ++ Entry.allErrorsL oe.dir ++ Entry.allErrorsL oe.inp ++ Entry.allErrorsL oe.out)) ++ xs)
    _ _ _ ?_ ?_
  · refine ⟨[], ?_⟩
    cases e with | mk d c i o => simp [Entry.importErrors, Entry.addErrs, Entry.withD, Entry.d]
  · rintro b a _ ⟨xs, hxs⟩
    dsimp only
    split
    · refine ⟨xs ++ [Err.at_ oe.d.node "duplicate-node"], ?_⟩
      cases b with | mk d c i o =>
      simp only [Entry.addErr, Entry.withD, Entry.d] at hxs ⊢
      rw [hxs, List.append_assoc]
    · refine ⟨xs, ?_⟩
      cases b with | mk d c i o => exact hxs

omit hq in
theorem noErrors_of_merge (e : Entry) (ns : Option String) (oe : Entry) (h : NoErrors (e.merge ns oe)) : NoErrors oe := by
  obtain ⟨xs, hxs⟩ := merge_root_errors e ns oe
  have h0 : (e.merge ns oe).d.errors = [] := by
    generalize e.merge ns oe = r at h
    cases r with | mk d c i o => exact ((noErrors_mk _ _ _ _).1 h).1
  rw [h0] at hxs
  have := hxs.symm
  simp only [List.append_eq_nil_iff] at this
  rw [noErrors_iff]
  cases oe with | mk d c i o =>
  simp only [Entry.d, Entry.dir, Entry.inp, Entry.out] at this
  simp [Entry.allErrors, this]

theorem cond_merge (e : Entry) (ns : Option String) (oe : Entry) (h : Cond q e) (ho : Cond q oe) :
    Cond q (e.merge ns oe) := by
  intro hne
  have hoe := noErrors_of_merge e ns oe hne
  have hqo := ho hoe
  revert hne
  show Cond q (e.merge ns oe)
  cases oe with | mk d2 c2 i2 o2 =>
  rw [everyNode_mk] at hqo
  rw [noErrors_mk] at hoe
  have hnd := hq.nd _ hqo.1
  simp only [ndHere, Entry.dir, Bool.and_eq_true, List.all_eq_true] at hnd
  have step : ∀ (stamp : Entry → Entry) (x : Err), (∀ v, Cond q v → Cond q (stamp v)) → (∀ v, (stamp v).name = v.name) →
      (∀ v, (stamp v).d.kind = v.d.kind) → ∀ b v, v ∈ c2 → Cond q b →
      Cond q (match b.child? (stamp v).name with
        | some _ => b.addErr x
        | none => b.withDir (b.dir ++ [stamp v])) := by
    intro stamp x h1 h2 h3 b v hv hb
    split
    · intro hne; exact absurd hne (not_noErrors_addErr _ _)
    · rename_i hk
      exact cond_append hq b _ hb (h1 v (fun _ => hqo.2.1 v hv)) hk (fun _ => by rw [h3]; exact (bne_iff_ne).mp (hnd.1.1 v hv))
  unfold Entry.merge
  simp only [Entry.dir]
  cases ns with
  | none =>
    refine foldl_inv (fun x : Entry => Cond q x) _ c2 _ (cond_importErrors hq _ _ h) ?_
    intro b v hv hb
    exact step id _ (fun v hv => hv) (fun v => rfl) (fun v => rfl) b v hv hb
  | some n =>
    refine foldl_inv (fun x : Entry => Cond q x) _ c2 _ (cond_importErrors hq _ _ h) ?_
    intro b v hv hb
    exact step (fun v => v.withD fun d => { d with ns := some n }) _
      (fun v hv => cond_withD hq _ _ (fun d => ⟨rfl, rfl, rfl, rfl, rfl, rfl⟩) (fun d => ⟨[], by simp⟩) hv)
      (fun v => by cases v; rfl) (fun v => by cases v; rfl) b v hv hb

end Closure

/-! ### small facts used by the traversal of `toEntry` -/

/-- Keywords whose entries are added as children. -/
def addKws : List String :=
  ["anydata", "anyxml", "case", "choice", "container", "leaf", "leaf-list", "list", "notification", "rpc", "action"]

theorem addKws_ok : ∀ kw ∈ addKws, kw ≠ "uses" ∧ kw ≠ "grouping" ∧ kw ≠ "module" ∧ kw ≠ "submodule" ∧
    kindOf kw ≠ .deviate := by decide

theorem mem_all_kw (n : Stmt) (kw : String) (c : Stmt) (h : c ∈ n.all kw) : c.kw = kw := by
  simp only [Stmt.all, List.mem_filter, beq_iff_eq] at h; exact h.2

theorem kindOfKw_ne_leaf (kw : String) : kindOfKw kw ≠ .leaf := by
  unfold kindOfKw; split <;> simp

theorem kindOfKw_list : kindOfKw "list" = .directory := by decide

theorem noErrors_own (e : Entry) (h : NoErrors e) : e.d.errors = [] := by
  cases e with | mk d c i o => exact ((noErrors_mk _ _ _ _).1 h).1

theorem one?_kw (n : Stmt) (kw : String) (i : Stmt) (h : n.one? kw = some i) : i.kw = kw := by
  have := List.find?_some h
  simpa using this

theorem withD_kind (e : Entry) (f : EData → EData) (hf : ∀ d, (f d).kind = d.kind) : (e.withD f).d.kind = e.d.kind := by
  cases e with | mk d c i o => exact hf d

theorem stepFn_output_inp (env : Env) (rec : Rec) (root : Mod) (n : Stmt) (sub : List Stmt) (visiting : List NodeId)
    (isMod : Bool) (acc : Entry × TState) :
    (stepFn env rec root n sub visiting isMod acc "output").1.inp = acc.1.inp := by
  obtain ⟨e, st⟩ := acc
  unfold stepFn
  simp only []
  split
  · rfl
  · cases e; rfl

theorem fieldOrder_io (kw : String) (h : "input" ∈ fieldOrder kw ∨ "output" ∈ fieldOrder kw) :
    fieldOrder kw = ["output", "input", "grouping", "description"] := by
  revert h
  unfold fieldOrder
  split <;> simp

theorem e0_kind (root : Mod) (n : Stmt) : (e0 root n).d.kind ≠ .leaf := by
  rw [(e0_data root n).2.1]; exact kindOfKw_ne_leaf _

theorem shape_child (n : Stmt) (kw : String) (c : Stmt) (v : Entry) (hkw : kw ∈ addKws) (hc : c ∈ n.all kw)
    (hs : Shape c v) (hv : NoErrors v) : v.name = c.arg ∧ v.d.kind ≠ .deviate := by
  have hk := mem_all_kw n kw c hc
  obtain ⟨h1, h2, h3, h4, h5⟩ := addKws_ok kw hkw
  rw [← hk] at h1 h2 h3 h4 h5
  obtain ⟨a, b, _⟩ := hs (noErrors_own v hv) h1 h2 h3 h4
  exact ⟨a, by rw [b]; exact h5⟩

/-- Unconditionally, the entry made from a statement that is added as a child is named after the
statement's argument, or is an error entry (whose name is empty). -/
def Shape2 (n : Stmt) (e : Entry) : Prop :=
  n.kw ≠ "uses" → n.kw ≠ "grouping" → n.kw ≠ "module" → n.kw ≠ "submodule" → e.name = n.arg ∨ e.name = ""

theorem toEntryBody_shape2 (env : Env) (fuel : Nat) (rec : Rec) (root : Mod) (scope : List Stmt) (n : Stmt)
    (visiting : List NodeId) (st : TState) : Shape2 n (toEntryBody env fuel rec root scope n visiting st).1 := by
  intro h1 h2 h3 h4
  have hm : (n.kw == "module" || n.kw == "submodule") = false := by simp [h3, h4]
  have hg : (n.kw == "grouping") = false := by simp [h2]
  have hu : (n.kw == "uses") = false := by simp [h1]
  unfold toEntryBody
  simp only [hm, hg, hu, Bool.false_eq_true, if_false, Bool.or_self, Bool.false_and]
  by_cases hl : n.kw = "leaf"
  · simp only [hl, beq_self_eq_true, if_true]
    exact Or.inl (leafEntry_data env root scope n false).1
  · by_cases hll : n.kw = "leaf-list"
    · simp only [hll, beq_self_eq_true, if_true]
      simp only [show ("leaf-list" == "leaf") = false by decide, Bool.false_eq_true, if_false]
      have := leafEntry_data env root scope n true
      generalize leafEntry env root scope n true = le at this ⊢
      cases le with | mk d c i o =>
      exact Or.inl this.1
    · have hl' : (n.kw == "leaf") = false := by simp [hl]
      have hll' : (n.kw == "leaf-list") = false := by simp [hll]
      simp only [hl', hll', Bool.false_eq_true, if_false, dirBody, hg]
      have hk := rootKeep_fold_steps env rec root n (n :: scope) visiting false (fieldOrder n.kw) (e0 root n, st)
      exact Or.inl (hk.1.trans (e0_data root n).1)

theorem toEntry_shape2 (env : Env) (fuel : Nat) (root : Mod) (scope : List Stmt) (n : Stmt)
    (visiting : List NodeId) (st : TState) : Shape2 n (toEntry env fuel root scope n visiting st).1 := by
  cases fuel with
  | zero => intro _ _ _ _; exact Or.inr rfl
  | succ fuel => rw [toEntry_succ]; exact toEntryBody_shape2 _ _ _ _ _ _ _ _

theorem shape2_child (n : Stmt) (kw : String) (c : Stmt) (v : Entry) (hkw : kw ∈ addKws) (hc : c ∈ n.all kw)
    (hs : Shape2 c v) : v.name = c.arg ∨ v.name = "" := by
  have hk := mem_all_kw n kw c hc
  obtain ⟨h1, h2, h3, h4, _⟩ := addKws_ok kw hkw
  rw [← hk] at h1 h2 h3 h4
  exact hs h1 h2 h3 h4

/-! ### more closure properties of `Cond q` -/

section ClosureMore
variable {env : Env} {q : Entry → Bool} (hq : LocalOK env q) (root : Mod) (n : Stmt)
include hq

theorem cond_setInp (d : EData) (c o : List Entry) (ie : Entry) (he : Cond q (.mk d c [] o)) (hi : Cond q ie)
    (hs : ie.d.errors = [] → ie.d.kind = .input) :
    Cond q (.mk { d with isRpc := true } c [ie.withD fun d => { d with name := "input", kind := .input }] o) := by
  cases ie with | mk d2 c2 i2 o2 =>
  intro hne
  simp only [Entry.withD] at hne ⊢
  rw [noErrors_mk] at hne
  have hne2 := hne.2.2.1 _ (List.mem_singleton.mpr rfl)
  rw [noErrors_mk] at hne2
  have hk : d2.kind = .input := hs hne2.1
  have hqe := he ((noErrors_mk _ _ _ _).2 ⟨hne.1, hne.2.1, by simp, hne.2.2.2⟩)
  have hqi := hi ((noErrors_mk _ _ _ _).2 hne2)
  rw [everyNode_mk] at hqe hqi ⊢
  refine ⟨?_, hqe.2.1, ?_, hqe.2.2.2⟩
  · exact hq.setInp _ _ _ _ (hq.neutral d _ _ _ _ ⟨rfl, rfl, rfl, rfl, rfl, rfl⟩ hqe.1) rfl
  · intro x hx
    simp only [List.mem_singleton] at hx; subst hx
    rw [everyNode_mk]
    refine ⟨?_, hqi.2⟩
    have := hq.rename _ _ _ _ "input" hqi.1
    rw [← hk]; exact this

theorem cond_setOut (d : EData) (c i : List Entry) (oe : Entry) (he : Cond q (.mk d c i [])) (ho : Cond q oe)
    (hs : oe.d.errors = [] → oe.d.kind = .output) :
    Cond q (.mk { d with isRpc := true } c i [oe.withD fun d => { d with name := "output", kind := .output }]) := by
  cases oe with | mk d2 c2 i2 o2 =>
  intro hne
  simp only [Entry.withD] at hne ⊢
  rw [noErrors_mk] at hne
  have hne2 := hne.2.2.2 _ (List.mem_singleton.mpr rfl)
  rw [noErrors_mk] at hne2
  have hk : d2.kind = .output := hs hne2.1
  have hqe := he ((noErrors_mk _ _ _ _).2 ⟨hne.1, hne.2.1, hne.2.2.1, by simp⟩)
  have hqo := ho ((noErrors_mk _ _ _ _).2 hne2)
  rw [everyNode_mk] at hqe hqo ⊢
  refine ⟨?_, hqe.2.1, hqe.2.2.1, ?_⟩
  · exact hq.setOut _ _ _ _ (hq.neutral d _ _ _ _ ⟨rfl, rfl, rfl, rfl, rfl, rfl⟩ hqe.1) rfl
  · intro x hx
    simp only [List.mem_singleton] at hx; subst hx
    rw [everyNode_mk]
    refine ⟨?_, hqo.2⟩
    have := hq.rename _ _ _ _ "output" hqo.1
    rw [← hk]; exact this

theorem cond_typeSet (e : Entry) (ty : Option TypeInfo) (he : Cond q e) (hk : e.d.kind ≠ .leaf) :
    Cond q (e.withD fun d => { d with type := ty }) := by
  cases e with | mk d c i o =>
  intro hne
  simp only [Entry.withD] at hne ⊢
  have := he (by rw [noErrors_mk] at hne ⊢; exact hne)
  rw [everyNode_mk] at this ⊢
  exact ⟨hq.typeSet _ _ _ _ _ hk this.1, this.2⟩

theorem cond_laSet (e : Entry) (f : EData → EData) (he : Cond q e) (hk : e.d.kind = .deviate)
    (hf : ∀ d, LaOnlyD d (f d)) (hfe : ∀ d, ∃ xs, (f d).errors = d.errors ++ xs) : Cond q (e.withD f) := by
  cases e with | mk d c i o =>
  intro hne
  simp only [Entry.withD] at hne ⊢
  rw [noErrors_mk] at hne
  obtain ⟨xs, hxs⟩ := hfe d
  have hd : d.errors = [] := by
    have := hne.1; rw [hxs] at this; exact (List.append_eq_nil_iff.mp this).1
  have := he ((noErrors_mk _ _ _ _).2 ⟨hd, hne.2⟩)
  rw [everyNode_mk] at this ⊢
  exact ⟨hq.laSet _ _ _ _ _ hk (hf d) this.1, this.2⟩

theorem cond_e0 : Cond q (e0 root n) := by
  intro hne
  have h0 := e0_data root n
  unfold e0 at hne h0 ⊢
  rw [everyNode_mk]
  simp only [Entry.d] at h0
  refine ⟨hq.base _ h0.2.2.1 (by rw [h0.2.1]; exact kindOfKw_ne_leaf _) ?_ h0.2.2.2.2.2, by simp, by simp, by simp⟩
  intro hl
  rw [h0.2.1, h0.2.2.2.2.1 hl]; exact kindOfKw_list

omit hq in
theorem cond_errorEntry (root : Mod) (n : Stmt) (cls : String) : Cond q (errorEntry root n cls) := by
  intro hne
  exact absurd (noErrors_own _ hne) (errorEntry_errors _ _ _)

theorem cond_leafEntry (scope : List Stmt) (syn : Bool) : Cond q (leafEntry env root scope n syn) := by
  intro hne
  have hd := leafEntry_data env root scope n syn
  have hl := hq.leaf root scope n syn (noErrors_own _ hne)
  generalize leafEntry env root scope n syn = le at hd hl ⊢
  cases le with | mk d c i o =>
  simp only [Entry.dir, Entry.inp, Entry.out] at hd
  obtain ⟨_, _, _, _, _, rfl, rfl, rfl⟩ := hd
  rw [everyNode_mk]; exact ⟨hl, by simp, by simp, by simp⟩

theorem cond_leafList (scope : List Stmt) (la : ListAttr) (xs : List Err) (dl : List String) :
    Cond q ((leafEntry env root scope n true).withD fun d =>
      { d with listAttr := some la, errors := d.errors ++ xs, default := dl }) := by
  intro hne
  have hd := leafEntry_data env root scope n true
  have hc := cond_leafEntry hq root n scope true
  generalize leafEntry env root scope n true = le at hd hc hne ⊢
  cases le with | mk d c i o =>
  simp only [Entry.dir, Entry.inp, Entry.out, Entry.d] at hd
  obtain ⟨_, hk, hdir, _, _, rfl, rfl, rfl⟩ := hd
  simp only [Entry.withD] at hne ⊢
  rw [noErrors_mk] at hne
  have hde : d.errors = [] := (List.append_eq_nil_iff.mp hne.1).1
  have := hc ((noErrors_mk _ _ _ _).2 ⟨hde, by simp, by simp, by simp⟩)
  rw [everyNode_mk] at this ⊢
  exact ⟨hq.leafList d la xs dl hk hdir this.1, by simp, by simp, by simp⟩

end ClosureMore

/-! ### what the traversal of `toEntry` needs of an entry invariant -/

/-- An entry invariant that every operation of `toEntry` preserves. -/
structure Closed (env : Env) (PE : Entry → Prop) : Prop where
  withD : ∀ (e : Entry) (f : EData → EData), (∀ d, NeutralD d (f d)) → (∀ d, ∃ xs, (f d).errors = d.errors ++ xs) →
    PE e → PE (e.withD f)
  addErrs : ∀ (e : Entry) (xs : List Err), PE e → PE (e.addErrs xs)
  addErr : ∀ (e : Entry) (x : Err), PE e → PE (e.addErr x)
  importErrors : ∀ (e c : Entry), PE e → PE (e.importErrors c)
  add : ∀ (e : Entry) (k : String) (v : Entry), PE e → PE v → (NoErrors v → v.name = k ∧ v.d.kind ≠ .deviate) →
    (v.name = k ∨ v.name = "") → PE (e.add k v)
  merge : ∀ (e : Entry) (ns : Option String) (oe : Entry), PE e → PE oe → PE (e.merge ns oe)
  setInp : ∀ (d : EData) (c o : List Entry) (ie : Entry), PE (.mk d c [] o) → PE ie →
    (ie.d.errors = [] → ie.d.kind = .input) →
    PE (.mk { d with isRpc := true } c [ie.withD fun d => { d with name := "input", kind := .input }] o)
  setOut : ∀ (d : EData) (c i : List Entry) (oe : Entry), PE (.mk d c i []) → PE oe →
    (oe.d.errors = [] → oe.d.kind = .output) →
    PE (.mk { d with isRpc := true } c i [oe.withD fun d => { d with name := "output", kind := .output }])
  typeSet : ∀ (e : Entry) (ty : Option TypeInfo), PE e → e.d.kind ≠ .leaf → PE (e.withD fun d => { d with type := ty })
  laSet : ∀ (e : Entry) (f : EData → EData), PE e → e.d.kind = .deviate → (∀ d, LaOnlyD d (f d)) →
    (∀ d, ∃ xs, (f d).errors = d.errors ++ xs) → PE (e.withD f)
  base0 : ∀ (root : Mod) (n : Stmt), PE (e0 root n)
  errE : ∀ (root : Mod) (n : Stmt) (cls : String), PE (errorEntry root n cls)
  leafE : ∀ (root : Mod) (n : Stmt) (scope : List Stmt) (syn : Bool), PE (leafEntry env root scope n syn)
  leafL : ∀ (root : Mod) (n : Stmt) (scope : List Stmt) (la : ListAttr) (xs : List Err) (dl : List String),
    PE ((leafEntry env root scope n true).withD fun d =>
      { d with listAttr := some la, errors := d.errors ++ xs, default := dl })

theorem closed_cond {env : Env} {q : Entry → Bool} (hq : LocalOK env q) : Closed env (Cond q) where
  withD e f h1 h2 h := cond_withD hq e f h1 h2 h
  addErrs e xs h := cond_addErrs hq e xs h
  addErr e x h := cond_addErr hq e x h
  importErrors e c h := cond_importErrors hq e c h
  add e k v h hv hs _ := cond_add hq e k v h hv hs
  merge e ns oe h ho := cond_merge hq e ns oe h ho
  setInp d c o ie h hi hs := cond_setInp hq d c o ie h hi hs
  setOut d c i oe h ho hs := cond_setOut hq d c i oe h ho hs
  typeSet e ty h hk := cond_typeSet hq e ty h hk
  laSet e f h hk hf hfe := cond_laSet hq e f h hk hf hfe
  base0 root n := cond_e0 hq root n
  errE root n cls := cond_errorEntry root n cls
  leafE root n scope syn := cond_leafEntry hq root n scope syn
  leafL root n scope la xs dl := cond_leafList hq root n scope la xs dl

/-! ### the conversion state -/

/-- Everything held in the conversion state satisfies the entry invariant `PE`, and every (sub)module that has
recorded its augments has its entry in the cache or is one of the (sub)modules `S` whose
conversion is in progress. -/
structure StOK (PE : Entry → Prop) (S : List Nat) (st : TState) : Prop where
  cache : ∀ p ∈ st.cache, PE p.2
  gcache : ∀ p ∈ st.gcache, PE p.2
  augs : ∀ p ∈ st.augs, ∀ a ∈ p.2, PE a
  keys : ∀ p ∈ st.augs, p.1 ∈ st.cache.map (·.1) ∨ p.1 ∈ S
  ckind : ∀ p ∈ st.cache, p.2.d.kind = .directory

/-- What the induction hypothesis gives for the recursive calls. -/
def RecOK (PE : Entry → Prop) (rec : Rec) : Prop :=
  ∀ root scope n visiting st S, StOK PE S st →
    PE (rec root scope n visiting st).1 ∧ StOK PE S (rec root scope n visiting st).2 ∧
      Shape n (rec root scope n visiting st).1 ∧ Shape2 n (rec root scope n visiting st).1

section Step
variable {env : Env} {PE : Entry → Prop} (hC : Closed env PE) {rec : Rec} (hrec : RecOK PE rec)
  (root : Mod) (n : Stmt) (sub : List Stmt) (visiting : List NodeId) (S : List Nat)
include hC hrec

/-- The invariant of the accumulator of `toEntry`'s folds. -/
def AccOK (PE : Entry → Prop) (S : List Nat) (acc : Entry × TState) : Prop := PE acc.1 ∧ StOK PE S acc.2

theorem addFold_ok (kw : String) (hkw : kw ∈ addKws) (acc : Entry × TState) (h : AccOK PE S acc) :
    AccOK PE S ((n.all kw).foldl (fun (acc : Entry × TState) c =>
      (acc.1.add c.arg (rec root sub c visiting acc.2).1, (rec root sub c visiting acc.2).2)) acc) := by
  refine foldl_inv (AccOK PE S) _ _ _ h ?_
  rintro ⟨e, st⟩ c hC' ⟨he, hst⟩
  obtain ⟨r1, r2, r3, r4⟩ := hrec root sub c visiting st S hst
  exact ⟨hC.add _ _ _ he r1 (shape_child n kw c _ hkw hC' r3) (shape2_child n kw c _ hkw hC' r4), r2⟩

theorem rpcFold_ok (kw : String) (hkw : kw ∈ addKws) (acc : Entry × TState) (h : AccOK PE S acc) :
    AccOK PE S ((n.all kw).foldl (fun (acc : Entry × TState) c =>
      (acc.1.add c.arg ((rec root sub c visiting acc.2).1.withD fun d => { d with isRpc := true }),
        (rec root sub c visiting acc.2).2)) acc) := by
  refine foldl_inv (AccOK PE S) _ _ _ h ?_
  rintro ⟨e, st⟩ c hC' ⟨he, hst⟩
  obtain ⟨r1, r2, r3, r4⟩ := hrec root sub c visiting st S hst
  refine ⟨hC.add e c.arg ((rec root sub c visiting st).1.withD fun d => { d with isRpc := true }) he
    (hC.withD _ _ (fun d => ⟨rfl, rfl, rfl, rfl, rfl, rfl⟩) (fun d => ⟨[], by simp⟩) r1) ?_ ?_, r2⟩
  · intro hv
    generalize rec root sub c visiting st = r at r3 hv ⊢
    obtain ⟨v, st'⟩ := r
    cases v with | mk d c' i o =>
    have : NoErrors (Entry.mk d c' i o) := by
      simp only [Entry.withD] at hv
      rw [noErrors_mk] at hv ⊢; exact hv
    exact shape_child n kw c _ hkw hC' r3 this
  · have := shape2_child n kw c _ hkw hC' r4
    generalize rec root sub c visiting st = r at this ⊢
    obtain ⟨v, st'⟩ := r
    cases v with | mk d c' i o => exact this

theorem importFold_ok (l : List Stmt) (acc : Entry × TState) (h : AccOK PE S acc) :
    AccOK PE S (l.foldl (fun (acc : Entry × TState) g =>
      (acc.1.importErrors (rec root sub g visiting acc.2).1, (rec root sub g visiting acc.2).2)) acc) := by
  refine foldl_inv (AccOK PE S) _ _ _ h ?_
  rintro ⟨e, st⟩ c hC' ⟨he, hst⟩
  obtain ⟨r1, r2, r3, r4⟩ := hrec root sub c visiting st S hst
  exact ⟨hC.importErrors _ _ he, r2⟩

theorem deviateFold_ok (l : List Stmt) (acc : Entry × TState) (h : AccOK PE S acc) :
    AccOK PE S (l.foldl (fun (acc : Entry × TState) dv =>
      (if deviateKinds.contains dv.arg = true then acc.1.importErrors (rec root sub dv visiting acc.2).1
        else (acc.1.importErrors (rec root sub dv visiting acc.2).1).addErr (Err.at_ n "deviate-unknown-kind"),
       (rec root sub dv visiting acc.2).2)) acc) := by
  refine foldl_inv (AccOK PE S) _ _ _ h ?_
  rintro ⟨e, st⟩ c hC' ⟨he, hst⟩
  obtain ⟨r1, r2, r3, r4⟩ := hrec root sub c visiting st S hst
  refine ⟨?_, r2⟩
  dsimp only
  split
  · exact hC.importErrors _ _ he
  · exact hC.addErr _ _ (hC.importErrors _ _ he)

theorem usesFold_ok (l : List Stmt) (acc : Entry × TState) (h : AccOK PE S acc) :
    AccOK PE S (l.foldl (fun (acc : Entry × TState) u =>
      (acc.1.merge none (rec root sub u visiting acc.2).1, (rec root sub u visiting acc.2).2)) acc) := by
  refine foldl_inv (AccOK PE S) _ _ _ h ?_
  rintro ⟨e, st⟩ c hC' ⟨he, hst⟩
  obtain ⟨r1, r2, r3, r4⟩ := hrec root sub c visiting st S hst
  exact ⟨hC.merge _ none _ he r1, r2⟩

omit hC hrec in
theorem stOK_merged (st : TState) (m : List String) (h : StOK PE S st) : StOK PE S { st with merged := m } :=
  ⟨h.cache, h.gcache, h.augs, h.keys, h.ckind⟩


theorem includeFold_ok (l : List Stmt) (acc : Entry × TState) (h : AccOK PE S acc) :
    AccOK PE S (l.foldl (fun (acc : Entry × TState) a =>
      match env.includeTarget root a with
      | none => (acc.1.addErr (Err.at_ a "other"), acc.2)
      | some im =>
        if acc.2.merged.contains (im.name ++ ":" ++ n.arg) = true then (acc.1, acc.2)
        else if (!acc.2.merged.contains (n.arg ++ ":" ++ im.name) && im.name != n.arg) = true then
          if acc.2.merged.contains (im.name ++ ":" ++ (im.belongsTo?.getD "")) = true then (acc.1, acc.2)
          else
            (acc.1.merge none (rec im [] im.stmt visiting
                { acc.2 with merged := acc.2.merged ++ [im.name ++ ":" ++ n.arg, im.name ++ ":" ++ (im.belongsTo?.getD "")] }).1,
             (rec im [] im.stmt visiting
                { acc.2 with merged := acc.2.merged ++ [im.name ++ ":" ++ n.arg, im.name ++ ":" ++ (im.belongsTo?.getD "")] }).2)
        else if env.opts.ignoreCircular = true then (acc.1, acc.2)
        else (acc.1.addErr (Err.bare "cycle"), acc.2)) acc) := by
  refine foldl_inv (AccOK PE S) _ _ _ h ?_
  rintro ⟨e, st⟩ a ha ⟨he, hst⟩
  dsimp only
  repeat' split
  all_goals first
    | exact ⟨he, hst⟩
    | exact ⟨hC.addErr _ _ he, hst⟩
    | (rename_i im _ _ _ _
       obtain ⟨r1, r2, r3, r4⟩ := hrec im [] im.stmt visiting _ S (stOK_merged S st _ hst)
       exact ⟨hC.merge _ none _ he r1, r2⟩)

omit hC in
theorem augFold_ok (l : List Stmt) (st : TState) (h : StOK PE S st) :
    (∀ a ∈ (l.foldl (fun (acc : List Entry × TState) a =>
      (acc.1 ++ [(rec root sub a visiting acc.2).1], (rec root sub a visiting acc.2).2)) ([], st)).1, PE a) ∧
    StOK PE S (l.foldl (fun (acc : List Entry × TState) a =>
      (acc.1 ++ [(rec root sub a visiting acc.2).1], (rec root sub a visiting acc.2).2)) ([], st)).2 := by
  refine foldl_inv (fun acc : List Entry × TState => (∀ a ∈ acc.1, PE a) ∧ StOK PE S acc.2) _ _ _ ⟨by simp, h⟩ ?_
  rintro ⟨as, st⟩ a ha ⟨has, hst⟩
  obtain ⟨r1, r2, r3, r4⟩ := hrec root sub a visiting st S hst
  refine ⟨?_, r2⟩
  intro x hx
  rcases List.mem_append.mp hx with hx | hx
  · exact has x hx
  · simp only [List.mem_singleton] at hx; subst hx; exact r1



theorem stepFn_ok (isMod : Bool) (hS : isMod = true → root.seq ∈ S) (acc : Entry × TState) (f : String)
    (h : AccOK PE S acc) (hkind : acc.1.d.kind ≠ .leaf)
    (hin : f = "input" → acc.1.inp = []) (hout : f = "output" → acc.1.out = []) :
    AccOK PE S (stepFn env rec root n sub visiting isMod acc f) := by
  obtain ⟨e, st⟩ := acc
  obtain ⟨he, hst⟩ := h
  dsimp only at he hst hkind hin hout
  have hneu : ∀ (x : Entry) (g : EData → EData), (∀ d, NeutralD d (g d)) → (∀ d, (g d).errors = d.errors) → PE x →
      PE (x.withD g) := fun x g h1 h2 hx => hC.withD x g h1 (fun d => ⟨[], by simp [h2 d]⟩) hx
  unfold stepFn
  dsimp only
  split
  all_goals try dsimp only
  all_goals first
    | exact ⟨he, hst⟩
    | exact ⟨hC.addErrs _ _ (hneu _ _ (fun d => ⟨rfl, rfl, rfl, rfl, rfl, rfl⟩) (fun d => rfl) he), hst⟩
    | (refine ⟨?_, hst⟩; split
       · exact hneu _ _ (fun d => ⟨rfl, rfl, rfl, rfl, rfl, rfl⟩) (fun d => rfl) he
       · exact he)
    | exact addFold_ok hC hrec root n sub visiting S _ (by decide) (e, st) ⟨he, hst⟩
    | exact rpcFold_ok hC hrec root n sub visiting S _ (by decide) (e, st) ⟨he, hst⟩
    | exact importFold_ok hC hrec root sub visiting S _ (e, st) ⟨he, hst⟩
    | exact usesFold_ok hC hrec root sub visiting S _ (e, st) ⟨he, hst⟩
    | exact includeFold_ok hC hrec root n visiting S _ (e, st) ⟨he, hst⟩
    | exact deviateFold_ok hC hrec root n sub visiting S _ (e, st) ⟨he, hst⟩
    | skip
  case h_18 =>
    split
    · exact ⟨he, hst⟩
    · rename_i i hi
      obtain ⟨r1, r2, r3, r4⟩ := hrec root sub i visiting st S hst
      cases e with | mk d c i' o' =>
      have hi0 : i' = [] := hin rfl
      subst hi0
      refine ⟨hC.setInp d c o' _ he r1 ?_, r2⟩
      intro herr
      have hkw : i.kw = "input" := one?_kw n _ i hi
      exact (r3 herr (by rw [hkw]; decide) (by rw [hkw]; decide) (by rw [hkw]; decide)
        (by rw [hkw]; decide)).2.1.trans (by rw [hkw]; rfl)
  case h_19 =>
    split
    · exact ⟨he, hst⟩
    · rename_i o ho
      obtain ⟨r1, r2, r3, r4⟩ := hrec root sub o visiting st S hst
      cases e with | mk d c i' o' =>
      have ho0 : o' = [] := hout rfl
      subst ho0
      refine ⟨hC.setOut d c i' _ he r1 ?_, r2⟩
      intro herr
      have hkw : o.kw = "output" := one?_kw n _ o ho
      exact (r3 herr (by rw [hkw]; decide) (by rw [hkw]; decide) (by rw [hkw]; decide)
        (by rw [hkw]; decide)).2.1.trans (by rw [hkw]; rfl)
  case h_23 =>
    split
    · exact ⟨he, hst⟩
    · split
      · exact ⟨hC.typeSet e _ he hkind, hst⟩
      · exact ⟨hC.addErr _ _ he, hst⟩
  case h_24 =>
    split
    · refine ⟨?_, hst⟩
      split
      · exact hneu _ _ (fun d => ⟨rfl, rfl, rfl, rfl, rfl, rfl⟩) (fun d => rfl) he
      · exact he
    · exact ⟨he, hst⟩
  case h_26 =>
    split
    · exact ⟨he, hst⟩
    · rename_i hk
      have hk' : e.d.kind = .deviate := by simpa using hk
      refine ⟨?_, hst⟩
      have h1 := hC.laSet e (fun d => { d with listAttr := some (d.listAttr.getD {}) }) he hk'
        (fun d => ⟨rfl, rfl, rfl, rfl, rfl⟩) (fun d => ⟨[], by simp⟩)
      split
      · exact h1
      · exact hC.addErrs _ _ (hC.laSet _ _ h1 (by cases e; exact hk')
          (fun d => ⟨rfl, rfl, rfl, rfl, rfl⟩) (fun d => ⟨[], by simp⟩))
  case h_27 =>
    split
    · exact ⟨he, hst⟩
    · rename_i hk
      have hk' : e.d.kind = .deviate := by simpa using hk
      refine ⟨?_, hst⟩
      have h1 := hC.laSet e (fun d => { d with listAttr := some (d.listAttr.getD {}) }) he hk'
        (fun d => ⟨rfl, rfl, rfl, rfl, rfl⟩) (fun d => ⟨[], by simp⟩)
      split
      · exact h1
      · exact hC.addErrs _ _ (hC.laSet _ _ h1 (by cases e; exact hk')
          (fun d => ⟨rfl, rfl, rfl, rfl, rfl⟩) (fun d => ⟨[], by simp⟩))
  case h_28 =>
    split
    · exact ⟨he, hst⟩
    · rename_i hm
      have hm' : isMod = true := by simpa using hm
      obtain ⟨a1, a2⟩ := augFold_ok hrec root sub visiting S (n.all "augment") st hst
      refine ⟨he, ⟨a2.cache, a2.gcache, ?_, ?_, a2.ckind⟩⟩
      · intro p hp
        rcases List.mem_append.mp hp with hp | hp
        · exact a2.augs p hp
        · simp only [List.mem_singleton] at hp; subst hp; exact a1
      · intro p hp
        rcases List.mem_append.mp hp with hp | hp
        · exact a2.keys p hp
        · simp only [List.mem_singleton] at hp; subst hp; exact Or.inr (hS hm')

end Step


section Body
variable {env : Env} {PE : Entry → Prop} (hC : Closed env PE) {rec : Rec} (hrec : RecOK PE rec)
  (root : Mod) (n : Stmt) (sub : List Stmt) (visiting : List NodeId) (S : List Nat)
include hC

include hrec in
theorem steps_ok (isMod : Bool) (hS : isMod = true → root.seq ∈ S) (st : TState) (hst : StOK PE S st) :
    AccOK PE S ((fieldOrder n.kw).foldl (stepFn env rec root n sub visiting isMod) (e0 root n, st)) := by
  by_cases hio : "input" ∈ fieldOrder n.kw ∨ "output" ∈ fieldOrder n.kw
  · rw [fieldOrder_io _ hio]
    simp only [List.foldl]
    have k0 : (e0 root n).d.kind ≠ .leaf := e0_kind root n
    have s1 := stepFn_ok hC hrec root n sub visiting S isMod hS (e0 root n, st) "output" ⟨hC.base0 root n, hst⟩ k0
      (fun h => absurd h (by decide)) (fun _ => rfl)
    have k1 := rootKeep_stepFn env rec root n sub visiting isMod (e0 root n, st) "output"
    have i1 := stepFn_output_inp env rec root n sub visiting isMod (e0 root n, st)
    generalize stepFn env rec root n sub visiting isMod (e0 root n, st) "output" = a1 at s1 k1 i1 ⊢
    have k1' : a1.1.d.kind ≠ .leaf := by rw [k1.2.1]; exact k0
    have s2 := stepFn_ok hC hrec root n sub visiting S isMod hS a1 "input" s1 k1'
      (fun _ => i1) (fun h => absurd h (by decide))
    have k2 := rootKeep_stepFn env rec root n sub visiting isMod a1 "input"
    generalize stepFn env rec root n sub visiting isMod a1 "input" = a2 at s2 k2 ⊢
    have k2' : a2.1.d.kind ≠ .leaf := by rw [k2.2.1]; exact k1'
    have s3 := stepFn_ok hC hrec root n sub visiting S isMod hS a2 "grouping" s2 k2'
      (fun h => absurd h (by decide)) (fun h => absurd h (by decide))
    have k3 := rootKeep_stepFn env rec root n sub visiting isMod a2 "grouping"
    generalize stepFn env rec root n sub visiting isMod a2 "grouping" = a3 at s3 k3 ⊢
    have k3' : a3.1.d.kind ≠ .leaf := by rw [k3.2.1]; exact k2'
    exact stepFn_ok hC hrec root n sub visiting S isMod hS a3 "description" s3 k3'
      (fun h => absurd h (by decide)) (fun h => absurd h (by decide))
  · have hni : "input" ∉ fieldOrder n.kw := fun h => hio (Or.inl h)
    have hno : "output" ∉ fieldOrder n.kw := fun h => hio (Or.inr h)
    refine (foldl_inv (fun acc : Entry × TState => AccOK PE S acc ∧ acc.1.d.kind ≠ .leaf) _ _ _
      ⟨⟨hC.base0 root n, hst⟩, e0_kind root n⟩ ?_).1
    rintro acc f hf ⟨ha, hk⟩
    refine ⟨stepFn_ok hC hrec root n sub visiting S isMod hS acc f ha hk
      (fun h => absurd (h ▸ hf) hni) (fun h => absurd (h ▸ hf) hno), ?_⟩
    rw [(rootKeep_stepFn env rec root n sub visiting isMod acc f).2.1]; exact hk


omit hC in
theorem stOK_weaken (x : Nat) (st : TState) (h : StOK PE S st) : StOK PE (x :: S) st :=
  ⟨h.cache, h.gcache, h.augs, fun p hp => (h.keys p hp).imp id (fun h => List.mem_cons_of_mem _ h), h.ckind⟩

include hrec in
theorem dirBody_ok (scope : List Stmt) (st : TState) (hst : StOK PE S st) (isMod : Bool)
    (hmk : isMod = true → kindOfKw n.kw = .directory) :
    PE (dirBody env rec root scope n visiting st isMod).1 ∧
      StOK PE S (dirBody env rec root scope n visiting st isMod).2 := by
  unfold dirBody
  dsimp only
  cases isMod with
  | true =>
    simp only [if_true]
    have := steps_ok hC hrec root n (n :: scope) visiting (root.seq :: S) true (fun _ => List.mem_cons_self)
      st (stOK_weaken S _ st hst)
    have hkind := (rootKeep_fold_steps env rec root n (n :: scope) visiting true (fieldOrder n.kw) (e0 root n, st)).2.1
    refine ⟨this.1, ⟨?_, this.2.gcache, this.2.augs, ?_, ?_⟩⟩
    rotate_left 2
    · intro p hp
      rcases List.mem_append.mp hp with hp | hp
      · exact this.2.ckind p hp
      · simp only [List.mem_singleton] at hp; subst hp
        exact hkind.trans ((e0_data root n).2.1.trans (hmk rfl))
    · intro p hp
      rcases List.mem_append.mp hp with hp | hp
      · exact this.2.cache p hp
      · simp only [List.mem_singleton] at hp; subst hp; exact this.1
    · intro p hp
      simp only [List.map_append, List.map_cons, List.map_nil, List.mem_append, List.mem_singleton]
      rcases this.2.keys p hp with h | h
      · exact Or.inl (Or.inl h)
      · rcases List.mem_cons.mp h with h | h
        · exact Or.inl (Or.inr h)
        · exact Or.inr h
  | false =>
    simp only [Bool.false_eq_true, if_false]
    have := steps_ok hC hrec root n (n :: scope) visiting S false (fun h => absurd h (by simp)) st hst
    split
    · exact ⟨this.1, ⟨this.2.cache, fun p hp => by
        rcases List.mem_append.mp hp with hp | hp
        · exact this.2.gcache p hp
        · simp only [List.mem_singleton] at hp; subst hp; exact this.1, this.2.augs, this.2.keys, this.2.ckind⟩⟩
    · exact this

include hrec in
/-- One level of `toEntry` keeps the invariant, given that the recursive calls do. -/
theorem toEntryBody_ok (fuel : Nat) (scope : List Stmt) (st : TState) (hst : StOK PE S st) :
    PE (toEntryBody env fuel rec root scope n visiting st).1 ∧
      StOK PE S (toEntryBody env fuel rec root scope n visiting st).2 := by
  unfold toEntryBody
  dsimp only
  split
  · rename_i k e hfind
    refine ⟨?_, hst⟩
    split at hfind
    · exact hst.cache _ (List.mem_of_find?_eq_some hfind)
    · exact absurd hfind (by simp)
  · split
    · rename_i k e hfind
      refine ⟨?_, hst⟩
      split at hfind
      · exact hst.gcache _ (List.mem_of_find?_eq_some hfind)
      · exact absurd hfind (by simp)
    · split
      · exact ⟨hC.errE _ _ _, hst⟩
      · split
        · exact ⟨hC.leafE root n scope false, hst⟩
        · split
          · exact ⟨hC.leafL root n scope _ _ _, hst⟩
          · split
            · split
              · exact ⟨hC.errE _ _ _, hst⟩
              · obtain ⟨r1, r2, _, _⟩ := hrec _ _ _ _ st S hst
                exact ⟨r1, r2⟩
            · refine dirBody_ok hC hrec root n _ S scope st hst _ ?_
              intro hm
              simp only [Bool.or_eq_true, beq_iff_eq] at hm
              rcases hm with hm | hm <;> rw [hm] <;> decide

end Body

/-- The invariant of `toEntry`: from a good state it produces a good entry and a good state. -/
theorem toEntry_ok {env : Env} {PE : Entry → Prop} (hC : Closed env PE) (fuel : Nat) : RecOK PE (toEntry env fuel) := by
  induction fuel with
  | zero =>
    intro root scope n visiting st S hst
    exact ⟨hC.errE _ _ _, hst, toEntry_shape env 0 root scope n visiting st, toEntry_shape2 env 0 root scope n visiting st⟩
  | succ fuel ih =>
    intro root scope n visiting st S hst
    have := toEntryBody_ok hC ih root n visiting S fuel scope st hst
    rw [toEntry_succ]
    exact ⟨this.1, this.2, toEntryBody_shape _ _ _ _ _ _ _ _, toEntryBody_shape2 _ _ _ _ _ _ _ _⟩

/-! ### the local predicates of the specification have the closure properties -/

theorem LocalBase.and {env : Env} {q1 q2 : Entry → Bool} (h1 : LocalBase env q1) (h2 : LocalBase env q2) :
    LocalBase env (fun e => q1 e && q2 e) where
  hdr d c i o c' i' o' hc hi ho := by
    show (q1 _ && q2 _) = (q1 _ && q2 _)
    rw [h1.hdr d c i o c' i' o' hc hi ho, h2.hdr d c i o c' i' o' hc hi ho]
  leaf root scope n syn he := by
    simp only [Bool.and_eq_true]; exact ⟨h1.leaf _ _ _ _ he, h2.leaf _ _ _ _ he⟩
  leafList d la xs dl hk hd h := by
    simp only [Bool.and_eq_true] at h ⊢; exact ⟨h1.leafList _ _ _ _ hk hd h.1, h2.leafList _ _ _ _ hk hd h.2⟩
  base d a b c e := by
    simp only [Bool.and_eq_true]; exact ⟨h1.base d a b c e, h2.base d a b c e⟩
  neutral d d' c i o hn h := by
    simp only [Bool.and_eq_true] at h ⊢; exact ⟨h1.neutral _ _ _ _ _ hn h.1, h2.neutral _ _ _ _ _ hn h.2⟩
  rename d c i o nm h := by
    simp only [Bool.and_eq_true] at h ⊢; exact ⟨h1.rename _ _ _ _ _ h.1, h2.rename _ _ _ _ _ h.2⟩
  typeSet d c i o ty hk h := by
    simp only [Bool.and_eq_true] at h ⊢; exact ⟨h1.typeSet _ _ _ _ _ hk h.1, h2.typeSet _ _ _ _ _ hk h.2⟩
  laSet d d' c i o hk hl h := by
    simp only [Bool.and_eq_true] at h ⊢; exact ⟨h1.laSet _ _ _ _ _ hk hl h.1, h2.laSet _ _ _ _ _ hk hl h.2⟩
  append d c i o v h hx hk := by
    simp only [Bool.and_eq_true] at h ⊢; exact ⟨h1.append _ _ _ _ _ h.1 hx hk, h2.append _ _ _ _ _ h.2 hx hk⟩
  setInp d c o v h hk := by
    simp only [Bool.and_eq_true] at h ⊢; exact ⟨h1.setInp _ _ _ _ h.1 hk, h2.setInp _ _ _ _ h.2 hk⟩
  setOut d c i v h hk := by
    simp only [Bool.and_eq_true] at h ⊢; exact ⟨h1.setOut _ _ _ _ h.1 hk, h2.setOut _ _ _ _ h.2 hk⟩

theorem all_kind_hdr (p : Kind → Bool) (c c' : List Entry) (h : c.map hdr = c'.map hdr) :
    c.all (fun x => p x.d.kind) = c'.all (fun x => p x.d.kind) := by
  have : ∀ l : List Entry, l.all (fun x => p x.d.kind) = (l.map hdr).all (fun h => p h.2) := by
    intro l; induction l with
    | nil => rfl
    | cons a l ih => simp [List.all_cons, ih, hdr]
  rw [this c, this c', h]

theorem names_hdr (c c' : List Entry) (h : c.map hdr = c'.map hdr) : c.map (·.name) = c'.map (·.name) := by
  have : ∀ l : List Entry, l.map (·.name) = (l.map hdr).map (·.1) := by
    intro l; simp [hdr, Entry.name]
  rw [this c, this c', h]

theorem length_hdr (c c' : List Entry) (h : c.map hdr = c'.map hdr) : c.length = c'.length := by
  have := congrArg List.length h; simpa using this

theorem ndHere_iff (d : EData) (c i o : List Entry) : ndHere (.mk d c i o) = true ↔
    (∀ x ∈ c, x.d.kind ≠ .deviate) ∧ (∀ x ∈ i, x.d.kind ≠ .deviate) ∧ (∀ x ∈ o, x.d.kind ≠ .deviate) := by
  simp [ndHere, Entry.dir, Entry.inp, Entry.out, and_assoc]

theorem keysUniqueHere_iff (d : EData) (c i o : List Entry) : keysUniqueHere (.mk d c i o) = true ↔
    (c.map (·.name)).Nodup ∧ i.length ≤ 1 ∧ o.length ≤ 1 := by
  simp only [keysUniqueHere, Entry.dir, Entry.inp, Entry.out, Bool.and_eq_true, and_assoc]
  constructor
  · rintro ⟨h1, h2, h3⟩; exact ⟨of_decide_eq_true h1, of_decide_eq_true h2, of_decide_eq_true h3⟩
  · rintro ⟨h1, h2, h3⟩; exact ⟨decide_eq_true h1, decide_eq_true h2, decide_eq_true h3⟩

theorem localBase_ndHere (env : Env) : LocalBase env ndHere where
  hdr d c i o c' i' o' hc hi ho := by
    simp only [ndHere, Entry.dir, Entry.inp, Entry.out]
    rw [all_kind_hdr (· != .deviate) c c' hc, all_kind_hdr (· != .deviate) i i' hi,
      all_kind_hdr (· != .deviate) o o' ho]
  leaf root scope n syn he := by
    have := leafEntry_data env root scope n syn
    simp [ndHere, this.2.2.2.2.2.1, this.2.2.2.2.2.2.1, this.2.2.2.2.2.2.2]
  leafList d la xs dl hk hd h := by simp [ndHere, Entry.dir, Entry.inp, Entry.out]
  base d a b c e := by simp [ndHere, Entry.dir, Entry.inp, Entry.out]
  neutral d d' c i o hn h := h
  rename d c i o nm h := h
  typeSet d c i o ty hk h := h
  laSet d d' c i o hk hl h := h
  append d c i o v h hx hk := by
    rw [ndHere_iff] at h ⊢
    refine ⟨?_, h.2⟩
    intro x hx'
    rcases List.mem_append.mp hx' with hx' | hx'
    · exact h.1 x hx'
    · simp only [List.mem_singleton] at hx'; subst hx'; exact hk
  setInp d c o v h hk := by
    rw [ndHere_iff] at h ⊢
    refine ⟨h.1, ?_, h.2.2⟩
    intro x hx; simp only [List.mem_singleton] at hx; subst hx; rw [hk]; decide
  setOut d c i v h hk := by
    rw [ndHere_iff] at h ⊢
    refine ⟨h.1, h.2.1, ?_⟩
    intro x hx; simp only [List.mem_singleton] at hx; subst hx; rw [hk]; decide

theorem localBase_keysUniqueHere (env : Env) : LocalBase env keysUniqueHere where
  hdr d c i o c' i' o' hc hi ho := by
    rw [Bool.eq_iff_iff, keysUniqueHere_iff, keysUniqueHere_iff, names_hdr c c' hc, length_hdr i i' hi,
      length_hdr o o' ho]
  leaf root scope n syn he := by
    have := leafEntry_data env root scope n syn
    simp [keysUniqueHere, this.2.2.2.2.2.1, this.2.2.2.2.2.2.1, this.2.2.2.2.2.2.2]
  leafList d la xs dl hk hd h := by simp [keysUniqueHere, Entry.dir, Entry.inp, Entry.out]
  base d a b c e := by simp [keysUniqueHere, Entry.dir, Entry.inp, Entry.out]
  neutral d d' c i o hn h := h
  rename d c i o nm h := h
  typeSet d c i o ty hk h := h
  laSet d d' c i o hk hl h := h
  append d c i o v h hx hk := by
    rw [keysUniqueHere_iff] at h ⊢
    refine ⟨?_, h.2⟩
    simp only [List.map_append, List.map_cons, List.map_nil]
    rw [List.nodup_append]
    refine ⟨h.1, by simp, ?_⟩
    intro a ha b hb
    simp only [List.mem_singleton] at hb; subst hb
    simp only [List.mem_map] at ha
    obtain ⟨x, hx', rfl⟩ := ha
    exact hx x hx'
  setInp d c o v h hk := by
    rw [keysUniqueHere_iff] at h ⊢
    exact ⟨h.1, by simp, h.2.2⟩
  setOut d c i v h hk := by
    rw [keysUniqueHere_iff] at h ⊢
    exact ⟨h.1, h.2.1, by simp⟩


/-- The kind / child-map / list-attribute condition, allowing deviate entries to carry list
attributes (they never enter a schema tree: `ndHere`). -/
def kindsWeakHere (e : Entry) : Bool :=
  ((e.d.kind == .leaf) == !e.d.hasDir) &&
  (!e.d.listAttr.isSome || e.d.kind == .leaf || e.d.kind == .directory || e.d.kind == .deviate)

theorem localBase_kindsWeakHere (env : Env) : LocalBase env kindsWeakHere where
  hdr d c i o c' i' o' hc hi ho := rfl
  leaf root scope n syn he := by
    have := leafEntry_data env root scope n syn
    simp [kindsWeakHere, this.2.1, this.2.2.1, this.2.2.2.2.1]
  leafList d la xs dl hk hd h := by simp [kindsWeakHere, Entry.d, hk, hd]
  base d a b c e := by
    simp only [kindsWeakHere, Entry.d, a, Bool.not_true]
    have h1 : (d.kind == Kind.leaf) = false := by simpa using b
    rw [h1]
    cases hl : d.listAttr.isSome with
    | false => simp
    | true => simp [c hl]
  neutral d d' c i o hn h := by
    obtain ⟨_, h2, h3, _, h5, _⟩ := hn
    simp only [kindsWeakHere, Entry.d, h2, h3, h5] at h ⊢; exact h
  rename d c i o nm h := h
  typeSet d c i o ty hk h := h
  laSet d d' c i o hk hl h := by
    obtain ⟨_, h2, h3, _, _⟩ := hl
    simp only [kindsWeakHere, Entry.d, h2, h3, hk] at h ⊢
    simp only [Bool.and_eq_true] at h ⊢
    exact ⟨h.1, by simp⟩
  append d c i o v h hx hk := h
  setInp d c o v h hk := h
  setOut d c i v h hk := h

theorem localBase_typePresentHere (env : Env) (ht : TypeResTotal env.tres) : LocalBase env typePresentHere where
  hdr d c i o c' i' o' hc hi ho := rfl
  leaf root scope n syn he := by
    unfold leafEntry at he ⊢
    simp only [typePresentHere, Entry.d] at he ⊢
    cases hty : n.one? "type" with
    | none => simp
    | some t =>
      simp only [hty] at he ⊢
      have : (env.tres.resolve env.reg root (n :: scope) t).2 = [] := by
        simp only [List.append_eq_nil_iff] at he; exact he.1.1
      simp [ht _ _ _ _ this]
  leafList d la xs dl hk hd h := h
  base d a b c e := by
    have h1 : (d.kind == Kind.leaf) = false := by simpa using b
    simp [typePresentHere, Entry.d, h1]
  neutral d d' c i o hn h := by
    obtain ⟨_, h2, _, h4, _, h6⟩ := hn
    simp only [typePresentHere, Entry.d, h2, h4, h6] at h ⊢; exact h
  rename d c i o nm h := h
  typeSet d c i o ty hk h := by
    have h1 : (d.kind == Kind.leaf) = false := by simpa using hk
    simp [typePresentHere, Entry.d, h1]
  laSet d d' c i o hk hl h := by
    obtain ⟨_, h2, _, _, _⟩ := hl
    simp [typePresentHere, Entry.d, h2, hk]
  append d c i o v h hx hk := h
  setInp d c o v h hk := h
  setOut d c i v h hk := h

/-- Everything the entry layer establishes, as one local predicate. -/
def wfq (e : Entry) : Bool := (keysUniqueHere e && kindsWeakHere e) && ndHere e

theorem localOK_wfq (env : Env) : LocalOK env wfq where
  toLocalBase := ((localBase_keysUniqueHere env).and (localBase_kindsWeakHere env)).and (localBase_ndHere env)
  nd e h := by simp only [wfq, Bool.and_eq_true] at h; exact h.2

def wfqT (e : Entry) : Bool := wfq e && typePresentHere e

theorem localOK_wfqT (env : Env) (ht : TypeResTotal env.tres) : LocalOK env wfqT where
  toLocalBase := (localOK_wfq env).toLocalBase.and (localBase_typePresentHere env ht)
  nd e h := by simp only [wfqT, Bool.and_eq_true] at h; exact (localOK_wfq env).nd e h.1

/-! ### unconditionally: sibling names, the empty name apart, are pairwise different

(An error entry — out of fuel — has the empty name whatever it was filed under; everything else is
named after the key it is added under, and `add` / `merge` refuse a name that is taken.) -/

def names1 (c : List Entry) : List String := (c.map (·.name)).filter (· ≠ "")

def uHere (e : Entry) : Bool := decide (names1 e.dir).Nodup && decide (e.inp.length ≤ 1) && decide (e.out.length ≤ 1)

def U (e : Entry) : Prop := everyNode uHere e = true

theorem U_mk (d : EData) (c i o : List Entry) : U (.mk d c i o) ↔
    ((names1 c).Nodup ∧ i.length ≤ 1 ∧ o.length ≤ 1) ∧ (∀ x ∈ c, U x) ∧ (∀ x ∈ i, U x) ∧ (∀ x ∈ o, U x) := by
  unfold U; rw [everyNode_mk]
  simp only [uHere, Entry.dir, Entry.inp, Entry.out, Bool.and_eq_true]
  constructor
  · rintro ⟨⟨⟨h1, h1'⟩, h1''⟩, h2⟩; exact ⟨⟨of_decide_eq_true h1, of_decide_eq_true h1', of_decide_eq_true h1''⟩, h2⟩
  · rintro ⟨⟨h1, h1', h1''⟩, h2⟩; exact ⟨⟨⟨decide_eq_true h1, decide_eq_true h1'⟩, decide_eq_true h1''⟩, h2⟩

theorem U_withD (e : Entry) (f : EData → EData) : U (e.withD f) ↔ U e := by
  cases e with | mk d c i o => simp only [Entry.withD, U_mk]

theorem names1_append (c : List Entry) (v : Entry) :
    names1 (c ++ [v]) = names1 c ++ (if v.name ≠ "" then [v.name] else []) := by
  unfold names1
  simp only [List.map_append, List.filter_append, List.map_cons, List.map_nil]
  congr 1
  by_cases h : v.name = "" <;> simp [h]

theorem U_append (e v : Entry) (he : U e) (hv : U v) (hk : e.child? v.name = none) : U (e.withDir (e.dir ++ [v])) := by
  cases e with | mk d c i o =>
  simp only [Entry.withDir, Entry.dir]
  rw [U_mk] at he ⊢
  refine ⟨⟨?_, he.1.2⟩, ?_, he.2.2⟩
  · rw [names1_append]
    by_cases h : v.name = ""
    · simp [h, he.1.1]
    · simp only [ne_eq, h, not_false_eq_true, if_true]
      rw [List.nodup_append]
      refine ⟨he.1.1, by simp, ?_⟩
      intro a ha b hb
      simp only [List.mem_singleton] at hb; subst hb
      simp only [names1, List.mem_filter, List.mem_map] at ha
      obtain ⟨⟨x, hx, rfl⟩, _⟩ := ha
      exact child?_none _ _ hk x hx
  · intro x hx
    rcases List.mem_append.mp hx with hx | hx
    · exact he.2.1 x hx
    · simp only [List.mem_singleton] at hx; subst hx; exact hv

theorem U_add (e : Entry) (k : String) (v : Entry) (he : U e) (hv : U v) (hs : v.name = k ∨ v.name = "") :
    U (e.add k v) := by
  unfold Entry.add
  split
  · exact (U_withD _ _).2 he
  · rename_i hk
    rcases hs with hs | hs
    · exact U_append e v he hv (by rw [hs]; exact hk)
    · -- the empty name does not count
      cases e with | mk d c i o =>
      simp only [Entry.withDir, Entry.dir]
      rw [U_mk] at he ⊢
      refine ⟨⟨by rw [names1_append]; simp [hs, he.1.1], he.1.2⟩, ?_, he.2.2⟩
      intro x hx
      rcases List.mem_append.mp hx with hx | hx
      · exact he.2.1 x hx
      · simp only [List.mem_singleton] at hx; subst hx; exact hv

theorem U_merge (e : Entry) (ns : Option String) (oe : Entry) (he : U e) (ho : U oe) : U (e.merge ns oe) := by
  cases oe with | mk d2 c2 i2 o2 =>
  rw [U_mk] at ho
  have step : ∀ (stamp : Entry → Entry) (x : Err), (∀ v, U v → U (stamp v)) → ∀ b v, v ∈ c2 → U b →
      U (match b.child? (stamp v).name with
        | some _ => b.addErr x
        | none => b.withDir (b.dir ++ [stamp v])) := by
    intro stamp x h1 b v hv hb
    split
    · exact (U_withD _ _).2 hb
    · rename_i hk
      exact U_append b _ hb (h1 v (ho.2.1 v hv)) hk
  unfold Entry.merge
  simp only [Entry.dir]
  cases ns with
  | none =>
    refine foldl_inv U _ c2 _ ((U_withD _ _).2 he) ?_
    intro b v hv hb
    exact step id _ (fun v hv => hv) b v hv hb
  | some n =>
    refine foldl_inv U _ c2 _ ((U_withD _ _).2 he) ?_
    intro b v hv hb
    exact step (fun v => v.withD fun d => { d with ns := some n }) _ (fun v hv => (U_withD _ _).2 hv) b v hv hb

theorem U_leafEntry (env : Env) (root : Mod) (n : Stmt) (scope : List Stmt) (syn : Bool) :
    U (leafEntry env root scope n syn) := by
  have hd := leafEntry_data env root scope n syn
  generalize leafEntry env root scope n syn = le at hd ⊢
  cases le with | mk d c i o =>
  simp only [Entry.dir, Entry.inp, Entry.out] at hd
  obtain ⟨_, _, _, _, _, rfl, rfl, rfl⟩ := hd
  rw [U_mk]; simp [names1]

theorem closed_U (env : Env) : Closed env U where
  withD e f _ _ h := (U_withD e f).2 h
  addErrs e xs h := (U_withD e _).2 h
  addErr e x h := (U_withD e _).2 h
  importErrors e c h := (U_withD e _).2 h
  add e k v h hv _ hs := U_add e k v h hv hs
  merge e ns oe h ho := U_merge e ns oe h ho
  setInp d c o ie h hi _ := by
    rw [U_mk] at h ⊢
    refine ⟨⟨h.1.1, by simp, h.1.2.2⟩, h.2.1, ?_, h.2.2.2⟩
    intro x hx; simp only [List.mem_singleton] at hx; subst hx; exact (U_withD _ _).2 hi
  setOut d c i oe h ho _ := by
    rw [U_mk] at h ⊢
    refine ⟨⟨h.1.1, h.1.2.1, by simp⟩, h.2.1, h.2.2.1, ?_⟩
    intro x hx; simp only [List.mem_singleton] at hx; subst hx; exact (U_withD _ _).2 ho
  typeSet e ty h _ := (U_withD e _).2 h
  laSet e f h _ _ _ := (U_withD e f).2 h
  base0 root n := by unfold e0; rw [U_mk]; simp [names1]
  errE root n cls := by unfold errorEntry; rw [U_mk]; simp [names1]
  leafE root n scope syn := U_leafEntry env root n scope syn
  leafL root n scope la xs dl := (U_withD _ _).2 (U_leafEntry env root n scope true)

/-! ### the conversion of all modules -/

theorem stOK_empty (PE : Entry → Prop) (S : List Nat) : StOK PE S {} :=
  ⟨by simp, by simp, by simp, by simp, by simp⟩

theorem tstate_ok (reg : Registry) (opts : Opts) (plug : Plug) {PE : Entry → Prop}
    (hC : Closed (envOf reg opts plug) PE) : StOK PE [] (tstate reg opts plug) := by
  unfold tstate
  refine foldl_inv (StOK PE []) _ _ _ (stOK_empty PE []) ?_
  intro st m _ hst
  exact (toEntry_ok hC (entryFuel reg) m [] m.stmt [] st [] hst).2.1

/-! ### forests: keys and sticky root errors -/

def fkeys (f : Forest) : List Nat := f.trees.map (·.1)

theorem fkeys_setTree (f : Forest) (id : Nat) (e : Entry) : fkeys (f.setTree id e) = fkeys f := by
  unfold fkeys Forest.setTree
  simp only [List.map_map]
  apply List.map_congr_left
  rintro ⟨i, t⟩ _
  simp only [Function.comp]
  split <;> rfl

theorem tree?_isSome (f : Forest) (id : Nat) : (f.tree? id).isSome = true ↔ id ∈ fkeys f := by
  unfold Forest.tree? fkeys
  simp only [Option.isSome_map, List.find?_isSome, List.mem_map]
  constructor
  · rintro ⟨x, hx, h⟩; exact ⟨x, hx, by simpa using h⟩
  · rintro ⟨x, hx, h⟩; exact ⟨x, hx, by simp [h]⟩

theorem tree?_setTree (f : Forest) (id id' : Nat) (e : Entry) :
    (f.setTree id e).tree? id' = if id' = id then (f.tree? id').map (fun _ => e) else f.tree? id' := by
  unfold Forest.tree? Forest.setTree
  simp only
  induction f.trees with
  | nil => simp
  | cons a l ih =>
    obtain ⟨i, t⟩ := a
    simp only [List.map_cons, List.find?_cons]
    by_cases h1 : i = id'
    · subst h1
      by_cases h2 : i = id
      · subst h2; simp
      · simp [h2]
    · have h1' : (i == id') = false := by simpa using h1
      by_cases h2 : i = id
      · subst h2
        simp only [beq_self_eq_true, if_true, h1', Bool.false_eq_true]
        exact ih
      · have h2' : (i == id) = false := by simpa using h2
        simp only [h2', Bool.false_eq_true, if_false, h1']
        exact ih

/-- A node's own error list only grows. -/
def OwnMono (a b : Entry) : Prop := a.d.errors ≠ [] → b.d.errors ≠ []

theorem OwnMono.refl (a : Entry) : OwnMono a a := id
theorem OwnMono.trans {a b c : Entry} (h1 : OwnMono a b) (h2 : OwnMono b c) : OwnMono a c := fun h => h2 (h1 h)

/-- The forest keeps its keys, and a tree whose root carries an error keeps carrying one. -/
def FLe (f f' : Forest) : Prop :=
  fkeys f' = fkeys f ∧ ∀ id t, f.tree? id = some t → ∃ t', f'.tree? id = some t' ∧ OwnMono t t'

theorem FLe.refl (f : Forest) : FLe f f := ⟨rfl, fun id t h => ⟨t, h, OwnMono.refl t⟩⟩
theorem FLe.trans {a b c : Forest} (h1 : FLe a b) (h2 : FLe b c) : FLe a c := by
  refine ⟨h2.1.trans h1.1, ?_⟩
  intro id t ht
  obtain ⟨t', ht', m1⟩ := h1.2 id t ht
  obtain ⟨t'', ht'', m2⟩ := h2.2 id t' ht'
  exact ⟨t'', ht'', m1.trans m2⟩

theorem FLe_setTree (f : Forest) (id : Nat) (t e : Entry) (ht : f.tree? id = some t) (hm : OwnMono t e) :
    FLe f (f.setTree id e) := by
  refine ⟨fkeys_setTree f id e, ?_⟩
  intro id' t' ht'
  rw [tree?_setTree]
  by_cases h : id' = id
  · subst h
    simp only [if_true, ht']
    rw [ht] at ht'; cases ht'
    exact ⟨e, rfl, hm⟩
  · simp only [h, if_false]
    exact ⟨t', ht', OwnMono.refl _⟩

def RootErrAt (f : Forest) (id : Nat) : Prop := ∃ t, f.tree? id = some t ∧ t.d.errors ≠ []

theorem RootErrAt.mono {f f' : Forest} {id : Nat} (h : RootErrAt f id) (hf : FLe f f') : RootErrAt f' id := by
  obtain ⟨t, ht, he⟩ := h
  obtain ⟨t', ht', m⟩ := hf.2 id t ht
  exact ⟨t', ht', m he⟩

theorem ownMono_updateAt (f : Entry → Entry) (hf : ∀ x, OwnMono x (f x)) (p : Path) (e : Entry) :
    OwnMono e (e.updateAt p f) := by
  cases p with
  | nil => exact hf e
  | cons s p =>
    cases e with | mk d c i o =>
    cases s <;> exact id

theorem ownMono_walkParts (parts : List String) (root : Entry) (cur : Option Path) :
    OwnMono root (walkParts parts root cur).2 :=
  walkParts_inv (OwnMono root)
    (fun r p h => h.trans (ownMono_updateAt _ (fun x => by cases x; exact id) p r))
    (fun r p h => h.trans (ownMono_updateAt _ (fun x => by cases x; exact id) p r))
    parts root cur (OwnMono.refl root)

theorem ownMono_addErr (e : Entry) (x : Err) : OwnMono e (e.addErr x) := by
  cases e with | mk d c i o => intro _; simp [Entry.addErr, Entry.withD, Entry.d]

theorem ownMono_merge (e : Entry) (ns : Option String) (oe : Entry) : OwnMono e (e.merge ns oe) := by
  intro h
  obtain ⟨xs, hxs⟩ := merge_root_errors e ns oe
  rw [hxs]
  intro h0
  simp only [List.append_eq_nil_iff] at h0
  exact h h0.1.1

theorem FLe_find (reg : Registry) (f : Forest) (start : Loc) (ctx : Nat) (name : String) :
    FLe f (find reg f start ctx name).2 := by
  unfold find
  dsimp only
  repeat' split
  all_goals first
    | exact FLe.refl f
    | (rename_i heq; exact FLe_setTree _ _ _ _ heq (ownMono_walkParts _ _ _))
    | (rename_i heq; exact FLe_setTree _ _ _ _ heq (ownMono_addErr _ _))

/-! ### one `Augment` call, step by step -/

/-- What `augmentTree` does when an augment cannot be applied. -/
def augFail (id : Nat) (addErrors : Bool) (a : Entry) (s : PState) (unapplied : List Entry) (p k : Nat) :
    PState × List Entry × Nat × Nat :=
  let s := if addErrors then
      match s.forest.tree? id with
      | some root => { s with forest := s.forest.setTree id (root.addErr (Err.at_ a.d.node "augment-not-found")) }
      | none => s
    else s
  (s, unapplied ++ [a], p, k + 1)

/-- The body of the loop over the pending augments of one tree. -/
def augStep (reg : Registry) (id : Nat) (addErrors : Bool) (nsOf : String)
    (acc : PState × List Entry × Nat × Nat) (a : Entry) : PState × List Entry × Nat × Nat :=
  let (s, unapplied, p, k) := acc
  let (target, forest) := find reg s.forest (id, []) a.d.nodeMod a.d.name
  let s := { s with forest := forest }
  match target with
  | none => augFail id addErrors a s unapplied p k
  | some (t, path) =>
    match (s.forest.tree? t).bind (·.getAt path) with
    | none => augFail id addErrors a s unapplied p k
    | some te =>
      if cannotHaveChildren te then augFail id addErrors a s unapplied p k else
      match s.forest.tree? t with
      | none => augFail id addErrors a s unapplied p k
      | some root =>
        let root := root.updateAt path fun te => te.merge (some nsOf) a
        ({ s with forest := s.forest.setTree t root }, unapplied, p + 1, k)

theorem augmentTree_eq (reg : Registry) (id : Nat) (addErrors : Bool) (s : PState) :
    augmentTree reg id addErrors s =
      (let r := (s.pendingOf id).foldl (augStep reg id addErrors (namespaceAt reg s.forest (id, []))) (s, [], 0, 0)
       (r.1.setPending id r.2.1, r.2.2.1, r.2.2.2)) := by
  rfl


/-- What one step of the loop does to the state and the counters. -/
structure AugStepOK (id : Nat) (addErrors : Bool) (a : Entry) (s0 : PState)
    (acc acc' : PState × List Entry × Nat × Nat) : Prop where
  fle : FLe s0.forest acc'.1.forest
  pend : acc'.1.pending = acc.1.pending
  res : (acc'.2.1 = acc.2.1 ∧ acc'.2.2.2 = acc.2.2.2 ∧ acc'.2.2.1 = acc.2.2.1 + 1) ∨
    (acc'.2.1 = acc.2.1 ++ [a] ∧ acc'.2.2.2 = acc.2.2.2 + 1 ∧
      (addErrors = true → id ∈ fkeys s0.forest → RootErrAt acc'.1.forest id))

theorem augFail_ok (id : Nat) (addErrors : Bool) (a : Entry) (s0 s : PState) (un : List Entry) (p k : Nat)
    (pend0 : List (Nat × List Entry)) (hf : FLe s0.forest s.forest) (hp : s.pending = pend0) :
    FLe s0.forest (augFail id addErrors a s un p k).1.forest ∧ (augFail id addErrors a s un p k).1.pending = pend0 ∧
    (augFail id addErrors a s un p k).2.1 = un ++ [a] ∧ (augFail id addErrors a s un p k).2.2.2 = k + 1 ∧
    (addErrors = true → id ∈ fkeys s0.forest → RootErrAt (augFail id addErrors a s un p k).1.forest id) := by
  unfold augFail
  dsimp only
  cases addErrors with
  | false => simp only [Bool.false_eq_true, if_false]; exact ⟨hf, hp, by first | rfl | trivial, by first | rfl | trivial, fun h => absurd h (by simp)⟩
  | true =>
    simp only [if_true]
    cases ht : s.forest.tree? id with
    | none =>
      refine ⟨hf, hp, by first | rfl | trivial, by first | rfl | trivial, ?_⟩
      intro _ hid
      have : (s.forest.tree? id).isSome = true := (tree?_isSome _ _).2 (by rw [hf.1]; exact hid)
      rw [ht] at this; exact absurd this (by simp)
    | some root =>
      dsimp only
      refine ⟨hf.trans (FLe_setTree _ _ _ _ ht (ownMono_addErr _ _)), hp, by first | rfl | trivial, by first | rfl | trivial, ?_⟩
      intro _ _
      refine ⟨root.addErr (Err.at_ a.d.node "augment-not-found"), ?_, ?_⟩
      · rw [tree?_setTree]; simp [ht]
      · cases root; simp [Entry.addErr, Entry.withD, Entry.d]

theorem augStep_ok (reg : Registry) (id : Nat) (addErrors : Bool) (nsOf : String) (s0 : PState)
    (acc : PState × List Entry × Nat × Nat) (a : Entry) (hf : FLe s0.forest acc.1.forest) :
    AugStepOK id addErrors a s0 acc (augStep reg id addErrors nsOf acc a) := by
  obtain ⟨s, un, p, k⟩ := acc
  dsimp only at hf
  have hfind := FLe_find reg s.forest (id, []) a.d.nodeMod a.d.name
  unfold augStep
  dsimp only
  generalize find reg s.forest (id, []) a.d.nodeMod a.d.name = r at hfind
  obtain ⟨target, forest⟩ := r
  dsimp only at hfind ⊢
  have hf2 : FLe s0.forest forest := hf.trans hfind
  have fail := augFail_ok id addErrors a s0 { s with forest := forest } un p k s.pending hf2 rfl
  have failOK : AugStepOK id addErrors a s0 (s, un, p, k) (augFail id addErrors a { s with forest := forest } un p k) :=
    ⟨fail.1, fail.2.1, Or.inr ⟨fail.2.2.1, fail.2.2.2.1, fail.2.2.2.2⟩⟩
  repeat' split
  all_goals first
    | exact failOK
    | (rename_i root hroot
       refine ⟨hf2.trans (FLe_setTree _ _ _ _ hroot (ownMono_updateAt _ (fun x => ownMono_merge _ _ _) _ _)), rfl,
         Or.inl ⟨rfl, rfl, rfl⟩⟩)


/-- One `Augment` call: the forest keeps its keys and its root errors; the pending list of `id`
becomes the list `un` of augments that could not be applied (`k = un.length`), the other pending
lists are untouched; and with `addErrors`, a non-empty `un` leaves an error on the root of tree `id`. -/
theorem augmentTree_ok (reg : Registry) (id : Nat) (addErrors : Bool) (s : PState) :
    ∃ un : List Entry,
      FLe s.forest (augmentTree reg id addErrors s).1.forest ∧
      (augmentTree reg id addErrors s).1.pending =
        s.pending.map (fun (ip : Nat × List Entry) => if ip.1 == id then (ip.1, un) else (ip.1, ip.2)) ∧
      (∀ a ∈ un, a ∈ s.pendingOf id) ∧
      (augmentTree reg id addErrors s).2.2 = un.length ∧
      (addErrors = true → un ≠ [] → id ∈ fkeys s.forest → RootErrAt (augmentTree reg id addErrors s).1.forest id) ∧
      ((augmentTree reg id addErrors s).2.1 = 0 → un = [] → (augmentTree reg id addErrors s).1.forest = s.forest) := by
  rw [augmentTree_eq]
  dsimp only
  have key := foldl_inv (fun acc : PState × List Entry × Nat × Nat =>
      FLe s.forest acc.1.forest ∧ acc.1.pending = s.pending ∧ (∀ a ∈ acc.2.1, a ∈ s.pendingOf id) ∧
      acc.2.2.2 = acc.2.1.length ∧
      (addErrors = true → acc.2.1 ≠ [] → id ∈ fkeys s.forest → RootErrAt acc.1.forest id) ∧
      (acc.2.2.1 = 0 → acc.2.1 = [] → acc.1.forest = s.forest))
    (augStep reg id addErrors (namespaceAt reg s.forest (id, []))) (s.pendingOf id) (s, [], 0, 0)
    ⟨FLe.refl _, rfl, by simp, rfl, fun _ h => absurd rfl h, fun _ _ => rfl⟩ ?_
  · obtain ⟨k1, k2, k3, k4, k5, k6⟩ := key
    refine ⟨_, k1, ?_, k3, k4, k5, k6⟩
    simp only [PState.setPending, k2]
  · rintro acc a ha ⟨i1, i2, i3, i4, i5, i6⟩
    have st := augStep_ok reg id addErrors (namespaceAt reg s.forest (id, [])) acc.1 acc a (FLe.refl _)
    generalize augStep reg id addErrors (namespaceAt reg s.forest (id, [])) acc a = acc' at st ⊢
    obtain ⟨f1, f2, f3⟩ := st
    refine ⟨i1.trans f1, f2.trans i2, ?_, ?_, ?_, ?_⟩
    rotate_left 3
    · intro hp0 hun
      rcases f3 with ⟨_, _, e3⟩ | ⟨e1, _, _⟩
      · rw [e3] at hp0; exact absurd hp0 (by simp)
      · rw [e1] at hun; exact absurd hun (by simp)
    · rcases f3 with ⟨e1, _⟩ | ⟨e1, _, _⟩
      · rw [e1]; exact i3
      · rw [e1]; intro x hx
        rcases List.mem_append.mp hx with hx | hx
        · exact i3 x hx
        · simp only [List.mem_singleton] at hx; subst hx; exact ha
    · rcases f3 with ⟨e1, e2, _⟩ | ⟨e1, e2, _⟩
      · rw [e1, e2]; exact i4
      · rw [e1, e2, i4]; simp
    · intro hadd hne hid
      rcases f3 with ⟨e1, _⟩ | ⟨_, _, e3⟩
      · rw [e1] at hne; exact (i5 hadd hne hid).mono f1
      · exact e3 hadd (by rw [i1.1]; exact hid)

/-! ### the augment loop: who still has pending augments -/

theorem mem_swapRemove (mods : Array Nat) (i : Nat) (h : i < mods.size) (x : Nat) (hx : x ∈ mods) (hne : x ≠ mods[i]) :
    x ∈ (mods.set i (mods.back?.getD 0) h).pop := by
  obtain ⟨j, hj, rfl⟩ := Array.mem_iff_getElem.mp hx
  have hji : j ≠ i := fun e => hne (by subst e; rfl)
  rw [Array.mem_iff_getElem]
  by_cases hl : j < mods.size - 1
  · refine ⟨j, by simp; omega, ?_⟩
    simp [Array.getElem_pop, Array.getElem_set, Ne.symm hji]
  · have hj' : j = mods.size - 1 := by omega
    refine ⟨i, by simp; omega, ?_⟩
    simp only [Array.getElem_pop, Array.getElem_set_self]
    rw [Array.back?_eq_getElem?]
    simp [hj']
    have : mods.size - 1 < mods.size := by omega
    simp [Array.getElem?_eq_getElem this]

/-- Every tree with pending augments exists. -/
def InvB (s : PState) : Prop := ∀ p ∈ s.pending, p.2 ≠ [] → p.1 ∈ fkeys s.forest

/-- Every tree with pending augments is still in the work list. -/
def InvA (mods : Array Nat) (s : PState) : Prop := ∀ p ∈ s.pending, p.2 ≠ [] → p.1 ∈ mods

theorem pendingOf_ne_nil (s : PState) (id : Nat) (h : s.pendingOf id ≠ []) :
    ∃ p ∈ s.pending, p.1 = id ∧ p.2 ≠ [] := by
  unfold PState.pendingOf at h
  cases hf : s.pending.find? (·.1 == id) with
  | none => simp [hf] at h
  | some p =>
    simp only [hf, Option.map_some, Option.getD_some] at h
    exact ⟨p, List.mem_of_find?_eq_some hf, by simpa using List.find?_some hf, h⟩

theorem invB_augmentTree (reg : Registry) (id : Nat) (addErrors : Bool) (s : PState) (hB : InvB s) :
    InvB (augmentTree reg id addErrors s).1 := by
  obtain ⟨un, fle, hp, hsub, _, _, _⟩ := augmentTree_ok reg id addErrors s
  intro p hp' hne
  rw [fle.1]
  rw [hp] at hp'
  simp only [List.mem_map] at hp'
  obtain ⟨ip, hip, rfl⟩ := hp'
  by_cases hid : (ip.1 == id) = true
  · simp only [hid, if_true] at hne ⊢
    have hid' : ip.1 = id := by simpa using hid
    cases un with
    | nil => exact absurd rfl hne
    | cons a t =>
      obtain ⟨p0, hp0, h1, h2⟩ := pendingOf_ne_nil s id (List.ne_nil_of_mem (hsub a (by simp)))
      rw [hid', ← h1]; exact hB p0 hp0 h2
  · simp only [hid, if_false] at hne ⊢
    exact hB ip hip hne

theorem augmentPass_inv (reg : Registry) : ∀ (fuel : Nat) (mods : Array Nat) (i processed : Nat) (s : PState),
    InvB s → InvA mods s →
    InvB (augmentPass reg fuel mods i processed s).2.2 ∧
      InvA (augmentPass reg fuel mods i processed s).1 (augmentPass reg fuel mods i processed s).2.2 := by
  intro fuel
  induction fuel with
  | zero => intro mods i processed s hB hA; exact ⟨hB, hA⟩
  | succ fuel ih =>
    intro mods i processed s hB hA
    unfold augmentPass
    split
    · rename_i hi
      have hB' := invB_augmentTree reg mods[i] false s hB
      obtain ⟨un, fle, hp, hsub, hk, _, _⟩ := augmentTree_ok reg mods[i] false s
      generalize augmentTree reg mods[i] false s = r at hB' hp hk ⊢
      obtain ⟨s', p, k⟩ := r
      dsimp only at hB' hp hk ⊢
      split
      · rename_i hk0
        have hun : un = [] := by
          have : k = 0 := by simpa using hk0
          rw [this] at hk; exact List.length_eq_zero_iff.mp hk.symm
        apply ih _ _ _ _ hB'
        intro q hq hne
        rw [hp] at hq
        simp only [List.mem_map] at hq
        obtain ⟨ip, hip, rfl⟩ := hq
        by_cases hid : (ip.1 == mods[i]) = true
        · simp only [hid, if_true] at hne
          exact absurd hun hne
        · simp only [hid, if_false] at hne ⊢
          exact mem_swapRemove mods i hi ip.1 (hA ip hip hne) (by simpa using hid)
      · apply ih _ _ _ _ hB'
        intro q hq hne
        rw [hp] at hq
        simp only [List.mem_map] at hq
        obtain ⟨ip, hip, rfl⟩ := hq
        by_cases hid : (ip.1 == mods[i]) = true
        · simp only [hid, if_true]
          have : ip.1 = mods[i] := by simpa using hid
          rw [this]; exact Array.getElem_mem hi
        · simp only [hid, if_false] at hne ⊢
          exact hA ip hip hne
    · exact ⟨hB, hA⟩

theorem augmentLoop_inv (reg : Registry) : ∀ (fuel : Nat) (mods : Array Nat) (s : PState),
    InvB s → InvA mods s →
    InvB (augmentLoop reg fuel mods s).2 ∧ InvA (augmentLoop reg fuel mods s).1 (augmentLoop reg fuel mods s).2 := by
  intro fuel
  induction fuel with
  | zero => intro mods s hB hA; exact ⟨hB, hA⟩
  | succ fuel ih =>
    intro mods s hB hA
    unfold augmentLoop
    split
    · exact ⟨hB, hA⟩
    · have := augmentPass_inv reg (mods.size + 1) mods 0 0 s hB hA
      generalize augmentPass reg (mods.size + 1) mods 0 0 s = r at this ⊢
      obtain ⟨mods', processed, s'⟩ := r
      dsimp only at this ⊢
      split
      · exact this
      · exact ih _ _ this.1 this.2

theorem foldl_prefix_inv {α β} (P : List α → β → Prop) (f : β → α → β) (l : List α) (b : β) (h0 : P [] b)
    (hs : ∀ done a b, a ∈ l → P done b → P (done ++ [a]) (f b a)) : P l (l.foldl f b) := by
  have gen : ∀ (l2 done : List α) (b : β), (∀ a ∈ l2, a ∈ l) → P done b → P (done ++ l2) (l2.foldl f b) := by
    intro l2
    induction l2 with
    | nil => intro done b _ h; simpa using h
    | cons a l2 ih =>
      intro done b hsub h
      simp only [List.foldl_cons]
      have := ih (done ++ [a]) (f b a) (fun x hx => hsub x (by simp [hx])) (hs done a b (hsub a (by simp)) h)
      simpa using this
  simpa using gen l [] b (fun a h => h) h0

theorem tree?_mapTrees (f : Forest) (g : Entry → Entry) (id : Nat) :
    (Forest.tree? { trees := f.trees.map fun (ie : Nat × Entry) => (ie.1, g ie.2) } id) = (f.tree? id).map g := by
  unfold Forest.tree?
  simp only
  induction f.trees with
  | nil => simp
  | cons a l ih =>
    simp only [List.map_cons, List.find?_cons]
    split
    · simp
    · exact ih

theorem fixChoice_d (e : Entry) : (fixChoice e).d = e.d := by
  cases e with | mk d c i o => simp [fixChoice, Entry.d]

theorem FLe_fixAll (s : PState) : FLe s.forest (fixAll s).forest := by
  unfold fixAll
  refine ⟨?_, ?_⟩
  · simp [fkeys, List.map_map, Function.comp_def]
  · intro id t ht
    refine ⟨fixChoice t, ?_, ?_⟩
    · have := tree?_mapTrees s.forest fixChoice id
      simp only [ht, Option.map_some] at this
      exact this
    · intro h; rw [fixChoice_d]; exact h

/-- The pass over the trees left with pending augments (`addErrors = true`): afterwards every
tree that still has one carries an error on its root. -/
theorem leftover_inv (reg : Registry) (left : Array Nat) (s : PState) (hB : InvB s) (hA : InvA left s) :
    let r := left.foldl (fun (acc : PState × Nat) id =>
      let (s, p, _) := augmentTree reg id true acc.1
      (s, acc.2 + p)) (s, 0)
    ∀ p ∈ r.1.pending, p.2 ≠ [] → RootErrAt r.1.forest p.1 := by
  intro r
  have key : InvB r.1 ∧ InvA left r.1 ∧ ∀ p ∈ r.1.pending, p.2 ≠ [] → p.1 ∈ left.toList → RootErrAt r.1.forest p.1 := by
    show InvB r.1 ∧ InvA left r.1 ∧ _
    simp only [r]
    rw [← Array.foldl_toList]
    refine foldl_prefix_inv (fun (done : List Nat) (acc : PState × Nat) =>
      InvB acc.1 ∧ InvA left acc.1 ∧ ∀ p ∈ acc.1.pending, p.2 ≠ [] → p.1 ∈ done → RootErrAt acc.1.forest p.1)
      _ _ _ ⟨hB, hA, fun _ _ _ h => absurd h (by simp)⟩ ?_
    rintro done id ⟨s, cnt⟩ hid ⟨jB, jA, jE⟩
    dsimp only at jB jA jE ⊢
    have hB' := invB_augmentTree reg id true s jB
    obtain ⟨un, fle, hp, hsub, hk, herr, _⟩ := augmentTree_ok reg id true s
    generalize augmentTree reg id true s = r' at hB' fle hp hk herr ⊢
    obtain ⟨s', p, k⟩ := r'
    dsimp only at hB' fle hp hk herr ⊢
    refine ⟨hB', ?_, ?_⟩
    · intro q hq hne
      rw [hp] at hq
      simp only [List.mem_map] at hq
      obtain ⟨ip, hip, rfl⟩ := hq
      by_cases hk : (ip.1 == id) = true
      · simp only [hk, if_true]
        have : ip.1 = id := by simpa using hk
        rw [this]; exact Array.mem_toList_iff.mp hid
      · simp only [hk] at hne ⊢
        exact jA ip hip hne
    · intro q hq hne hdone
      rw [hp] at hq
      simp only [List.mem_map] at hq
      obtain ⟨ip, hip, rfl⟩ := hq
      by_cases hk : (ip.1 == id) = true
      · simp only [hk, if_true] at hne ⊢
        have hid' : ip.1 = id := by simpa using hk
        rw [hid']
        cases un with
        | nil => exact absurd rfl hne
        | cons a t =>
          obtain ⟨p0, hp0, h1, h2⟩ := pendingOf_ne_nil s id (List.ne_nil_of_mem (hsub a (by simp)))
          exact herr rfl (by simp) (by rw [← h1]; exact jB p0 hp0 h2)
      · simp only [hk] at hne hdone ⊢
        have hne_id : ip.1 ≠ id := by simpa using hk
        have : ip.1 ∈ done := by
          rcases List.mem_append.mp hdone with h | h
          · exact h
          · simp only [List.mem_singleton] at h; exact absurd h hne_id
        exact (jE ip hip hne this).mono fle
  intro p hp hne
  exact key.2.2 p hp hne (Array.mem_toList_iff.mpr (key.2.1 p hp hne))

/-! ### no augment is left unapplied after a clean `Process` -/

theorem invB_pstate0 (reg : Registry) (opts : Opts) (plug : Plug) : InvB (pstate0 reg opts plug) := by
  have hst := tstate_ok reg opts plug (closed_U (envOf reg opts plug))
  intro p hp hne
  simp only [pstate0, pending0, List.mem_map] at hp
  obtain ⟨m, _, rfl⟩ := hp
  dsimp only at hne ⊢
  cases hf : (tstate reg opts plug).augs.find? (·.1 == m.seq) with
  | none => simp [hf] at hne
  | some q =>
    have hq := List.mem_of_find?_eq_some hf
    have hk : q.1 = m.seq := by simpa using List.find?_some hf
    rcases hst.keys q hq with h | h
    · simp only [pstate0, forest0, fkeys]
      rw [← hk]; exact h
    · exact absurd h (by simp)

theorem byId_some_of_mem (reg : Registry) (m : Mod) (hm : m ∈ reg.mods) : ∃ m', reg.byId m.seq = some m' ∧ m'.seq = m.seq := by
  unfold Registry.byId
  cases hf : reg.mods.find? (·.seq == m.seq) with
  | none =>
    rw [List.find?_eq_none] at hf
    exact absurd (hf m hm) (by simp)
  | some m' => exact ⟨m', rfl, by simpa using List.find?_some hf⟩

theorem invA_pstate0 (reg : Registry) (opts : Opts) (plug : Plug) :
    InvA ((augOrder reg).map (·.seq)).toArray (pstate0 reg opts plug) := by
  intro p hp _
  simp only [pstate0, pending0, List.mem_map] at hp
  obtain ⟨m, hm, rfl⟩ := hp
  dsimp only
  simp only [List.mem_toArray, List.mem_map]
  -- m is bound in one of the two tables
  have : ∃ kv ∈ reg.modules ++ reg.subModules, kv.2 = m.seq ∧ m ∈ reg.mods := by
    simp only [allMods, Registry.distinctModules, Registry.distinctSubs, List.mem_append, List.mem_filter,
      List.any_eq_true] at hm
    rcases hm with ⟨h1, kv, h2, h3⟩ | ⟨h1, kv, h2, h3⟩
    · exact ⟨kv, List.mem_append.mpr (Or.inl h2), by simpa using h3, h1⟩
    · exact ⟨kv, List.mem_append.mpr (Or.inr h2), by simpa using h3, h1⟩
  obtain ⟨kv, hkv, hseq, hmem⟩ := this
  obtain ⟨m', hm', hs⟩ := byId_some_of_mem reg m hmem
  refine ⟨m', ?_, hs⟩
  unfold augOrder
  rw [mem_sortBy]
  simp only [List.mem_filterMap]
  exact ⟨kv, hkv, by rw [hseq]; exact hm'⟩

theorem invB_fixAll (s : PState) (h : InvB s) : InvB (fixAll s) := by
  intro p hp hne
  rw [(FLe_fixAll s).1]
  exact h p hp hne

theorem ownErr_forestErrs (f : Forest) (id : Nat) (h : RootErrAt f id) : forestErrs f ≠ [] := by
  obtain ⟨t, ht, he⟩ := h
  intro h0
  have := (forestErrs_eq_nil f).1 h0
  simp only [Forest.tree?, Option.map_eq_some_iff] at ht
  obtain ⟨x, hx, rfl⟩ := ht
  exact he (noErrors_own _ (this x (List.mem_of_find?_eq_some hx)))

theorem invA_fixAll (mods : Array Nat) (s : PState) (h : InvA mods s) : InvA mods (fixAll s) :=
  fun p hp hne => h p hp hne

/-- The two bookkeeping invariants hold after the retry rounds. -/
theorem rounds_inv (reg : Registry) (opts : Opts) (plug : Plug) :
    InvB (afterRounds reg opts plug).2 ∧ InvA (afterRounds reg opts plug).1 (afterRounds reg opts plug).2 := by
  have hl := augmentLoop_inv reg ((pending0 reg opts plug).foldl (fun n p => n + p.2.length) 0 + 2)
    ((augOrder reg).map (·.seq)).toArray (pstate0 reg opts plug) (invB_pstate0 reg opts plug) (invA_pstate0 reg opts plug)
  exact Rounds.rounds_ind reg (fun mods s => InvB s ∧ InvA mods s)
    (fun fuel mods s h => augmentLoop_inv reg fuel mods s h.1 h.2)
    (fun mods s h => ⟨invB_fixAll s h.1, invA_fixAll mods s h.2⟩) _ _ _ _
    ⟨invB_fixAll _ hl.1, invA_fixAll _ _ hl.2⟩

attribute [local irreducible] leftoverRounds in
/-- With no errors returned, no augment is left unapplied. -/
theorem process_clean_no_pending (reg : Registry) (opts : Opts) (plug : Plug)
    (h : (processAll reg opts plug).errors = []) : NoPending (preDev reg opts plug) := by
  obtain ⟨_, _, h3, _, _⟩ := processAll_clean reg opts plug h
  have hl := augmentLoop_inv reg ((pending0 reg opts plug).foldl (fun n p => n + p.2.length) 0 + 2)
    ((augOrder reg).map (·.seq)).toArray (pstate0 reg opts plug) (invB_pstate0 reg opts plug) (invA_pstate0 reg opts plug)
  have hr := rounds_inv reg opts plug
  have hleft := leftover_inv reg (afterRounds reg opts plug).1 (afterRounds reg opts plug).2 hr.1 hr.2
  intro p hp
  apply Classical.byContradiction
  intro hne
  have hroot : RootErrAt (preDev reg opts plug).forest p.1 := by
    unfold preDev at hp ⊢
    split at hp
    · rename_i happ
      simp only [happ, if_true]
      exact (hleft p hp hne).mono (FLe_fixAll _)
    · rename_i happ
      simp only [happ, if_false]
      exact hleft p hp hne
  exact ownErr_forestErrs _ _ hroot h3

/-! ### `fixChoice` -/

theorem fixChoiceL_eq_map (l : List Entry) : fixChoiceL l = l.map fixChoice := by
  induction l with
  | nil => rfl
  | cons a l ih => simp [fixChoiceL, ih]

/-- The implicit case `FixChoice` puts around a non-case child of a choice. -/
def wrapCase (ce : Entry) : Entry :=
  if ce.d.kind == .case_ then ce
  else .mk { name := ce.d.name, kind := .case_, hasDir := true, config := ce.d.config, node := ce.d.node,
             nodeMod := ce.d.nodeMod, nodeKw := "case" } [ce] [] []

theorem wrapCases_eq_map (l : List Entry) : wrapCases l = l.map wrapCase := by
  induction l with
  | nil => rfl
  | cons a l ih => simp [wrapCases, wrapCase, ih]

theorem wrapCase_kind (ce : Entry) : (wrapCase ce).d.kind = .case_ := by
  unfold wrapCase; split
  · rename_i h; simpa using h
  · rfl

theorem wrapCase_name (ce : Entry) : (wrapCase ce).name = ce.name := by
  unfold wrapCase; split <;> rfl

theorem fixChoice_eq (d : EData) (c i o : List Entry) : fixChoice (.mk d c i o) =
    .mk d (if d.kind == .choice && d.errors.isEmpty then (c.map fixChoice).map wrapCase else c.map fixChoice)
      (i.map fixChoice) (o.map fixChoice) := by
  simp only [fixChoice, fixChoiceL_eq_map, wrapCases_eq_map]

theorem choiceCases_mk (d : EData) (c i o : List Entry) : ChoiceCases (.mk d c i o) ↔
    (d.kind = .choice → d.errors = [] → ∀ x ∈ c, x.d.kind = .case_) ∧
      (∀ x ∈ c, ChoiceCases x) ∧ (∀ x ∈ i, ChoiceCases x) ∧ (∀ x ∈ o, ChoiceCases x) := by
  unfold ChoiceCases; rw [everyNode_mk]
  simp only [choiceCasesHere, Entry.d, Entry.dir, Bool.or_eq_true, Bool.not_eq_true', Bool.and_eq_false_iff,
    List.all_eq_true, beq_iff_eq, List.isEmpty_iff]
  constructor
  · rintro ⟨h1, h2⟩
    refine ⟨fun hk he => ?_, h2⟩
    rcases h1 with (h | h) | h
    · rw [hk] at h; simp at h
    · rw [he] at h; simp at h
    · exact h
  · rintro ⟨h1, h2⟩
    refine ⟨?_, h2⟩
    by_cases hk : d.kind = .choice
    · by_cases he : d.errors = []
      · exact Or.inr (h1 hk he)
      · left; right; simpa using he
    · left; left; simpa using hk

theorem choiceCases_wrapCase (ce : Entry) (h : ChoiceCases ce) : ChoiceCases (wrapCase ce) := by
  unfold wrapCase; split
  · exact h
  · rw [choiceCases_mk]
    refine ⟨fun hk => absurd hk (by simp), ?_, by simp, by simp⟩
    intro x hx; simp only [List.mem_singleton] at hx; subst hx; exact h

/-- After `FixChoice`, every child of every choice node without an error of its own is a case. -/
theorem fixChoice_cases (e : Entry) : ChoiceCases (fixChoice e) := by
  induction e using entry_ind with
  | h d c i o hc hi ho =>
    rw [fixChoice_eq, choiceCases_mk]
    refine ⟨?_, ?_, ?_, ?_⟩
    · intro hk he x hx
      simp only [hk, he, beq_self_eq_true, List.isEmpty_nil, Bool.and_self, if_true, List.mem_map] at hx
      obtain ⟨y, _, rfl⟩ := hx
      exact wrapCase_kind y
    · intro x hx
      split at hx
      · simp only [List.mem_map] at hx
        obtain ⟨y, ⟨z, hz, rfl⟩, rfl⟩ := hx
        exact choiceCases_wrapCase _ (hc z hz)
      · simp only [List.mem_map] at hx
        obtain ⟨z, hz, rfl⟩ := hx
        exact hc z hz
    · intro x hx
      simp only [List.mem_map] at hx
      obtain ⟨z, hz, rfl⟩ := hx
      exact hi z hz
    · intro x hx
      simp only [List.mem_map] at hx
      obtain ⟨z, hz, rfl⟩ := hx
      exact ho z hz

theorem wrapCase_of_case (x : Entry) (h : x.d.kind = .case_) : wrapCase x = x := by
  unfold wrapCase; simp [h]

theorem fixChoice_kind (e : Entry) : (fixChoice e).d.kind = e.d.kind := by rw [fixChoice_d]

theorem fixChoice_wrapCase (x : Entry) (h : fixChoice x = x) : fixChoice (wrapCase x) = wrapCase x := by
  unfold wrapCase; split
  · exact h
  · rw [fixChoice_eq]
    simp [h]

/-- `FixChoice` is idempotent. -/
theorem fixChoice_idem (e : Entry) : fixChoice (fixChoice e) = fixChoice e := by
  induction e using entry_ind with
  | h d c i o hc hi ho =>
    rw [fixChoice_eq]
    rw [fixChoice_eq]
    congr 1
    · by_cases hg : (d.kind == Kind.choice && d.errors.isEmpty) = true
      · simp only [hg, if_true, List.map_map]
        apply List.map_congr_left
        intro x hx
        simp only [Function.comp]
        rw [fixChoice_wrapCase _ (hc x hx)]
        exact wrapCase_of_case _ (wrapCase_kind _)
      · simp only [hg, if_false, List.map_map, Bool.false_eq_true]
        apply List.map_congr_left
        intro x hx
        exact hc x hx
    · simp only [List.map_map]
      apply List.map_congr_left
      intro x hx; exact hi x hx
    · simp only [List.map_map]
      apply List.map_congr_left
      intro x hx; exact ho x hx

/-! ### updating the one node a path leads to -/

/-- No step of the path goes to a child with the empty name (`walkParts` never makes one). -/
def PathOK (p : Path) : Prop := ∀ k, Step.child k ∈ p → k ≠ ""

theorem PathOK.tail {s : Step} {p : Path} (h : PathOK (s :: p)) : PathOK p := fun k hk => h k (by simp [hk])

theorem names1_split (pre post : List Entry) (y : Entry) (hy : y.name ≠ "") :
    names1 (pre ++ y :: post) = names1 pre ++ y.name :: names1 post := by
  unfold names1
  simp [List.filter_cons, hy]

/-- Under `U`, the child a non-empty name leads to is the only child of that name. -/
theorem child_split (c : List Entry) (k : String) (y : Entry) (hk : k ≠ "") (hu : (names1 c).Nodup)
    (hf : c.find? (fun x => x.name == k) = some y) :
    ∃ pre post, c = pre ++ y :: post ∧ y.name = k ∧ (∀ x ∈ pre, (x.name == k) = false) ∧
      (∀ x ∈ post, (x.name == k) = false) := by
  obtain ⟨hyk, pre, post, hc, hpre⟩ := List.find?_eq_some_iff_append.mp hf
  have hyk' : y.name = k := by simpa using hyk
  refine ⟨pre, post, hc, hyk', ?_, ?_⟩
  · intro x hx; simpa using hpre x hx
  · intro x hx
    rw [hc, names1_split pre post y (by rw [hyk']; exact hk)] at hu
    have := (List.nodup_append.mp hu).2.1
    have hnot : y.name ∉ names1 post := (List.nodup_cons.mp this).1
    cases hxk : (x.name == k) with
    | false => rfl
    | true =>
      exfalso
      apply hnot
      have hxk' : x.name = k := by simpa using hxk
      simp only [names1, List.mem_filter, List.mem_map]
      exact ⟨⟨x, hx, by rw [hxk', hyk']⟩, by simpa [hyk'] using hk⟩

theorem map_if_split (pre post : List Entry) (y : Entry) (k : String) (g : Entry → Entry)
    (hpre : ∀ x ∈ pre, (x.name == k) = false) (hpost : ∀ x ∈ post, (x.name == k) = false) (hy : y.name = k) :
    (pre ++ y :: post).map (fun x => if x.name == k then g x else x) = pre ++ g y :: post := by
  simp only [List.map_append, List.map_cons]
  have h1 : pre.map (fun x => if x.name == k then g x else x) = pre := by
    conv => rhs; rw [← List.map_id pre]
    apply List.map_congr_left
    intro x hx; simp [hpre x hx]
  have h2 : post.map (fun x => if x.name == k then g x else x) = post := by
    conv => rhs; rw [← List.map_id post]
    apply List.map_congr_left
    intro x hx; simp [hpost x hx]
  rw [h1, h2]; simp [hy]

/-- The shape of an update through a `Dir` step. -/
theorem updateAt_child (d : EData) (c i o : List Entry) (k : String) (p : Path) (f : Entry → Entry) (e : Entry)
    (hu : U (.mk d c i o)) (hk : k ≠ "") (hg : (Entry.mk d c i o).getAt (.child k :: p) = some e) :
    ∃ pre y post, c = pre ++ y :: post ∧ y.name = k ∧ y.getAt p = some e ∧
      (∀ x ∈ pre, (x.name == k) = false) ∧ (∀ x ∈ post, (x.name == k) = false) ∧
      (Entry.mk d c i o).updateAt (.child k :: p) f = .mk d (pre ++ y.updateAt p f :: post) i o := by
  simp only [Entry.getAt, Entry.child?, Entry.dir] at hg
  cases hf : c.find? (fun x => x.name == k) with
  | none => simp [hf] at hg
  | some y =>
    simp only [hf, Option.bind_some] at hg
    obtain ⟨pre, post, hc, hy, hpre, hpost⟩ := child_split c k y hk ((U_mk _ _ _ _).1 hu).1.1 hf
    refine ⟨pre, y, post, hc, hy, hg, hpre, hpost, ?_⟩
    simp only [Entry.updateAt]
    rw [hc, map_if_split pre post y k _ hpre hpost hy]

theorem updateAt_input (d : EData) (c i o : List Entry) (p : Path) (f : Entry → Entry) (e : Entry)
    (hu : U (.mk d c i o)) (hg : (Entry.mk d c i o).getAt (.input :: p) = some e) :
    ∃ y, i = [y] ∧ y.getAt p = some e ∧
      (Entry.mk d c i o).updateAt (.input :: p) f = .mk d c [y.updateAt p f] o := by
  simp only [Entry.getAt, Entry.inp] at hg
  have hlen := ((U_mk _ _ _ _).1 hu).1.2.1
  match i, hg, hlen with
  | [y], hg, _ =>
    simp only [List.head?_cons, Option.bind_some] at hg
    exact ⟨y, rfl, hg, by simp [Entry.updateAt]⟩
  | [], hg, _ => simp at hg
  | _ :: _ :: _, _, hlen => simp at hlen

theorem updateAt_output (d : EData) (c i o : List Entry) (p : Path) (f : Entry → Entry) (e : Entry)
    (hu : U (.mk d c i o)) (hg : (Entry.mk d c i o).getAt (.output :: p) = some e) :
    ∃ y, o = [y] ∧ y.getAt p = some e ∧
      (Entry.mk d c i o).updateAt (.output :: p) f = .mk d c i [y.updateAt p f] := by
  simp only [Entry.getAt, Entry.out] at hg
  have hlen := ((U_mk _ _ _ _).1 hu).1.2.2
  match o, hg, hlen with
  | [y], hg, _ =>
    simp only [List.head?_cons, Option.bind_some] at hg
    exact ⟨y, rfl, hg, by simp [Entry.updateAt]⟩
  | [], hg, _ => simp at hg
  | _ :: _ :: _, _, hlen => simp at hlen


/-- Induction along the path to the one node that is updated. -/
theorem updateAt_unique_ind (R : Entry → Entry → Prop) (f : Entry → Entry) (e : Entry) (hbase : R e (f e))
    (hchild : ∀ d pre y post i o y', U (.mk d (pre ++ y :: post) i o) → R y y' →
      R (.mk d (pre ++ y :: post) i o) (.mk d (pre ++ y' :: post) i o))
    (hinp : ∀ d c y o y', U (.mk d c [y] o) → R y y' → R (.mk d c [y] o) (.mk d c [y'] o))
    (hout : ∀ d c i y y', U (.mk d c i [y]) → R y y' → R (.mk d c i [y]) (.mk d c i [y'])) :
    ∀ (p : Path) (root : Entry), U root → PathOK p → root.getAt p = some e → R root (root.updateAt p f) := by
  intro p
  induction p with
  | nil =>
    intro root _ _ hg
    simp only [Entry.getAt, Option.some.injEq] at hg
    subst hg; exact hbase
  | cons s p ih =>
    intro root hu hp hg
    cases root with | mk d c i o =>
    cases s with
    | child k =>
      obtain ⟨pre, y, post, hc, hy, hgy, _, _, hupd⟩ := updateAt_child d c i o k p f e hu (hp k (by simp)) hg
      rw [hupd]
      subst hc
      have huy : U y := ((U_mk _ _ _ _).1 hu).2.1 y (by simp)
      exact hchild d pre y post i o _ hu (ih y huy hp.tail hgy)
    | input =>
      obtain ⟨y, hi, hgy, hupd⟩ := updateAt_input d c i o p f e hu hg
      rw [hupd]; subst hi
      have huy : U y := ((U_mk _ _ _ _).1 hu).2.2.1 y (by simp)
      exact hinp d c y o _ hu (ih y huy hp.tail hgy)
    | output =>
      obtain ⟨y, ho, hgy, hupd⟩ := updateAt_output d c i o p f e hu hg
      rw [hupd]; subst ho
      have huy : U y := ((U_mk _ _ _ _).1 hu).2.2.2 y (by simp)
      exact hout d c i y _ hu (ih y huy hp.tail hgy)

theorem hdr_map_replace (pre post : List Entry) (y y' : Entry) (h : hdr y' = hdr y) :
    (pre ++ y' :: post).map hdr = (pre ++ y :: post).map hdr := by simp [h]

/-- `U` survives an update of the node at `p` that keeps the node's name. -/
theorem U_updateAt (f : Entry → Entry) (e : Entry) (hf : U (f e)) (hn : (f e).name = e.name)
    (p : Path) (root : Entry) (hu : U root) (hp : PathOK p) (hg : root.getAt p = some e) : U (root.updateAt p f) := by
  have := updateAt_unique_ind (fun a b => U b ∧ b.name = a.name) f e ⟨hf, hn⟩ ?_ ?_ ?_ p root hu hp hg
  · exact this.1
  · intro d pre y post i o y' hu' ⟨h1, h2⟩
    refine ⟨?_, rfl⟩
    rw [U_mk] at hu' ⊢
    refine ⟨⟨?_, hu'.1.2⟩, ?_, hu'.2.2⟩
    · have : names1 (pre ++ y' :: post) = names1 (pre ++ y :: post) := by
        unfold names1; simp [h2]
      rw [this]; exact hu'.1.1
    · intro x hx
      rcases List.mem_append.mp hx with hx | hx
      · exact hu'.2.1 x (by simp [hx])
      · rcases List.mem_cons.mp hx with hx | hx
        · subst hx; exact h1
        · exact hu'.2.1 x (by simp [hx])
  · intro d c y o y' hu' ⟨h1, _⟩
    refine ⟨?_, rfl⟩
    rw [U_mk] at hu' ⊢
    exact ⟨⟨hu'.1.1, by simp, hu'.1.2.2⟩, hu'.2.1, by simpa using h1, hu'.2.2.2⟩
  · intro d c i y y' hu' ⟨h1, _⟩
    refine ⟨?_, rfl⟩
    rw [U_mk] at hu' ⊢
    exact ⟨⟨hu'.1.1, hu'.1.2.1, by simp⟩, hu'.2.1, hu'.2.2.1, by simpa using h1⟩

/-- If the updated tree carries no error and that says the old node carried none, the old tree carried none. -/
theorem noErrors_of_updateAt (f : Entry → Entry) (e : Entry) (hf : NoErrors (f e) → NoErrors e)
    (p : Path) (root : Entry) (hu : U root) (hp : PathOK p) (hg : root.getAt p = some e)
    (h : NoErrors (root.updateAt p f)) : NoErrors root ∧ NoErrors (f e) := by
  have := updateAt_unique_ind (fun a b => NoErrors b → NoErrors a ∧ NoErrors (f e)) f e (fun h => ⟨hf h, h⟩)
    ?_ ?_ ?_ p root hu hp hg
  · exact this h
  · intro d pre y post i o y' _ hr hn
    rw [noErrors_mk] at hn
    have hy := hr (hn.2.1 y' (by simp))
    refine ⟨?_, hy.2⟩
    rw [noErrors_mk]
    refine ⟨hn.1, ?_, hn.2.2⟩
    intro x hx
    rcases List.mem_append.mp hx with hx | hx
    · exact hn.2.1 x (by simp [hx])
    · rcases List.mem_cons.mp hx with hx | hx
      · subst hx; exact hy.1
      · exact hn.2.1 x (by simp [hx])
  · intro d c y o y' _ hr hn
    rw [noErrors_mk] at hn
    have hy := hr (hn.2.2.1 y' (by simp))
    exact ⟨(noErrors_mk _ _ _ _).2 ⟨hn.1, hn.2.1, by simpa using hy.1, hn.2.2.2⟩, hy.2⟩
  · intro d c i y y' _ hr hn
    rw [noErrors_mk] at hn
    have hy := hr (hn.2.2.2 y' (by simp))
    exact ⟨(noErrors_mk _ _ _ _).2 ⟨hn.1, hn.2.1, hn.2.2.1, by simpa using hy.1⟩, hy.2⟩

/-- A local predicate that reads the children's names and kinds only survives an update of the
node at `p` that keeps the node's name and kind. -/
theorem everyNode_updateAt (q : Entry → Bool)
    (hq : ∀ d c i o c' i' o', c.map hdr = c'.map hdr → i.map hdr = i'.map hdr → o.map hdr = o'.map hdr →
      q (.mk d c i o) = q (.mk d c' i' o'))
    (f : Entry → Entry) (e : Entry) (hf : everyNode q e = true → everyNode q (f e) = true) (hh : hdr (f e) = hdr e)
    (p : Path) (root : Entry) (hu : U root) (hp : PathOK p) (hg : root.getAt p = some e)
    (h : everyNode q root = true) : everyNode q (root.updateAt p f) = true := by
  have := updateAt_unique_ind (fun a b => everyNode q a = true → everyNode q b = true ∧ hdr b = hdr a) f e
    (fun h => ⟨hf h, hh⟩) ?_ ?_ ?_ p root hu hp hg
  · exact (this h).1
  · intro d pre y post i o y' _ hr hn
    rw [everyNode_mk] at hn
    have hy := hr (hn.2.1 y (by simp))
    refine ⟨?_, rfl⟩
    rw [everyNode_mk]
    refine ⟨?_, ?_, hn.2.2⟩
    · rw [hq d _ i o (pre ++ y :: post) i o (hdr_map_replace pre post y y' hy.2) rfl rfl]; exact hn.1
    · intro x hx
      rcases List.mem_append.mp hx with hx | hx
      · exact hn.2.1 x (by simp [hx])
      · rcases List.mem_cons.mp hx with hx | hx
        · subst hx; exact hy.1
        · exact hn.2.1 x (by simp [hx])
  · intro d c y o y' _ hr hn
    rw [everyNode_mk] at hn
    have hy := hr (hn.2.2.1 y (by simp))
    refine ⟨?_, rfl⟩
    rw [everyNode_mk]
    refine ⟨?_, hn.2.1, by simpa using hy.1, hn.2.2.2⟩
    rw [hq d c [y'] o c [y] o rfl (by simp [hy.2]) rfl]; exact hn.1
  · intro d c i y y' _ hr hn
    rw [everyNode_mk] at hn
    have hy := hr (hn.2.2.2 y (by simp))
    refine ⟨?_, rfl⟩
    rw [everyNode_mk]
    refine ⟨?_, hn.2.1, hn.2.2.1, by simpa using hy.1⟩
    rw [hq d c i [y'] c i [y] rfl rfl (by simp [hy.2])]; exact hn.1

/-- The conditional invariant survives an update of the node at `p`. -/
theorem cond_updateAt (q : Entry → Bool)
    (hq : ∀ d c i o c' i' o', c.map hdr = c'.map hdr → i.map hdr = i'.map hdr → o.map hdr = o'.map hdr →
      q (.mk d c i o) = q (.mk d c' i' o'))
    (f : Entry → Entry) (e : Entry) (hne : NoErrors (f e) → NoErrors e)
    (hf : NoErrors (f e) → everyNode q e = true → everyNode q (f e) = true) (hh : hdr (f e) = hdr e)
    (p : Path) (root : Entry) (hu : U root) (hp : PathOK p) (hg : root.getAt p = some e)
    (h : Cond q root) : Cond q (root.updateAt p f) := by
  intro hn
  obtain ⟨h1, h2⟩ := noErrors_of_updateAt f e hne p root hu hp hg hn
  exact everyNode_updateAt q hq f e (hf h2) hh p root hu hp hg (h h1)

theorem pathOK_nil : PathOK [] := fun k h => absurd h (by simp)
theorem pathOK_append_input (p : Path) (h : PathOK p) : PathOK (p ++ [.input]) := by
  intro k hk; simp only [List.mem_append, List.mem_singleton, reduceCtorEq, or_false] at hk; exact h k hk
theorem pathOK_append_output (p : Path) (h : PathOK p) : PathOK (p ++ [.output]) := by
  intro k hk; simp only [List.mem_append, List.mem_singleton, reduceCtorEq, or_false] at hk; exact h k hk
theorem pathOK_append_child (p : Path) (nm : String) (h : PathOK p) (hn : nm ≠ "") : PathOK (p ++ [.child nm]) := by
  intro k hk
  simp only [List.mem_append, List.mem_singleton, Step.child.injEq] at hk
  rcases hk with hk | hk
  · exact h k hk
  · rw [hk]; exact hn
theorem pathOK_dropLast (p : Path) (h : PathOK p) : PathOK p.dropLast :=
  fun k hk => h k (List.dropLast_subset p hk)

/-- `walkParts` with what it knows at each lazy creation: the path is proper, leads to a node, and
that node has no input (output) yet. -/
theorem walkParts_inv2 (P : Entry → Prop)
    (hin : ∀ root p e, P root → PathOK p → root.getAt p = some e → e.inp = [] → P (root.updateAt p setImplicitIn))
    (hout : ∀ root p e, P root → PathOK p → root.getAt p = some e → e.out = [] → P (root.updateAt p setImplicitOut)) :
    ∀ (parts : List String) (root : Entry) (cur : Option Path), P root → (∀ p, cur = some p → PathOK p) →
      P (walkParts parts root cur).2 ∧ (∀ p, (walkParts parts root cur).1 = some p → PathOK p) := by
  intro parts
  induction parts with
  | nil => intro root cur h hc; exact ⟨h, hc⟩
  | cons part rest ih =>
    intro root cur h hc
    unfold walkParts
    dsimp only
    split
    · exact ⟨h, fun p hp => absurd hp (by simp)⟩
    · rename_i p
      have hp : PathOK p := hc p rfl
      split
      · exact ⟨h, fun p hp => absurd hp (by simp)⟩
      · rename_i e he
        split
        · exact ih root _ h (fun q hq => by cases hq; exact hp)
        · split
          · refine ih root _ h (fun q hq => ?_)
            split at hq
            · exact absurd hq (by simp)
            · cases hq; exact pathOK_dropLast p hp
          · split
            · split
              · refine ih _ _ ?_ (fun q hq => by cases hq; exact pathOK_append_input p hp)
                split
                · rename_i hemp
                  exact hin root p e h hp he (by simpa using hemp)
                · exact h
              · split
                · refine ih _ _ ?_ (fun q hq => by cases hq; exact pathOK_append_output p hp)
                  split
                  · rename_i hemp
                    exact hout root p e h hp he (by simpa using hemp)
                  · exact h
                · exact ⟨h, fun p hp => absurd hp (by simp)⟩
            · split
              · exact ih root _ h (fun q hq => by cases hq; exact hp)
              · split
                · exact ⟨h, fun p hp => absurd hp (by simp)⟩
                · rename_i hnm
                  split
                  · refine ih root _ h (fun q hq => ?_)
                    cases hq
                    refine pathOK_append_child p _ hp ?_
                    intro h0; apply hnm; simp [h0]
                  · exact ih root _ h (fun q hq => absurd hq (by simp))

/-! ### the tree invariant of the augment stage -/

/-- Unconditionally `U`; and if error-free, `q` everywhere. -/
def TInv (q : Entry → Bool) (t : Entry) : Prop := U t ∧ Cond q t

theorem U_getAt (p : Path) (root e : Entry) (h : U root) (hg : root.getAt p = some e) : U e :=
  everyNode_getAt _ p root e h hg

theorem U_implicitIO (parent : Entry) (b : Bool) : U (implicitIO parent b) := by
  unfold implicitIO; rw [U_mk]; simp [names1]

theorem find_inv2 (P : Entry → Prop)
    (hw : ∀ parts root cur, P root → (∀ p, cur = some p → PathOK p) →
      P (walkParts parts root cur).2 ∧ ∀ p, (walkParts parts root cur).1 = some p → PathOK p)
    (hadd : ∀ e x, P e → P (e.addErr x))
    (reg : Registry) (f : Forest) (start : Loc) (ctx : Nat) (name : String) (hf : ForestAll P f)
    (hs : PathOK start.2) :
    ForestAll P (find reg f start ctx name).2 ∧
      ∀ t path, (find reg f start ctx name).1 = some (t, path) → PathOK path := by
  unfold find
  dsimp only
  repeat' split
  all_goals first
    | exact ⟨hf, fun t path h => absurd h (by simp)⟩
    | (rename_i heq
       exact ⟨forestAll_setTree _ _ _ hf (hadd _ _ (forestAll_tree? _ _ _ hf heq)), fun t path h => absurd h (by simp)⟩)
    | (rename_i heq
       have hroot := forestAll_tree? _ _ _ hf heq
       have hside : ∀ (c : Path), (c = [] ∨ c = start.2) → ∀ p, some c = some p → PathOK p := by
         intro c hc p hp; cases hp; rcases hc with rfl | rfl
         · exact pathOK_nil
         · exact hs
       refine ⟨forestAll_setTree _ _ _ hf (hw _ _ _ hroot (hside _ (by first | exact Or.inl rfl | exact Or.inr rfl))).1, ?_⟩
       intro t path h
       simp only [Option.map_eq_some_iff, Prod.mk.injEq] at h
       obtain ⟨a, ha, _, rfl⟩ := h
       exact (hw _ _ _ hroot (hside _ (by first | exact Or.inl rfl | exact Or.inr rfl))).2 a ha)

section TInvLemmas
variable {env : Env} {q : Entry → Bool} (hq : LocalOK env q)
include hq

theorem everyNode_implicitIO (parent : Entry) (b : Bool) : everyNode q (implicitIO parent b) = true := by
  unfold implicitIO
  rw [everyNode_mk]
  refine ⟨hq.base _ rfl ?_ (fun h => absurd h (by simp)) rfl, by simp, by simp, by simp⟩
  cases b <;> simp

theorem tinv_setImplicitIn (root : Entry) (p : Path) (e : Entry) (h : TInv q root) (hp : PathOK p)
    (hg : root.getAt p = some e) (hi : e.inp = []) : TInv q (root.updateAt p setImplicitIn) := by
  have hue := U_getAt p root e h.1 hg
  cases e with | mk d c i o =>
  simp only [Entry.inp] at hi; subst hi
  refine ⟨U_updateAt setImplicitIn _ ?_ rfl p root h.1 hp hg, ?_⟩
  · rw [U_mk] at hue
    simp only [setImplicitIn]
    rw [U_mk]
    refine ⟨⟨hue.1.1, by simp, hue.1.2.2⟩, hue.2.1, ?_, hue.2.2.2⟩
    intro x hx; simp only [List.mem_singleton] at hx; subst hx; exact U_implicitIO _ _
  · refine cond_updateAt q hq.hdr setImplicitIn _ ?_ ?_ rfl p root h.1 hp hg h.2
    · intro hn
      simp only [setImplicitIn] at hn
      rw [noErrors_mk] at hn ⊢
      exact ⟨hn.1, hn.2.1, by simp, hn.2.2.2⟩
    · intro _ he
      simp only [setImplicitIn]
      rw [everyNode_mk] at he ⊢
      refine ⟨hq.setInp _ _ _ _ he.1 rfl, he.2.1, ?_, he.2.2.2⟩
      intro x hx; simp only [List.mem_singleton] at hx; subst hx; exact everyNode_implicitIO hq _ _

theorem tinv_setImplicitOut (root : Entry) (p : Path) (e : Entry) (h : TInv q root) (hp : PathOK p)
    (hg : root.getAt p = some e) (ho : e.out = []) : TInv q (root.updateAt p setImplicitOut) := by
  have hue := U_getAt p root e h.1 hg
  cases e with | mk d c i o =>
  simp only [Entry.out] at ho; subst ho
  refine ⟨U_updateAt setImplicitOut _ ?_ rfl p root h.1 hp hg, ?_⟩
  · rw [U_mk] at hue
    simp only [setImplicitOut]
    rw [U_mk]
    refine ⟨⟨hue.1.1, hue.1.2.1, by simp⟩, hue.2.1, hue.2.2.1, ?_⟩
    intro x hx; simp only [List.mem_singleton] at hx; subst hx; exact U_implicitIO _ _
  · refine cond_updateAt q hq.hdr setImplicitOut _ ?_ ?_ rfl p root h.1 hp hg h.2
    · intro hn
      simp only [setImplicitOut] at hn
      rw [noErrors_mk] at hn ⊢
      exact ⟨hn.1, hn.2.1, hn.2.2.1, by simp⟩
    · intro _ he
      simp only [setImplicitOut]
      rw [everyNode_mk] at he ⊢
      refine ⟨hq.setOut _ _ _ _ he.1 rfl, he.2.1, he.2.2.1, ?_⟩
      intro x hx; simp only [List.mem_singleton] at hx; subst hx; exact everyNode_implicitIO hq _ _

theorem tinv_walkParts (parts : List String) (root : Entry) (cur : Option Path) (h : TInv q root)
    (hc : ∀ p, cur = some p → PathOK p) :
    TInv q (walkParts parts root cur).2 ∧ ∀ p, (walkParts parts root cur).1 = some p → PathOK p :=
  walkParts_inv2 (TInv q) (fun root p e h hp hg hi => tinv_setImplicitIn hq root p e h hp hg hi)
    (fun root p e h hp hg ho => tinv_setImplicitOut hq root p e h hp hg ho) parts root cur h hc

theorem tinv_addErr (e : Entry) (x : Err) (h : TInv q e) : TInv q (e.addErr x) :=
  ⟨(U_withD _ _).2 h.1, cond_addErr hq _ _ h.2⟩

theorem tinv_find (reg : Registry) (f : Forest) (start : Loc) (ctx : Nat) (name : String)
    (hf : ForestAll (TInv q) f) (hs : PathOK start.2) :
    ForestAll (TInv q) (find reg f start ctx name).2 ∧
      ∀ t path, (find reg f start ctx name).1 = some (t, path) → PathOK path :=
  find_inv2 (TInv q) (fun parts root cur h hc => tinv_walkParts hq parts root cur h hc)
    (fun e x h => tinv_addErr hq e x h) reg f start ctx name hf hs

end TInvLemmas

theorem merge_shape (e : Entry) (ns : Option String) (oe : Entry) :
    (∀ y ∈ e.dir, y ∈ (e.merge ns oe).dir) ∧ (e.merge ns oe).inp = e.inp ∧ (e.merge ns oe).out = e.out := by
  unfold Entry.merge
  refine foldl_inv (fun x : Entry => (∀ y ∈ e.dir, y ∈ x.dir) ∧ x.inp = e.inp ∧ x.out = e.out) _ _ _ ?_ ?_
  · cases e with | mk d c i o =>
    simp [Entry.importErrors, Entry.addErrs, Entry.withD, Entry.dir, Entry.inp, Entry.out]
  · rintro b a _ ⟨h1, h2, h3⟩
    dsimp only
    split
    · cases b with | mk d c i o => exact ⟨h1, h2, h3⟩
    · cases b with | mk d c i o =>
      simp only [Entry.dir, Entry.inp, Entry.out, Entry.withDir] at h1 h2 h3 ⊢
      exact ⟨fun y hy => List.mem_append.mpr (Or.inl (h1 y hy)), h2, h3⟩

theorem noErrors_merge_left (e : Entry) (ns : Option String) (oe : Entry) (h : NoErrors (e.merge ns oe)) : NoErrors e := by
  obtain ⟨h1, h2, h3⟩ := merge_shape e ns oe
  obtain ⟨xs, hxs⟩ := merge_root_errors e ns oe
  generalize e.merge ns oe = r at h h1 h2 h3 hxs
  cases r with | mk d' c' i' o' =>
  cases e with | mk d c i o =>
  simp only [Entry.dir, Entry.inp, Entry.out, Entry.d] at h1 h2 h3 hxs
  subst h2 h3
  rw [noErrors_mk] at h ⊢
  refine ⟨?_, fun x hx => h.2.1 x (h1 x hx), h.2.2⟩
  have := h.1; rw [hxs] at this
  simp only [List.append_eq_nil_iff] at this
  exact this.1.1

theorem pendingOf_mem (s : PState) (id : Nat) (a : Entry) (h : a ∈ s.pendingOf id) : ∃ p ∈ s.pending, a ∈ p.2 := by
  unfold PState.pendingOf at h
  cases hf : s.pending.find? (·.1 == id) with
  | none => simp [hf] at h
  | some p =>
    simp only [hf, Option.map_some, Option.getD_some] at h
    exact ⟨p, List.mem_of_find?_eq_some hf, h⟩

section AugInv
variable {env : Env} {q : Entry → Bool} (hq : LocalOK env q)
include hq

/-- Merging an augment into the node a proper path leads to. -/
theorem tinv_merge_at (root : Entry) (path : Path) (te a : Entry) (ns : Option String) (h : TInv q root)
    (hp : PathOK path) (hg : root.getAt path = some te) (ha : TInv q a) :
    TInv q (root.updateAt path fun te => te.merge ns a) := by
  have hute := U_getAt path root te h.1 hg
  refine ⟨U_updateAt (fun te => te.merge ns a) te (U_merge te ns a hute ha.1) (rootKeep_merge te ns a).1 path root h.1 hp hg, ?_⟩
  refine cond_updateAt q hq.hdr _ te (noErrors_merge_left te ns a) ?_ ?_ path root h.1 hp hg h.2
  · intro hn hte
    exact cond_merge hq te ns a (fun _ => hte) ha.2 hn
  · have := rootKeep_merge te ns a
    exact Prod.ext this.1 this.2.1

end AugInv

/-! ### the augment stage keeps any tree invariant that its three operations keep -/

/-- What the augment stage needs of a tree invariant `P` (and of an invariant `PA` of pending augments). -/
structure AugClosed (P PA : Entry → Prop) : Prop where
  find : ∀ (reg : Registry) (f : Forest) (start : Loc) (ctx : Nat) (name : String), ForestAll P f → PathOK start.2 →
    ForestAll P (find reg f start ctx name).2 ∧ ∀ t path, (find reg f start ctx name).1 = some (t, path) → PathOK path
  addErr : ∀ (e : Entry) (x : Err), P e → P (e.addErr x)
  mergeAt : ∀ (root : Entry) (path : Path) (te a : Entry) (ns : Option String), P root → PathOK path →
    root.getAt path = some te → PA a → P (root.updateAt path fun te => te.merge ns a)

/-- The state invariant of the augment stage. -/
structure AInv (P PA : Entry → Prop) (s : PState) : Prop where
  trees : ForestAll P s.forest
  pend : ∀ p ∈ s.pending, ∀ a ∈ p.2, PA a

section AugGeneric
variable {P PA : Entry → Prop} (hA : AugClosed P PA)
include hA

theorem augFail_inv (id : Nat) (addErrors : Bool) (a : Entry) (s : PState) (un : List Entry) (p k : Nat)
    (hf : ForestAll P s.forest) : ForestAll P (augFail id addErrors a s un p k).1.forest := by
  unfold augFail
  dsimp only
  split
  · split
    · rename_i root hroot
      exact forestAll_setTree _ _ _ hf (hA.addErr _ _ (forestAll_tree? _ _ _ hf hroot))
    · exact hf
  · exact hf

theorem augStep_inv (reg : Registry) (id : Nat) (addErrors : Bool) (nsOf : String)
    (acc : PState × List Entry × Nat × Nat) (a : Entry) (hf : ForestAll P acc.1.forest) (ha : PA a) :
    ForestAll P (augStep reg id addErrors nsOf acc a).1.forest := by
  obtain ⟨s, un, p, k⟩ := acc
  dsimp only at hf
  have hfind := hA.find reg s.forest (id, []) a.d.nodeMod a.d.name hf pathOK_nil
  unfold augStep
  dsimp only
  generalize find reg s.forest (id, []) a.d.nodeMod a.d.name = r at hfind
  obtain ⟨target, forest⟩ := r
  dsimp only at hfind ⊢
  have fail := augFail_inv hA id addErrors a { s with forest := forest } un p k hfind.1
  split
  · exact fail
  · rename_i t path
    have hpath : PathOK path := hfind.2 t path rfl
    split
    · exact fail
    · rename_i te hte
      split
      · exact fail
      · split
        · exact fail
        · rename_i root hroot
          dsimp only at hroot hte ⊢
          simp only [hroot, Option.bind_some] at hte
          exact forestAll_setTree _ _ _ hfind.1
            (hA.mergeAt root path te a (some nsOf) (forestAll_tree? _ _ _ hfind.1 hroot) hpath hte ha)

theorem augmentTree_ainv (reg : Registry) (id : Nat) (addErrors : Bool) (s : PState) (h : AInv P PA s) :
    AInv P PA (augmentTree reg id addErrors s).1 := by
  obtain ⟨un, _, hp, hsub, _, _, _⟩ := augmentTree_ok reg id addErrors s
  refine ⟨?_, ?_⟩
  · rw [augmentTree_eq]
    dsimp only
    refine foldl_inv (fun acc : PState × List Entry × Nat × Nat => ForestAll P acc.1.forest) _ _ _ h.trees ?_
    intro acc a ha hacc
    obtain ⟨p, hp, hap⟩ := pendingOf_mem s id a ha
    exact augStep_inv hA reg id addErrors _ acc a hacc (h.pend p hp a hap)
  · rw [hp]
    intro p hp' a ha
    simp only [List.mem_map] at hp'
    obtain ⟨ip, hip, rfl⟩ := hp'
    split at ha
    · obtain ⟨p0, hp0, h0⟩ := pendingOf_mem s id a (hsub a ha)
      exact h.pend p0 hp0 a h0
    · exact h.pend ip hip a ha

theorem augmentPass_ainv (reg : Registry) : ∀ (fuel : Nat) (mods : Array Nat) (i processed : Nat) (s : PState),
    AInv P PA s → AInv P PA (augmentPass reg fuel mods i processed s).2.2 := by
  intro fuel
  induction fuel with
  | zero => intro mods i processed s h; exact h
  | succ fuel ih =>
    intro mods i processed s h
    unfold augmentPass
    split
    · have := augmentTree_ainv hA reg mods[i] false s h
      generalize augmentTree reg mods[i] false s = r at this ⊢
      obtain ⟨s', p, k⟩ := r
      dsimp only at this ⊢
      split
      · exact ih _ _ _ _ this
      · exact ih _ _ _ _ this
    · exact h

theorem augmentLoop_ainv (reg : Registry) : ∀ (fuel : Nat) (mods : Array Nat) (s : PState),
    AInv P PA s → AInv P PA (augmentLoop reg fuel mods s).2 := by
  intro fuel
  induction fuel with
  | zero => intro mods s h; exact h
  | succ fuel ih =>
    intro mods s h
    unfold augmentLoop
    split
    · exact h
    · have := augmentPass_ainv hA reg (mods.size + 1) mods 0 0 s h
      generalize augmentPass reg (mods.size + 1) mods 0 0 s = r at this ⊢
      obtain ⟨mods', processed, s'⟩ := r
      dsimp only at this ⊢
      split
      · exact this
      · exact ih _ _ this

theorem leftover_ainv (reg : Registry) (left : Array Nat) (s : PState) (h : AInv P PA s) :
    AInv P PA (left.foldl (fun (acc : PState × Nat) id =>
      let (s, p, _) := augmentTree reg id true acc.1
      (s, acc.2 + p)) (s, 0)).1 := by
  rw [← Array.foldl_toList]
  refine foldl_inv (fun acc : PState × Nat => AInv P PA acc.1) _ _ _ h ?_
  rintro ⟨s, cnt⟩ id _ hs
  have := augmentTree_ainv hA reg id true s hs
  generalize augmentTree reg id true s = r at this ⊢
  obtain ⟨s', p, k⟩ := r
  exact this

end AugGeneric

/-! ### the entry-layer predicate, with or without the type clause -/

def wfqB (tp : Bool) (e : Entry) : Bool := wfq e && (!tp || typePresentHere e)

theorem localOK_wfqB (env : Env) (tp : Bool) (ht : tp = true → TypeResTotal env.tres) : LocalOK env (wfqB tp) := by
  cases tp with
  | false =>
    have : wfqB false = wfq := by funext e; simp [wfqB]
    rw [this]; exact localOK_wfq env
  | true =>
    have : wfqB true = wfqT := by funext e; simp [wfqB, wfqT]
    rw [this]; exact localOK_wfqT env (ht rfl)

theorem wfqB_iff (tp : Bool) (d : EData) (c i o : List Entry) : wfqB tp (.mk d c i o) = true ↔
    ((c.map (·.name)).Nodup ∧ i.length ≤ 1 ∧ o.length ≤ 1) ∧ kindsWeakHere (.mk d [] [] []) = true ∧
    ((∀ x ∈ c, x.d.kind ≠ .deviate) ∧ (∀ x ∈ i, x.d.kind ≠ .deviate) ∧ (∀ x ∈ o, x.d.kind ≠ .deviate)) ∧
    (tp = true → typePresentHere (.mk d [] [] []) = true) := by
  simp only [wfqB, wfq, Bool.and_eq_true, keysUniqueHere_iff, ndHere_iff, Bool.or_eq_true, Bool.not_eq_true']
  have h1 : kindsWeakHere (.mk d c i o) = kindsWeakHere (.mk d [] [] []) := rfl
  have h2 : typePresentHere (.mk d c i o) = typePresentHere (.mk d [] [] []) := rfl
  rw [h1, h2]
  constructor
  · rintro ⟨⟨⟨a, b⟩, c⟩, e⟩
    refine ⟨a, b, c, ?_⟩
    intro htp; rcases e with e | e
    · rw [htp] at e; exact absurd e (by simp)
    · exact e
  · rintro ⟨a, b, c, e⟩
    refine ⟨⟨⟨a, b⟩, c⟩, ?_⟩
    cases tp with
    | false => exact Or.inl rfl
    | true => exact Or.inr (e rfl)

/-! ### `fixChoice` and the invariants -/

theorem noErrors_fixChoice (e : Entry) : NoErrors (fixChoice e) ↔ NoErrors e := by
  induction e using entry_ind with
  | h d c i o hc hi ho =>
    rw [fixChoice_eq, noErrors_mk, noErrors_mk]
    have hwrap : ∀ x, NoErrors (wrapCase x) ↔ NoErrors x := by
      intro x; unfold wrapCase; split
      · rfl
      · rw [noErrors_mk]; simp
    constructor
    · rintro ⟨h1, h2, h3, h4⟩
      refine ⟨h1, ?_, ?_, ?_⟩
      · intro x hx
        apply (hc x hx).1
        split at h2
        · exact (hwrap _).1 (h2 _ (List.mem_map.mpr ⟨_, List.mem_map.mpr ⟨x, hx, rfl⟩, rfl⟩))
        · exact h2 _ (List.mem_map.mpr ⟨x, hx, rfl⟩)
      · intro x hx; exact (hi x hx).1 (h3 _ (List.mem_map.mpr ⟨x, hx, rfl⟩))
      · intro x hx; exact (ho x hx).1 (h4 _ (List.mem_map.mpr ⟨x, hx, rfl⟩))
    · rintro ⟨h1, h2, h3, h4⟩
      refine ⟨h1, ?_, ?_, ?_⟩
      · intro x hx
        split at hx
        · simp only [List.mem_map] at hx
          obtain ⟨y, ⟨z, hz, rfl⟩, rfl⟩ := hx
          exact (hwrap _).2 ((hc z hz).2 (h2 z hz))
        · simp only [List.mem_map] at hx
          obtain ⟨z, hz, rfl⟩ := hx
          exact (hc z hz).2 (h2 z hz)
      · intro x hx
        simp only [List.mem_map] at hx
        obtain ⟨z, hz, rfl⟩ := hx
        exact (hi z hz).2 (h3 z hz)
      · intro x hx
        simp only [List.mem_map] at hx
        obtain ⟨z, hz, rfl⟩ := hx
        exact (ho z hz).2 (h4 z hz)

theorem fixChoice_name (e : Entry) : (fixChoice e).name = e.name := by
  unfold Entry.name; rw [fixChoice_d]

theorem names_fix (c : List Entry) (g : Bool) :
    (if g then (c.map fixChoice).map wrapCase else c.map fixChoice).map (·.name) = c.map (·.name) := by
  split
  · simp only [List.map_map]
    apply List.map_congr_left
    intro x _
    simp only [Function.comp, wrapCase_name, fixChoice_name]
  · simp only [List.map_map]
    apply List.map_congr_left
    intro x _
    simp only [Function.comp, fixChoice_name]

theorem U_wrapCase (x : Entry) (h : U x) : U (wrapCase x) := by
  unfold wrapCase; split
  · exact h
  · rw [U_mk]
    refine ⟨⟨?_, by simp, by simp⟩, ?_, by simp, by simp⟩
    · unfold names1
      simp only [List.map_cons, List.map_nil]
      by_cases hx : x.name = "" <;> simp [hx]
    · intro y hy; simp only [List.mem_singleton] at hy; subst hy; exact h

theorem U_fixChoice (e : Entry) (h : U e) : U (fixChoice e) := by
  induction e using entry_ind with
  | h d c i o hc hi ho =>
    rw [fixChoice_eq]
    rw [U_mk] at h ⊢
    refine ⟨⟨?_, by simpa using h.1.2.1, by simpa using h.1.2.2⟩, ?_, ?_, ?_⟩
    · unfold names1 at h ⊢
      rw [names_fix]; exact h.1.1
    · intro x hx
      split at hx
      · simp only [List.mem_map] at hx
        obtain ⟨y, ⟨z, hz, rfl⟩, rfl⟩ := hx
        exact U_wrapCase _ (hc z hz (h.2.1 z hz))
      · simp only [List.mem_map] at hx
        obtain ⟨z, hz, rfl⟩ := hx
        exact hc z hz (h.2.1 z hz)
    · intro x hx
      simp only [List.mem_map] at hx
      obtain ⟨z, hz, rfl⟩ := hx
      exact hi z hz (h.2.2.1 z hz)
    · intro x hx
      simp only [List.mem_map] at hx
      obtain ⟨z, hz, rfl⟩ := hx
      exact ho z hz (h.2.2.2 z hz)

theorem wfqB_wrapCase (tp : Bool) (x : Entry) (hk : x.d.kind ≠ .deviate) (h : everyNode (wfqB tp) x = true) :
    everyNode (wfqB tp) (wrapCase x) = true := by
  unfold wrapCase; split
  · exact h
  · rw [everyNode_mk]
    refine ⟨?_, ?_, by simp, by simp⟩
    · rw [wfqB_iff]
      refine ⟨⟨by simp, by simp, by simp⟩, by simp [kindsWeakHere, Entry.d], ⟨?_, by simp, by simp⟩, ?_⟩
      · intro y hy; simp only [List.mem_singleton] at hy; subst hy; exact hk
      · intro _; simp [typePresentHere, Entry.d]
    · intro y hy; simp only [List.mem_singleton] at hy; subst hy; exact h

theorem wfqB_fixChoice (tp : Bool) (e : Entry) (h : everyNode (wfqB tp) e = true) :
    everyNode (wfqB tp) (fixChoice e) = true := by
  induction e using entry_ind with
  | h d c i o hc hi ho =>
    rw [fixChoice_eq]
    rw [everyNode_mk] at h ⊢
    obtain ⟨h0, h1, h2, h3⟩ := h
    rw [wfqB_iff] at h0
    obtain ⟨⟨k1, k2, k3⟩, kw, ⟨n1, n2, n3⟩, tpc⟩ := h0
    refine ⟨?_, ?_, ?_, ?_⟩
    · rw [wfqB_iff]
      refine ⟨⟨?_, by simpa using k2, by simpa using k3⟩, kw, ⟨?_, ?_, ?_⟩, tpc⟩
      · rw [names_fix]; exact k1
      · intro x hx
        split at hx
        · simp only [List.mem_map] at hx
          obtain ⟨y, _, rfl⟩ := hx
          rw [wrapCase_kind]; decide
        · simp only [List.mem_map] at hx
          obtain ⟨z, hz, rfl⟩ := hx
          rw [fixChoice_kind]; exact n1 z hz
      · intro x hx
        simp only [List.mem_map] at hx
        obtain ⟨z, hz, rfl⟩ := hx
        rw [fixChoice_kind]; exact n2 z hz
      · intro x hx
        simp only [List.mem_map] at hx
        obtain ⟨z, hz, rfl⟩ := hx
        rw [fixChoice_kind]; exact n3 z hz
    · intro x hx
      split at hx
      · simp only [List.mem_map] at hx
        obtain ⟨y, ⟨z, hz, rfl⟩, rfl⟩ := hx
        exact wfqB_wrapCase tp _ (by rw [fixChoice_kind]; exact n1 z hz) (hc z hz (h1 z hz))
      · simp only [List.mem_map] at hx
        obtain ⟨z, hz, rfl⟩ := hx
        exact hc z hz (h1 z hz)
    · intro x hx
      simp only [List.mem_map] at hx
      obtain ⟨z, hz, rfl⟩ := hx
      exact hi z hz (h2 z hz)
    · intro x hx
      simp only [List.mem_map] at hx
      obtain ⟨z, hz, rfl⟩ := hx
      exact ho z hz (h3 z hz)

/-! ### the augment stage, concretely -/

/-- The invariant of a module tree during the augment stage. -/
def TreeInv (q : Entry → Bool) (t : Entry) : Prop := TInv q t ∧ t.d.kind = .directory

theorem updateAt_kind (f : Entry → Entry) (hf : ∀ x, (f x).d.kind = x.d.kind) (p : Path) (e : Entry) :
    (e.updateAt p f).d.kind = e.d.kind := by
  cases p with
  | nil => exact hf e
  | cons s p => cases e with | mk d c i o => cases s <;> rfl

theorem augClosed_treeInv {env : Env} {q : Entry → Bool} (hq : LocalOK env q) : AugClosed (TreeInv q) (TInv q) where
  find reg f start ctx name hf hs :=
    find_inv2 (TreeInv q)
      (walkParts_inv2 (TreeInv q)
        (fun root p e h hp hg hi => ⟨tinv_setImplicitIn hq root p e h.1 hp hg hi,
          (updateAt_kind _ (fun x => by cases x; rfl) p root).trans h.2⟩)
        (fun root p e h hp hg ho => ⟨tinv_setImplicitOut hq root p e h.1 hp hg ho,
          (updateAt_kind _ (fun x => by cases x; rfl) p root).trans h.2⟩))
      (fun e x h => ⟨tinv_addErr hq e x h.1, by cases e; exact h.2⟩) reg f start ctx name hf hs
  addErr e x h := ⟨tinv_addErr hq e x h.1, by cases e; exact h.2⟩
  mergeAt root path te a ns h hp hg ha :=
    ⟨tinv_merge_at hq root path te a ns h.1 hp hg ha,
      (updateAt_kind _ (fun x => (rootKeep_merge x ns a).2.1) path root).trans h.2⟩

theorem ainv_pstate0 (reg : Registry) (opts : Opts) (plug : Plug) {q : Entry → Bool}
    (hq : LocalOK (envOf reg opts plug) q) : AInv (TreeInv q) (TInv q) (pstate0 reg opts plug) := by
  have hU := tstate_ok reg opts plug (closed_U (envOf reg opts plug))
  have hC := tstate_ok reg opts plug (closed_cond hq)
  refine ⟨?_, ?_⟩
  · intro t ht
    simp only [pstate0, forest0] at ht
    exact ⟨⟨hU.cache t ht, hC.cache t ht⟩, hU.ckind t ht⟩
  · intro p hp a ha
    simp only [pstate0, pending0, List.mem_map] at hp
    obtain ⟨m, _, rfl⟩ := hp
    dsimp only at ha
    cases hf : (tstate reg opts plug).augs.find? (·.1 == m.seq) with
    | none => simp [hf] at ha
    | some r =>
      simp only [hf, Option.map_some, Option.getD_some] at ha
      have hr := List.mem_of_find?_eq_some hf
      exact ⟨hU.augs r hr a ha, hC.augs r hr a ha⟩

theorem ainv_fixAll {q : Entry → Bool} (hfix : ∀ e, everyNode q e = true → everyNode q (fixChoice e) = true)
    (s : PState) (h : AInv (TreeInv q) (TInv q) s) : AInv (TreeInv q) (TInv q) (fixAll s) := by
  refine ⟨?_, h.pend⟩
  intro t ht
  simp only [fixAll, List.mem_map] at ht
  obtain ⟨⟨i, e⟩, he, rfl⟩ := ht
  have := h.trees _ he
  dsimp only at this ⊢
  refine ⟨⟨U_fixChoice e this.1.1, ?_⟩, by rw [fixChoice_kind]; exact this.2⟩
  intro hn
  exact hfix e (this.1.2 ((noErrors_fixChoice e).1 hn))

attribute [local irreducible] leftoverRounds in
theorem ainv_preDev (reg : Registry) (opts : Opts) (plug : Plug) {q : Entry → Bool}
    (hq : LocalOK (envOf reg opts plug) q)
    (hfix : ∀ e, everyNode q e = true → everyNode q (fixChoice e) = true) :
    AInv (TreeInv q) (TInv q) (preDev reg opts plug) := by
  have hA := augClosed_treeInv hq
  have h1 := augmentLoop_ainv hA reg ((pending0 reg opts plug).foldl (fun n p => n + p.2.length) 0 + 2)
    ((augOrder reg).map (·.seq)).toArray (pstate0 reg opts plug) (ainv_pstate0 reg opts plug hq)
  have hr : AInv (TreeInv q) (TInv q) (afterRounds reg opts plug).2 :=
    Rounds.rounds_ind_state reg (AInv (TreeInv q) (TInv q))
      (fun fuel mods s h => augmentLoop_ainv hA reg fuel mods s h)
      (fun s h => ainv_fixAll hfix s h) _ _ _ _ (ainv_fixAll hfix _ h1)
  have h2 := leftover_ainv hA reg (afterRounds reg opts plug).1 (afterRounds reg opts plug).2 hr
  unfold preDev
  split
  · exact ainv_fixAll hfix _ h2
  · exact h2

/-- What a clean `Process` has established before the deviations: every tree is error-free, has
`q` at every node, unconditionally unique non-empty sibling names, and a directory root. -/
theorem preDev_clean (reg : Registry) (opts : Opts) (plug : Plug) {q : Entry → Bool}
    (hq : LocalOK (envOf reg opts plug) q)
    (hfix : ∀ e, everyNode q e = true → everyNode q (fixChoice e) = true)
    (h : (processAll reg opts plug).errors = []) :
    ∀ t ∈ (preDev reg opts plug).forest.trees,
      NoErrors t.2 ∧ everyNode q t.2 = true ∧ U t.2 ∧ t.2.d.kind = .directory := by
  obtain ⟨_, _, h3, _, _⟩ := processAll_clean reg opts plug h
  have hne := (forestErrs_eq_nil _).1 h3
  have hinv := ainv_preDev reg opts plug hq hfix
  intro t ht
  have := hinv.trees t ht
  exact ⟨hne t ht, this.1.2 (hne t ht), this.1.1, this.2⟩

/-- The last pass either leaves a root error somewhere, or — when it applied nothing — leaves the
forest as it was. -/
theorem leftover_forest (reg : Registry) (left : Array Nat) (s : PState) (hB : InvB s) :
    let r := left.foldl (fun (acc : PState × Nat) id =>
      let (s, p, _) := augmentTree reg id true acc.1
      (s, acc.2 + p)) (s, 0)
    (∃ id, RootErrAt r.1.forest id) ∨ (r.2 = 0 → r.1.forest = s.forest) := by
  intro r
  have key : InvB r.1 ∧ ((∃ id, RootErrAt r.1.forest id) ∨ (r.2 = 0 → r.1.forest = s.forest)) := by
    simp only [r]
    rw [← Array.foldl_toList]
    refine foldl_inv (fun (acc : PState × Nat) =>
      InvB acc.1 ∧ ((∃ id, RootErrAt acc.1.forest id) ∨ (acc.2 = 0 → acc.1.forest = s.forest)))
      _ _ _ ⟨hB, Or.inr (fun _ => rfl)⟩ ?_
    rintro ⟨s1, cnt⟩ id _ ⟨jB, jE⟩
    dsimp only at jB jE ⊢
    have hB' := invB_augmentTree reg id true s1 jB
    obtain ⟨un, fle, hp, hsub, hk, herr, hsame⟩ := augmentTree_ok reg id true s1
    generalize augmentTree reg id true s1 = r' at hB' fle hp hk herr hsame ⊢
    obtain ⟨s', p, k⟩ := r'
    dsimp only at hB' fle hp hk herr hsame ⊢
    refine ⟨hB', ?_⟩
    rcases jE with ⟨id0, h0⟩ | jE
    · exact Or.inl ⟨id0, h0.mono fle⟩
    · cases un with
      | nil =>
        right
        intro h0
        have hc : cnt = 0 := by omega
        have hp0 : p = 0 := by omega
        rw [hsame hp0 rfl]; exact jE hc
      | cons a t =>
        left
        obtain ⟨p0, hp0, h1, h2⟩ := pendingOf_ne_nil s1 id (List.ne_nil_of_mem (hsub a (by simp)))
        exact ⟨id, herr rfl (by simp) (by rw [← h1]; exact jB p0 hp0 h2)⟩
  exact key.2

theorem choiceCases_fixAll (s : PState) : ForestAll ChoiceCases (fixAll s).forest := by
  intro t ht
  simp only [fixAll, List.mem_map] at ht
  obtain ⟨⟨i, e⟩, _, rfl⟩ := ht
  exact fixChoice_cases e

/-! ### a loop that applies nothing leaves the forest alone, unless something is still pending -/

/-- One step of `Augment`: it applies the augment (`p + 1`) or appends it to the unapplied ones. -/
theorem augStep_counts (reg : Registry) (id : Nat) (addErrors : Bool) (nsOf : String)
    (acc : PState × List Entry × Nat × Nat) (a : Entry) :
    ((augStep reg id addErrors nsOf acc a).2.2.1 = acc.2.2.1 + 1) ∨
    ((augStep reg id addErrors nsOf acc a).2.2.1 = acc.2.2.1 ∧ (augStep reg id addErrors nsOf acc a).2.1 = acc.2.1 ++ [a]) := by
  obtain ⟨s, un, p, k⟩ := acc
  unfold augStep
  dsimp only
  generalize find reg s.forest (id, []) a.d.nodeMod a.d.name = r
  obtain ⟨target, forest⟩ := r
  dsimp only
  repeat' split
  all_goals first
    | exact Or.inr ⟨rfl, rfl⟩
    | exact Or.inl rfl

/-- An `Augment` call that applies nothing leaves every pending list as it was, and the forest too
when the tree has nothing pending. -/
theorem augmentTree_zero (reg : Registry) (id : Nat) (addErrors : Bool) (s : PState)
    (h0 : (augmentTree reg id addErrors s).2.1 = 0) :
    (∀ id', (augmentTree reg id addErrors s).1.pendingOf id' = s.pendingOf id') ∧
    (s.pendingOf id = [] → (augmentTree reg id addErrors s).1.forest = s.forest) := by
  rw [augmentTree_eq] at h0 ⊢
  dsimp only at h0 ⊢
  refine ⟨?_, ?_⟩
  · have key := foldl_prefix_inv (fun (done : List Entry) (acc : PState × List Entry × Nat × Nat) =>
        FLe s.forest acc.1.forest ∧ acc.1.pending = s.pending ∧ (acc.2.2.1 = 0 → acc.2.1 = done))
      (augStep reg id addErrors (namespaceAt reg s.forest (id, []))) (s.pendingOf id) (s, [], 0, 0)
      ⟨FLe.refl _, rfl, fun _ => rfl⟩ ?_
    · obtain ⟨_, k2, k3⟩ := key
      have hun := k3 h0
      intro id'
      rw [AugmentModel.pendingOf_setPending]
      have hgen : ∀ (a b : PState), a.pending = b.pending → ∀ x, a.pendingOf x = b.pendingOf x := by
        intro a b hab x; unfold PState.pendingOf; rw [hab]
      have hpo := hgen _ _ k2
      by_cases hid : id' = id
      · subst hid
        rw [if_pos rfl, k2, hun]
        cases hf : (s.pending.find? (·.1 == id')).isSome with
        | true => rfl
        | false => simp only [Bool.false_eq_true, if_false]; exact (AugmentModel.pendingOf_eq_nil_of_not_found s id' hf).symm
      · rw [if_neg hid]; exact hpo id'
    · rintro done a acc ha ⟨i1, i2, i3⟩
      have st := augStep_ok reg id addErrors (namespaceAt reg s.forest (id, [])) s acc a i1
      refine ⟨st.fle, st.pend.trans i2, ?_⟩
      intro hz
      rcases augStep_counts reg id addErrors (namespaceAt reg s.forest (id, [])) acc a with hc | ⟨hc, hu⟩
      · rw [hc] at hz; exact absurd hz (by omega)
      · rw [hu, i3 (by rw [← hc]; exact hz)]
  · intro hnil
    rw [hnil]
    rfl

theorem augmentTree_zero_live (reg : Registry) (id : Nat) (addErrors : Bool) (s : PState)
    (h0 : (augmentTree reg id addErrors s).2.1 = 0) :
    (augmentTree reg id addErrors s).1.forest = s.forest ∨ ∃ id', s.pendingOf id' ≠ [] := by
  by_cases h : s.pendingOf id = []
  · exact Or.inl ((augmentTree_zero reg id addErrors s h0).2 h)
  · exact Or.inr ⟨id, h⟩

/-- A pass of the augment loop that applies nothing. -/
theorem augmentPass_zero (reg : Registry) : ∀ (fuel : Nat) (mods : Array Nat) (i processed : Nat) (s : PState),
    processed ≤ (augmentPass reg fuel mods i processed s).2.1 ∧
    ((augmentPass reg fuel mods i processed s).2.1 = processed →
      (∀ id', (augmentPass reg fuel mods i processed s).2.2.pendingOf id' = s.pendingOf id') ∧
      ((augmentPass reg fuel mods i processed s).2.2.forest = s.forest ∨ ∃ id', s.pendingOf id' ≠ [])) := by
  intro fuel
  induction fuel with
  | zero => intro mods i processed s; exact ⟨Nat.le_refl _, fun _ => ⟨fun _ => rfl, Or.inl rfl⟩⟩
  | succ fuel ih =>
    intro mods i processed s
    unfold augmentPass
    split
    · have hz := augmentTree_zero reg mods[i] false s
      have hl := augmentTree_zero_live reg mods[i] false s
      generalize augmentTree reg mods[i] false s = r at hz hl ⊢
      obtain ⟨s', p, k⟩ := r
      dsimp only at hz hl ⊢
      have step : ∀ (mods' : Array Nat) (i' : Nat),
          processed ≤ (augmentPass reg fuel mods' i' (processed + p) s').2.1 ∧
          ((augmentPass reg fuel mods' i' (processed + p) s').2.1 = processed →
            (∀ id', (augmentPass reg fuel mods' i' (processed + p) s').2.2.pendingOf id' = s.pendingOf id') ∧
            ((augmentPass reg fuel mods' i' (processed + p) s').2.2.forest = s.forest ∨ ∃ id', s.pendingOf id' ≠ [])) := by
        intro mods' i'
        obtain ⟨j1, j2⟩ := ih mods' i' (processed + p) s'
        refine ⟨by omega, ?_⟩
        intro heq
        have hp0 : p = 0 := by omega
        obtain ⟨k1, k2⟩ := j2 (by omega)
        obtain ⟨z1, _⟩ := hz hp0
        refine ⟨fun id' => (k1 id').trans (z1 id'), ?_⟩
        rcases k2 with k2 | ⟨id', k2⟩
        · rcases hl hp0 with hl | hl
          · exact Or.inl (k2.trans hl)
          · exact Or.inr hl
        · exact Or.inr ⟨id', by rw [← z1 id']; exact k2⟩
      split
      · exact step _ _
      · exact step _ _
    · exact ⟨Nat.le_refl _, fun _ => ⟨fun _ => rfl, Or.inl rfl⟩⟩

/-- A loop that applied nothing (Go: `augmentLoop() == 0`). -/
theorem augmentLoop_zero (reg : Registry) (fuel : Nat) (mods : Array Nat) (s : PState)
    (h : Rounds.loopCount reg fuel mods s = 0) :
    (∀ id', (augmentLoop reg fuel mods s).2.pendingOf id' = s.pendingOf id') ∧
    ((augmentLoop reg fuel mods s).2.forest = s.forest ∨ ∃ id', s.pendingOf id' ≠ []) := by
  rcases (Rounds.loopCount_eq_zero reg fuel mods s).mp h with h1 | h1 | hp
  · subst h1; exact ⟨fun _ => rfl, Or.inl rfl⟩
  · rw [Rounds.augmentLoop_empty reg fuel mods s h1]; exact ⟨fun _ => rfl, Or.inl rfl⟩
  · cases fuel with
    | zero => exact ⟨fun _ => rfl, Or.inl rfl⟩
    | succ fuel =>
      unfold augmentLoop
      split
      · exact ⟨fun _ => rfl, Or.inl rfl⟩
      · have hz := (augmentPass_zero reg (mods.size + 1) mods 0 0 s).2
        generalize augmentPass reg (mods.size + 1) mods 0 0 s = r at hp hz ⊢
        obtain ⟨mods', processed, s'⟩ := r
        dsimp only at hp hz ⊢
        subst hp
        simp only [beq_self_eq_true, if_true]
        exact hz rfl

/-- After the retry rounds every child of every choice is a case, unless something is still
pending (which the reporting sweep then turns into an error). -/
theorem rounds_choiceCases (reg : Registry) (fuel : Nat) : ∀ (n : Nat) (mods : Array Nat) (s : PState),
    ForestAll ChoiceCases s.forest →
    ForestAll ChoiceCases (leftoverRounds reg fuel n mods s).2.forest ∨
      ∃ id, (leftoverRounds reg fuel n mods s).2.pendingOf id ≠ []
  | 0, mods, s, h => by rw [Rounds.leftoverRounds_zero]; exact Or.inl h
  | n + 1, mods, s, h => by
    rw [Rounds.leftoverRounds_succ]
    split
    · rename_i hc
      obtain ⟨z1, z2⟩ := augmentLoop_zero reg fuel mods s hc
      rcases z2 with z2 | ⟨id, z2⟩
      · left; rw [z2]; exact h
      · right; exact ⟨id, by rw [z1 id]; exact z2⟩
    · exact rounds_choiceCases reg fuel n _ _ (choiceCases_fixAll _)

/-- The reporting sweep, when it applies nothing, leaves every pending list as it was. -/
theorem leftover_zero (reg : Registry) (left : Array Nat) (s : PState) :
    let r := left.foldl (fun (acc : PState × Nat) id =>
      let (s, p, _) := augmentTree reg id true acc.1
      (s, acc.2 + p)) (s, 0)
    r.2 = 0 → ∀ id', r.1.pendingOf id' = s.pendingOf id' := by
  intro r
  simp only [r]
  rw [← Array.foldl_toList]
  refine foldl_inv (fun (acc : PState × Nat) => acc.2 = 0 → ∀ id', acc.1.pendingOf id' = s.pendingOf id')
    _ _ _ (fun _ _ => rfl) ?_
  rintro ⟨s1, cnt⟩ id _ j
  dsimp only at j ⊢
  have hz := augmentTree_zero reg id true s1
  generalize augmentTree reg id true s1 = r' at hz ⊢
  obtain ⟨s', p, k⟩ := r'
  dsimp only at hz ⊢
  intro h0 id'
  rw [(hz (by omega)).1 id']
  exact j (by omega) id'

attribute [local irreducible] leftoverRounds in
/-- After a clean `Process`, before the deviations, every child of every choice is a case. -/
theorem preDev_choiceCases (reg : Registry) (opts : Opts) (plug : Plug)
    (h : (processAll reg opts plug).errors = []) : ForestAll ChoiceCases (preDev reg opts plug).forest := by
  obtain ⟨_, _, h3, _, _⟩ := processAll_clean reg opts plug h
  have hr := rounds_inv reg opts plug
  have hf := leftover_forest reg (afterRounds reg opts plug).1 (afterRounds reg opts plug).2 hr.1
  have hinv := leftover_inv reg (afterRounds reg opts plug).1 (afterRounds reg opts plug).2 hr.1 hr.2
  have hzero := leftover_zero reg (afterRounds reg opts plug).1 (afterRounds reg opts plug).2
  have hcc := rounds_choiceCases reg ((pending0 reg opts plug).foldl (fun n p => n + p.2.length) 0 + 2)
    ((pending0 reg opts plug).foldl (fun n p => n + p.2.length) 0 + 2)
    (afterLoop reg opts plug).1 (fixAll (afterLoop reg opts plug).2) (choiceCases_fixAll _)
  unfold preDev at h3 ⊢
  split
  · exact choiceCases_fixAll _
  · rename_i happ
    simp only [happ, if_false] at h3
    have h0 : (leftoverPass reg opts plug).2 = 0 := by
      have : ¬ (leftoverPass reg opts plug).2 > 0 := happ
      omega
    rcases hf with ⟨id, herr⟩ | hf
    · exact absurd h3 (ownErr_forestErrs _ _ herr)
    · have hsame : (leftoverPass reg opts plug).1.forest = (afterRounds reg opts plug).2.forest := hf h0
      rcases hcc with hcc | ⟨id, hne⟩
      · rw [hsame]; exact hcc
      · -- something is still pending after the rounds: the sweep reports it
        have hne' : (leftoverPass reg opts plug).1.pendingOf id ≠ [] := by
          rw [show (leftoverPass reg opts plug).1.pendingOf id = (afterRounds reg opts plug).2.pendingOf id from
            hzero h0 id]
          exact hne
        obtain ⟨p0, hp0, h1, h2⟩ := pendingOf_ne_nil _ id hne'
        exact absurd h3 (ownErr_forestErrs _ _ (hinv p0 hp0 h2))

/-! ### updates by a function that is harmless wherever it is applied -/

theorem everyNode_updateAt_all (q : Entry → Bool)
    (hq : ∀ d c i o c' i' o', c.map hdr = c'.map hdr → i.map hdr = i'.map hdr → o.map hdr = o'.map hdr →
      q (.mk d c i o) = q (.mk d c' i' o'))
    (f : Entry → Entry) (hf : ∀ x, everyNode q x = true → everyNode q (f x) = true) (hh : ∀ x, hdr (f x) = hdr x) :
    ∀ (p : Path) (e : Entry), everyNode q e = true → everyNode q (e.updateAt p f) = true ∧ hdr (e.updateAt p f) = hdr e := by
  intro p
  induction p with
  | nil => intro e h; exact ⟨hf e h, hh e⟩
  | cons s p ih =>
    intro e h
    cases e with | mk d c i o =>
    rw [everyNode_mk] at h
    obtain ⟨h1, h2, h3, h4⟩ := h
    cases s with
    | child k =>
      simp only [Entry.updateAt]
      refine ⟨?_, rfl⟩
      rw [everyNode_mk]
      refine ⟨?_, ?_, h3, h4⟩
      · rw [hq d _ i o c i o ?_ rfl rfl]; exact h1
        simp only [List.map_map]
        apply List.map_congr_left
        intro x hx
        simp only [Function.comp]
        split
        · exact (ih x (h2 x hx)).2
        · rfl
      · intro x hx
        simp only [List.mem_map] at hx
        obtain ⟨y, hy, rfl⟩ := hx
        split
        · exact (ih y (h2 y hy)).1
        · exact h2 y hy
    | input =>
      simp only [Entry.updateAt]
      refine ⟨?_, rfl⟩
      rw [everyNode_mk]
      refine ⟨?_, h2, ?_, h4⟩
      · rw [hq d c _ o c i o rfl ?_ rfl]; exact h1
        simp only [List.map_map]
        apply List.map_congr_left
        intro x hx
        exact (ih x (h3 x hx)).2
      · intro x hx
        simp only [List.mem_map] at hx
        obtain ⟨y, hy, rfl⟩ := hx
        exact (ih y (h3 y hy)).1
    | output =>
      simp only [Entry.updateAt]
      refine ⟨?_, rfl⟩
      rw [everyNode_mk]
      refine ⟨?_, h2, h3, ?_⟩
      · rw [hq d c i _ c i o rfl rfl ?_]; exact h1
        simp only [List.map_map]
        apply List.map_congr_left
        intro x hx
        exact (ih x (h4 x hx)).2
      · intro x hx
        simp only [List.mem_map] at hx
        obtain ⟨y, hy, rfl⟩ := hx
        exact (ih y (h4 y hy)).1

theorem hdrLocal_uHere : ∀ d c i o c' i' o', c.map hdr = c'.map hdr → i.map hdr = i'.map hdr → o.map hdr = o'.map hdr →
    uHere (.mk d c i o) = uHere (.mk d c' i' o') := by
  intro d c i o c' i' o' hc hi ho
  have hiff : ∀ (d : EData) (c i o : List Entry), uHere (.mk d c i o) = true ↔
      (names1 c).Nodup ∧ i.length ≤ 1 ∧ o.length ≤ 1 := by
    intro d c i o
    simp only [uHere, Entry.dir, Entry.inp, Entry.out, Bool.and_eq_true]
    constructor
    · rintro ⟨⟨h1, h2⟩, h3⟩; exact ⟨of_decide_eq_true h1, of_decide_eq_true h2, of_decide_eq_true h3⟩
    · rintro ⟨h1, h2, h3⟩; exact ⟨⟨decide_eq_true h1, decide_eq_true h2⟩, decide_eq_true h3⟩
  rw [Bool.eq_iff_iff, hiff, hiff]
  unfold names1
  rw [names_hdr c c' hc, length_hdr i i' hi, length_hdr o o' ho]

theorem hdrLocal_choiceCasesHere : ∀ d c i o c' i' o', c.map hdr = c'.map hdr → i.map hdr = i'.map hdr →
    o.map hdr = o'.map hdr → choiceCasesHere (.mk d c i o) = choiceCasesHere (.mk d c' i' o') := by
  intro d c i o c' i' o' hc hi ho
  show (!(d.kind == .choice && d.errors.isEmpty) || c.all (fun x => x.d.kind == .case_)) =
    (!(d.kind == .choice && d.errors.isEmpty) || c'.all (fun x => x.d.kind == .case_))
  rw [all_kind_hdr (· == .case_) c c' hc]

/-- After the update, the path leads to the updated node. -/
theorem getAt_updateAt (f : Entry → Entry) (e : Entry) (hn : (f e).name = e.name) :
    ∀ (p : Path) (root : Entry), U root → PathOK p → root.getAt p = some e →
      (root.updateAt p f).getAt p = some (f e) ∧ (root.updateAt p f).name = root.name := by
  intro p
  induction p with
  | nil =>
    intro root _ _ hg
    simp only [Entry.getAt, Option.some.injEq] at hg
    subst hg
    exact ⟨rfl, hn⟩
  | cons s p ih =>
    intro root hu hp hg
    cases root with | mk d c i o =>
    cases s with
    | child k =>
      obtain ⟨pre, y, post, hc, hy, hgy, hpre, _, hupd⟩ := updateAt_child d c i o k p f e hu (hp k (by simp)) hg
      rw [hupd]
      subst hc
      have huy : U y := ((U_mk _ _ _ _).1 hu).2.1 y (by simp)
      have hih := ih y huy hp.tail hgy
      refine ⟨?_, rfl⟩
      simp only [Entry.getAt, Entry.child?, Entry.dir]
      have hfind : (pre ++ y.updateAt p f :: post).find? (fun x => x.name == k) = some (y.updateAt p f) := by
        rw [List.find?_append]
        have hnone : pre.find? (fun x => x.name == k) = none := by
          rw [List.find?_eq_none]; intro x hx; simp [hpre x hx]
        rw [hnone]
        have hk : ((y.updateAt p f).name == k) = true := by rw [hih.2, hy]; simp
        simp [List.find?_cons, hk]
      rw [hfind]; exact hih.1
    | input =>
      obtain ⟨y, hi, hgy, hupd⟩ := updateAt_input d c i o p f e hu hg
      rw [hupd]; subst hi
      have huy : U y := ((U_mk _ _ _ _).1 hu).2.2.1 y (by simp)
      have := ih y huy hp.tail hgy
      exact ⟨by simpa [Entry.getAt, Entry.inp] using this.1, rfl⟩
    | output =>
      obtain ⟨y, ho, hgy, hupd⟩ := updateAt_output d c i o p f e hu hg
      rw [hupd]; subst ho
      have huy : U y := ((U_mk _ _ _ _).1 hu).2.2.2 y (by simp)
      have := ih y huy hp.tail hgy
      exact ⟨by simpa [Entry.getAt, Entry.out] using this.1, rfl⟩

/-! ### the deviation stage -/

/-- The invariant of a module tree during the deviation stage of a clean `Process`. -/
structure DP (tp : Bool) (t : Entry) : Prop where
  ne : NoErrors t
  wf : everyNode (wfqB tp) t = true
  u : U t
  kind : t.d.kind = .directory
  cc : ChoiceCases t

theorem choiceCases_implicitIO (parent : Entry) (b : Bool) : ChoiceCases (implicitIO parent b) := by
  unfold implicitIO; rw [choiceCases_mk]; simp

theorem find_inv2_some (P : Entry → Prop)
    (hw : ∀ parts root cur, P root → (∀ p, cur = some p → PathOK p) →
      P (walkParts parts root cur).2 ∧ ∀ p, (walkParts parts root cur).1 = some p → PathOK p)
    (reg : Registry) (f : Forest) (start : Loc) (ctx : Nat) (name : String) (hf : ForestAll P f)
    (hs : PathOK start.2) :
    ((find reg f start ctx name).1 ≠ none → ForestAll P (find reg f start ctx name).2) ∧
      ∀ t path, (find reg f start ctx name).1 = some (t, path) → PathOK path := by
  unfold find
  dsimp only
  repeat' split
  all_goals first
    | exact ⟨fun _ => hf, fun t path h => absurd h (by simp)⟩
    | exact ⟨fun h => absurd rfl h, fun t path h => absurd h (by simp)⟩
    | (rename_i heq
       have hroot := forestAll_tree? _ _ _ hf heq
       have hside : ∀ (c : Path), (c = [] ∨ c = start.2) → ∀ p, some c = some p → PathOK p := by
         intro c hc p hp; cases hp; rcases hc with rfl | rfl
         · exact pathOK_nil
         · exact hs
       refine ⟨fun _ => forestAll_setTree _ _ _ hf (hw _ _ _ hroot (hside _ (by first | exact Or.inl rfl | exact Or.inr rfl))).1, ?_⟩
       intro t path h
       simp only [Option.map_eq_some_iff, Prod.mk.injEq] at h
       obtain ⟨a, ha, _, rfl⟩ := h
       exact (hw _ _ _ hroot (hside _ (by first | exact Or.inl rfl | exact Or.inr rfl))).2 a ha)

section DPLemmas
variable {env : Env} {tp : Bool} (hq : LocalOK env (wfqB tp))
include hq

theorem dp_setImplicitIn (root : Entry) (p : Path) (e : Entry) (h : DP tp root) (hp : PathOK p)
    (hg : root.getAt p = some e) (hi : e.inp = []) : DP tp (root.updateAt p setImplicitIn) := by
  have hne : NoErrors (root.updateAt p setImplicitIn) :=
    everyNode_updateAt_own _ ownOnly_noErrorsHere _ noErrors_setImplicitIn p root h.ne
  have ht := tinv_setImplicitIn hq root p e ⟨h.u, fun _ => h.wf⟩ hp hg hi
  refine ⟨hne, ht.2 hne, ht.1, (updateAt_kind _ (fun x => by cases x; rfl) p root).trans h.kind, ?_⟩
  refine everyNode_updateAt choiceCasesHere hdrLocal_choiceCasesHere setImplicitIn e ?_ (by cases e; rfl) p root h.u hp hg h.cc
  intro he
  cases e with | mk d c i o =>
  change ChoiceCases _ at he
  change ChoiceCases _
  simp only [setImplicitIn]
  rw [choiceCases_mk] at he ⊢
  refine ⟨he.1, he.2.1, ?_, he.2.2.2⟩
  intro x hx; simp only [List.mem_singleton] at hx; subst hx; exact choiceCases_implicitIO _ _

theorem dp_setImplicitOut (root : Entry) (p : Path) (e : Entry) (h : DP tp root) (hp : PathOK p)
    (hg : root.getAt p = some e) (ho : e.out = []) : DP tp (root.updateAt p setImplicitOut) := by
  have hne : NoErrors (root.updateAt p setImplicitOut) :=
    everyNode_updateAt_own _ ownOnly_noErrorsHere _ noErrors_setImplicitOut p root h.ne
  have ht := tinv_setImplicitOut hq root p e ⟨h.u, fun _ => h.wf⟩ hp hg ho
  refine ⟨hne, ht.2 hne, ht.1, (updateAt_kind _ (fun x => by cases x; rfl) p root).trans h.kind, ?_⟩
  refine everyNode_updateAt choiceCasesHere hdrLocal_choiceCasesHere setImplicitOut e ?_ (by cases e; rfl) p root h.u hp hg h.cc
  intro he
  cases e with | mk d c i o =>
  change ChoiceCases _ at he
  change ChoiceCases _
  simp only [setImplicitOut]
  rw [choiceCases_mk] at he ⊢
  refine ⟨he.1, he.2.1, he.2.2.1, ?_⟩
  intro x hx; simp only [List.mem_singleton] at hx; subst hx; exact choiceCases_implicitIO _ _

theorem dp_find (reg : Registry) (f : Forest) (start : Loc) (ctx : Nat) (name : String)
    (hf : ForestAll (DP tp) f) (hs : PathOK start.2) :
    ((find reg f start ctx name).1 ≠ none → ForestAll (DP tp) (find reg f start ctx name).2) ∧
      ∀ t path, (find reg f start ctx name).1 = some (t, path) → PathOK path :=
  find_inv2_some (DP tp)
    (walkParts_inv2 (DP tp) (fun root p e h hp hg hi => dp_setImplicitIn hq root p e h hp hg hi)
      (fun root p e h hp hg ho => dp_setImplicitOut hq root p e h hp hg ho))
    reg f start ctx name hf hs


omit hq in
theorem dp_of_equiv (e v : Entry) (heq : DataEquiv e v) (h1 : NoErrors e) (h2 : everyNode (wfqB tp) e = true)
    (h3 : U e) (h4 : ChoiceCases e) :
    NoErrors v ∧ everyNode (wfqB tp) v = true ∧ U v ∧ ChoiceCases v ∧ hdr v = hdr e := by
  refine ⟨noErrors_of_equiv heq h1, ?_⟩
  cases e with | mk d c i o =>
  cases v with | mk d' c' i' o' =>
  obtain ⟨e1, e2, e3, e4, e5, e6, e7, e8, e9, e10⟩ := heq
  simp only [Entry.dir, Entry.inp, Entry.out, Entry.d] at e1 e2 e3 e4 e5 e6 e7 e8 e9 e10
  subst e1 e2 e3
  refine ⟨?_, ?_, ?_, ?_⟩
  · rw [everyNode_mk] at h2 ⊢
    refine ⟨?_, h2.2⟩
    have := h2.1
    rw [wfqB_iff] at this ⊢
    refine ⟨this.1, ?_, this.2.2.1, ?_⟩
    · have hk := this.2.1
      simp only [kindsWeakHere, Entry.d, e6, e7, e8] at hk ⊢
      exact hk
    · intro htp
      have ht := this.2.2.2 htp
      simp only [typePresentHere, Entry.d, e6, e9, Bool.or_eq_true, Bool.not_eq_true'] at ht ⊢
      rcases ht with ht | ht
      · exact Or.inl ht
      · exact Or.inr (e10 ht)
  · rw [U_mk] at h3 ⊢; exact h3
  · rw [choiceCases_mk] at h4 ⊢
    rw [e6, e4]; exact h4
  · simp only [hdr, Entry.d, e5, e6]

theorem dp_replace (root : Entry) (path : Path) (e v : Entry) (h : DP tp root) (hp : PathOK path)
    (hg : root.getAt path = some e) (heq : DataEquiv e v) :
    DP tp (root.updateAt path fun _ => v) ∧ (root.updateAt path fun _ => v).getAt path = some v := by
  obtain ⟨v1, v2, v3, v4, v5⟩ := dp_of_equiv e v heq (everyNode_getAt _ path root e h.ne hg)
    (everyNode_getAt _ path root e h.wf hg) (U_getAt path root e h.u hg) (everyNode_getAt _ path root e h.cc hg)
  have hname : v.name = e.name := congrArg Prod.fst v5
  have hkind : v.d.kind = e.d.kind := congrArg Prod.snd v5
  refine ⟨⟨?_, ?_, ?_, ?_, ?_⟩, (getAt_updateAt (fun _ => v) e hname path root h.u hp hg).1⟩
  · exact everyNode_updateAt_own _ ownOnly_noErrorsHere _ (fun _ _ => v1) path root h.ne
  · exact everyNode_updateAt (wfqB tp) hq.hdr (fun _ => v) e (fun _ => v2) v5 path root h.u hp hg h.wf
  · exact U_updateAt (fun _ => v) e v3 hname path root h.u hp hg
  · cases path with
    | nil =>
      simp only [Entry.getAt, Option.some.injEq] at hg
      subst hg
      exact hkind.trans h.kind
    | cons s p => cases root with | mk d c i o => cases s <;> exact h.kind
  · exact everyNode_updateAt choiceCasesHere hdrLocal_choiceCasesHere (fun _ => v) e (fun _ => v4) v5 path root h.u hp hg h.cc

omit hq in
theorem sublist_names_filter (c : List Entry) (p : Entry → Bool) :
    ((c.filter p).map (·.name)).Sublist (c.map (·.name)) :=
  List.Sublist.map _ List.filter_sublist

omit hq in
theorem dp_dropKids (d : EData) (c i o : List Entry) (p : Entry → Bool) (b1 b2 : Bool)
    (h1 : NoErrors (.mk d c i o)) (h2 : everyNode (wfqB tp) (.mk d c i o) = true) (h3 : U (.mk d c i o))
    (h4 : ChoiceCases (.mk d c i o)) :
    NoErrors (.mk d (c.filter p) (if b1 then [] else i) (if b2 then [] else o)) ∧
    everyNode (wfqB tp) (.mk d (c.filter p) (if b1 then [] else i) (if b2 then [] else o)) = true ∧
    U (.mk d (c.filter p) (if b1 then [] else i) (if b2 then [] else o)) ∧
    ChoiceCases (.mk d (c.filter p) (if b1 then [] else i) (if b2 then [] else o)) := by
  have hi : ∀ z ∈ (if b1 then [] else i), z ∈ i := by intro z hz; split at hz <;> simp_all
  have ho : ∀ z ∈ (if b2 then [] else o), z ∈ o := by intro z hz; split at hz <;> simp_all
  have hil : (if b1 then [] else i).length ≤ i.length := by split <;> simp
  have hol : (if b2 then [] else o).length ≤ o.length := by split <;> simp
  refine ⟨?_, ?_, ?_, ?_⟩
  · rw [noErrors_mk] at h1 ⊢
    exact ⟨h1.1, fun z hz => h1.2.1 z (List.mem_filter.mp hz).1, fun z hz => h1.2.2.1 z (hi z hz),
      fun z hz => h1.2.2.2 z (ho z hz)⟩
  · rw [everyNode_mk] at h2 ⊢
    refine ⟨?_, fun z hz => h2.2.1 z (List.mem_filter.mp hz).1, fun z hz => h2.2.2.1 z (hi z hz),
      fun z hz => h2.2.2.2 z (ho z hz)⟩
    have := h2.1
    rw [wfqB_iff] at this ⊢
    refine ⟨⟨this.1.1.sublist (sublist_names_filter c p), by omega, by omega⟩, this.2.1,
      ⟨fun z hz => this.2.2.1.1 z (List.mem_filter.mp hz).1, fun z hz => this.2.2.1.2.1 z (hi z hz),
        fun z hz => this.2.2.1.2.2 z (ho z hz)⟩, this.2.2.2⟩
  · rw [U_mk] at h3 ⊢
    refine ⟨⟨?_, by omega, by omega⟩, fun z hz => h3.2.1 z (List.mem_filter.mp hz).1, fun z hz => h3.2.2.1 z (hi z hz),
      fun z hz => h3.2.2.2 z (ho z hz)⟩
    unfold names1
    exact h3.1.1.sublist (List.Sublist.filter _ (sublist_names_filter c p))
  · rw [choiceCases_mk] at h4 ⊢
    exact ⟨fun hk he z hz => h4.1 hk he z (List.mem_filter.mp hz).1, fun z hz => h4.2.1 z (List.mem_filter.mp hz).1,
      fun z hz => h4.2.2.1 z (hi z hz), fun z hz => h4.2.2.2 z (ho z hz)⟩


omit hq in
theorem everyNode_and (p q : Entry → Bool) (e : Entry) :
    everyNode (fun x => p x && q x) e = true ↔ everyNode p e = true ∧ everyNode q e = true := by
  induction e using entry_ind with
  | h d c i o hc hi ho =>
    simp only [everyNode_mk, Bool.and_eq_true]
    constructor
    · rintro ⟨⟨a, b⟩, h2, h3, h4⟩
      exact ⟨⟨a, fun x hx => ((hc x hx).1 (h2 x hx)).1, fun x hx => ((hi x hx).1 (h3 x hx)).1,
        fun x hx => ((ho x hx).1 (h4 x hx)).1⟩, ⟨b, fun x hx => ((hc x hx).1 (h2 x hx)).2,
        fun x hx => ((hi x hx).1 (h3 x hx)).2, fun x hx => ((ho x hx).1 (h4 x hx)).2⟩⟩
    · rintro ⟨⟨a, a2, a3, a4⟩, ⟨b, b2, b3, b4⟩⟩
      exact ⟨⟨a, b⟩, fun x hx => (hc x hx).2 ⟨a2 x hx, b2 x hx⟩, fun x hx => (hi x hx).2 ⟨a3 x hx, b3 x hx⟩,
        fun x hx => (ho x hx).2 ⟨a4 x hx, b4 x hx⟩⟩

/-- Drop some `Dir` children and possibly the rpc input / output (what a removal does to the parent). -/
def dropKids (pr : Entry → Bool) (b1 b2 : Bool) : Entry → Entry
  | .mk d c i o => .mk d (c.filter pr) (if b1 then [] else i) (if b2 then [] else o)

/-- The four node-wise parts of `DP` as one predicate. -/
def allq (tp : Bool) (x : Entry) : Bool := ((noErrorsHere x && wfqB tp x) && uHere x) && choiceCasesHere x

omit hq in
theorem allq_iff (e : Entry) : everyNode (allq tp) e = true ↔
    NoErrors e ∧ everyNode (wfqB tp) e = true ∧ U e ∧ ChoiceCases e := by
  unfold allq
  rw [everyNode_and, everyNode_and, everyNode_and]
  exact ⟨fun ⟨⟨⟨a, b⟩, c⟩, d⟩ => ⟨a, b, c, d⟩, fun ⟨a, b, c, d⟩ => ⟨⟨⟨a, b⟩, c⟩, d⟩⟩

theorem hdrLocal_allq : ∀ d c i o c' i' o', c.map hdr = c'.map hdr → i.map hdr = i'.map hdr → o.map hdr = o'.map hdr →
    allq tp (.mk d c i o) = allq tp (.mk d c' i' o') := by
  intro d c i o c' i' o' hc hi ho
  unfold allq
  rw [hq.hdr d c i o c' i' o' hc hi ho, hdrLocal_uHere d c i o c' i' o' hc hi ho,
    hdrLocal_choiceCasesHere d c i o c' i' o' hc hi ho]
  rfl

theorem dp_removeAt (root : Entry) (p : Path) (h : DP tp root) : DP tp (removeAt root p) := by
  have hall : everyNode (allq tp) root = true := (allq_iff root).2 ⟨h.ne, h.wf, h.u, h.cc⟩
  have gen : ∀ (pr : Entry → Bool) (b1 b2 : Bool) (path : Path), DP tp (root.updateAt path (dropKids pr b1 b2)) := by
    intro pr b1 b2 path
    have := everyNode_updateAt_all (allq tp) (hdrLocal_allq hq) (dropKids pr b1 b2) (fun x hx => by
        cases x with | mk d0 c0 i0 o0 =>
        obtain ⟨a, b, c, d⟩ := (allq_iff _).1 hx
        obtain ⟨a', b', c', d'⟩ := dp_dropKids d0 c0 i0 o0 pr b1 b2 a b c d
        exact (allq_iff _).2 ⟨a', b', c', d'⟩)
      (fun x => by cases x; rfl) path root hall
    obtain ⟨a, b, c, d⟩ := (allq_iff _).1 this.1
    exact ⟨a, b, c, (updateAt_kind _ (fun x => by cases x; rfl) path root).trans h.kind, d⟩
  unfold removeAt
  split
  · rename_i k _
    have := gen (fun x => x.name != k) false false p.dropLast
    have heq : dropKids (fun x => x.name != k) false false =
        (fun pe : Entry => pe.withDir (pe.dir.filter (·.name != k))) := by
      funext x; cases x; rfl
    rw [heq] at this; exact this
  · have := gen (fun _ => true) true false p.dropLast
    have heq : dropKids (fun _ => true) true false =
        (fun pe : Entry => match pe with | .mk d c _ o => .mk d c [] o) := by
      funext x; cases x; simp [dropKids]
    rw [heq] at this; exact this
  · have := gen (fun _ => true) false true p.dropLast
    have heq : dropKids (fun _ => true) false true =
        (fun pe : Entry => match pe with | .mk d c i _ => .mk d c i []) := by
      funext x; cases x; simp [dropKids]
    rw [heq] at this; exact this
  · exact h

end DPLemmas

section DevStage
variable {env : Env} {tp : Bool} (hq : LocalOK env (wfqB tp))
include hq

/-- The deviations of one module keep the tree invariant, unless they return an error. -/
theorem dp_applyDeviations (reg : Registry) (opts : Opts) (m : Mod) (devs : List (Stmt × List (String × Entry)))
    (f : Forest) (hf : ForestAll (DP tp) f) (hclean : (applyDeviations reg opts m devs f).2 = []) :
    ForestAll (DP tp) (applyDeviations reg opts m devs f).1 := by
  revert hclean
  unfold applyDeviations
  refine foldl_inv (fun acc : Forest × List Err => acc.2 = [] → ForestAll (DP tp) acc.1) _ devs (f, []) (fun _ => hf) ?_
  rintro ⟨f, errs⟩ ⟨dstmt, deviates⟩ _ hP
  dsimp only at hP ⊢
  have hfind := fun h => dp_find hq reg f (m.seq, []) m.seq dstmt.arg h pathOK_nil
  generalize find reg f (m.seq, []) m.seq dstmt.arg = r at hfind
  obtain ⟨target, f'⟩ := r
  dsimp only at hfind ⊢
  split
  · intro h; simp at h
  · rename_i t path
    split
    · intro h; simp at h
    · rename_i node0 hn0
      dsimp only
      have key := foldl_inv (fun acc : Forest × Entry × Bool × List Err =>
          (∃ l, acc.2.2.2 = errs ++ l) ∧ (errs = [] → ForestAll (DP tp) acc.1 ∧
            (acc.2.2.1 = false → ∃ root, acc.1.tree? t = some root ∧ root.getAt path = some acc.2.1)))
        (fun (acc : Forest × Entry × Bool × List Err) (ds : String × Entry) =>
          let (f, node, detached, errs) := acc
          let (node', remove, es) := applyOneDeviate opts m.stmt ds.1 ds.2 (!path.isEmpty) node
          let es := if remove && detached then es ++ [Err.at_ m.stmt "deviate-already-removed"] else es
          let f := if detached then f else
            match f.tree? t with
            | none => f
            | some root =>
              let root := root.updateAt path fun _ => node'
              f.setTree t (if remove then removeAt root path else root)
          (f, node', detached || remove, errs ++ es))
        deviates (f', node0, false, errs) ⟨⟨[], by simp⟩, ?_⟩ ?_
      · intro hfin
        obtain ⟨⟨l, hl⟩, hk⟩ := key
        have he : errs = [] := by
          have := hl.symm.trans hfin
          simp only [List.append_eq_nil_iff] at this; exact this.1
        exact (hk he).1
      · intro he
        have hf' := (hfind (hP he)).1 (by simp)
        refine ⟨hf', fun _ => ?_⟩
        cases ht : f'.tree? t with
        | none => simp [ht] at hn0
        | some root =>
          simp only [ht, Option.bind_some] at hn0
          exact ⟨root, rfl, hn0⟩
      · rintro ⟨f2, node, detached, errs2⟩ ds _ ⟨⟨l, hl⟩, hk⟩
        dsimp only at hl hk ⊢
        refine ⟨⟨l ++ _, by rw [hl, List.append_assoc]⟩, ?_⟩
        intro he
        obtain ⟨hf2, hnode⟩ := hk he
        have hpath : PathOK path := (hfind (hP he)).2 t path rfl
        have heq := applyOneDeviate_equiv opts m.stmt ds.1 ds.2 (!path.isEmpty) node
        cases detached with
        | true =>
          simp only [if_true, Bool.true_or]
          exact ⟨hf2, fun h => absurd h (by simp)⟩
        | false =>
          simp only [Bool.false_eq_true, if_false, Bool.false_or]
          obtain ⟨root, hroot, hg⟩ := hnode rfl
          simp only [hroot]
          have hrep := dp_replace hq root path node _ (forestAll_tree? _ _ _ hf2 hroot) hpath hg heq
          refine ⟨?_, ?_⟩
          · apply forestAll_setTree _ _ _ hf2
            split
            · exact dp_removeAt hq _ _ hrep.1
            · exact hrep.1
          · intro hrem
            simp only [hrem, Bool.false_eq_true, if_false]
            refine ⟨_, ?_, hrep.2⟩
            rw [tree?_setTree]; simp [hroot]

theorem dp_devStage (reg : Registry) (opts : Opts) (plug : Plug) (hqe : env = envOf reg opts plug)
    (f0 : Forest) (h : ForestAll (DP tp) f0) (hclean : (devStage reg opts plug f0).2.1 = []) :
    ForestAll (DP tp) (devStage reg opts plug f0).1 := by
  revert hclean
  unfold devStage
  refine foldl_inv (fun acc : Forest × List Err × List String => acc.2.1 = [] → ForestAll (DP tp) acc.1) _ _ _
    (fun _ => h) ?_
  rintro ⟨f, errs, done⟩ m _ hP
  dsimp only at hP ⊢
  split
  · exact hP
  · dsimp only
    intro he
    simp only [List.append_eq_nil_iff] at he
    exact dp_applyDeviations hq _ _ _ _ _ (hP he.1) he.2

end DevStage

/-! ### the result of a clean `Process` -/

theorem process_clean_dp (reg : Registry) (opts : Opts) (plug : Plug) (tp : Bool)
    (ht : tp = true → TypeResTotal plug.tres) (h : (processAll reg opts plug).errors = []) :
    ForestAll (DP tp) (processAll reg opts plug).forest := by
  have hq : LocalOK (envOf reg opts plug) (wfqB tp) := localOK_wfqB _ tp ht
  obtain ⟨_, _, _, h4, h5⟩ := processAll_clean reg opts plug h
  rw [h5]
  refine dp_devStage hq reg opts plug rfl _ ?_ h4
  intro t ht'
  obtain ⟨a, b, c, d⟩ := preDev_clean reg opts plug hq (wfqB_fixChoice tp) h t ht'
  exact ⟨a, b, c, d, preDev_choiceCases reg opts plug h t ht'⟩

theorem everyNode_imp (p q : Entry → Bool) (hpq : ∀ x, p x = true → q x = true) (e : Entry)
    (h : everyNode p e = true) : everyNode q e = true := by
  induction e using entry_ind with
  | h d c i o hc hi ho =>
    rw [everyNode_mk] at h ⊢
    exact ⟨hpq _ h.1, fun x hx => hc x hx (h.2.1 x hx), fun x hx => hi x hx (h.2.2.1 x hx),
      fun x hx => ho x hx (h.2.2.2 x hx)⟩

theorem wfqB_keysUnique (tp : Bool) (x : Entry) (h : wfqB tp x = true) : keysUniqueHere x = true := by
  simp only [wfqB, wfq, Bool.and_eq_true] at h; exact h.1.1.1

theorem wfqB_typePresent (x : Entry) (h : wfqB true x = true) : typePresentHere x = true := by
  simp only [wfqB, Bool.and_eq_true, Bool.not_true, Bool.false_or] at h; exact h.2

/-- From the entry-layer predicate to the specification's kind consistency: no deviate entry is
in the tree (the root is not one, and no node has one as a child), no error is left, and the
choices have been fixed. -/
theorem kindsConsistent_of (tp : Bool) (e : Entry) (hk : e.d.kind ≠ .deviate) (hne : NoErrors e)
    (hw : everyNode (wfqB tp) e = true) (hc : ChoiceCases e) : KindsConsistent e := by
  unfold KindsConsistent
  induction e using entry_ind with
  | h d c i o ihc ihi iho =>
    rw [noErrors_mk] at hne
    rw [everyNode_mk] at hw ⊢
    rw [choiceCases_mk] at hc
    have hw0 := hw.1
    rw [wfqB_iff] at hw0
    obtain ⟨_, kw, ⟨n1, n2, n3⟩, _⟩ := hw0
    refine ⟨?_, fun x hx => ihc x hx (n1 x hx) (hne.2.1 x hx) (hw.2.1 x hx) (hc.2.1 x hx),
      fun x hx => ihi x hx (n2 x hx) (hne.2.2.1 x hx) (hw.2.2.1 x hx) (hc.2.2.1 x hx),
      fun x hx => iho x hx (n3 x hx) (hne.2.2.2 x hx) (hw.2.2.2 x hx) (hc.2.2.2 x hx)⟩
    simp only [Entry.d] at hk
    simp only [kindsWeakHere, Entry.d, Bool.and_eq_true, Bool.or_eq_true, Bool.not_eq_true', beq_iff_eq] at kw
    simp only [kindsConsistentHere, Entry.d, Entry.dir, Bool.and_eq_true, Bool.or_eq_true, Bool.not_eq_true',
      beq_iff_eq, List.all_eq_true]
    refine ⟨⟨kw.1, ?_⟩, ?_⟩
    · rcases kw.2 with ((h | h) | h) | h
      · exact Or.inl (Or.inl h)
      · exact Or.inl (Or.inr h)
      · exact Or.inr h
      · exact absurd h hk
    · by_cases hch : d.kind = .choice
      · exact Or.inr (hc.1 hch hne.1)
      · left; simpa using hch

/-- The value-level half of C04. -/
theorem process_clean_wf (reg : Registry) (opts : Opts) (plug : Plug)
    (h : (processAll reg opts plug).errors = []) :
    ∀ t ∈ (processAll reg opts plug).forest.trees, WFTree t.2 ∧ NoErrors t.2 := by
  intro t ht
  have := process_clean_dp reg opts plug false (fun h => absurd h (by simp)) h t ht
  refine ⟨⟨everyNode_imp _ _ (wfqB_keysUnique false) _ this.wf, ?_⟩, this.ne⟩
  exact kindsConsistent_of false t.2 (by rw [this.kind]; decide) this.ne this.wf this.cc

theorem process_clean_types (reg : Registry) (opts : Opts) (plug : Plug) (htot : TypeResTotal plug.tres)
    (h : (processAll reg opts plug).errors = []) :
    ∀ t ∈ (processAll reg opts plug).forest.trees, TypesPresent t.2 := by
  intro t ht
  have := process_clean_dp reg opts plug true (fun _ => htot) h t ht
  exact everyNode_imp _ _ wfqB_typePresent _ this.wf

end Goyang.Lemmas.Tree
