import Goyang.Model.Types
import Goyang.Spec.Types
/-
Helper lemmas for property C09 (Goyang/Props/C09.lean): the typedef lookup of the impl model is
sound for the binding relation of the specification; frame and monotonicity lemmas for the overlay
steps of `Type.resolve`.
-/
namespace Goyang.Lemmas.Types
open Goyang.Model Goyang.Model.Types Goyang.Spec.Types

/-! ## The dictionary of one statement -/

theorem kinds_agree (k : String) : typedeferKinds.contains k = scopeKinds.contains k := by
  simp only [typedeferKinds, scopeKinds, List.contains_cons, List.contains_nil, Bool.or_false]
  ac_rfl

theorem findIn_eq (n : Stmt) (name : String) : findIn n name = (declared n name).getLast? := by
  unfold findIn declared
  rw [kinds_agree]
  split
  · simp only [Stmt.all, List.filter_filter]
    congr 1
    apply List.filter_congr
    intro x _
    exact Bool.and_comm _ _
  · simp

theorem findIn_some {n : Stmt} {name : String} {td : Stmt} (h : findIn n name = some td) :
    td ∈ declared n name := by
  rw [findIn_eq] at h
  exact List.mem_of_getLast? h

theorem findIn_none {n : Stmt} {name : String} (h : findIn n name = none) : declared n name = [] := by
  rw [findIn_eq] at h
  exact List.getLast?_eq_none_iff.mp h

/-- A statement that cannot hold typedefs declares none. -/
theorem declared_of_not_scope {n : Stmt} {name : String} (h : scopeKinds.contains n.kw = false) :
    declared n name = [] := by
  unfold declared; rw [h]; simp

/-! ## The walk over the ancestors -/

theorem findInScope_some {root : Mod} {name : String} :
    ∀ {sc : List Stmt} {r : TdRef}, findInScope root name sc = some r →
      ∃ pre n up, sc = pre ++ n :: up ∧ (∀ x ∈ pre, declared x name = []) ∧
        r.td ∈ declared n name ∧ r.root = root ∧ r.scope = n :: up := by
  intro sc
  induction sc with
  | nil => intro r h; simp [findInScope] at h
  | cons n up ih =>
    intro r h
    unfold findInScope at h
    split at h
    · rename_i td htd
      cases h
      exact ⟨[], n, up, rfl, by simp, findIn_some htd, rfl, rfl⟩
    · rename_i hnone
      obtain ⟨pre, n', up', hsc, hpre, htd, hr, hs⟩ := ih h
      refine ⟨n :: pre, n', up', by rw [hsc]; rfl, ?_, htd, hr, hs⟩
      intro x hx
      cases hx with
      | head => exact findIn_none hnone
      | tail _ hx => exact hpre x hx

theorem findInScope_none {root : Mod} {name : String} :
    ∀ {sc : List Stmt}, findInScope root name sc = none → ∀ x ∈ sc, declared x name = [] := by
  intro sc
  induction sc with
  | nil => intro _ x hx; cases hx
  | cons n up ih =>
    intro h x hx
    unfold findInScope at h
    split at h
    · cases h
    · rename_i hnone
      cases hx with
      | head => exact findIn_none hnone
      | tail _ hx => exact ih h x hx

/-! ## The walk over a module and its submodules -/

theorem firstHit_found {α σ : Type} (f : α → σ → Lookup × σ) :
    ∀ (l : List α) (s s' : σ) (r : TdRef), firstHit f l s = (.found r, s') →
      ∃ a ∈ l, ∃ s1 s2, f a s1 = (.found r, s2) := by
  intro l
  induction l with
  | nil => intro s s' r h; simp [firstHit] at h
  | cons a rest ih =>
    intro s s' r h
    unfold firstHit at h
    split at h
    · rename_i s1 hfa
      obtain ⟨b, hb, s2, s3, hf⟩ := ih _ _ _ h
      exact ⟨b, List.mem_cons_of_mem _ hb, s2, s3, hf⟩
    · rename_i hne
      refine ⟨a, List.mem_cons_self, s, s', ?_⟩
      rw [← h]

theorem firstHit_found' {α σ : Type} (f : α → σ → Lookup × σ) (l : List α) (s : σ) (r : TdRef)
    (h : (firstHit f l s).1 = .found r) : ∃ a ∈ l, ∃ s1 s2, f a s1 = (.found r, s2) :=
  firstHit_found f l s (firstHit f l s).2 r (by rw [← h])

/-- A linked include target is what the registry resolves one of the include statements to. -/
theorem includeTargets_sub (env : Env) (m im : Mod) (h : im ∈ env.includeTargets m) :
    Includes env.reg m im := by
  unfold Env.includeTargets Identity.includeTargets at h
  unfold Includes includesOf
  rw [List.mem_filterMap] at h ⊢
  obtain ⟨⟨s, i⟩, hmem, hsome⟩ := h
  simp only at hsome
  refine ⟨s, ?_, ?_⟩
  · exact (List.mem_zipIdx hmem).2.2 ▸ List.getElem_mem _
  · split at hsome
    · exact hsome
    · cases hsome

theorem findInModule_sound (env : Env) (name : String) :
    ∀ (fuel : Nat) (m : Mod) (seen seen' : List Nat) (r : TdRef),
      findInModule env name fuel m seen = (.found r, seen') →
        IncludesStar env.reg m r.root ∧ r.td ∈ declared r.root.stmt name ∧ r.scope = [r.root.stmt] := by
  intro fuel
  induction fuel with
  | zero => intro m seen seen' r h; simp [findInModule] at h
  | succ fuel ih =>
    intro m seen seen' r h
    unfold findInModule at h
    split at h
    · simp at h
    · split at h
      · rename_i td htd
        simp only [Prod.mk.injEq, Lookup.found.injEq] at h
        obtain ⟨hr, _⟩ := h
        subst hr
        exact ⟨IncludesStar.refl _, findIn_some htd, rfl⟩
      · obtain ⟨im, him, s1, s2, hf⟩ := firstHit_found _ _ _ _ _ h
        obtain ⟨hstar, htd, hsc⟩ := ih im s1 s2 r hf
        exact ⟨IncludesStar.head (includeTargets_sub env m im him) hstar, htd, hsc⟩

theorem findInModule_sound' (env : Env) (name : String) (fuel : Nat) (m : Mod) (seen : List Nat) (r : TdRef)
    (h : (findInModule env name fuel m seen).1 = .found r) :
    IncludesStar env.reg m r.root ∧ r.td ∈ declared r.root.stmt name ∧ r.scope = [r.root.stmt] :=
  findInModule_sound env name fuel m seen (findInModule env name fuel m seen).2 r (by rw [← h])

theorem findLocalModules_sound (env : Env) (root : Mod) (name : String) (r : TdRef)
    (h : findLocalModules env root name = .found r) :
    InUnit env.reg root r.root ∧ r.td ∈ declared r.root.stmt name ∧ r.scope = [r.root.stmt] := by
  unfold findLocalModules at h
  simp only at h
  obtain ⟨m, hm, s1, s2, hf⟩ := firstHit_found' _ _ _ _ h
  obtain ⟨hstar, htd, hsc⟩ := findInModule_sound env name _ m s1 s2 r hf
  refine ⟨?_, htd, hsc⟩
  split at hm
  · rename_i b hb
    cases hm with
    | head => exact Or.inl hstar
    | tail _ hm =>
      have hm' : m ∈ (env.reg.getModule b).toList := hm
      rw [Option.mem_toList] at hm'
      exact Or.inr ⟨b, m, hb, hm', hstar⟩
  · cases hm with
    | head => exact Or.inl hstar
    | tail _ hm => cases hm

/-! ## Built-in names -/

theorem builtin_agree (n : String) : (builtin? n).isSome = builtinNames.contains n := by
  unfold builtin? builtinTable builtinNames
  simp only [Option.isSome_map, List.find?, List.contains_cons, List.contains_nil, Bool.or_false]
  by_cases h0 : n = "int8"
  · subst h0; decide
  by_cases h1 : n = "int16"
  · subst h1; decide
  by_cases h2 : n = "int32"
  · subst h2; decide
  by_cases h3 : n = "int64"
  · subst h3; decide
  by_cases h4 : n = "uint8"
  · subst h4; decide
  by_cases h5 : n = "uint16"
  · subst h5; decide
  by_cases h6 : n = "uint32"
  · subst h6; decide
  by_cases h7 : n = "uint64"
  · subst h7; decide
  by_cases h8 : n = "decimal64"
  · subst h8; decide
  by_cases h9 : n = "string"
  · subst h9; decide
  by_cases h10 : n = "boolean"
  · subst h10; decide
  by_cases h11 : n = "enumeration"
  · subst h11; decide
  by_cases h12 : n = "bits"
  · subst h12; decide
  by_cases h13 : n = "binary"
  · subst h13; decide
  by_cases h14 : n = "leafref"
  · subst h14; decide
  by_cases h15 : n = "identityref"
  · subst h15; decide
  by_cases h16 : n = "empty"
  · subst h16; decide
  by_cases h17 : n = "union"
  · subst h17; decide
  by_cases h18 : n = "instance-identifier"
  · subst h18; decide
  simp only [beq_false_of_ne (Ne.symm h0), beq_false_of_ne h0, beq_false_of_ne (Ne.symm h1), beq_false_of_ne h1, beq_false_of_ne (Ne.symm h2), beq_false_of_ne h2, beq_false_of_ne (Ne.symm h3), beq_false_of_ne h3, beq_false_of_ne (Ne.symm h4), beq_false_of_ne h4, beq_false_of_ne (Ne.symm h5), beq_false_of_ne h5, beq_false_of_ne (Ne.symm h6), beq_false_of_ne h6, beq_false_of_ne (Ne.symm h7), beq_false_of_ne h7, beq_false_of_ne (Ne.symm h8), beq_false_of_ne h8, beq_false_of_ne (Ne.symm h9), beq_false_of_ne h9, beq_false_of_ne (Ne.symm h10), beq_false_of_ne h10, beq_false_of_ne (Ne.symm h11), beq_false_of_ne h11, beq_false_of_ne (Ne.symm h12), beq_false_of_ne h12, beq_false_of_ne (Ne.symm h13), beq_false_of_ne h13, beq_false_of_ne (Ne.symm h14), beq_false_of_ne h14, beq_false_of_ne (Ne.symm h15), beq_false_of_ne h15, beq_false_of_ne (Ne.symm h16), beq_false_of_ne h16, beq_false_of_ne (Ne.symm h17), beq_false_of_ne h17, beq_false_of_ne (Ne.symm h18), beq_false_of_ne h18]
  rfl

theorem builtin_none {n : String} (h : builtin? n = none) : builtinNames.contains n = false := by
  rw [← builtin_agree, h]; rfl

theorem builtin_some {n : String} {y : YType} (h : builtin? n = some y) : builtinNames.contains n = true := by
  rw [← builtin_agree, h]; rfl

/-- The YangType of a built-in: its own root, named and of the kind of the built-in. -/
theorem builtin_shape {n : String} {y : YType} (h : builtin? n = some y) :
    y.name = n ∧ y.kind = n ∧ y.root = none ∧ y.units = "" ∧ y.hasDefault = false ∧ y.default = "" ∧
    y.path = "" ∧ y.pattern = [] ∧ y.enum = none ∧ y.bit = none ∧ y.members = [] ∧ y.fractionDigits = 0 := by
  unfold builtin? at h
  rw [Option.map_eq_some_iff] at h
  obtain ⟨⟨n', r⟩, hf, hy⟩ := h
  have hn : n' = n := by
    have := List.find?_some hf
    simpa using this
  subst hy
  subst hn
  exact ⟨rfl, rfl, rfl, rfl, rfl, rfl, rfl, rfl, rfl, rfl, rfl, rfl⟩

/-! ## Errors of the overlays -/

theorem flatMap_errs_nil {members : List Res} (h : members.flatMap (·.errs) = []) :
    ∀ r ∈ members, r.errs = [] := by
  intro r hr
  rw [List.flatMap_eq_nil_iff] at h
  exact h r hr

/-- An error-free `Type.resolve` got as far as its member types, and they are error-free. -/
theorem overlayType_errs_nil {env : Env} {root : Mod} {t : Stmt} {src : Source} {tdY : YType}
    {members : List Res} (h : (overlayType env root t src tdY members).errs = []) :
    ∀ r ∈ members, r.errs = [] := by
  unfold overlayType at h
  simp only at h
  split at h
  · simp at h
  · split at h
    · simp at h
    · simp only [stepMembers, List.append_eq_nil_iff] at h
      exact flatMap_errs_nil h.2

/-- The keyword of a statement picked by `one?` / `all`. -/
theorem kw_of_one {s : Stmt} {k : String} {c : Stmt} (h : s.one? k = some c) : c.kw = k := by
  unfold Stmt.one? at h
  have := List.find?_some h
  simpa using this

theorem kw_of_all {s : Stmt} {k : String} {c : Stmt} (h : c ∈ s.all k) : c.kw = k := by
  unfold Stmt.all at h
  have := (List.mem_filter.mp h).2
  simpa using this

theorem type_not_scope {c : Stmt} (h : c.kw = "type") : scopeKinds.contains c.kw = false := by
  rw [h]; decide

end Goyang.Lemmas.Types
